import Mamba.Lemmas.IsoBasic
/-! Isomorphism is an equivalence relation; permutation lists are bijections; `bfCanon` is a complete invariant. -/
namespace GSearch
open GraphSpec

/-! ### bijections and permutation lists -/

theorem IsBij.id (n : Nat) : IsBij n (fun u => u) :=
  ⟨fun _ h => h, fun _ _ _ _ h => h, fun w h => ⟨w, h, rfl⟩⟩

theorem IsBij.comp {n : Nat} {σ τ : Nat → Nat} (hσ : IsBij n σ) (hτ : IsBij n τ) : IsBij n (fun u => τ (σ u)) where
  maps u h := hτ.maps _ (hσ.maps u h)
  inj u v hu hv h := hσ.inj u v hu hv (hτ.inj _ _ (hσ.maps u hu) (hσ.maps v hv) h)
  surj w h := by
    obtain ⟨x, hx, rfl⟩ := hτ.surj w h
    obtain ⟨u, hu, rfl⟩ := hσ.surj x hx
    exact ⟨u, hu, rfl⟩

/-- an inverse on `0..n-1` -/
noncomputable def IsBij.inv {n : Nat} {σ : Nat → Nat} (hσ : IsBij n σ) : Nat → Nat :=
  fun w => if h : w < n then Classical.choose (hσ.surj w h) else w

theorem IsBij.inv_spec {n : Nat} {σ : Nat → Nat} (hσ : IsBij n σ) {w : Nat} (h : w < n) :
    hσ.inv w < n ∧ σ (hσ.inv w) = w := by
  simp only [IsBij.inv, h, dite_true]
  exact Classical.choose_spec (hσ.surj w h)

theorem IsBij.inv_left {n : Nat} {σ : Nat → Nat} (hσ : IsBij n σ) {u : Nat} (h : u < n) : hσ.inv (σ u) = u :=
  hσ.inj _ _ (hσ.inv_spec (hσ.maps u h)).1 h (hσ.inv_spec (hσ.maps u h)).2

theorem IsBij.inv_isBij {n : Nat} {σ : Nat → Nat} (hσ : IsBij n σ) : IsBij n hσ.inv where
  maps w h := (hσ.inv_spec h).1
  inj u v hu hv h := by
    have := congrArg σ h
    rwa [(hσ.inv_spec hu).2, (hσ.inv_spec hv).2] at this
  surj w h := ⟨σ w, hσ.maps w h, hσ.inv_left h⟩

theorem Iso.refl (g : G) : Iso g g := ⟨rfl, fun u => u, IsBij.id _, fun _ _ _ _ => rfl⟩

theorem Iso.symm {g h : G} (i : Iso g h) : Iso h g := by
  obtain ⟨hn, σ, hσ, hadj⟩ := i
  refine ⟨hn.symm, hσ.inv, hn ▸ hσ.inv_isBij, ?_⟩
  intro u v hu hv
  rw [← hn] at hu hv
  have := hadj _ _ (hσ.inv_spec hu).1 (hσ.inv_spec hv).1
  rw [(hσ.inv_spec hu).2, (hσ.inv_spec hv).2] at this
  exact this.symm

theorem Iso.trans {g h k : G} (i : Iso g h) (j : Iso h k) : Iso g k := by
  obtain ⟨hn, σ, hσ, hadj⟩ := i
  obtain ⟨hn', τ, hτ, hadj'⟩ := j
  refine ⟨hn.trans hn', fun u => τ (σ u), hσ.comp (hn ▸ hτ), ?_⟩
  intro u v hu hv
  rw [hadj u v hu hv, hadj' _ _ (hn ▸ hσ.maps u hu) (hn ▸ hσ.maps v hv)]

/-- a permutation list of `0..n-1`, read as a function -/
theorem isBij_of_perm {n : Nat} {p : List Nat} (hp : p.Perm (List.range n)) : IsBij n (fun u => p.getD u 0) := by
  have hlen : p.length = n := by simpa using hp.length_eq
  have hnd : p.Nodup := (hp.nodup_iff).2 List.nodup_range
  refine ⟨?_, ?_, ?_⟩
  · intro u hu
    have hu' : u < p.length := hlen ▸ hu
    have : p.getD u 0 ∈ p := by
      rw [List.getD_eq_getElem?_getD, List.getElem?_eq_getElem hu']; exact List.getElem_mem hu'
    simpa using hp.mem_iff.1 this
  · intro u v hu hv h
    have hu' : u < p.length := hlen ▸ hu
    have hv' : v < p.length := hlen ▸ hv
    simp only [List.getD_eq_getElem?_getD, List.getElem?_eq_getElem hu', List.getElem?_eq_getElem hv',
      Option.getD_some] at h
    exact (hnd.getElem_inj_iff).1 h
  · intro w hw
    have : w ∈ p := hp.mem_iff.2 (by simpa using hw)
    obtain ⟨i, hi, rfl⟩ := List.getElem_of_mem this
    refine ⟨i, hlen ▸ hi, ?_⟩
    simp [List.getD_eq_getElem?_getD, List.getElem?_eq_getElem hi]

/-- a bijection of `0..n-1`, tabulated, is a permutation list -/
theorem perm_of_isBij {n : Nat} {σ : Nat → Nat} (hσ : IsBij n σ) : ((List.range n).map σ).Perm (List.range n) := by
  refine (List.perm_ext_iff_of_nodup ?_ List.nodup_range).2 ?_
  · refine List.Nodup.map_on ?_ List.nodup_range
    intro x hx y hy h
    exact hσ.inj x y (by simpa using hx) (by simpa using hy) h
  · intro a
    simp only [List.mem_map, List.mem_range]
    constructor
    · rintro ⟨u, hu, rfl⟩; exact hσ.maps u hu
    · intro ha; exact hσ.surj a ha

theorem getD_map_of_lt {p : List Nat} {σ : Nat → Nat} {u : Nat} (hu : u < p.length) :
    (p.map σ).getD u 0 = σ (p.getD u 0) := by
  simp [List.getD_eq_getElem?_getD, hu]

theorem getD_range {n u : Nat} (hu : u < n) : (List.range n).getD u 0 = u := by
  simp [List.getD_eq_getElem?_getD, hu]

/-! ### relabelled codes -/

theorem code_eq_relabelCode (g : G) : code g = relabelCode g (List.range g.n) := by
  unfold code relabelCode
  congr 1
  apply List.map_congr_left
  rintro ⟨u, v⟩ huv
  have := mem_pairs.1 huv
  show g.adj u v = g.adj ((List.range g.n).getD u 0) ((List.range g.n).getD v 0)
  rw [getD_range (Nat.lt_trans this.1 this.2), getD_range this.2]

/-- `bfCanon g` is the code of some relabelling … -/
theorem bfCanon_achieved (g : G) : ∃ p, p.Perm (List.range g.n) ∧ bfCanon g = relabelCode g p := by
  unfold bfCanon
  rcases foldl_min_mem ((perms g.n).map (relabelCode g)) (code g) with h | h
  · exact ⟨List.range g.n, List.Perm.refl _, h.trans (code_eq_relabelCode g)⟩
  · obtain ⟨p, hp, hpe⟩ := List.mem_map.1 h
    exact ⟨p, mem_perms.1 hp, hpe.symm⟩

/-- … and a lower bound of the codes of all relabellings -/
theorem bfCanon_le (g : G) {p : List Nat} (hp : p.Perm (List.range g.n)) : bfCanon g ≤ relabelCode g p :=
  foldl_min_le_mem _ _ _ (List.mem_map.2 ⟨p, mem_perms.2 hp, rfl⟩)

/-- transporting a relabelling along an isomorphism -/
theorem relabelCode_iso {g h : G} {σ : Nat → Nat} (hn : g.n = h.n) (hσ : IsBij g.n σ)
    (hadj : ∀ u v, u < g.n → v < g.n → g.adj u v = h.adj (σ u) (σ v))
    {p : List Nat} (hp : p.Perm (List.range g.n)) :
    relabelCode g p = relabelCode h (p.map σ) ∧ (p.map σ).Perm (List.range h.n) := by
  have hlen : p.length = g.n := by simpa using hp.length_eq
  have hb := isBij_of_perm hp
  constructor
  · unfold relabelCode
    rw [← hn]
    congr 1
    apply List.map_congr_left
    rintro ⟨u, v⟩ huv
    have huv' := mem_pairs.1 huv
    have hv : v < p.length := hlen ▸ huv'.2
    have hu : u < p.length := Nat.lt_trans huv'.1 hv
    simp only [getD_map_of_lt hu, getD_map_of_lt hv]
    exact hadj _ _ (hb.maps u (hlen ▸ hu)) (hb.maps v (hlen ▸ hv))
  · rw [← hn]
    exact (hp.map σ).trans (perm_of_isBij hσ)

theorem bfCanon_le_of_iso {g h : G} (i : Iso g h) : bfCanon h ≤ bfCanon g := by
  obtain ⟨hn, σ, hσ, hadj⟩ := i
  obtain ⟨p, hp, hpe⟩ := bfCanon_achieved g
  obtain ⟨h1, h2⟩ := relabelCode_iso hn hσ hadj hp
  rw [hpe, h1]
  exact bfCanon_le h h2

/-- the graph `g` relabelled by `p`, restricted to `0..n-1` -/
def relabel (g : G) (p : List Nat) : G :=
  { n := g.n, adj := fun u v => u < g.n && v < g.n && g.adj (p.getD u 0) (p.getD v 0) }

theorem relabel_iso (g : G) {p : List Nat} (hp : p.Perm (List.range g.n)) : Iso (relabel g p) g := by
  refine ⟨rfl, fun u => p.getD u 0, isBij_of_perm hp, ?_⟩
  intro u v hu hv
  simp only [relabel] at hu hv ⊢
  simp [hu, hv]

/-- equal codes of relabellings: the relabelled graphs agree on `0..n-1` -/
theorem adj_eq_of_relabelCode_eq {g h : G} (hg : g.WF) (hh : h.WF) (hn : g.n = h.n) {p q : List Nat}
    (hc : relabelCode g p = relabelCode h q) :
    ∀ u v, u < g.n → v < g.n → g.adj (p.getD u 0) (p.getD v 0) = h.adj (q.getD u 0) (q.getD v 0) := by
  unfold relabelCode at hc
  rw [← hn] at hc
  have hl := num_inj _ _ (by simp) hc
  have key : ∀ u v, u < v → v < g.n → g.adj (p.getD u 0) (p.getD v 0) = h.adj (q.getD u 0) (q.getD v 0) := by
    intro u v huv hv
    have hm : (u, v) ∈ pairs g.n := mem_pairs.2 ⟨huv, hv⟩
    have := List.map_inj_left.1 hl (u, v) hm
    exact this
  intro u v hu hv
  rcases Nat.lt_trichotomy u v with h1 | h1 | h1
  · exact key u v h1 hv
  · subst h1; rw [hg.irrefl, hh.irrefl]
  · rw [hg.symm, hh.symm]; exact key v u h1 hu

/-- **`bfCanon` is a complete isomorphism invariant** on well-formed graphs with the same number of vertices. -/
theorem bfCanon_eq_iff_iso {g h : G} (hg : g.WF) (hh : h.WF) (hn : g.n = h.n) : bfCanon g = bfCanon h ↔ Iso g h := by
  constructor
  · intro hc
    obtain ⟨p, hp, hpe⟩ := bfCanon_achieved g
    obtain ⟨q, hq, hqe⟩ := bfCanon_achieved h
    have hadj := adj_eq_of_relabelCode_eq hg hh hn (hpe.symm.trans (hc.trans hqe))
    have mid : Iso (relabel g p) (relabel h q) := by
      refine ⟨hn, fun u => u, IsBij.id _, ?_⟩
      intro u v hu hv
      simp only [relabel] at hu hv ⊢
      have hu' : u < h.n := hn ▸ hu
      have hv' : v < h.n := hn ▸ hv
      simp only [hu, hv, hu', hv', decide_true, Bool.true_and]
      exact hadj u v hu hv
    exact ((relabel_iso g hp).symm.trans mid).trans (relabel_iso h hq)
  · intro i
    exact Nat.le_antisymm (bfCanon_le_of_iso i.symm) (bfCanon_le_of_iso i)

/-! ### the tabulated version the checker runs -/

theorem tabulate_getD (g : G) {a b : Nat} (ha : a < g.n) (hb : b < g.n) :
    (tabulate g).getD (a * g.n + b) false = g.adj a b := by
  have hlt : a * g.n + b < g.n * g.n := by
    calc a * g.n + b < a * g.n + g.n := Nat.add_lt_add_left hb _
      _ = (a + 1) * g.n := by rw [Nat.add_mul, Nat.one_mul]
      _ ≤ g.n * g.n := Nat.mul_le_mul_right _ ha
  have hpos : 0 < g.n := Nat.lt_of_le_of_lt (Nat.zero_le _) ha
  simp only [tabulate, Array.getD_eq_getD_getElem?, Array.getElem?_ofFn, hlt, dite_true, Option.getD_some]
  have h1 : (a * g.n + b) / g.n = a := by
    rw [Nat.mul_comm, Nat.mul_add_div hpos, Nat.div_eq_of_lt hb, Nat.add_zero]
  have h2 : (a * g.n + b) % g.n = b := by
    rw [Nat.mul_comm, Nat.mul_add_mod, Nat.mod_eq_of_lt hb]
  rw [h1, h2]

theorem relabelCodeFast_eq (g : G) {p : List Nat} (hp : p.Perm (List.range g.n)) :
    relabelCodeFast g.n (tabulate g) (pairs g.n) p.toArray = relabelCode g p := by
  unfold relabelCodeFast relabelCode
  congr 1
  apply List.map_congr_left
  rintro ⟨u, v⟩ huv
  have hb := isBij_of_perm hp
  have huv' := mem_pairs.1 huv
  have hv : v < g.n := huv'.2
  have hu : u < g.n := Nat.lt_trans huv'.1 hv
  have e1 : p.toArray.getD u 0 = p.getD u 0 := by simp [Array.getD_eq_getD_getElem?, List.getD_eq_getElem?_getD]
  have e2 : p.toArray.getD v 0 = p.getD v 0 := by simp [Array.getD_eq_getD_getElem?, List.getD_eq_getElem?_getD]
  simp only [e1, e2]
  exact tabulate_getD g (hb.maps u hu) (hb.maps v hv)

theorem bfCanonFast_eq : bfCanonFast = bfCanon := by
  funext g
  unfold bfCanonFast bfCanon
  simp only
  congr 1
  apply List.map_congr_left
  intro p hp
  exact relabelCodeFast_eq g (mem_perms.1 hp)


end GSearch
