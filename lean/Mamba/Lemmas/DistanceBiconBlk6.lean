import Mamba.Lemmas.DistanceBiconBlk5
import Mathlib.Data.List.Nodup
/-!
# The blocks returned for one component, described through the final DFS tree and lowpoints
-/
namespace GDist
open GraphSpec Model

variable {h : G} {com : List Nat} {out0 : List (List Nat)} {st : BicSt} {tp : Nat → Nat} {cs : List Nat}

theorem bk_init (hn : 0 < h.n) (out0 : List (List Nat)) :
    BK h com out0 (bicInit h.n out0) (fun _ => 0) [] := by
  have hd := dI_bicInit hn out0
  have hvis : ∀ x, bvis (bicInit h.n out0) x ↔ x = 0 := by
    intro x; unfold bvis; rw [hd]
    by_cases hx : x = 0 <;> simp [hx]
  have hb : (bicInit h.n out0).bicoms = [[]] := rfl
  refine { btop := ?_, bmem := ?_, bnd := ?_, bord := ?_, bcur := ?_, bcov := ?_, bpend := ?_, broot := ?_,
           out := ⟨[], by simp [bicInit], List.Forall₂.nil⟩, csmem := ?_, csnd := List.nodup_nil }
  · intro b hb' x hx
    rw [hb] at hb'; simp at hb'; subst hb'; cases hx
  · intro b hb' x hx
    rw [hb] at hb'; simp at hb'; subst hb'; cases hx
  · rw [hb]; simp
  · rw [hb]; simp
  · intro cur x v rest hc hx
    rw [hb] at hc; simp at hc; subst hc; cases hx
  · intro x _ hxv _ hx0
    exact absurd ((hvis x).1 hxv) hx0
  · intro x _ hxv _ hx0
    exact absurd ((hvis x).1 hxv) hx0
  · intro _ _ x _ hxv
    exact (hvis x).1 hxv
  · intro c
    constructor
    · intro hc; cases hc
    · rintro ⟨_, h2, h3, _⟩
      exact absurd ((hvis c).1 h2) h3

/-- the blocks added by the DFS of one component: either the component is a single vertex, or they are the sets
`{tp c} ∪ {y | NL c y}` for the non-root vertices `c` with `lowpoints[c] >= depths[tp c]`, each once -/
def BlocksOf (h : G) (com : List Nat) (st : BicSt) (tp : Nat → Nat) (new : List (List Nat)) : Prop :=
  (h.n = 1 ∧ new = [[com.getD 0 0]]) ∨
  (1 < h.n ∧ ∃ ls : List Nat, List.Forall₂ (IsBlk h com st tp) new ls ∧ ls.Nodup ∧
    ∀ c, c ∈ ls ↔ (c < h.n ∧ c ≠ 0 ∧ lo st c ≥ dI st (tp c)))

theorem bfin_blocks (hinj : ∀ a b, a < h.n → b < h.n → com.getD a 0 = com.getD b 0 → a = b)
    {s st0 : BicSt} {t : Int} {c2 : List Nat} (hf : BFin h com out0 s st0 tp cs t c2)
    (hall : ∀ x, x < h.n → bvis s x) (hn : 0 < h.n) :
    ∃ new, s.out ++ (((s.bicoms.dropLast.map fun b => b ++ [0]) ++
        (match s.bicoms.getLast? with | some c => [c] | none => [])).map
          fun b => sortInts (b.map fun x => com.getD x 0)) = out0 ++ new ∧
      BlocksOf h com s tp new := by
  have dt := hf.dt
  have la := hf.la
  have bk := hf.bk
  obtain ⟨E, hE, hF⟩ := bk.out
  have hs : s = popSt st0 0 [] t st0.bicoms c2 := hf.eq
  have hvs : (0 : Nat) ∈ st0.toCheck := by rw [hf.stk]; exact List.mem_cons_self
  have hsplit := bicoms_split hf.last
  have hsb : s.bicoms = st0.bicoms.dropLast ++ [c2 ++ [0]] := by rw [hs]; rfl
  have hso : s.out = st0.out := by rw [hs]; rfl
  have hall0 : ∀ x, x < h.n → bvis st0 x := fun x hx => by
    have := hall x hx
    rw [hs] at this; exact this
  have hlist : ((s.bicoms.dropLast.map fun b => b ++ [0]) ++
      (match s.bicoms.getLast? with | some c => [c] | none => [])) = st0.bicoms.map fun b => b ++ [0] := by
    rw [hsb, List.dropLast_concat, List.getLast?_concat]
    conv_rhs => rw [hsplit]
    simp
  rw [hlist, hso, hE, List.append_assoc, List.map_map]
  refine ⟨_, rfl, ?_⟩
  have hvL : 0 < st0.low.size := by rw [dt.ok.lsz]; exact hn
  have hl : ∀ x, lo s x = if x = 0 then t else lo st0 x := by
    intro x; rw [hs]; exact lo_popSt [] t st0.bicoms c2 hvL x
  have hfin : ∀ x, x ≠ 0 → x ∉ st0.toCheck := fun x hx hm => by
    rw [hf.stk] at hm; simp at hm; exact hx hm
  by_cases hc2 : c2 = []
  · left
    subst hc2
    have hone : ∀ x, x < h.n → x = 0 := fun x hx => bk.broot hf.stk hf.last x hx (hall0 x hx)
    have hn1 : h.n = 1 := by
      by_contra hne
      have := hone 1 (by omega)
      omega
    have hdl : st0.bicoms.dropLast = [] := by
      cases hdl : st0.bicoms.dropLast with
      | nil => rfl
      | cons b l =>
        exfalso
        have hbm : b ∈ st0.bicoms.dropLast := by rw [hdl]; exact List.mem_cons_self
        have hbne := dt.ok.bpre b hbm
        obtain ⟨x, hx⟩ := getLast?_some_of_ne_nil hbne
        obtain ⟨h1, _, _, h4, _⟩ := bk.btop b ((List.dropLast_sublist _).subset hbm) x hx
        exact h4 (hone x h1)
    have hcs : cs = [] := by
      cases hcs : cs with
      | nil => rfl
      | cons c l =>
        exfalso
        obtain ⟨h1, _, h3, _⟩ := (bk.csmem c).1 (by rw [hcs]; exact List.mem_cons_self)
        exact h3 (hone c h1)
    subst hcs
    have hE0 : E = [] := by cases hF; rfl
    subst hE0
    refine ⟨hn1, ?_⟩
    rw [hsplit, hdl]
    simp [sortInts]
  · right
    have hne_all : ∀ b ∈ st0.bicoms, b ≠ [] := by
      intro b hb
      rw [hsplit] at hb
      rcases List.mem_append.1 hb with h0 | h0
      · exact dt.ok.bpre b h0
      · simp at h0; rw [h0]; exact hc2
    have htopm : ∀ b ∈ st0.bicoms, ∃ x, b.getLast? = some x ∧ x < h.n ∧ bvis st0 x ∧ x ∉ st0.toCheck ∧ x ≠ 0 ∧
        tp x = 0 ∧ pa st0 x = 0 := by
      intro b hb
      obtain ⟨x, hx⟩ := getLast?_some_of_ne_nil (hne_all b hb)
      obtain ⟨h1, h2, h3, h4, h5, h6⟩ := bk.btop b hb x hx
      have : tp x = 0 := by rw [hf.stk] at h5; simpa using h5
      exact ⟨x, hx, h1, h2, h3, h4, this, by rw [h6, this]; rfl⟩
    have hn2 : 1 < h.n := by
      obtain ⟨x, _, h1, _, _, h4, _⟩ := htopm c2 (List.mem_of_getLast? hf.last)
      omega
    refine ⟨hn2, cs ++ st0.bicoms.map (fun b => b.getLast?.getD 0), ?_, ?_, ?_⟩
    · refine List.rel_append (hF.imp fun S c hb => by rw [hs]; exact isBlk_pop dt hf.stk hb) ?_
      rw [List.forall₂_map_left_iff, List.forall₂_map_right_iff, List.forall₂_same]
      intro b hb
      obtain ⟨x, hx, h1, h2, h3, h4, h5, h6⟩ := htopm b hb
      rw [hx, hs]
      apply isBlk_pop dt hf.stk
      simp only [Function.comp, Option.getD_some]
      have hnd := (List.nodup_flatten.1 bk.bnd).1 b hb
      refine isBlk_of_list hinj ⟨h1, h2, h3, h4⟩ h5.symm hn (by unfold bvis; rw [dt.root]; omega) hnd ?_
        (bk.bmem b hb x hx)
      intro hm
      exact (bk.mem_fin dt hb hm).2.2 hvs
    · rw [List.nodup_append]
      refine ⟨bk.csnd, ?_, ?_⟩
      · rw [List.Nodup, List.pairwise_map]
        refine (List.nodup_flatten.1 bk.bnd).2.imp_of_mem ?_
        intro b b' hb hb' hdis heq
        obtain ⟨x, hx, _⟩ := htopm b hb
        obtain ⟨x', hx', _⟩ := htopm b' hb'
        rw [hx, hx'] at heq
        simp at heq
        subst heq
        exact hdis (List.mem_of_getLast? hx) (List.mem_of_getLast? hx')
      · intro a ha b' hb' hab
        subst hab
        obtain ⟨b, hb, hbx⟩ := List.mem_map.1 hb'
        obtain ⟨x, hx, _, _, _, _, _, h6⟩ := htopm b hb
        rw [hx] at hbx
        simp at hbx
        subst hbx
        have := ((bk.csmem x).1 ha).2.2.2
        rw [h6] at this; omega
    · intro c
      have hlc : ∀ c, c ≠ 0 → lo s c = lo st0 c := fun c hc => by rw [hl]; simp [hc]
      have hdc : ∀ x, dI s x = dI st0 x := fun x => by rw [hs]; rfl
      rw [List.mem_append]
      constructor
      · rintro (hc | hc)
        · obtain ⟨h1, h2, h3, h4⟩ := (bk.csmem c).1 hc
          have := (la.ar2 c h1 h2 h3 h4).2.2.1
          exact ⟨h1, h3, by rw [hlc c h3, hdc]; exact this⟩
        · obtain ⟨b, hb, hbx⟩ := List.mem_map.1 hc
          obtain ⟨x, hx, h1, h2, h3, h4, h5, h6⟩ := htopm b hb
          rw [hx] at hbx
          simp at hbx
          subst hbx
          refine ⟨h1, h4, ?_⟩
          rw [hlc x h4, hdc, h5, dt.root]
          rcases la.loatt x h1 h2 h3 with h0 | ⟨z, a, _, _, _, _, _, _, h0⟩
          · rw [h0]; exact dt.dnn x h2
          · rw [h0]; exact dt.dnn a (hall0 a (by assumption))
      · rintro ⟨hc, hc0, hlc'⟩
        rw [hlc c hc0, hdc] at hlc'
        have hcv := hall0 c hc
        have hcs := hfin c hc0
        rcases la.ar1 c hc hcv hc0 with hp | hp
        · by_cases htc : tp c = 0
          · right
            obtain ⟨b, hb, hbx⟩ := bk.bcov c hc hcv hcs hc0 (by rw [htc]; exact hvs) hp
            exact List.mem_map.2 ⟨b, hb, by rw [hbx]; rfl⟩
          · exfalso
            obtain ⟨rest', hr, _⟩ := la.ar3 c hc hcv hcs hc0 hp htc hlc'
            rw [hf.stk] at hr
            have := (List.cons.inj hr).1
            exact htc this.symm
        · left
          exact (bk.csmem c).2 ⟨hc, hcv, hc0, hp⟩

end GDist
