import Mamba.Lemmas.DawgSearchA
/-! # C13 helper lemmas, part D: `PatternSearcher` is lawful and accepts exactly the words matching the pattern -/
namespace DawgSearch

/-- what a `PatternSearcher` for `(pattern, blank)` does as a function of the path -/
def patternSpec (pat : List UInt8) (blank : UInt8) : Spec SState where
  R rp s := s = .pat ⟨pat, blank, rp.length⟩
  A rp c := match pat[rp.length]? with
    | some x => x == blank || x == c
    | none => false
  W rp := rp.length == pat.length

theorem patternSpec_lawful (pat : List UInt8) (blank : UInt8) : Lawful goOps (patternSpec pat blank) where
  allowStep := by
    intro rp s c h
    subst h
    simp only [goOps, PatternSearcher.allowStep, patternSpec]
    by_cases hlen : pat.length ≤ rp.length
    · have : (pat.length : Int) ≤ (rp.length : Int) := by omega
      simp [this, List.getElem?_eq_none hlen]
    · have h1 : ¬ (pat.length : Int) ≤ (rp.length : Int) := by omega
      have h2 : ¬ (rp.length : Int) < 0 := by omega
      simp only [h1, h2, if_false, Int.toNat_natCast]
      have : rp.length < pat.length := by omega
      simp [List.getElem?_eq_getElem this]
  step := by
    intro rp s c h _
    subst h
    exact ⟨_, rfl, by simp [patternSpec]⟩
  backstep := by
    intro rp s c h
    subst h
    refine ⟨.pat ⟨pat, blank, rp.length⟩, ?_, rfl⟩
    simp [goOps, PatternSearcher.backstep]
  allowWord := by
    intro rp s h
    subst h
    simp only [goOps, PatternSearcher.allowWord, patternSpec]
    congr 1
    rw [Bool.eq_iff_iff]
    simp only [beq_iff_eq]
    omega
  chosen := by
    intro rp s h
    exact ⟨s, by subst h; rfl, h⟩

theorem patternSpec_accFrom (pat : List UInt8) (blank : UInt8) : ∀ (w rp : Word), rp.length ≤ pat.length →
    (patternSpec pat blank).accFrom rp w = patternMatches blank (pat.drop rp.length) w
  | [], rp, h => by
    simp only [Spec.accFrom, patternSpec]
    by_cases he : rp.length = pat.length
    · simp [he, patternMatches]
    · have : rp.length < pat.length := by omega
      rw [List.drop_eq_getElem_cons this]
      simp [patternMatches, he]
  | c :: w, rp, h => by
    simp only [Spec.accFrom]
    by_cases he : rp.length = pat.length
    · simp [patternSpec, he, patternMatches]
    · have hlt : rp.length < pat.length := by omega
      rw [List.drop_eq_getElem_cons hlt]
      have ih := patternSpec_accFrom pat blank w (c :: rp) (by simp; omega)
      rw [ih]
      simp [patternSpec, List.getElem?_eq_getElem hlt, patternMatches]

theorem patternSpec_accepts (pat : List UInt8) (blank : UInt8) (w : Word) :
    (patternSpec pat blank).accepts w = patternMatches blank pat w := by
  simpa [Spec.accepts] using patternSpec_accFrom pat blank w [] (by simp)

end DawgSearch
