import Mamba.Lemmas.CanonFDfsPop
import Mamba.Lemmas.CanonFDfsSkip
/-!
# The complete DFS invariant at a leaf that is better than `currentBest` (not the first leaf): `dfs_leaf_accept`

The leaf becomes the best leaf: `gh' = { gh with vs := vs.dropLast, vsB := vs, bgs := [] }`.
-/
namespace CanonF

/-- the state after the leaf branch in the case "better than `currentBest`, not the first leaf" -/
theorem la_shape {n m : Nat} {nb : Nbrs}
    (hlenm : ∀ o : List Nat, o.Perm (List.range n) → (certPos nb o n).length = m) {s s1 : LS}
    (hc : Core n s) (hg : GInv n m nb s) (hval : s.op.value.toList = certPos nb s.op.order.toList n)
    (hcmp : compare s.op.value.toList s.currentBest.toList = 1) (hcnt : 0 < s.count)
    (h : leafNode n m s = .ok s1) :
    ∃ (cb bpi : Sl Nat) (bo : Disjoint.DS),
      s1 = { s with count := s.count + 1, currentBest := cb, bestPath := s.bestPath.copyFrom s.path.reverse,
                    bestPerm := s.bestPerm.copyFrom s.op.order.toList, bestPermInv := bpi, bestOrbits := bo } ∧
      cb.toList = s.op.value.toList ∧ (s.bestPerm.copyFrom s.op.order.toList).toList = s.op.order.toList ∧
      InvOf s.op.order.toList bpi ∧ bo = Disjoint.new n := by
  have hvlen : s.op.value.toList.length = m := by rw [hval]; exact hlenm _ hc.part.perm
  have holen : s.op.order.toList.length = n := by rw [Sl.length_toList _ hc.part.wfOrder, hc.part.lenOrder]
  unfold leafNode at h
  dsimp only at h
  have hc1 : (compare s.op.value.toList s.currentBest.toList == 1 || s.count + 1 == 1) = true := by
    rw [hcmp]; rfl
  rw [if_pos hc1] at h
  cases hrs : s.currentBest.reslice m with
  | panic => rw [hrs] at h; cases h
  | outOfFuel => rw [hrs] at h; cases h
  | ok cb =>
    rw [hrs] at h
    simp only at h
    obtain ⟨cbl, cbd, cbw⟩ := Sl.reslice_len hrs
    have hcbT : (cb.copyFrom s.op.value.toList).toList = s.op.value.toList :=
      Sl.copyFrom_toList cb cbw _ (by rw [hvlen, cbl])
    have hbpT : (s.bestPerm.copyFrom s.op.order.toList).toList = s.op.order.toList :=
      Sl.copyFrom_toList _ hc.bestWf _ (by rw [holen, hc.bestLen])
    split at h
    · rename_i bestPermInv' bestOrbits' hloop
      obtain ⟨_, _, r3, r4, _, _⟩ := resetLoop_spec hc.part.perm hc.part.wfOrder hc.part.lenOrder hg.orbSz.2 hloop
      rw [if_neg (show ¬ (s.count + 1 = 1) by omega)] at h
      cases h
      exact ⟨_, _, _, rfl, hcbT, hbpT, r3, r4⟩
    · cases h
    · cases h

/-- in a strictly ascending list an element has one index -/
theorem la_idx_unique {l : List Nat} (hs : l.Pairwise (· < ·)) {i j w : Nat} (hi : l[i]? = some w) (hj : l[j]? = some w) :
    i = j := by
  obtain ⟨hil, hiv⟩ := List.getElem?_eq_some_iff.1 hi
  obtain ⟨hjl, hjv⟩ := List.getElem?_eq_some_iff.1 hj
  rcases Nat.lt_trichotomy i j with h | h | h
  · have := List.pairwise_iff_getElem.1 hs i j hil hjl h; omega
  · exact h
  · have := List.pairwise_iff_getElem.1 hs j i hjl hil h; omega

theorem la_levelsOK_ne {op : OP} {p : Nat} {ps choices : List Nat} {lv : List (Nat × Nat)}
    (h : LevelsOK op (p :: ps) choices lv) : ∃ c cs st sz ls, choices = c :: cs ∧ lv = (st, sz) :: ls ∧ c = st + p := by
  match choices, lv, h with
  | c :: cs, (st, sz) :: ls, h =>
    simp only [LevelsOK] at h
    exact ⟨c, cs, st, sz, ls, rfl, rfl, h.2.2.1⟩

section
variable {n : Nat} {nb : Nbrs} {rf : Nat} {r : IR.St}

/-- one frame: the current leaf (vertex path `vs`) becomes the best leaf. `incl = true` (the top frame) needs the
completeness of the current child -/
theorem la_frameAux1 {gh gh' : Gh} {s s' : LS} {vs : List Nat} {incl : Bool} {ps : List Nat} {c st sz p v : Nat}
    (h : FrameAux1 n nb rf r gh s vs false ps c st sz) (hcp : c = st + p)
    (hv : vs[ps.length]? = some v) (hvc : (cellL n nb rf r vs ps.length st)[p]? = some v)
    (g1 : gh'.vsF = gh.vsF) (g2 : gh'.vsB = vs) (g3 : gh'.bgs = [])
    (hcnt : 0 < s.count) (hcnt' : 0 < s'.count)
    (hb : ∀ x, compare x s.currentBest.toList ≠ 1 → compare x s'.currentBest.toList ≠ 1)
    (e3 : s'.gens = s.gens) (e4 : s'.ngens = s.ngens)
    (htop : incl = true →
      Complete n nb rf s'.currentBest.toList (IR.childSt (irG n nb) rf (nodeL n nb rf r vs ps.length) st v)) :
    FrameAux1 n nb rf r gh' s' vs incl ps c st sz := by
  have hsorted : (cellL n nb rf r vs ps.length st).Pairwise (· < ·) := cellMembers_sorted _ _ _
  have hcs : c - st = p := by omega
  constructor
  · intro _; rw [g1]; exact h.futF hcnt
  · intro _ j w hj hw hc
    rw [g2] at hc
    rw [hc.2] at hv
    cases hv
    have := la_idx_unique hsorted hw hvc
    omega
  · intro _ hpre i w hi hw hx
    rw [g1] at hpre hx
    by_cases hpi : p < i
    · exact fun x hx' => hb x (h.bpF hcnt hpre i w (by simp only [Bool.false_eq_true, if_false]; omega) hw hx x hx')
    · cases incl with
      | false => simp only [Bool.false_eq_true, if_false] at hi; omega
      | true =>
        simp only [if_true] at hi
        have : i = p := by omega
        subst this
        rw [hvc] at hw; cases hw
        exact htop rfl
  · intro _ _ i w hi hw hx
    rw [g2, hv] at hx
    cases hx
    have hip := la_idx_unique hsorted hw hvc
    subst hip
    cases incl with
    | false => simp only [Bool.false_eq_true, if_false] at hi; omega
    | true => exact htop rfl
  · intro _; rw [g1, e3, e4]; exact h.e1 hcnt
  · intro _ _ γ hγ; rw [g3] at hγ; cases hγ
  · intro _ _; rw [g2]
  · intro h0; omega

/-- the frames below the top frame -/
theorem la_frameAux_low {gh gh' : Gh} {s s' : LS} {vs : List Nat} {op : OP}
    (g1 : gh'.vsF = gh.vsF) (g2 : gh'.vsB = vs) (g3 : gh'.bgs = [])
    (hcnt : 0 < s.count) (hcnt' : 0 < s'.count)
    (hb : ∀ x, compare x s.currentBest.toList ≠ 1 → compare x s'.currentBest.toList ≠ 1)
    (e3 : s'.gens = s.gens) (e4 : s'.ngens = s.ngens) :
    ∀ (path choices : List Nat) (lv : List (Nat × Nat)), LevelsOK op path choices lv →
      FramesOK n nb rf r vs path choices lv → path.length ≤ vs.length →
      FrameAux n nb rf r gh s vs false path choices lv → FrameAux n nb rf r gh' s' vs false path choices lv := by
  intro path
  induction path with
  | nil => intro choices lv _ _ _ h; cases choices <;> cases lv <;> simp_all [FrameAux]
  | cons p ps ih =>
    intro choices lv hl hf hlen h
    cases choices with
    | nil => simp [FrameAux] at h
    | cons c cs =>
      cases lv with
      | nil => simp [FrameAux] at h
      | cons x ls =>
        obtain ⟨st, sz⟩ := x
        simp only [LevelsOK] at hl
        obtain ⟨_, _, tc, _, tl⟩ := hl
        simp only [FramesOK] at hf
        obtain ⟨_, _, f3, f4⟩ := hf
        simp only [List.length_cons] at hlen
        have hL : ps.length < vs.length := by omega
        obtain ⟨f3a, _⟩ := f3 hL
        have hv : vs[ps.length]? = some (vs[ps.length]) := List.getElem?_eq_getElem hL
        refine FrameAux.mk (la_frameAux1 (incl := false) h.head tc hv (by rw [← f3a]; exact hv) g1 g2 g3 hcnt hcnt' hb e3 e4
          (fun hc => by cases hc)) (ih cs ls tl f4 (by omega) h.tail)

end

section
variable {n m : Nat} {nb : Nbrs} {rf : Nat} {r : IR.St}
  (hnb : NbOK nb n) (hsz : nb.size = n) (hm : m = ((nb.toList.map List.length).sum) / 2) (hrf : 3 * n + 3 ≤ rf)
  (hA : IR.InvA (irG n nb) r) (hD : IR.InvD (irG n nb) r)
  (hlenm : ∀ o : List Nat, o.Perm (List.range n) → (certPos nb o n).length = m)

set_option maxHeartbeats 1000000 in
include hnb hA hD hlenm in
/-- a leaf better than `currentBest` (not the first), ghost data explicit: the leaf becomes the best leaf; the state
`s1` is given explicitly (first-leaf data, generators, `flOrbits` unchanged) -/
theorem dfs_leaf_accept_v (lv : List (Nat × Nat)) (s s1 : LS) (gh : Gh) (hI : MInv n m nb s)
    (hlv : LevelsOK s.op s.path s.choices lv) (hleaf : s.op.binDividers.len = n)
    (hJ : CertM n m nb lv false s) (h : DNodev n nb rf r gh lv s) (hs1 : leafNode n m s = .ok s1)
    (hJ1 : CertA n m nb lv s1) (hcnt : 0 < s.count)
    (hcmp : compare s.op.value.toList s.currentBest.toList = 1) :
    ∃ lv1, LevelsOK s1.op s1.path s1.choices lv1 ∧
      DAv n nb rf r { gh with vs := gh.vs.dropLast, vsB := gh.vs, bgs := [] } lv1 s1 ∧
      ∃ cb bpi : Sl Nat,
        s1 = { s with count := s.count + 1, currentBest := cb, bestPath := s.bestPath.copyFrom s.path.reverse,
                      bestPerm := s.bestPerm.copyFrom s.op.order.toList, bestPermInv := bpi,
                      bestOrbits := Disjoint.new n } ∧
        cb.toList = s.op.value.toList ∧ (s.bestPerm.copyFrom s.op.order.toList).toList = s.op.order.toList ∧
        InvOf s.op.order.toList bpi := by
  obtain ⟨hw, hG, hcov, haux, hoff⟩ := h
  obtain ⟨hg, _, hvn, hbok⟩ := hJ
  obtain ⟨hvc, hspl⟩ := leaf_clean hI.core.part hleaf (hvn rfl)
  have hval : s.op.value.toList = certPos nb s.op.order.toList n := by rw [← hspl]; exact hvc.val
  obtain ⟨_, _, _, _, hcov1⟩ := cov_leaf_accept hnb hlenm hI.core hlv hw hleaf hvc hspl hbok hg hcmp hcnt hs1 hcov
  obtain ⟨cb, bpi, bo, rfl, hcbT, hbpT, hinv, rfl⟩ := la_shape hlenm hI.core hg hval hcmp hcnt hs1
  have hw' := hw
  obtain ⟨h1, h2, h3, h4, h5, h6, h7⟩ := hw'
  have hmt : Match n s.op (nodeL n nb rf r gh.vs gh.vs.length) :=
    (h4 gh.vs.length (Nat.le_refl _)).toMatch hI.core.part hI.core.age (by omega) h7
  have hnode : nodeL n nb rf r gh.vs gh.vs.length = IR.nodeAt (irG n nb) rf r gh.vs := by
    unfold nodeL; rw [List.take_length]
  -- the depth is at most `n`
  have hdn : gh.vs.length ≤ n := by
    obtain ⟨hc, _, _⟩ := IR.path_cells (irG_wf hnb) (rf := rf) gh.vs r hA hD h1
    have := hmt.cells
    rw [hnode, hleaf] at this
    omega
  -- the stack is not empty
  have hne : s.path ≠ [] := by
    intro he
    have hv0 : gh.vs = [] := List.eq_nil_of_length_eq_zero (by rw [h3, he]; rfl)
    exact (hoff hcnt).1 (by rw [hv0]; rfl)
  have hb : ∀ x, compare x s.currentBest.toList ≠ 1 → compare x cb.toList ≠ 1 := by
    intro x hx
    have hbv : compare s.currentBest.toList s.op.value.toList = -1 := (compare_eq_neg_one_iff _ _).2 hcmp
    rw [hcbT, compare_trans_le_lt x _ _ hx hbv]; decide
  have hself : compare s.op.value.toList cb.toList ≠ 1 := by rw [hcbT, compare_self]; decide
  have hlast : ∀ L, L < s.path.length → gh.vs.dropLast.take L = gh.vs.take L :=
    fun L hL => take_dropLast gh.vs (by omega)
  refine ⟨lv, hlv, ⟨?_, ?_, ?_, ?_, ?_⟩, cb, bpi, rfl, hcbT, hbpT, hinv⟩
  · -- the walk
    have := walk_truncate
      (s' := { s with count := s.count + 1, currentBest := cb, bestPath := s.bestPath.copyFrom s.path.reverse,
                      bestPerm := s.bestPerm.copyFrom s.op.order.toList, bestPermInv := bpi,
                      bestOrbits := Disjoint.new n })
      0 hI.core.part hI.core.age (Nat.zero_le _) (fun hne => List.length_pos_iff.2 hne) rfl rfl rfl hw
    rw [List.dropLast_eq_take, h3]
    simpa using this
  · -- the stored leaves
    constructor
    · intro _; exact hG.first hcnt
    · intro _
      refine ⟨h1, ?_, ?_, by
        show (s.bestPerm.copyFrom s.op.order.toList).toList.Perm (List.range n)
        rw [hbpT]; exact hI.core.part.perm, by
        show cb.toList = certPos nb (s.bestPerm.copyFrom s.op.order.toList).toList n
        rw [hcbT, hbpT]; exact hval, by
        show InvOf (s.bestPerm.copyFrom s.op.order.toList).toList bpi
        rw [hbpT]; exact hinv, ?_⟩
      · rw [← hnode]; exact target_none (nb := nb) hI.core.part hmt hleaf
      · show (IR.nodeAt (irG n nb) rf r gh.vs).c = IR.tab n (fun v => (s.bestPerm.copyFrom s.op.order.toList).toList.idxOf v)
        rw [hbpT, ← hnode, hmt.col, leaf_colOf hI.core.part hleaf]
      · show IdxPath n nb rf r gh.vs (s.bestPath.copyFrom s.path.reverse).toList gh.vs.length
        have hidx := frames_idxPath s.path s.choices lv h5 (by omega)
        intro i hi
        obtain ⟨t, j, v, b1, b2, b3, b4⟩ := hidx i (by omega)
        refine ⟨t, j, v, b1, b2, b3, ?_⟩
        rw [Sl.getElem?_toList, Sl.copyFrom_len, if_pos (by rw [hG.bpLen.1]; omega), Sl.copyFrom_data _ hG.bpLen.2,
          if_pos ⟨by simp; omega, by rw [hG.bpLen.1]; omega⟩]
        exact b4
    · intro γ hγ; cases hγ
    · intro h0; exact absurd h0 (Nat.succ_ne_zero _)
    · intro _
      refine ⟨Disjoint.inv_new' n, Disjoint.size_new n, ?_⟩
      intro a b ha hb' hab
      rw [Disjoint.rep_new n a ha, Disjoint.rep_new n b hb'] at hab
      subst hab; exact Relation.EqvGen.refl _
    · exact ⟨by show (s.bestPath.copyFrom s.path.reverse).len = n; rw [Sl.copyFrom_len]; exact hG.bpLen.1,
        Sl.copyFrom_wf hG.bpLen.2 _⟩
    · exact hG.fpLen
  · -- coverage
    exact CovFrames.congr rfl (fun _ => rfl) rfl true s.path s.choices lv hlast hcov1
  · -- the frames
    refine FrameAux.congr rfl rfl rfl rfl true s.path s.choices lv hlast ?_
    have key : ∀ (gh' : Gh) (s' : LS), gh'.vsF = gh.vsF → gh'.vsB = gh.vs → gh'.bgs = [] → 0 < s'.count →
        (∀ x, compare x s.currentBest.toList ≠ 1 → compare x s'.currentBest.toList ≠ 1) →
        s'.gens = s.gens → s'.ngens = s.ngens → compare s.op.value.toList s'.currentBest.toList ≠ 1 →
        FrameAux n nb rf r gh' s' gh.vs true s.path s.choices lv := by
      intro gh' s' g1 g2 g3 hcnt' hb' e3 e4 hself'
      cases hpth : s.path with
      | nil => exact absurd hpth hne
      | cons p ps =>
        rw [hpth] at hlv h5 haux h3
        obtain ⟨c, cs, st, sz, ls, hch, rfl, tc⟩ := la_levelsOK_ne hlv
        rw [hch] at hlv h5 haux ⊢
        simp only [LevelsOK] at hlv
        simp only [FramesOK] at h5
        obtain ⟨f1, _, f3, f4⟩ := h5
        simp only [List.length_cons] at h3
        have hL : ps.length < gh.vs.length := by omega
        obtain ⟨f3a, _⟩ := f3 hL
        have hv : gh.vs[ps.length]? = some (gh.vs[ps.length]) := List.getElem?_eq_getElem hL
        refine FrameAux.mk (la_frameAux1 (incl := true) haux.head tc hv (by rw [← f3a]; exact hv) g1 g2 g3 hcnt
          hcnt' hb' e3 e4 (fun _ => ?_))
          (la_frameAux_low g1 g2 g3 hcnt hcnt' hb' e3 e4 ps cs ls hlv.2.2.2.2 f4 (by omega) haux.tail)
        have hcomp := complete_leaf (rf := rf) (best := s'.currentBest.toList) hnb hI.core.part hleaf hmt hvc hspl hself'
        have hn := nodeL_succ h1 hv f1
        rw [h3, hn] at hcomp
        exact hcomp
    exact key _ _ rfl rfl rfl (Nat.succ_pos _) hb rfl rfl hself
  · intro hp
    exact absurd hp hne

include hnb hA hD hlenm in
/-- a leaf better than `currentBest` (not the first) -/
theorem dfs_leaf_accept (lv : List (Nat × Nat)) (s s1 : LS) (gh : Gh) (hI : MInv n m nb s)
    (hlv : LevelsOK s.op s.path s.choices lv) (hleaf : s.op.binDividers.len = n)
    (hJ : CertM n m nb lv false s) (h : DNodev n nb rf r gh lv s) (hs1 : leafNode n m s = .ok s1)
    (hJ1 : CertA n m nb lv s1) (hcnt : 0 < s.count)
    (hcmp : compare s.op.value.toList s.currentBest.toList = 1) :
    ∃ lv1, LevelsOK s1.op s1.path s1.choices lv1 ∧ DA n nb rf r lv1 s1 := by
  obtain ⟨lv1, hl, hd, _⟩ := dfs_leaf_accept_v hnb hA hD hlenm lv s s1 gh hI hlv hleaf hJ h hs1 hJ1 hcnt hcmp
  exact ⟨lv1, hl, _, hd⟩

end
end CanonF
