import Mamba.Lemmas.DistancePatonPath
/-!
# Paton's phase: invariant giving the soundness of the fundamental cycles
-/
namespace GDist
open GraphSpec Model

/-- `z` is the ancestor of `v` exactly `dep v - dep z` tree edges above it -/
def AncD (T : Array Int) (D : Array Nat) (z v : Nat) : Prop :=
  ∃ k, (par T)^[k] v = z ∧ dep D z + k = dep D v

/-- `f` is the sorted list of the edge codes of a simple cycle of `a` -/
def IsCycCode (a : G) (f : List Nat) : Prop := ∃ c, IsCycleSeq a c ∧ f = sortInts (cycCodes c)

/-- invariant during the scan of the neighbours of `v` -/
structure PS (a : G) (st : PatonSt) (v : Nat) : Prop where
  tsz : st.T.size = a.n
  dsz : st.depth.size = a.n
  root : st.T.getD 0 (-1) = 0
  ptree : ∀ x, x < a.n → inTree st.T x → 0 ≤ st.T.getD x (-1) ∧ par st.T x < a.n ∧ inTree st.T (par st.T x)
  pdep : ∀ x, x < a.n → inTree st.T x → x ≠ 0 →
    dep st.depth x = dep st.depth (par st.T x) + 1 ∧ a.adj x (par st.T x) = true
  xin : ∀ x ∈ st.X, x < a.n ∧ inTree st.T x ∧ x ≠ 0
  xnd : st.X.Nodup
  vnx : v ∉ st.X
  cur : v < a.n ∧ inTree st.T v
  leaf : ∀ x, x < a.n → inTree st.T x → par st.T x ∉ st.X
  xanc : ∀ x ∈ st.X, AncD st.T st.depth (par st.T x) v
  xpair : st.X.Pairwise fun up lo => AncD st.T st.depth (par st.T lo) (par st.T up)
  exam : ∀ x, x < a.n → inTree st.T x → x ∉ st.X → x ≠ v → ∀ w, a.adj x w = true → w < a.n →
    edgeRemoved st.removed w x = true
  fund : ∀ f ∈ st.fund, IsCycCode a f

variable {a : G}

theorem par_root {T : Array Int} (h : T.getD 0 (-1) = 0) : par T 0 = 0 := by unfold par; rw [h]; rfl

theorem iter_root {T : Array Int} (h : T.getD 0 (-1) = 0) : ∀ k, (par T)^[k] 0 = 0 := by
  intro k
  induction k with
  | zero => rfl
  | succ k ih => rw [Function.iterate_succ_apply', ih, par_root h]

section tree
variable {T : Array Int} {D : Array Nat} {n : Nat}
  (root : T.getD 0 (-1) = 0)
  (ptree : ∀ x, x < n → inTree T x → 0 ≤ T.getD x (-1) ∧ par T x < n ∧ inTree T (par T x))
  (pdep : ∀ x, x < n → inTree T x → x ≠ 0 → dep D x = dep D (par T x) + 1)
include root ptree pdep

theorem iter_in : ∀ k x, x < n → inTree T x → (par T)^[k] x < n ∧ inTree T ((par T)^[k] x) := by
  intro k
  induction k with
  | zero => intro x hx ht; exact ⟨hx, ht⟩
  | succ k ih =>
    intro x hx ht
    rw [Function.iterate_succ_apply]
    exact ih _ (ptree x hx ht).2.1 (ptree x hx ht).2.2

/-- `dep (par^i x) + i` does not decrease with `i` -/
theorem dep_mono : ∀ k x, x < n → inTree T x → dep D x ≤ dep D ((par T)^[k] x) + k := by
  intro k
  induction k with
  | zero => intro x _ _; exact Nat.le_refl _
  | succ k ih =>
    intro x hx ht
    rw [Function.iterate_succ_apply]
    have h1 := ih _ (ptree x hx ht).2.1 (ptree x hx ht).2.2
    by_cases hx0 : x = 0
    · subst hx0
      rw [par_root root] at h1 ⊢
      omega
    · have := pdep x hx ht hx0
      omega

/-- if the depth drops by exactly `k` in `k` steps, it drops by `i` in the first `i` steps and no vertex before the
last is the root -/
theorem dep_exact : ∀ k x, x < n → inTree T x → dep D ((par T)^[k] x) + k = dep D x →
    ∀ i, i ≤ k → dep D ((par T)^[i] x) + i = dep D x ∧ (i < k → (par T)^[i] x ≠ 0) := by
  intro k
  induction k with
  | zero =>
    intro x _ _ _ i hi
    have : i = 0 := by omega
    subst this; exact ⟨rfl, fun h => by omega⟩
  | succ k ih =>
    intro x hx ht hk i hi
    rw [Function.iterate_succ_apply] at hk
    have hp := ptree x hx ht
    have hx0 : x ≠ 0 := by
      intro h0; subst h0
      rw [par_root root, iter_root root] at hk
      omega
    have hd := pdep x hx ht hx0
    cases i with
    | zero => exact ⟨rfl, fun _ => hx0⟩
    | succ i =>
      rw [Function.iterate_succ_apply]
      obtain ⟨h1, h2⟩ := ih (par T x) hp.2.1 hp.2.2 (by omega) i (by omega)
      exact ⟨by omega, fun h => h2 (by omega)⟩

theorem upPath_nodup {k x : Nat} (hx : x < n) (ht : inTree T x)
    (hk : dep D ((par T)^[k] x) + k = dep D x) : (upPath T k x).Nodup := by
  induction k generalizing x with
  | zero => simp [upPath]
  | succ k ih =>
    have hp := ptree x hx ht
    obtain ⟨h1, _⟩ := dep_exact root ptree pdep (k + 1) x hx ht hk 1 (by omega)
    simp only [Function.iterate_one] at h1
    rw [Function.iterate_succ_apply] at hk
    simp only [upPath, List.nodup_cons]
    refine ⟨?_, ih hp.2.1 hp.2.2 (by omega)⟩
    intro hm
    obtain ⟨i, hi, hix⟩ := (mem_upPath T k (par T x) x).1 hm
    obtain ⟨h2, _⟩ := dep_exact root ptree pdep k (par T x) hp.2.1 hp.2.2 (by omega) i hi
    rw [hix] at h2
    omega

end tree

theorem chainAdj_cons {g : G} {x : Nat} : ∀ {l : List Nat}, chainAdj g l → (∀ y, l.head? = some y → g.adj y x = true) →
    chainAdj g (x :: l)
  | [], _, _ => trivial
  | y :: t, h, hx => ⟨hx y rfl, h⟩

theorem chainAdj_upPath {T : Array Int} {D : Array Nat} (hsym : ∀ u v, a.adj u v = a.adj v u)
    (root : T.getD 0 (-1) = 0)
    (ptree : ∀ x, x < a.n → inTree T x → 0 ≤ T.getD x (-1) ∧ par T x < a.n ∧ inTree T (par T x))
    (pdep : ∀ x, x < a.n → inTree T x → x ≠ 0 → dep D x = dep D (par T x) + 1 ∧ a.adj x (par T x) = true) :
    ∀ k x, x < a.n → inTree T x → dep D ((par T)^[k] x) + k = dep D x → chainAdj a (upPath T k x) := by
  intro k
  induction k with
  | zero => intro x _ _ _; simp [upPath, chainAdj]
  | succ k ih =>
    intro x hx ht hk
    have hp := ptree x hx ht
    obtain ⟨h1, h2⟩ := dep_exact root ptree (fun x hx ht h0 => (pdep x hx ht h0).1) (k + 1) x hx ht hk 0 (by omega)
    have hx0 : x ≠ 0 := h2 (by omega)
    rw [Function.iterate_succ_apply] at hk
    have hd := pdep x hx ht hx0
    simp only [upPath]
    apply chainAdj_cons (ih _ hp.2.1 hp.2.2 (by omega))
    intro y hy
    obtain ⟨t, ht'⟩ := upPath_head T k (par T x)
    rw [ht'] at hy
    simp at hy
    subst hy
    rw [hsym]; exact hd.2

end GDist
