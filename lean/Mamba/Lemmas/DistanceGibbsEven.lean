import Mamba.Lemmas.DistanceGibbsQ
import Mamba.Lemmas.DistancePatonIndep2
/-!
# Degrees in a list of edge codes; cycles and XOR combinations of cycles have even degrees
-/
namespace GDist
open GraphSpec Model

/-- the code `c` is the code of an edge at `w` (vertices `< n`) -/
def incid (n w c : Nat) : Bool := (List.range n).any fun x => x != w && c == edgeCode w x

/-- degree of `w` in the edge set with code list `t` -/
def degIn (n : Nat) (t : List Nat) (w : Nat) : Nat := t.countP (incid n w)

/-- every vertex has even degree -/
def EvenSet (n : Nat) (t : List Nat) : Prop := ∀ w, w < n → degIn n t w % 2 = 0

theorem normE_eq {a b c d : Nat} (h : normE (a, b) = normE (c, d)) : (a = c ∧ b = d) ∨ (a = d ∧ b = c) := by
  unfold normE at h
  simp only at h
  by_cases h1 : a < b <;> by_cases h2 : c < d <;> simp only [h1, h2, if_true, if_false, Prod.mk.injEq] at h
  · exact .inl h
  · exact .inr h
  · exact .inr ⟨h.2, h.1⟩
  · exact .inl ⟨h.2, h.1⟩

theorem incid_edgeCode {n w a b : Nat} (ha : a < n) (hb : b < n) (hab : a ≠ b) :
    incid n w (edgeCode a b) = true ↔ (w = a ∨ w = b) := by
  unfold incid
  simp only [List.any_eq_true, List.mem_range, Bool.and_eq_true, bne_iff_ne, ne_eq, beq_iff_eq]
  constructor
  · rintro ⟨x, _, hxw, hc⟩
    have := edgeCode_inj (e := (a, b)) (e' := (w, x)) hab (fun h => hxw h.symm) hc
    rcases normE_eq this with h | h
    · exact .inl h.1.symm
    · exact .inr h.2.symm
  · rintro (rfl | rfl)
    · exact ⟨b, hb, fun h => hab h.symm, rfl⟩
    · exact ⟨a, ha, hab, edgeCode_comm _ _⟩

theorem degIn_cons (n c w : Nat) (t : List Nat) :
    degIn n (c :: t) w = degIn n t w + if incid n w c = true then 1 else 0 := by
  unfold degIn; rw [List.countP_cons]

/-- degrees along a path: `2` inside, `1` at the two ends -/
theorem path_deg {n w : Nat} : ∀ (q : List Nat) (a : Nat), (a :: q).Nodup → (∀ x ∈ a :: q, x < n) →
    degIn n (pathCodes (a :: q)) w + (if w = a then 1 else 0) + (if w = (a :: q).getLastD 0 then 1 else 0)
      = if w ∈ a :: q then 2 else 0
  | [], a, _, _ => by
    simp only [pathCodes, degIn, List.countP_nil, List.getLastD_cons, List.getLastD_nil, List.mem_singleton]
    split <;> simp
  | b :: t, a, hnd, hn => by
    obtain ⟨hanot, hnd'⟩ := List.nodup_cons.1 hnd
    have ih := path_deg (n := n) (w := w) t b hnd' (fun x hx => hn x (List.mem_cons_of_mem _ hx))
    have han := hn a List.mem_cons_self
    have hbn := hn b (by simp)
    have hab : a ≠ b := fun h => hanot (by simp [h])
    have hlast : (a :: b :: t).getLastD 0 = (b :: t).getLastD 0 := by simp [List.getLastD_cons]
    rw [pathCodes, degIn_cons, hlast]
    have hinc := incid_edgeCode (n := n) (w := w) han hbn hab
    have hlm : (b :: t).getLastD 0 ∈ b :: t := by
      rw [List.getLastD_eq_getLast?]
      have : (b :: t).getLast? = some ((b :: t).getLast (by simp)) := List.getLast?_eq_some_getLast (by simp)
      rw [this]; exact List.getLast_mem _
    by_cases hwa : w = a
    · have h1 : incid n w (edgeCode a b) = true := hinc.2 (.inl hwa)
      have hwq : w ∉ b :: t := hwa ▸ hanot
      have hwb : ¬ w = b := fun h => hab (hwa ▸ h)
      have hwl : ¬ w = (b :: t).getLastD 0 := fun h0 => hwq (h0 ▸ hlm)
      have hwm : w ∈ a :: b :: t := by rw [hwa]; exact List.mem_cons_self
      rw [if_pos h1, if_pos hwa, if_neg hwl, if_pos hwm]
      rw [if_neg hwb, if_neg hwl, if_neg hwq] at ih
      omega
    · by_cases hwb : w = b
      · have h1 : incid n w (edgeCode a b) = true := hinc.2 (.inr hwb)
        have hwq : w ∈ b :: t := by rw [hwb]; exact List.mem_cons_self
        have hwm : w ∈ a :: b :: t := List.mem_cons_of_mem _ hwq
        rw [if_pos h1, if_neg hwa, if_pos hwm]
        rw [if_pos hwb, if_pos hwq] at ih
        omega
      · have h1 : ¬ incid n w (edgeCode a b) = true := fun h => by
          rcases hinc.1 h with h | h
          · exact hwa h
          · exact hwb h
        rw [if_neg h1, if_neg hwa]
        rw [if_neg hwb] at ih
        by_cases hwq : w ∈ b :: t
        · rw [if_pos (List.mem_cons_of_mem _ hwq)]
          rw [if_pos hwq] at ih
          omega
        · have hwm : w ∉ a :: b :: t := fun h => by
            rcases List.mem_cons.1 h with h | h
            · exact hwa h
            · exact hwq h
          rw [if_neg hwm]
          rw [if_neg hwq] at ih
          omega

/-- **a cycle has even degrees** (`2` on the cycle, `0` elsewhere) -/
theorem cycle_even {a : G} {c : List Nat} (hc : IsCycleSeq a c) : EvenSet a.n (cycCodes c) := by
  obtain ⟨hlen, hnd, hn, _, _⟩ := hc
  intro w _
  match c, hlen, hnd, hn with
  | x :: q, hlen, hnd, hn =>
    have hq : q ≠ [] := by
      intro h; subst h; simp at hlen
    have hx := hn x List.mem_cons_self
    have hlm : (x :: q).getLastD 0 ∈ q := by
      obtain ⟨b, t, rfl⟩ := List.exists_cons_of_ne_nil hq
      rw [List.getLastD_eq_getLast?]
      have : (x :: b :: t).getLast? = some ((b :: t).getLast (by simp)) := by
        rw [List.getLast?_cons_cons]; exact List.getLast?_eq_some_getLast (by simp)
      rw [this]; exact List.getLast_mem _
    have hl := hn _ (List.mem_cons_of_mem _ hlm)
    have hxl : x ≠ (x :: q).getLastD 0 := fun h => (List.nodup_cons.1 hnd).1 (h ▸ hlm)
    have hp := path_deg (n := a.n) (w := w) q x hnd hn
    unfold cycCodes
    rw [degIn_cons, List.headD_cons]
    have hinc := incid_edgeCode (n := a.n) (w := w) hx hl hxl
    have hgoal : ∀ d : Nat, d % 2 = 0 → d % 2 = 0 := fun _ h => h
    by_cases hwx : w = x
    · have h1 : incid a.n w (edgeCode x ((x :: q).getLastD 0)) = true := hinc.2 (.inl hwx)
      have hwl : ¬ w = (x :: q).getLastD 0 := fun h => hxl (hwx ▸ h)
      have hwm : w ∈ x :: q := by rw [hwx]; exact List.mem_cons_self
      rw [if_pos h1]
      rw [if_pos hwx, if_neg hwl, if_pos hwm] at hp
      omega
    · by_cases hwl : w = (x :: q).getLastD 0
      · have h1 : incid a.n w (edgeCode x ((x :: q).getLastD 0)) = true := hinc.2 (.inr hwl)
        have hwm : w ∈ x :: q := by rw [hwl]; exact List.mem_cons_of_mem _ hlm
        rw [if_pos h1]
        rw [if_neg hwx, if_pos hwl, if_pos hwm] at hp
        omega
      · have h1 : ¬ incid a.n w (edgeCode x ((x :: q).getLastD 0)) = true := fun h => by
          rcases hinc.1 h with h | h
          · exact hwx h
          · exact hwl h
        rw [if_neg h1]
        rw [if_neg hwx, if_neg hwl] at hp
        split at hp <;> omega

theorem even_sortInts {n : Nat} {l : List Nat} (h : EvenSet n l) : EvenSet n (sortInts l) := by
  intro w hw
  have : degIn n (sortInts l) w = degIn n l w := by
    unfold degIn sortInts
    exact (List.mergeSort_perm l _).countP_eq _
  rw [this]; exact h w hw

theorem even_sXor {n : Nat} {s t : List Nat} (hs : EvenSet n s) (ht : EvenSet n t) : EvenSet n (sXor s t) := by
  intro w hw
  obtain ⟨k, hk⟩ := sXor_countP (incid n w) s t
  have h1 := hs w hw
  have h2 := ht w hw
  unfold degIn at h1 h2 ⊢
  omega

/-- a fundamental cycle of Paton's phase has even degrees -/
theorem isCycCode_even {a : G} {f : List Nat} (h : IsCycCode a f) : EvenSet a.n f := by
  obtain ⟨c, hc, rfl⟩ := h
  exact even_sortInts (cycle_even hc)

/-- a property closed under `sXor` holds for all of `Q` -/
theorem gibbsLoop_Q_closed (P : List Nat → Prop) (hP : ∀ s t, P s → P t → P (sXor s t)) :
    ∀ (fcs : List (List Nat)) (st : GibbsSt), (∀ t ∈ st.Q, P t) → (∀ f ∈ fcs, P f) →
      ∀ gs, gibbsLoop fcs st = .ok gs → ∀ t ∈ gs.Q, P t := by
  intro fcs
  induction fcs with
  | nil =>
    intro st h _ gs hres
    simp only [gibbsLoop] at hres
    cases hres; exact h
  | cons fc fcs ih =>
    intro st h hs gs hres
    unfold gibbsLoop at hres
    simp only at hres
    split at hres
    · refine ih _ ?_ (fun f hf => hs f (List.mem_cons_of_mem _ hf)) gs hres
      intro t ht
      simp only [List.mem_append, List.mem_map, List.mem_singleton] at ht
      rcases ht with (ht | ⟨p, ⟨t0, ht0, rfl⟩, rfl⟩) | rfl
      · exact h t ht
      · exact hP _ _ (h t0 ht0) (hs fc List.mem_cons_self)
      · exact hs _ List.mem_cons_self
    · cases hres
    · cases hres

end GDist
