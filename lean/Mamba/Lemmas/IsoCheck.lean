import Mamba.Lemmas.IsoEquiv
/-! Soundness of the transversal checker `GSearch.checkLevels`. -/
namespace GSearch
open GraphSpec

/-- every well-formed graph on `k` vertices with `P` is isomorphic to a member of `L` -/
def Complete (P : G → Bool) (k : Nat) (L : List G) : Prop :=
  ∀ g : G, g.WF → g.n = k → P g = true → ∃ h ∈ L, Iso g h

/-- `L` contains exactly one representative of every isomorphism class of graphs on `k` vertices with `P`,
and nothing else -/
structure Transversal (P : G → Bool) (k : Nat) (L : List G) : Prop where
  size : ∀ h ∈ L, h.n = k
  sat : ∀ h ∈ L, P h = true
  distinct : L.Pairwise fun a b => ¬ Iso a b
  complete : Complete P k L

/-- every one-vertex extension with `P` of a member of `prev` has its canonical code among those of `out` -/
def ExtClosed (P : G → Bool) (prev out : List G) : Prop :=
  ∀ g ∈ prev, ∀ S ∈ subsets (List.range g.n), P (ext g S) = true → bfCanon (ext g S) ∈ out.map bfCanon

/-! ### small facts -/

theorem G.ext_eq {g h : G} (hn : g.n = h.n) (ha : ∀ u v, g.adj u v = h.adj u v) : g = h := by
  cases g; cases h
  simp only at hn ha
  subst hn
  congr
  funext u v
  exact ha u v

theorem filter_mem_subsets (f : Nat → Bool) : ∀ l : List Nat, l.filter f ∈ subsets l
  | [] => by simp [subsets]
  | x :: xs => by
    simp only [subsets, List.mem_append, List.mem_map, List.filter_cons]
    cases hf : f x
    · left; simpa using filter_mem_subsets f xs
    · right; exact ⟨xs.filter f, filter_mem_subsets f xs, by simp⟩

theorem firstBad_none {α : Type} (f : α → Bool) : ∀ (l : List α) (i : Nat), firstBad f l i = none → ∀ x ∈ l, f x = true
  | [], _, _ => by simp
  | x :: xs, i, h => by
    simp only [firstBad] at h
    cases hf : f x
    · simp [hf] at h
    · simp only [hf, if_true] at h
      intro y hy
      rcases List.mem_cons.1 hy with rfl | hy
      · exact hf
      · exact firstBad_none f xs (i + 1) h y hy

theorem firstDup_none : ∀ (seen cs : List Nat) (j : Nat), firstDup seen cs j = none →
    cs.Nodup ∧ ∀ c ∈ cs, c ∉ seen
  | _, [], _, _ => by simp
  | seen, c :: cs, j, h => by
    simp only [firstDup] at h
    cases hi : seen.reverse.idxOf? c with
    | some i => simp [hi] at h
    | none =>
      simp only [hi] at h
      have hc : c ∉ seen := by
        have := List.idxOf?_eq_none_iff.1 hi
        simpa using this
      obtain ⟨hnd, hns⟩ := firstDup_none (c :: seen) cs (j + 1) h
      refine ⟨List.nodup_cons.2 ⟨fun hm => (hns c hm) (List.mem_cons_self), hnd⟩, ?_⟩
      intro x hx
      rcases List.mem_cons.1 hx with rfl | hx
      · exact hc
      · exact fun hm => hns x hx (List.mem_cons_of_mem _ hm)

theorem firstMissingExt_none (P : G → Bool) (canons : List Nat) (g : G) :
    ∀ l : List (List Nat), firstMissingExt P canons g l = none →
      ∀ S ∈ l, P (ext g S) = true → bfCanon (ext g S) ∈ canons
  | [], _ => by simp
  | S :: rest, h => by
    simp only [firstMissingExt, bfCanonFast_eq] at h
    split at h
    · simp at h
    · rename_i hc
      intro T hT hP
      rcases List.mem_cons.1 hT with rfl | hT
      · simp only [Bool.and_eq_true, Bool.not_eq_eq_eq_not, Bool.not_true, not_and, Bool.not_eq_false] at hc
        exact List.contains_iff_mem.1 (hc hP)
      · exact firstMissingExt_none P canons g rest h T hT hP

theorem firstMissing_none (P : G → Bool) (canons : List Nat) :
    ∀ (pl : List G) (i : Nat), firstMissing P canons pl i = none →
      ∀ g ∈ pl, ∀ S ∈ subsets (List.range g.n), P (ext g S) = true → bfCanon (ext g S) ∈ canons
  | [], _, _ => by simp
  | g :: gs, i, h => by
    simp only [firstMissing] at h
    cases hm : firstMissingExt P canons g (subsets (List.range g.n)) with
    | some S => simp [hm] at h
    | none =>
      simp only [hm] at h
      intro x hx
      rcases List.mem_cons.1 hx with rfl | hx
      · exact firstMissingExt_none P canons x _ hm
      · exact firstMissing_none P canons gs (i + 1) h x hx

/-! ### well-formedness of the constructions -/

theorem ofMask_wf (n mask : Nat) : (ofMask n mask).WF where
  symm := by
    intro u v
    simp only [ofMask]
    rcases Nat.lt_trichotomy u v with h | h | h
    · have h' : ¬ v < u := Nat.not_lt.2 (Nat.le_of_lt h)
      have hne : (u != v) = true := by simp [Nat.ne_of_lt h]
      have hne' : (v != u) = true := by simp [Nat.ne_of_gt h]
      simp only [hne, hne', h, h', if_true, if_false, Bool.true_and]
      cases decide (u < n) <;> cases decide (v < n) <;> simp
    · subst h; rfl
    · have h' : ¬ u < v := Nat.not_lt.2 (Nat.le_of_lt h)
      have hne : (u != v) = true := by simp [Nat.ne_of_gt h]
      have hne' : (v != u) = true := by simp [Nat.ne_of_lt h]
      simp only [hne, hne', h, h', if_true, if_false, Bool.true_and]
      cases decide (u < n) <;> cases decide (v < n) <;> simp
  irrefl := by intro v; simp [ofMask]
  supp := by
    intro u v h
    simp only [ofMask, Bool.and_eq_true, decide_eq_true_eq] at h
    exact ⟨h.1.1.2, h.1.2⟩

theorem ext_wf {g : G} (hg : g.WF) (S : List Nat) : (ext g S).WF where
  symm := by
    intro u v
    simp only [ext]
    rw [hg.symm u v]
    cases decide (u < g.n) <;> cases decide (v < g.n) <;> cases (u == g.n) <;> cases (v == g.n) <;>
      cases g.adj v u <;> cases S.contains u <;> cases S.contains v <;> rfl
  irrefl := by
    intro v
    simp only [ext, hg.irrefl]
    by_cases h : v < g.n
    · have : (v == g.n) = false := by simp [Nat.ne_of_lt h]
      simp [this]
    · simp [h]
  supp := by
    intro u v h
    simp only [ext, Bool.or_eq_true, Bool.and_eq_true, decide_eq_true_eq, beq_iff_eq] at h
    rcases h with (h | h) | h
    · exact ⟨Nat.lt_succ_of_lt h.1.1, Nat.lt_succ_of_lt h.1.2⟩
    · exact ⟨h.1.1 ▸ Nat.lt_succ_self _, Nat.lt_succ_of_lt h.1.2⟩
    · exact ⟨Nat.lt_succ_of_lt h.1.2, h.1.1 ▸ Nat.lt_succ_self _⟩

theorem delLast_wf {g : G} (hg : g.WF) : (delLast g).WF where
  symm := by
    intro u v
    simp only [delLast]
    rw [hg.symm u v]
    cases decide (u < g.n - 1) <;> cases decide (v < g.n - 1) <;> simp
  irrefl := by intro v; simp [delLast, hg.irrefl]
  supp := by
    intro u v h
    simp only [delLast, Bool.and_eq_true, decide_eq_true_eq] at h
    exact ⟨h.1.1, h.1.2⟩

/-! ### a graph is its last-vertex deletion plus one vertex -/

/-- if `g - last ≅ h` then `g ≅ h + S` for the image `S` of the neighbourhood of the last vertex -/
theorem iso_ext_of_iso_delLast {g h : G} (hg : g.WF) (_hh : h.WF) {j : Nat} (hgn : g.n = j + 1)
    (i : Iso (delLast g) h) : ∃ S ∈ subsets (List.range h.n), Iso g (ext h S) := by
  obtain ⟨hn, σ, hσ, hadj⟩ := i
  have hdn : (delLast g).n = j := by simp [delLast, hgn]
  have hhn : h.n = j := hn ▸ hdn
  rw [hdn] at hσ hadj
  -- the image of N(last)
  let img : List Nat := ((List.range j).filter fun u => g.adj u j).map σ
  let S : List Nat := (List.range h.n).filter fun w => img.contains w
  have hS : ∀ v, v < j → (S.contains (σ v) = g.adj v j) := by
    intro v hv
    have hmem : σ v ∈ S ↔ g.adj v j = true := by
      simp only [S, img, List.mem_filter, List.mem_range, List.contains_iff_mem, List.mem_map, hhn]
      constructor
      · rintro ⟨_, u, ⟨hu, hadjU⟩, he⟩
        have := hσ.inj u v hu hv he
        exact this ▸ hadjU
      · intro ha
        exact ⟨hσ.maps v hv, v, ⟨hv, ha⟩, rfl⟩
    cases hc : g.adj v j
    · have : ¬ σ v ∈ S := fun hm => by simpa [hc] using hmem.1 hm
      simpa [List.contains_iff_mem] using this
    · exact List.contains_iff_mem.2 (hmem.2 hc)
  refine ⟨S, filter_mem_subsets _ _, ?_⟩
  let τ : Nat → Nat := fun u => if u < j then σ u else u
  have hτ : IsBij (j + 1) τ := by
    refine ⟨?_, ?_, ?_⟩
    · intro u hu
      simp only [τ]
      split
      · exact Nat.lt_succ_of_lt (hσ.maps u ‹_›)
      · exact hu
    · intro u v hu hv he
      simp only [τ] at he
      by_cases h1 : u < j <;> by_cases h2 : v < j <;> simp only [h1, h2, if_true, if_false] at he
      · exact hσ.inj u v h1 h2 he
      · have := hσ.maps u h1; omega
      · have := hσ.maps v h2; omega
      · exact he
    · intro w hw
      by_cases h1 : w < j
      · obtain ⟨u, hu, rfl⟩ := hσ.surj w h1
        exact ⟨u, Nat.lt_succ_of_lt hu, by simp [τ, hu]⟩
      · exact ⟨w, hw, by simp [τ, h1]⟩
  refine ⟨by simp [ext, hgn, hhn], τ, hgn ▸ hτ, ?_⟩
  intro u v hu hv
  rw [hgn] at hu hv
  have hdel : ∀ a b, a < j → b < j → g.adj a b = h.adj (σ a) (σ b) := by
    intro a b ha hb
    have := hadj a b ha hb
    simpa [delLast, hgn, ha, hb] using this
  by_cases h1 : u < j <;> by_cases h2 : v < j
  · -- both old
    have m1 := hσ.maps u h1
    have m2 := hσ.maps v h2
    have e1 : (σ u == h.n) = false := by simp [hhn, Nat.ne_of_lt m1]
    have e2 : (σ v == h.n) = false := by simp [hhn, Nat.ne_of_lt m2]
    simp only [ext, τ, h1, h2, if_true, hhn, m1, m2, decide_true, Bool.true_and] at e1 e2 ⊢
    simp [e1, e2, hdel u v h1 h2]
  · -- v is the new vertex
    have hv' : v = j := by omega
    subst hv'
    have m1 := hσ.maps u h1
    have e1 : (σ u == v) = false := by simp [Nat.ne_of_lt m1]
    simp only [ext, τ, h1, if_true, hhn, m1, Nat.lt_irrefl, if_false, decide_true, decide_false,
      Bool.false_and, Bool.and_false, Bool.true_and, beq_self_eq_true, e1, Bool.false_or, Bool.or_false]
    exact (hS u h1).symm
  · -- u is the new vertex
    have hu' : u = j := by omega
    subst hu'
    have m2 := hσ.maps v h2
    have e2 : (σ v == u) = false := by simp [Nat.ne_of_lt m2]
    simp only [ext, τ, h2, if_true, hhn, m2, Nat.lt_irrefl, if_false, decide_true, decide_false,
      Bool.false_and, Bool.and_false, Bool.true_and, beq_self_eq_true, e2, Bool.false_or, Bool.or_false]
    rw [hg.symm]
    exact (hS v h2).symm
  · have hu' : u = j := by omega
    have hv' : v = j := by omega
    subst hu'; subst hv'
    simp [ext, τ, hhn, hg.irrefl]

/-! ### the extension step -/

/-- **the checker's completeness step**: a complete list for `k` vertices and closure under one-vertex extensions
give a complete list for `k + 1` vertices -/
theorem extClosed_complete' {P : G → Bool} (hP : Hereditary P) {k : Nat} {prev out : List G}
    (hprevWF : ∀ h ∈ prev, h.WF) (hprevN : ∀ h ∈ prev, h.n = k)
    (houtWF : ∀ o ∈ out, o.WF) (houtN : ∀ o ∈ out, o.n = k + 1)
    (hc : Complete P k prev) (hext : ExtClosed P prev out) : Complete P (k + 1) out := by
  intro g hg hgn hPg
  have hdn : (delLast g).n = k := by simp [delLast, hgn]
  obtain ⟨h, hh, i⟩ := hc (delLast g) (delLast_wf hg) hdn (hP.del g hg (by omega) hPg)
  obtain ⟨S, hS, i2⟩ := iso_ext_of_iso_delLast hg (hprevWF h hh) hgn i
  have hPe : P (ext h S) = true := hP.iso g _ hg (ext_wf (hprevWF h hh) S) i2 hPg
  obtain ⟨o, ho, hoc⟩ := List.mem_map.1 (hext h hh S hS hPe)
  have hon : o.n = (ext h S).n := by rw [houtN o ho]; simp [ext, hprevN h hh]
  have i3 : Iso o (ext h S) := (bfCanon_eq_iff_iso (houtWF o ho) (ext_wf (hprevWF h hh) S) hon).1 hoc
  exact ⟨o, ho, i2.trans i3.symm⟩

end GSearch
