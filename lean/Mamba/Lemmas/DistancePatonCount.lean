import Mamba.Lemmas.DistancePatonSound
import Mathlib.Data.List.Nodup
/-!
# Paton's phase: the number of fundamental cycles is `m - n + 1`
-/
namespace GDist
open GraphSpec Model

variable {a : G}

/-- the edge as an ordered pair -/
def normE (e : Nat × Nat) : Nat × Nat := if e.1 < e.2 then e else (e.2, e.1)

/-- invariant for counting -/
structure PC (a : G) (st : PatonSt) : Prop where
  tsz : st.T.size = a.n
  rin : ∀ e ∈ st.removed, e.1 < a.n ∧ e.2 < a.n ∧ a.adj e.1 e.2 = true ∧ inTree st.T e.1 ∧ inTree st.T e.2
  rnd : st.removed.Pairwise fun e e' => normE e ≠ normE e'
  cnt : st.removed.length + st.T.count (-1) + 1 = a.n + st.fund.length

theorem edgeRemoved_false {rm : List (Nat × Nat)} {u v : Nat} (h : edgeRemoved rm u v = false) :
    ∀ e ∈ rm, normE (u, v) ≠ normE e := by
  intro e he hne
  have h1 : (u, v) ∉ rm := by
    intro hm
    have : edgeRemoved rm u v = true := by simp [edgeRemoved, hm]
    rw [h] at this; cases this
  have h2 : (v, u) ∉ rm := by
    intro hm
    have : edgeRemoved rm u v = true := by simp [edgeRemoved, hm]
    rw [h] at this; cases this
  obtain ⟨e1, e2⟩ := e
  unfold normE at hne
  simp only at hne
  by_cases c1 : u < v <;> by_cases c2 : e1 < e2 <;> simp only [c1, c2, if_true, if_false, Prod.mk.injEq] at hne
  · exact h1 (by rw [hne.1, hne.2]; exact he)
  · exact h2 (by rw [hne.1, hne.2]; exact he)
  · exact h2 (by rw [hne.1, hne.2]; exact he)
  · exact h1 (by rw [hne.1, hne.2]; exact he)

theorem patonScan_count (hsym : ∀ u v, a.adj u v = a.adj v u) {v : Nat} (hvn : v < a.n) :
    ∀ (us : List Nat) (st : PatonSt), PC a st → inTree st.T v → us.Nodup →
      (∀ u ∈ us, u < a.n ∧ a.adj v u = true ∧ edgeRemoved st.removed u v = false) →
      ∀ st', patonScan v us st = .ok st' → PC a st' := by
  intro us
  induction us with
  | nil =>
    intro st pc _ _ _ st' hres
    simp only [patonScan] at hres
    cases hres; exact pc
  | cons u us ih =>
    intro st pc hvt hnd hus st' hres
    obtain ⟨hun, hadj, hnr⟩ := hus u List.mem_cons_self
    obtain ⟨hunot, hnd'⟩ := List.nodup_cons.1 hnd
    have huT : u < st.T.size := by rw [pc.tsz]; exact hun
    have hgetu : st.T.getD u (-1) = st.T[u] := by simp [Array.getD, huT]
    have hus' : ∀ st1 : PatonSt, st1.removed = (u, v) :: st.removed →
        ∀ u' ∈ us, u' < a.n ∧ a.adj v u' = true ∧ edgeRemoved st1.removed u' v = false := by
      intro st1 hrm u' hu'
      obtain ⟨h1, h2, h3⟩ := hus u' (List.mem_cons_of_mem _ hu')
      refine ⟨h1, h2, ?_⟩
      rw [hrm]
      cases hh : edgeRemoved ((u, v) :: st.removed) u' v with
      | false => rfl
      | true =>
        rcases edgeRemoved_cons.1 hh with ⟨h4, _⟩ | ⟨h5, h4⟩ | h4
        · exact (hunot (by rw [h4]; exact hu')).elim
        · exact (hunot (by rw [h5, h4]; exact hu')).elim
        · rw [h3] at h4; cases h4
    have hrnd' : ((u, v) :: st.removed).Pairwise fun e e' => normE e ≠ normE e' :=
      List.pairwise_cons.2 ⟨edgeRemoved_false hnr, pc.rnd⟩
    unfold patonScan at hres
    simp only [huT, dif_pos] at hres
    by_cases htree : st.T[u] ≠ -1
    · simp only [htree, ne_eq, not_false_eq_true, if_true] at hres
      have hint : inTree st.T u := by unfold inTree; rw [hgetu]; exact htree
      split at hres
      · split at hres
        · split at hres
          · cases hres
          · split at hres
            · next cyc hcyc =>
              refine ih { st with fund := st.fund ++ [sortInts cyc], removed := (u, v) :: st.removed } ?_ hvt hnd'
                (hus' _ rfl) st' hres
              exact { tsz := pc.tsz,
                      rin := fun e he => by
                        rcases List.mem_cons.1 he with rfl | he
                        · exact ⟨hun, hvn, by rw [hsym]; exact hadj, hint, hvt⟩
                        · exact pc.rin e he,
                      rnd := hrnd',
                      cnt := by
                        have := pc.cnt
                        simp only [List.length_cons, List.length_append, List.length_nil] at this ⊢
                        omega }
            · cases hres
            · cases hres
        · cases hres
      · cases hres
    · have hTu : st.T[u] = -1 := by
        by_contra h; exact htree h
      simp only [htree, if_false] at hres
      have hnotin : ¬ inTree st.T u := by unfold inTree; rw [hgetu, hTu]; simp
      have hT' : ∀ w, (st.T.set u (v : Int) huT).getD w (-1) = if w = u then (v : Int) else st.T.getD w (-1) :=
        fun w => getD_set_int huT w
      have hin' : ∀ x, inTree (st.T.set u (v : Int) huT) x ↔ (x = u ∨ inTree st.T x) := by
        intro x
        unfold inTree
        rw [hT']
        by_cases hx : x = u
        · simp [hx]
        · simp [hx]
      split at hres
      · split at hres
        · next hd hv =>
          refine ih { st with T := st.T.set u (v : Int) huT, X := u :: st.X,
                              depth := st.depth.set u (st.depth[v] + 1) hd,
                              removed := (u, v) :: st.removed } ?_ ((hin' v).2 (.inr hvt)) hnd'
            (hus' _ rfl) st' hres
          exact { tsz := by simp [pc.tsz],
                  rin := fun e he => by
                    rcases List.mem_cons.1 he with rfl | he
                    · exact ⟨hun, hvn, by rw [hsym]; exact hadj, (hin' u).2 (.inl rfl), (hin' v).2 (.inr hvt)⟩
                    · obtain ⟨h1, h2, h3, h4, h5⟩ := pc.rin e he
                      exact ⟨h1, h2, h3, (hin' _).2 (.inr h4), (hin' _).2 (.inr h5)⟩,
                  rnd := hrnd',
                  cnt := by
                    have := pc.cnt
                    show ((u, v) :: st.removed).length + (st.T.set u (v : Int) huT).count (-1) + 1 = _
                    rw [Array.count_set huT]
                    have hpos : 0 < st.T.count (-1) := by
                      rw [Array.count_pos_iff, ← hTu]; exact Array.getElem_mem huT
                    simp only [hTu, beq_self_eq_true, if_true, List.length_cons]
                    have : ((v : Int) == -1) = false := by
                      have h1 : (v : Int) ≠ -1 := by omega
                      simpa using h1
                    simp only [this, Bool.false_eq_true, if_false]
                    omega }
        · cases hres
      · cases hres

end GDist
