import Mamba.Lemmas.DistanceComp
/-!
# Lemmas for C10: the subset enumeration and the block reference
-/
namespace GDist
open GraphSpec

theorem mem_subsets {l S : List Nat} : S ∈ subsets l ↔ S.Sublist l := by
  induction l generalizing S with
  | nil => simp [subsets]
  | cons x xs ih =>
    simp only [subsets, List.mem_append, List.mem_map, List.sublist_cons_iff]
    constructor
    · rintro (h | ⟨S', h, rfl⟩)
      · exact .inl (ih.1 h)
      · exact .inr ⟨S', rfl, ih.1 h⟩
    · rintro (h | ⟨S', rfl, h⟩)
      · exact .inl (ih.2 h)
      · exact .inr ⟨S', ih.2 h, rfl⟩

theorem subsetB_iff {S T : List Nat} : subsetB S T = true ↔ ∀ x ∈ S, x ∈ T := by
  simp [subsetB, List.all_eq_true]

variable {g : G}

/-- the connectivity test on a vertex list: any two vertices of `V` are joined inside `V` -/
theorem connectedIn_iff (hsym : ∀ u v, g.adj u v = g.adj v u) (V : List Nat) :
    connectedIn g V = true ↔ ∀ x ∈ V, ∀ y ∈ V, ReachIn g V x y := by
  have hV : ∀ r ∈ V, r ∈ V := fun _ h => h
  have hcl : ∀ x ∈ ([] : List Nat), ∀ y, ReachIn g V x y → y ∈ ([] : List Nat) := fun x hx => by cases hx
  obtain ⟨h1, h2, _, h4⟩ := componentsFrom_spec hsym V [] hV hcl
  have hiff : connectedIn g V = true ↔ (componentsFrom g V V []).length ≤ 1 := by
    unfold connectedIn numComponentsIn componentsIn
    exact decide_eq_true_iff
  rw [hiff]
  generalize componentsFrom g V V [] = L at h1 h2 h4
  constructor
  · intro hlen x hx y hy
    rcases h2 x hx with h | ⟨c, hc, hxc⟩
    · cases h
    rcases h2 y hy with h | ⟨c', hc', hyc'⟩
    · cases h
    have hcc : c = c' := by
      match L, hlen, hc, hc' with
      | [a], _, hc, hc' =>
        simp at hc hc'
        rw [hc, hc']
    subst hcc
    obtain ⟨s, _, _, rfl⟩ := h1 c hc
    exact ((mem_componentIn.1 hxc).symm hsym).trans (mem_componentIn.1 hyc')
  · intro hreach
    match L, h1, h4 with
    | [], _, _ => simp
    | [a], _, _ => simp
    | a :: b :: rest, h1, h4 =>
      exfalso
      obtain ⟨s, hs, _, rfl⟩ := h1 a List.mem_cons_self
      obtain ⟨t, ht, _, rfl⟩ := h1 b (List.mem_cons_of_mem _ List.mem_cons_self)
      have hdis := (List.pairwise_cons.1 h4).1 _ List.mem_cons_self
      exact hdis t (mem_componentIn.2 (hreach s hs t ht)) (mem_componentIn.2 (ReachIn.refl ht))

theorem mem_blocks {S : List Nat} :
    S ∈ blocks g ↔
      (S.Sublist (List.range g.n) ∧ isBlockSet g S = true ∧
        ∀ T, T.Sublist (List.range g.n) → isBlockSet g T = true → (∀ x ∈ S, x ∈ T) → S = T) := by
  simp only [blocks, List.mem_filter, mem_subsets, List.all_eq_true, Bool.or_eq_true, Bool.not_eq_true',
    beq_iff_eq, and_imp]
  constructor
  · rintro ⟨⟨h1, h2⟩, h3⟩
    refine ⟨h1, h2, ?_⟩
    intro T hT1 hT2 hsub
    rcases h3 T hT1 hT2 with h | h
    · have := subsetB_iff.2 hsub
      rw [h] at this; cases this
    · exact h
  · rintro ⟨h1, h2, h3⟩
    refine ⟨⟨h1, h2⟩, ?_⟩
    intro T hT1 hT2
    cases hsub : subsetB S T with
    | false => exact .inl rfl
    | true => exact .inr (h3 T hT1 hT2 (subsetB_iff.1 hsub))

end GDist
