import Mamba.Model.Construct
import Mathlib.Tactic.Ring
import Mathlib.Tactic.Linarith
/-! Helper lemmas for C06: triangular indices, slice writes, the enumeration `pairs`. -/
namespace Construct
open GraphSpec

/-- the offset of column `j` in the DenseGraph byte array -/
def tri (j : Nat) : Nat := j * (j - 1) / 2

theorem tri_def (j : Nat) : j * (j - 1) / 2 = tri j := rfl

theorem tri_succ (j : Nat) : tri (j + 1) = tri j + j := by
  unfold tri
  induction j with
  | zero => rfl
  | succ k ih =>
    have h1 : (k + 1 + 1) * (k + 1 + 1 - 1) = (k + 1) * (k + 1 - 1) + 2 * (k + 1) := by
      simp only [Nat.add_sub_cancel]; ring
    rw [h1, Nat.add_mul_div_left _ _ (by decide : 0 < 2)]

@[simp] theorem tri_zero : tri 0 = 0 := rfl
@[simp] theorem tri_one : tri 1 = 0 := rfl

theorem tri_mono {a b : Nat} (h : a ≤ b) : tri a ≤ tri b := by
  induction h with
  | refl => exact Nat.le_refl _
  | step _ ih => rw [tri_succ]; omega

theorem tri_add_lt {i j n : Nat} (hij : i < j) (hjn : j < n) : tri j + i < tri n := by
  have := tri_mono (show j + 1 ≤ n from hjn)
  rw [tri_succ] at this; omega

theorem tri_inj {i j i' j' : Nat} (hij : i < j) (hij' : i' < j') (h : tri j + i = tri j' + i') :
    i = i' ∧ j = j' := by
  rcases Nat.lt_trichotomy j j' with hlt | heq | hgt
  · have := tri_mono (show j + 1 ≤ j' from hlt); rw [tri_succ] at this; omega
  · subst heq; omega
  · have := tri_mono (show j' + 1 ≤ j from hgt); rw [tri_succ] at this; omega


/-! ## slices -/

theorem getAt_ok {α : Type} {a : Array α} {i : Nat} (h : i < a.size) : getAt a i = .ok a[i] := by
  simp [getAt, h]

theorem getAt_eq_ok_iff {α : Type} {a : Array α} {i : Nat} {x : α} :
    getAt a i = .ok x ↔ a[i]? = some x := by
  unfold getAt
  split
  · rename_i h; simp [h]
  · rename_i h; simp [Array.getElem?_eq_none (Nat.le_of_not_lt h)]

theorem setAt_ok {α : Type} {a : Array α} {i : Nat} (x : α) (h : i < a.size) : setAt a i x = .ok (a.set i x) := by
  simp [setAt, h]

/-- writing a constant at a list of in-range positions -/
theorem foldlM_setAt {α : Type} (x : α) (idxs : List Nat) (a : Array α) (h : ∀ k ∈ idxs, k < a.size) :
    ∃ a', idxs.foldlM (fun a i => setAt a i x) a = .ok a' ∧ a'.size = a.size ∧
      ∀ k, a'[k]? = if k ∈ idxs ∧ k < a.size then some x else a[k]? := by
  induction idxs generalizing a with
  | nil => exact ⟨a, rfl, rfl, by simp⟩
  | cons i t ih =>
    have hi : i < a.size := h i (by simp)
    obtain ⟨a', h1, h2, h3⟩ := ih (a.set i x) (by intro k hk; simpa using h k (by simp [hk]))
    refine ⟨a', ?_, by simpa using h2, ?_⟩
    · simp only [List.foldlM_cons, setAt_ok x hi]; exact h1
    · intro k
      rw [h3 k]
      simp only [Array.size_set, List.mem_cons]
      by_cases hk : k < a.size
      · by_cases hkt : k ∈ t
        · simp [hkt, hk]
        · by_cases hki : k = i
          · subst hki; simp [hkt, hk]
          · simp [hkt, hk, hki, Ne.symm hki]
      · have : ¬ k = i := by omega
        simp [hk, Array.getElem?_set]

/-! ## the adjacency stored in a `Dense` -/

/-- the byte at position `k` is set -/
def bitAt (a : Array Nat) (k : Nat) : Bool := decide (0 < a.getD k 0)

/-- adjacency read off the byte array, as a closed formula -/
def Dense.adjF (d : Dense) (u v : Nat) : Bool :=
  decide (u < d.n) && decide (v < d.n) &&
    (if u < v then bitAt d.edges (tri v + u) else if v < u then bitAt d.edges (tri u + v) else false)

theorem Dense.isEdge_eq (d : Dense) (hs : d.edges.size = tri d.n) (u v : Nat) :
    d.isEdge u v = .ok (d.adjF u v) := by
  unfold Dense.isEdge Dense.adjF bitAt
  by_cases hu : u < d.n <;> by_cases hv : v < d.n
  · have h1 : ¬ (u ≥ d.n) := by omega
    have h2 : ¬ (v ≥ d.n) := by omega
    simp only [ge_iff_le, h1, h2, decide_false, Bool.or_false, Bool.false_eq_true, ↓reduceIte, hu, hv, decide_true, Bool.and_self, Bool.true_and, tri_def, gt_iff_lt]
    by_cases huv : u < v
    · have : tri v + u < d.edges.size := by rw [hs]; exact tri_add_lt huv hv
      simp [huv, getAt_ok this, Array.getD, this]
    · by_cases hvu : v < u
      · have : tri u + v < d.edges.size := by rw [hs]; exact tri_add_lt hvu hu
        simp [huv, hvu, getAt_ok this, Array.getD, this]
      · simp [huv, hvu]
  all_goals simp [hu, hv]

/-! ## the enumeration `pairs` -/

theorem pairs_succ (n : Nat) : pairs (n + 1) = pairs n ++ (List.range n).map fun i => (i, n) := by
  simp [pairs, List.range_succ, List.flatMap_append]

theorem length_pairs (n : Nat) : (pairs n).length = tri n := by
  induction n with
  | zero => rfl
  | succ k ih => rw [pairs_succ, List.length_append, ih, tri_succ]; simp

theorem mem_pairs {n : Nat} {p : Nat × Nat} : p ∈ pairs n ↔ p.1 < p.2 ∧ p.2 < n := by
  obtain ⟨a, b⟩ := p
  simp only [pairs, List.mem_flatMap, List.mem_range, List.mem_map, Prod.mk.injEq]
  constructor
  · rintro ⟨j, hj, i, hi, rfl, rfl⟩; exact ⟨hi, hj⟩
  · rintro ⟨h1, h2⟩; exact ⟨b, h2, a, h1, rfl, rfl⟩

/-- position of a pair in the DenseGraph order -/
def pos (p : Nat × Nat) : Nat := tri p.2 + p.1

theorem pos_getElem_pairs (n k : Nat) (h : k < (pairs n).length) : pos (pairs n)[k] = k := by
  induction n with
  | zero => simp [pairs] at h
  | succ m ih =>
    have hl := length_pairs m
    by_cases hk : k < (pairs m).length
    · have := ih hk
      simp only [pairs_succ, List.getElem_append_left hk]; exact this
    · have hk' : (pairs m).length ≤ k := Nat.le_of_not_lt hk
      simp only [pairs_succ, List.getElem_append_right hk', List.getElem_map, List.getElem_range, pos]
      omega

theorem edges_eq_filter (g : G) : g.edges = (pairs g.n).filter fun p => g.adj p.1 p.2 := by
  simp only [G.edges, pairs, List.filter_flatMap, List.filter_map]
  rfl

theorem m_eq_countP (g : G) : g.m = (pairs g.n).countP fun p => g.adj p.1 p.2 := by
  rw [G.m, edges_eq_filter, List.countP_eq_length_filter]

end Construct

