import Mamba.Lemmas.DawgSearchB
import Mamba.Lemmas.DawgSearchC
import Mamba.Lemmas.DawgSearchD
import Mamba.Lemmas.DawgSearchE
/-!
# C13 helper lemmas, part F: queries as the harness poses them, equivalence of searcher states
-/
namespace DawgSearch

/-- one searcher as created by the caller -/
inductive Query where
  | pattern (pat : List UInt8) (blank : UInt8)
  | anagram (an : List UInt8) (blank : UInt8)

/-- the constructor call -/
def Query.new : Query → Outcome SState
  | .pattern pat blank => .ok (.pat (newPatternSearcher pat blank))
  | .anagram an blank => do let a ← newAnagramSearcher an blank; pure (.ana a)

/-- the condition the property associates with the searcher -/
def Query.matches : Query → Word → Bool
  | .pattern pat blank, w => patternMatches blank pat w
  | .anagram an blank, w => anagramMatches blank an w

def Query.spec : Query → Spec SState
  | .pattern pat blank => patternSpec pat blank
  | .anagram an blank => anagramSpec (anagramLetters blank an) (anagramBlanks blank an) blank an.length

def newAll : List Query → Outcome (List SState)
  | [] => .ok []
  | q :: r => do let s ← q.new; let t ← newAll r; pure (s :: t)

theorem Query.spec_lawful : ∀ q : Query, Lawful goOps q.spec
  | .pattern pat blank => patternSpec_lawful pat blank
  | .anagram an blank => anagramSpec_lawful _ _ _ _ (blank_not_mem_anagramLetters blank an)

theorem Query.new_spec : ∀ q : Query, ∃ s, q.new = .ok s ∧ q.spec.R [] s
  | .pattern pat blank => ⟨_, rfl, rfl⟩
  | .anagram an blank => by
    obtain ⟨a0, h1, h2⟩ := newAnagramSearcher_spec an blank
    exact ⟨.ana a0, by simp [Query.new, h1], h2⟩

theorem Query.spec_accepts : ∀ (q : Query) (w : Word), q.spec.accepts w = q.matches w
  | .pattern pat blank, w => patternSpec_accepts pat blank w
  | .anagram an blank, w => by
    simp only [Query.spec, Query.matches, anagramMatches]
    rw [anagramSpec_accepts]
    rfl

theorem newAll_spec : ∀ qs : List Query, ∃ ss, newAll qs = .ok ss ∧ RAll (qs.map Query.spec) [] ss
  | [] => ⟨[], rfl, trivial⟩
  | q :: r => by
    obtain ⟨s, h1, h2⟩ := q.new_spec
    obtain ⟨t, h3, h4⟩ := newAll_spec r
    exact ⟨s :: t, by simp [newAll, h1, h3], h2, h4⟩

theorem accAllFrom_queries (qs : List Query) (w : Word) :
    accAllFrom (qs.map Query.spec) [] w = qs.all (·.matches w) := by
  induction qs with
  | nil => rfl
  | cons q r ih =>
    simp only [accAllFrom, List.map_cons, List.all_cons] at ih ⊢
    rw [ih]
    congr 1
    exact q.spec_accepts w

/-- two searcher states that the interface cannot tell apart: equal, or anagram searchers that differ only in how
the count of a letter is spread over several entries for that letter -/
def SState.Equiv : SState → SState → Prop
  | .pat p, .pat p' => p = p'
  | .ana a, .ana a' => a.blank = a'.blank ∧ a.targetLength = a'.targetLength ∧ a.currPath = a'.currPath ∧
      a.blanks = a'.blanks ∧ (∀ c, tot a.counts c = tot a'.counts c)
  | _, _ => False

def EquivAll : List SState → List SState → Prop
  | [], [] => True
  | s :: ss, t :: ts => s.Equiv t ∧ EquivAll ss ts
  | _, _ => False

theorem Query.R_equiv : ∀ (q : Query) (rp : Word) (s t : SState), q.spec.R rp s → q.spec.R rp t → s.Equiv t
  | .pattern pat blank, rp, s, t, hs, ht => by
    simp only [Query.spec, patternSpec] at hs ht
    subst hs; subst ht
    rfl
  | .anagram an blank, rp, s, t, hs, ht => by
    obtain ⟨a, rfl, h1, h2, h3, h4, _, h6, _⟩ := hs
    obtain ⟨a', rfl, g1, g2, g3, g4, _, g6, _⟩ := ht
    exact ⟨by rw [h1, g1], by rw [h2, g2], by rw [h3, g3], by rw [h4, g4], fun c => by rw [h6 c, g6 c]⟩

theorem RAll_equiv : ∀ (qs : List Query) (rp : Word) (ss ts : List SState),
    RAll (qs.map Query.spec) rp ss → RAll (qs.map Query.spec) rp ts → EquivAll ss ts
  | [], _, [], [], _, _ => trivial
  | [], _, [], _ :: _, _, h => h.elim
  | [], _, _ :: _, _, h, _ => h.elim
  | _ :: _, _, [], _, h, _ => h.elim
  | _ :: _, _, _ :: _, [], _, h => h.elim
  | q :: r, rp, s :: ss, t :: ts, h, g => ⟨q.R_equiv rp s t h.1 g.1, RAll_equiv r rp ss ts h.2 g.2⟩

/-- for pattern searchers "equivalent" is "equal" -/
theorem SState.Equiv.pat_eq {p : PatternSearcher} {t : SState} (h : (SState.pat p).Equiv t) : t = .pat p := by
  cases t with
  | pat p' => exact congrArg _ (Eq.symm h)
  | ana _ => exact h.elim

/-! ### `rankFilter` in terms of positions -/

theorem rankFilter_eq_zipIdx (acc : Word → Bool) : ∀ (ws : List Word) (k : Nat),
    rankFilter acc ws k = ((ws.zipIdx k).filter (fun p => acc p.1)).map (fun p => (p.1, (p.2 : Int)))
  | [], _ => rfl
  | w :: ws, k => by
    have ih := rankFilter_eq_zipIdx acc ws (k + 1)
    simp only [rankFilter, List.zipIdx_cons, List.filter_cons]
    have e : (k : Int) + 1 = ((k + 1 : Nat) : Int) := by omega
    rw [e, ih]
    split <;> simp

/-- the driver's check of the word list implies the hypothesis of the theorems -/
theorem pairwise_of_chain : ∀ (ws : List Word), (∀ i, (h : i + 1 < ws.length) → ws[i] < ws[i + 1]) →
    List.Pairwise (· < ·) ws
  | [], _ => List.Pairwise.nil
  | [a], _ => by simp
  | a :: b :: r, h => by
    have ih := pairwise_of_chain (b :: r) (fun i hi => by
      have := h (i + 1) (by simp at hi ⊢; omega)
      simpa using this)
    refine List.Pairwise.cons ?_ ih
    intro x hx
    have hab : a < b := by simpa using h 0 (by simp)
    rcases List.mem_cons.1 hx with rfl | hx
    · exact hab
    · exact List.lt_trans hab ((List.pairwise_cons.1 ih).1 x hx)

end DawgSearch
