import Mamba.Lemmas.CanonFSortedDef
import Mamba.Lemmas.CanonFClassDeage
/-!
# `deage` keeps every bin in ascending order

* `Sl.deage_sortRange_sorted` — the range written by `sortRange` is ascending;
* `DeageSorted op st` — fourth invariant of the main loop of `deage`: in front of `prevDiv` the order is ascending between
  surviving dividers, from `prevDiv` on it is still the order of `op`, and `prevDiv` itself is a surviving divider (or 0);
* `deage_binsSorted`.
-/
namespace CanonF

/-- the range written by `sortRange` is ascending -/
theorem Sl.deage_sortRange_sorted {s s' : Sl Nat} {a b : Nat} (hw : s.WF) (hb : b ≤ s.len)
    (h : s.sortRange a b = .ok s') :
    ∀ p u v, a ≤ p → p + 1 < b → s'.toList[p]? = some u → s'.toList[p + 1]? = some v → u ≤ v := by
  obtain ⟨s1, s2, _, s4, s5, _⟩ := Sl.deage_sortRange_spec hw hb h
  have hl : s.toList.length = s.len := Sl.length_toList s hw
  intro p u v hap hpb hu hv
  have htk : (List.take a s.toList).length = a := by rw [List.length_take, hl]; omega
  have hM : ((s.toList.drop a).take (b - a)).length = b - a := by
    rw [List.length_take, List.length_drop, hl]; omega
  rw [s5, List.append_assoc, List.getElem?_append_right (by omega), htk,
    List.getElem?_append_left (by rw [deage_length_sortNat, hM]; omega)] at hu hv
  have hpw : (sortNat ((s.toList.drop a).take (b - a))).Pairwise (fun x y => decide (x ≤ y) = true) := by
    unfold sortNat
    apply List.pairwise_mergeSort
    · intro x y z hxy hyz
      simp only [decide_eq_true_eq] at hxy hyz ⊢
      omega
    · intro x y
      simp only [Bool.or_eq_true, decide_eq_true_eq]
      omega
  obtain ⟨i1, e1⟩ := List.getElem?_eq_some_iff.1 hu
  obtain ⟨i2, e2⟩ := List.getElem?_eq_some_iff.1 hv
  have := List.pairwise_iff_getElem.1 hpw (p - a) (p + 1 - a) i1 i2 (by omega)
  rw [e1, e2] at this
  simpa using this

/-- the divider `d` at index `k` relative to the start `lo` of bin `k1` -/
theorem PartInv.deage_divider_pos {n : Nat} {op : OP} (h : PartInv n op) {k1 lo k d : Nat}
    (hlo : (0 :: op.binDividers.toList)[k1]? = some lo) (hd : op.binDividers.toList[k]? = some d) :
    (k < k1 → d ≤ lo) ∧ (k1 ≤ k → lo < d) := by
  refine ⟨?_, fun hk => h.deage_start_lt hlo hd hk⟩
  intro hk
  by_cases h2 : k + 1 = k1
  · rw [← h2, List.getElem?_cons_succ, hd] at hlo
    have := Option.some.inj hlo; omega
  · obtain ⟨m, hm⟩ : ∃ m, k1 = m + 1 := ⟨k1 - 1, by omega⟩
    rw [hm, List.getElem?_cons_succ] at hlo
    have hd' : (0 :: op.binDividers.toList)[k + 1]? = some d := by simpa using hd
    have := h.deage_start_lt hd' hlo (by omega)
    omega

/-- fourth loop invariant of `deage` -/
structure DeageSorted (op : OP) (st : DeageSt) : Prop where
  front : ∀ p u v, p + 1 < st.prevDiv → st.op.order.toList[p]? = some u → st.op.order.toList[p + 1]? = some v →
    (∀ a, (p + 1, a) ∈ divs op → a = op.age) → u < v
  back : ∀ p, st.prevDiv ≤ p → st.op.order.toList[p]? = op.order.toList[p]?
  prevKept : st.prev1 = 0 ∨ ∃ a, (st.prevDiv, a) ∈ divs op ∧ a ≠ op.age

theorem DeageSorted.init (op : OP) : DeageSorted op { op := op, j := 0, prev1 := 0, prevDiv := 0 } :=
  ⟨fun _ _ _ hp => absurd hp (Nat.not_lt_zero _), fun _ _ => rfl, Or.inl rfl⟩

theorem DeageSorted.keep {n : Nat} {op : OP} {st : DeageSt} {i di : Nat} {a : Int} {bd : Sl Nat} {ages : Sl Int} {opm : OP}
    (h : PartInv n op) (hb : BinsSorted op) (hinv : DeageInv op i st) (h4 : DeageSorted op st)
    (hD : (divs op)[i]? = some (di, a)) (ha : a ≠ op.age)
    (hm : (if i > st.prev1 then deageMergeBin { st.op with binDividers := bd, binAges := ages } st.j st.prevDiv di
           else .ok { st.op with binDividers := bd, binAges := ages }) = .ok opm) :
    DeageSorted op { op := opm, j := st.j + 1, prev1 := i + 1, prevDiv := di } := by
  obtain ⟨_, _, _, _, _, _, f7, _, f9, _, _⟩ := deage_merged_facts h hinv hD hm
  have hperm : opm.order.toList.Perm (List.range n) := (f9.trans hinv.ordPerm).trans h.perm
  obtain ⟨hbi, _⟩ := deage_divs_getElem?.1 hD
  have hlt : st.prevDiv < di := h.deage_start_lt hinv.prevDiv hbi hinv.prevLe
  -- `prevDiv` is a surviving divider
  have hprev : ∀ p, p + 1 = st.prevDiv → ¬ (∀ a, (p + 1, a) ∈ divs op → a = op.age) := by
    intro p hp hall
    rcases h4.prevKept with h0 | ⟨a', h1, h2⟩
    · have := hinv.prevDiv
      rw [h0] at this
      simp at this
      omega
    · rw [← hp] at h1
      exact h2 (hall a' h1)
  refine ⟨?_, ?_, Or.inr ⟨a, List.mem_of_getElem? hD, ha⟩⟩
  · show ∀ p u v, p + 1 < di → opm.order.toList[p]? = some u → opm.order.toList[p + 1]? = some v →
      (∀ a, (p + 1, a) ∈ divs op → a = op.age) → u < v
    by_cases hc : i > st.prev1
    · rw [if_pos hc] at hm
      obtain ⟨_, _, _, _, _, m6, _, _⟩ := deageMergeBin_spec hm
      simp only at m6
      have hw : st.op.order.WF := by
        have := h.wfOrder; unfold Sl.WF at this ⊢; rw [hinv.ordLen, hinv.ordSize]; exact this
      have hdi : di ≤ st.op.order.len := by
        rw [hinv.ordLen, h.lenOrder]
        exact h.deage_bd_le di (List.mem_of_getElem? hbi)
      obtain ⟨_, s2, _, s4, _, _⟩ := Sl.deage_sortRange_spec hw hdi m6
      have hout : ∀ q, q < st.prevDiv → opm.order.toList[q]? = st.op.order.toList[q]? := by
        intro q hq
        rw [Sl.getElem?_toList, Sl.getElem?_toList, s2, s4 q (by omega)]
      intro p u v hp hu hv hall
      by_cases h1 : p + 1 < st.prevDiv
      · rw [hout p (by omega)] at hu
        rw [hout (p + 1) h1] at hv
        exact h4.front p u v h1 hu hv hall
      · by_cases h2 : p + 1 = st.prevDiv
        · exact absurd hall (hprev p h2)
        · have hle := Sl.deage_sortRange_sorted hw hdi m6 p u v (by omega) hp hu hv
          have hne : u ≠ v := by
            intro e; subst e
            have := perm_range_inj hperm hu hv
            omega
          omega
    · rw [if_neg hc] at hm
      simp only [Outcome.ok.injEq] at hm
      subst hm
      have hpi : st.prev1 = i := by have := hinv.prevLe; omega
      intro p u v hp hu hv hall
      have hu' : st.op.order.toList[p]? = some u := hu
      have hv' : st.op.order.toList[p + 1]? = some v := hv
      by_cases h1 : p + 1 < st.prevDiv
      · exact h4.front p u v h1 hu' hv' hall
      · by_cases h2 : p + 1 = st.prevDiv
        · exact absurd hall (hprev p h2)
        · rw [h4.back p (by omega)] at hu'
          rw [h4.back (p + 1) (by omega)] at hv'
          apply hb p u v hu' hv'
          intro hmem
          obtain ⟨k, hk⟩ := List.mem_iff_getElem?.1 hmem
          have hlo := hinv.prevDiv
          rw [hpi] at hlo
          obtain ⟨c1, c2⟩ := h.deage_divider_pos hlo hk
          by_cases hki : k < i
          · have := c1 hki; omega
          · by_cases hke : k = i
            · subst hke
              rw [hbi] at hk
              have := Option.some.inj hk; omega
            · have hbi' : (0 :: op.binDividers.toList)[i + 1]? = some di := by simpa using hbi
              have := (h.deage_divider_pos hbi' hk).2 (by omega)
              omega
  · show ∀ p, di ≤ p → opm.order.toList[p]? = op.order.toList[p]?
    intro p hp
    rw [← h4.back p (by omega)]
    by_cases hc : i > st.prev1
    · rw [if_pos hc] at hm
      obtain ⟨_, _, _, _, _, m6, _, _⟩ := deageMergeBin_spec hm
      simp only at m6
      have hw : st.op.order.WF := by
        have := h.wfOrder; unfold Sl.WF at this ⊢; rw [hinv.ordLen, hinv.ordSize]; exact this
      have hdi : di ≤ st.op.order.len := by
        rw [hinv.ordLen, h.lenOrder]
        exact h.deage_bd_le di (List.mem_of_getElem? hbi)
      obtain ⟨_, s2, _, s4, _, _⟩ := Sl.deage_sortRange_spec hw hdi m6
      rw [Sl.getElem?_toList, Sl.getElem?_toList, s2, s4 p (by omega)]
    · rw [if_neg hc] at hm
      simp only [Outcome.ok.injEq] at hm
      subst hm
      rfl

theorem deageStep_sorted {n : Nat} {op : OP} {st st' : DeageSt} {i : Nat} (h : PartInv n op) (hb : BinsSorted op)
    (hinv : DeageInv op i st) (h4 : DeageSorted op st) (hi : i < op.binAges.len)
    (hs : deageStep op.age i st = .ok st') : DeageSorted op st' := by
  obtain ⟨di, a, g1, g3, hD⟩ := hinv.entry h hi
  rw [deageStep_eq, g3] at hs
  simp only at hs
  by_cases ha : a = op.age
  · subst ha
    rw [if_neg (fun h => h rfl)] at hs
    simp only [Outcome.ok.injEq] at hs
    subst hs
    exact h4
  · rw [if_pos ha, g1] at hs
    simp only at hs
    cases hs1 : st.op.binDividers.set st.j di with
    | ok bd =>
      cases hs2 : st.op.binAges.set st.j a with
      | ok ages =>
        rw [hs1, hs2] at hs
        simp only at hs
        generalize hm : (if i > st.prev1 then deageMergeBin { st.op with binDividers := bd, binAges := ages } st.j st.prevDiv di
           else .ok { st.op with binDividers := bd, binAges := ages }) = m at hs
        cases m with
        | ok opm =>
          simp only [Outcome.ok.injEq] at hs
          subst hs
          exact DeageSorted.keep h hb hinv h4 hD ha hm
        | panic => cases hs
        | outOfFuel => cases hs
      | panic => rw [hs1, hs2] at hs; cases hs
      | outOfFuel => rw [hs1, hs2] at hs; cases hs
    | panic => rw [hs1] at hs; cases hs
    | outOfFuel => rw [hs1] at hs; cases hs

theorem deage_loop_sorted {n : Nat} {op : OP} {st : DeageSt} (h : PartInv n op) (hb : BinsSorted op)
    (hloop : forRange (deageStep op.age) op.binAges.len 0 { op := op, j := 0, prev1 := 0, prevDiv := 0 } = .ok st) :
    DeageInv op op.binAges.len st ∧ DeageSorted op st := by
  have := forRange_inv (deageStep op.age) (fun i st => DeageInv op i st ∧ DeageSorted op st) op.binAges.len 0 _ st
    ⟨DeageInv.init op, DeageSorted.init op⟩
    (fun i s s' _ hi hP hs => ⟨deageStep_inv h hP.1 (by omega) hs, deageStep_sorted h hb hP.1 hP.2 (by omega) hs⟩) hloop
  simpa using this

/-- `deage` re-sorts every merged bin, so every bin stays in ascending order -/
theorem deage_binsSorted {n : Nat} {op op' : OP} (hp : PartInv n op) (ha : AgeInv op) (hage : 0 < op.age)
    (hb : BinsSorted op) (hd : deage op = .ok op') : BinsSorted op' := by
  obtain ⟨st, hloop⟩ := deage_loop_of_ok hd
  obtain ⟨hinv, h4⟩ := deage_loop_sorted hp hb hloop
  obtain ⟨op'', hd', hC, e1, _, _⟩ := deage_of_loop hp ha hage hloop hinv
  rw [hd] at hd'
  cases hd'
  obtain ⟨hP', _, _, hdiv, _⟩ := hC
  have hLpos : 0 < op.binAges.len := by rw [hp.lenAges]; exact hp.bdLen_pos
  -- the last divider is kept, hence `prev1` is the number of dividers and `prevDiv = n`
  have hprev : st.prev1 = op.binAges.len := by
    by_cases hc : st.prev1 = op.binAges.len
    · exact hc
    · exfalso
      have := hinv.prevLe
      obtain ⟨d, hdd⟩ := hinv.prevRemoved (op.binAges.len - 1) (by omega) (by omega)
      have h1 := (deage_divs_getElem?.1 hdd).2
      have h3 := ha.last
      rw [List.getLast?_eq_getElem?, Sl.length_toList _ hp.wfAges, h1] at h3
      have := Option.some.inj h3
      omega
  have hpd : st.prevDiv = n := by
    have h1 := hinv.prevDiv
    have h2 := hp.last
    rw [List.getLast?_eq_getElem?, Sl.length_toList _ hp.wfBd, ← hp.lenAges] at h2
    obtain ⟨m, hm⟩ : ∃ m, op.binAges.len = m + 1 := ⟨op.binAges.len - 1, by omega⟩
    rw [hprev, hm, List.getElem?_cons_succ] at h1
    rw [hm, Nat.add_sub_cancel, h1] at h2
    exact Option.some.inj h2
  intro p u v hu hv hnot
  rw [e1] at hu hv
  have hlt : p + 1 < n := by
    have := (List.getElem?_eq_some_iff.1 hv).1
    have hw : st.op.order.WF := by
      have := hp.wfOrder; unfold Sl.WF at this ⊢; rw [hinv.ordLen, hinv.ordSize]; exact this
    rw [Sl.length_toList _ hw, hinv.ordLen, hp.lenOrder] at this
    exact this
  apply h4.front p u v (by omega) hu hv
  intro a hmem
  by_cases hc : a = op.age
  · exact hc
  · exfalso
    apply hnot
    have : (p + 1, a) ∈ divs op' := by
      rw [hdiv, List.mem_filter]
      exact ⟨hmem, by simpa using hc⟩
    unfold divs at this
    exact (List.of_mem_zip this).1

end CanonF
