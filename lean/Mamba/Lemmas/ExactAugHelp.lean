import Mamba.Lemmas.ExactAugForm
import Mamba.Lemmas.IsoPreds
namespace Search
open Disjoint GSearch GraphSpec

variable {O : Oracle} {n : Nat}

theorem forall2_of_mem_flatten {α : Type} {R : Nat → List α → Prop} :
    ∀ {ks : List Nat} {blocks : List (List α)}, List.Forall₂ R ks blocks → ∀ x ∈ blocks.flatten,
      ∃ k ∈ ks, ∃ b, R k b ∧ x ∈ b ∧ ∀ y ∈ b, y ∈ blocks.flatten
  | _, _, .nil, x, hx => by simp at hx
  | _, _, .cons (a := k) (b := b) (l₁ := ks) (l₂ := bs) h hrest, x, hx => by
    simp only [List.flatten_cons, List.mem_append] at hx
    rcases hx with hx | hx
    · exact ⟨k, List.mem_cons_self, b, h, hx, fun y hy => by simp [hy]⟩
    · obtain ⟨k', hk', b', hr, hxb, hsub⟩ := forall2_of_mem_flatten hrest x hx
      exact ⟨k', List.mem_cons_of_mem _ hk', b', hr, hxb, fun y hy => by simp [hsub y hy]⟩

theorem forall2_block {α : Type} {R : Nat → List α → Prop} :
    ∀ {ks : List Nat} {blocks : List (List α)}, List.Forall₂ R ks blocks → ∀ k ∈ ks,
      ∃ b, R k b ∧ ∀ y ∈ b, y ∈ blocks.flatten
  | _, _, .nil, k, hk => by simp at hk
  | _, _, .cons (a := k0) (b := b) (l₁ := ks) (l₂ := bs) h hrest, k, hk => by
    rcases List.mem_cons.1 hk with rfl | hk
    · exact ⟨b, h, fun y hy => by simp [hy]⟩
    · obtain ⟨b', hr, hsub⟩ := forall2_block hrest k hk
      exact ⟨b', hr, fun y hy => by simp [hsub y hy]⟩

theorem mem_rootMasks {orb : DS} {x : Nat} :
    x ∈ rootMasks orb ↔ ∃ i, i < orb.size ∧ orb.getD i 0 < 0 ∧ x = 1 <<< i := by
  unfold rootMasks
  simp only [List.mem_map, List.mem_filter, decide_eq_true_eq]
  constructor
  · rintro ⟨⟨v, i⟩, ⟨hm, hneg⟩, rfl⟩
    have := List.mem_zipIdx_iff_getElem?.1 hm
    simp only [Nat.zero_add, Array.getElem?_toList] at this
    obtain ⟨hi, he⟩ := Array.getElem?_eq_some_iff.1 this
    refine ⟨i, hi, ?_, rfl⟩
    simp only [Array.getD_eq_getD_getElem?, Array.getElem?_eq_getElem hi, Option.getD_some, he]
    exact hneg
  · rintro ⟨i, hi, hneg, rfl⟩
    refine ⟨(orb[i], i), ⟨?_, ?_⟩, rfl⟩
    · rw [List.mem_zipIdx_iff_getElem?]; simp [hi]
    · simpa [Array.getD_eq_getD_getElem?, Array.getElem?_eq_getElem hi] using hneg

theorem rootMasks_pairwise {g : DG} {orb : DS} {gens : List (Array Nat)} (hd : AutData g orb gens) :
    (rootMasks orb).Pairwise fun x y => ¬ ExtEquiv g (bitsOf x) g (bitsOf y) := by
  unfold rootMasks
  rw [List.pairwise_map]
  have hnd : (orb.toList.zipIdx).Pairwise fun a b => a.2 ≠ b.2 := by
    have : ((orb.toList.zipIdx).map Prod.snd).Nodup := by
      rw [List.zipIdx_map_snd]; exact List.nodup_range' (s := 0) (n := orb.toList.length) 1 (by decide)
    exact List.pairwise_map.1 this
  refine (hnd.filter _).imp_of_mem ?_
  rintro ⟨v, i⟩ ⟨v', i'⟩ h1 h2 hne e
  have m1 : (1 <<< i) ∈ rootMasks orb := List.mem_map.2 ⟨(v, i), h1, rfl⟩
  have m2 : (1 <<< i') ∈ rootMasks orb := List.mem_map.2 ⟨(v', i'), h2, rfl⟩
  obtain ⟨j, hj, hjn, hje⟩ := mem_rootMasks.1 m1
  obtain ⟨j', hj', hjn', hje'⟩ := mem_rootMasks.1 m2
  have ej : i = j := by
    have : i ∈ bitsOf (1 <<< j) := by rw [← hje]; exact mem_bitsOf_shift.2 rfl
    exact mem_bitsOf_shift.1 this
  have ej' : i' = j' := by
    have : i' ∈ bitsOf (1 <<< j') := by rw [← hje']; exact mem_bitsOf_shift.2 rfl
    exact mem_bitsOf_shift.1 this
  subst ej; subst ej'
  simp only at hne e
  obtain ⟨-, σ, hσ, hadj, hS⟩ := e
  rw [hd.size] at hj hj'
  have := (hS i hj).1 (mem_bitsOf_shift.2 rfl)
  have hσi : σ i = i' := mem_bitsOf_shift.1 this
  have hrep := (hd.orbits i i' hj hj').2 ⟨σ, ⟨hσ, hadj⟩, hσi⟩
  rw [rep_of_root orb i hjn, rep_of_root orb i' hjn'] at hrep
  exact hne hrep

theorem minInts_mem {a : Array Int} {m : Int} (h : minInts a = .ok m) : ∃ i, i < a.size ∧ a[i]? = some m := by
  unfold minInts at h
  split at h
  · cases h
  · rename_i x hx
    simp only [Outcome.ok.injEq] at h
    have key : ∀ (l : List Int) (init : Int), (init = x ∨ init ∈ a.toList) → (∀ v ∈ l, v ∈ a.toList) →
        (l.foldl (fun m v => if v < m then v else m) init = x ∨
          l.foldl (fun m v => if v < m then v else m) init ∈ a.toList) := by
      intro l
      induction l with
      | nil => intro init hi _; exact hi
      | cons v vs ih =>
        intro init hi hl
        simp only [List.foldl_cons]
        apply ih
        · split
          · exact Or.inr (hl v List.mem_cons_self)
          · exact hi
        · exact fun w hw => hl w (List.mem_cons_of_mem _ hw)
    have hx0 : x ∈ a.toList := by
      have := Array.getElem?_eq_some_iff.1 hx
      obtain ⟨h0, he⟩ := this
      rw [← he]; simp
    have := key a.toList x (Or.inl rfl) (fun v hv => hv)
    rw [← Array.foldl_toList] at h
    rw [h] at this
    have hm : m ∈ a.toList := by
      rcases this with h1 | h1
      · rw [h1]; exact hx0
      · exact h1
    obtain ⟨i, hi, he⟩ := List.getElem_of_mem hm
    exact ⟨i, by simpa using hi, by simp [Array.getElem?_eq_getElem (by simpa using hi : i < a.size)]; simpa using he⟩

theorem cardIn_nodup {nv : Nat} {S : List Nat} (hnd : S.Nodup) (hS : ∀ v ∈ S, v < nv) : cardIn nv S = S.length := by
  unfold cardIn
  apply List.Perm.length_eq
  refine (List.perm_ext_iff_of_nodup (List.Nodup.filter _ List.nodup_range) hnd).2 ?_
  intro a
  simp only [List.mem_filter, List.mem_range, decide_eq_true_eq]
  exact ⟨fun h => h.2, fun h => ⟨hS a h, h⟩⟩

/-- the new vertex of an accepted child has minimum degree: at most `deg v + 1` neighbours for every old vertex `v` -/
theorem acc_card_le {P0 g0 : DG} {x0 : Nat} {c0 : Option Ans} (hb0 : Built P0) (hr0 : InRange P0 x0)
    (ha : AccK O n P0 x0 g0 c0) : ∀ i, i < P0.nv → cardIn P0.nv (bitsOf x0) ≤ P0.toG.deg i + 1 := by
  intro i hi
  have hbg : Built g0 := hb0.child hr0 ha.1
  have hnv : g0.nv = P0.nv + 1 := addVertex_nv ha.1
  have htoG := addVertex_toG hb0.sized (bitsOf_nodup x0) hr0 ha.1
  obtain ⟨-, degree, hdeg, r0, hscan, hr⟩ := isCanonical_struct ha.2
  have hdL := hbg.degOK (g0.nv - 1) (by omega)
  have hL : g0.nv - 1 = P0.nv := by omega
  rw [hL] at hdL hdeg hscan
  rw [hdL] at hdeg
  have hdegree : degree = ((bitsOf x0).length : Int) := by
    have := Option.some.inj hdeg
    rw [← this, htoG]
    have := deg_ext_new (g := P0.toG) (bitsOf_nodup x0) hr0
    rw [show P0.toG.n = P0.nv from rfl] at this
    rw [this]
  have hsome : ∃ vb0, r0 = some vb0 := by
    rcases hr with ⟨-, -, hb⟩ | ⟨vb0, hv, -⟩
    · cases hb
    · exact ⟨vb0, hv⟩
  obtain ⟨vb0, rfl⟩ := hsome
  obtain ⟨hall, -⟩ := (degreeScan_spec _ _ _ _ _ hscan).2 vb0 rfl
  obtain ⟨d, hd, hle⟩ := hall i (List.mem_range.2 hi)
  have hdi := hbg.degOK i (by omega)
  rw [hdi] at hd
  have hdval := Option.some.inj hd
  rw [htoG, deg_ext_old (g := P0.toG) (bitsOf x0) (show i < P0.toG.n from hi)] at hdval
  rw [cardIn_nodup (bitsOf_nodup x0) hr0]
  have : ((bitsOf x0).length : Int) ≤ ((P0.toG.deg i + (if i ∈ bitsOf x0 then 1 else 0) : Nat) : Int) := by
    rw [← hdegree, hdval]; exact hle
  have h2 : (bitsOf x0).length ≤ P0.toG.deg i + (if i ∈ bitsOf x0 then 1 else 0) := by exact_mod_cast this
  split at h2 <;> omega

end Search
