import Mamba.Lemmas.CanonFTreeFinal
import Mamba.Lemmas.CanonFFinal
/-!
# `InducedSubgraph(perm)` is the graph decoded from the certificate of `perm`

For a permutation `p` of the vertices of `g` the relabelled graph `g.induced p` (vertex `i` of the result is `p[i]`), seen as
an `IR.G`, is the graph `IR.ofCodes` decodes from the certificate `certPos (nbrsOf g) p g.n` of the order `p`.
-/
namespace CanonF
open GraphSpec

/-- membership of the code of the pair of positions `k < j` in the certificate of the order `p` -/
theorem induced_code_mem (g : G) (hg : g.WF) (p : List Nat) (hp : p.Perm (List.range g.n)) {j k : Nat}
    (hj : j < g.n) (hkj : k < j) :
    IR.tri j + k ∈ certPos (nbrsOf g) p g.n ↔ g.adj (p.getD j 0) (p.getD k 0) = true := by
  have hlen : p.length = g.n := by rw [hp.length_eq, List.length_range]
  have hnd : p.Nodup := hp.nodup_iff.2 List.nodup_range
  have hk : k < g.n := by omega
  have hq : ∀ i, i < g.n → p[i]? = some (p.getD i 0) := by
    intro i hi
    rw [List.getD_eq_getElem?_getD, List.getElem?_eq_getElem (by omega)]; rfl
  have hqlt : ∀ i, i < g.n → p.getD i 0 < g.n := by
    intro i hi
    exact List.mem_range.1 (hp.mem_iff.1 (List.mem_of_getElem? (hq i hi)))
  have hcol : ∀ i, i < g.n →
      IR.col (IR.tab g.n (fun v => p.idxOf v)) (p.getD i 0) = i := by
    intro i hi
    rw [IR.col_tab _ (hqlt i hi)]
    exact idxOf_of_getElem? hnd (hq i hi)
  have hinv : ∀ u, u < g.n → p.getD (p.idxOf u) 0 = u := by
    intro u hu
    have hmem : u ∈ p := hp.mem_iff.2 (List.mem_range.2 hu)
    have := getElem?_idxOf_of_mem hmem
    rw [List.getD_eq_getElem?_getD, this]; rfl
  rw [← cert_link (nbOK_nbrsOf g hg).1 hp, IR.mem_cert]
  constructor
  · rintro ⟨u, hu, w, hw, hlt, e⟩
    have hadj : g.adj u w = true := (mem_nbrsOf g hg u w).1 hw
    have hwn : w < g.n := (hg.supp u w hadj).2
    have hu' : u < g.n := hu
    rw [IR.col_tab _ hu', IR.col_tab _ hwn] at hlt e
    obtain ⟨e1, e2⟩ := IR.tri_inj hkj hlt e
    have := hinv u hu'
    rw [← e1] at this
    rw [this]
    have := hinv w hwn
    rw [← e2] at this
    rw [this]
    exact hadj
  · intro hadj
    refine ⟨p.getD j 0, hqlt j hj, p.getD k 0, (mem_nbrsOf g hg _ _).2 hadj, ?_, ?_⟩
    · rw [hcol j hj, hcol k hk]; exact hkj
    · rw [hcol j hj, hcol k hk]

theorem ofSpec_induced_eq_ofCodes (g : G) (hg : g.WF) (p : List Nat) (hp : p.Perm (List.range g.n)) :
    IR.ofSpec (g.induced p) = IR.ofCodes g.n (certPos (nbrsOf g) p g.n) := by
  have hlen : p.length = g.n := by rw [hp.length_eq, List.length_range]
  unfold IR.ofSpec IR.ofCodes
  show IR.G.mk p.length ((List.range p.length).map (g.induced p).nbrs).toArray = _
  rw [hlen]
  congr 2
  apply List.map_congr_left
  intro j hj
  have hj' : j < g.n := List.mem_range.1 hj
  show (List.range p.length).filter _ = _
  rw [hlen]
  apply List.filter_congr
  intro k hk
  have hk' : k < g.n := List.mem_range.1 hk
  show (decide (j < p.length) && decide (k < p.length) && g.adj (p.getD j 0) (p.getD k 0)) = _
  rw [hlen, decide_eq_true hj', decide_eq_true hk', Bool.true_and, Bool.true_and]
  rw [Bool.eq_iff_iff]
  simp only [Bool.or_eq_true, Bool.and_eq_true, decide_eq_true_eq, List.contains_iff_mem]
  rcases Nat.lt_trichotomy k j with h | h | h
  · rw [induced_code_mem g hg p hp hj' h]
    constructor
    · intro ha; exact Or.inl ⟨h, ha⟩
    · rintro (⟨_, ha⟩ | ⟨h2, _⟩)
      · exact ha
      · omega
  · subst h
    rw [hg.irrefl]
    constructor
    · intro ha; cases ha
    · rintro (⟨h2, _⟩ | ⟨h2, _⟩) <;> omega
  · rw [induced_code_mem g hg p hp hk' h, hg.symm]
    constructor
    · intro ha; exact Or.inr ⟨h, ha⟩
    · rintro (⟨h2, _⟩ | ⟨_, ha⟩)
      · omega
      · exact ha

end CanonF
