import Mamba.Lemmas.C06Rook
/-! C06: `FoldedHypercubeGraph` — edge set. -/
namespace Construct
open GraphSpec

theorem mask_xor (D x : Nat) (h : x < 2 ^ D) : (2 ^ D - 1) ^^^ x = 2 ^ D - 1 - x := by
  apply Nat.eq_of_testBit_eq
  intro i
  rw [Nat.testBit_xor, Nat.testBit_two_pow_sub_one, show 2 ^ D - 1 - x = 2 ^ D - (x + 1) by omega,
    Nat.testBit_two_pow_sub_succ h]
  by_cases hi : i < D
  · simp [hi]
  · have : x.testBit i = false := by
      apply Nat.testBit_lt_two_pow
      exact Nat.lt_of_lt_of_le h (Nat.pow_le_pow_right (by decide) (by omega))
    simp [hi, this]

theorem mask_and (D x : Nat) (h : x < 2 ^ D) : (2 ^ D - 1) &&& x = x := by
  rw [Nat.and_comm, Nat.and_two_pow_sub_one_eq_mod, Nat.mod_eq_of_lt h]


theorem xor_eq_mask_iff (D u v : Nat) (hu : u < 2 ^ D) (hv : v < 2 ^ D) :
    u ^^^ v = 2 ^ D - 1 ↔ v = 2 ^ D - 1 - u := by
  rw [← mask_xor D u hu]
  constructor
  · intro h; rw [← h, Nat.xor_comm (u ^^^ v), Nat.xor_xor_cancel_left]
  · intro h; rw [h, Nat.xor_comm (2 ^ D - 1), Nat.xor_xor_cancel_left]

theorem foldedHypercubeGraph_ok (dim : Nat) (hd : 1 ≤ dim) :
    ∃ d, foldedHypercubeGraph dim = .ok d ∧ d.WF ∧ d.abs = Families.foldedHypercube dim := by
  obtain ⟨g, e, w, hn, ha⟩ := hypercubeGraph_ok (dim - 1)
  have hmask : (1 <<< (dim - 1)) - 1 = 2 ^ (dim - 1) - 1 := by rw [Nat.one_shiftLeft]
  have hmlt : 2 ^ (dim - 1) - 1 < 2 ^ (dim - 1) := by have := Nat.two_pow_pos (dim - 1); omega
  let bound := if dim < 2 then 0 else 1 <<< (dim - 2)
  let ps := (List.range bound).map fun i => (i, andNot ((1 <<< (dim - 1)) - 1) i)
  have hbound : ∀ i, i < bound → 2 ≤ dim ∧ i < 2 ^ (dim - 2) := by
    intro i hi
    by_cases h2 : dim < 2
    · simp [bound, h2] at hi
    · simp only [bound, h2, ↓reduceIte, Nat.one_shiftLeft] at hi; exact ⟨by omega, hi⟩
  have hpow : 2 ≤ dim → 2 ^ (dim - 1) = 2 * 2 ^ (dim - 2) := by
    intro h; rw [show dim - 1 = (dim - 2) + 1 by omega, Nat.pow_succ]; omega
  have hand : ∀ i, i < bound → andNot ((1 <<< (dim - 1)) - 1) i = 2 ^ (dim - 1) - 1 - i := by
    intro i hi
    obtain ⟨h2, hi'⟩ := hbound i hi
    have : i < 2 ^ (dim - 1) := by rw [hpow h2]; omega
    rw [andNot, hmask, mask_and _ _ this, mask_xor _ _ this]
  have hrange : ∀ p ∈ ps, p.1 < g.n ∧ p.2 < g.n := by
    intro p hp
    simp only [ps, List.mem_map, List.mem_range] at hp
    obtain ⟨i, hi, rfl⟩ := hp
    obtain ⟨h2, hi'⟩ := hbound i hi
    rw [hn]; simp only [hand i hi]
    rw [hpow h2]; omega
  obtain ⟨d, e2, w2, hn2, ha2⟩ := buildFrom_ok ps g w hrange
  refine ⟨d, ?_, w2, ?_⟩
  · unfold foldedHypercubeGraph
    have : ¬ dim < 1 := by omega
    simp only [this, ↓reduceIte, e, Outcome.bind_ok]
    rw [List.foldlM_map] at e2
    exact e2
  · rw [ha2, foldl_addEdge ps g.abs (by intro p hp; exact hrange p hp), ha]
    refine G_ext (by simp [Families.hypercube, Families.foldedHypercube, Families.symm]) ?_
    intro u v
    have key : (ps.any fun p => p.1 != p.2 && isPair p.1 p.2 u v) =
        (u != v && decide (u < 2 ^ (dim - 1)) && decide (v < 2 ^ (dim - 1)) &&
          (u ^^^ v == 2 ^ (dim - 1) - 1 || v ^^^ u == 2 ^ (dim - 1) - 1)) := by
      rw [Bool.eq_iff_iff]
      simp only [List.any_eq_true, Bool.and_eq_true, bne_iff_ne, ne_eq, isPair_iff, decide_eq_true_eq, Bool.or_eq_true,
        beq_iff_eq]
      constructor
      · rintro ⟨p, hp, hne, h⟩
        simp only [ps, List.mem_map, List.mem_range] at hp
        obtain ⟨i, hi, rfl⟩ := hp
        obtain ⟨h2, hi'⟩ := hbound i hi
        simp only [hand i hi] at hne h
        have hP := hpow h2
        have hu : u < 2 ^ (dim - 1) := by omega
        have hv : v < 2 ^ (dim - 1) := by omega
        refine ⟨⟨⟨by omega, hu⟩, hv⟩, Or.inl ?_⟩
        rw [xor_eq_mask_iff _ u v hu hv]; omega
      · rintro ⟨⟨⟨hne, hu⟩, hv⟩, h⟩
        have hv' : v = 2 ^ (dim - 1) - 1 - u := by
          rcases h with h | h
          · exact (xor_eq_mask_iff _ u v hu hv).mp h
          · have := (xor_eq_mask_iff _ v u hv hu).mp h; omega
        have h2 : 2 ≤ dim := by
          by_contra hc
          have : dim - 1 = 0 := by omega
          rw [this] at hu hv; omega
        have hP := hpow h2
        have hb : bound = 2 ^ (dim - 2) := by simp [bound, show ¬ dim < 2 by omega, Nat.one_shiftLeft]
        by_cases hlt : u < 2 ^ (dim - 2)
        · have hub : u < bound := by rw [hb]; exact hlt
          refine ⟨(u, andNot ((1 <<< (dim - 1)) - 1) u), ?_, ?_, ?_⟩
          · simp only [ps, List.mem_map, List.mem_range]; exact ⟨u, hub, rfl⟩
          · simp only [hand u hub]; clear hand hb hub hbound hrange ha2 e2; generalize 2 ^ (dim - 2) = H at *; generalize 2 ^ (dim - 1) = N at *; (try simp only [true_and, and_true]); omega
          · simp only [hand u hub]; clear hand hb hub hbound hrange ha2 e2; generalize 2 ^ (dim - 2) = H at *; generalize 2 ^ (dim - 1) = N at *; (try simp only [true_and, and_true]); omega
        · have hvb : v < bound := by rw [hb]; omega
          refine ⟨(v, andNot ((1 <<< (dim - 1)) - 1) v), ?_, ?_, ?_⟩
          · simp only [ps, List.mem_map, List.mem_range]; exact ⟨v, hvb, rfl⟩
          · simp only [hand v hvb]; clear hand hb hvb hbound hrange ha2 e2; generalize 2 ^ (dim - 2) = H at *; generalize 2 ^ (dim - 1) = N at *; (try simp only [true_and, and_true]); omega
          · simp only [hand v hvb]; clear hand hb hvb hbound hrange ha2 e2; generalize 2 ^ (dim - 2) = H at *; generalize 2 ^ (dim - 1) = N at *; (try simp only [true_and, and_true]); omega
    show ((Families.hypercube (dim - 1)).adj u v || ps.any fun p => p.1 != p.2 && isPair p.1 p.2 u v) = _
    rw [key]
    simp only [Families.hypercube, Families.foldedHypercube, Families.symm]
    cases (u != v) <;> cases decide (u < 2 ^ (dim - 1)) <;> cases decide (v < 2 ^ (dim - 1)) <;>
      cases ((List.range (dim - 1)).any fun j => u ^^^ v == 2 ^ j) <;>
      cases ((List.range (dim - 1)).any fun j => v ^^^ u == 2 ^ j) <;>
      cases (u ^^^ v == 2 ^ (dim - 1) - 1) <;> cases (v ^^^ u == 2 ^ (dim - 1) - 1) <;> rfl


end Construct
