import Mamba.Lemmas.CanonFDfsMain
import Mamba.Spec.Iso
/-!
# Completeness of the canonical form in terms of the specification's isomorphism

`IR.Iso (IR.ofSpec g) (IR.ofSpec g')` (a relabelling of the neighbour-list graphs) is the same as `GSearch.Iso g g'`
(a bijection of `0..n-1` preserving the adjacency relation); hence two graphs get the same canonically relabelled graph
iff they are isomorphic in the sense of `Mamba/Spec/Iso.lean`.
-/
namespace CanonF
open GraphSpec

theorem isoSpec_mem_nbrs {g : G} {u w : Nat} : w ∈ g.nbrs u ↔ w < g.n ∧ g.adj u w = true := by
  unfold G.nbrs
  rw [List.mem_filter, List.mem_range]

theorem isoSpec_nbrs_nodup (g : G) (u : Nat) : (g.nbrs u).Nodup :=
  List.Nodup.filter _ List.nodup_range

set_option linter.unusedVariables false in
theorem ofSpec_iso_iff {g g' : G} (hg : g.WF) (hg' : g'.WF) :
    IR.Iso (IR.ofSpec g) (IR.ofSpec g') ↔ GSearch.Iso g g' := by
  constructor
  · rintro ⟨σ, τ, R⟩
    have hn : g'.n = g.n := R.n_eq
    have hl : ∀ v, v < g.n → τ (σ v) = v := R.left
    have hr : ∀ v, v < g.n → σ (τ v) = v := R.right
    have hσ : ∀ v, v < g.n → σ v < g.n := R.σ_lt
    have hτ : ∀ v, v < g.n → τ v < g.n := R.τ_lt
    have hinj : ∀ u v, u < g.n → v < g.n → σ u = σ v → u = v := by
      intro u v hu hv e
      have := congrArg τ e
      rwa [hl u hu, hl v hv] at this
    refine ⟨hn.symm, σ, ⟨hσ, hinj, fun w hw => ⟨τ w, hτ w hw, hr w hw⟩⟩, ?_⟩
    intro u v hu hv
    have hnb := R.nbrs u hu
    rw [IR.nbrs_ofSpec g hu, IR.nbrs_ofSpec g' (by rw [hn]; exact hσ u hu)] at hnb
    rw [Bool.eq_iff_iff]
    constructor
    · intro ha
      have : σ v ∈ (g.nbrs u).map σ := List.mem_map_of_mem (isoSpec_mem_nbrs.2 ⟨hv, ha⟩)
      exact (isoSpec_mem_nbrs.1 (hnb.mem_iff.2 this)).2
    · intro ha
      have hm : σ v ∈ g'.nbrs (σ u) := isoSpec_mem_nbrs.2 ⟨by rw [hn]; exact hσ v hv, ha⟩
      obtain ⟨w, hw, e⟩ := List.mem_map.1 (hnb.mem_iff.1 hm)
      obtain ⟨hwn, hwa⟩ := isoSpec_mem_nbrs.1 hw
      rw [← hinj w v hwn hv e]
      exact hwa
  · rintro ⟨hn, σ, ⟨hmaps, hinj, hsurj⟩, hadj⟩
    classical
    let τ : Nat → Nat := fun w => if h : ∃ u, u < g.n ∧ σ u = w then Classical.choose h else 0
    have hτ : ∀ w, w < g.n → τ w < g.n ∧ σ (τ w) = w := by
      intro w hw
      have h := hsurj w hw
      simp only [τ, dif_pos h]
      exact Classical.choose_spec h
    have hl : ∀ v, v < g.n → τ (σ v) = v := by
      intro v hv
      obtain ⟨h1, h2⟩ := hτ (σ v) (hmaps v hv)
      exact hinj _ _ h1 hv h2
    refine ⟨σ, τ, ?_⟩
    refine
      { n_eq := hn.symm
        left := hl
        right := fun v hv => (hτ v hv).2
        σ_lt := hmaps
        τ_lt := fun v hv => (hτ v hv).1
        nbrs_lt := ?_
        nbrs := ?_ }
    · intro v hv w hw
      have hv' : v < g.n := hv
      rw [IR.nbrs_ofSpec g hv'] at hw
      exact (isoSpec_mem_nbrs.1 hw).1
    · intro v hv
      have hv' : v < g.n := hv
      rw [IR.nbrs_ofSpec g hv', IR.nbrs_ofSpec g' (by rw [← hn]; exact hmaps v hv')]
      apply (List.perm_ext_iff_of_nodup (isoSpec_nbrs_nodup _ _) ?_).2
      · intro x
        rw [List.mem_map, isoSpec_mem_nbrs]
        constructor
        · rintro ⟨hx, ha⟩
          rw [← hn] at hx
          obtain ⟨u, hu, rfl⟩ := hsurj x hx
          refine ⟨u, isoSpec_mem_nbrs.2 ⟨hu, ?_⟩, rfl⟩
          rw [hadj v u hv' hu]; exact ha
        · rintro ⟨w, hw, rfl⟩
          obtain ⟨hwn, hwa⟩ := isoSpec_mem_nbrs.1 hw
          refine ⟨by rw [← hn]; exact hmaps w hwn, ?_⟩
          rw [← hadj v w hv' hwn]; exact hwa
      · apply List.Nodup.map_on _ (isoSpec_nbrs_nodup _ _)
        intro a ha b hb e
        exact hinj a b (isoSpec_mem_nbrs.1 ha).1 (isoSpec_mem_nbrs.1 hb).1 e

/-- two graphs get the same canonically relabelled graph if and only if they are isomorphic (specification level) -/
theorem canonF_canon_complete_spec (fuel fuel' : Nat) (g g' : G) (hg : g.WF) (hg' : g'.WF) (hn : g.n ≠ 0)
    (hn' : g'.n ≠ 0) (r r' : Res) (h : canonicalIsomorphFull fuel g none = .ok r)
    (h' : canonicalIsomorphFull fuel' g' none = .ok r') :
    ∃ p p', r.perm = some p ∧ r'.perm = some p' ∧ (g.induced p = g'.induced p' ↔ GSearch.Iso g g') := by
  obtain ⟨p, p', hp, hp', hiff⟩ := canonF_induced_complete fuel fuel' g g' hg hg' hn hn' r r' h h'
  exact ⟨p, p', hp, hp', hiff.trans (ofSpec_iso_iff hg hg')⟩

end CanonF
