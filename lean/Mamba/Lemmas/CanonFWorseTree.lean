import Mamba.Lemmas.CanonFTreeFinal
import Mamba.Lemmas.CanonFTreeWorse
import Mamba.Lemmas.IRClasses
/-!
# The partition in which the refinement aborts with "worse" against the complete IR refinement (`refine_worse_mono`)
-/
namespace CanonF

/-- the order of the colours after a pass: (old colour, number of neighbours in the splitter cell) lexicographically -/
theorem pass_lt_iff {g : IR.G} (hg : IR.WF g) (s : IR.St) (i : Nat) (rest : List Nat) {u v : Nat}
    (hu : u < g.n) (hv : v < g.n) :
    IR.col (IR.pass g s i rest).c u < IR.col (IR.pass g s i rest).c v ↔
      (IR.col s.c u < IR.col s.c v ∨ (IR.col s.c u = IR.col s.c v ∧ IR.cnt g s.c i u < IR.cnt g s.c i v)) := by
  rw [IR.pass_col s i rest hu, IR.pass_col s i rest hv, ← IR.key_lt_iff hg s.c i hu hv]
  constructor
  · intro h
    by_contra hn
    have := IR.rank_mono (ds := IR.dedup (IR.keys g s.c i)) (Nat.le_of_not_lt hn)
    omega
  · intro h
    exact IR.rank_lt_rank (IR.key_mem s.c i hu) h

/-- the counting relation used with `refineLoop_worse_cnt`: `j` complete iterations are `j` passes of `IR.refine` -/
def StepsRel (n : Nat) (nb : Nbrs) (j : Nat) (a b : OP) : Prop :=
  ∀ sa, Match n a sa → ∃ sb, Match n b sb ∧ ∀ k, IR.refine (irG n nb) (k + j) sa = IR.refine (irG n nb) k sb

theorem StepsRel.refl (n : Nat) (nb : Nbrs) (a : OP) : StepsRel n nb 0 a a :=
  fun sa hm => ⟨sa, hm, fun _ => rfl⟩

theorem StepsRel.trans {n : Nat} {nb : Nbrs} {j k : Nat} {a b c : OP} (h1 : StepsRel n nb j a b)
    (h2 : StepsRel n nb k b c) : StepsRel n nb (j + k) a c := by
  intro sa hm
  obtain ⟨sb, hmb, e1⟩ := h1 sa hm
  obtain ⟨sc, hmc, e2⟩ := h2 sb hmb
  refine ⟨sc, hmc, fun m => ?_⟩
  have : m + (j + k) = (m + k) + j := by omega
  rw [this, e1, e2]

theorem StepsRel.step {n : Nat} {nb : Nbrs} {cb fl : Sl Nat} {opts : Options} (hnb : NbOK nb n)
    {a b : OP} {sca scb : Scratch} (hp : PartInv n a) (ha : AgeInv a) (hs : ScrInv n sca) (htw : sca.timesSeen.WF)
    (htl : sca.timesSeen.len = n) (hb : BtcInv a) (hpos : 0 < a.binsToCheck.len)
    (hit : refineIter nb n cb fl opts a sca = .ok (false, b, scb)) : StepsRel n nb 1 a b := by
  intro sa hm
  obtain ⟨g1, _, _, _⟩ := refineIter_inv2 stablePerm (carried_true nb n cb fl opts).to2 hp ha trivial hs hit
  obtain ⟨i, rest, hpop, hm1, _⟩ :=
    refineIter_match refineIterCol IR.pass_char hp ha hs htw htl hb hpos hnb hm g1.1 hit
  refine ⟨_, hm1, fun k => ?_⟩
  rw [IR.refine, hpop]

/-- the partition in which the refinement aborts with "worse" is coarser than, and order-compatible with, the result of
the complete IR refinement -/
theorem refine_worse_mono {n : Nat} {nb : Nbrs} {cb fl : Sl Nat} {opts : Options} {op op' : OP} {sc sc' : Scratch}
    {s : IR.St}
    (hp : PartInv n op) (ha : AgeInv op) (hsc : ScratchOK n sc) (htl : sc.timesSeen.len = n) (hb : BtcInv op)
    (hnb : NbOK nb n) (hm : Match n op s) (hv : opts.checkViability = false)
    (hr : refine nb cb fl opts op sc = .ok (true, op', sc')) (rf : Nat) (hrf : 3 * n + 3 ≤ rf) :
    IR.Mono n (colOf n op') (IR.refine (irG n nb) rf s).c ∧ worseTest op'.value cb fl = .ok true := by
  unfold refine at hr
  rw [hp.lenOrder] at hr
  obtain ⟨j, opk, sck, hj, hR, hpk, hak, hbk, hsk, htwk, htlk, hposk, hitk, i, hil, himem, hmax, hord, hw⟩ :=
    refineLoop_worse_cnt stablePerm countLoop_sem hnb hv (StepsRel n nb) (StepsRel.refl n nb)
      (fun j k a b c h1 h2 => h1.trans h2)
      (fun a b sca scb hp ha hs htw htl hb hpos hit => StepsRel.step hnb hp ha hs htw htl hb hpos hit)
      (refineFuel n) op op' sc sc' hp ha hsc.scrInv hsc.wfT htl hb hr
  refine ⟨?_, hw⟩
  obtain ⟨sk, hmk, hek⟩ := hR s hm
  have hiw : i ∈ sk.work := (hmk.work i).2 himem
  have hmaxw : ∀ x ∈ sk.work, x ≤ i := by
    intro x hx
    have := hmax _ ((hmk.work x).1 hx)
    exact Int.ofNat_le.1 this
  obtain ⟨hpop, _⟩ := popMax_spec hmk.nodup hiw hmaxw
  unfold refineFuel at hj
  obtain ⟨k', rfl⟩ : ∃ k', rf = (k' + 1) + j := ⟨rf - j - 1, by omega⟩
  have e : IR.refine (irG n nb) (k' + 1) sk = IR.refine (irG n nb) k' (IR.pass (irG n nb) sk i (sk.work.erase i)) := by
    rw [IR.refine, hpop]
  rw [hek, e]
  have hg := irG_wf hnb
  have hcol : ∀ v, v < n → IR.col sk.c v = cellOf opk v := by
    intro v hv; rw [hmk.col]; exact col_colOf hv
  have hcnt : ∀ v, IR.cnt (irG n nb) sk.c i v = cntIn nb opk i v := by
    intro v; rw [hmk.col]; exact cnt_colOf hnb opk i v
  have h1 : IR.Mono n (colOf n op') (IR.pass (irG n nb) sk i (sk.work.erase i)).c := by
    intro u v hu hvn hlt
    rw [col_colOf hu, col_colOf hvn] at hlt
    have := hord u v hu hvn hlt
    rw [← hcol u hu, ← hcol v hvn, ← hcnt u, ← hcnt v] at this
    exact (pass_lt_iff hg sk i (sk.work.erase i) (g := irG n nb) hu hvn).2 this
  exact h1.trans (IR.refine_mono hg k' _)

end CanonF
