import Mamba.Lemmas.DistanceIPaths3
/-!
# Lemmas for C10: induced cycle sequences — invariance under rotation and reflection, orbit counting
-/
namespace GDist
open GraphSpec List

variable {g : G}

theorem chordlessCyc_iff (c : List Nat) :
    chordlessCyc g c = true ↔
      ∀ i j (hi : i < c.length) (hj : j < c.length), i + 1 < j → ¬ (i = 0 ∧ j + 1 = c.length) →
        g.adj c[i] c[j] = false := by
  cases c with
  | nil => simp [chordlessCyc]
  | cons x rest =>
    simp only [chordlessCyc, Bool.and_eq_true, List.all_eq_true, Bool.not_eq_true']
    rw [chordlessPath_iff]
    constructor
    · rintro ⟨h1, h2⟩ i j hi hj hij hnc
      cases i with
      | zero =>
        cases j with
        | zero => omega
        | succ j =>
          simp only [List.getElem_cons_zero, List.getElem_cons_succ]
          apply h1
          have hj' : j < rest.length := by simpa using hj
          -- rest[j] with 1 ≤ j ≤ |rest| - 2 lies in rest.tail.dropLast
          have hj1 : 1 ≤ j := by omega
          have hj2 : j + 1 < rest.length := by simp at hnc; omega
          rw [List.mem_iff_getElem]
          refine ⟨j - 1, by simp; omega, ?_⟩
          simp only [List.getElem_dropLast, List.getElem_tail]
          congr 1; omega
      | succ i =>
        cases j with
        | zero => omega
        | succ j =>
          simp only [List.getElem_cons_succ]
          exact h2 i j (by simpa using hi) (by simpa using hj) (by omega)
    · intro hall
      constructor
      · intro y hy
        obtain ⟨k, hk, rfl⟩ := List.mem_iff_getElem.1 hy
        have hk' : k + 2 < rest.length := by simp at hk; omega
        have := hall 0 (k + 2) (by simp) (by simp; omega) (by omega) (by simp; omega)
        simp only [List.getElem_dropLast, List.getElem_tail]
        simpa using this
      · intro i j hi hj hij
        have := hall (i+1) (j+1) (by simp; omega) (by simp; omega) (by omega) (by omega)
        simpa using this

theorem chordlessCyc_rotate_one (hsym : ∀ u v, g.adj u v = g.adj v u) {c : List Nat}
    (h : chordlessCyc g c = true) : chordlessCyc g (c.rotate 1) = true := by
  cases c with
  | nil => simpa using h
  | cons a t =>
    have hrot : (a :: t).rotate 1 = t ++ [a] := by simp [List.rotate_cons_succ]
    rw [hrot]
    rw [chordlessCyc_iff] at h ⊢
    intro i j hi hj hij hnc
    have hlen : (t ++ [a]).length = t.length + 1 := by simp
    rw [hlen] at hi hj hnc
    by_cases hjl : j < t.length
    · have hil : i < t.length := by omega
      rw [List.getElem_append_left hil, List.getElem_append_left hjl]
      have := h (i+1) (j+1) (by simp; omega) (by simp; omega) (by omega) (by omega)
      simpa using this
    · have hj' : j = t.length := by omega
      subst hj'
      have hil : i < t.length := by omega
      rw [List.getElem_append_left hil, List.getElem_append_right (Nat.le_refl _)]
      simp only [Nat.sub_self, List.getElem_cons_zero]
      have hi1 : 1 ≤ i := by
        by_contra h0
        exact hnc ⟨by omega, rfl⟩
      have := h 0 (i+1) (by simp) (by simp; omega) (by omega) (by simp; omega)
      rw [hsym]
      simpa using this

theorem chordlessCyc_of_isRotated (hsym : ∀ u v, g.adj u v = g.adj v u) {c d : List Nat}
    (h : chordlessCyc g c = true) (hr : c ~r d) : chordlessCyc g d = true := by
  obtain ⟨k, rfl⟩ := hr
  induction k with
  | zero => simpa using h
  | succ k ih =>
    have := chordlessCyc_rotate_one hsym ih
    rwa [List.rotate_rotate] at this

theorem chordlessCyc_reverse (hsym : ∀ u v, g.adj u v = g.adj v u) {c : List Nat}
    (h : chordlessCyc g c = true) : chordlessCyc g c.reverse = true := by
  rw [chordlessCyc_iff] at h ⊢
  intro i j hi hj hij hnc
  have hi' : i < c.length := by simpa using hi
  have hj' : j < c.length := by simpa using hj
  rw [List.length_reverse] at hnc
  rw [List.getElem_reverse, List.getElem_reverse, hsym]
  exact h _ _ (by omega) (by omega) (by omega) (by omega)

end GDist
