import Mamba.Lemmas.CanonFDfsLeafOther
import Mamba.Lemmas.CanonFOrbBase
import Mamba.Lemmas.CanonFOrbTree
import Mamba.Lemmas.CanonFOrbRel
/-!
# Orbit completeness (A-layer) at a leaf that is neither better than / equal to the best leaf nor equal to the first leaf

`leafNode` only increments `count` (`dfs_leaf_other_v`). The leaf has not the certificate of the first leaf (`hcf`), so it
is covered vacuously (`olo_acov_leaf`); the top frame turns to "between two children" (`ACovFrames.finish_child`,
`FrameAuxA1.finish_child`); the rest are congruences for `count + 1` and the ghost `vs := vs.dropLast`.
-/
namespace CanonF

/-- a leaf node whose certificate (`op.value`) differs from `certF` is covered vacuously -/
theorem olo_acov_leaf {n : Nat} {nb : Nbrs} {rf : Nat} (hnb : NbOK nb n) {op : OP} {ν : IR.St} {lF : Array Nat}
    {certF : List Nat} {R : Nat → Nat → Prop}
    (hp : PartInv n op) (hleaf : op.binDividers.len = n) (hm : Match n op ν) (hvc : VClean nb op) (hspl : op.spl = n)
    (hne : compare op.value.toList certF ≠ 0) : ACov n nb rf lF certF R ν := by
  refine acov_leaf (target_none (nb := nb) hp hm hleaf) (fun hc => ?_)
  exfalso
  rw [hm.col, leaf_colOf hp hleaf, cert_link hnb hp.perm] at hc
  have := hvc.val
  rw [hspl, hc] at this
  rw [this, compare_self] at hne
  exact hne rfl

/-- `GlobalA` when `count` changes between two positive values and the ghost vertex path `vs` changes -/
theorem olo_globalA_congr_pos {n : Nat} {gh gh' : Gh} {s s' : LS}
    (h : GlobalA n gh s) (hp : 0 < s.count)
    (e1 : s'.firstLeaf = s.firstLeaf) (e2 : s'.currentBest = s.currentBest) (e3 : s'.bestPerm = s.bestPerm)
    (e4 : s'.flOrbits = s.flOrbits) (e5 : s'.ngens = s.ngens) (e6 : s'.gens = s.gens)
    (g1 : gh'.oF = gh.oF) (g2 : gh'.bgs = gh.bgs) : GlobalA n gh' s' := by
  constructor
  · intro _; rw [e1, e2]; exact h.bgf hp
  · intro _; rw [e1, e2, e3, lFof_congr g1, ORel_congr e4]; exact h.bestA hp
  · rw [g2, ORel_congr e4]; exact h.bgsM
  · rw [e5, e6, ORel_congr e4]; exact h.gensM

/-- the frames of the A-layer at a leaf whose certificate is not the first certificate: the top frame turns to "between
two children", the leaf being covered vacuously -/
theorem olo_frames_finish {n : Nat} {nb : Nbrs} {rf : Nat} {r : IR.St} (hnb : NbOK nb n) {gh : Gh} {s : LS}
    {lv : List (Nat × Nat)} (hc : Core n s) (hl : LevelsOK s.op s.path s.choices lv)
    (hw : WalkNodev n nb rf r gh.vs lv s) (hleaf : s.op.binDividers.len = n) (hvc : VClean nb s.op)
    (hspl : s.op.spl = n) (hne : compare s.op.value.toList s.firstLeaf.toList ≠ 0)
    (hcov : ACovFrames n nb rf r gh s gh.vs false s.path s.choices lv)
    (haux : FrameAuxA n nb rf r gh s gh.vs false s.path s.choices lv) :
    ACovFrames n nb rf r gh s gh.vs true s.path s.choices lv ∧
      FrameAuxA n nb rf r gh s gh.vs true s.path s.choices lv := by
  obtain ⟨h1, h2, h3, h4, h5, h6, h7⟩ := hw
  cases hpth : s.path with
  | nil =>
    rw [hpth] at haux hcov
    cases hcc : s.choices <;> cases lv <;> simp_all [FrameAuxA, ACovFrames]
  | cons p ps =>
    rw [hpth] at haux hcov hl h5 h3
    cases hch : s.choices with
    | nil => rw [hch] at haux; simp [FrameAuxA] at haux
    | cons c cs =>
      cases lv with
      | nil => rw [hch] at haux; simp [FrameAuxA] at haux
      | cons x ls =>
        obtain ⟨st, sz⟩ := x
        rw [hch] at haux hcov hl h5
        simp only [LevelsOK] at hl
        obtain ⟨_, _, tc, _, _⟩ := hl
        simp only [FramesOK] at h5
        obtain ⟨g1, _, g3, _⟩ := h5
        simp only [List.length_cons] at h3
        obtain ⟨g3a, _⟩ := g3 (by omega)
        have hm : Match n s.op (nodeL n nb rf r gh.vs gh.vs.length) :=
          (h4 gh.vs.length (Nat.le_refl _)).toMatch hc.part hc.age (by omega) h7
        have hleafcov : ACov n nb rf (lFof n gh) s.firstLeaf.toList (ORel s) (nodeL n nb rf r gh.vs gh.vs.length) :=
          olo_acov_leaf hnb hc.part hleaf hm hvc hspl hne
        have hnew : ∀ w, (cellL n nb rf r gh.vs ps.length st)[c - st]? = some w →
            ACov n nb rf (lFof n gh) s.firstLeaf.toList (ORel s)
              (IR.childSt (irG n nb) rf (nodeL n nb rf r gh.vs ps.length) st w) := by
          intro w hw'
          rw [show c - st = p by omega, ← g3a] at hw'
          have hn := nodeL_succ h1 hw' g1
          have := hleafcov
          rw [h3, hn] at this
          exact this
        exact ⟨hcov.finish_child (fun w hw' => Or.inl (hnew w hw')),
          FrameAuxA.mk ((FrameAuxA.head haux).finish_child (fun w hw' _ => hnew w hw')) (FrameAuxA.tail haux)⟩

section
variable {n m : Nat} {nb : Nbrs} {rf : Nat} {r : IR.St}
  (hnb : NbOK nb n)

set_option linter.unusedVariables false in
include hnb in
/-- any other leaf -/
theorem orb_leaf_other (gh : Gh) (lv : List (Nat × Nat)) (s s1 : LS) (hI : MInv n m nb s)
    (hlv : LevelsOK s.op s.path s.choices lv) (hleaf : s.op.binDividers.len = n)
    (hJ : CertM n m nb lv false s) (hDv : DNodev n nb rf r gh lv s) (hAv : ANodev n nb rf r gh lv s)
    (hs1 : leafNode n m s = .ok s1) (hJ1 : CertA n m nb lv s1)
    (hc1 : (compare s.op.value.toList s.currentBest.toList == 1 || s.count + 1 == 1) = false)
    (hc0 : (compare s.op.value.toList s.currentBest.toList == 0) = false)
    (hcf : (compare s.op.value.toList s.firstLeaf.toList == 0) = false)
    (lv1 : List (Nat × Nat)) (hl1 : LevelsOK s1.op s1.path s1.choices lv1)
    (hDv' : DAv n nb rf r { gh with vs := gh.vs.dropLast } lv1 s1) :
    AAv n nb rf r { gh with vs := gh.vs.dropLast } lv1 s1 := by
  obtain ⟨hw, hG, _, _, hoff⟩ := hDv
  obtain ⟨hGA, hcovA, hauxA⟩ := hAv
  have hc := hI.core
  obtain ⟨hvc, hspl⟩ := leaf_clean hc.part hleaf (hJ.2.2.1 rfl)
  have hc1' := hc1
  simp only [Bool.or_eq_false_iff, beq_eq_false_iff_ne, ne_eq] at hc1'
  obtain ⟨_, hcn⟩ := hc1'
  have hcnt : 0 < s.count := by omega
  have hne : compare s.op.value.toList s.firstLeaf.toList ≠ 0 := by
    simpa using hcf
  have es := lo_leafNode_eq hc1 hc0 hcf hs1
  subst es
  have elv : lv1 = lv := LevelsOK_unique _ _ _ _ hl1 hlv
  subst elv
  obtain ⟨hcovT, hauxT⟩ := olo_frames_finish hnb hc hlv hw hleaf hvc hspl hne hcovA hauxA
  obtain ⟨h1, h2, h3, h4, h5, h6, h7⟩ := hw
  have htake : ∀ L, L < s.path.length → gh.vs.dropLast.take L = gh.vs.take L :=
    fun L hL => take_dropLast gh.vs (by omega)
  refine ⟨?_, ?_, ?_, ?_⟩
  · exact olo_globalA_congr_pos (gh := gh) (gh' := { gh with vs := gh.vs.dropLast }) (s := s)
      (s' := { s with count := s.count + 1 }) hGA hcnt rfl rfl rfl rfl rfl rfl rfl rfl
  · exact ACovFrames.congr (gh := gh) (gh' := { gh with vs := gh.vs.dropLast }) (s := s)
      (s' := { s with count := s.count + 1 }) (vs := gh.vs) (vs' := gh.vs.dropLast) rfl rfl
      (onFirstB_count_succ hcnt rfl rfl) rfl true s.path s.choices lv1 htake hcovT
  · exact FrameAuxA.congr_gh (gh := gh) (gh' := { gh with vs := gh.vs.dropLast }) rfl rfl rfl true s.path s.choices lv1
      (FrameAuxA.congr_pos (s := s) (s' := { s with count := s.count + 1 }) (us := gh.vs) (us' := gh.vs.dropLast)
        hcnt rfl rfl true s.path s.choices lv1 htake hauxT)
  · intro hp
    exfalso
    have hp' : s.path = [] := hp
    rw [hp'] at h3
    have hvs : gh.vs = [] := List.length_eq_zero_iff.1 h3
    have := (hoff hcnt).1
    rw [hvs] at this
    exact this (by simp)

end
end CanonF
