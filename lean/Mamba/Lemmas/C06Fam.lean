import Mamba.Lemmas.C06Line3
/-! C06: families built through `AddEdge` — edge-set lemmas. -/
namespace Construct
open GraphSpec


/-- edge-set lemma for a family built by `AddEdge`: the non-loop pairs of the list are exactly the edges of `symm n rel` -/
theorem ofPairs_eq_symm (n : Nat) (ps : List (Nat × Nat)) (rel : Nat → Nat → Bool)
    (h : ∀ u v, (∃ p ∈ ps, p.1 ≠ p.2 ∧ ((u = p.1 ∧ v = p.2) ∨ (u = p.2 ∧ v = p.1))) ↔
      (u ≠ v ∧ u < n ∧ v < n ∧ (rel u v = true ∨ rel v u = true))) :
    ofPairs n ps = Families.symm n rel := by
  refine G_ext (show _ = _ from rfl) ?_
  intro u v
  simp only [ofPairs, Families.symm]
  rw [Bool.eq_iff_iff]
  simp only [List.any_eq_true, Bool.and_eq_true, bne_iff_ne, ne_eq, isPair_iff, decide_eq_true_eq, Bool.or_eq_true]
  rw [show (∃ x, x ∈ ps ∧ ¬x.1 = x.2 ∧ (u = x.1 ∧ v = x.2 ∨ u = x.2 ∧ v = x.1)) ↔
      (∃ p ∈ ps, p.1 ≠ p.2 ∧ ((u = p.1 ∧ v = p.2) ∨ (u = p.2 ∧ v = p.1))) from
    ⟨fun ⟨x, a, b, c⟩ => ⟨x, a, b, c⟩, fun ⟨x, a, b, c⟩ => ⟨x, a, b, c⟩⟩, h u v]
  constructor
  · rintro ⟨a, b, c, d⟩; exact ⟨⟨⟨a, b⟩, c⟩, d⟩
  · rintro ⟨⟨⟨a, b⟩, c⟩, d⟩; exact ⟨a, b, c, d⟩

/-! ### FriendshipGraph -/

def friendshipPairs (n : Nat) : List (Nat × Nat) :=
  (List.range n).flatMap fun i => [(2 * i + 1, 2 * i + 2), (0, 2 * i + 1), (0, 2 * i + 2)]

theorem friendshipGraph_ok (n : Nat) :
    ∃ d, friendshipGraph n = .ok d ∧ d.WF ∧ d.abs = Families.friendship n := by
  obtain ⟨d, e, w, _, a⟩ := buildByAddEdge_ok (2 * n + 1) (friendshipPairs n) (by
    intro p hp
    simp only [friendshipPairs, List.mem_flatMap, List.mem_range, List.mem_cons, List.not_mem_nil, or_false] at hp
    obtain ⟨i, hi, rfl | rfl | rfl⟩ := hp <;> simp <;> omega)
  refine ⟨d, e, w, ?_⟩
  rw [a, Families.friendship]
  apply ofPairs_eq_symm
  intro u v
  simp only [friendshipPairs, List.mem_flatMap, List.mem_range, List.mem_cons, List.not_mem_nil, or_false,
    Bool.or_eq_true, beq_iff_eq, Bool.and_eq_true, decide_eq_true_eq]
  constructor
  · rintro ⟨p, ⟨i, hi, rfl | rfl | rfl⟩, hne, h⟩ <;> simp only at hne h <;> omega
  · rintro ⟨hne, hu, hv, h⟩
    rcases Nat.eq_zero_or_pos u with hu0 | hu0
    · exact ⟨(0, v), ⟨(v - 1) / 2, by omega, by
        rcases Nat.even_or_odd' (v - 1) with ⟨k, hk | hk⟩
        · right; left; simp only [Prod.mk.injEq, true_and]; omega
        · right; right; simp only [Prod.mk.injEq, true_and]; omega⟩, by show (0 : Nat) ≠ v; omega, Or.inl ⟨hu0, rfl⟩⟩
    · rcases Nat.eq_zero_or_pos v with hv0 | hv0
      · exact ⟨(0, u), ⟨(u - 1) / 2, by omega, by
          rcases Nat.even_or_odd' (u - 1) with ⟨k, hk | hk⟩
          · right; left; simp only [Prod.mk.injEq, true_and]; omega
          · right; right; simp only [Prod.mk.injEq, true_and]; omega⟩, by show (0 : Nat) ≠ u; omega, Or.inr ⟨rfl, hv0⟩⟩
      · exact ⟨(2 * ((u - 1) / 2) + 1, 2 * ((u - 1) / 2) + 2), ⟨(u - 1) / 2, by omega, Or.inl rfl⟩,
          by simp only; omega, by simp only; omega⟩




/-! ### GeneralisedPetersenGraph -/

theorem generalisedPetersenGraph_ok (n k : Nat) (hn : 3 ≤ n) (hk : k ≤ (n - 1) / 2) :
    ∃ d, generalisedPetersenGraph n (k : Int) = .ok d ∧ d.WF ∧ d.abs = Families.generalisedPetersen n k := by
  have hn0 : 0 < n := by omega
  obtain ⟨d, e, w, _, a⟩ := buildByAddEdge_ok (2 * n)
    ((List.range n).flatMap fun i => [(i, (i + 1) % n), (i, n + i), (n + i, n + ((i + k) % n))]) (by
    intro p hp
    simp only [List.mem_flatMap, List.mem_range, List.mem_cons, List.not_mem_nil, or_false] at hp
    obtain ⟨i, hi, rfl | rfl | rfl⟩ := hp
    · have := Nat.mod_lt (i + 1) hn0; simp only; omega
    · simp only; omega
    · have := Nat.mod_lt (i + k) hn0; simp only; omega)
  refine ⟨d, ?_, w, ?_⟩
  · unfold generalisedPetersenGraph
    have h1 : ¬ n < 3 := by omega
    have h2 : ¬ ((k : Int) < 0 ∨ (k : Int) > ((n : Int) - 1) / 2) := by omega
    simp only [h1, ↓reduceIte, Bool.or_eq_true, decide_eq_true_eq, h2, Int.toNat_natCast]
    exact e
  · rw [a, Families.generalisedPetersen]
    apply ofPairs_eq_symm
    intro u v
    simp only [List.mem_flatMap, List.mem_range, List.mem_cons, List.not_mem_nil, or_false,
      Bool.or_eq_true, beq_iff_eq, Bool.and_eq_true, decide_eq_true_eq]
    constructor
    · rintro ⟨p, ⟨i, hi, rfl | rfl | rfl⟩, hne, h⟩
      · have := Nat.mod_lt (i + 1) hn0
        simp only at hne h
        refine ⟨by omega, by omega, by omega, ?_⟩
        rcases h with ⟨rfl, rfl⟩ | ⟨rfl, rfl⟩
        · exact Or.inl (Or.inl (Or.inl ⟨⟨hi, this⟩, rfl⟩))
        · exact Or.inr (Or.inl (Or.inl ⟨⟨hi, this⟩, rfl⟩))
      · simp only at hne h
        refine ⟨by omega, by omega, by omega, ?_⟩
        rcases h with ⟨rfl, rfl⟩ | ⟨rfl, rfl⟩
        · exact Or.inl (Or.inl (Or.inr ⟨hi, rfl⟩))
        · exact Or.inr (Or.inl (Or.inr ⟨hi, rfl⟩))
      · have := Nat.mod_lt (i + k) hn0
        simp only at hne h
        refine ⟨by omega, by omega, by omega, ?_⟩
        rcases h with ⟨rfl, rfl⟩ | ⟨rfl, rfl⟩
        · exact Or.inl (Or.inr ⟨⟨by omega, by omega⟩, by simp⟩)
        · exact Or.inr (Or.inr ⟨⟨by omega, by omega⟩, by simp⟩)
    · rintro ⟨hne, hu, hv, h⟩
      rcases h with ((⟨⟨h1, h2⟩, h3⟩ | ⟨h1, h2⟩) | ⟨⟨h1, h2⟩, h3⟩) | ((⟨⟨h1, h2⟩, h3⟩ | ⟨h1, h2⟩) | ⟨⟨h1, h2⟩, h3⟩)
      · exact ⟨(u, (u + 1) % n), ⟨u, h1, Or.inl rfl⟩, by simp only; omega, Or.inl ⟨rfl, h3.symm⟩⟩
      · exact ⟨(u, n + u), ⟨u, h1, Or.inr (Or.inl rfl)⟩, by simp only; omega, Or.inl ⟨rfl, h2⟩⟩
      · refine ⟨(n + (u - n), n + ((u - n + k) % n)), ⟨u - n, by omega, Or.inr (Or.inr rfl)⟩, by simp only; omega, Or.inl ⟨by omega, by omega⟩⟩
      · exact ⟨(v, (v + 1) % n), ⟨v, h1, Or.inl rfl⟩, by simp only; omega, Or.inr ⟨h3.symm, rfl⟩⟩
      · exact ⟨(v, n + v), ⟨v, h1, Or.inr (Or.inl rfl)⟩, by simp only; omega, Or.inr ⟨h2, rfl⟩⟩
      · refine ⟨(n + (v - n), n + ((v - n + k) % n)), ⟨v - n, by omega, Or.inr (Or.inr rfl)⟩, by simp only; omega, Or.inr ⟨by omega, by omega⟩⟩




/-! ### KneserGraph -/

theorem intersectionSize_zero (a b : List Nat) : (intersectionSize a b == 0) = Families.disjoint a b := by
  rw [Bool.eq_iff_iff]
  simp only [intersectionSize, beq_iff_eq, List.length_eq_zero_iff, List.filter_eq_nil_iff, Families.disjoint,
    List.all_eq_true, Bool.not_eq_true']
  constructor
  · intro h x hx; simpa using h x hx
  · intro h x hx; simpa using h x hx

theorem disjoint_comm (a b : List Nat) : Families.disjoint a b = Families.disjoint b a := by
  rw [Bool.eq_iff_iff]
  simp only [Families.disjoint, List.all_eq_true, Bool.not_eq_true', List.contains_eq_mem, decide_eq_false_iff_not]
  constructor <;> intro h x hx hx' <;> exact h x hx' hx

theorem kneserGraph_ok (n k : Nat) :
    ∃ d, kneserGraph n (k : Int) = .ok d ∧ d.WF ∧ d.abs = Families.kneser n k := by
  have hc : coeff n (k : Int) = Families.choose n k := by simp [coeff]
  obtain ⟨d, e, w, _, a⟩ := buildByAddEdge_ok (Families.choose n k)
    ((List.range (Families.choose n k)).flatMap fun i =>
      ((List.range' i (Families.choose n k - i)).filter fun j =>
        intersectionSize (Families.colexUnrank i k) (Families.colexUnrank j k) == 0).map fun j => (i, j)) (by
    intro p hp
    simp only [List.mem_flatMap, List.mem_range, List.mem_map, List.mem_filter, List.mem_range'_1] at hp
    obtain ⟨i, hi, j, ⟨hj, _⟩, rfl⟩ := hp
    simp only; omega)
  refine ⟨d, ?_, w, ?_⟩
  · unfold kneserGraph
    simp only [hc, Int.toNat_natCast]
    exact e
  · rw [a, Families.kneser]
    apply ofPairs_eq_symm
    intro u v
    simp only [List.mem_flatMap, List.mem_range, List.mem_map, List.mem_filter, List.mem_range'_1, intersectionSize_zero]
    constructor
    · rintro ⟨p, ⟨i, hi, j, ⟨hj, hd⟩, rfl⟩, hne, h⟩
      simp only at hne h
      refine ⟨by omega, by omega, by omega, ?_⟩
      rcases h with ⟨rfl, rfl⟩ | ⟨rfl, rfl⟩
      · exact Or.inl hd
      · exact Or.inr hd
    · rintro ⟨hne, hu, hv, h⟩
      rcases Nat.lt_or_gt_of_ne hne with hlt | hlt
      · rcases h with h | h
        · exact ⟨(u, v), ⟨u, hu, v, ⟨by omega, h⟩, rfl⟩, hne, Or.inl ⟨rfl, rfl⟩⟩
        · exact ⟨(u, v), ⟨u, hu, v, ⟨by omega, by rw [disjoint_comm]; exact h⟩, rfl⟩, hne, Or.inl ⟨rfl, rfl⟩⟩
      · rcases h with h | h
        · exact ⟨(v, u), ⟨v, hv, u, ⟨by omega, by rw [disjoint_comm]; exact h⟩, rfl⟩, Ne.symm hne, Or.inr ⟨rfl, rfl⟩⟩
        · exact ⟨(v, u), ⟨v, hv, u, ⟨by omega, h⟩, rfl⟩, Ne.symm hne, Or.inr ⟨rfl, rfl⟩⟩


end Construct
