import Mamba.Lemmas.CliqueColourCert
/-! Helper lemmas for C09: the line graph — edge colourings of `g` = vertex colourings of `lineGraph g`. -/
namespace CliqueColour
open GraphSpec

theorem mem_edges {g : G} {u v : Nat} : (u, v) ∈ g.edges ↔ u < v ∧ v < g.n ∧ g.adj u v = true := by
  simp only [G.edges, List.mem_flatMap, List.mem_range, List.mem_map, List.mem_filter, Prod.mk.injEq]
  constructor
  · rintro ⟨b, hb, a, ⟨ha, hadj⟩, rfl, rfl⟩
    exact ⟨ha, hb, hadj⟩
  · rintro ⟨h1, h2, h3⟩
    exact ⟨v, h2, u, ⟨h1, h3⟩, rfl, rfl⟩

theorem nodup_edges (g : G) : g.edges.Nodup := by
  simp only [G.edges]
  rw [List.nodup_flatMap]
  refine ⟨fun v _ => ?_, ?_⟩
  · exact ((List.nodup_range).sublist List.filter_sublist).map (fun a b h => by simpa using h)
  · refine List.Pairwise.imp_of_mem (R := fun a b => a ≠ b) ?_ (List.nodup_range (n := g.n))
    intro a b _ _ hab e hea heb
    apply hab
    obtain ⟨x, _, rfl⟩ := List.mem_map.1 hea
    obtain ⟨y, _, h⟩ := List.mem_map.1 heb
    exact (Prod.mk.inj h).2.symm

theorem share_comm (e f : Nat × Nat) : share e f = share f e := by
  rw [Bool.eq_iff_iff]
  simp only [share, Bool.or_eq_true, beq_iff_eq]
  constructor <;> intro h <;> omega

theorem lineGraph_n (g : G) : (lineGraph g).n = g.edges.length := rfl

theorem lineGraph_adj (g : G) (i j : Nat) :
    (lineGraph g).adj i j =
      (i != j && decide (i < g.edges.length) && decide (j < g.edges.length) &&
        share (g.edges.getD i (0, 0)) (g.edges.getD j (0, 0))) := rfl

theorem lineGraph_wf (g : G) : (lineGraph g).WF where
  symm := fun u v => by
    rw [lineGraph_adj, lineGraph_adj, share_comm, bne_comm]
    cases decide (u < g.edges.length) <;> cases decide (v < g.edges.length) <;> simp
  irrefl := fun v => by rw [lineGraph_adj]; simp
  supp := fun u v h => by
    rw [lineGraph_adj] at h
    simp only [Bool.and_eq_true, decide_eq_true_eq] at h
    exact ⟨h.1.1.2, h.1.2⟩

/-- the edge of `g` with number `i` -/
theorem edge_getD {g : G} {i : Nat} (hi : i < g.edges.length) :
    g.edges.getD i (0, 0) ∈ g.edges := by
  rw [List.getD_eq_getElem?_getD, List.getElem?_eq_getElem hi, Option.getD_some]
  exact List.getElem_mem hi

theorem edge_getD_inj {g : G} {i j : Nat} (hi : i < g.edges.length) (hj : j < g.edges.length)
    (h : g.edges.getD i (0, 0) = g.edges.getD j (0, 0)) : i = j := by
  rw [List.getD_eq_getElem?_getD, List.getElem?_eq_getElem hi, List.getD_eq_getElem?_getD,
    List.getElem?_eq_getElem hj, Option.getD_some, Option.getD_some] at h
  exact (List.Nodup.getElem_inj_iff (nodup_edges g)).1 h

/-- canonical orientation of a pair -/
def opair (u v : Nat) : Nat × Nat := (min u v, max u v)

theorem opair_comm (u v : Nat) : opair u v = opair v u := by
  simp [opair, Nat.min_comm, Nat.max_comm]

theorem opair_mem {g : G} (hw : g.WF) {u v : Nat} (ha : g.adj u v = true) : opair u v ∈ g.edges := by
  have hs := hw.supp u v ha
  have hne : u ≠ v := by
    intro h; subst h; rw [hw.irrefl] at ha; cases ha
  rw [opair, mem_edges]
  rcases Nat.lt_or_gt_of_ne hne with h | h
  · rw [Nat.min_eq_left (by omega), Nat.max_eq_right (by omega)]
    exact ⟨h, hs.2, ha⟩
  · rw [Nat.min_eq_right (by omega), Nat.max_eq_left (by omega)]
    exact ⟨h, hs.1, by rw [hw.symm]; exact ha⟩

theorem edgeColourable_of_lineColourable {g : G} (hw : g.WF) {k : Nat} (h : Colourable (lineGraph g) k) :
    EdgeColourable g k := by
  obtain ⟨f, hp, hk⟩ := h
  refine ⟨fun u v => f (g.edges.idxOf (opair u v)), fun u v => by simp only [opair_comm],
    fun u v _ _ ha => ?_, fun u v w _ _ _ hne ha1 ha2 => ?_⟩
  · exact hk _ (List.idxOf_lt_length_of_mem (opair_mem hw ha))
  · have h1 := opair_mem hw ha1
    have h2 := opair_mem hw ha2
    have hi1 := List.idxOf_lt_length_of_mem h1
    have hi2 := List.idxOf_lt_length_of_mem h2
    have hne1 : u ≠ v := by intro h; subst h; rw [hw.irrefl] at ha1; cases ha1
    have hne2 : u ≠ w := by intro h; subst h; rw [hw.irrefl] at ha2; cases ha2
    have hpne : opair u v ≠ opair u w := by
      simp only [opair, ne_eq, Prod.mk.injEq, not_and]
      intro h1' h2'
      omega
    refine hp _ _ hi1 hi2 ?_
    rw [lineGraph_adj]
    have e1 : g.edges.getD (g.edges.idxOf (opair u v)) (0, 0) = opair u v := by
      rw [List.getD_eq_getElem?_getD, List.getElem?_eq_getElem hi1, Option.getD_some, List.getElem_idxOf]
    have e2 : g.edges.getD (g.edges.idxOf (opair u w)) (0, 0) = opair u w := by
      rw [List.getD_eq_getElem?_getD, List.getElem?_eq_getElem hi2, Option.getD_some, List.getElem_idxOf]
    rw [e1, e2]
    have hidx : g.edges.idxOf (opair u v) ≠ g.edges.idxOf (opair u w) := by
      intro h
      apply hpne
      rw [← e1, ← e2, h]
    simp only [hi1, hi2, decide_true, Bool.and_true, Bool.and_eq_true, bne_iff_ne, ne_eq, hidx,
      not_false_eq_true, true_and]
    simp only [share, opair, Bool.or_eq_true, beq_iff_eq]
    omega

theorem lineColourable_of_edgeColourable {g : G} (hw : g.WF) {k : Nat} (h : EdgeColourable g k) :
    Colourable (lineGraph g) k := by
  obtain ⟨ec, hsym, hk, hp⟩ := h
  refine ⟨fun i => ec (g.edges.getD i (0, 0)).1 (g.edges.getD i (0, 0)).2, fun i j hi hj ha => ?_, fun i hi => ?_⟩
  · rw [lineGraph_n] at hi hj
    rw [lineGraph_adj] at ha
    simp only [Bool.and_eq_true, bne_iff_ne, ne_eq, decide_eq_true_eq] at ha
    obtain ⟨⟨⟨hne, _⟩, _⟩, hsh⟩ := ha
    have hm1 := edge_getD hi
    have hm2 := edge_getD hj
    have hpne : g.edges.getD i (0, 0) ≠ g.edges.getD j (0, 0) := fun h => hne (edge_getD_inj hi hj h)
    show ec (g.edges.getD i (0, 0)).1 (g.edges.getD i (0, 0)).2 ≠
      ec (g.edges.getD j (0, 0)).1 (g.edges.getD j (0, 0)).2
    generalize g.edges.getD i (0, 0) = e at *
    generalize g.edges.getD j (0, 0) = e' at *
    obtain ⟨a, b⟩ := e
    obtain ⟨c, d⟩ := e'
    rw [mem_edges] at hm1 hm2
    obtain ⟨hab, hbn, hadj1⟩ := hm1
    obtain ⟨hcd, hdn, hadj2⟩ := hm2
    simp only [share, Bool.or_eq_true, beq_iff_eq] at hsh
    have hadj1' : g.adj b a = true := by rw [hw.symm]; exact hadj1
    have hadj2' : g.adj d c = true := by rw [hw.symm]; exact hadj2
    have hne' : ¬ (a = c ∧ b = d) := fun h => hpne (by rw [h.1, h.2])
    show ec a b ≠ ec c d
    rcases hsh with ((h | h) | h) | h
    · subst h
      exact hp a b d (by omega) hbn hdn (by omega) hadj1 hadj2
    · subst h
      rw [hsym c a]
      exact hp a b c (by omega) hbn (by omega) (by omega) hadj1 hadj2'
    · subst h
      rw [hsym a b]
      exact hp b a d hbn (by omega) hdn (by omega) hadj1' hadj2
    · subst h
      rw [hsym a b, hsym c b]
      exact hp b a c hbn (by omega) (by omega) (by omega) hadj1' hadj2'
  · rw [lineGraph_n] at hi
    have hm := edge_getD hi
    show ec (g.edges.getD i (0, 0)).1 (g.edges.getD i (0, 0)).2 < k
    generalize g.edges.getD i (0, 0) = e at *
    obtain ⟨a, b⟩ := e
    rw [mem_edges] at hm
    exact hk a b (by omega) hm.2.1 hm.2.2

theorem edgeColourable_iff {g : G} (hw : g.WF) (k : Nat) :
    EdgeColourable g k ↔ Colourable (lineGraph g) k :=
  ⟨lineColourable_of_edgeColourable hw, edgeColourable_of_lineColourable hw⟩

end CliqueColour
