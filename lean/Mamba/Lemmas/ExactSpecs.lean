import Mamba.Lemmas.ExactExt
import Mamba.Lemmas.SearchPlace
namespace Search
open GraphSpec GSearch Orderly

/-- graphs built from the one-vertex graph by `AddVertex` with duplicate-free in-range neighbour lists -/
inductive Built : DG → Prop
  | one : Built K1
  | add {g g' : DG} {l : List Nat} : Built g → l.Nodup → (∀ v ∈ l, v < g.nv) → g.addVertex l = .ok g' → Built g'

theorem Built.sized {g : DG} (h : Built g) : g.Sized := by
  induction h with
  | one => exact (single_sized ⟨rfl, rfl⟩ (Nat.zero_le _)).1
  | add _ _ _ ha ih => exact (addVertex_sized ha ih).1

theorem Built.pos {g : DG} (h : Built g) : 1 ≤ g.nv := by
  induction h with
  | one => exact Nat.le_refl 1
  | add _ _ _ ha ih => rw [addVertex_nv ha]; omega

/-- the neighbour set `bitsOf x` lies inside the graph -/
def InRange (P : DG) (x : Nat) : Prop := ∀ v ∈ bitsOf x, v < P.nv

theorem Built.child {P g2 : DG} {x : Nat} (h : Built P) (hr : InRange P x) (ha : P.addVertex (bitsOf x) = .ok g2) :
    Built g2 := Built.add h (bitsOf_nodup x) hr ha

/-- the child `P + bitsOf x` exists and is accepted by `isCanonical` (returning the cache `c`) -/
def AccK (O : Oracle) (n : Nat) (P : DG) (x : Nat) (g2 : DG) (c : Option Ans) : Prop :=
  P.addVertex (bitsOf x) = .ok g2 ∧ isCanonical O n g2 (bitsOf x) none = .ok (c, true)

/-- What the exactness argument needs of `isCanonical` and `addAugmentations` (for the oracle `O`, graphs on at most `n`
vertices and the pruning function `pre`).  `cok g c`: the cache `c` is acceptable for `g`. -/
structure Specs (O : Oracle) (n : Nat) (pre : DG → Bool) : Prop where
  /-- two accepted children that are isomorphic come from equivalent extensions (canonical deletion is isomorphism
  invariant) -/
  canon_iso : ∀ {P1 P2 g1 g2 : DG} {x1 x2 : Nat} {c1 c2 : Option Ans}, Built P1 → Built P2 → P1.nv < n → P2.nv < n →
    InRange P1 x1 → InRange P2 x2 → AccK O n P1 x1 g1 c1 → AccK O n P2 x2 g2 c2 → IsoD g1 g2 →
    ExtEquiv P1 (bitsOf x1) P2 (bitsOf x2)
  /-- acceptance is invariant under equivalence of extensions -/
  canon_inv : ∀ {P1 P2 g1 g2 : DG} {x1 x2 : Nat} {c1 c2 : Option Ans} {b : Bool}, Built P1 → Built P2 →
    P1.nv < n → P2.nv < n → InRange P1 x1 → InRange P2 x2 → AccK O n P1 x1 g1 c1 → ExtEquiv P1 (bitsOf x1) P2 (bitsOf x2) →
    P2.addVertex (bitsOf x2) = .ok g2 → isCanonical O n g2 (bitsOf x2) none = .ok (c2, b) → b = true
  /-- every graph with at least two vertices is isomorphic to an accepted child of a built graph -/
  canon_exists : ∀ (Y : G), Y.WF → 2 ≤ Y.n → Y.n ≤ n →
    ∃ (P g2 : DG) (x : Nat) (c : Option Ans), Built P ∧ InRange P x ∧ AccK O n P x g2 c ∧ Iso Y g2.toG
  /-- `addAugmentations` lists in-range neighbour sets, -/
  aug_range : ∀ {g : DG} {c c' : Option Ans} {new : Array Nat} {num : Nat}, Built g → g.nv < n →
    (c = none ∨ ∃ P x, Built P ∧ InRange P x ∧ AccK O n P x g c) →
    addAugmentations O n g #[] c = .ok (new, c', num) → ∀ x ∈ new.toList, InRange g x
  /-- at least one from every `Aut(g)`-orbit of neighbour sets that has an accepted extension somewhere, -/
  aug_complete : ∀ {g : DG} {c c' : Option Ans} {new : Array Nat} {num : Nat}, Built g → g.nv < n →
    (c = none ∨ ∃ P x, Built P ∧ InRange P x ∧ AccK O n P x g c) →
    addAugmentations O n g #[] c = .ok (new, c', num) →
    ∀ (T : List Nat) (P0 g0 : DG) (x0 : Nat) (c0 : Option Ans), Built P0 → InRange P0 x0 → AccK O n P0 x0 g0 c0 →
      ExtEquiv g T P0 (bitsOf x0) → ∃ x ∈ new.toList, ExtEquiv g T g (bitsOf x)
  /-- and at most one from every orbit -/
  aug_distinct : ∀ {g : DG} {c c' : Option Ans} {new : Array Nat} {num : Nat}, Built g → g.nv < n →
    (c = none ∨ ∃ P x, Built P ∧ InRange P x ∧ AccK O n P x g c) →
    addAugmentations O n g #[] c = .ok (new, c', num) →
    new.toList.Pairwise fun x y => ¬ ExtEquiv g (bitsOf x) g (bitsOf y)
  /-- the pruning function is invariant under isomorphism and hereditary -/
  pre_iso : ∀ {g h : DG}, Built g → Built h → IsoD g h → pre g = pre h
  pre_her : ∀ {P g2 : DG} {x : Nat}, Built P → InRange P x → P.addVertex (bitsOf x) = .ok g2 → pre g2 = false →
    pre P = false

variable {O : Oracle} {n : Nat} {pre : DG → Bool}

/-- `ParD X Z`: up to isomorphism, `Z` is an accepted, unpruned child of `X` -/
def ParD (O : Oracle) (n : Nat) (pre : DG → Bool) (X Z : DG) : Prop :=
  ∃ (P0 Z' : DG) (x : Nat) (c : Option Ans), Built P0 ∧ P0.nv < n ∧ InRange P0 x ∧ AccK O n P0 x Z' c ∧
    pre Z' = false ∧ IsoD X P0 ∧ IsoD Z Z'

theorem parD_laws (S : Specs O n pre) : Laws IsoD (ParD O n pre) where
  refl := IsoD.refl
  symm := IsoD.symm
  trans := IsoD.trans
  par_left := by
    rintro x x' z h ⟨P0, Z', y, c, hb, hlt, hr, ha, hp, hx, hz⟩
    exact ⟨P0, Z', y, c, hb, hlt, hr, ha, hp, h.symm.trans hx, hz⟩
  par_right := by
    rintro x z z' h ⟨P0, Z', y, c, hb, hlt, hr, ha, hp, hx, hz⟩
    exact ⟨P0, Z', y, c, hb, hlt, hr, ha, hp, hx, h.symm.trans hz⟩
  par_unique := by
    rintro x x' z ⟨P0, Z', y, c, hb, hlt, hr, ha, hp, hx, hz⟩ ⟨P0', Z'', y', c', hb', hlt', hr', ha', hp', hx', hz'⟩
    have e := S.canon_iso hb hb' hlt hlt' hr hr' ha ha' (hz.symm.trans hz')
    exact hx.trans (e.iso.trans hx'.symm)

end Search
