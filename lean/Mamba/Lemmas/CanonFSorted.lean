import Mamba.Lemmas.CanonFGens
import Mamba.Lemmas.CanonFSortedReset
import Mamba.Lemmas.CanonFSortedSplit
import Mamba.Lemmas.CanonFSortedDeage
import Mamba.Lemmas.CanonFSortedRefine
/-!
# `BinsSorted` is an invariant of the whole search; conjunction of two search invariants
-/
namespace CanonF

theorem BinsSorted.of_frame {op op' : OP} (h : BinsSorted op) (e1 : op'.order = op.order)
    (e2 : op'.binDividers = op.binDividers) : BinsSorted op' := by
  unfold BinsSorted; rw [e1, e2]; exact h

/-- every bin stays in ascending order through `splitBin`, the refinement and `deage` -/
theorem sortedOrdQ (hst : StablePerm) (n : Nat) (nb : Nbrs) :
    OrdQ n nb BinsSorted BinsSorted BinsSorted (fun _ => True) (fun _ => True) := by
  apply OrdQ.ofSimple
  · exact fun _ _ e1 e2 _ h => h.of_frame e1 e2
  · exact fun _ _ hp ha hage h hd => deage_binsSorted hp ha hage h hd
  · exact fun _ _ _ _ _ _ hp ha hi hns h hs => splitBin_binsSorted hp ha hi hns h hs
  · exact fun _ _ _ _ _ _ _ _ hp ha hsc h hr => refine_binsSorted hst hp ha hsc h hr
  · exact fun _ _ => trivial
  · exact fun _ _ _ _ _ _ => trivial

/-- two invariants of the search can be carried together (leaf / generator properties of the first) -/
theorem OrdQ.and {n : Nat} {nb : Nbrs} {QA QN QS QA' QN' QS' : OP → Prop} {PL R PL' R' : List Nat → Prop}
    (h : OrdQ n nb QA QN QS PL R) (h' : OrdQ n nb QA' QN' QS' PL' R') :
    OrdQ n nb (fun op => QA op ∧ QA' op) (fun op => QN op ∧ QN' op) (fun op => QS op ∧ QS' op) PL R where
  na := fun op x => ⟨h.na op x.1, h'.na op x.2⟩
  sa := fun op x => ⟨h.sa op x.1, h'.sa op x.2⟩
  frame := fun op op' e1 e2 e3 e4 e5 e6 x => ⟨h.frame op op' e1 e2 e3 e4 e5 e6 x.1, h'.frame op op' e1 e2 e3 e4 e5 e6 x.2⟩
  deage := fun op op' hp ha hage x hd => ⟨h.deage op op' hp ha hage x.1 hd, h'.deage op op' hp ha hage x.2 hd⟩
  split := fun cb fl op op' i w hp ha hi hns hf x hs =>
    ⟨fun hw => ⟨(h.split cb fl op op' i w hp ha hi hns hf x.1 hs).1 hw, (h'.split cb fl op op' i w hp ha hi hns hf x.2 hs).1 hw⟩,
     fun hw => ⟨(h.split cb fl op op' i w hp ha hi hns hf x.1 hs).2 hw, (h'.split cb fl op op' i w hp ha hi hns hf x.2 hs).2 hw⟩⟩
  refine := fun cb fl opts op op' sc sc' w hp ha hsc htl x hr =>
    ⟨fun hw => ⟨(h.refine cb fl opts op op' sc sc' w hp ha hsc htl x.1 hr).1 hw,
        (h'.refine cb fl opts op op' sc sc' w hp ha hsc htl x.2 hr).1 hw⟩,
     fun hw => ⟨(h.refine cb fl opts op op' sc sc' w hp ha hsc htl x.1 hr).2 hw,
        (h'.refine cb fl opts op op' sc sc' w hp ha hsc htl x.2 hr).2 hw⟩⟩
  leaf := fun op hp ha x hl => h.leaf op hp ha x.1 hl
  rel := h.rel

end CanonF
