import Mamba.Lemmas.DistanceEvenReach
/-!
# Every edge of an even edge set lies on a simple cycle inside the set
-/
namespace GDist
open GraphSpec Model

/-- a shortest walk gives a simple path (reversed: head = end vertex, last = start vertex) -/
theorem IsDistIn.simplePath {g : G} {V : List Nat} {s x k : Nat} (h : IsDistIn g V s x k) :
    ∃ l : List Nat, l.head? = some x ∧ l.getLast? = some s ∧ l.length = k + 1 ∧ l.Nodup ∧ (∀ y ∈ l, y ∈ V) ∧
      chainAdj g l ∧ ∀ y ∈ l, ∃ j, j ≤ k ∧ IsDistIn g V s y j := by
  induction k generalizing x with
  | zero =>
    have hxs : x = s := (walkIn_zero_iff.1 h.1).1
    subst hxs
    refine ⟨[x], rfl, rfl, rfl, by simp, ?_, trivial, ?_⟩
    · intro y hy; simp at hy; subst hy; exact h.1.mem_V
    · intro y hy; simp at hy; subst hy; exact ⟨0, Nat.le_refl _, h⟩
  | succ k ih =>
    obtain ⟨u, hu, hadj⟩ := h.pred
    obtain ⟨l, hh, hl, hlen, hnd, hV, hch, hd⟩ := ih hu
    obtain ⟨u', t, rfl⟩ : ∃ u' t, l = u' :: t := by
      cases l with
      | nil => simp at hlen
      | cons a t => exact ⟨a, t, rfl⟩
    simp at hh; subst hh
    refine ⟨x :: u' :: t, rfl, by rw [List.getLast?_cons_cons]; exact hl, by simp [hlen], ?_, ?_, ⟨hadj, hch⟩, ?_⟩
    · refine List.nodup_cons.2 ⟨?_, hnd⟩
      intro hx
      obtain ⟨j, hj, hdj⟩ := hd x hx
      have := hdj.unique h
      omega
    · intro y hy
      rcases List.mem_cons.1 hy with rfl | hy
      · exact h.1.mem_V
      · exact hV y hy
    · intro y hy
      rcases List.mem_cons.1 hy with rfl | hy
      · exact ⟨k+1, Nat.le_refl _, h⟩
      · obtain ⟨j, hj, hdj⟩ := hd y hy
        exact ⟨j, by omega, hdj⟩

end GDist

namespace GDist
open GraphSpec Model

/-- **every edge of an edge set with even degrees lies on a simple cycle inside the set** -/
theorem even_edge_on_cycle {n : Nat} {t : List Nat} (hnd : t.Nodup) (hev : EvenSet n t) {p q : Nat}
    (hp : p < n) (hq : q < n) (hpq : p ≠ q) (hex : edgeCode p q ∈ t) :
    ∃ c : List Nat, 3 ≤ c.length ∧ c.Nodup ∧ (∀ x ∈ c, x < n) ∧ c.headD 0 = p ∧ c.getLastD 0 = q ∧
      (∀ z ∈ cycCodes c, z ∈ t) ∧ edgeCode p q ∈ cycCodes c := by
  obtain ⟨k0, hk0⟩ := even_reach hnd hev hp hq hpq hex
  obtain ⟨k, _, hd⟩ := exists_isDistIn_of_walk hk0
  obtain ⟨l, hh, hl, hlen, hlnd, hV, hch, _⟩ := hd.simplePath
  have hmemt : ∀ {x y : Nat}, (codeG n (t.erase (edgeCode p q))).adj x y = true →
      edgeCode x y ∈ t ∧ edgeCode x y ≠ edgeCode p q := by
    intro x y h
    have := (codeG_adj.1 h).2.2.2
    exact ⟨List.mem_of_mem_erase this, fun h0 => by
      rw [h0] at this
      exact (List.Nodup.mem_erase_iff hnd).1 this |>.1 rfl⟩
  have hhead : l.headD 0 = p := by
    cases l with
    | nil => simp at hh
    | cons a t' => simp at hh; simp [hh]
  have hlast : l.getLastD 0 = q := by rw [List.getLastD_eq_getLast?, hl]; rfl
  have hk2 : 2 ≤ k := by
    match l, hh, hl, hlen, hch with
    | [a], hh, hl, hlen, _ =>
      simp at hh hl
      exact absurd (hh.symm.trans hl) hpq
    | [a, b], hh, hl, hlen, hch =>
      exfalso
      simp at hh
      rw [List.getLast?_cons_cons] at hl
      simp at hl
      subst hh; subst hl
      have := (hmemt hch.1).2
      exact this (edgeCode_comm _ _)
    | a :: b :: c :: t', _, _, hlen, _ => simp at hlen; omega
  refine ⟨l, by omega, hlnd, fun x hx => List.mem_range.1 (hV x hx), hhead, hlast, ?_, ?_⟩
  · intro z hz
    unfold cycCodes at hz
    rcases List.mem_cons.1 hz with h | h
    · rw [h, hhead, hlast]; exact hex
    · obtain ⟨x, y, _, _, hadj, hzc⟩ := mem_pathCodes_adj l hch z h
      rw [hzc, edgeCode_comm]
      exact (hmemt hadj).1
  · unfold cycCodes
    rw [hhead, hlast]; exact List.mem_cons_self

end GDist
