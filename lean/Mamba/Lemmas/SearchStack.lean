import Mamba.Lemmas.SearchSub
import Mamba.Lemmas.SearchAugApp
/-! The explicit-stack loop of `Next` lists what the recursive traversal `subNode` lists (part 1: definitions). -/
namespace Search

/-- a stack (Go slice used as a stack) as a list, top first -/
def topList {α : Type} (a : Array α) : List α := a.toList.reverse

theorem topList_push {α : Type} (a : Array α) (x : α) : topList (a.push x) = x :: topList a := by
  simp [topList]

theorem topList_pop {α : Type} (a : Array α) : topList a.pop = (topList a).tail := by
  simp [topList, List.tail_reverse]

theorem topList_append {α : Type} (a b : Array α) : topList (a ++ b) = topList b ++ topList a := by
  simp [topList]

theorem topList_eq_nil {α : Type} (a : Array α) : topList a = [] ↔ a.size = 0 := by
  simp [topList]

theorem topList_length {α : Type} (a : Array α) : (topList a).length = a.size := by
  simp [topList]

theorem back?_eq_head? {α : Type} (a : Array α) : a.back? = (topList a).head? := by
  simp [topList, Array.back?_eq_getElem?, List.head?_reverse, List.getLast?_eq_getElem?]

theorem topList_of_back? {α : Type} {a : Array α} {x : α} (h : a.back? = some x) :
    topList a = x :: (topList a).tail := by
  rw [back?_eq_head?] at h
  cases hl : topList a with
  | nil => simp [hl] at h
  | cons y ys => simp [hl] at h; simp [h]

theorem set_last_reverse {α : Type} (x : α) : ∀ (l : List α), l ≠ [] →
    (l.set (l.length - 1) x).reverse = x :: l.reverse.tail := by
  intro l hl
  obtain ⟨l', y, rfl⟩ := List.eq_nil_or_concat' l |>.resolve_left hl
  simp

theorem topList_set_last {α : Type} (a : Array α) (x : α) (h : a.size ≠ 0) :
    topList (a.setIfInBounds (a.size - 1) x) = x :: (topList a).tail := by
  simp only [topList, Array.toList_setIfInBounds]
  have : a.toList ≠ [] := by intro e; apply h; simpa using congrArg List.length e
  have := set_last_reverse x a.toList this
  simpa using this

end Search
