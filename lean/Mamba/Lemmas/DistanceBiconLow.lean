import Mamba.Lemmas.DistanceBiconTree2
/-!
# Lowpoint and articulation bookkeeping invariants of the `BiconnectedComponents` model
-/
namespace GDist
open GraphSpec Model

def isA (st : BicSt) (v : Nat) : Bool := st.isArt.getD v false

/-- lowpoints are correct and the emission bookkeeping is consistent -/
structure LA (h : G) (st : BicSt) (tp : Nat → Nat) : Prop where
  lole : ∀ x, x < h.n → bvis st x → lo st x ≤ dI st x
  lob : ∀ x, x < h.n → bvis st x → x ∉ st.toCheck → ∀ z a, z < h.n → Anc tp x z → bvis st z →
    h.adj z a = true → a < h.n → a ≠ tp z → lo st x ≤ dI st a
  loatt : ∀ x, x < h.n → bvis st x → x ∉ st.toCheck → lo st x = dI st x ∨
    ∃ z a, z < h.n ∧ Anc tp x z ∧ bvis st z ∧ h.adj z a = true ∧ a < h.n ∧ a ≠ tp z ∧ lo st x = dI st a
  ar1 : ∀ c, c < h.n → bvis st c → c ≠ 0 → pa st c = (tp c : Int) ∨ pa st c = -1
  ar2 : ∀ c, c < h.n → bvis st c → c ≠ 0 → pa st c = -1 →
    c ∉ st.toCheck ∧ tp c ≠ 0 ∧ lo st c ≥ dI st (tp c) ∧ isA st (tp c) = true
  ar3 : ∀ c, c < h.n → bvis st c → c ∉ st.toCheck → c ≠ 0 → pa st c = (tp c : Int) → tp c ≠ 0 →
    lo st c ≥ dI st (tp c) → ∃ rest, st.toCheck = tp c :: rest ∧ ∀ w, h.adj (tp c) w = true → w < c → bvis st w
  ar4 : ∀ v, v < h.n → isA st v = true → v ≠ 0 ∧
    ∃ c, c < h.n ∧ bvis st c ∧ c ∉ st.toCheck ∧ c ≠ 0 ∧ tp c = v ∧ lo st c ≥ dI st v
  ar5 : ∃ L : List Nat, L.Nodup ∧ L.length = st.childCount ∧
    ∀ c, c ∈ L ↔ (c < h.n ∧ bvis st c ∧ c ≠ 0 ∧ tp c = 0)

variable {h : G} {st : BicSt} {tp : Nat → Nat}

/-- every ancestor of the top of the stack is on the stack -/
theorem stackPath_iter (tp0 : tp 0 = 0) : ∀ (l : List Nat) (v : Nat), StackPath tp (v :: l) →
    ∀ k, tp^[k] v ∈ v :: l
  | [], v, hp, k => by
    have hv : v = 0 := hp
    subst hv
    have : tp^[k] 0 = 0 := by
      induction k with
      | zero => rfl
      | succ k ih => rw [Function.iterate_succ_apply', ih, tp0]
    rw [this]; simp
  | w :: l, v, hp, k => by
    obtain ⟨h1, _, h3⟩ := hp
    cases k with
    | zero => simp
    | succ k =>
      rw [Function.iterate_succ_apply, h1]
      exact List.mem_cons_of_mem _ (stackPath_iter tp0 l w h3 k)

theorem DT.anc_of_top_on_stack (dt : DT h st tp) {v : Nat} {rest : List Nat} (hstk : st.toCheck = v :: rest)
    {a : Nat} (ha : Anc tp a v) : a ∈ st.toCheck := by
  obtain ⟨k, rfl⟩ := ha
  have hp := dt.path
  rw [hstk] at hp ⊢
  exact stackPath_iter dt.tp0 rest v hp k

/-- a proper descendant hangs below a child -/
theorem anc_child {x z : Nat} (ha : Anc tp x z) (hne : z ≠ x) : ∃ c, tp c = x ∧ c ≠ x ∧ Anc tp c z := by
  obtain ⟨k, hk⟩ := ha
  induction k generalizing z with
  | zero => exact absurd hk hne
  | succ k ih =>
    rw [Function.iterate_succ_apply] at hk
    by_cases hz : tp z = x
    · exact ⟨z, hz, hne, Anc.refl _ _⟩
    · obtain ⟨c, h1, h2, h3⟩ := ih hz hk
      exact ⟨c, h1, h2, Anc.parent h3⟩

/-- every ancestor of a stack vertex is on the stack -/
theorem stackPath_mem_anc (tp0 : tp 0 = 0) : ∀ (l : List Nat), StackPath tp l → ∀ z ∈ l, ∀ k, tp^[k] z ∈ l
  | [], _, z, hz, _ => by cases hz
  | [x], hp, z, hz, k => by
    have hx : x = 0 := hp
    subst hx
    have hz0 : z = 0 := by simpa using hz
    subst hz0
    exact stackPath_iter tp0 [] 0 hp k
  | x :: y :: t, hp, z, hz, k => by
    rcases List.mem_cons.1 hz with rfl | hz
    · exact stackPath_iter tp0 (y :: t) z hp k
    · exact List.mem_cons_of_mem _ (stackPath_mem_anc tp0 (y :: t) hp.2.2 z hz k)

/-- the subtree of a finished vertex consists of finished vertices -/
theorem DT.sub_finished (dt : DT h st tp) {x z : Nat} (hxs : x ∉ st.toCheck) (ha : Anc tp x z) :
    z ∉ st.toCheck := by
  intro hz
  obtain ⟨k, rfl⟩ := ha
  exact hxs (stackPath_mem_anc dt.tp0 _ dt.path z hz k)

theorem anc_update_iff (dt : DT h st tp) {u v a x : Nat} (hu : ¬ bvis st u) (hx : x < h.n) (hv : bvis st x) :
    Anc (Function.update tp u v) a x ↔ Anc tp a x := by
  constructor
  · rintro ⟨k, hk⟩; exact ⟨k, by rw [← iterate_update dt hu hx hv]; exact hk⟩
  · exact anc_update dt hu hx hv

theorem isA_descendSt (st : BicSt) (v u : Nat) (cur : List Nat) (x : Nat) :
    isA (descendSt st v u cur) x = isA st x := rfl
theorem isA_popSt (st : BicSt) (v : Nat) (rest : List Nat) (t : Int) (bs : List (List Nat)) (c : List Nat) (x : Nat) :
    isA (popSt st v rest t bs c) x = isA st x := rfl
theorem isA_emitSt (com : List Nat) {st : BicSt} {v u : Nat} {cur : List Nat} (hv : v < st.isArt.size) (x : Nat) :
    isA (emitSt com st v u cur) x = if x = v then true else isA st x := by
  unfold isA emitSt; simp only; exact getD_setIfInBounds _ _ _ _ _ hv

theorem la_descend (dt : DT h st tp) (la : LA h st tp) {v u : Nat} {rest cur : List Nat}
    (hstk : st.toCheck = v :: rest) (hu : u < h.n) (hunv : ¬ bvis st u)
    (hnopend : ∀ c, c < h.n → bvis st c → c ∉ st.toCheck → c ≠ 0 → pa st c = (v : Int) → v ≠ 0 →
      lo st c ≥ dI st v → False) :
    LA h (descendSt st v u cur) (Function.update tp u v) := by
  have hvs : v ∈ st.toCheck := by rw [hstk]; exact List.mem_cons_self
  obtain ⟨hvn, hvv⟩ := dt.svis v hvs
  have huD : u < st.depths.size := by rw [dt.ok.dsz]; exact hu
  have huL : u < st.low.size := by rw [dt.ok.lsz]; exact hu
  have huP : u < st.parents.size := by rw [dt.ok.psz]; exact hu
  have hne : ∀ x, bvis st x → x ≠ u := fun x hx h0 => hunv (h0 ▸ hx)
  have hvu : v ≠ u := hne v hvv
  have hd : ∀ x, dI (descendSt st v u cur) x = if x = u then dI st v + 1 else dI st x := dI_descendSt huD
  have hl : ∀ x, lo (descendSt st v u cur) x = if x = u then dI st v + 1 else lo st x := lo_descendSt huL
  have hp : ∀ x, pa (descendSt st v u cur) x = if x = u then (v : Int) else pa st x := pa_descendSt huP
  have hvpos := dt.dnn v hvv
  have hvis : ∀ x, bvis (descendSt st v u cur) x ↔ (x = u ∨ bvis st x) := by
    intro x; unfold bvis; rw [hd]
    by_cases hx : x = u
    · simp [hx]; omega
    · simp [hx]
  have hold : ∀ x, x ≠ u → bvis (descendSt st v u cur) x → bvis st x := by
    intro x hxu hxv
    rcases (hvis x).1 hxv with h0 | h0
    · exact absurd h0 hxu
    · exact h0
  have htp : ∀ x, x ≠ u → Function.update tp u v x = tp x := fun x hx => by simp [Function.update, hx]
  have htpu : Function.update tp u v u = v := by simp [Function.update]
  have hstack' : (descendSt st v u cur).toCheck = u :: st.toCheck := rfl
  -- a vertex that is finished in the new state was finished before and is not `u`
  have hfin : ∀ x, bvis (descendSt st v u cur) x → x ∉ (descendSt st v u cur).toCheck →
      x ≠ u ∧ bvis st x ∧ x ∉ st.toCheck := by
    intro x hxv hxs
    rw [hstack'] at hxs
    have hxu : x ≠ u := fun h0 => hxs (by simp [h0])
    exact ⟨hxu, hold x hxu hxv, fun hm => hxs (List.mem_cons_of_mem _ hm)⟩
  -- vertices of the subtree of a finished vertex are old, finished, and their neighbours are visited
  have hsub : ∀ x z, x < h.n → bvis st x → x ∉ st.toCheck → z < h.n → bvis (descendSt st v u cur) z →
      Anc (Function.update tp u v) x z → z ≠ u ∧ bvis st z ∧ Anc tp x z ∧ z ∉ st.toCheck := by
    intro x z hx hxv hxs hz hzv ha
    have hzu : z ≠ u := by
      rintro rfl
      obtain ⟨k, hk⟩ := ha
      cases k with
      | zero => exact hne x hxv hk.symm
      | succ k =>
        rw [Function.iterate_succ_apply, htpu, iterate_update dt hunv hvn hvv] at hk
        exact hxs (dt.anc_of_top_on_stack hstk ⟨k, hk⟩)
    have hzv' := hold z hzu hzv
    have ha' := (anc_update_iff dt hunv hz hzv').1 ha
    exact ⟨hzu, hzv', ha', dt.sub_finished hxs ha'⟩
  refine { lole := ?_, lob := ?_, loatt := ?_, ar1 := ?_, ar2 := ?_, ar3 := ?_, ar4 := ?_, ar5 := ?_ }
  · intro x hx hxv
    rw [hl, hd]
    by_cases hxu : x = u
    · simp [hxu]
    · simp only [hxu, if_false]; exact la.lole x hx (hold x hxu hxv)
  · intro x hx hxv hxs z a hz ha hzv hza han hatp
    obtain ⟨hxu, hxv', hxs'⟩ := hfin x hxv hxs
    obtain ⟨hzu, hzv', ha', hzs⟩ := hsub x z hx hxv' hxs' hz hzv ha
    have hav : bvis st a := dt.fin z hz hzv' hzs a hza han
    rw [htp z hzu] at hatp
    rw [hl, hd]
    simp only [hxu, if_false, hne a hav]
    exact la.lob x hx hxv' hxs' z a hz ha' hzv' hza han hatp
  · intro x hx hxv hxs
    obtain ⟨hxu, hxv', hxs'⟩ := hfin x hxv hxs
    rw [hl, hd]
    simp only [hxu, if_false]
    rcases la.loatt x hx hxv' hxs' with h0 | ⟨z, a, hz, ha, hzv, hza, han, hatp, hlo⟩
    · exact .inl h0
    · right
      have hzs := dt.sub_finished hxs' ha
      have hav : bvis st a := dt.fin z hz hzv hzs a hza han
      have hzu := hne z hzv
      refine ⟨z, a, hz, anc_update dt hunv hz hzv ha, (hvis z).2 (.inr hzv), hza, han, by rw [htp z hzu]; exact hatp, ?_⟩
      rw [hd]; simp only [hne a hav, if_false]; exact hlo
  · intro c hc hcv hc0
    rw [hp]
    by_cases hcu : c = u
    · simp [hcu, htpu]
    · simp only [hcu, if_false, htp c hcu]
      exact la.ar1 c hc (hold c hcu hcv) hc0
  · intro c hc hcv hc0 hpc
    rw [hp] at hpc
    have hcu : c ≠ u := by
      rintro rfl
      simp at hpc
    simp only [hcu, if_false] at hpc
    obtain ⟨h1, h2, h3, h4⟩ := la.ar2 c hc (hold c hcu hcv) hc0 hpc
    have htv := (dt.tree c hc (hold c hcu hcv) hc0).2.1
    refine ⟨?_, by rw [htp c hcu]; exact h2, ?_, by rw [htp c hcu, isA_descendSt]; exact h4⟩
    · rw [hstack']; intro hm
      rcases List.mem_cons.1 hm with h0 | h0
      · exact hcu h0
      · exact h1 h0
    · rw [htp c hcu, hl, hd]
      simp only [hcu, if_false, hne _ htv]
      exact h3
  · intro c hc hcv hcs hc0 hpc htc hlc
    exfalso
    obtain ⟨hcu, hcv', hcs'⟩ := hfin c hcv hcs
    rw [hp] at hpc
    simp only [hcu, if_false, htp c hcu] at hpc
    rw [htp c hcu] at htc hlc
    have htv := (dt.tree c hc hcv' hc0).2.1
    rw [hl, hd] at hlc
    simp only [hcu, if_false, hne _ htv] at hlc
    obtain ⟨rest', hr, _⟩ := la.ar3 c hc hcv' hcs' hc0 hpc htc hlc
    rw [hstk] at hr
    have htcv : tp c = v := by
      have := List.cons.inj hr; exact this.1.symm
    rw [htcv] at hpc hlc htc
    exact hnopend c hc hcv' hcs' hc0 hpc htc hlc
  · intro x hx hxa
    rw [isA_descendSt] at hxa
    obtain ⟨hx0, c, hc, hcv, hcs, hc0, htc, hlc⟩ := la.ar4 x hx hxa
    have hcu := hne c hcv
    have hxv : bvis st x := by rw [← htc]; exact (dt.tree c hc hcv hc0).2.1
    refine ⟨hx0, c, hc, (hvis c).2 (.inr hcv), ?_, hc0, by rw [htp c hcu]; exact htc, ?_⟩
    · rw [hstack']; intro hm
      rcases List.mem_cons.1 hm with h0 | h0
      · exact hcu h0
      · exact hcs h0
    · rw [hl, hd]; simp only [hcu, if_false, hne x hxv]; exact hlc
  · obtain ⟨L, hnd, hlen, hmem⟩ := la.ar5
    by_cases hv0 : v = 0
    · refine ⟨u :: L, List.nodup_cons.2 ⟨fun hm => hunv ((hmem u).1 hm).2.1, hnd⟩, ?_, ?_⟩
      · show (u :: L).length = (if v = 0 then st.childCount + 1 else st.childCount)
        simp [hv0, hlen]
      · intro c
        rw [List.mem_cons, hmem]
        constructor
        · rintro (rfl | ⟨h1, h2, h3, h4⟩)
          · refine ⟨hu, (hvis c).2 (.inl rfl), fun h0 => ?_, by rw [htpu]; exact hv0⟩
            subst h0
            exact hunv (by unfold bvis; rw [dt.root]; omega)
          · exact ⟨h1, (hvis c).2 (.inr h2), h3, by rw [htp c (hne c h2)]; exact h4⟩
        · rintro ⟨h1, h2, h3, h4⟩
          by_cases hcu : c = u
          · exact .inl hcu
          · exact .inr ⟨h1, hold c hcu h2, h3, by rw [htp c hcu] at h4; exact h4⟩
    · refine ⟨L, hnd, ?_, ?_⟩
      · show L.length = (if v = 0 then st.childCount + 1 else st.childCount)
        simp [hv0, hlen]
      · intro c
        rw [hmem]
        constructor
        · rintro ⟨h1, h2, h3, h4⟩
          exact ⟨h1, (hvis c).2 (.inr h2), h3, by rw [htp c (hne c h2)]; exact h4⟩
        · rintro ⟨h1, h2, h3, h4⟩
          have hcu : c ≠ u := by
            rintro rfl
            rw [htpu] at h4; exact hv0 h4
          exact ⟨h1, hold c hcu h2, h3, by rw [htp c hcu] at h4; exact h4⟩

end GDist
