import Mamba.Lemmas.DistanceCycles
import Mamba.Lemmas.DistanceCanon
/-!
# Lemmas for C10: every induced path with at least one edge has exactly two directed vertex sequences
-/
namespace GDist
open GraphSpec

variable {g : G}

theorem chordlessPath_iff (q : List Nat) :
    chordlessPath g q = true ↔ ∀ i j (hi : i < q.length) (hj : j < q.length), i + 1 < j → g.adj q[i] q[j] = false := by
  induction q with
  | nil => simp [chordlessPath]
  | cons x rest ih =>
    simp only [chordlessPath, Bool.and_eq_true, List.all_eq_true, Bool.not_eq_true']
    rw [ih]
    constructor
    · rintro ⟨h1, h2⟩ i j hi hj hij
      cases i with
      | zero =>
        cases j with
        | zero => omega
        | succ j =>
          simp only [List.getElem_cons_zero, List.getElem_cons_succ]
          apply h1
          have hj' : j < rest.length := by simpa using hj
          cases rest with
          | nil => simp at hj'
          | cons y ys =>
            cases j with
            | zero => omega
            | succ j => simp
      | succ i =>
        cases j with
        | zero => omega
        | succ j =>
          simp only [List.getElem_cons_succ]
          exact h2 i j (by simpa using hi) (by simpa using hj) (by omega)
    · intro hall
      constructor
      · intro y hy
        cases rest with
        | nil => simp at hy
        | cons z zs =>
          simp only [List.tail_cons] at hy
          obtain ⟨k, hk, rfl⟩ := List.mem_iff_getElem.1 hy
          have := hall 0 (k + 2) (by simp) (by simp; omega) (by omega)
          simpa using this
      · intro i j hi hj hij
        have := hall (i+1) (j+1) (by simp; omega) (by simp; omega) (by omega)
        simpa using this

theorem chordlessPath_reverse (hsym : ∀ u v, g.adj u v = g.adj v u) {q : List Nat}
    (h : chordlessPath g q = true) : chordlessPath g q.reverse = true := by
  rw [chordlessPath_iff] at h ⊢
  intro i j hi hj hij
  have hi' : i < q.length := by simpa using hi
  have hj' : j < q.length := by simpa using hj
  rw [List.getElem_reverse, List.getElem_reverse, hsym]
  exact h _ _ (by omega) (by omega) (by omega)

theorem chainAdj_reverse (hsym : ∀ u v, g.adj u v = g.adj v u) {q : List Nat} (h : chainAdj g q) :
    chainAdj g q.reverse := by
  rw [chainAdj_iff_isChain] at h ⊢
  rw [List.isChain_reverse]
  exact h.imp (fun a b hab => by unfold RAdj at hab ⊢; rw [hsym]; exact hab)

/-- directed induced path sequences with `l` edges -/
def IsIndPathSeq (g : G) (l : Nat) (q : List Nat) : Prop :=
  q.length = l + 1 ∧ q.Nodup ∧ (∀ x ∈ q, x < g.n) ∧ chainAdj g q ∧ chordlessPath g q = true

/-- all directed induced path sequences with `l` edges -/
def allInducedPaths (g : G) (l : Nat) : List (List Nat) :=
  (List.range g.n).flatMap fun s => pathsFrom g (goodInduced g) s l

theorem mem_allInducedPaths {l : Nat} {q : List Nat} : q ∈ allInducedPaths g l ↔ IsIndPathSeq g l q := by
  simp only [allInducedPaths, List.mem_flatMap, List.mem_range]
  constructor
  · rintro ⟨s, _, hq⟩
    obtain ⟨hb, hlen⟩ := mem_pathsFrom.1 hq
    obtain ⟨⟨_, h2, h3, h4⟩, hch⟩ := builtFrom_induced_iff.1 hb
    exact ⟨hlen, h2, h3, h4, hch⟩
  · rintro ⟨hlen, h2, h3, h4, hch⟩
    have hne : q ≠ [] := by intro h; rw [h] at hlen; simp at hlen
    refine ⟨q.getLastD 0, h3 _ (getLastD_mem hne), ?_⟩
    exact mem_pathsFrom.2 ⟨builtFrom_induced_iff.2 ⟨⟨getLast?_of_ne_nil hne, h2, h3, h4⟩, hch⟩, hlen⟩

theorem nodup_allInducedPaths (l : Nat) : (allInducedPaths g l).Nodup := by
  unfold allInducedPaths
  rw [List.nodup_flatMap]
  refine ⟨fun s _ => nodup_pathsFrom _, ?_⟩
  refine List.Pairwise.imp ?_ List.nodup_range
  intro s t hst
  simp only [Function.onFun]
  rw [List.disjoint_left]
  intro p hp hq
  have h1 := (builtFrom_induced_iff.1 (mem_pathsFrom.1 hp).1).1.1
  have h2 := (builtFrom_induced_iff.1 (mem_pathsFrom.1 hq).1).1.1
  rw [h1] at h2
  exact hst (Option.some.inj h2)

theorem IsIndPathSeq.reverse (hsym : ∀ u v, g.adj u v = g.adj v u) {l : Nat} {q : List Nat}
    (h : IsIndPathSeq g l q) : IsIndPathSeq g l q.reverse :=
  ⟨by simpa using h.1, List.nodup_reverse.2 h.2.1, by simpa using h.2.2.1, chainAdj_reverse hsym h.2.2.2.1,
    chordlessPath_reverse hsym h.2.2.2.2⟩

/-- the canonical sequences are those listed from the smaller end -/
theorem canonInducedPaths_eq_filter {l : Nat} (hl : 1 ≤ l) :
    canonInducedPaths g l = (allInducedPaths g l).filter fun q => decide (q.getLastD 0 < q.headD 0) := by
  unfold canonInducedPaths allInducedPaths
  rw [List.filter_flatMap]
  apply List.flatMap_congr
  intro s _
  apply List.filter_congr
  intro q hq
  have h1 := (builtFrom_induced_iff.1 (mem_pathsFrom.1 hq).1).1.1
  have : (l == 0) = false := by simp; omega
  rw [this, getLastD_of_getLast? h1]
  simp

/-- **halving**: there are twice as many directed induced path sequences as induced paths (`l ≥ 1`) -/
theorem allInducedPaths_length (hsym : ∀ u v, g.adj u v = g.adj v u) {l : Nat} (hl : 1 ≤ l) :
    (allInducedPaths g l).length = 2 * numInducedPaths g l := by
  unfold numInducedPaths
  rw [canonInducedPaths_eq_filter hl]
  set D := allInducedPaths g l with hD
  set pA : List Nat → Bool := fun q => decide (q.getLastD 0 < q.headD 0) with hpA
  have hsplit : D.length = (D.filter pA).length + (D.filter fun q => !pA q).length := by
    have := List.length_eq_length_filter_add (l := D) pA
    omega
  -- reversal maps the second part bijectively onto the first
  have hends : ∀ q ∈ D, q.headD 0 ≠ q.getLastD 0 := by
    intro q hq
    obtain ⟨hlen, hnd, _⟩ := mem_allInducedPaths.1 hq
    exact head_ne_last_of_nodup hnd (by omega)
  have hperm : ((D.filter fun q => !pA q).map List.reverse).Perm (D.filter pA) := by
    have hnd1 : ((D.filter fun q => !pA q).map List.reverse).Nodup :=
      List.Nodup.map (fun a b hab => List.reverse_injective hab) ((nodup_allInducedPaths l).filter _)
    have hnd2 : (D.filter pA).Nodup := (nodup_allInducedPaths l).filter _
    refine (List.perm_ext_iff_of_nodup hnd1 hnd2).2 ?_
    intro q
    simp only [List.mem_map, List.mem_filter, hpA, Bool.not_eq_true', decide_eq_false_iff_not, decide_eq_true_eq]
    constructor
    · rintro ⟨q', ⟨hq'D, hnlt⟩, rfl⟩
      refine ⟨mem_allInducedPaths.2 ((mem_allInducedPaths.1 hq'D).reverse hsym), ?_⟩
      rw [getLastD_reverse, headD_reverse]
      have := hends q' hq'D
      omega
    · rintro ⟨hqD, hlt⟩
      refine ⟨q.reverse, ⟨mem_allInducedPaths.2 ((mem_allInducedPaths.1 hqD).reverse hsym), ?_⟩, by simp⟩
      rw [getLastD_reverse, headD_reverse]
      omega
  have := hperm.length_eq
  rw [List.length_map] at this
  omega

end GDist
