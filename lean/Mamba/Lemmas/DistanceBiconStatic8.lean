import Mamba.Lemmas.DistanceBiconStatic7
/-!
# `BiconnectedComponents` model = specification
-/
namespace GDist
open GraphSpec Model

theorem subsets_nodup : ∀ (l : List Nat), l.Nodup → (subsets l).Nodup
  | [], _ => by simp [subsets]
  | x :: xs, hnd => by
    rw [List.nodup_cons] at hnd
    have ih := subsets_nodup xs hnd.2
    simp only [subsets]
    rw [List.nodup_append]
    refine ⟨ih, ?_, ?_⟩
    · exact ih.map (fun a b hab => by simpa using hab)
    · intro a ha b hb hab
      subst hab
      obtain ⟨S', _, rfl⟩ := List.mem_map.1 hb
      have := (mem_subsets.1 ha).subset (List.mem_cons_self)
      exact hnd.1 this

theorem blocks_nodup (g : G) : (blocks g).Nodup := by
  unfold blocks
  exact ((subsets_nodup _ List.nodup_range).filter _).filter _

/-- **the blocks returned by the `BiconnectedComponents` model are exactly `blocks g`, each once** -/
theorem bicon_blocks_eq (g : G) (hsym : ∀ u v, g.adj u v = g.adj v u) (hirr : ∀ v, g.adj v v = false)
    (bs : List (List Nat)) (arts : List Nat) (hres : Model.biconnectedComponents g = .ok (bs, arts)) :
    bs.Nodup ∧ (∀ S, S ∈ bs ↔ S ∈ blocks g) ∧ bs.Perm (blocks g) := by
  obtain ⟨cs, news, hgood, hperm, rfl, hF⟩ := model_blocks_fold g hsym hirr (CompBlocks6 g)
    (fun com st tp new hgc df hB => compBlocks6 hgc.1 hgc.2.1 hsym hirr df hB) bs arts hres
  have hnd : cs.flatten.Nodup := hperm.nodup_iff.2 List.nodup_range
  have hlen := hF.length_eq
  have hbnd : news.flatten.Nodup := by
    rw [List.nodup_flatten]
    constructor
    · intro new hnew
      obtain ⟨j, hj, hnj⟩ := List.getElem_of_mem hnew
      obtain ⟨h2, hP⟩ := forall₂_index hF j (by omega)
      rw [← hnj]; exact hP.nd
    · rw [List.pairwise_iff_getElem]
      intro i j hi hj hij S hSi hSj
      obtain ⟨_, hPi⟩ := forall₂_index hF i (by omega)
      obtain ⟨_, hPj⟩ := forall₂_index hF j (by omega)
      obtain ⟨hne, hsub⟩ := hPi.sub S hSi
      obtain ⟨x, t, hxt⟩ := List.exists_cons_of_ne_nil hne
      have hxS : x ∈ S := by rw [hxt]; exact List.mem_cons_self
      have := disjoint_index hnd (by omega) (by omega) (hsub x hxS) ((hPj.sub S hSj).2 x hxS)
      omega
  have hmem : ∀ S, S ∈ news.flatten ↔ S ∈ blocks g := by
    intro S
    constructor
    · intro hS
      obtain ⟨j, hj1, hj2, hSj, hPj⟩ := forall₂_flatten_mem hF S hS
      exact ((hPj.iff S).1 hSj).1
    · intro hS
      obtain ⟨_, _, hSn, hne, _⟩ := blocks_facts hsym hS
      obtain ⟨x, t, hxt⟩ := List.exists_cons_of_ne_nil hne
      have hxS : x ∈ S := by rw [hxt]; exact List.mem_cons_self
      have hxf : x ∈ cs.flatten := hperm.mem_iff.2 (List.mem_range.2 (hSn x hxS))
      obtain ⟨c, hc, hxc⟩ := List.mem_flatten.1 hxf
      obtain ⟨i, hi, hci⟩ := List.getElem_of_mem hc
      obtain ⟨hi2, hPi⟩ := forall₂_index hF i hi
      rw [hci] at hPi
      exact List.mem_flatten.2 ⟨_, List.getElem_mem hi2, (hPi.iff S).2 ⟨hS, x, hxS, hxc⟩⟩
  exact ⟨hbnd, hmem, (List.perm_ext_iff_of_nodup hbnd (blocks_nodup g)).2 hmem⟩

end GDist
