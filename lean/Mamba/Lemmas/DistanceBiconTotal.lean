import Mamba.Model.Bicon
import Mamba.Lemmas.DistanceCCModel2
import Mamba.Lemmas.DistanceModel
/-!
# Lemmas for C10: the faithful model of `BiconnectedComponents` is total (no panic, fuel `2n + 2` suffices)
-/
namespace GDist
open GraphSpec Model

structure BOk (n : Nat) (st : BicSt) : Prop where
  dsz : st.depths.size = n
  lsz : st.low.size = n
  psz : st.parents.size = n
  asz : st.isArt.size = n
  stk : ∀ x ∈ st.toCheck, ∃ h : x < st.depths.size, 0 ≤ st.depths[x]
  bne : st.bicoms ≠ []
  bpre : ∀ b ∈ st.bicoms.dropLast, b ≠ []
  belem : ∀ b ∈ st.bicoms, ∀ x ∈ b, x < n
  osorted : ∀ b ∈ st.out, b.Pairwise (fun a b => decide (a ≤ b) = true)

theorem sortInts_sorted (l : List Nat) : (sortInts l).Pairwise (fun a b => decide (a ≤ b) = true) := by
  unfold sortInts
  apply List.pairwise_mergeSort
  · intro a b c h1 h2; simp at h1 h2 ⊢; omega
  · intro a b; simp; omega

theorem getLast?_isSome_of_ne_nil {α : Type} {l : List α} (h : l ≠ []) : ∃ x, l.getLast? = some x := by
  cases hl : l.getLast? with
  | none => exact absurd (List.getLast?_eq_none_iff.1 hl) h
  | some x => exact ⟨x, rfl⟩

theorem setLast_ne_nil {α : Type} (l : List α) (x : α) : setLast l x ≠ [] := by simp [setLast]
theorem setLast_dropLast {α : Type} (l : List α) (x : α) : (setLast l x).dropLast = l.dropLast := by
  simp [setLast, List.dropLast_concat]
theorem mem_setLast {α : Type} {l : List α} {x y : α} (h : y ∈ setLast l x) : y ∈ l.dropLast ∨ y = x := by
  simpa [setLast] using h

theorem mem_dropLast_or_last {α : Type} {l : List α} {b c : α} (hb : b ∈ l) (hc : l.getLast? = some c) :
    b ∈ l.dropLast ∨ b = c := by
  have hne : l ≠ [] := List.ne_nil_of_mem hb
  have hl : l = l.dropLast ++ [c] := by
    conv_lhs => rw [← List.dropLast_append_getLast hne]
    congr 2
    rw [List.getLast?_eq_some_getLast hne] at hc
    exact Option.some.inj hc
  rw [hl] at hb
  rcases List.mem_append.1 hb with h | h
  · exact .inl h
  · simp at h; exact .inr h

/-- measure of the DFS: twice the number of unvisited vertices plus the stack height -/
def bicMeasure (st : BicSt) : Nat := 2 * st.depths.count (-1) + st.toCheck.length

theorem bicScan_total (com : List Nat) {n v : Nat} (hv : v < n) :
    ∀ (us : List Nat) (st : BicSt) (tmpLow : Int), BOk n st → (∀ u ∈ us, u < n) →
      (∃ h : v < st.depths.size, 0 ≤ st.depths[v]) →
      (∃ st', bicScan com n v us st tmpLow = .ok (.descend st') ∧ BOk n st' ∧
          bicMeasure st' + 1 = bicMeasure st) ∨
      (∃ st' t, bicScan com n v us st tmpLow = .ok (.done st' t) ∧ BOk n st' ∧
          st'.toCheck = st.toCheck ∧ st'.depths = st.depths) := by
  intro us
  induction us with
  | nil => intro st tmpLow ok _ _; exact .inr ⟨st, tmpLow, rfl, ok, rfl, rfl⟩
  | cons u us ih =>
    intro st tmpLow ok hus hvd
    have hu : u < n := hus u List.mem_cons_self
    have hus' : ∀ x ∈ us, x < n := fun x hx => hus x (List.mem_cons_of_mem _ hx)
    have huD : u < st.depths.size := by rw [ok.dsz]; exact hu
    have hvD : v < st.depths.size := by rw [ok.dsz]; exact hv
    have huL : u < st.low.size := by rw [ok.lsz]; exact hu
    have huP : u < st.parents.size := by rw [ok.psz]; exact hu
    have hvP : v < st.parents.size := by rw [ok.psz]; exact hv
    have hvA : v < st.isArt.size := by rw [ok.asz]; exact hv
    obtain ⟨cur, hcur⟩ := getLast?_isSome_of_ne_nil ok.bne
    unfold bicScan
    simp only [huD, dif_pos]
    by_cases hunv : st.depths[u] = -1
    · -- descend
      simp only [hunv, if_true, hvD, dif_pos, huL, huP, hcur]
      left
      obtain ⟨_, hvpos⟩ := hvd
      refine ⟨_, rfl, ?_, ?_⟩
      · refine { dsz := by simp [ok.dsz], lsz := by simp [ok.lsz], psz := by simp [ok.psz], asz := ok.asz,
                 stk := ?_, bne := ?_, bpre := ?_, belem := ?_, osorted := ok.osorted }
        · intro x hx
          simp only [List.mem_cons] at hx
          rcases hx with rfl | hx
          · refine ⟨by simpa using huD, ?_⟩
            simp only [Array.getElem_set_self]; omega
          · obtain ⟨hx1, hx2⟩ := ok.stk x hx
            refine ⟨by simpa using hx1, ?_⟩
            rw [Array.getElem_set]
            split
            · omega
            · exact hx2
        · show (if cur.length > 0 then st.bicoms ++ [[]] else st.bicoms) ≠ []
          by_cases hlen : cur.length > 0
          · simp [hlen]
          · simp only [hlen, if_false]; exact ok.bne
        · intro b hb
          have hb' : b ∈ (if cur.length > 0 then st.bicoms ++ [[]] else st.bicoms).dropLast := hb
          by_cases hlen : cur.length > 0
          · simp only [hlen, if_true, List.dropLast_concat] at hb'
            rcases mem_dropLast_or_last hb' hcur with h | h
            · exact ok.bpre b h
            · subst h; intro h0; rw [h0] at hlen; simp at hlen
          · simp only [hlen, if_false] at hb'
            exact ok.bpre b hb'
        · intro b hb x hx
          have hb' : b ∈ (if cur.length > 0 then st.bicoms ++ [[]] else st.bicoms) := hb
          by_cases hlen : cur.length > 0
          · simp only [hlen, if_true] at hb'
            rcases List.mem_append.1 hb' with hb' | hb'
            · exact ok.belem b hb' x hx
            · simp at hb'; subst hb'; cases hx
          · simp only [hlen, if_false] at hb'
            exact ok.belem b hb' x hx
      · unfold bicMeasure
        simp only [List.length_cons]
        rw [Array.count_set huD]
        have hpos : 0 < st.depths.count (-1) := by
          rw [Array.count_pos_iff, ← hunv]; exact Array.getElem_mem huD
        simp only [hunv, beq_self_eq_true, if_true]
        have : (st.depths[v] + 1 == -1) = false := by
          simp; omega
        simp only [this, Bool.false_eq_true, if_false]
        omega
    · simp only [hunv, if_false, hvP, dif_pos]
      by_cases hpar : (u : Int) ≠ st.parents[v]
      · simp only [hpar, ne_eq, not_false_eq_true, if_true, huL, dif_pos, huP, hvD]
        by_cases hem : v ≠ 0 ∧ st.parents[u] = (v : Int) ∧ st.low[u] ≥ st.depths[v]
        · simp only [hem, ne_eq, not_false_eq_true, and_self, if_true, hcur, hvA, dif_pos]
          have ok' : BOk n { st with
              parents := st.parents.set u (-1)
              out := st.out ++ [sortInts ((cur ++ [v]).map fun x => com.getD x 0)]
              bicoms := setLast st.bicoms []
              isArt := st.isArt.set v true } :=
            { dsz := ok.dsz, lsz := ok.lsz, psz := by simp [ok.psz], asz := by simp [ok.asz],
              stk := ok.stk, bne := setLast_ne_nil _ _,
              bpre := fun b hb => ok.bpre b (by rw [setLast_dropLast] at hb; exact hb),
              belem := fun b hb x hx => (by
                rcases mem_setLast hb with h | h
                · exact ok.belem b ((List.dropLast_sublist _).subset h) x hx
                · subst h; cases hx),
              osorted := fun b hb => (by
                rcases List.mem_append.1 hb with h | h
                · exact ok.osorted b h
                · simp at h; subst h; exact sortInts_sorted _) }
          rcases ih _ (if st.low[u] < tmpLow then st.low[u] else tmpLow) ok' hus' hvd with
            ⟨st', e, o, m⟩ | ⟨st', t, e, o, h1, h2⟩
          · exact .inl ⟨st', e, o, m⟩
          · exact .inr ⟨st', t, e, o, h1, h2⟩
        · simp only [hem, if_false]
          exact ih st _ ok hus' hvd
      · simp only [hpar, if_false]
        exact ih st tmpLow ok hus' hvd

theorem bicMerge_total {n : Nat} (depths : Array Int) (dv : Int) (hd : depths.size = n) :
    ∀ (preRev : List (List Nat)) (cur : List Nat),
      (∀ b ∈ preRev, b ≠ [] ∧ ∀ x ∈ b, x < n) → (∀ x ∈ cur, x < n) →
      ∃ bs, bicMerge depths dv preRev cur = .ok bs ∧ bs ≠ [] ∧
        (∀ b ∈ bs.dropLast, b ≠ []) ∧ (∀ b ∈ bs, ∀ x ∈ b, x < n) := by
  intro preRev
  induction preRev with
  | nil =>
    intro cur _ hcur
    exact ⟨[cur], rfl, by simp, by simp, fun b hb x hx => by simp at hb; subst hb; exact hcur x hx⟩
  | cons b preRev ih =>
    intro cur hpre hcur
    obtain ⟨hbne, hbel⟩ := hpre b List.mem_cons_self
    have hpre' : ∀ b' ∈ preRev, b' ≠ [] ∧ ∀ x ∈ b', x < n := fun b' hb' => hpre b' (List.mem_cons_of_mem _ hb')
    obtain ⟨x, hx⟩ := getLast?_isSome_of_ne_nil hbne
    have hxn : x < depths.size := by rw [hd]; exact hbel x (List.mem_of_getLast? hx)
    unfold bicMerge
    simp only [hx, hxn, dif_pos]
    by_cases heq : depths[x] = dv + 1
    · simp only [heq, if_true]
      exact ih (cur ++ b) hpre' (fun y hy => by
        rcases List.mem_append.1 hy with h | h
        · exact hcur y h
        · exact hbel y h)
    · simp only [heq, if_false]
      refine ⟨(b :: preRev).reverse ++ [cur], rfl, by simp, ?_, ?_⟩
      · intro b' hb'
        rw [List.dropLast_concat] at hb'
        exact (hpre b' (List.mem_reverse.1 hb')).1
      · intro b' hb' y hy
        rcases List.mem_append.1 hb' with h | h
        · exact (hpre b' (List.mem_reverse.1 h)).2 y hy
        · simp at h; subst h; exact hcur y hy

theorem bicLoop_total (h : G) (com : List Nat) :
    ∀ (fuel : Nat) (st : BicSt), BOk h.n st → bicMeasure st + 1 ≤ fuel →
      ∃ st', bicLoop h com fuel st = .ok st' ∧ BOk h.n st' := by
  intro fuel
  induction fuel with
  | zero => intro st _ hf; omega
  | succ f ih =>
    intro st ok hf
    unfold bicLoop
    match hT : st.toCheck with
    | [] => exact ⟨st, by simp, ok⟩
    | v :: restStack =>
      have hvmem : v ∈ st.toCheck := by rw [hT]; exact List.mem_cons_self
      obtain ⟨hvD, hvpos⟩ := ok.stk v hvmem
      have hv : v < h.n := by rw [← ok.dsz]; exact hvD
      have hvL : v < st.low.size := by rw [ok.lsz]; exact hv
      simp only [hvL, dif_pos]
      rcases bicScan_total com hv (h.nbrs v) st st.low[v] ok (fun u hu => (mem_nbrs.1 hu).1) ⟨hvD, hvpos⟩ with
        ⟨st', e, ok', hm⟩ | ⟨st', t, e, ok', hstk, hdep⟩
      · rw [e]
        simp only
        exact ih st' ok' (by omega)
      · rw [e]
        simp only
        have hvL' : v < st'.low.size := by rw [ok'.lsz]; exact hv
        have hvD' : v < st'.depths.size := by rw [ok'.dsz]; exact hv
        simp only [hvL', dif_pos, hvD']
        obtain ⟨cur, hcur⟩ := getLast?_isSome_of_ne_nil ok'.bne
        -- the tail of the iteration, for any merged list
        have tail : ∀ (bs : List (List Nat)) (cur2 : List Nat), bs.getLast? = some cur2 →
            (∀ b ∈ bs.dropLast, b ≠ []) → (∀ b ∈ bs, ∀ x ∈ b, x < h.n) →
            ∃ st1, bicLoop h com f
              { toCheck := restStack, depths := st'.depths, low := st'.low.set v t hvL', parents := st'.parents,
                isArt := st'.isArt, childCount := st'.childCount, bicoms := setLast bs (cur2 ++ [v]),
                out := st'.out } = .ok st1 ∧ BOk h.n st1 := by
          intro bs cur2 hcur2 hbs2 hbs3
          apply ih
          · refine { dsz := ok'.dsz, lsz := by simp [ok'.lsz], psz := ok'.psz, asz := ok'.asz, stk := ?_,
                     bne := setLast_ne_nil _ _, bpre := ?_, belem := ?_, osorted := ok'.osorted }
            · intro x hx
              have hx' : x ∈ st.toCheck := by rw [hT]; exact List.mem_cons_of_mem _ hx
              obtain ⟨h1, h2⟩ := ok.stk x hx'
              refine ⟨by rw [hdep]; exact h1, ?_⟩
              simp only [hdep]; exact h2
            · intro b hb
              rw [setLast_dropLast] at hb
              exact hbs2 b hb
            · intro b hb x hx
              rcases mem_setLast hb with hb' | hb'
              · exact hbs3 b ((List.dropLast_sublist _).subset hb') x hx
              · subst hb'
                rcases List.mem_append.1 hx with hx' | hx'
                · exact hbs3 cur2 (List.mem_of_getLast? hcur2) x hx'
                · simp at hx'; subst hx'; exact hv
          · unfold bicMeasure at hf ⊢
            simp only [hdep]
            rw [hT] at hf
            simp only [List.length_cons] at hf
            omega
        by_cases hv0 : v ≠ 0
        · simp only [hv0, ne_eq, not_false_eq_true, if_true, hcur]
          obtain ⟨bs, ebs, hbs1, hbs2, hbs3⟩ := bicMerge_total st'.depths st'.depths[v] ok'.dsz
            st'.bicoms.dropLast.reverse cur
            (fun b hb => by
              have hb' := List.mem_reverse.1 hb
              exact ⟨ok'.bpre b hb', ok'.belem b ((List.dropLast_sublist _).subset hb')⟩)
            (ok'.belem cur (List.mem_of_getLast? hcur))
          rw [ebs]
          simp only
          obtain ⟨cur2, hcur2⟩ := getLast?_isSome_of_ne_nil hbs1
          simp only [hcur2]
          exact tail bs cur2 hcur2 hbs2 hbs3
        · simp only [hv0, if_false, hcur]
          exact tail st'.bicoms cur hcur ok'.bpre ok'.belem

theorem bicComponent_total (g : G) (com : List Nat) (hne : com ≠ []) (acc : List (List Nat) × List Nat)
    (hacc : ∀ b ∈ acc.1, b.Pairwise (fun a b => decide (a ≤ b) = true)) :
    ∃ acc', bicComponent g com acc = .ok acc' ∧
      ∀ b ∈ acc'.1, b.Pairwise (fun a b => decide (a ≤ b) = true) := by
  unfold bicComponent
  have hn : (g.induced com).n = com.length := rfl
  have hpos : 0 < com.length := List.length_pos_iff.2 hne
  have hn0 : ¬ (g.induced com).n = 0 := by rw [hn]; omega
  simp only [hn0, if_false]
  have hdep0 : ((Array.replicate (g.induced com).n (-1 : Int)).setIfInBounds 0 0).size = (g.induced com).n := by simp
  have ok0 : BOk (g.induced com).n
      { toCheck := [0], depths := (Array.replicate (g.induced com).n (-1 : Int)).setIfInBounds 0 0,
        low := Array.replicate (g.induced com).n 0, parents := Array.replicate (g.induced com).n 0,
        isArt := Array.replicate (g.induced com).n false, childCount := 0, bicoms := [[]], out := acc.1 } :=
    { dsz := (by simp), lsz := (by simp), psz := (by simp), asz := (by simp),
      stk := fun x hx => (by
        simp at hx; subst hx
        refine ⟨by simp; rw [hn]; omega, ?_⟩
        simp [Array.getElem_setIfInBounds]),
      bne := (by simp), bpre := (by simp), belem := fun b hb x hx => (by simp at hb; subst hb; cases hx),
      osorted := hacc }
  have hmeas : bicMeasure
      { toCheck := [0], depths := (Array.replicate (g.induced com).n (-1 : Int)).setIfInBounds 0 0,
        low := Array.replicate (g.induced com).n 0, parents := Array.replicate (g.induced com).n 0,
        isArt := Array.replicate (g.induced com).n false, childCount := 0, bicoms := [[]], out := acc.1 } + 1
      ≤ 2 * (g.induced com).n + 2 := by
    unfold bicMeasure
    simp only [List.length_cons, List.length_nil]
    have : ((Array.replicate (g.induced com).n (-1 : Int)).setIfInBounds 0 0).count (-1) ≤ (g.induced com).n := by
      have := Array.count_le_size (a := (-1 : Int))
        (xs := (Array.replicate (g.induced com).n (-1 : Int)).setIfInBounds 0 0)
      simpa using this
    omega
  obtain ⟨st, e, ok⟩ := bicLoop_total (g.induced com) com _ _ ok0 hmeas
  rw [e]
  refine ⟨_, rfl, ?_⟩
  intro b hb
  rcases List.mem_append.1 hb with h | h
  · exact ok.osorted b h
  · obtain ⟨b', _, rfl⟩ := List.mem_map.1 h
    exact sortInts_sorted _

theorem bicAll_total (g : G) :
    ∀ (coms : List (List Nat)) (acc : List (List Nat) × List Nat), (∀ c ∈ coms, c ≠ []) →
      (∀ b ∈ acc.1, b.Pairwise (fun a b => decide (a ≤ b) = true)) →
      ∃ acc', bicAll g coms acc = .ok acc' ∧ ∀ b ∈ acc'.1, b.Pairwise (fun a b => decide (a ≤ b) = true) := by
  intro coms
  induction coms with
  | nil => intro acc _ hacc; exact ⟨acc, rfl, hacc⟩
  | cons com coms ih =>
    intro acc hne hacc
    obtain ⟨acc1, e1, h1⟩ := bicComponent_total g com (hne com List.mem_cons_self) acc hacc
    obtain ⟨acc2, e2, h2⟩ := ih acc1 (fun c hc => hne c (List.mem_cons_of_mem _ hc)) h1
    exact ⟨acc2, by simp only [bicAll, e1]; exact e2, h2⟩

/-- the faithful model of `BiconnectedComponents` never panics, terminates within its fuel `2n + 2` per component,
and every block it reports is a sorted list -/
theorem biconnectedComponents_total (g : G) (hsym : ∀ u v, g.adj u v = g.adj v u) :
    ∃ bs arts, Model.biconnectedComponents g = .ok (bs, arts) ∧
      ∀ b ∈ bs, b.Pairwise (fun a b => decide (a ≤ b) = true) := by
  unfold Model.biconnectedComponents
  obtain ⟨cs, ecs, hperm⟩ := connectedComponents_perm g hsym (g.n + 1) (Nat.le_refl _)
  rw [ecs]
  simp only
  have hne : ∀ c ∈ cs, c ≠ [] := by
    intro c hc
    have hc' := hperm.mem_iff.1 hc
    exact ((componentsIn_spec' g hsym c hc'))
  obtain ⟨acc, e, h⟩ := bicAll_total g cs ([], []) hne (fun b hb => by cases hb)
  exact ⟨acc.1, acc.2, e, h⟩
where
  componentsIn_spec' (g : G) (hsym : ∀ u v, g.adj u v = g.adj v u) (c : List Nat) (hc : c ∈ components g) :
      c ≠ [] := by
    have hV : ∀ r ∈ List.range g.n, r ∈ List.range g.n := fun _ h => h
    have hcl : ∀ x ∈ ([] : List Nat), ∀ y, ReachIn g (List.range g.n) x y → y ∈ ([] : List Nat) :=
      fun x hx => by cases hx
    obtain ⟨h1, _, _, _⟩ := componentsFrom_spec hsym (List.range g.n) [] hV hcl
    obtain ⟨s, hs, _, rfl⟩ := h1 c hc
    exact List.ne_nil_of_mem (mem_componentIn.2 (ReachIn.refl hs))

end GDist
