import Mamba.Lemmas.DistanceGibbsBlock
/-!
# Spanning half: an even set of tree edges is empty
-/
namespace GDist
open GraphSpec Model

variable {a : G}

/-- `c` is the code of a tree edge -/
def TreeCode (a : G) (T : Array Int) (c : Nat) : Prop :=
  ∃ x, x < a.n ∧ inTree T x ∧ x ≠ 0 ∧ c = edgeCode x (par T x)

/-- everything known at the end of Paton's phase on a connected simple graph -/
structure PFinal (a : G) (st : PatonSt) (nt : List (Nat × Nat)) : Prop where
  o : PO a st
  pc : PC a st
  pi : PI a st nt
  xe : st.X = []
  all : ∀ x, x < a.n → inTree st.T x

theorem paton_final (a : G) (hsym : ∀ u v, a.adj u v = a.adj v u) (hirr : ∀ v, a.adj v v = false)
    (hn : 0 < a.n) (hconn : ∀ x, x < a.n → Reach a 0 x) (fuel : Nat) (st : PatonSt)
    (hres : patonLoop a fuel (patonInit a.n) = .ok st) : ∃ nt, PFinal a st nt := by
  have pc0 : PC a (patonInit a.n) := by
    refine ⟨by simp [patonInit], fun e he => by simp [patonInit] at he, by simp [patonInit], ?_⟩
    have hset : (Array.replicate a.n (-1 : Int)).setIfInBounds 0 0
        = (Array.replicate a.n (-1 : Int)).set 0 0 (by simpa using hn) := by
      simp [Array.setIfInBounds, hn]
    unfold patonInit; simp only
    rw [hset, Array.count_set (by simpa using hn)]
    simp
    omega
  have o0 := po_init hn
  have hin0 : ∀ x, inTree (patonInit a.n).T x → x = 0 := by
    intro x ht
    have hset : (Array.replicate a.n (-1 : Int)).setIfInBounds 0 0
        = (Array.replicate a.n (-1 : Int)).set 0 0 (by simpa using hn) := by
      simp [Array.setIfInBounds, hn]
    by_contra hx0
    apply ht
    show ((Array.replicate a.n (-1 : Int)).setIfInBounds 0 0).getD x (-1) = -1
    rw [hset, getD_set_int]
    simp only [hx0, if_false]
    by_cases hxn : x < a.n <;> simp [Array.getD, hxn]
  have pi0 : PI a (patonInit a.n) [] :=
    { fnt := (by simp [patonInit])
      ntnd := List.nodup_nil
      ntrm := fun e he => (by cases he)
      trm := fun x _ ht hx0 => absurd (hin0 x ht) hx0
      ntt := fun e he => (by cases he)
      rcov := fun e he => (by simp [patonInit] at he) }
  obtain ⟨o, pc, hX⟩ := patonLoop_count hsym hirr fuel _ o0 pc0 st hres
  obtain ⟨_, nt, pi⟩ := patonLoop_indep hsym hirr fuel _ [] o0 pc0 pi0 st hres
  have hroot : inTree st.T 0 := by unfold inTree; rw [o.root]; omega
  have hrm : ∀ u v, edgeRemoved st.removed u v = true → inTree st.T u ∧ inTree st.T v := by
    intro u v h
    unfold edgeRemoved at h
    simp only [Bool.or_eq_true, List.contains_iff_mem] at h
    rcases h with h | h
    · obtain ⟨_, _, _, h4, h5⟩ := pc.rin _ h; exact ⟨h4, h5⟩
    · obtain ⟨_, _, _, h4, h5⟩ := pc.rin _ h; exact ⟨h5, h4⟩
  have hall : ∀ x, x < a.n → inTree st.T x := by
    intro x hx
    obtain ⟨k, hk⟩ := hconn x hx
    have : ∀ y k, WalkIn a (List.range a.n) 0 y k → inTree st.T y := by
      intro y k hw
      induction hw with
      | base _ => exact hroot
      | @step u w k hwu hadj hwV ih =>
        have hun := List.mem_range.1 hwu.mem_V
        have := o.exam u hun ih (by rw [hX]; simp) w hadj (List.mem_range.1 hwV)
        exact (hrm w u this).1
    exact this x k hk
  exact ⟨nt, o, pc, pi, hX, hall⟩

theorem exists_argmax (f : Nat → Nat) (P : Nat → Prop) : ∀ n, (∃ x, x < n ∧ P x) →
    ∃ x, x < n ∧ P x ∧ ∀ y, y < n → P y → f y ≤ f x := by
  intro n
  induction n with
  | zero => rintro ⟨x, hx, _⟩; omega
  | succ n ih =>
    rintro ⟨x, hx, hPx⟩
    by_cases hex : ∃ x, x < n ∧ P x
    · obtain ⟨m, hm, hPm, hmax⟩ := ih hex
      by_cases hPn : P n
      · by_cases hle : f n ≤ f m
        · refine ⟨m, by omega, hPm, fun y hy hPy => ?_⟩
          by_cases hyn : y = n
          · subst hyn; exact hle
          · exact hmax y (by omega) hPy
        · refine ⟨n, by omega, hPn, fun y hy hPy => ?_⟩
          by_cases hyn : y = n
          · subst hyn; exact Nat.le_refl _
          · have := hmax y (by omega) hPy; omega
      · refine ⟨m, by omega, hPm, fun y hy hPy => ?_⟩
        by_cases hyn : y = n
        · subst hyn; exact absurd hPy hPn
        · exact hmax y (by omega) hPy
    · have hxn : x = n := by
        by_contra h; exact hex ⟨x, by omega, hPx⟩
      subst hxn
      refine ⟨x, by omega, hPx, fun y hy hPy => ?_⟩
      by_cases hyn : y = x
      · subst hyn; exact Nat.le_refl _
      · exact absurd ⟨y, by omega, hPy⟩ hex

theorem countP_eq_one {p : Nat → Bool} : ∀ (t : List Nat), t.Nodup → ∀ c0, c0 ∈ t → p c0 = true →
    (∀ c ∈ t, p c = true → c = c0) → t.countP p = 1
  | [], _, _, h, _, _ => by cases h
  | c :: t, hnd, c0, hm, hp, huniq => by
    obtain ⟨hcnot, hnd'⟩ := List.nodup_cons.1 hnd
    rw [List.countP_cons]
    rcases List.mem_cons.1 hm with rfl | hm
    · have : t.countP p = 0 := by
        rw [List.countP_eq_zero]
        intro x hx hpx
        exact hcnot ((huniq x (List.mem_cons_of_mem _ hx) hpx) ▸ hx)
      simp [this, hp]
    · have hc : ¬ p c = true := fun h => hcnot ((huniq c List.mem_cons_self h) ▸ hm)
      rw [countP_eq_one t hnd' c0 hm hp (fun x hx => huniq x (List.mem_cons_of_mem _ hx))]
      simp [hc]

/-- **an even set of tree edges is empty** -/
theorem tree_even_empty {st : PatonSt} (o : PO a st) {t : List Nat} (hnd : t.Nodup)
    (htree : ∀ c ∈ t, TreeCode a st.T c) (hev : EvenSet a.n t) : t = [] := by
  by_contra hne
  obtain ⟨c1, t', rfl⟩ := List.exists_cons_of_ne_nil hne
  obtain ⟨x1, hx1, ht1, hx10, hc1⟩ := htree c1 List.mem_cons_self
  let P : Nat → Prop := fun x => inTree st.T x ∧ x ≠ 0 ∧ edgeCode x (par st.T x) ∈ c1 :: t'
  obtain ⟨x, hx, ⟨hxt, hx0, hxm⟩, hmax⟩ := exists_argmax (dep st.depth) P a.n
    ⟨x1, hx1, ht1, hx10, by rw [← hc1]; exact List.mem_cons_self⟩
  have hpx := o.ptree x hx hxt
  have hdx := (o.pdep x hx hxt hx0).1
  have hxp : x ≠ par st.T x := fun h => by rw [← h] at hdx; omega
  have hcount : degIn a.n (c1 :: t') x = 1 := by
    unfold degIn
    apply countP_eq_one _ hnd _ hxm
    · exact (incid_edgeCode hx hpx.2.1 hxp).2 (.inl rfl)
    · intro c hc hinc
      obtain ⟨y, hy, hyt, hy0, hcy⟩ := htree c hc
      have hpy := o.ptree y hy hyt
      have hdy := (o.pdep y hy hyt hy0).1
      have hyp : y ≠ par st.T y := fun h => by rw [← h] at hdy; omega
      rw [hcy] at hinc
      rcases (incid_edgeCode hy hpy.2.1 hyp).1 hinc with h | h
      · rw [hcy, h]
      · exfalso
        have := hmax y hy ⟨hyt, hy0, by rw [← hcy]; exact hc⟩
        rw [h] at this; omega
  have := hev x hx
  omega

end GDist
