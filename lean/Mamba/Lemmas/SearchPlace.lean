import Mamba.Lemmas.SearchShards
namespace Search

variable (O : Oracle) (n : Nat) (K : Nat → Nat → Bool)

def noPrune : DG → Bool := fun _ => false

/-- a predicate placed as `preprune` or as `prune` gives the same list of children (when both runs terminate normally) -/
theorem subKids_place (f : DG → Bool) (node1 node2 : DG → Option Ans → Outcome (List DG))
    (hnode : ∀ g c o1 o2, node1 g c = .ok o1 → node2 g c = .ok o2 → o1 = o2) (P : DG) :
    ∀ (xs : List Nat) (i : Nat) (o1 o2 : List DG),
      subKids O f noPrune n K node1 P xs i = .ok o1 → subKids O noPrune f n K node2 P xs i = .ok o2 → o1 = o2
  | [], _, o1, o2, h1, h2 => by simp only [subKids] at h1 h2; cases h1; cases h2; rfl
  | _ :: _, 0, o1, o2, h1, h2 => by simp only [subKids] at h1 h2; cases h1; cases h2; rfl
  | x :: xs, i + 1, o1, o2, h1, h2 => by
    simp only [subKids] at h1 h2
    by_cases hk : K i P.nv = true
    · simp only [hk, if_true] at h1 h2
      exact subKids_place f node1 node2 hnode P xs i o1 o2 h1 h2
    · have hk' : K i P.nv = false := by simpa using hk
      simp only [hk', Bool.false_eq_true, if_false] at h1 h2
      cases hadd : P.addVertex (bitsOf x) with
      | panic => simp [hadd] at h1
      | outOfFuel => simp [hadd] at h1
      | ok g2 =>
        simp only [hadd, noPrune, Bool.false_eq_true, if_false, Bool.not_false, Bool.and_true] at h1 h2
        cases hcan : isCanonical O n g2 (bitsOf x) none with
        | panic => simp [hcan] at h2
        | outOfFuel => simp [hcan] at h2
        | ok p =>
          obtain ⟨cache, canon⟩ := p
          simp only [hcan] at h1 h2
          by_cases hf : f g2 = true
          · simp only [hf, if_true, Bool.not_true, Bool.and_false, Bool.false_eq_true, if_false] at h1 h2
            exact subKids_place f node1 node2 hnode P xs i o1 o2 h1 h2
          · have hf' : f g2 = false := by simpa using hf
            simp only [hf', Bool.false_eq_true, if_false, Bool.not_false, Bool.and_true] at h1 h2
            by_cases hc : canon = true
            · simp only [hc, if_true] at h1 h2
              cases hn1 : node1 g2 cache with
              | panic => simp [hn1] at h1
              | outOfFuel => simp [hn1] at h1
              | ok a1 =>
                cases hn2 : node2 g2 cache with
                | panic => simp [hn2] at h2
                | outOfFuel => simp [hn2] at h2
                | ok a2 =>
                  simp only [hn1, hn2] at h1 h2
                  cases hr1 : subKids O f noPrune n K node1 P xs i with
                  | panic => simp [hr1] at h1
                  | outOfFuel => simp [hr1] at h1
                  | ok r1 =>
                    cases hr2 : subKids O noPrune f n K node2 P xs i with
                    | panic => simp [hr2] at h2
                    | outOfFuel => simp [hr2] at h2
                    | ok r2 =>
                      simp only [hr1, hr2, Outcome.ok.injEq] at h1 h2
                      rw [← h1, ← h2, hnode g2 cache a1 a2 hn1 hn2,
                        subKids_place f node1 node2 hnode P xs i r1 r2 hr1 hr2]
            · have hc' : canon = false := by simpa using hc
              simp only [hc', Bool.false_eq_true, if_false] at h1 h2
              exact subKids_place f node1 node2 hnode P xs i o1 o2 h1 h2

theorem subNode_place (f : DG → Bool) :
    ∀ (d : Nat) (g : DG) (c : Option Ans) (o1 o2 : List DG),
      subNode O f noPrune n K d g c = .ok o1 → subNode O noPrune f n K d g c = .ok o2 → o1 = o2
  | 0, g, c, o1, o2, h1, h2 => by
    simp only [subNode] at h1 h2
    split at h1
    · rename_i hn; simp only [hn, if_true] at h2; cases h1; cases h2; rfl
    · cases h1
  | d + 1, g, c, o1, o2, h1, h2 => by
    simp only [subNode] at h1 h2
    split at h1
    · rename_i hn; simp only [hn, if_true] at h2; cases h1; cases h2; rfl
    · rename_i hn
      simp only [hn, if_false] at h2
      cases haug : addAugmentations O n g #[] c with
      | panic => simp [haug] at h1
      | outOfFuel => simp [haug] at h1
      | ok p =>
        obtain ⟨new, c', num⟩ := p
        simp only [haug] at h1 h2
        exact subKids_place O n K f _ _ (fun g2 c2 a1 a2 e1 e2 => subNode_place f d g2 c2 a1 a2 e1 e2) g _ _ o1 o2 h1 h2

/-- **preprune or prune**: a (pure) predicate supplied as `preprune` or as `prune` makes the iterator yield the same
graphs in the same order, for every `n, a, m` (whenever both runs terminate normally). -/
theorem place_agree (f : DG → Bool) (n a m : Nat) (fuel lim : Nat) {o1 o2 : List DG} {t1 t2 : State}
    (h1 : exhaust O f noPrune fuel lim (init n a m) = .ok (o1, t1))
    (h2 : exhaust O noPrune f fuel lim (init n a m) = .ok (o2, t2)) : o1 = o2 := by
  by_cases hn : 2 ≤ n
  · have e1 := exhaust_init n a m hn fuel lim h1
    have e2 := exhaust_init n a m hn fuel lim h2
    simp only [noPrune, Bool.or_false, Bool.false_or] at e1 e2
    by_cases hf : f K1 = true
    · simp only [hf, if_true, Outcome.ok.injEq] at e1 e2
      rw [← e1, ← e2]
    · have hf' : f K1 = false := by simpa using hf
      simp only [hf', Bool.false_eq_true, if_false] at e1 e2
      exact subNode_place O n _ f _ _ _ o1 o2 e1 e2
  · have e1 := exhaust_small n a m (by omega) fuel lim h1
    have e2 := exhaust_small n a m (by omega) fuel lim h2
    rw [e1, e2]
    simp [noPrune]

end Search
