import Mamba.Lemmas.IntSortHeap
/-! Lemmas for C17 (`ints.Sort`): `quickSort` and `Sort` sort, given the partition contract of `doPivot`. -/
set_option linter.unusedTactic false
set_option linter.unreachableTactic false
set_option linter.unnecessarySeqFocus false
set_option linter.unusedSimpArgs false
set_option linter.unusedVariables false
namespace IntSort

theorem swapIfLt_spec (d : Data) (i j a b : Int) (hi : a ≤ i ∧ i < b) (hj : a ≤ j ∧ j < b) (h0 : 0 ≤ a) (hb : b ≤ d.size) :
    ∃ d', swapIfLt d i j = .ok d' ∧ RP a b d d' := by
  unfold swapIfLt
  rw [lt_total (by omega) (by omega) (by omega) (by omega)]
  by_cases h : vi d i < vi d j
  · simp only [h, decide_true]
    obtain ⟨d', hs⟩ := swap_total (d := d) (i := i) (j := j) (by omega) (by omega) (by omega) (by omega)
    exact ⟨d', hs, RP.of_swap hs hi hj⟩
  · simp only [h, decide_false]
    exact ⟨d, rfl, RP.refl _ _ _⟩

theorem shellPass_spec (cf : Cfg) (hg : 0 ≤ cf.shellGapIdx ∧ cf.shellGapIdx ≤ cf.shellGap) (a : Int) (d : Data) (b i : Int) :
    0 ≤ a → a + cf.shellGap ≤ i → b ≤ d.size →
    ∃ d', shellPass cf d b i = .ok d' ∧ RP a b d d' := by
  fun_induction shellPass cf d b i
  all_goals intro h0 hi hb
  case case1 d i hib d1 hsw ih =>
    obtain ⟨d1', hr, hrp⟩ := swapIfLt_spec d i (i-cf.shellGapIdx) a b ⟨by omega, hib⟩ ⟨by omega, by omega⟩ h0 hb
    rw [hr] at hsw; cases hsw
    obtain ⟨d', hr', hrp'⟩ := ih h0 (by omega) (by rw [hrp.1]; exact hb)
    exact ⟨d', hr', hrp.trans hrp'⟩
  case case2 d i hib hsw =>
    obtain ⟨d1', hr, hrp⟩ := swapIfLt_spec d i (i-cf.shellGapIdx) a b ⟨by omega, hib⟩ ⟨by omega, by omega⟩ h0 hb
    rw [hr] at hsw; cases hsw
  case case3 d i hib hsw =>
    obtain ⟨d1', hr, hrp⟩ := swapIfLt_spec d i (i-cf.shellGapIdx) a b ⟨by omega, hib⟩ ⟨by omega, by omega⟩ h0 hb
    rw [hr] at hsw; cases hsw
  case case4 d i hib => exact ⟨d, rfl, RP.refl _ _ _⟩

/-- gluing: left part sorted, right part sorted, partition property in between -/
theorem sorted_glue {a b mlo mhi : Int} {d1 d' : Data}
    (c1 : ∀ p q, a ≤ p → p < mlo → mlo ≤ q → q < b → vi d1 p ≤ vi d1 q)
    (c2 : ∀ p q, mlo ≤ p → p < mhi → mlo ≤ q → q < mhi → vi d1 p = vi d1 q)
    (c3 : ∀ p q, mlo ≤ p → p < mhi → mhi ≤ q → q < b → vi d1 p ≤ vi d1 q)
    (mL : ∀ k, a ≤ k → k < mlo → ∃ k', a ≤ k' ∧ k' < mlo ∧ vi d' k = vi d1 k')
    (mM : ∀ k, mlo ≤ k → k < mhi → vi d' k = vi d1 k)
    (mR : ∀ k, mhi ≤ k → k < b → ∃ k', mhi ≤ k' ∧ k' < b ∧ vi d' k = vi d1 k')
    (hb2 : mlo ≤ mhi)
    (sL : SortedOn a mlo d') (sR : SortedOn mhi b d') : SortedOn a b d' := by
  intro p q hp hpq hq
  by_cases hp1 : p < mlo
  · by_cases hq1 : q < mlo
    · exact sL p q hp hpq hq1
    · obtain ⟨p', hp'1, hp'2, hpe⟩ := mL p hp hp1
      rw [hpe]
      by_cases hq2 : q < mhi
      · rw [mM q (by omega) hq2]; exact c1 p' q hp'1 hp'2 (by omega) (by omega)
      · obtain ⟨q', hq'1, hq'2, hqe⟩ := mR q (by omega) hq
        rw [hqe]; exact c1 p' q' hp'1 hp'2 (by omega) hq'2
  · by_cases hp2 : p < mhi
    · rw [mM p (by omega) hp2]
      by_cases hq2 : q < mhi
      · rw [mM q (by omega) hq2]; exact Int.le_of_eq (c2 p q (by omega) hp2 (by omega) hq2)
      · obtain ⟨q', hq'1, hq'2, hqe⟩ := mR q (by omega) hq
        rw [hqe]; exact c3 p q' (by omega) hp2 hq'1 hq'2
    · exact sR p q (by omega) hpq hq

theorem SortedOn.congr {a b : Int} {d d' : Data} (h : SortedOn a b d) (he : ∀ k, a ≤ k → k < b → vi d' k = vi d k) :
    SortedOn a b d' := by
  intro p q hp hpq hq
  rw [he p hp (by omega), he q (by omega) hq]; exact h p q hp hpq hq

theorem quickSort_spec (cf : Cfg) (hk : cf.HeapOK) (hbo : cf.BuildOK) (hmin : cf.qsMin ≤ 1)
    (hg : 0 ≤ cf.shellGapIdx ∧ cf.shellGapIdx ≤ cf.shellGap)
    (hpiv : ∀ (d : Data) (lo hi : Int), 0 ≤ lo → hi - lo > cf.qsSmall → hi ≤ d.size → PivotOK cf d lo hi) :
    ∀ (f : Nat) (d : Data) (a b : Int) (md : Nat), 0 ≤ a → a ≤ b → b ≤ d.size → md < f →
      ∃ d', quickSort cf f d a b md = .ok d' ∧ RP a b d d' ∧ SortedOn a b d' := by
  intro f
  induction f with
  | zero => intro d a b md _ _ _ h; omega
  | succ f ih =>
    intro d a b md h0 hab hb hmd
    unfold quickSort
    by_cases hbig : b - a > cf.qsSmall
    · rw [if_pos hbig]
      cases md with
      | zero => exact heapSort_spec cf hk hbo d a b h0 hab hb
      | succ md =>
        simp only
        obtain ⟨d1, mlo, mhi, hr1, hrp1, b1, b2, b3, c1, c2, c3⟩ := hpiv d a b h0 hbig hb
        rw [hr1]
        simp only
        have hs1 := hrp1.1
        by_cases hbr : mlo - a < b - mhi
        · rw [if_pos hbr]
          obtain ⟨d2, hr2, hrp2, hso2⟩ := ih d1 a mlo md h0 b1 (by omega) (by omega)
          rw [hr2]
          simp only
          obtain ⟨d3, hr3, hrp3, hso3⟩ := ih d2 mhi b md (by omega) b3 (by rw [hrp2.1]; omega) (by omega)
          refine ⟨d3, hr3, (hrp1.trans (hrp2.mono (Int.le_refl _) (by omega))).trans (hrp3.mono (by omega) (Int.le_refl _)), ?_⟩
          apply sorted_glue c1 c2 c3 _ _ _ b2 _ hso3
          · intro k hk1 hk2
            obtain ⟨k', h1, h2, h3⟩ := hrp2.2.2 k hk1 hk2
            exact ⟨k', h1, h2, by rw [hrp3.2.1 k (Or.inl (by omega)), h3]⟩
          · intro k hk1 hk2
            rw [hrp3.2.1 k (Or.inl hk2), hrp2.2.1 k (Or.inr hk1)]
          · intro k hk1 hk2
            obtain ⟨k', h1, h2, h3⟩ := hrp3.2.2 k hk1 hk2
            exact ⟨k', h1, h2, by rw [h3, hrp2.2.1 k' (Or.inr (by omega))]⟩
          · exact hso2.congr (fun k h1 h2 => hrp3.2.1 k (Or.inl (by omega)))
        · rw [if_neg hbr]
          obtain ⟨d2, hr2, hrp2, hso2⟩ := ih d1 mhi b md (by omega) b3 (by omega) (by omega)
          rw [hr2]
          simp only
          obtain ⟨d3, hr3, hrp3, hso3⟩ := ih d2 a mlo md h0 b1 (by rw [hrp2.1]; omega) (by omega)
          refine ⟨d3, hr3, (hrp1.trans (hrp2.mono (by omega) (Int.le_refl _))).trans (hrp3.mono (Int.le_refl _) (by omega)), ?_⟩
          apply sorted_glue c1 c2 c3 _ _ _ b2 hso3 _
          · intro k hk1 hk2
            obtain ⟨k', h1, h2, h3⟩ := hrp3.2.2 k hk1 hk2
            exact ⟨k', h1, h2, by rw [h3, hrp2.2.1 k' (Or.inl (by omega))]⟩
          · intro k hk1 hk2
            rw [hrp3.2.1 k (Or.inr hk1), hrp2.2.1 k (Or.inl hk2)]
          · intro k hk1 hk2
            obtain ⟨k', h1, h2, h3⟩ := hrp2.2.2 k hk1 hk2
            exact ⟨k', h1, h2, by rw [hrp3.2.1 k (Or.inr (by omega)), h3]⟩
          · exact hso2.congr (fun k h1 h2 => hrp3.2.1 k (Or.inr (by omega)))
    · rw [if_neg hbig]
      by_cases h1 : b - a > cf.qsMin
      · rw [if_pos h1]
        obtain ⟨d1, hr1, hrp1⟩ := shellPass_spec cf hg a d b (a+cf.shellGap) h0 (Int.le_refl _) hb
        rw [hr1]
        simp only
        obtain ⟨d2, hr2, hrp2, hso2⟩ := insertionSort_spec d1 a b h0 (by rw [hrp1.1]; exact hb)
        exact ⟨d2, hr2, hrp1.trans hrp2, hso2⟩
      · rw [if_neg h1]
        exact ⟨d, rfl, RP.refl _ _ _, fun p q h2 h3 h4 => by omega⟩


theorem maxDepthLoop_total (cf : Cfg) (hs : 1 ≤ cf.mdShift) :
    ∀ (f i depth : Nat), i < f → ∃ r, maxDepthLoop cf f i depth = .ok r := by
  intro f
  induction f with
  | zero => intro i depth h; omega
  | succ f ih =>
    intro i depth h
    unfold maxDepthLoop
    by_cases hi : i > 0
    · rw [if_pos hi]
      apply ih
      rw [Nat.shiftRight_eq_div_pow]
      have h2 : 2 ≤ 2 ^ cf.mdShift := by
        calc 2 = 2 ^ 1 := rfl
          _ ≤ 2 ^ cf.mdShift := Nat.pow_le_pow_right (by omega) hs
      have : i / 2 ^ cf.mdShift ≤ i / 2 := Nat.div_le_div_left h2 (by omega)
      omega
    · rw [if_neg hi]; exact ⟨depth, rfl⟩

theorem maxDepth_total (cf : Cfg) (hs : 1 ≤ cf.mdShift) (n : Nat) : ∃ md, maxDepth cf n = .ok md := by
  unfold maxDepth
  obtain ⟨r, hr⟩ := maxDepthLoop_total cf hs (n + 1) n 0 (by omega)
  rw [hr]; exact ⟨_, rfl⟩

theorem vi_eq_getElem (d : Data) (k : Nat) (h : k < d.size) : vi d (k : Int) = d[k] := by
  unfold vi
  simp [h]

theorem sortedOn_toList {d : Data} (h : SortedOn 0 d.size d) : d.toList.Pairwise (· ≤ ·) := by
  rw [List.pairwise_iff_getElem]
  intro i j hi hj hij
  have hi' : i < d.size := by simpa using hi
  have hj' : j < d.size := by simpa using hj
  have := h (i : Int) (j : Int) (by omega) (by omega) (by omega)
  rw [vi_eq_getElem d i hi', vi_eq_getElem d j hj'] at this
  simpa using this

/-- `Sort` sorts, given the partition contract of `doPivot` -/
theorem sort_spec (cf : Cfg) (hk : cf.HeapOK) (hbo : cf.BuildOK) (hmin : cf.qsMin ≤ 1)
    (hg : 0 ≤ cf.shellGapIdx ∧ cf.shellGapIdx ≤ cf.shellGap)
    (hs : 1 ≤ cf.mdShift)
    (hpiv : ∀ (d : Data) (lo hi : Int), 0 ≤ lo → hi - lo > cf.qsSmall → hi ≤ d.size → PivotOK cf d lo hi)
    (d : Data) : ∃ d', sort cf d = .ok d' ∧ d'.toList.Pairwise (· ≤ ·) ∧ d'.toList.Perm d.toList := by
  unfold sort
  obtain ⟨md, hmd⟩ := maxDepth_total cf hs d.size
  rw [hmd]
  simp only
  obtain ⟨d', hr, hrp, hso⟩ := quickSort_spec cf hk hbo hmin hg hpiv (md + 2) d 0 d.size md (Int.le_refl _) (by omega) (Int.le_refl _) (by omega)
  refine ⟨d', hr, ?_, ?_⟩
  · apply sortedOn_toList
    rw [hrp.1]; exact hso
  · exact Multiset.coe_eq_coe.mp (quickSort_ms _ _ _ _ _ _ _ hr)

end IntSort
