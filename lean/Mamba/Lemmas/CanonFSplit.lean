import Mamba.Lemmas.CanonFInv
import Mamba.Lemmas.SortIntsUnionM
/-!
# `splitBin` of `Model/CanonF.lean` (Go: `(*CanonicalOrderedPartition).splitBin`)

* `splitBin_front`  — the first half (bin search `findBinLoop`, rearrangement of `order`, `inCell` loop `bumpStep`)
  never panics under `PartInv`; the rest is `splitTail`.
* `partStep_inv`    — the partition step re-establishes `PartInv` / `AgeInv`; the new divider carries the new age.
* `splitBin_decomp`, `splitBin_inv` — the interface theorems.
* `BtcInv`, `splitBin_no_panic_partial` — absence of panics of the partition step given spare capacity
  (the `expandValue` call is excluded).
-/
namespace CanonF


/-! ## list helpers -/

theorem binIdx_mono (bd : List Nat) {p q : Nat} (h : p ≤ q) : binIdx bd p ≤ binIdx bd q := by
  unfold binIdx
  exact List.countP_mono_left (fun x _ hx => by simp at hx ⊢; omega)

/-- the divider at the bin index is beyond the position -/
theorem binIdx_lt_div (bd : List Nat) (hs : bd.Pairwise (· < ·)) (i : Nat) (hb : binIdx bd i < bd.length) :
    i < bd[binIdx bd i] := by
  have := sorted_lt_iff_idx bd hs (i + 1) _ hb
  rw [← binIdx_eq] at this
  omega

/-- the dividers before the bin index are at most the position -/
theorem div_le_of_lt_binIdx (bd : List Nat) (hs : bd.Pairwise (· < ·)) (i k : Nat) (hk : k < binIdx bd i)
    (hkl : k < bd.length) : bd[k] ≤ i := by
  have := sorted_lt_iff_idx bd hs (i + 1) _ hkl
  rw [← binIdx_eq] at this
  omega

theorem getD_eq_getElem_split {α : Type} (l : List α) (d : α) (k : Nat) (hk : k < l.length) : l.getD k d = l[k] := by
  rw [List.getD_eq_getElem?_getD, List.getElem?_eq_getElem hk, Option.getD_some]

/-- the start of the bin of `i` -/
def binStartOf (bd : List Nat) (i : Nat) : Nat := if binIdx bd i = 0 then 0 else bd.getD (binIdx bd i - 1) 0

theorem binStartOf_le (bd : List Nat) (hs : bd.Pairwise (· < ·)) (i : Nat) (hb : binIdx bd i < bd.length) :
    binStartOf bd i ≤ i := by
  unfold binStartOf
  split
  · omega
  · have hk : binIdx bd i - 1 < bd.length := by omega
    rw [getD_eq_getElem_split _ _ _ hk]
    exact div_le_of_lt_binIdx bd hs i _ (by omega) hk

theorem binIdx_binStartOf (bd : List Nat) (hs : bd.Pairwise (· < ·)) (i : Nat) (hb : binIdx bd i < bd.length) :
    binIdx bd i ≤ binIdx bd (binStartOf bd i) := by
  unfold binStartOf
  split
  · omega
  · have hk : binIdx bd i - 1 < bd.length := by omega
    rw [getD_eq_getElem_split _ _ _ hk]
    have := sorted_lt_iff_idx bd hs (bd[binIdx bd i - 1] + 1) _ hk
    rw [← binIdx_eq] at this
    omega

/-- all positions between the start of the bin and `i` lie in the bin of `i` -/
theorem binIdx_eq_of_mem_bin (bd : List Nat) (hs : bd.Pairwise (· < ·)) (i p : Nat) (hb : binIdx bd i < bd.length)
    (h1 : binStartOf bd i ≤ p) (h2 : p ≤ i) : binIdx bd p = binIdx bd i := by
  have a := binIdx_mono bd h1
  have b := binIdx_mono bd h2
  have c := binIdx_binStartOf bd hs i hb
  omega

theorem lt_binStartOf_of_binIdx_lt (bd : List Nat) (hs : bd.Pairwise (· < ·)) (i p : Nat) (hb : binIdx bd i < bd.length)
    (h : binIdx bd p < binIdx bd i) : p < binStartOf bd i := by
  apply Nat.lt_of_not_le
  intro hc
  have a := binIdx_mono bd hc
  have c := binIdx_binStartOf bd hs i hb
  omega

/-- the bin index after the insertion of the divider `s + 1` at index `b` -/
theorem binIdx_insert (bd : List Nat) (b s p : Nat) :
    binIdx (bd.take b ++ (s + 1) :: bd.drop b) p = binIdx bd p + if s + 1 ≤ p then 1 else 0 := by
  unfold binIdx
  conv => rhs; rw [← List.take_append_drop b bd]
  simp only [List.countP_append, List.countP_cons]
  by_cases hsp : s + 1 ≤ p
  · simp [hsp]; omega
  · simp [hsp]

/-- inserting `start + 1` keeps the dividers strictly increasing -/
theorem sorted_insert : ∀ (b : Nat) (l : List Nat) (lo : Nat), (lo :: l).Pairwise (· < ·) → (hb : b < l.length) →
    (if b = 0 then lo else l.getD (b - 1) 0) + 1 < l[b] →
    (lo :: (l.take b ++ ((if b = 0 then lo else l.getD (b - 1) 0) + 1) :: l.drop b)).Pairwise (· < ·) := by
  intro b
  induction b with
  | zero =>
    intro l lo hp hb hlt
    cases l with
    | nil => simp at hb
    | cons x xs =>
      simp only [List.take_zero, List.nil_append, List.drop_zero, if_true] at hlt ⊢
      simp only [List.getElem_cons_zero] at hlt
      simp only [List.pairwise_cons] at hp ⊢
      refine ⟨?_, ?_, hp.2.1, hp.2.2⟩
      · intro a ha
        rcases List.mem_cons.1 ha with rfl | ha
        · omega
        · exact hp.1 a ha
      · intro a ha
        rcases List.mem_cons.1 ha with rfl | ha
        · omega
        · have := hp.2.1 a ha; omega
  | succ b ih =>
    intro l lo hp hb hlt
    cases l with
    | nil => simp at hb
    | cons x xs =>
      have hb' : b < xs.length := by simpa using hb
      have e : (if b + 1 = 0 then lo else (x :: xs).getD (b + 1 - 1) 0) = (if b = 0 then x else xs.getD (b - 1) 0) := by
        cases b with
        | zero => simp
        | succ c => simp
      rw [e] at hlt ⊢
      simp only [List.getElem_cons_succ] at hlt
      rw [List.pairwise_cons] at hp
      have := ih xs x hp.2 hb' hlt
      simp only [List.take_succ_cons, List.cons_append, List.drop_succ_cons]
      rw [List.pairwise_cons]
      refine ⟨?_, this⟩
      intro a ha
      rcases List.mem_cons.1 ha with rfl | ha
      · exact hp.1 _ (List.mem_cons_self ..)
      · have h1 := hp.1 x (List.mem_cons_self ..)
        have h2 := (List.pairwise_cons.1 this).1 a ha
        omega

theorem getLast?_insert {α : Type} (l : List α) (b : Nat) (x : α) (hb : b < l.length) :
    (l.take b ++ x :: l.drop b).getLast? = l.getLast? := by
  have hne : l.drop b ≠ [] := by
    intro h; have := congrArg List.length h; simp at this; omega
  rw [List.getLast?_append, List.getLast?_cons_of_ne_nil hne, List.getLast?_drop, if_neg (by omega)]
  have : l ≠ [] := by intro h; subst h; simp at hb
  rw [List.getLast?_eq_some_getLast this]
  rfl

/-! ## the pieces of `splitBin` -/

theorem findBinLoop_spec (bd : Sl Nat) (hs : bd.toList.Pairwise (· < ·)) (i : Nat)
    (hb : binIdx bd.toList i < bd.toList.length) (hl : bd.toList.length = bd.len) :
    ∀ k j, j + k = bd.len → j ≤ binIdx bd.toList i → findBinLoop bd i k j = .ok (binIdx bd.toList i) := by
  intro k
  induction k with
  | zero => intro j h1 h2; omega
  | succ k ih =>
    intro j h1 h2
    have hj : j < bd.toList.length := by omega
    have hget : bd.get j = .ok (bd.toList[j]) := by
      rw [Sl.get_eq_toList]; exact List.getElem?_eq_getElem _
    have := sorted_lt_iff_idx bd.toList hs (i + 1) _ hj
    rw [← binIdx_eq] at this
    rw [findBinLoop, hget]
    simp only
    by_cases hlt : i < bd.toList[j]
    · rw [if_pos hlt]
      congr 1; omega
    · rw [if_neg hlt]
      exact ih (j + 1) (by omega) (by omega)

/-- the computation of `binNumber` -/
theorem findBin_spec {n : Nat} {op : OP} (h : PartInv n op) {i : Nat} (hi : i < n) :
    ∃ d0, op.binDividers.get 0 = .ok d0 ∧
      (if d0 ≤ i then findBinLoop op.binDividers i (op.binDividers.len - 1) 1 else .ok 0) =
        .ok (binIdx op.binDividers.toList i) := by
  have hs : op.binDividers.toList.Pairwise (· < ·) := (List.pairwise_cons.1 h.sorted).2
  have hl := Sl.length_toList _ h.wfBd
  have hb := binIdx_lt _ n i h.last hi
  have h0 : 0 < op.binDividers.toList.length := by omega
  refine ⟨op.binDividers.toList[0], ?_, ?_⟩
  · rw [Sl.get_eq_toList]; exact List.getElem?_eq_getElem _
  · have := sorted_lt_iff_idx op.binDividers.toList hs (i + 1) _ h0
    rw [← binIdx_eq] at this
    by_cases hd : op.binDividers.toList[0] ≤ i
    · rw [if_pos hd]
      exact findBinLoop_spec _ hs i hb hl _ _ (by omega) (by omega)
    · rw [if_neg hd]
      congr 1; omega

/-- the computation of `binStart` -/
theorem binStart_spec {n : Nat} {op : OP} (h : PartInv n op) {i : Nat} (hi : i < n) :
    (if binIdx op.binDividers.toList i > 0 then op.binDividers.get (binIdx op.binDividers.toList i - 1) else .ok 0) =
      .ok (binStartOf op.binDividers.toList i) := by
  have hb := binIdx_lt _ n i h.last hi
  unfold binStartOf
  by_cases h0 : binIdx op.binDividers.toList i = 0
  · simp [h0]
  · rw [if_pos (by omega), if_neg h0]
    have hk : binIdx op.binDividers.toList i - 1 < op.binDividers.toList.length := by omega
    rw [Sl.get_eq_toList, getD_eq_getElem_split _ _ _ hk]
    exact List.getElem?_eq_getElem _

/-- the loop that increments `inCell` of the vertices at the positions `≥ s` -/
theorem bumpLoop_spec {n : Nat} (order ic0 : Sl Nat) (hwo : order.WF) (hlo : order.len = n)
    (hperm : order.toList.Perm (List.range n)) (hwi : ic0.WF) (hli : ic0.len = n) (s : Nat) (hs : s ≤ n) :
    ∃ ic, forRange (bumpStep order) (n - s) s ic0 = .ok ic ∧ ic.WF ∧ ic.len = n ∧ ic.data.size = ic0.data.size ∧
      ∀ p v c, order.toList[p]? = some v → ic0.toList[v]? = some c →
        ic.toList[v]? = some (c + if s ≤ p then 1 else 0) := by
  obtain ⟨r, hr, w1, l1, z1, hinv⟩ := forRange_total (bumpStep order)
    (fun j (ic : Sl Nat) => ic.WF ∧ ic.len = n ∧ ic.data.size = ic0.data.size ∧
      ∀ p v c, order.toList[p]? = some v → ic0.toList[v]? = some c →
        ic.toList[v]? = some (c + if s ≤ p ∧ p < j then 1 else 0))
    (n - s) s ic0
    ⟨hwi, hli, rfl, by
      intro p v c _ hc
      rw [if_neg (by omega)]; exact hc⟩
    (by
      intro j ic hj1 hj2 ⟨w1, l1, z1, hinv⟩
      obtain ⟨v, hv, _⟩ := Sl.get_ok_of_lt hwo (show j < order.len by omega)
      have hvl : order.toList[j]? = some v := Sl.get_eq_toList.1 hv
      have hvn : v < n := perm_range_lt hperm hvl
      obtain ⟨c, hc, _⟩ := Sl.get_ok_of_lt w1 (show v < ic.len by omega)
      have hcl : ic.toList[v]? = some c := Sl.get_eq_toList.1 hc
      have hset := Sl.set_ok_of_lt w1 (show v < ic.len by omega) (c + 1)
      refine ⟨_, by simp only [bumpStep, hv, hc, hset], Sl.set_wf w1 hset, by rw [Sl.set_len hset]; exact l1,
        by rw [Sl.set_cap hset]; exact z1, ?_⟩
      intro p u c0 hu hc0
      rw [Sl.toList_set hset, List.getElem?_set]
      by_cases hpj : p = j
      · subst hpj
        have : u = v := by rw [hvl] at hu; exact (Option.some.inj hu).symm
        subst this
        have := hinv p u c0 hu hc0
        rw [if_neg (by omega), hcl] at this
        rw [if_pos rfl, if_pos (by rw [Sl.length_toList _ w1]; omega), if_pos (by omega)]
        simp at this; rw [this]
      · have hne : v ≠ u := by
          intro e; subst e
          exact hpj (perm_range_inj hperm hu hvl)
        rw [if_neg hne, hinv p u c0 hu hc0]
        by_cases hc : s ≤ p ∧ p < j
        · rw [if_pos hc, if_pos (by omega)]
        · rw [if_neg hc, if_neg (by omega)])
  refine ⟨r, hr, w1, l1, z1, ?_⟩
  intro p v c hv hc
  have hp : p < n := by
    have := (List.getElem?_eq_some_iff.1 hv).1
    rw [Sl.length_toList _ hwo] at this; omega
  rw [hinv p v c hv hc]
  by_cases hsp : s ≤ p
  · rw [if_pos hsp, if_pos (by omega)]
  · rw [if_neg hsp, if_neg (by omega)]



/-- the list after moving position `i` to position `s` -/
def moveFront (o : List Nat) (s i : Nat) : List Nat :=
  o.take s ++ o.getD i 0 :: ((o.take i).drop s ++ o.drop (i + 1))

theorem moveFront_perm (o : List Nat) (s i : Nat) (hsi : s ≤ i) (hi : i < o.length) : (moveFront o s i).Perm o := by
  have e : o = o.take s ++ ((o.take i).drop s ++ o.getD i 0 :: o.drop (i + 1)) := by
    rw [getD_eq_getElem_split _ _ _ hi]
    rw [← List.drop_eq_getElem_cons hi, ← List.append_assoc]
    have : List.take s o = List.take s (List.take i o) := by rw [List.take_take, Nat.min_eq_left hsi]
    rw [this, List.take_append_drop, List.take_append_drop]
  unfold moveFront
  conv => rhs; rw [e]
  exact List.Perm.append_left _ List.perm_middle.symm

theorem moveFront_getElem? (o : List Nat) (s i : Nat) (hsi : s ≤ i) (hi : i < o.length) (p : Nat) :
    (moveFront o s i)[p]? = if p = s then o[i]? else if s < p ∧ p ≤ i then o[p - 1]? else o[p]? := by
  unfold moveFront
  have e1 : (List.take s o).length = s := by simp; omega
  by_cases hp1 : p < s
  · rw [List.getElem?_append_left (by omega), List.getElem?_take, if_pos hp1,
      if_neg (show ¬ p = s by omega), if_neg (show ¬ (s < p ∧ p ≤ i) by omega)]
  · rw [List.getElem?_append_right (by omega), e1]
    by_cases hp2 : p = s
    · subst hp2; rw [if_pos rfl, getD_eq_getElem_split _ _ _ hi]; simp
    · rw [show p - s = (p - s - 1) + 1 by omega, List.getElem?_cons_succ]
      have e2 : (List.drop s (List.take i o)).length = i - s := by simp; omega
      by_cases hp3 : p ≤ i
      · have hx : p - s - 1 < (List.drop s (List.take i o)).length := by omega
        rw [List.getElem?_append_left hx, List.getElem?_drop, List.getElem?_take,
          if_pos (show s + (p - s - 1) < i by omega), if_neg hp2, if_pos (show s < p ∧ p ≤ i by omega)]
        congr 1; omega
      · have hx : (List.drop s (List.take i o)).length ≤ p - s - 1 := by omega
        rw [List.getElem?_append_right hx, e2, List.getElem?_drop, if_neg hp2]
        have e3 : i + 1 + (p - s - 1 - (i - s)) = p := by omega
        rw [e3, if_neg (show ¬ (s < p ∧ p ≤ i) by omega)]

/-- where an entry of the rearranged list comes from -/
theorem moveFront_src (o : List Nat) (s i : Nat) (hsi : s ≤ i) (hi : i < o.length) (p v : Nat)
    (h : (moveFront o s i)[p]? = some v) :
    ∃ q, o[q]? = some v ∧ (q = p ∨ (s ≤ q ∧ q ≤ i ∧ s ≤ p ∧ p ≤ i)) := by
  rw [moveFront_getElem? o s i hsi hi] at h
  by_cases hp2 : p = s
  · rw [if_pos hp2] at h; exact ⟨i, h, Or.inr ⟨hsi, Nat.le_refl _, by omega, by omega⟩⟩
  · rw [if_neg hp2] at h
    by_cases hp3 : s < p ∧ p ≤ i
    · rw [if_pos hp3] at h; exact ⟨p - 1, h, Or.inr ⟨by omega, by omega, by omega, by omega⟩⟩
    · rw [if_neg hp3] at h; exact ⟨p, h, Or.inl rfl⟩

theorem moveFront_lt (o : List Nat) (s i : Nat) (hsi : s ≤ i) (hi : i < o.length) (p : Nat) (hp : p < s) :
    (moveFront o s i)[p]? = o[p]? := by
  rw [moveFront_getElem? o s i hsi hi, if_neg (by omega), if_neg (by omega)]



/-- `tmp := order[i]; copy(order[s+1:], order[s:i]); order[s] = tmp` -/
theorem moveFront_spec {n : Nat} (o : Sl Nat) (hw : o.WF) (hlen : o.len = n) (s i : Nat) (hsi : s ≤ i) (hi : i < n) :
    ∃ tmp o1 o2, o.get i = .ok tmp ∧ o.copySelf (s + 1) s i = .ok o1 ∧ o1.set s tmp = .ok o2 ∧
      o2.WF ∧ o2.len = n ∧ o2.data.size = o.data.size ∧
      o2.toList = moveFront o.toList s i := by
  unfold moveFront
  have hw' := hw; unfold Sl.WF at hw'
  obtain ⟨tmp, htmp, htmp'⟩ := Sl.get_ok_of_lt hw (show i < o.len by omega)
  obtain ⟨o1, hcopy⟩ : ∃ o1, o.copySelf (s + 1) s i = .ok o1 :=
    ⟨_, Sl.copySelf_eq_ok.2 ⟨⟨by omega, hsi, by omega⟩, rfl⟩⟩
  obtain ⟨l1, z1⟩ := Sl.copySelf_len hcopy
  have w1 : o1.WF := by unfold Sl.WF; omega
  obtain ⟨o2, hset⟩ : ∃ o2, o1.set s tmp = .ok o2 := ⟨_, Sl.set_ok_of_lt w1 (show s < o1.len by omega) tmp⟩
  have l2 := Sl.set_len hset
  have htl : o.toList.length = o.len := Sl.length_toList _ hw
  refine ⟨tmp, o1, o2, htmp, hcopy, hset, Sl.set_wf w1 hset, by omega,
    by rw [Sl.set_cap hset]; exact z1, ?_⟩
  have hD : o.toList.getD i 0 = tmp := by
    have : o.toList[i]? = some tmp := Sl.get_eq_toList.1 htmp
    rw [List.getD_eq_getElem?_getD, this]; rfl
  have hL : ∀ p, o2.toList[p]? = if p < o.len then (if p = s then some tmp else if s < p ∧ p ≤ i then o.data[p - 1]? else o.data[p]?) else none := by
    intro p
    rw [Sl.getElem?_toList, Sl.set_data hset, Sl.copySelf_data hw hcopy, l2, l1]
    by_cases hp : p < o.len
    · rw [if_pos hp, if_pos hp]
      by_cases hp2 : p = s
      · rw [if_pos hp2, if_pos hp2]
      · rw [if_neg hp2, if_neg hp2]
        by_cases hp3 : s < p ∧ p ≤ i
        · rw [if_pos hp3, if_pos (by omega)]; congr 1; omega
        · rw [if_neg hp3, if_neg (by omega)]
    · rw [if_neg hp, if_neg hp]
  apply List.ext_getElem?
  intro p
  rw [hL, hD]
  have e1 : (List.take s o.toList).length = s := by simp; omega
  by_cases hp1 : p < s
  · rw [List.getElem?_append_left (by omega), List.getElem?_take, if_pos hp1, Sl.getElem?_toList,
      if_pos (show p < o.len by omega), if_neg (show ¬ p = s by omega), if_neg (show ¬ (s < p ∧ p ≤ i) by omega),
      if_pos (show p < o.len by omega)]
  · rw [List.getElem?_append_right (by omega), e1]
    by_cases hp2 : p = s
    · subst hp2; rw [if_pos (show p < o.len by omega), if_pos rfl]; simp
    · rw [show p - s = (p - s - 1) + 1 by omega, List.getElem?_cons_succ]
      have e2 : (List.drop s (List.take i o.toList)).length = i - s := by simp; omega
      by_cases hp3 : p ≤ i
      · have hx : p - s - 1 < (List.drop s (List.take i o.toList)).length := by omega
        rw [List.getElem?_append_left hx, List.getElem?_drop, List.getElem?_take,
          if_pos (show s + (p - s - 1) < i by omega),
          Sl.getElem?_toList, if_pos (show s + (p - s - 1) < o.len by omega), if_pos (show p < o.len by omega),
          if_neg hp2, if_pos (show s < p ∧ p ≤ i by omega)]
        congr 1; omega
      · have hx : (List.drop s (List.take i o.toList)).length ≤ p - s - 1 := by omega
        rw [List.getElem?_append_right hx, e2, List.getElem?_drop, Sl.getElem?_toList, if_neg hp2]
        have e3 : i + 1 + (p - s - 1 - (i - s)) = p := by omega
        rw [e3, if_neg (show ¬ (s < p ∧ p ≤ i) by omega)]


/-- the part of `splitBin` after the `inCell` loop -/
def splitTail (nb : Nbrs) (cb fl : Sl Nat) (op : OP) (binNumber binStart : Nat) (order inCell : Sl Nat) :
    Outcome (Bool × OP) :=
  match insertAt op.binDividers binNumber (binStart + 1), insertAt op.binAges binNumber (op.age + 1) with
  | .ok bd, .ok ages =>
    match unionSl op.binsToCheck [(binNumber : Int), (binNumber : Int) + 1] with
    | .ok btc =>
      let op := { op with age := op.age + 1, order := order, inCell := inCell, binDividers := bd, binAges := ages,
                          binsToCheck := btc }
      if binNumber = op.spl then expandValue nb cb fl op else .ok (false, op)
    | .panic => .panic
    | .outOfFuel => .outOfFuel
  | _, _ => .panic

/-- the first half of `splitBin` (bin search, rearrangement of `order`, `inCell` loop) never panics -/
theorem splitBin_front {n : Nat} {nb : Nbrs} {cb fl : Sl Nat} {op : OP} {i : Nat} (h : PartInv n op) (hi : i < n) :
    ∃ order ic : Sl Nat,
      splitBin nb cb fl op i =
        splitTail nb cb fl op (binIdx op.binDividers.toList i) (binStartOf op.binDividers.toList i) order ic ∧
      order.WF ∧ order.len = n ∧ order.data.size = op.order.data.size ∧
      order.toList = moveFront op.order.toList (binStartOf op.binDividers.toList i) i ∧
      ic.WF ∧ ic.len = n ∧ ic.data.size = op.inCell.data.size ∧
      ∀ p v c, order.toList[p]? = some v → op.inCell.toList[v]? = some c →
        ic.toList[v]? = some (c + if binStartOf op.binDividers.toList i + 1 ≤ p then 1 else 0) := by
  have hs : op.binDividers.toList.Pairwise (· < ·) := (List.pairwise_cons.1 h.sorted).2
  have hb := binIdx_lt _ n i h.last hi
  have hsi := binStartOf_le _ hs i hb
  obtain ⟨d0, hd0, hfind⟩ := findBin_spec h hi
  have hbs := binStart_spec h hi
  obtain ⟨tmp, o1, o2, htmp, hcopy, hset, w2, l2, z2, e2⟩ :=
    moveFront_spec op.order h.wfOrder h.lenOrder (binStartOf op.binDividers.toList i) i hsi hi
  have hol : op.order.toList.length = n := by rw [Sl.length_toList _ h.wfOrder]; exact h.lenOrder
  have hperm : o2.toList.Perm (List.range n) := by
    rw [e2]; exact (moveFront_perm _ _ _ hsi (by omega)).trans h.perm
  obtain ⟨ic, hloop, wi, li, zi, hic⟩ := bumpLoop_spec o2 op.inCell w2 l2 hperm h.wfInCell h.lenInCell
    (binStartOf op.binDividers.toList i + 1) (by omega)
  rw [← l2] at hloop
  refine ⟨o2, ic, ?_, w2, l2, z2, e2, wi, li, zi, hic⟩
  simp only [splitBin, hd0, hfind, hbs, htmp, hcopy, hset, hloop]
  rfl


theorem binStartOf_mem (bd : List Nat) (i : Nat) (hb : binIdx bd i < bd.length) : binStartOf bd i ∈ 0 :: bd := by
  unfold binStartOf
  split
  · exact List.mem_cons_self ..
  · have hk : binIdx bd i - 1 < bd.length := by omega
    rw [getD_eq_getElem_split _ _ _ hk]
    exact List.mem_cons_of_mem _ (List.getElem_mem _)

/-- a bin with at least two elements leaves room for the new divider -/
theorem binStartOf_succ_lt (bd : List Nat) (hs : bd.Pairwise (· < ·)) (i : Nat) (hb : binIdx bd i < bd.length)
    (hns : NonSingleton bd i) : binStartOf bd i + 1 < bd[binIdx bd i] := by
  have h1 := binIdx_lt_div bd hs i hb
  have h2 := binStartOf_le bd hs i hb
  apply Nat.lt_of_not_le
  intro hc
  apply hns
  have e : i = binStartOf bd i := by omega
  constructor
  · rw [e]; exact binStartOf_mem bd i hb
  · have : i + 1 = bd[binIdx bd i] := by omega
    rw [this]; exact List.getElem_mem _

theorem filter_divs_insert (bd : List Nat) (ages : List Int) (b x : Nat) (age : Int) (hl : ages.length = bd.length)
    (hle : ∀ a ∈ ages, a ≤ age) :
    ((bd.take b ++ x :: bd.drop b).zip (ages.take b ++ (age + 1) :: ages.drop b)).filter
      (fun y => decide (y.2 ≠ age + 1)) = bd.zip ages := by
  have hne : ∀ y ∈ bd.zip ages, decide (y.2 ≠ age + 1) = true := by
    intro y hy
    have := hle y.2 (List.of_mem_zip hy).2
    simp; omega
  rw [List.zip_append (by simp [hl]), List.zip_cons_cons, List.filter_append, List.filter_cons]
  simp only [ne_eq, not_true_eq_false, decide_false, Bool.false_eq_true, if_false]
  have e1 : (List.take b bd).zip (List.take b ages) = (bd.zip ages).take b := (List.take_zipWith ..).symm
  have e2 : (List.drop b bd).zip (List.drop b ages) = (bd.zip ages).drop b := (List.drop_zipWith ..).symm
  rw [e1, e2, List.filter_eq_self.2, List.filter_eq_self.2, List.take_append_drop]
  · intro y hy; exact hne y (List.mem_of_mem_drop hy)
  · intro y hy; exact hne y (List.mem_of_mem_take hy)

/-- the partition step of `splitBin` re-establishes the invariants -/
theorem partStep_inv {n : Nat} {op op1 : OP} {i : Nat} (h : PartInv n op) (ha : AgeInv op) (hi : i < n)
    (hns : NonSingleton op.binDividers.toList i)
    (wo : op1.order.WF) (lo : op1.order.len = n)
    (eo : op1.order.toList = moveFront op.order.toList (binStartOf op.binDividers.toList i) i)
    (wi : op1.inCell.WF) (li : op1.inCell.len = n)
    (hic : ∀ p v c, op1.order.toList[p]? = some v → op.inCell.toList[v]? = some c →
        op1.inCell.toList[v]? = some (c + if binStartOf op.binDividers.toList i + 1 ≤ p then 1 else 0))
    (wb : op1.binDividers.WF) (wa : op1.binAges.WF) (la : op1.binAges.len = op1.binDividers.len)
    (eb : op1.binDividers.toList = op.binDividers.toList.take (binIdx op.binDividers.toList i) ++
      (binStartOf op.binDividers.toList i + 1) :: op.binDividers.toList.drop (binIdx op.binDividers.toList i))
    (ea : op1.binAges.toList = op.binAges.toList.take (binIdx op.binDividers.toList i) ++
      (op.age + 1) :: op.binAges.toList.drop (binIdx op.binDividers.toList i))
    (eage : op1.age = op.age + 1) :
    PartInv n op1 ∧ AgeInv op1 ∧ (divs op1).filter (fun x => decide (x.2 ≠ op.age + 1)) = divs op := by
  have hs : op.binDividers.toList.Pairwise (· < ·) := (List.pairwise_cons.1 h.sorted).2
  have hb := binIdx_lt _ n i h.last hi
  have hsi := binStartOf_le _ hs i hb
  have hol : op.order.toList.length = n := by rw [Sl.length_toList _ h.wfOrder]; exact h.lenOrder
  have hal : op.binAges.toList.length = op.binDividers.toList.length := by
    rw [Sl.length_toList _ h.wfAges, Sl.length_toList _ h.wfBd]; exact h.lenAges
  refine ⟨⟨wo, wb, wa, wi, lo, li, la, ?_, ?_, ?_, ?_⟩, ⟨?_, ?_⟩, ?_⟩
  · rw [eo]; exact (moveFront_perm _ _ _ hsi (by omega)).trans h.perm
  · rw [eb]
    exact sorted_insert _ _ 0 h.sorted hb (binStartOf_succ_lt _ hs i hb hns)
  · rw [eb, getLast?_insert _ _ _ hb]; exact h.last
  · intro p v hv
    rw [eo] at hv
    obtain ⟨q, hq, hqp⟩ := moveFront_src _ _ _ hsi (by omega) p v hv
    have hc := h.inCell q v hq
    rw [← eo] at hv
    rw [hic p v _ hv hc, eb, binIdx_insert]
    rcases hqp with rfl | ⟨q1, q2, p1, p2⟩
    · rfl
    · rw [binIdx_eq_of_mem_bin _ hs i q hb q1 q2, binIdx_eq_of_mem_bin _ hs i p hb p1 p2]
  · intro a hm
    rw [ea] at hm
    rw [eage]
    rcases List.mem_append.1 hm with hm | hm
    · have := ha.le a (List.mem_of_mem_take hm); omega
    · rcases List.mem_cons.1 hm with rfl | hm
      · omega
      · have := ha.le a (List.mem_of_mem_drop hm); omega
  · rw [ea, getLast?_insert _ _ _ (by omega)]; exact ha.last
  · unfold divs
    rw [eb, ea]
    exact filter_divs_insert _ _ _ _ _ hal ha.le


/-- decomposition: the partition step (result `op1`, `value`/`spl` untouched) followed by `expandValue` iff `b = spl` -/
theorem splitBin_decomp {n : Nat} {nb : Nbrs} {cb fl : Sl Nat} {op op' : OP} {i : Nat} {w : Bool}
    (h : PartInv n op) (ha : AgeInv op) (hi : i < n) (hns : NonSingleton op.binDividers.toList i)
    (hs : splitBin nb cb fl op i = .ok (w, op')) :
    ∃ op1 : OP,
      PartInv n op1 ∧ AgeInv op1 ∧ op1.age = op.age + 1 ∧ op1.value = op.value ∧ op1.spl = op.spl ∧
      (divs op1).filter (fun x => decide (x.2 ≠ op.age + 1)) = divs op ∧
      op1.binDividers.toList =
        (let bd := op.binDividers.toList; let b := binIdx bd i
         bd.take b ++ ((if b = 0 then 0 else bd.getD (b - 1) 0) + 1) :: bd.drop b) ∧
      op1.order.toList =
        (let bd := op.binDividers.toList; let b := binIdx bd i; let start := if b = 0 then 0 else bd.getD (b - 1) 0
         let o := op.order.toList
         o.take start ++ o.getD i 0 :: ((o.take i).drop start ++ o.drop (i + 1))) ∧
      op1.order.data.size = op.order.data.size ∧ op1.inCell.data.size = op.inCell.data.size ∧
      op1.binDividers.data.size = op.binDividers.data.size ∧ op1.binAges.data.size = op.binAges.data.size ∧
      (if binIdx op.binDividers.toList i = op.spl then expandValue nb cb fl op1 = .ok (w, op') else (w = false ∧ op' = op1)) := by
  obtain ⟨order, ic, hfront, wo, lo, zo, eo, wi, li, zi, hic⟩ := splitBin_front (nb := nb) (cb := cb) (fl := fl) h hi
  rw [hfront] at hs
  unfold splitTail at hs
  cases hbd : insertAt op.binDividers (binIdx op.binDividers.toList i) (binStartOf op.binDividers.toList i + 1) with
  | ok bd' =>
    cases hag : insertAt op.binAges (binIdx op.binDividers.toList i) (op.age + 1) with
    | ok ages' =>
      rw [hbd, hag] at hs
      simp only at hs
      cases hbt : unionSl op.binsToCheck [(binIdx op.binDividers.toList i : Int), (binIdx op.binDividers.toList i : Int) + 1] with
      | ok btc =>
        rw [hbt] at hs
        simp only at hs
        obtain ⟨_, cb1, lb, zb, eb, _⟩ := Sl.insertAt_spec h.wfBd hbd
        obtain ⟨_, ca1, la, za, ea, _⟩ := Sl.insertAt_spec h.wfAges hag
        have hwb := h.wfBd; have hwa := h.wfAges
        unfold Sl.WF at hwb hwa
        have hlen := h.lenAges
        obtain ⟨hP, hA, hD⟩ := partStep_inv
          (op1 := { op with age := op.age + 1, order := order, inCell := ic, binDividers := bd', binAges := ages',
                            binsToCheck := btc })
          h ha hi hns wo lo eo wi li hic (by show bd'.len ≤ bd'.data.size; omega)
          (by show ages'.len ≤ ages'.data.size; omega) (by show ages'.len = bd'.len; omega) eb ea rfl
        refine ⟨_, hP, hA, rfl, rfl, rfl, hD, eb, eo, zo, zi, zb, za, ?_⟩
        by_cases hsp : binIdx op.binDividers.toList i = op.spl
        · rw [if_pos hsp] at hs ⊢
          exact hs
        · rw [if_neg hsp] at hs ⊢
          simp only [Outcome.ok.injEq, Prod.mk.injEq] at hs
          exact ⟨hs.1.symm, hs.2.symm⟩
      | panic => rw [hbt] at hs; simp at hs
      | outOfFuel => rw [hbt] at hs; simp at hs
    | panic => rw [hbd, hag] at hs; simp at hs
    | outOfFuel => rw [hbd, hag] at hs; simp at hs
  | panic => rw [hbd] at hs; simp at hs
  | outOfFuel => rw [hbd] at hs; simp at hs

theorem splitBin_inv {n : Nat} {nb : Nbrs} {cb fl : Sl Nat} {op op' : OP} {i : Nat} {w : Bool}
    (h : PartInv n op) (ha : AgeInv op) (hi : i < n) (hns : NonSingleton op.binDividers.toList i)
    (hs : splitBin nb cb fl op i = .ok (w, op')) :
    PartInv n op' ∧ AgeInv op' ∧ op'.age = op.age + 1 ∧
      (divs op').filter (fun x => decide (x.2 ≠ op.age + 1)) = divs op ∧
      (∀ p, binIdx op.binDividers.toList p < binIdx op.binDividers.toList i → op'.order.toList[p]? = op.order.toList[p]?) := by
  obtain ⟨op1, hP, hA, hage, _, _, hD, _, eo, _, _, _, _, hlast⟩ := splitBin_decomp h ha hi hns hs
  have hbs : op.binDividers.toList.Pairwise (· < ·) := (List.pairwise_cons.1 h.sorted).2
  have hb := binIdx_lt _ n i h.last hi
  have hsi := binStartOf_le _ hbs i hb
  have hol : op.order.toList.length = n := by rw [Sl.length_toList _ h.wfOrder]; exact h.lenOrder
  have hord : ∀ p, binIdx op.binDividers.toList p < binIdx op.binDividers.toList i →
      op1.order.toList[p]? = op.order.toList[p]? := by
    intro p hp
    have := lt_binStartOf_of_binIdx_lt _ hbs i p hb hp
    have e : op1.order.toList = moveFront op.order.toList (binStartOf op.binDividers.toList i) i := eo
    rw [e]
    exact moveFront_lt _ _ _ hsi (by omega) p this
  by_cases hsp : binIdx op.binDividers.toList i = op.spl
  · rw [if_pos hsp] at hlast
    obtain ⟨e1, e2, e3, e4, e5, e6⟩ := expandValue_frame hlast
    refine ⟨hP.of_frame e1 e2 e3 e6, hA.of_frame e3 e5, by rw [e5, hage], ?_, ?_⟩
    · unfold divs at hD ⊢; rw [e2, e3]; exact hD
    · rw [e1]; exact hord
  · rw [if_neg hsp] at hlast
    obtain ⟨_, rfl⟩ := hlast
    exact ⟨hP, hA, hage, hD, hord⟩


/-! ## absence of panics of the partition step -/

/-- the work list: strictly increasing, entries are bin indices -/
structure BtcInv (op : OP) : Prop where
  wf : op.binsToCheck.WF
  sorted : op.binsToCheck.toList.Pairwise (· < ·)
  range : ∀ x ∈ op.binsToCheck.toList, 0 ≤ x ∧ x < (op.binDividers.len : Int)

theorem insertAt_total {α : Type} {s : Sl α} {b : Nat} (v : α) (hb : b ≤ s.len) (hc : s.len + 1 ≤ s.data.size) :
    ∃ s', insertAt s b v = .ok s' := by
  have h1 : s.reslice (s.len + 1) = .ok ⟨s.data, s.len + 1⟩ := Sl.reslice_eq_ok.2 ⟨hc, rfl⟩
  obtain ⟨s2, h2⟩ : ∃ s2, (⟨s.data, s.len + 1⟩ : Sl α).copySelf (b + 1) b (s.len + 1) = .ok s2 :=
    ⟨_, Sl.copySelf_eq_ok.2 ⟨⟨by show b + 1 ≤ s.len + 1; omega, by omega, hc⟩, rfl⟩⟩
  obtain ⟨l2, z2⟩ := Sl.copySelf_len h2
  have l2' : s2.len = s.len + 1 := l2
  have z2' : s2.data.size = s.data.size := z2
  have h3 : s2.set b v = .ok ⟨s2.data.setIfInBounds b v, s2.len⟩ :=
    Sl.set_eq_ok.2 ⟨⟨by omega, by omega⟩, rfl⟩
  refine ⟨⟨s2.data.setIfInBounds b v, s2.len⟩, ?_⟩
  simp only [insertAt, h1, h2, h3]

/-- a strictly increasing list of integers from `[lo, m)` has at most `m - lo` entries -/
theorem ss_length_le (m : Int) : ∀ (l : List Int) (lo : Int), l.Pairwise (· < ·) → (∀ x ∈ l, lo ≤ x ∧ x < m) → lo ≤ m →
    (l.length : Int) ≤ m - lo := by
  intro l
  induction l with
  | nil => intro lo _ _ h; simp; omega
  | cons x xs ih =>
    intro lo hp hr hlo
    rw [List.pairwise_cons] at hp
    have hx := hr x (List.mem_cons_self ..)
    have := ih (x + 1) hp.2 (by
      intro y hy
      have h1 := hp.1 y hy
      have h2 := hr y (List.mem_cons_of_mem _ hy)
      omega) (by omega)
    simp only [List.length_cons]
    omega

theorem unionSl_spec (s : Sl Int) (b : List Int) (hs : s.toList.Pairwise (· < ·)) (hb : b.Pairwise (· < ·)) :
    ∃ s', unionSl s b = .ok s' ∧ s'.WF ∧ s'.toList = SortInts.union s.toList b ∧
      ((SortInts.union s.toList b).length ≤ s.data.size → s'.data.size = s.data.size) := by
  have hu := SortInts.unionM_result s.toList (s.data.toList.drop s.len) b hs hb
  unfold unionSl
  rw [hu]
  simp only
  by_cases hc : (SortInts.union s.toList b).length ≤ s.data.size
  · rw [if_pos hc]
    refine ⟨_, rfl, ?_, ?_, ?_⟩
    · simp [Sl.WF]
    · simp [Sl.toList]
    · intro _; simp; omega
  · rw [if_neg hc]
    refine ⟨_, rfl, ?_, ?_, ?_⟩
    · simp [Sl.WF]
    · simp [Sl.toList]
    · intro h; exact absurd h hc

/-- absence of panics of the partition step of `splitBin`; the `expandValue` call is excluded
(hypothesis `binIdx bd i ≠ op.spl`) -/
theorem splitBin_no_panic_partial {n : Nat} {nb : Nbrs} {cb fl : Sl Nat} {op : OP} {i : Nat}
    (h : PartInv n op) (ha : AgeInv op) (hbt : BtcInv op) (hi : i < n) (hns : NonSingleton op.binDividers.toList i)
    (c1 : op.binDividers.len + 1 ≤ op.binDividers.data.size) (c2 : op.binAges.len + 1 ≤ op.binAges.data.size)
    (c3 : op.binDividers.len + 1 ≤ op.binsToCheck.data.size)
    (hsp : binIdx op.binDividers.toList i ≠ op.spl) :
    ∃ op', splitBin nb cb fl op i = .ok (false, op') ∧ BtcInv op' ∧
      op'.binsToCheck.data.size = op.binsToCheck.data.size ∧
      op'.binsToCheck.toList = SortInts.union op.binsToCheck.toList
        [(binIdx op.binDividers.toList i : Int), (binIdx op.binDividers.toList i : Int) + 1] ∧
      op'.binDividers.len = op.binDividers.len + 1 ∧ op'.binAges.len = op.binAges.len + 1 ∧
      op'.value = op.value ∧ op'.spl = op.spl ∧ PartInv n op' ∧ AgeInv op' := by
  obtain ⟨order, ic, hfront, -⟩ := splitBin_front (nb := nb) (cb := cb) (fl := fl) h hi
  have hb := binIdx_lt _ n i h.last hi
  rw [Sl.length_toList _ h.wfBd] at hb
  obtain ⟨bd', hbd⟩ := insertAt_total (s := op.binDividers) (b := binIdx op.binDividers.toList i)
    (binStartOf op.binDividers.toList i + 1) (by omega) c1
  obtain ⟨ages', hag⟩ := insertAt_total (s := op.binAges) (b := binIdx op.binDividers.toList i)
    (op.age + 1) (by have := h.lenAges; omega) c2
  have hsb : ([(binIdx op.binDividers.toList i : Int), (binIdx op.binDividers.toList i : Int) + 1]).Pairwise (· < ·) := by
    simp
  obtain ⟨btc, hun, wbtc, ebtc, zbtc⟩ := unionSl_spec op.binsToCheck _ hbt.sorted hsb
  obtain ⟨_, _, lb, _⟩ := Sl.insertAt_spec h.wfBd hbd
  obtain ⟨_, _, la, _⟩ := Sl.insertAt_spec h.wfAges hag
  have hrange : ∀ x ∈ btc.toList, 0 ≤ x ∧ x < ((op.binDividers.len + 1 : Nat) : Int) := by
    intro x hx
    rw [ebtc, SortInts.mem_union] at hx
    rcases hx with hx | hx
    · have := hbt.range x hx; omega
    · simp at hx; omega
  have hsorted : btc.toList.Pairwise (· < ·) := by
    rw [ebtc]; exact SortInts.union_sorted _ _ hbt.sorted hsb
  have hlen : (SortInts.union op.binsToCheck.toList
      [(binIdx op.binDividers.toList i : Int), (binIdx op.binDividers.toList i : Int) + 1]).length ≤
      op.binsToCheck.data.size := by
    have := ss_length_le ((op.binDividers.len + 1 : Nat) : Int) btc.toList 0 hsorted hrange (by omega)
    rw [ebtc] at this
    omega
  have hres : splitBin nb cb fl op i = .ok (false,
      { op with age := op.age + 1, order := order, inCell := ic, binDividers := bd', binAges := ages',
                binsToCheck := btc }) := by
    rw [hfront]
    unfold splitTail
    simp only [hbd, hag, hun]
    rw [if_neg hsp]
  obtain ⟨hP, hA, _⟩ := splitBin_inv h ha hi hns hres
  refine ⟨_, hres, ⟨wbtc, hsorted, ?_⟩, zbtc hlen, ebtc, lb, la, rfl, rfl, hP, hA⟩
  intro x hx
  have := hrange x hx
  show 0 ≤ x ∧ x < (bd'.len : Int)
  rw [lb]; exact this

end CanonF
