import Mamba.Lemmas.ExactSpecs
namespace Search
open GraphSpec GSearch Orderly

variable (O : Oracle) (n : Nat) (pre : DG → Bool)

/-- the accepted, unpruned child for the neighbour mask `x`, if any -/
def kidOf (g : DG) (x : Nat) : Option (DG × Option Ans) :=
  match g.addVertex (bitsOf x) with
  | .ok g2 =>
    if pre g2 then none
    else
      match isCanonical O n g2 (bitsOf x) none with
      | .ok (c, true) => some (g2, c)
      | _ => none
  | _ => none

def accKids (g : DG) (xs : List Nat) : List (DG × Option Ans) := xs.filterMap (kidOf O n pre g)

theorem kidOf_some {g g2 : DG} {x : Nat} {c : Option Ans} (h : kidOf O n pre g x = some (g2, c)) :
    AccK O n g x g2 c ∧ pre g2 = false := by
  unfold kidOf at h
  split at h
  · rename_i g2' hadd
    split at h
    · cases h
    · rename_i hpre
      split at h
      · rename_i c' hcan
        cases h
        exact ⟨⟨hadd, hcan⟩, by simpa using hpre⟩
      · cases h
  · cases h

/-- the unsharded children loop lists, in order, the subtrees of the accepted children; every choice was evaluated -/
theorem subKids_acc (node : DG → Option Ans → Outcome (List DG)) (g : DG) :
    ∀ (xs : List Nat) (i : Nat) (r : List DG), xs.length ≤ i →
      subKids O pre noPrune n (skipAM n 0 1) node g xs i = .ok r →
      r = (accKids O n pre g xs).flatMap (fun z => outs (node z.1 z.2)) ∧
      (∀ z ∈ accKids O n pre g xs, ∃ o, node z.1 z.2 = .ok o) ∧
      (∀ x ∈ xs, ∃ g2, g.addVertex (bitsOf x) = .ok g2 ∧
        (pre g2 = true ∨ ∃ c b, isCanonical O n g2 (bitsOf x) none = .ok (c, b)))
  | [], _, r, _, h => by
    simp only [subKids] at h; cases h
    simp [accKids]
  | x :: xs, 0, r, hl, _ => by simp at hl
  | x :: xs, i + 1, r, hl, h => by
    have hl' : xs.length ≤ i := by simpa using hl
    simp only [subKids, skip_one, Bool.false_eq_true, if_false] at h
    cases hadd : g.addVertex (bitsOf x) with
    | panic => simp [hadd] at h
    | outOfFuel => simp [hadd] at h
    | ok g2 =>
      simp only [hadd] at h
      by_cases hpre : pre g2 = true
      · simp only [hpre, if_true] at h
        obtain ⟨h1, h2, h3⟩ := subKids_acc node g xs i r hl' h
        have hk : kidOf O n pre g x = none := by simp [kidOf, hadd, hpre]
        refine ⟨by simpa [accKids, hk] using h1, by simpa [accKids, hk] using h2, ?_⟩
        intro y hy
        rcases List.mem_cons.1 hy with rfl | hy
        · exact ⟨g2, hadd, Or.inl hpre⟩
        · exact h3 y hy
      · have hpre' : pre g2 = false := by simpa using hpre
        simp only [hpre', Bool.false_eq_true, if_false] at h
        cases hcan : isCanonical O n g2 (bitsOf x) none with
        | panic => simp [hcan] at h
        | outOfFuel => simp [hcan] at h
        | ok p =>
          obtain ⟨c, canon⟩ := p
          simp only [hcan, noPrune, Bool.not_false, Bool.and_true] at h
          have hev : ∀ y ∈ x :: xs, (∀ y ∈ xs, ∃ g2, g.addVertex (bitsOf y) = .ok g2 ∧
              (pre g2 = true ∨ ∃ c b, isCanonical O n g2 (bitsOf y) none = .ok (c, b))) →
              ∃ g2, g.addVertex (bitsOf y) = .ok g2 ∧
              (pre g2 = true ∨ ∃ c b, isCanonical O n g2 (bitsOf y) none = .ok (c, b)) := by
            intro y hy h3
            rcases List.mem_cons.1 hy with rfl | hy
            · exact ⟨g2, hadd, Or.inr ⟨c, canon, hcan⟩⟩
            · exact h3 y hy
          cases canon with
          | false =>
            simp only [Bool.false_eq_true, if_false] at h
            obtain ⟨h1, h2, h3⟩ := subKids_acc node g xs i r hl' h
            have hk : kidOf O n pre g x = none := by simp [kidOf, hadd, hpre', hcan]
            exact ⟨by simpa [accKids, hk] using h1, by simpa [accKids, hk] using h2, fun y hy => hev y hy h3⟩
          | true =>
            simp only [if_true] at h
            have hk : kidOf O n pre g x = some (g2, c) := by simp [kidOf, hadd, hpre', hcan]
            cases hnode : node g2 c with
            | panic => simp [hnode] at h
            | outOfFuel => simp [hnode] at h
            | ok o1 =>
              simp only [hnode] at h
              cases hrest : subKids O pre noPrune n (skipAM n 0 1) node g xs i with
              | panic => simp [hrest] at h
              | outOfFuel => simp [hrest] at h
              | ok o2 =>
                simp only [hrest, Outcome.ok.injEq] at h
                obtain ⟨h1, h2, h3⟩ := subKids_acc node g xs i o2 hl' hrest
                refine ⟨?_, ?_, fun y hy => hev y hy h3⟩
                · simp only [accKids, List.filterMap_cons, hk, List.flatMap_cons, hnode, outs]
                  rw [← h, h1]; rfl
                · intro z hz
                  simp only [accKids, List.filterMap_cons, hk, List.mem_cons] at hz
                  rcases hz with rfl | hz
                  · exact ⟨o1, hnode⟩
                  · exact h2 z hz

end Search
