import Mamba.Model.Comb
import Mathlib.Data.Nat.Choose.Basic
import Mathlib.Tactic.Ring
import Mathlib.Tactic.Linarith
/-!
# Lemmas for C16, part 1: the multiplicative formula and the generated tables

`chooseMul d j = C(d+j, j)` evaluated by multiply-then-divide over unbounded naturals: this is what the kernel
evaluates in the closed facts about `Gen.Comb.maxSizes` / `Gen.Comb.smallEntries` (`Nat.choose` itself is
exponential by unfolding).
-/
namespace Comb
open Gen.Comb

theorem W_eq : W = 2^64 := by decide

/-- `C(d+j, j)` by the product formula, without wrap-around. -/
def chooseMul (d : Nat) : Nat → Nat
  | 0 => 1
  | j+1 => chooseMul d j * (d + j + 1) / (j + 1)

theorem chooseMul_eq (d j : Nat) : chooseMul d j = Nat.choose (d + j) j := by
  induction j with
  | zero => simp [chooseMul]
  | succ j ih =>
    have h := Nat.add_one_mul_choose_eq (d + j) j
    rw [chooseMul, ih, Nat.mul_comm, h]
    exact Nat.mul_div_cancel _ (Nat.succ_pos j)

/-- `C(d+a, a)` is monotone in `a`. -/
theorem choose_add_mono (d : Nat) {a b : Nat} (h : a ≤ b) : Nat.choose (d + a) a ≤ Nat.choose (d + b) b := by
  have ha : Nat.choose (d + a) a = Nat.choose (d + a) d := by
    rw [← Nat.choose_symm_add]
  have hb : Nat.choose (d + b) b = Nat.choose (d + b) d := by
    rw [← Nat.choose_symm_add]
  rw [ha, hb]
  exact Nat.choose_le_choose d (by omega)

/-- The Go loop computes `C(d+k, k)` exactly as long as `k * C(d+k, k)` fits in 64 bits. -/
theorem coeffLoop_eq (d k : Nat) (hn : d + k < W) (hfit : k * Nat.choose (d + k) k < W) :
    ∀ s j, j + s = k → coeffLoop (d + k) k s (j + 1) (Nat.choose (d + j) j) = Nat.choose (d + k) k := by
  intro s
  induction s with
  | zero => intro j hj; simp at hj; subst hj; simp [coeffLoop]
  | succ s ih =>
    intro j hj
    have hjk : j + 1 ≤ k := by omega
    have hmono : Nat.choose (d + (j + 1)) (j + 1) ≤ Nat.choose (d + k) k := choose_add_mono d hjk
    have hstep : Nat.choose (d + j) j * (d + j + 1) = Nat.choose (d + (j + 1)) (j + 1) * (j + 1) := by
      have h := Nat.add_one_mul_choose_eq (d + j) j
      rw [Nat.mul_comm]; exact h
    have hle : Nat.choose (d + (j + 1)) (j + 1) * (j + 1) ≤ k * Nat.choose (d + k) k := by
      rw [Nat.mul_comm]; exact Nat.mul_le_mul hjk hmono
    have e1 : d + k - k + (j + 1) = d + j + 1 := by omega
    have e2 : (d + j + 1) % W = d + j + 1 := Nat.mod_eq_of_lt (by omega)
    have e3 : (Nat.choose (d + (j + 1)) (j + 1) * (j + 1)) % W = Nat.choose (d + (j + 1)) (j + 1) * (j + 1) :=
      Nat.mod_eq_of_lt (by omega)
    rw [coeffLoop, e1, e2, hstep, e3, Nat.mul_div_cancel _ (Nat.succ_pos j)]
    exact ih (j + 1) (by omega)

/-! ## Closed facts about the generated tables (re-checked by the kernel on every run) -/

/-- entry `k` of `maxSizes` is exactly the largest `n` with `k * C(n,k) < 2^64`. -/
def thrOK (k : Nat) : Bool :=
  match maxSizes[k]? with
  | some m => decide (k ≤ m) && decide (k * chooseMul (m - k) k < W) && !decide (k * chooseMul (m + 1 - k) k < W)
  | none => false

/-- entry `[n][k]` of `smallEntries` is `C(n,k)`. -/
def entryOK (n k : Nat) : Bool :=
  match smallEntries[n]? with
  | some row =>
    match row[k]? with
    | some v => decide (v = chooseMul (n - k) k)
    | none => false
  | none => false

theorem largestK_ge : 31 ≤ largestK := by decide

theorem maxInt_eq : maxInt = 2^63 - 1 := by decide

theorem thr_all : ∀ k, k < largestK + 1 → (k = 0 ∨ thrOK k = true) := by decide

theorem entry_all : ∀ n, n < 33 → ∀ k, k < n / 2 + 1 → entryOK n k = true := by decide

theorem big_32 : W ≤ 32 * chooseMul 32 32 := by decide

/-! ## `CoeffUint64` -/

theorem thr_spec {k m : Nat} (hk1 : 1 ≤ k) (hkL : k ≤ largestK) (hm : maxSizes[k]? = some m) :
    k ≤ m ∧ k * Nat.choose m k < W ∧ W ≤ k * Nat.choose (m + 1) k := by
  rcases thr_all k (by omega) with h | h
  · omega
  · unfold thrOK at h
    rw [hm] at h
    simp only [Bool.and_eq_true, decide_eq_true_eq, Bool.not_eq_true', decide_eq_false_iff_not, not_lt] at h
    obtain ⟨⟨h1, h2⟩, h3⟩ := h
    rw [chooseMul_eq] at h2 h3
    rw [Nat.sub_add_cancel h1] at h2
    rw [show m + 1 - k + k = m + 1 by omega] at h3
    exact ⟨h1, h2, h3⟩

theorem thr_some {k : Nat} (hk1 : 1 ≤ k) (hkL : k ≤ largestK) : ∃ m, maxSizes[k]? = some m := by
  rcases thr_all k (by omega) with h | h
  · omega
  · unfold thrOK at h
    cases hm : maxSizes[k]? with
    | none => rw [hm] at h; simp at h
    | some m => exact ⟨m, rfl⟩

theorem entry_spec {n k : Nat} (hn : n ≤ 32) (hk : k ≤ n / 2) :
    ∃ row, smallEntries[n]? = some row ∧ row[k]? = some (Nat.choose n k) := by
  have h := entry_all n (by omega) k (by omega)
  unfold entryOK at h
  cases hr : smallEntries[n]? with
  | none => rw [hr] at h; simp at h
  | some row =>
    rw [hr] at h
    dsimp only at h
    cases hv : row[k]? with
    | none => rw [hv] at h; simp at h
    | some v =>
      rw [hv] at h
      simp only [decide_eq_true_eq] at h
      rw [chooseMul_eq, Nat.sub_add_cancel (by omega)] at h
      exact ⟨row, rfl, by rw [hv, h]⟩

/-- the reduced lower index `min(k, n-k)` as the code computes it -/
def kred (n k : Nat) : Nat := if k > n / 2 then n - k else k

theorem kred_le_half {n k : Nat} (h : k ≤ n) : kred n k ≤ n / 2 := by unfold kred; split <;> omega
theorem kred_eq_min {n k : Nat} (h : k ≤ n) : kred n k = min k (n - k) := by unfold kred; split <;> omega
theorem choose_kred {n k : Nat} (h : k ≤ n) : Nat.choose n (kred n k) = Nat.choose n k := by
  unfold kred; split
  · exact Nat.choose_symm h
  · rfl

/-- `C(n,·)` is non-decreasing up to the middle. -/
theorem choose_mono_half {n a b : Nat} (hab : a ≤ b) (hb : b ≤ n / 2) : Nat.choose n a ≤ Nat.choose n b := by
  induction b with
  | zero => have : a = 0 := by omega
            subst this; exact le_refl _
  | succ b ih =>
    rcases Nat.lt_or_ge a (b + 1) with h | h
    · exact le_trans (ih (by omega) (by omega)) (Nat.choose_le_succ_of_lt_half_left (by omega))
    · have : a = b + 1 := by omega
      subst this; exact le_refl _

theorem coeffU64_unfold (n k : Nat) (hkn : k ≤ n) :
    coeffU64 n k =
      if kred n k = 0 then .ok 1
      else if n ≤ 32 then
        match smallEntries[n]? with
        | none => .panic
        | some row =>
          match row[kred n k]? with
          | none => .panic
          | some v => .ok v
      else if kred n k > largestK then .panic
      else
        match maxSizes[kred n k]? with
        | none => .panic
        | some m => if n > m then .panic else .ok (coeffLoop n (kred n k) (kred n k) 1 1) := by
  unfold coeffU64 kred
  rw [if_neg (by omega)]
  rfl

theorem coeffU64_exact_or_panic' (n k v : Nat) (hn : n < W)
    (h : coeffU64 n k = .ok v) : v = Nat.choose n k := by
  rcases Nat.lt_or_ge n k with hkn | hkn
  · unfold coeffU64 at h
    rw [if_pos hkn] at h
    rw [Nat.choose_eq_zero_of_lt hkn]
    exact (Outcome.ok.inj h).symm
  · rw [coeffU64_unfold n k hkn] at h
    rw [← choose_kred hkn]
    have hk2 := kred_le_half hkn
    generalize kred n k = k' at *
    split at h
    · next h0 => subst h0; simp at h; simp [h]
    · next h0 =>
      split at h
      · next h32 =>
        obtain ⟨row, hr, hv⟩ := entry_spec h32 hk2
        rw [hr] at h; simp only [hv] at h
        exact (Outcome.ok.inj h).symm
      · next h32 =>
        split at h
        · cases h
        · next hL =>
          obtain ⟨m, hm⟩ := thr_some (Nat.pos_of_ne_zero h0) (by omega)
          rw [hm] at h; simp only at h
          obtain ⟨h1, h2, h3⟩ := thr_spec (Nat.pos_of_ne_zero h0) (by omega) hm
          split at h
          · cases h
          · next hnm =>
            have hle : Nat.choose n k' ≤ Nat.choose m k' := Nat.choose_le_choose k' (by omega)
            have hfit : k' * Nat.choose n k' < W := lt_of_le_of_lt (Nat.mul_le_mul_left k' hle) h2
            have hk'n : k' ≤ n := by omega
            obtain ⟨d, rfl⟩ : ∃ d, n = d + k' := ⟨n - k', by omega⟩
            have := coeffLoop_eq d k' hn hfit k' 0 (by omega)
            simp only [Nat.zero_add, Nat.add_zero, Nat.choose_zero_right] at this
            rw [this] at h
            exact (Outcome.ok.inj h).symm

theorem coeffU64_returns_when_fits' (n k : Nat) (hkn : k ≤ n)
    (hfit : min k (n - k) * Nat.choose n k < W) : ∃ v, coeffU64 n k = .ok v := by
  rw [coeffU64_unfold n k hkn]
  rw [← kred_eq_min hkn, ← choose_kred hkn] at hfit
  have hk2 := kred_le_half hkn
  generalize kred n k = k' at *
  split
  · exact ⟨_, rfl⟩
  · next h0 =>
    split
    · next h32 =>
      obtain ⟨row, hr, hv⟩ := entry_spec h32 hk2
      rw [hr]; simp only [hv]; exact ⟨_, rfl⟩
    · next h32 =>
      have hbig : ¬ k' > largestK := by
        intro hL
        have hL' := largestK_ge
        have h1 : Nat.choose n 32 ≤ Nat.choose n k' := choose_mono_half (by omega) hk2
        have h2 : Nat.choose 64 32 ≤ Nat.choose n 32 := Nat.choose_le_choose 32 (by omega)
        have h3 : W ≤ 32 * Nat.choose 64 32 := by
          have := big_32
          rwa [chooseMul_eq] at this
        have : 32 * Nat.choose 64 32 ≤ k' * Nat.choose n k' := Nat.mul_le_mul (by omega) (le_trans h2 h1)
        omega
      rw [if_neg hbig]
      obtain ⟨m, hm⟩ := thr_some (Nat.pos_of_ne_zero h0) (by omega)
      obtain ⟨h1, h2, h3⟩ := thr_spec (Nat.pos_of_ne_zero h0) (by omega) hm
      rw [hm]; simp only
      have hnm : ¬ n > m := by
        intro hnm
        have : Nat.choose (m + 1) k' ≤ Nat.choose n k' := Nat.choose_le_choose k' (by omega)
        have := Nat.mul_le_mul_left k' this
        omega
      rw [if_neg hnm]
      exact ⟨_, rfl⟩

end Comb
