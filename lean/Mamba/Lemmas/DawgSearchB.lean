import Mamba.Model.DawgSearch
/-!
# C13 helper lemmas, part B: the explicit-stack loop of `Search` computes the recursive search

No assumption on the searchers: the two versions call the interface functions in the same order, so they agree
on every outcome (including a panicking searcher), provided the fuel covers the at most `2 * size` iterations.
-/
namespace DawgSearch

theorem Outcome_bind_pure {α : Type} (x : Outcome α) : (x >>= fun a => pure a) = x := by
  cases x <;> rfl

theorem Links.drop_succ_of_drop_cons : ∀ (ls : Links) (j : Nat) (l : UInt8) (ch : Node) (r : Links),
    ls.drop j = .cons l ch r → ls.drop (j + 1) = r
  | ls, 0, l, ch, r, h => by
    cases ls with
    | nil => simp [Links.drop] at h
    | cons l' ch' r' =>
      simp only [Links.drop, Links.cons.injEq] at h
      simp [Links.drop, h.2.2]
  | .nil, j + 1, l, ch, r, h => by simp [Links.drop] at h
  | .cons l' ch' r', j + 1, l, ch, r, h => by
    simp only [Links.drop] at h ⊢
    exact Links.drop_succ_of_drop_cons r' j l ch r h

section
variable {σ : Type} (ops : Ops σ)

/-- what an iteration does once the scan of the top node is exhausted, followed by the rest of the loop -/
def afterExhausted (f : Nat) (decs' : List Int) (dawgs' : List Node) (rw : Word) (rs : RS σ) : Outcome (RS σ) :=
  match rw with
  | [] => pure rs
  | _ :: rw' => do
    let ss' ← backstepAll ops rs.ss
    loop ops f ⟨decs', dawgs', rw', { rs with ss := ss' }⟩

/-- one iteration whose scan starts at `(ls, j)`, followed by the rest of the loop with fuel `f` -/
def loopFrom (f : Nat) (ls : Links) (j : Nat) (cur : Node) (decs' : List Int) (dawgs' : List Node) (rw : Word)
    (rs : RS σ) : Outcome (RS σ) := do
  match ← scanFrom ops ls j rs with
  | .descend j l child rs1 => do
    let rs2 ← visitFinal ops child.final (l :: rw) rs1
    loop ops f ⟨(-1) :: (j : Int) :: decs', child :: cur :: dawgs', l :: rw, rs2⟩
  | .exhausted rs1 => afterExhausted ops f decs' dawgs' rw rs1

theorem loop_succ (f : Nat) (d : Int) (decs' : List Int) (cur : Node) (dawgs' : List Node) (rw : Word) (rs : RS σ) :
    loop ops (f + 1) ⟨d :: decs', cur :: dawgs', rw, rs⟩
      = loopFrom ops f (cur.links.drop (d + 1).toNat) (d + 1).toNat cur decs' dawgs' rw rs := by
  simp only [loop, iter, loopFrom]
  cases scanFrom ops (cur.links.drop (d + 1).toNat) (d + 1).toNat rs with
  | panic => rfl
  | outOfFuel => rfl
  | ok sc =>
    cases sc with
    | descend j l child rs1 =>
      simp only [Outcome.bind_ok]
      cases visitFinal ops child.final (l :: rw) rs1 <;> rfl
    | exhausted rs1 =>
      simp only [Outcome.bind_ok, afterExhausted]
      cases rw with
      | nil => rfl
      | cons c rw' =>
        simp only
        cases backstepAll ops rs1.ss <;> rfl

end

section
variable {σ : Type} (ops : Ops σ)

theorem Node.size_eq (t : Node) : t.size = 1 + t.links.size := by
  cases t; simp [Node.size, Node.links]

theorem Links.drop_zero (ls : Links) : ls.drop 0 = ls := by
  cases ls <;> rfl

mutual
theorem loopFrom_node : (t : Node) → ∀ (decs' : List Int) (dawgs' : List Node) (rw : Word) (rs : RS σ),
    ∃ c, c ≤ 2 * t.links.size ∧ ∀ f, loopFrom ops (f + c) t.links 0 t decs' dawgs' rw rs
      = (dfsNode ops t rw rs >>= afterExhausted ops f decs' dawgs' rw)
  | .mk fin n ls, decs', dawgs', rw, rs => by
    simpa [dfsNode, Node.links] using loopFrom_links ls 0 (.mk fin n ls) decs' dawgs' rw rs (Links.drop_zero _)
theorem loopFrom_links : (ls : Links) → ∀ (j : Nat) (cur : Node) (decs' : List Int) (dawgs' : List Node)
    (rw : Word) (rs : RS σ), cur.links.drop j = ls →
    ∃ c, c ≤ 2 * ls.size ∧ ∀ f, loopFrom ops (f + c) ls j cur decs' dawgs' rw rs
      = (dfsLinks ops ls rw rs >>= afterExhausted ops f decs' dawgs' rw)
  | .nil, j, cur, decs', dawgs', rw, rs, _ => ⟨0, by simp, fun f => by simp [loopFrom, scanFrom, dfsLinks]⟩
  | .cons l child rest, j, cur, decs', dawgs', rw, rs, hd => by
    have hrest := Links.drop_succ_of_drop_cons _ _ _ _ _ hd
    cases ha : allowStepAll ops rs.ss l with
    | panic => exact ⟨0, by simp, fun f => by simp [loopFrom, scanFrom, dfsLinks, ha]⟩
    | outOfFuel => exact ⟨0, by simp, fun f => by simp [loopFrom, scanFrom, dfsLinks, ha]⟩
    | ok a =>
      cases a with
      | false =>
        obtain ⟨c, hc, h⟩ := loopFrom_links rest (j + 1) cur decs' dawgs' rw
          { rs with index := rs.index + child.numWords } hrest
        refine ⟨c, by simp [Links.size]; omega, fun f => ?_⟩
        have e : loopFrom ops (f + c) (.cons l child rest) j cur decs' dawgs' rw rs
            = loopFrom ops (f + c) rest (j + 1) cur decs' dawgs' rw
                { rs with index := rs.index + child.numWords } := by
          simp [loopFrom, scanFrom, ha]
        rw [e, h f]
        simp [dfsLinks, ha]
      | true =>
        cases hs : stepAll ops rs.ss l with
        | panic => exact ⟨0, by simp, fun f => by simp [loopFrom, scanFrom, dfsLinks, ha, hs]⟩
        | outOfFuel => exact ⟨0, by simp, fun f => by simp [loopFrom, scanFrom, dfsLinks, ha, hs]⟩
        | ok ss1 =>
          cases hv : visitFinal ops child.final (l :: rw) { rs with ss := ss1 } with
          | panic => exact ⟨0, by simp, fun f => by simp [loopFrom, scanFrom, dfsLinks, ha, hs, hv]⟩
          | outOfFuel => exact ⟨0, by simp, fun f => by simp [loopFrom, scanFrom, dfsLinks, ha, hs, hv]⟩
          | ok rs2 =>
            obtain ⟨c1, hc1, h1⟩ := loopFrom_node child ((j : Int) :: decs') (cur :: dawgs') (l :: rw) rs2
            -- the left side, up to the point where the child's subtree has been searched
            have hL : ∀ F, loopFrom ops (F + c1 + 1) (.cons l child rest) j cur decs' dawgs' rw rs
                = (dfsNode ops child (l :: rw) rs2
                    >>= afterExhausted ops F ((j : Int) :: decs') (cur :: dawgs') (l :: rw)) := by
              intro F
              rw [← h1 F]
              simp only [loopFrom, scanFrom, ha, hs, hv, Outcome.bind_ok, if_true, Outcome.pure_eq]
              rw [loop_succ]
              simp [loopFrom, Links.drop_zero]
            cases hn : dfsNode ops child (l :: rw) rs2 with
            | panic =>
              exact ⟨c1 + 1, by simp [Links.size, Node.size_eq]; omega,
                fun f => by rw [← Nat.add_assoc, hL f, hn]; simp [dfsLinks, ha, hs, hv, hn]⟩
            | outOfFuel =>
              exact ⟨c1 + 1, by simp [Links.size, Node.size_eq]; omega,
                fun f => by rw [← Nat.add_assoc, hL f, hn]; simp [dfsLinks, ha, hs, hv, hn]⟩
            | ok rs3 =>
              cases hb : backstepAll ops rs3.ss with
              | panic =>
                exact ⟨c1 + 1, by simp [Links.size, Node.size_eq]; omega,
                  fun f => by rw [← Nat.add_assoc, hL f, hn]; simp [dfsLinks, ha, hs, hv, hn, hb, afterExhausted]⟩
              | outOfFuel =>
                exact ⟨c1 + 1, by simp [Links.size, Node.size_eq]; omega,
                  fun f => by rw [← Nat.add_assoc, hL f, hn]; simp [dfsLinks, ha, hs, hv, hn, hb, afterExhausted]⟩
              | ok ss4 =>
                obtain ⟨c2, hc2, h2⟩ := loopFrom_links rest (j + 1) cur decs' dawgs' rw
                  { rs3 with ss := ss4 } hrest
                refine ⟨c2 + 1 + c1 + 1, by simp [Links.size, Node.size_eq]; omega, fun f => ?_⟩
                have e : f + (c2 + 1 + c1 + 1) = (f + c2 + 1) + c1 + 1 := by omega
                rw [e, hL (f + c2 + 1), hn]
                simp only [Outcome.bind_ok, afterExhausted, hb]
                rw [loop_succ]
                have e2 : ((j : Int) + 1).toNat = j + 1 := by omega
                rw [e2, hrest, h2 f]
                simp [dfsLinks, ha, hs, hv, hn, hb]
end


/-- with at least `2 * size` iterations of fuel the explicit-stack search is the recursive search -/
theorem searchRS_eq_searchRecRS (t : Node) (ss : List σ) (fuel : Nat) (hf : searchFuel t ≤ fuel) :
    searchRS ops fuel t ss = searchRecRS ops t ss := by
  unfold searchRS searchRecRS
  cases hv : visitFinal ops t.final [] ⟨-1, ss, []⟩ with
  | panic => rfl
  | outOfFuel => rfl
  | ok rs0 =>
    obtain ⟨c, hc, h⟩ := loopFrom_node ops t [] [] [] rs0
    simp only [Outcome.bind_ok]
    have hsz := Node.size_eq t
    unfold searchFuel at hf
    have e : fuel = (fuel - c - 1) + c + 1 := by omega
    rw [e, loop_succ]
    have e0 : ((-1 : Int) + 1).toNat = 0 := by decide
    rw [e0, Links.drop_zero, h]
    exact Outcome_bind_pure _

end
end DawgSearch
