import Mamba.Lemmas.CliqueColourPoly
/-! Helper lemmas for C09: the explicit-stack deletion–contraction loop terminates within its fuel and never panics. -/
namespace CliqueColour
open GraphSpec

theorem length_lt_of_nodup_subset {α : Type} [DecidableEq α] {l₁ l₂ : List α} {a : α} (h₁ : l₁.Nodup)
    (hs : ∀ x ∈ l₁, x ∈ l₂) (ha : a ∈ l₂) (hna : a ∉ l₁) : l₁.length < l₂.length := by
  have hnd : (a :: l₁).Nodup := List.nodup_cons.2 ⟨hna, h₁⟩
  have := (List.subperm_of_subset hnd (fun x hx => by
    rcases List.mem_cons.1 hx with rfl | hx
    · exact ha
    · exact hs x hx)).length_le
  simp only [List.length_cons] at this
  omega

theorem removeEdge_m_lt {g : G} (hw : g.WF) {i j : Nat} (hadj : g.adj i j = true) (hji : j < i) :
    (removeEdge g i j).m < g.m := by
  apply length_lt_of_nodup_subset (a := (j, i)) (nodup_edges _)
  · rintro ⟨u, v⟩ h
    rw [mem_edges] at h ⊢
    exact ⟨h.1, h.2.1, (removeEdge_adj_true.1 h.2.2).1⟩
  · rw [mem_edges]
    exact ⟨hji, (hw.supp i j hadj).1, by rw [hw.symm]; exact hadj⟩
  · rw [mem_edges]
    rintro ⟨_, _, h⟩
    exact (removeEdge_adj_true.1 h).2.2 ⟨rfl, rfl⟩

theorem upj_lt_upj {j a b : Nat} (h : a < b) : upj j a < upj j b := by
  simp only [upj]; split_ifs <;> omega

theorem upj_inj {j a b : Nat} (h : upj j a = upj j b) : a = b := by
  simp only [upj] at h; split_ifs at h <;> omega

/-- image of an edge of the contracted graph among the edges of `g` -/
def conEdge (g : G) (i j : Nat) (e : Nat × Nat) : Nat × Nat :=
  if g.adj (upj j e.1) (upj j e.2) then (upj j e.1, upj j e.2)
  else if upj j e.1 = i then opair j (upj j e.2) else opair j (upj j e.1)

/-- the three shapes an edge `(a, b)` of the contracted graph can have, with `A = upj a`, `B = upj b` -/
theorem conEdge_shape {g : G} {i j : Nat} {a b : Nat}
    (h : (a, b) ∈ (contract g i j).edges) :
    ∃ A B, A = upj j a ∧ B = upj j b ∧ A < B ∧ B < g.n ∧ A ≠ j ∧ B ≠ j ∧
      ((g.adj A B = true ∧ conEdge g i j (a, b) = (A, B)) ∨
       (g.adj A B = false ∧ A = i ∧ B ≠ i ∧ g.adj j B = true ∧ conEdge g i j (a, b) = opair j B) ∨
       (g.adj A B = false ∧ B = i ∧ A ≠ i ∧ g.adj j A = true ∧ conEdge g i j (a, b) = opair j A)) := by
  rw [mem_edges] at h
  obtain ⟨hab, hbn, hadj⟩ := h
  have hbn' : b < g.n - 1 := hbn
  rw [contract_adj] at hadj
  simp only [Bool.and_eq_true, Bool.or_eq_true, decide_eq_true_eq, beq_iff_eq, bne_iff_ne] at hadj
  refine ⟨upj j a, upj j b, rfl, rfl, upj_lt_upj hab, upj_lt hbn', upj_ne j a, upj_ne j b, ?_⟩
  cases hAB : g.adj (upj j a) (upj j b)
  · rcases hadj.2 with (h | h) | h
    · rw [hAB] at h; cases h
    · right; left
      refine ⟨rfl, h.1.1, h.1.2, h.2, ?_⟩
      show (if g.adj (upj j a) (upj j b) = true then _ else if upj j a = i then _ else _) = _
      rw [hAB, if_neg (by simp), if_pos h.1.1]
    · right; right
      have hne : upj j a ≠ i := h.1.2
      refine ⟨rfl, h.1.1, hne, h.2, ?_⟩
      show (if g.adj (upj j a) (upj j b) = true then _ else if upj j a = i then _ else _) = _
      rw [hAB, if_neg (by simp), if_neg hne]
  · left
    refine ⟨rfl, ?_⟩
    show (if g.adj (upj j a) (upj j b) = true then _ else if upj j a = i then _ else _) = _
    rw [hAB, if_pos rfl]

theorem contract_m_lt {g : G} (hw : g.WF) {i j : Nat} (hadj : g.adj i j = true) (hji : j < i) :
    (contract g i j).m < g.m := by
  have hs := hw.supp i j hadj
  have hmem : ∀ e ∈ (contract g i j).edges, conEdge g i j e ∈ g.edges ∧ conEdge g i j e ≠ (j, i) := by
    rintro ⟨a, b⟩ he
    obtain ⟨A, B, _, _, hAB, hBn, hAj, hBj, h | h | h⟩ := conEdge_shape he
    · rw [h.2]
      exact ⟨mem_edges.2 ⟨hAB, hBn, h.1⟩, fun e => hAj (Prod.mk.inj e).1⟩
    · rw [h.2.2.2.2]
      refine ⟨opair_mem hw h.2.2.2.1, fun e => ?_⟩
      simp only [opair, Prod.mk.injEq] at e
      have := h.2.2.1
      omega
    · rw [h.2.2.2.2]
      refine ⟨opair_mem hw h.2.2.2.1, fun e => ?_⟩
      simp only [opair, Prod.mk.injEq] at e
      have := h.2.2.1
      omega
  have hinj : ∀ e ∈ (contract g i j).edges, ∀ e' ∈ (contract g i j).edges,
      conEdge g i j e = conEdge g i j e' → e = e' := by
    rintro ⟨a, b⟩ he ⟨a', b'⟩ he' heq
    obtain ⟨A, B, hA, hB, hAB, hBn, hAj, hBj, h⟩ := conEdge_shape he
    obtain ⟨A', B', hA', hB', hAB', hBn', hAj', hBj', h'⟩ := conEdge_shape he'
    have key : A = A' ∧ B = B' := by
      rcases h with h | h | h <;> rcases h' with h' | h' | h'
      · rw [h.2, h'.2] at heq
        exact ⟨(Prod.mk.inj heq).1, (Prod.mk.inj heq).2⟩
      · rw [h.2, h'.2.2.2.2] at heq
        simp only [opair, Prod.mk.injEq] at heq; omega
      · rw [h.2, h'.2.2.2.2] at heq
        simp only [opair, Prod.mk.injEq] at heq; omega
      · rw [h.2.2.2.2, h'.2] at heq
        simp only [opair, Prod.mk.injEq] at heq; omega
      · rw [h.2.2.2.2, h'.2.2.2.2] at heq
        simp only [opair, Prod.mk.injEq] at heq
        have := h.2.1; have := h'.2.1; omega
      · rw [h.2.2.2.2, h'.2.2.2.2] at heq
        simp only [opair, Prod.mk.injEq] at heq
        have := h.2.1; have := h'.2.1; omega
      · rw [h.2.2.2.2, h'.2] at heq
        simp only [opair, Prod.mk.injEq] at heq; omega
      · rw [h.2.2.2.2, h'.2.2.2.2] at heq
        simp only [opair, Prod.mk.injEq] at heq
        have := h.2.1; have := h'.2.1; omega
      · rw [h.2.2.2.2, h'.2.2.2.2] at heq
        simp only [opair, Prod.mk.injEq] at heq
        have := h.2.1; have := h'.2.1; omega
    have ha : a = a' := upj_inj (by rw [← hA, ← hA', key.1])
    have hb : b = b' := upj_inj (by rw [← hB, ← hB', key.2])
    rw [ha, hb]
  have hnd : ((contract g i j).edges.map (conEdge g i j)).Nodup :=
    List.Nodup.map_on hinj (nodup_edges _)
  have := length_lt_of_nodup_subset (a := (j, i)) hnd
    (l₂ := g.edges)
    (fun x hx => by
      obtain ⟨e, he, rfl⟩ := List.mem_map.1 hx
      exact (hmem e he).1)
    (mem_edges.2 ⟨hji, hs.1, by rw [hw.symm]; exact hadj⟩)
    (fun hx => by
      obtain ⟨e, he, heq⟩ := List.mem_map.1 hx
      exact (hmem e he).2 heq)
  simpa [G.m] using this

theorem firstEdge_isSome {g : G} (hw : g.WF) (hm : g.m ≠ 0) : ∃ ij, firstEdge g = some ij := by
  cases h : firstEdge g with
  | some ij => exact ⟨ij, rfl⟩
  | none =>
    exfalso
    have hne : g.edges ≠ [] := fun he => hm (by simp [G.m, he])
    obtain ⟨⟨u, v⟩, he⟩ := List.exists_mem_of_ne_nil _ hne
    rw [mem_edges] at he
    rw [firstEdge, List.findSome?_eq_none_iff] at h
    have := h v (List.mem_range.2 he.2.1)
    rw [Option.map_eq_none_iff, List.find?_eq_none] at this
    exact this u (List.mem_range.2 he.1) (by rw [hw.symm]; exact he.2.2)

/-- fuel needed to process a stack -/
def stackWeight (stack : List (G × Int)) : Nat := (stack.map fun hs => 2 ^ (hs.1.n + hs.1.m + 1)).sum

theorem cpLoop_total : ∀ (fuel : Nat) (stack : List (G × Int)) (poly : List Int),
    (∀ hs ∈ stack, hs.1.WF ∧ hs.1.n < poly.length) → stackWeight stack ≤ fuel →
    ∃ res, cpLoop fuel stack poly = .ok res := by
  intro fuel
  induction fuel with
  | zero =>
    intro stack poly _ hwt
    cases stack with
    | nil => exact ⟨poly, rfl⟩
    | cons a t =>
      exfalso
      simp only [stackWeight, List.map_cons, List.sum_cons] at hwt
      have : 0 < 2 ^ (a.1.n + a.1.m + 1) := Nat.two_pow_pos _
      omega
  | succ fuel ih =>
    intro stack poly hst hwt
    cases stack with
    | nil => exact ⟨poly, rfl⟩
    | cons a rest =>
      obtain ⟨g, s⟩ := a
      have hg : g.WF ∧ g.n < poly.length := hst (g, s) List.mem_cons_self
      have hrest : ∀ hs ∈ rest, hs.1.WF ∧ hs.1.n < poly.length :=
        fun hs hm => hst hs (List.mem_cons_of_mem _ hm)
      simp only [stackWeight, List.map_cons, List.sum_cons] at hwt
      have hpos : 0 < 2 ^ (g.n + g.m + 1) := Nat.two_pow_pos _
      simp only [cpLoop]
      by_cases hm : (g.m == 0) = true
      · rw [if_pos hm]
        simp only [addAt, hg.2, if_true]
        exact ih rest _ (by simpa using hrest) (by simp only [stackWeight]; omega)
      · rw [if_neg hm]
        have hm' : g.m ≠ 0 := by simpa using hm
        obtain ⟨⟨i, j⟩, hfe⟩ := firstEdge_isSome hg.1 hm'
        rw [hfe]
        simp only
        obtain ⟨hji, hi, hadj⟩ := firstEdge_spec hfe
        rw [tabulate_eq (contract_wf hg.1 i j), tabulate_eq (removeEdge_wf hg.1 i j)]
        apply ih
        · intro hs hmem
          rcases List.mem_cons.1 hmem with rfl | hmem
          · exact ⟨contract_wf hg.1 i j, by show g.n - 1 < poly.length; omega⟩
          · rcases List.mem_cons.1 hmem with rfl | hmem
            · exact ⟨removeEdge_wf hg.1 i j, hg.2⟩
            · exact hrest hs hmem
        · simp only [stackWeight, List.map_cons, List.sum_cons]
          have h1 := removeEdge_m_lt hg.1 hadj hji
          have h2 := contract_m_lt hg.1 hadj hji
          have hn1 : (contract g i j).n = g.n - 1 := rfl
          have hn2 : (removeEdge g i j).n = g.n := rfl
          rw [hn1, hn2]
          -- 2^(n-1+mc+1) + 2^(n+md+1) + 1 ≤ 2^(n+m+1)
          have e1 : 2 ^ (g.n - 1 + (contract g i j).m + 1) ≤ 2 ^ (g.n + g.m - 1) :=
            Nat.pow_le_pow_right (by omega) (by omega)
          have e2 : 2 ^ (g.n + (removeEdge g i j).m + 1) ≤ 2 ^ (g.n + g.m) :=
            Nat.pow_le_pow_right (by omega) (by omega)
          have e3 : 2 ^ (g.n + g.m + 1) = 2 * 2 ^ (g.n + g.m) := by rw [Nat.pow_succ]; ring
          have e4 : 2 ^ (g.n + g.m) = 2 * 2 ^ (g.n + g.m - 1) := by
            rw [← Nat.pow_succ']; congr 1; omega
          have e5 : 0 < 2 ^ (g.n + g.m - 1) := Nat.two_pow_pos _
          have hsw : stackWeight rest = (rest.map fun hs => 2 ^ (hs.1.n + hs.1.m + 1)).sum := rfl
          omega

theorem chromaticPolynomial_total {g : G} (hw : g.WF) : ∃ p, chromaticPolynomial g = .ok p := by
  rw [chromaticPolynomial, tabulate_eq hw]
  apply cpLoop_total
  · intro hs hm
    have : hs = (g, 1) := by simpa using hm
    subst this
    exact ⟨hw, by simp⟩
  · simp [stackWeight]

end CliqueColour
