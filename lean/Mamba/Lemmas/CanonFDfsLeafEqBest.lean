import Mamba.Lemmas.CanonFDfsPop
import Mamba.Lemmas.CanonFDfsSkip
/-!
# The complete DFS invariant at a leaf whose certificate equals `currentBest` (`dfs_leaf_eqbest`)

`leafNode` merges `bestOrbits` and `firstLeafOrbits` along `γ = transport n bestPerm order` (an automorphism, the
certificates being equal), possibly records `γ` as a generator, and back-jumps against `bestPath` (Heuristic 1):
`idx` = (first index at which `path` and `bestPath` differ) + 1 (or `path.length`), `j = path.length - idx` frames are
dropped, the new top frame has level `k = idx - 1`. The node of level `k` is a common ancestor of the current leaf and of
the best leaf; the child on the best path has a larger index in the cell than the child on the current path, hence has been
processed and is complete (`bpB`); by `backjump_child_complete` the child on the current path is complete too.

Ghost update (`dfs_leaf_eqbest_v`): `gh' := { gh with vs := gh.vs.take k, bgs := γ :: gh.bgs }` with `k = s.path.length - j - 1`, `lv1 = lv.drop j`.
-/
namespace CanonF
open Relation

/-- the state after `leafNode` in the "equal to the best leaf" case -/
theorem lb_leafNode_unfold {n m : Nat} {s s1 : LS}
    (hc1 : (compare s.op.value.toList s.currentBest.toList == 1 || s.count + 1 == 1) = false)
    (hc0 : (compare s.op.value.toList s.currentBest.toList == 0) = true)
    (h : leafNode n m s = .ok s1) :
    ∃ (bo : Disjoint.DS) (b0 : Bool) (fo : Disjoint.DS) (merges : Bool) (gens' : Array (Sl Nat)) (ngens' : Nat),
      forRange (orbitStep s.op.order s.bestPermInv) n 0 (s.bestOrbits, false) = .ok (bo, b0) ∧
      forRange (orbitStep s.op.order s.bestPermInv) n 0 (s.flOrbits, false) = .ok (fo, merges) ∧
      (if merges = true then recordGenerator n s.op.order s.bestPermInv s.gens s.ngens else Outcome.ok (s.gens, s.ngens))
        = .ok (gens', ngens') ∧
      backJump { s with count := s.count + 1, bestOrbits := bo, flOrbits := fo, gens := gens', ngens := ngens' }
        s.bestPath = .ok s1 := by
  unfold leafNode at h
  dsimp only at h
  rw [if_neg (by rw [hc1]; exact Bool.false_ne_true), if_pos hc0] at h
  split at h
  · rename_i bo b0 hl1
    split at h
    · rename_i fo merges hl2
      split at h
      · rename_i gens' ngens' hrec
        exact ⟨bo, b0, fo, merges, gens', ngens', hl1, hl2, hrec, h⟩
      · cases h
      · cases h
    · cases h
    · cases h
  · cases h
  · cases h

/-- `backJump` with the index returned by `h1Index` -/
theorem lb_backJump_shape {s s' : LS} {ref : Sl Nat} (h : backJump s ref = .ok s') :
    ∃ idx op', h1Index s.path.reverse ref (s.path.length - 1) 0 = .ok idx ∧
      deageTimes (s.path.length - idx) s.op = .ok op' ∧
      s' = { s with op := op', path := s.path.drop (s.path.length - idx),
                    choices := s.choices.drop (s.choices.length - idx) } := by
  unfold backJump at h
  dsimp only at h
  simp only [List.length_reverse] at h
  cases hi : h1Index s.path.reverse ref (s.path.length - 1) 0 with
  | panic => rw [hi] at h; cases h
  | outOfFuel => rw [hi] at h; cases h
  | ok idx1 =>
    rw [hi] at h
    simp only at h
    cases hd : deageTimes (s.path.length - idx1) s.op with
    | panic => rw [hd] at h; cases h
    | outOfFuel => rw [hd] at h; cases h
    | ok op' =>
      rw [hd] at h
      simp only at h
      cases h
      refine ⟨idx1, op', rfl, hd, ?_⟩
      rw [List.take_reverse, List.reverse_reverse, List.take_reverse, List.reverse_reverse]

/-- `h1Index`: the first index at which `path` and `ref` differ (plus one), or `path.length` -/
theorem lb_h1Index_spec (path : List Nat) (ref : Sl Nat) : ∀ (k i r : Nat), h1Index path ref k i = .ok r →
    (∀ j, i ≤ j → j + 1 < r → j < i + k → ref.get j = .ok (path.getD j 0)) ∧
    ((r = path.length ∧ ∀ j, i ≤ j → j < i + k → ref.get j = .ok (path.getD j 0)) ∨
      (i + 1 ≤ r ∧ r ≤ i + k ∧ ∃ x, ref.get (r - 1) = .ok x ∧ path.getD (r - 1) 0 ≠ x)) := by
  intro k
  induction k with
  | zero =>
    intro i r h
    simp [h1Index] at h
    exact ⟨fun j h1 _ h3 => by omega, Or.inl ⟨h.symm, fun j h1 h2 => by omega⟩⟩
  | succ k ih =>
    intro i r h
    rw [h1Index] at h
    cases hg : ref.get i with
    | panic => rw [hg] at h; cases h
    | outOfFuel => rw [hg] at h; cases h
    | ok x =>
      rw [hg] at h
      simp only at h
      by_cases hne : path.getD i 0 ≠ x
      · rw [if_pos hne] at h
        cases h
        refine ⟨fun j h1 h2 _ => by omega, Or.inr ⟨by omega, by omega, x, by simpa using hg, by simpa using hne⟩⟩
      · rw [if_neg hne] at h
        have hx : path.getD i 0 = x := by simpa using hne
        obtain ⟨a1, a2⟩ := ih (i + 1) r h
        have hgi : ref.get i = .ok (path.getD i 0) := by rw [hx]; exact hg
        constructor
        · intro j h1 h2 h3
          rcases Nat.eq_or_lt_of_le h1 with e | hlt
          · subst e; exact hgi
          · exact a1 j (by omega) h2 (by omega)
        · rcases a2 with ⟨b1, b2⟩ | ⟨b1, b2, b3⟩
          · left
            refine ⟨b1, fun j h1 h2 => ?_⟩
            rcases Nat.eq_or_lt_of_le h1 with e | hlt
            · subst e; exact hgi
            · exact b2 j (by omega) (by omega)
          · right
            exact ⟨by omega, by omega, b3⟩

/-- a vertex path whose index path agrees below `k` with the index path of a leaf is a prefix of the leaf's vertex path -/
theorem lb_prefix_of_agree {n : Nat} {nb : Nbrs} {rf : Nat} {r : IR.St} {us vsX P Q : List Nat} {k : Nat}
    (hI : IdxPath n nb rf r us Q k) (hp : IR.IsPath (irG n nb) rf r us) (hlen : k ≤ us.length)
    (hlX : IR.target (irG n nb) (IR.nodeAt (irG n nb) rf r vsX) = none)
    (hIX : IdxPath n nb rf r vsX P vsX.length) (hagree : ∀ i, i < k → Q[i]? = P[i]?) :
    us.take k = vsX.take k ∧ k ≤ vsX.length := by
  have key : ∀ L, L ≤ k → L ≤ vsX.length → us.take L = vsX.take L := by
    intro L h1 h2
    apply same_prefix_of_idx (P := P)
    · intro i hi
      obtain ⟨t, j, v, b1, b2, b3, b4⟩ := hI i (by omega)
      exact ⟨t, j, v, b1, b2, b3, by rw [← hagree i (by omega)]; exact b4⟩
    · intro i hi
      exact hIX i (by omega)
  rcases Nat.lt_or_ge vsX.length k with hlt | hge
  · exfalso
    have e := key vsX.length (by omega) (Nat.le_refl _)
    rw [List.take_length] at e
    have hl : vsX.length < us.length := by omega
    have hsplit := bj_split_at (List.getElem?_eq_getElem hl)
    rw [e] at hsplit
    rw [hsplit] at hp
    obtain ⟨_, t, ht, _⟩ := (bj_isPath_append vsX r _).1 hp
    rw [hlX] at ht
    cases ht
  · exact ⟨key k (Nat.le_refl _) hge, hge⟩

theorem lb_rev_idx {l pre ps : List Nat} {p : Nat} (h : l = pre ++ p :: ps) :
    (∀ i, i < ps.length → l.reverse[i]? = ps.reverse[i]?) ∧ l.reverse[ps.length]? = some p := by
  subst h
  simp only [List.reverse_append, List.reverse_cons, List.append_assoc]
  constructor
  · intro i hi
    rw [List.getElem?_append_left (by simpa using hi)]
  · rw [List.getElem?_append_right (by simp)]
    simp

/-- the heart of the back-jump: the child of the common ancestor (level `ps.length`) on the current path is complete,
because the child on the best-leaf path is (it has a larger index in the cell, so it has been processed) -/
theorem lb_child_complete {n : Nat} {nb : Nbrs} {rf : Nat} {r : IR.St} (hnb : NbOK nb n)
    (hA : IR.InvA (irG n nb) r) (hD : IR.InvD (irG n nb) r) {gh : Gh} {s : LS} {vs o1 o2 PB : List Nat} {pinv : Sl Nat}
    (hp2 : IR.IsPath (irG n nb) rf r vs) (ht2 : IR.target (irG n nb) (IR.nodeAt (irG n nb) rf r vs) = none)
    (hc2 : (IR.nodeAt (irG n nb) rf r vs).c = IR.tab n (fun v => o2.idxOf v)) (ho2 : o2.Perm (List.range n))
    (hB : LeafRec n nb rf r gh.vsB o1 s.currentBest.toList pinv PB)
    (hcert : certPos nb o1 n = certPos nb o2 n)
    {p c st sz : Nat} {ps : List Nat}
    (hI : IdxPath n nb rf r vs ps.reverse ps.length) (hlen : ps.length < vs.length)
    (hagree : ∀ i, i < ps.length → ps.reverse[i]? = PB[i]?)
    (hdiff : ∃ x, PB[ps.length]? = some x ∧ x ≠ p)
    (htar : IR.target (irG n nb) (nodeL n nb rf r vs ps.length) = some st)
    (hcst : c - st = p) (hcnt : 0 < s.count)
    (hf : FrameAux1 n nb rf r gh s vs false ps c st sz) :
    vs.take ps.length = gh.vsB.take ps.length ∧
    ∀ v, vs[ps.length]? = some v →
      Complete n nb rf s.currentBest.toList (IR.childSt (irG n nb) rf (nodeL n nb rf r vs ps.length) st v) := by
  obtain ⟨hpre, hkle⟩ := lb_prefix_of_agree hI hp2 (Nat.le_of_lt hlen) hB.leaf hB.idx hagree
  refine ⟨hpre, ?_⟩
  have hk : ps.length < gh.vsB.length := by
    rcases Nat.lt_or_ge ps.length gh.vsB.length with h | h
    · exact h
    · exfalso
      have e : gh.vsB = vs.take ps.length := by rw [hpre, List.take_of_length_le h]
      have := hB.leaf
      rw [e] at this
      have htar' : IR.target (irG n nb) (IR.nodeAt (irG n nb) rf r (vs.take ps.length)) = some st := htar
      rw [this] at htar'
      cases htar'
  obtain ⟨t, j', v', b1, b2, b3, b4⟩ := hB.idx ps.length hk
  have en : nodeL n nb rf r gh.vsB ps.length = nodeL n nb rf r vs ps.length := nodeL_congr hpre.symm
  unfold cellL at b3
  rw [en] at b1 b3
  rw [htar] at b1
  cases b1
  obtain ⟨x, hx, hxp⟩ := hdiff
  rw [hx] at b4
  have ej : x = j' := Option.some.inj b4
  have hb3 : (cellL n nb rf r vs ps.length st)[j']? = some v' := b3
  have hge : ¬ j' < c - st := fun hlt => hf.futB hcnt j' v' hlt hb3 ⟨hpre, b2⟩
  have hcomp := hf.bpB hcnt hpre j' v' (by simp only [Bool.false_eq_true, if_false]; omega) hb3 b2
  intro v hv
  exact backjump_child_complete hnb hA hD hB.path hB.leaf hB.col hB.perm hp2 ht2 hc2 ho2 hcert hpre.symm b2 hv htar hcomp

/-- the new `bestOrbits`: generated by the old generators and the new automorphism -/
theorem lb_bestOrb {n : Nat} {order pinv : Sl Nat} {o1 : List Nat} {ds ds' : Disjoint.DS} {b0 : Bool}
    {bgs : List (List Nat)} (ho1 : o1.Perm (List.range n)) (hinvof : InvOf o1 pinv)
    (hds : Disjoint.Inv ds) (hsz : ds.size = n)
    (horb : ∀ a b, a < n → b < n → Disjoint.rep ds a = Disjoint.rep ds b →
      EqvGen (fun x y => ∃ γ, γ ∈ bgs ∧ γ[x]? = some y) a b)
    (hloop : forRange (orbitStep order pinv) n 0 (ds, false) = .ok (ds', b0)) :
    Disjoint.Inv ds' ∧ ds'.size = n ∧ ∀ a b, a < n → b < n → Disjoint.rep ds' a = Disjoint.rep ds' b →
      EqvGen (fun x y => ∃ γ, γ ∈ transport n o1 order.toList :: bgs ∧ γ[x]? = some y) a b := by
  obtain ⟨i1, i2, _, _, i5, _⟩ := orbitLoop_spec hds hsz hloop
  refine ⟨i1, i2, fun a b ha hb hab => ?_⟩
  apply eqvGen_of_imp _ (i5 a b ha hb hab)
  rintro x y ⟨hx, hy, hxy | ⟨p, hp, hv⟩⟩
  · apply eqvGen_of_imp _ (horb x y hx hy hxy)
    rintro u w ⟨γ, hγ, e⟩
    exact EqvGen.rel _ _ ⟨γ, List.mem_cons_of_mem _ hγ, e⟩
  · refine EqvGen.rel _ _ ⟨_, List.mem_cons_self .., ?_⟩
    rw [← transport_eq (o2 := order.toList) (pinv := pinv.toList) ho1 hinvof, List.getElem?_map,
      List.getElem?_range hx]
    have hp' := Sl.get_eq_toList.1 hp
    have hv' := Sl.get_eq_toList.1 hv
    simp only [Option.map_some, List.getD_eq_getElem?_getD, hp', Option.getD_some, hv']

section
variable {n : Nat} {nb : Nbrs} {rf : Nat} {r : IR.St}

/-- one frame: `count` stays positive, generators are added (to `gens` and to `bgs`) that preserve the colouring of the
frame's node if it is on the best path -/
theorem lb_frameAux1_upd {gh gh' : Gh} {s s' : LS} {us us' : List Nat} {incl : Bool} {ps : List Nat} {c st sz : Nat}
    (h : FrameAux1 n nb rf r gh s us incl ps c st sz)
    (hpos : 0 < s.count) (hpos' : 0 < s'.count) (ecb : s'.currentBest = s.currentBest)
    (eF : gh'.vsF = gh.vsF) (eB : gh'.vsB = gh.vsB) (ev : us'.take ps.length = us.take ps.length)
    (hE1 : us.take ps.length = gh.vsB.take ps.length →
      (∀ k, k < s.ngens → ∀ γ, s.gens[k]? = some γ → ∀ u, u < n →
        IR.col (nodeL n nb rf r us ps.length).c (γ.toList.getD u 0) = IR.col (nodeL n nb rf r us ps.length).c u) →
      ∀ k, k < s'.ngens → ∀ γ, s'.gens[k]? = some γ → ∀ u, u < n →
        IR.col (nodeL n nb rf r us ps.length).c (γ.toList.getD u 0) = IR.col (nodeL n nb rf r us ps.length).c u)
    (hE2 : us.take ps.length = gh.vsB.take ps.length →
      (∀ γ, γ ∈ gh.bgs → ∀ u, u < n →
        IR.col (nodeL n nb rf r us ps.length).c (γ.getD u 0) = IR.col (nodeL n nb rf r us ps.length).c u) →
      ∀ γ, γ ∈ gh'.bgs → ∀ u, u < n →
        IR.col (nodeL n nb rf r us ps.length).c (γ.getD u 0) = IR.col (nodeL n nb rf r us ps.length).c u) :
    FrameAux1 n nb rf r gh' s' us' incl ps c st sz := by
  have ec := cellL_congr (n := n) (nb := nb) (rf := rf) (r := r) (st := st) ev
  have en := nodeL_congr (n := n) (nb := nb) (rf := rf) (r := r) ev
  constructor
  · intro _; rw [ec, ev, eF]; exact h.futF hpos
  · intro _; rw [ec, ev, eB]; exact h.futB hpos
  · intro _; rw [ecb, ec, ev, en, eF]; exact h.bpF hpos
  · intro _; rw [ecb, ec, ev, en, eB]; exact h.bpB hpos
  · intro _; rw [ev, en, eF]
    intro hpre
    exact hE1 (h.fb hpos hpre) (h.e1 hpos hpre)
  · intro _; rw [ev, en, eB]
    intro hpre
    exact hE2 hpre (h.e2 hpos hpre)
  · intro _; rw [ev, eF, eB]; exact h.fb hpos
  · intro h0; omega

theorem lb_frameAux_upd {gh gh' : Gh} {s s' : LS} {us us' : List Nat}
    (hpos : 0 < s.count) (hpos' : 0 < s'.count) (ecb : s'.currentBest = s.currentBest)
    (eF : gh'.vsF = gh.vsF) (eB : gh'.vsB = gh.vsB) :
    ∀ (incl : Bool) (path choices : List Nat) (lv : List (Nat × Nat)),
      (∀ L, L < path.length → us'.take L = us.take L) →
      (∀ L, L < path.length → us.take L = gh.vsB.take L →
        (∀ k, k < s.ngens → ∀ γ, s.gens[k]? = some γ → ∀ u, u < n →
          IR.col (nodeL n nb rf r us L).c (γ.toList.getD u 0) = IR.col (nodeL n nb rf r us L).c u) →
        ∀ k, k < s'.ngens → ∀ γ, s'.gens[k]? = some γ → ∀ u, u < n →
          IR.col (nodeL n nb rf r us L).c (γ.toList.getD u 0) = IR.col (nodeL n nb rf r us L).c u) →
      (∀ L, L < path.length → us.take L = gh.vsB.take L →
        (∀ γ, γ ∈ gh.bgs → ∀ u, u < n →
          IR.col (nodeL n nb rf r us L).c (γ.getD u 0) = IR.col (nodeL n nb rf r us L).c u) →
        ∀ γ, γ ∈ gh'.bgs → ∀ u, u < n →
          IR.col (nodeL n nb rf r us L).c (γ.getD u 0) = IR.col (nodeL n nb rf r us L).c u) →
      FrameAux n nb rf r gh s us incl path choices lv → FrameAux n nb rf r gh' s' us' incl path choices lv := by
  intro incl path
  induction path generalizing incl with
  | nil => intro choices lv _ _ _ h; cases choices <;> cases lv <;> simp_all [FrameAux]
  | cons p ps ih =>
    intro choices lv hv hE1 hE2 h
    cases choices with
    | nil => simp [FrameAux] at h
    | cons c cs =>
      cases lv with
      | nil => simp [FrameAux] at h
      | cons x ls =>
        obtain ⟨st, sz⟩ := x
        simp only [FrameAux] at h ⊢
        exact ⟨lb_frameAux1_upd h.1 hpos hpos' ecb eF eB (hv ps.length (by simp)) (hE1 ps.length (by simp))
            (hE2 ps.length (by simp)),
          ih false cs ls (fun L hL => hv L (by simp only [List.length_cons]; omega))
            (fun L hL => hE1 L (by simp only [List.length_cons]; omega))
            (fun L hL => hE2 L (by simp only [List.length_cons]; omega)) h.2⟩

theorem lb_frameAux_drop {gh : Gh} {s : LS} {us : List Nat} (j : Nat) (path choices : List Nat) (lv : List (Nat × Nat))
    (h : FrameAux n nb rf r gh s us false path choices lv) :
    FrameAux n nb rf r gh s us false (path.drop j) (choices.drop j) (lv.drop j) := by
  rcases Nat.eq_zero_or_pos j with h0 | hpos
  · subst h0; simpa using h
  · exact FrameAux.drop j path choices lv hpos h

theorem lb_cov_drop {s : LS} {us : List Nat} (j : Nat) (path choices : List Nat) (lv : List (Nat × Nat))
    (h : CovFrames n nb rf r s us false path choices lv) :
    CovFrames n nb rf r s us false (path.drop j) (choices.drop j) (lv.drop j) := by
  rcases Nat.eq_zero_or_pos j with h0 | hpos
  · subst h0; simpa using h
  · exact CovFrames.drop j path choices lv hpos h

end

/-- the generators after the "equal certificate" event: the old ones and possibly the new automorphism -/
theorem lb_gens_new {n : Nat} {order pinv : Sl Nat} {o1 : List Nat} {gens gens' : Array (Sl Nat)} {ngens ngens' : Nat}
    {merges : Bool} (ho1 : o1.Perm (List.range n)) (hlen : order.len = n) (hinvof : InvOf o1 pinv)
    (hrec : (if merges = true then recordGenerator n order pinv gens ngens else Outcome.ok (gens, ngens)) = .ok (gens', ngens')) :
    ∀ k, k < ngens' → ∀ g, gens'[k]? = some g →
      (k < ngens ∧ gens[k]? = some g) ∨ g.toList = transport n o1 order.toList := by
  intro k hk g hg
  by_cases hm : merges = true
  · rw [if_pos hm] at hrec
    obtain ⟨r1, r2, r3, r4, tmp, t1, t2, t3, t4, t5⟩ := recordGenerator_spec hlen hrec
    subst r1
    by_cases hkn : k = ngens
    · right
      subst hkn
      rw [t1] at hg
      cases hg
      rw [← transport_eq (o2 := order.toList) (pinv := pinv.toList) ho1 hinvof]
      apply List.ext_getElem?
      intro i
      by_cases hi : i < n
      · obtain ⟨p, v, hp, hv, hv'⟩ := t5 i hi
        rw [hv', List.getElem?_map, List.getElem?_range hi]
        simp only [Option.map_some]
        have hp' := Sl.get_eq_toList.1 hp
        have hvv := Sl.get_eq_toList.1 hv
        simp only [List.getD_eq_getElem?_getD, hp', Option.getD_some, hvv]
      · rw [List.getElem?_eq_none (by omega), List.getElem?_eq_none (by simp; omega)]
    · left
      exact ⟨by omega, by rw [← r4 k hkn]; exact hg⟩
  · rw [if_neg hm] at hrec
    cases hrec
    exact Or.inl ⟨hk, hg⟩

theorem lb_levelsOK_path_ne {op : OP} {p : Nat} {ps choices : List Nat} {lv : List (Nat × Nat)}
    (h : LevelsOK op (p :: ps) choices lv) : ∃ c cs st sz ls, choices = c :: cs ∧ lv = (st, sz) :: ls ∧ c = st + p := by
  match choices, lv, h with
  | c :: cs, (st, sz) :: ls, h =>
    simp only [LevelsOK] at h
    exact ⟨c, cs, st, sz, ls, rfl, rfl, h.2.2.1⟩

section
variable {n m : Nat} {nb : Nbrs} {rf : Nat} {r : IR.St}
  (hnb : NbOK nb n) (hA : IR.InvA (irG n nb) r) (hD : IR.InvD (irG n nb) r)

set_option linter.unusedVariables false in
include hnb hA hD in
/-- a leaf with the certificate of the best leaf: orbits merged, generator recorded, back-jump against `bestPath`;
version with the ghost update explicit, and with the shape of the new state -/
theorem dfs_leaf_eqbest_v (lv : List (Nat × Nat)) (s s1 : LS) (gh : Gh) (hI : MInv n m nb s)
    (hlv : LevelsOK s.op s.path s.choices lv) (hleaf : s.op.binDividers.len = n)
    (hJ : CertM n m nb lv false s) (h : DNodev n nb rf r gh lv s) (hs1 : leafNode n m s = .ok s1)
    (hJ1 : CertA n m nb lv s1)
    (hc1 : (compare s.op.value.toList s.currentBest.toList == 1 || s.count + 1 == 1) = false)
    (hc0 : (compare s.op.value.toList s.currentBest.toList == 0) = true) :
    ∃ lv1 k, LevelsOK s1.op s1.path s1.choices lv1 ∧
      DAv n nb rf r
        { gh with
          vs := gh.vs.take k,
          bgs := transport n s.bestPerm.toList s.op.order.toList :: gh.bgs } lv1 s1 ∧
      ∃ (bo : Disjoint.DS) (b0 : Bool) (fo : Disjoint.DS) (merges : Bool) (gens' : Array (Sl Nat)) (ngens' : Nat)
        (op' : OP) (j : Nat),
        forRange (orbitStep s.op.order s.bestPermInv) n 0 (s.bestOrbits, false) = .ok (bo, b0) ∧
        forRange (orbitStep s.op.order s.bestPermInv) n 0 (s.flOrbits, false) = .ok (fo, merges) ∧
        (if merges = true then recordGenerator n s.op.order s.bestPermInv s.gens s.ngens
          else Outcome.ok (s.gens, s.ngens)) = .ok (gens', ngens') ∧
        j < s.path.length ∧ k = s.path.length - j - 1 ∧ lv1 = lv.drop j ∧ deageTimes j s.op = .ok op' ∧
        s1 = { s with count := s.count + 1, bestOrbits := bo, flOrbits := fo, gens := gens', ngens := ngens',
                      op := op', path := s.path.drop j, choices := s.choices.drop j } := by
  obtain ⟨hw, hG, hcov, haux, hoff⟩ := h
  have hc := hI.core
  obtain ⟨hvc, hspl⟩ := leaf_clean hc.part hleaf (hJ.2.2.1 rfl)
  have hc1' := hc1
  simp only [Bool.or_eq_false_iff, beq_eq_false_iff_ne, ne_eq] at hc1'
  have hcnt : 0 < s.count := by omega
  have hval : s.op.value.toList = certPos nb s.op.order.toList n := by rw [← hspl]; exact hvc.val
  have heq : s.op.value.toList = s.currentBest.toList := (compare_eq_zero _ _).1 (by simpa using hc0)
  have hB := hG.best hcnt
  have hcert : certPos nb s.bestPerm.toList n = certPos nb s.op.order.toList n := by
    rw [← hB.cert, ← heq, hval]
  have hw' := hw
  obtain ⟨h1, h2, h3, h4, h5, h6, h7⟩ := hw'
  -- the current node is a leaf
  have hm : Match n s.op (nodeL n nb rf r gh.vs gh.vs.length) :=
    (h4 gh.vs.length (Nat.le_refl _)).toMatch hc.part hc.age (by omega) h7
  have hnl : nodeL n nb rf r gh.vs gh.vs.length = IR.nodeAt (irG n nb) rf r gh.vs := by
    unfold nodeL; rw [List.take_length]
  rw [hnl] at hm
  have ht2 := target_none (nb := nb) hc.part hm hleaf
  have hc2 : (IR.nodeAt (irG n nb) rf r gh.vs).c = IR.tab n (fun v => s.op.order.toList.idxOf v) := by
    rw [hm.col, leaf_colOf hc.part hleaf]
  have hdn : gh.vs.length ≤ n := by
    obtain ⟨q1, _, q3⟩ := IR.path_cells (irG_wf hnb) (rf := rf) gh.vs r hA hD h1
    have := IR.D_le n (IR.nodeAt (irG n nb) rf r gh.vs).c
    have e : IR.D n (IR.nodeAt (irG n nb) rf r gh.vs).c = (IR.nodeAt (irG n nb) rf r gh.vs).cells := q3
    omega
  have hPBlen : s.bestPath.toList.length = n := by rw [Sl.length_toList _ hG.bpLen.2, hG.bpLen.1]
  obtain ⟨cl1, cl2⟩ := LevelsOK_length _ _ _ hlv
  -- the path is not empty
  have hdpos : 0 < s.path.length := by
    rcases Nat.eq_zero_or_pos s.path.length with h0 | hpos
    · exfalso
      rw [h0] at h3
      have hvs : gh.vs = [] := List.length_eq_zero_iff.1 h3
      have := (hoff hcnt).1
      rw [hvs] at this
      exact this (by simp)
    · exact hpos
  obtain ⟨bo, b0, fo, merges, gens', ngens', hl1, hl2, hrec, hbj⟩ := lb_leafNode_unfold hc1 hc0 hs1
  obtain ⟨idx, op', hidx, hdt, es⟩ := lb_backJump_shape hbj
  have hidx' : h1Index s.path.reverse s.bestPath (s.path.length - 1) 0 = .ok idx := hidx
  have hdt' : deageTimes (s.path.length - idx) s.op = .ok op' := hdt
  obtain ⟨a1, a2⟩ := lb_h1Index_spec _ _ _ _ _ hidx'
  simp only [List.length_reverse, Nat.zero_add, Nat.zero_le, forall_true_left] at a1 a2
  have hidx1 : 1 ≤ idx ∧ idx ≤ s.path.length := by
    rcases a2 with ⟨b1, _⟩ | ⟨b1, b2, _⟩ <;> omega
  rw [cl1] at es
  obtain ⟨j, hj⟩ : ∃ j, j = s.path.length - idx := ⟨_, rfl⟩
  rw [← hj] at es hdt'
  -- the frame of the level `idx - 1`
  have hlvd := LevelsOK_drop j _ _ _ hlv
  have hlvd0 := hlvd
  have h5d := h5.drop j
  have hauxd := lb_frameAux_drop j _ _ _ haux
  cases hq : s.path.drop j with
  | nil =>
    exfalso
    have := congrArg List.length hq
    simp only [List.length_drop, List.length_nil] at this
    omega
  | cons p ps =>
    rw [hq] at hlvd h5d hauxd
    obtain ⟨c, cs, st, sz, ls, eq1, eq2, hcp⟩ := lb_levelsOK_path_ne hlvd
    rw [eq1, eq2] at h5d hauxd
    have hpsl : ps.length + 1 = idx := by
      have := congrArg List.length hq
      simp only [List.length_drop, List.length_cons] at this
      omega
    have hsplit : s.path = s.path.take j ++ p :: ps := by rw [← hq, List.take_append_drop]
    obtain ⟨r1, r2⟩ := lb_rev_idx hsplit
    simp only [FramesOK] at h5d
    obtain ⟨g1, g2, g3, g4⟩ := h5d
    obtain ⟨g3a, g3b⟩ := g3 (by omega)
    have hIk := frames_idxPath ps cs ls g4 (by omega)
    have hf := FrameAux.head hauxd
    have hgetD : ∀ i q, s.path.reverse[i]? = some q → s.path.reverse.getD i 0 = q := by
      intro i q hiq; rw [List.getD_eq_getElem?_getD, hiq, Option.getD_some]
    -- index paths agree below `ps.length`
    have hagree : ∀ i, i < ps.length → ps.reverse[i]? = s.bestPath.toList[i]? := by
      intro i hi
      have e1 := r1 i hi
      have hil : i < ps.reverse.length := by simpa using hi
      rw [List.getElem?_eq_getElem hil] at e1
      have := Sl.get_eq_toList.1 (a1 i (by omega) (by omega))
      rw [hgetD i _ e1] at this
      rw [this, List.getElem?_eq_getElem hil]
    -- and differ at `ps.length`
    have hdiff : ∃ x, s.bestPath.toList[ps.length]? = some x ∧ x ≠ p := by
      rcases a2 with ⟨b1, b2⟩ | ⟨b1, b2, x, b3, b4⟩
      · have hlt : ps.length < s.bestPath.toList.length := by omega
        refine ⟨_, List.getElem?_eq_getElem hlt, fun hxp => ?_⟩
        have hIfull := frames_idxPath s.path s.choices lv h5 (by omega)
        have hag : ∀ i, i < s.path.length → s.path.reverse[i]? = s.bestPath.toList[i]? := by
          intro i hi
          rcases Nat.lt_or_ge i ps.length with hlt' | hge
          · rw [r1 i hlt']; exact hagree i hlt'
          · have : i = ps.length := by omega
            subst this
            rw [r2, List.getElem?_eq_getElem hlt, hxp]
        obtain ⟨e, _⟩ := lb_prefix_of_agree hIfull h1 (by omega) hB.leaf hB.idx hag
        rw [← h3, List.take_length] at e
        exact (hoff hcnt).2 e
      · refine ⟨x, ?_, ?_⟩
        · have := Sl.get_eq_toList.1 b3
          rw [show idx - 1 = ps.length by omega] at this
          exact this
        · rw [show idx - 1 = ps.length by omega, hgetD _ _ r2] at b4
          exact fun e => b4 e.symm
    obtain ⟨hpreB, hcompl⟩ := lb_child_complete hnb hA hD h1 ht2 hc2 hc.part.perm hB hcert hIk (by omega) hagree hdiff
      g1 (show c - st = p by omega) hcnt hf
    subst es
    have hjk : s.path.length - j - 1 = ps.length := by omega
    have htake : ∀ L, L < (p :: ps).length →
        (gh.vs.take (s.path.length - j - 1)).take L = gh.vs.take L := by
      intro L hL
      simp only [List.length_cons] at hL
      exact take_take_le gh.vs (by omega)
    have hγaut : IsAutL nb n (transport n s.bestPerm.toList s.op.order.toList) :=
      aut_of_cert hnb hB.perm hc.part.perm hcert
    have hγpres : ∀ L, gh.vs.take L = gh.vsB.take L → ∀ u, u < n →
        IR.col (nodeL n nb rf r gh.vs L).c ((transport n s.bestPerm.toList s.op.order.toList).getD u 0) =
          IR.col (nodeL n nb rf r gh.vs L).c u :=
      fun L hpre => recorded_gen_preserves hnb hA hD hB.path hB.col hB.perm h1 hc2 hc.part.perm hpre.symm
    have hnewC : ∀ w, (cellL n nb rf r gh.vs ps.length st)[c - st]? = some w →
        Complete n nb rf s.currentBest.toList (IR.childSt (irG n nb) rf (nodeL n nb rf r gh.vs ps.length) st w) := by
      intro w hw'
      rw [show c - st = p by omega, ← g3a] at hw'
      exact hcompl w hw'
    refine ⟨lv.drop j, s.path.length - j - 1, ?_, ⟨?_, ?_, ?_, ?_, ?_⟩,
      bo, b0, fo, merges, gens', ngens', op', j, hl1, hl2, hrec, by omega, rfl, rfl, hdt', rfl⟩
    · obtain ⟨q1, q2, q3, q4, _⟩ := deageTimes_spec (StepQ.trivial n nb s.currentBest s.firstLeaf) j s.op op'
        hc.part hc.age (by rw [hI.age]; omega) trivial hdt'
      show LevelsOK op' (s.path.drop j) (s.choices.drop j) (lv.drop j)
      apply LevelsOK_frame q4 _ _ _ _ hlvd0
      simp only [List.length_drop]; rw [hI.age]; omega
    · exact walk_truncate (s := s) j hc.part hc.age (by omega) (fun _ => by omega) hdt' rfl rfl hw
    · constructor
      · intro _; exact hG.first hcnt
      · intro _; exact hB
      · intro γ' hγ'
        rcases List.mem_cons.1 hγ' with e | e
        · rw [e]; exact hγaut
        · exact hG.bgsAut _ e
      · intro h0; exact absurd h0 (Nat.succ_ne_zero _)
      · intro _
        obtain ⟨d1, d2, d3⟩ := hG.bestOrb hcnt
        exact lb_bestOrb hB.perm hB.inv d1 d2 d3 hl1
      · exact hG.bpLen
      · exact hG.fpLen
    · have hinvFl := (hJ.1.orb hcnt).1
      have c1 := CovFrames.mono_orbits (s := s) (vs := gh.vs)
        (s' := { s with count := s.count + 1, bestOrbits := bo, flOrbits := fo, gens := gens', ngens := ngens',
                        op := op', path := s.path.drop j, choices := s.choices.drop j })
        rfl (onFirstB_count_succ hcnt rfl rfl)
        (fun w y hw hy => nonroot_orbitLoop hinvFl hl2 hw hy) false s.path s.choices lv hcov
      have c2 := lb_cov_drop j _ _ _ c1
      rw [hq, eq1, eq2] at c2
      have c3 := c2.finish_child (fun w hw' => Or.inl (hnewC w hw'))
      have c4 := CovFrames.congr (vs := gh.vs) (vs' := gh.vs.take (s.path.length - j - 1)) rfl (fun _ => rfl) rfl
        true (p :: ps) (c :: cs) ((st, sz) :: ls) htake c3
      show CovFrames n nb rf r _ (gh.vs.take (s.path.length - j - 1)) true (s.path.drop j) (s.choices.drop j) (lv.drop j)
      rw [hq, eq1, eq2]
      exact c4
    · have f1 : FrameAux n nb rf r gh s gh.vs true (p :: ps) (c :: cs) ((st, sz) :: ls) :=
        FrameAux.mk (hf.finish_child hcnt (fun w hw' _ => hnewC w hw')) (FrameAux.tail hauxd)
      have hgn := lb_gens_new hB.perm hc.part.lenOrder hB.inv hrec
      have f2 := lb_frameAux_upd (gh := gh) (us := gh.vs) (us' := gh.vs.take (s.path.length - j - 1))
        (gh' :=
          { gh with
            vs := gh.vs.take (s.path.length - j - 1),
            bgs := transport n s.bestPerm.toList s.op.order.toList :: gh.bgs })
        (s := s)
        (s' := { s with count := s.count + 1, bestOrbits := bo, flOrbits := fo, gens := gens', ngens := ngens',
                        op := op', path := s.path.drop j, choices := s.choices.drop j })
        hcnt (Nat.succ_pos _) rfl rfl rfl true (p :: ps) (c :: cs) ((st, sz) :: ls) htake
        (fun L _ hpre hold k hk g hg u hu => by
          rcases hgn k hk g hg with ⟨hk', hg'⟩ | e
          · exact hold k hk' g hg' u hu
          · rw [e]; exact hγpres L hpre u hu)
        (fun L _ hpre hold γ' hγ' u hu => by
          rcases List.mem_cons.1 hγ' with e | e
          · rw [e]; exact hγpres L hpre u hu
          · exact hold γ' e u hu)
        f1
      rw [← hq, ← eq1, ← eq2] at f2
      exact f2
    · intro hp
      exfalso
      have hp' : s.path.drop j = [] := hp
      rw [hq] at hp'
      cases hp'

set_option linter.unusedVariables false in
include hnb hA hD in
/-- a leaf with the certificate of the best leaf: orbits merged, generator recorded, back-jump against `bestPath` -/
theorem dfs_leaf_eqbest (lv : List (Nat × Nat)) (s s1 : LS) (gh : Gh) (hI : MInv n m nb s)
    (hlv : LevelsOK s.op s.path s.choices lv) (hleaf : s.op.binDividers.len = n)
    (hJ : CertM n m nb lv false s) (h : DNodev n nb rf r gh lv s) (hs1 : leafNode n m s = .ok s1)
    (hJ1 : CertA n m nb lv s1)
    (hc1 : (compare s.op.value.toList s.currentBest.toList == 1 || s.count + 1 == 1) = false)
    (hc0 : (compare s.op.value.toList s.currentBest.toList == 0) = true) :
    ∃ lv1, LevelsOK s1.op s1.path s1.choices lv1 ∧ DA n nb rf r lv1 s1 := by
  obtain ⟨lv1, k, h1, h2, _⟩ := dfs_leaf_eqbest_v hnb hA hD lv s s1 gh hI hlv hleaf hJ h hs1 hJ1 hc1 hc0
  exact ⟨lv1, h1, _, h2⟩

end
end CanonF
