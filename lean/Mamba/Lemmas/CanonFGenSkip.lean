import Mamba.Lemmas.CanonFGenBase
/-!
# The generator layer (G-layer) through the Heuristic-2 skips of `jLoop`

The generators and the first-leaf path do not change; the newly processed member of the top frame is not the first-path
child (`futF` of the D-layer).
-/
namespace CanonF

section
variable {n m : Nat} {nb : Nbrs} {rf : Nat} {r : IR.St}

/-- the `FrameAuxG` part of a Heuristic-2 skip -/
theorem gs_frameAuxG_skip {gh : Gh} {s s' : LS} {us : List Nat} {p c st sz : Nat} {ps cs : List Nat}
    {ls : List (Nat × Nat)}
    (haux : FrameAuxG n nb rf r gh s us true (p :: ps) (c :: cs) ((st, sz) :: ls))
    (hd : FrameAux n nb rf r gh s us true (p :: ps) (c :: cs) ((st, sz) :: ls))
    (e1 : s'.count = s.count) (e2 : s'.gens = s.gens) (e3 : s'.ngens = s.ngens) :
    FrameAuxG n nb rf r gh s' us true (p :: ps) ((c - 1) :: cs) ((st, sz) :: ls) :=
  FrameAuxG.congr (s := s) (s' := s') (us := us) (us' := us) e1 e2 e3 true _ _ _ (fun _ _ => rfl)
    (FrameAuxG.mk (haux.head.step_head hd.head) haux.tail)

set_option linter.unusedVariables false in
theorem gen_skipA (gh : Gh) (st sz : Nat) (ls : List (Nat × Nat)) (s : LS) (c : Nat) (cs : List Nat) (p : Nat) (ps : List Nat)
    (ce : Nat) (x : Int) (k : Nat) (hc : Core n s) (ht : TopOK s.op (k + 1) s.path s.choices ((st, sz) :: ls))
    (hsk : s.skipDeage = false) (hage : s.op.age + 1 = s.path.length) (hch : s.choices = c :: cs)
    (hpth : s.path = p :: ps) (hget : s.op.order.get (c - 1) = .ok ce)
    (hon : (decide (s.count > 0) && hasPrefix s.flPath.toList ps.reverse) = true)
    (hx : s.flOrbits[ce]? = some x) (hx0 : x ≥ 0)
    (hJ : CertN n m nb ((st, sz) :: ls) s) (hDv : DNv n nb rf r gh ((st, sz) :: ls) s)
    (hAv : ANv n nb rf r gh ((st, sz) :: ls) s)
    (hGv : GNv n nb rf r gh ((st, sz) :: ls) s) :
    GNv n nb rf r gh ((st, sz) :: ls) { s with choices := (c - 1) :: cs, skipDeage := true } := by
  obtain ⟨_, _, _, haux⟩ := hDv
  unfold GNv at hGv ⊢
  rw [hpth, hch] at hGv haux
  exact FrameAuxG.path_eq hpth (gs_frameAuxG_skip hGv haux rfl rfl rfl)

set_option linter.unusedVariables false in
theorem gen_skipB (gh : Gh) (st sz : Nat) (ls : List (Nat × Nat)) (s : LS) (c : Nat) (cs : List Nat) (p : Nat) (ps : List Nat)
    (ce : Nat) (bo : Disjoint.DS) (k : Nat) (hc : Core n s) (ht : TopOK s.op (k + 1) s.path s.choices ((st, sz) :: ls))
    (hsk : s.skipDeage = false) (hage : s.op.age + 1 = s.path.length) (hch : s.choices = c :: cs)
    (hpth : s.path = p :: ps) (hget : s.op.order.get (c - 1) = .ok ce)
    (hon : (decide (s.count > 0) && !hasPrefix s.flPath.toList ps.reverse && hasPrefix s.bestPath.toList ps.reverse) = true)
    (hh : h2Best s.op s.bestOrbits (c - 1) ce = .ok (true, bo))
    (hJ : CertN n m nb ((st, sz) :: ls) s) (hDv : DNv n nb rf r gh ((st, sz) :: ls) s)
    (hAv : ANv n nb rf r gh ((st, sz) :: ls) s)
    (hGv : GNv n nb rf r gh ((st, sz) :: ls) s) :
    GNv n nb rf r gh ((st, sz) :: ls) { s with choices := (c - 1) :: cs, bestOrbits := bo, skipDeage := true } := by
  obtain ⟨_, _, _, haux⟩ := hDv
  unfold GNv at hGv ⊢
  rw [hpth, hch] at hGv haux
  exact FrameAuxG.path_eq hpth (gs_frameAuxG_skip hGv haux rfl rfl rfl)
end
end CanonF
