import Mamba.Lemmas.SearchRem
namespace Search

variable (O : Oracle) (pre pr : DG → Bool)

/-- the effective `stepForward` of a configuration -/
def Mode.eff : Mode → Bool
  | .outer false _ => false
  | .outer true sf => sf
  | .step sf => sf
  | .inner sf _ => sf

/-- invariant of the configurations of `run` (for the parameters `n`, `K` of the traversal) -/
structure MInv (n : Nat) (K : Nat → Nat → Bool) (mode : Mode) (s : State) : Prop where
  hn : s.n = n
  hK : ∀ i L, K i L = (i % s.m != s.a && (L : Int) == splitLevel s.n)
  sized : s.g.Sized
  le : s.g.nv ≤ s.n
  lt : mode.eff = true → s.g.nv < s.n
  level : s.g.nv = s.currentPath.size + (if mode.eff then 0 else 1)

variable {O pre pr}
variable {n : Nat} {K : Nat → Nat → Bool} {node : DG → Option Ans → Outcome (List DG)}

/-- going deeper: the subtree of an accepted node is the pending work of the frame it pushes -/
theorem rem_outer_push (hfix : NodeFix O pre pr n K node) {sf : Bool} {s : State}
    (hi : MInv n K (.outer false sf) s) (hne : s.g.nv ≠ s.n) {ch : Array Nat} {cache : Option Ans} {num : Nat}
    (haug : addAugmentations O s.n s.g s.choices s.cache = .ok (ch, cache, num)) :
    remM O pre pr n K node (.outer false sf) s =
      remM O pre pr n K node (.step true)
        { s with choices := ch, cache := cache, currentPath := s.currentPath.push num } := by
  obtain ⟨new, h1, h2, h3⟩ := addAugmentations_append O s.n s.g s.cache s.choices haug
  have hn := hi.hn
  subst hn
  have hfx := hfix s.g s.cache hi.le
  rw [if_neg hne, h3 #[]] at hfx
  simp only [Array.empty_append] at hfx
  simp only [remM, remStep, hfx, parentOf, h1, h2, topList_append, topList_push]
  have htake : (topList new ++ topList s.choices).take new.size = topList new := by
    rw [List.take_append_of_le_length (Nat.le_of_eq (topList_length new).symm),
      List.take_of_length_le (Nat.le_of_eq (topList_length new))]
  have hdrop : (topList new ++ topList s.choices).drop new.size = topList s.choices := by
    rw [List.drop_append_of_le_length (Nat.le_of_eq (topList_length new).symm),
      List.drop_of_length_le (Nat.le_of_eq (topList_length new))]
    rfl
  by_cases hall : topList new ++ topList s.choices = []
  · have hnew : topList new = [] := (List.append_eq_nil_iff.1 hall).1
    have hc : topList s.choices = [] := (List.append_eq_nil_iff.1 hall).2
    simp [hnew, hc, subKids]
  · simp only [hall, if_false, Bool.false_eq_true, if_true, remFrames, htake, hdrop]
    cases hk : subKids O pre pr s.n K node s.g (topList new) new.size with
    | panic => rfl
    | outOfFuel => rfl
    | ok o1 =>
      simp only
      by_cases hc : topList s.choices = []
      · simp [hc]
      · simp only [hc, if_false]
        cases s.g.removeLast with
        | ok P' =>
          cases remFrames O pre pr s.n K node P' (topList s.currentPath) (topList s.choices) <;> rfl
        | panic => rfl
        | outOfFuel => rfl

theorem rem_step_inner {sf : Bool} {s : State} {cp : Nat} (h0 : s.choices.size ≠ 0)
    (hb : s.currentPath.back? = some cp) :
    remM O pre pr n K node (.step sf) s = remM O pre pr n K node (.inner sf cp) s := by
  have hc : topList s.choices ≠ [] := fun e => h0 ((topList_eq_nil _).1 e)
  simp only [remM, remStep, hc, if_false]
  rw [topList_of_back? hb]
  simp only [List.tail_cons]

/-- what `if !sf then removeClear s else .ok s` returns -/
theorem cleared_ok {sf : Bool} {s s1 : State} (h : (if !sf then removeClear s else .ok s) = .ok s1) :
    parentOf s.g sf = .ok s1.g ∧ s1.choices = s.choices ∧ s1.currentPath = s.currentPath ∧ s1.n = s.n ∧
      s1.a = s.a ∧ s1.m = s.m ∧ s1.first = s.first ∧ (sf = false → s1.g.nv + 1 = s.g.nv ∧ s1.g.Sized) ∧
      (sf = true → s1 = s) := by
  cases sf with
  | true =>
    simp only [Bool.not_true, Bool.false_eq_true, if_false, Outcome.ok.injEq] at h
    subst h
    simp [parentOf]
  | false =>
    simp only [Bool.not_false, if_true] at h
    obtain ⟨g, hg, rfl⟩ := removeClear_ok h
    have := removeLast_sized hg
    simp [parentOf, hg, this.1, this.2]

theorem rem_inner_zero {sf : Bool} {s s1 : State}
    (hs1 : (if !sf then removeClear s else .ok s) = .ok s1) :
    remM O pre pr n K node (.inner sf 0) s =
      remM O pre pr n K node (.step false) { s1 with currentPath := s1.currentPath.pop } := by
  obtain ⟨hp, hch, hcp, -⟩ := cleared_ok hs1
  have hp2 : parentOf s1.g false = s1.g.removeLast := rfl
  simp only [remM, remStep, hp, hp2, hch, hcp, topList_pop, remFrames, List.take_zero, List.drop_zero]
  have hk0 : subKids O pre pr n K node s1.g [] 0 = .ok [] := by simp [subKids]
  simp only [hk0]
  by_cases hc : topList s.choices = []
  · simp [hc]
  · simp only [hc, if_false]
    cases s1.g.removeLast with
    | ok P' =>
      simp only
      cases remFrames O pre pr n K node P' (topList s.currentPath).tail (topList s.choices) with
      | ok o2 => simp
      | panic => rfl
      | outOfFuel => rfl
    | panic => rfl
    | outOfFuel => rfl

/-- a child that contributes nothing -/
theorem remFrames_kid_none {P : DG} {i x : Nat} {cps chs' : List Nat}
    (h : subKids O pre pr n K node P (x :: chs'.take i) (i + 1) = subKids O pre pr n K node P (chs'.take i) i) :
    remFrames O pre pr n K node P ((i + 1) :: cps) (x :: chs') = remFrames O pre pr n K node P (i :: cps) chs' := by
  simp only [remFrames, List.take_succ_cons, List.drop_succ_cons, h]

/-- an accepted child: its subtree, then the rest of the frames -/
theorem remFrames_kid_node {P g2 : DG} {cache : Option Ans} {i x : Nat} {cps chs' : List Nat}
    (h : subKids O pre pr n K node P (x :: chs'.take i) (i + 1) =
      match node g2 cache with
      | .panic => .panic
      | .outOfFuel => .outOfFuel
      | .ok o1 =>
        match subKids O pre pr n K node P (chs'.take i) i with
        | .ok o2 => .ok (o1 ++ o2)
        | .panic => .panic
        | .outOfFuel => .outOfFuel) :
    remFrames O pre pr n K node P ((i + 1) :: cps) (x :: chs') =
      match node g2 cache with
      | .ok o1 =>
        match remFrames O pre pr n K node P (i :: cps) chs' with
        | .ok r => .ok (o1 ++ r)
        | .panic => .panic
        | .outOfFuel => .outOfFuel
      | .panic => .panic
      | .outOfFuel => .outOfFuel := by
  simp only [remFrames, List.take_succ_cons, List.drop_succ_cons, h]
  cases node g2 cache with
  | panic => rfl
  | outOfFuel => rfl
  | ok o1 =>
    simp only
    cases subKids O pre pr n K node P (chs'.take i) i with
    | panic => rfl
    | outOfFuel => rfl
    | ok o2 =>
      simp only
      by_cases hd : chs'.drop i = []
      · simp [hd]
      · simp only [hd, if_false]
        cases P.removeLast with
        | panic => rfl
        | outOfFuel => rfl
        | ok P' =>
          simp only
          cases remFrames O pre pr n K node P' cps (chs'.drop i) with
          | panic => rfl
          | outOfFuel => rfl
          | ok o3 => simp

/-- facts about the configuration `inner sf (i+1)` once the top choice has been popped and the previous child removed -/
theorem inner_facts {sf : Bool} {i x : Nat} {s s1 : State} (hi : MInv n K (.inner sf (i + 1)) s)
    (hb : s.choices.back? = some x)
    (hs1 : (if !sf then removeClear { s with choices := s.choices.pop } else .ok { s with choices := s.choices.pop }) =
      .ok s1) :
    topList s.choices = x :: topList s.choices.pop ∧ parentOf s.g sf = .ok s1.g ∧ s1.g.Sized ∧
      s1.g.nv = s.currentPath.size ∧ s1.choices = s.choices.pop ∧ s1.currentPath = s.currentPath ∧
      s1.n = s.n ∧ s1.a = s.a ∧ s1.m = s.m ∧ s1.g.nv < s.n := by
  obtain ⟨hp, hch, hcp, hn, ha, hm, -, hf, ht⟩ := cleared_ok hs1
  have htl : topList s.choices = x :: topList s.choices.pop := by
    rw [topList_pop]; exact topList_of_back? hb
  refine ⟨htl, hp, ?_, ?_, hch, hcp, hn, ha, hm, ?_⟩
  · cases sf with
    | true => rw [ht rfl]; exact hi.sized
    | false => exact (hf rfl).2
  · have hl := hi.level
    cases sf with
    | true => rw [ht rfl]; simpa [Mode.eff] using hl
    | false =>
      have := (hf rfl).1
      simp only [Mode.eff, Bool.false_eq_true, if_false] at hl
      simp only at this
      omega
  · have hl := hi.le
    cases sf with
    | true => rw [ht rfl]; exact hi.lt rfl
    | false =>
      have := (hf rfl).1
      simp only at this
      omega

/-- the shard test skips the child -/
theorem rem_inner_skip {sf : Bool} {i x : Nat} {s : State} (hi : MInv n K (.inner sf (i + 1)) s)
    (hb : s.choices.back? = some x)
    (hskip : (i % s.m != s.a && ((s.currentPath.size : Nat) : Int) == splitLevel s.n) = true) :
    remM O pre pr n K node (.inner sf (i + 1)) s =
      remM O pre pr n K node (.inner sf i) { s with choices := s.choices.pop } := by
  have htl : topList s.choices = x :: topList s.choices.pop := by
    rw [topList_pop]; exact topList_of_back? hb
  simp only [remM, htl]
  cases hp : parentOf s.g sf with
  | panic => rfl
  | outOfFuel => rfl
  | ok P =>
    simp only
    have hnv : P.nv = s.currentPath.size := by
      have hl := hi.level
      cases sf with
      | true =>
        simp only [parentOf, if_true, Outcome.ok.injEq] at hp
        subst hp; simpa [Mode.eff] using hl
      | false =>
        simp only [parentOf, Bool.false_eq_true, if_false] at hp
        have := (removeLast_sized hp).2
        simp only [Mode.eff, Bool.false_eq_true, if_false] at hl
        omega
    apply remFrames_kid_none
    have : K i P.nv = true := by rw [hi.hK, hnv]; exact hskip
    simp only [subKids, this, if_true]

/-- the child is tried and rejected (prepruned, not canonical, or pruned) -/
theorem rem_inner_reject {sf : Bool} {i x : Nat} {s s1 : State} {g2 : DG} {c3 : Option Ans}
    (hi : MInv n K (.inner sf (i + 1)) s) (hb : s.choices.back? = some x)
    (hskip : (i % s.m != s.a && ((s.currentPath.size : Nat) : Int) == splitLevel s.n) = false)
    (hs1 : (if !sf then removeClear { s with choices := s.choices.pop } else .ok { s with choices := s.choices.pop }) =
      .ok s1)
    (hadd : s1.g.addVertex (bitsOf x) = .ok g2)
    (hrej : pre g2 = true ∨ ∃ canon, isCanonical O s1.n g2 (bitsOf x) none = .ok (c3, canon) ∧ (canon && !pr g2) = false) :
    remM O pre pr n K node (.inner sf (i + 1)) s =
      remM O pre pr n K node (.inner false i) { s1 with g := g2, cache := c3 } := by
  obtain ⟨htl, hp, hsz, hnv, hch, hcp, hn1, -, -, -⟩ := inner_facts hi hb hs1
  have hrem : g2.removeLast = .ok s1.g := removeLast_addVertex hsz (bitsOf_nodup x) hadd
  have hp2 : parentOf g2 false = .ok s1.g := by simp [parentOf, hrem]
  simp only [remM, htl, hp, hp2, hch, hcp]
  apply remFrames_kid_none
  have hk : K i s1.g.nv = false := by rw [hi.hK, hnv]; exact hskip
  have hnn : s1.n = n := hn1.trans hi.hn
  simp only [subKids, hk, Bool.false_eq_true, if_false, hadd]
  rcases hrej with hpre | ⟨canon, hcan, hacc⟩
  · simp [hpre]
  · by_cases hpre : pre g2 = true
    · simp [hpre]
    · have hpre' : pre g2 = false := by simpa using hpre
      rw [hnn] at hcan
      simp only [hpre', Bool.false_eq_true, if_false, hcan, hacc]

/-- the child is accepted: its subtree comes first -/
theorem rem_inner_accept {sf : Bool} {i x : Nat} {s s1 : State} {g2 : DG} {c3 : Option Ans} {canon : Bool}
    (hi : MInv n K (.inner sf (i + 1)) s) (hb : s.choices.back? = some x)
    (hskip : (i % s.m != s.a && ((s.currentPath.size : Nat) : Int) == splitLevel s.n) = false)
    (hs1 : (if !sf then removeClear { s with choices := s.choices.pop } else .ok { s with choices := s.choices.pop }) =
      .ok s1)
    (hadd : s1.g.addVertex (bitsOf x) = .ok g2) (hpre : pre g2 = false)
    (hcan : isCanonical O s1.n g2 (bitsOf x) none = .ok (c3, canon)) (hacc : (canon && !pr g2) = true)
    (hcp0 : s1.currentPath.size ≠ 0) :
    remM O pre pr n K node (.inner sf (i + 1)) s =
      remM O pre pr n K node (.outer false false)
        { s1 with g := g2, cache := c3,
                  currentPath := s1.currentPath.setIfInBounds (s1.currentPath.size - 1) i } := by
  obtain ⟨htl, hp, hsz, hnv, hch, hcp, hn1, -, -, -⟩ := inner_facts hi hb hs1
  have hrem : g2.removeLast = .ok s1.g := removeLast_addVertex hsz (bitsOf_nodup x) hadd
  have hp2 : parentOf g2 false = .ok s1.g := by simp [parentOf, hrem]
  have hk : K i s1.g.nv = false := by rw [hi.hK, hnv]; exact hskip
  have hnn : s1.n = n := hn1.trans hi.hn
  rw [hnn] at hcan
  have hcp0' : s.currentPath.size ≠ 0 := hcp ▸ hcp0
  simp only [remM, remStep, htl, hp, hp2, hch, hcp, topList_set_last _ _ hcp0']
  rw [remFrames_kid_node (g2 := g2) (cache := c3)
    (by simp only [subKids, hk, Bool.false_eq_true, if_false, hadd, hpre, hcan, hacc, if_true]; rfl)]
  cases node g2 c3 with
  | panic => rfl
  | outOfFuel => rfl
  | ok o1 =>
    simp only
    by_cases hc : topList s.choices.pop = []
    · simp [hc, remFrames, subKids]
    · simp only [hc, if_false]
      rfl

end Search
