import Mamba.Lemmas.DawgRep
/-! Builder invariants for C12: the register (`RegOK`), the unregistered last-word path (`Spine`), frame lemmas. -/
namespace Dawg

/-- 0 for exact word counts, 1 for "incremented by the `commonPrefix` walk of the add in progress" -/
def dlt (k : Nat) : Nat := if k = 0 then 0 else 1

/-- the register: every registered node represents a non-empty language, links of registered nodes are registered,
no two registered nodes have the same (final, labels, links), the root (pointer 0) is never registered -/
structure RegOK (h : Heap) (R : List Nat) : Prop where
  rep : ∀ u ∈ R, ∃ L, Rep h u L ∧ L ≠ []
  closed : ∀ u ∈ R, ∀ n, h[u]? = some n → ∀ q ∈ n.links, q ∈ R
  distinct : ∀ u ∈ R, ∀ v ∈ R, ∀ nu nv, h[u]? = some nu → h[v]? = some nv →
    nu.final = nv.final → nu.labels = nv.labels → nu.links = nv.links → u = v
  nz : 0 ∉ R

/-- an unregistered node all of whose children are registered and represent the right sub-languages -/
structure NodeRep (h : Heap) (R : List Nat) (p : Nat) (L : List Word) (δ : Nat) (n : Node) : Prop where
  get : h[p]? = some n
  notReg : p ∉ R
  sorted : L.Pairwise (· < ·)
  fin : n.final = true ↔ [] ∈ L
  num : n.numWords = L.length + δ
  labs : n.labels.Pairwise (· < ·)
  lens : n.labels.length = n.links.length
  mem : ∀ c, c ∈ n.labels ↔ sub L c ≠ []
  kids : ∀ (j c q : Nat), n.labels[j]? = some c → n.links[j]? = some q → q ∈ R ∧ Rep h q (sub L c)

/-- `Spine h R k sp v L Le`: `sp` is a path of unregistered nodes spelling `v`, each following the *last* link of its
predecessor; the head represents `L`, the end node represents `Le` with registered children only; all other children
are registered; the first `k` nodes carry a word count that is one too large. -/
inductive Spine (h : Heap) (R : List Nat) : Nat → List Nat → Word → List Word → List Word → Prop where
  | last {k p : Nat} {L : List Word} {n : Node} : NodeRep h R p L (dlt k) n → Spine h R k [p] [] L L
  | node {k p s c : Nat} {sp : List Nat} {v : Word} {L Le : List Word} {n : Node} {ls qs : List Nat} :
      h[p]? = some n → p ∉ R → s ≠ 0 → L.Pairwise (· < ·) → (n.final = true ↔ [] ∈ L) →
      n.numWords = L.length + dlt k → n.labels.Pairwise (· < ·) →
      n.labels = ls ++ [c] → n.links = qs ++ [s] → ls.length = qs.length →
      (∀ c', c' ∈ n.labels ↔ sub L c' ≠ []) →
      (∀ (j c' q : Nat), ls[j]? = some c' → qs[j]? = some q → q ∈ R ∧ Rep h q (sub L c')) →
      Spine h R (k - 1) (s :: sp) v (sub L c) Le →
      Spine h R k (p :: s :: sp) (c :: v) L Le

/-- `h'` agrees with `h` on the pointers in `S` -/
def AgreeOn (h h' : Heap) (S : List Nat) : Prop := ∀ u ∈ S, h'[u]? = h[u]?

theorem Rep.frame {h h' : Heap} {R : List Nat} (hclosed : ∀ u ∈ R, ∀ n, h[u]? = some n → ∀ q ∈ n.links, q ∈ R)
    (hag : AgreeOn h h' R) {p : Nat} {L : List Word} (hr : Rep h p L) (hp : p ∈ R) : Rep h' p L := by
  induction hr with
  | @mk p n L hn hs hf hnum hlab hlen hmem hkids ih =>
    refine Rep.mk (by rw [hag p hp]; exact hn) hs hf hnum hlab hlen hmem ?_
    intro j c q hj hq
    exact ih j c q hj hq (hclosed p hp n hn q (List.mem_of_getElem? hq))

theorem RegOK.frame {h h' : Heap} {R : List Nat} (hreg : RegOK h R) (hag : AgreeOn h h' R) : RegOK h' R := by
  refine ⟨?_, ?_, ?_, hreg.nz⟩
  · intro u hu
    obtain ⟨L, hL, hne⟩ := hreg.rep u hu
    exact ⟨L, hL.frame hreg.closed hag hu, hne⟩
  · intro u hu n hn
    rw [hag u hu] at hn
    exact hreg.closed u hu n hn
  · intro u hu v hv nu nv hnu hnv
    rw [hag u hu] at hnu
    rw [hag v hv] at hnv
    exact hreg.distinct u hu v hv nu nv hnu hnv

theorem NodeRep.frame {h h' : Heap} {R : List Nat} {p : Nat} {L : List Word} {δ : Nat} {n : Node}
    (hreg : RegOK h R) (hag : AgreeOn h h' R) (hp : h'[p]? = h[p]?) (hn : NodeRep h R p L δ n) :
    NodeRep h' R p L δ n := by
  refine ⟨by rw [hp]; exact hn.get, hn.notReg, hn.sorted, hn.fin, hn.num, hn.labs, hn.lens, hn.mem, ?_⟩
  intro j c q hj hq
  obtain ⟨h1, h2⟩ := hn.kids j c q hj hq
  exact ⟨h1, h2.frame hreg.closed hag h1⟩

theorem Spine.frame {h h' : Heap} {R : List Nat} (hreg : RegOK h R) (hag : AgreeOn h h' R)
    {k : Nat} {sp : List Nat} {v : Word} {L Le : List Word} (hs : Spine h R k sp v L Le)
    (hsp : AgreeOn h h' sp) : Spine h' R k sp v L Le := by
  induction hs with
  | last hn => exact Spine.last (hn.frame hreg hag (hsp _ List.mem_cons_self))
  | node hn hpR hs0 hsort hf hnum hlab hlabs hlinks hlen hmem hkids _ ih =>
    refine Spine.node (by rw [hsp _ List.mem_cons_self]; exact hn) hpR hs0 hsort hf hnum hlab hlabs hlinks hlen hmem ?_
      (ih (fun u hu => hsp u (List.mem_cons_of_mem _ hu)))
    intro j c' q hj hq
    obtain ⟨h1, h2⟩ := hkids j c' q hj hq
    exact ⟨h1, h2.frame hreg.closed hag h1⟩

/-- enlarging the register keeps a spine, provided the new members are not on it -/
theorem Spine.mono {h : Heap} {R R' : List Nat} (hsub : ∀ u ∈ R, u ∈ R')
    {k : Nat} {sp : List Nat} {v : Word} {L Le : List Word} (hs : Spine h R k sp v L Le)
    (hsp : ∀ p ∈ sp, p ∉ R') : Spine h R' k sp v L Le := by
  induction hs with
  | last hn =>
    refine Spine.last ⟨hn.get, hsp _ List.mem_cons_self, hn.sorted, hn.fin, hn.num, hn.labs, hn.lens, hn.mem, ?_⟩
    intro j c q hj hq
    obtain ⟨h1, h2⟩ := hn.kids j c q hj hq
    exact ⟨hsub _ h1, h2⟩
  | node hn hpR hs0 hsort hf hnum hlab hlabs hlinks hlen hmem hkids _ ih =>
    refine Spine.node hn (hsp _ List.mem_cons_self) hs0 hsort hf hnum hlab hlabs hlinks hlen hmem ?_
      (ih (fun u hu => hsp u (List.mem_cons_of_mem _ hu)))
    intro j c' q hj hq
    obtain ⟨h1, h2⟩ := hkids j c' q hj hq
    exact ⟨hsub _ h1, h2⟩

/-- the word spelled by a complete spine belongs to the language of its head -/
theorem Spine.word_mem {h : Heap} {R : List Nat} {k : Nat} {sp : List Nat} {v : Word} {L : List Word}
    (hs : Spine h R k sp v L [[]]) : v ∈ L := by
  generalize hLe : ([[]] : List Word) = Le at hs
  induction hs with
  | last hn => subst hLe; simp
  | node _ _ _ _ _ _ _ _ _ _ _ _ _ ih => exact mem_sub.1 (ih hLe)

theorem Spine.valid {h : Heap} {R : List Nat} {k : Nat} {sp : List Nat} {v : Word} {L Le : List Word}
    (hs : Spine h R k sp v L Le) : ∀ p ∈ sp, p < h.size ∧ p ∉ R := by
  induction hs with
  | last hn =>
    intro p hp
    simp only [List.mem_singleton] at hp
    subst hp
    exact ⟨(Array.getElem?_eq_some_iff.1 hn.get).1, hn.notReg⟩
  | node hn hpR _ _ _ _ _ _ _ _ _ _ _ ih =>
    intro p' hp'
    rw [List.mem_cons] at hp'
    rcases hp' with rfl | hp'
    · exact ⟨(Array.getElem?_eq_some_iff.1 hn).1, hpR⟩
    · exact ih p' hp'

theorem Spine.length_eq {h : Heap} {R : List Nat} {k : Nat} {sp : List Nat} {v : Word} {L Le : List Word}
    (hs : Spine h R k sp v L Le) : sp.length = v.length + 1 := by
  induction hs with
  | last _ => rfl
  | node _ _ _ _ _ _ _ _ _ _ _ _ _ ih => simp [ih]

end Dawg
