import Mamba.Lemmas.DistanceICycles1
import Mamba.Lemmas.DistanceIPaths1
/-!
# Lemmas for C10: every induced cycle with `c` vertices has exactly `2c` rooted directed vertex sequences
-/
namespace GDist
open GraphSpec List

variable {g : G}

/-- rooted directed induced cycle sequences with `c` vertices -/
def IsIndCycleSeq (g : G) (c : Nat) (q : List Nat) : Prop :=
  IsCycleSeq g q ∧ chordlessCyc g q = true ∧ q.length = c

theorem canon_no_reflection {l : Nat} {cn : List Nat} (hc : IsCanonCycle g l cn) : ¬ cn ~r cn.reverse := by
  intro hr
  obtain ⟨hdX, hX2⟩ := canon_decomp hc
  have h2 : cn.reverse ~r (cn.dropLast.reverse ++ [cn.getLastD 0]) := by
    conv_lhs => rw [hdX, List.reverse_append]
    simpa using (IsRotated.cons_append_singleton (a := cn.getLastD 0) (l := cn.dropLast.reverse))
  have h3 := hr.trans h2
  have hlast : cn.getLast? = (cn.dropLast.reverse ++ [cn.getLastD 0]).getLast? := by
    rw [getLast?_of_ne_nil hc.1.ne_nil, List.getLast?_append]; simp
  have heq := rot_eq_of_last hc.1.2.1 h3 hlast
  have hX : cn.dropLast = cn.dropLast.reverse := by
    have := congrArg List.dropLast heq
    rwa [List.dropLast_concat] at this
  have hnd : cn.dropLast.Nodup := by
    have := hc.1.2.1
    rw [hdX] at this
    exact (List.nodup_append.1 this).1
  have hne := head_ne_last_of_nodup hnd hX2
  apply hne
  conv_lhs => rw [hX]
  exact headD_reverse _

/-- the `2c` sequences of a canonical cycle -/
def orbitList (cn : List Nat) : List (List Nat) := cyclicPermutations cn ++ cyclicPermutations cn.reverse

theorem mem_orbitList {cn q : List Nat} : q ∈ orbitList cn ↔ (q ~r cn ∨ q ~r cn.reverse) := by
  simp [orbitList, mem_cyclicPermutations_iff]

theorem length_orbitList {cn : List Nat} (h : cn ≠ []) : (orbitList cn).length = 2 * cn.length := by
  simp only [orbitList, List.length_append]
  rw [length_cyclicPermutations_of_ne_nil _ h, length_cyclicPermutations_of_ne_nil _ (by simpa using h)]
  simp; omega

/-- **orbit counting** -/
theorem indCycleSeq_count (hsym : ∀ u v, g.adj u v = g.adj v u) (c : Nat) {R : List (List Nat)}
    (hnd : R.Nodup) (hmem : ∀ q, q ∈ R ↔ IsIndCycleSeq g c q) :
    R.length = 2 * c * numInducedCycles g c := by
  have hCN : ∀ cn, cn ∈ canonInducedCycles g c ↔ (IsCanonCycle g c cn ∧ chordlessCyc g cn = true) :=
    fun cn => mem_canonInducedCycles
  have hperm : R.Perm ((canonInducedCycles g c).flatMap orbitList) := by
    have hnd2 : ((canonInducedCycles g c).flatMap orbitList).Nodup := by
      rw [List.nodup_flatMap]
      constructor
      · intro cn hcn
        obtain ⟨hcan, _⟩ := (hCN cn).1 hcn
        unfold orbitList
        rw [List.nodup_append]
        refine ⟨hcan.1.2.1.cyclicPermutations, (List.nodup_reverse.2 hcan.1.2.1).cyclicPermutations, ?_⟩
        intro a ha b hb hab
        subst hab
        rw [mem_cyclicPermutations_iff] at ha hb
        exact canon_no_reflection hcan (ha.symm.trans hb)
      · refine List.Pairwise.imp_of_mem ?_ (nodup_canonInducedCycles c)
        intro cn cn' hcn hcn' hne
        simp only [Function.onFun]
        rw [List.disjoint_left]
        intro q hq hq'
        apply hne
        obtain ⟨hcan, _⟩ := (hCN cn).1 hcn
        obtain ⟨hcan', _⟩ := (hCN cn').1 hcn'
        apply canon_unique hcan hcan'
        rcases mem_orbitList.1 hq with h1 | h1 <;> rcases mem_orbitList.1 hq' with h2 | h2
        · exact .inl (h1.symm.trans h2)
        · exact .inr (h1.symm.trans h2)
        · exact .inr (by simpa using (h1.symm.trans h2).reverse)
        · exact .inl (by simpa using (h1.symm.trans h2).reverse)
    refine (List.perm_ext_iff_of_nodup hnd hnd2).2 ?_
    intro q
    rw [hmem, List.mem_flatMap]
    constructor
    · rintro ⟨hcyc, hch, hlen⟩
      obtain ⟨c', hcan, hrel⟩ := canon_exists hsym hcyc
      rw [hlen] at hcan
      have hch' : chordlessCyc g c' = true := by
        rcases hrel with h | h
        · exact chordlessCyc_of_isRotated hsym hch h.symm
        · exact chordlessCyc_of_isRotated hsym (chordlessCyc_reverse hsym hch) h.symm
      refine ⟨c', (hCN c').2 ⟨hcan, hch'⟩, mem_orbitList.2 ?_⟩
      rcases hrel with h | h
      · exact .inl h.symm
      · exact .inr (by simpa using h.symm.reverse)
    · rintro ⟨cn, hcn, hq⟩
      obtain ⟨hcan, hch⟩ := (hCN cn).1 hcn
      rcases mem_orbitList.1 hq with h | h
      · exact ⟨isCycleSeq_of_isRotated hcan.1 h.symm, chordlessCyc_of_isRotated hsym hch h.symm,
          by rw [h.perm.length_eq]; exact hcan.2.1⟩
      · exact ⟨isCycleSeq_of_isRotated (isCycleSeq_reverse hsym hcan.1) h.symm,
          chordlessCyc_of_isRotated hsym (chordlessCyc_reverse hsym hch) h.symm,
          by rw [h.perm.length_eq]; simpa using hcan.2.1⟩
  rw [hperm.length_eq, length_flatMap_sum]
  have : ((canonInducedCycles g c).map fun cn => (orbitList cn).length)
      = (canonInducedCycles g c).map fun _ => 2 * c := by
    apply List.map_congr_left
    intro cn hcn
    obtain ⟨hcan, _⟩ := (hCN cn).1 hcn
    rw [length_orbitList hcan.1.ne_nil, hcan.2.1]
  rw [this]
  simp [numInducedCycles, Nat.mul_comm]

end GDist
