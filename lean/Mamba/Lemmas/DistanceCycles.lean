import Mamba.Lemmas.DistancePaths
import Mathlib.Data.List.Perm.Subperm
/-!
# Lemmas for C10: girth and the cycle / induced cycle / induced path counts
-/
namespace GDist
open GraphSpec

variable {g : G}

theorem getLastD_of_getLast? {p : List Nat} {s : Nat} (h : p.getLast? = some s) : p.getLastD 0 = s := by
  rw [List.getLastD_eq_getLast?, h]; rfl

theorem getLast?_of_ne_nil {p : List Nat} (h : p ≠ []) : p.getLast? = some (p.getLastD 0) := by
  cases p with
  | nil => exact absurd rfl h
  | cons a t => rw [List.getLastD_eq_getLast?]; simp [List.getLast?_cons]

theorem getLastD_mem {p : List Nat} (h : p ≠ []) : p.getLastD 0 ∈ p := by
  have := getLast?_of_ne_nil h
  exact List.mem_of_getLast? this

theorem leastUpTo_eq_some (p : Nat → Bool) : ∀ (f i l : Nat),
    leastUpTo p f i = some l ↔ (i ≤ l ∧ l < i + f ∧ p l = true ∧ ∀ j, i ≤ j → j < l → p j = false) := by
  intro f
  induction f with
  | zero => intro i l; simp only [leastUpTo]; constructor
            · intro h; cases h
            · rintro ⟨h1, h2, _⟩; omega
  | succ f ih =>
    intro i l
    simp only [leastUpTo]
    by_cases hp : p i = true
    · simp only [hp, if_true, Option.some.injEq]
      constructor
      · rintro rfl; exact ⟨Nat.le_refl _, by omega, hp, fun j h1 h2 => by omega⟩
      · rintro ⟨h1, _, _, h4⟩
        by_contra hne
        have := h4 i (Nat.le_refl _) (by omega)
        rw [hp] at this; cases this
    · simp only [hp, Bool.false_eq_true, if_false]
      rw [ih (i+1) l]
      have hp' : p i = false := by simpa using hp
      constructor
      · rintro ⟨h1, h2, h3, h4⟩
        refine ⟨by omega, by omega, h3, ?_⟩
        intro j hj1 hj2
        by_cases hji : j = i
        · subst hji; exact hp'
        · exact h4 j (by omega) hj2
      · rintro ⟨h1, h2, h3, h4⟩
        have : i ≠ l := by rintro rfl; rw [h3] at hp'; cases hp'
        exact ⟨by omega, by omega, h3, fun j hj1 hj2 => h4 j (by omega) hj2⟩

theorem leastUpTo_eq_none (p : Nat → Bool) : ∀ (f i : Nat),
    leastUpTo p f i = none ↔ ∀ j, i ≤ j → j < i + f → p j = false := by
  intro f
  induction f with
  | zero => intro i; simp only [leastUpTo, true_iff]; intro j h1 h2; omega
  | succ f ih =>
    intro i
    simp only [leastUpTo]
    by_cases hp : p i = true
    · simp only [hp, if_true]
      constructor
      · intro h; cases h
      · intro h; have := h i (Nat.le_refl _) (by omega); rw [hp] at this; cases this
    · simp only [hp, Bool.false_eq_true, if_false]
      rw [ih (i+1)]
      have hp' : p i = false := by simpa using hp
      constructor
      · intro h j hj1 hj2
        by_cases hji : j = i
        · subst hji; exact hp'
        · exact h j (by omega) (by omega)
      · intro h j hj1 hj2; exact h j (by omega) (by omega)

/-- a cycle has at most `n` vertices -/
theorem IsCycleSeq.length_le {c : List Nat} (h : IsCycleSeq g c) : c.length ≤ g.n := by
  have := (List.subperm_of_subset h.2.1 (fun x hx => List.mem_range.2 (h.2.2.1 x hx))).length_le
  simpa using this

theorem IsCycleSeq.ne_nil {c : List Nat} (h : IsCycleSeq g c) : c ≠ [] := by
  intro hc; have := h.1; rw [hc] at this; simp at this

theorem IsCycleSeq.isRPath {c : List Nat} (h : IsCycleSeq g c) : IsRPath g (c.getLastD 0) c :=
  ⟨getLast?_of_ne_nil h.ne_nil, h.2.1, h.2.2.1, h.2.2.2.1⟩

theorem hasCycle_iff (l : Nat) : hasCycle g l = true ↔ ∃ c, IsCycleSeq g c ∧ c.length = l := by
  simp only [hasCycle, Bool.and_eq_true, decide_eq_true_eq, List.any_eq_true, List.mem_range]
  constructor
  · rintro ⟨hl, s, hs, p, hp, hadj⟩
    obtain ⟨hb, hlen⟩ := mem_pathsFrom.1 hp
    obtain ⟨h1, h2, h3, h4⟩ := builtFrom_simple_iff.1 hb
    refine ⟨p, ⟨by omega, h2, h3, h4, ?_⟩, by omega⟩
    rw [getLastD_of_getLast? h1]; exact hadj
  · rintro ⟨c, hc, rfl⟩
    have hs : c.getLastD 0 < g.n := hc.2.2.1 _ (getLastD_mem hc.ne_nil)
    refine ⟨hc.1, c.getLastD 0, hs, c, ?_, hc.2.2.2.2⟩
    exact mem_pathsFrom.2 ⟨builtFrom_simple_iff.2 hc.isRPath, by have := hc.1; omega⟩

theorem mem_canonCycles {l : Nat} {c : List Nat} : c ∈ canonCycles g l ↔ IsCanonCycle g l c := by
  unfold canonCycles
  by_cases hl : l < 3
  · simp only [hl, if_true, List.not_mem_nil, false_iff]
    rintro ⟨h1, h2, _⟩
    have := h1.1; omega
  · simp only [hl, if_false, List.mem_flatMap, List.mem_range, List.mem_filter, Bool.and_eq_true,
      decide_eq_true_eq]
    constructor
    · rintro ⟨s, hs, hp, hadj, hlt⟩
      obtain ⟨hb, hlen⟩ := mem_pathsFrom.1 hp
      obtain ⟨⟨h1, h2, h3, h4⟩, habove⟩ := builtFrom_above_iff.1 hb
      have hlast := getLastD_of_getLast? h1
      refine ⟨⟨by omega, h2, h3, h4, by rw [hlast]; exact hadj⟩, by omega, ?_, hlt⟩
      rw [hlast]; exact habove
    · rintro ⟨hc, hlen, habove, hlt⟩
      have hs : c.getLastD 0 < g.n := hc.2.2.1 _ (getLastD_mem hc.ne_nil)
      refine ⟨c.getLastD 0, hs, ?_, hc.2.2.2.2, hlt⟩
      exact mem_pathsFrom.2 ⟨builtFrom_above_iff.2 ⟨hc.isRPath, habove⟩, by omega⟩

theorem nodup_canonCycles (l : Nat) : (canonCycles g l).Nodup := by
  unfold canonCycles
  split
  · simp
  · rw [List.nodup_flatMap]
    refine ⟨fun s _ => (nodup_pathsFrom _).filter _, ?_⟩
    refine List.Pairwise.imp ?_ List.nodup_range
    intro s t hst
    simp only [Function.onFun]
    rw [List.disjoint_left]
    intro p hp hq
    have h1 := (builtFrom_above_iff.1 (mem_pathsFrom.1 (List.mem_filter.1 hp).1).1).1.1
    have h2 := (builtFrom_above_iff.1 (mem_pathsFrom.1 (List.mem_filter.1 hq).1).1).1.1
    rw [h1] at h2
    exact hst (Option.some.inj h2)

theorem mem_canonInducedCycles {l : Nat} {c : List Nat} :
    c ∈ canonInducedCycles g l ↔ IsCanonCycle g l c ∧ chordlessCyc g c = true := by
  simp [canonInducedCycles, List.mem_filter, mem_canonCycles]

theorem nodup_canonInducedCycles (l : Nat) : (canonInducedCycles g l).Nodup :=
  (nodup_canonCycles l).filter _

theorem mem_canonInducedPaths {l : Nat} {p : List Nat} :
    p ∈ canonInducedPaths g l ↔ IsCanonInducedPath g l p := by
  simp only [canonInducedPaths, List.mem_flatMap, List.mem_range, List.mem_filter, Bool.or_eq_true,
    beq_iff_eq, decide_eq_true_eq]
  constructor
  · rintro ⟨s, hs, hp, hdir⟩
    obtain ⟨hb, hlen⟩ := mem_pathsFrom.1 hp
    obtain ⟨⟨h1, h2, h3, h4⟩, hch⟩ := builtFrom_induced_iff.1 hb
    refine ⟨hlen, h2, h3, h4, hch, ?_⟩
    rw [getLastD_of_getLast? h1]; exact hdir
  · rintro ⟨hlen, h2, h3, h4, hch, hdir⟩
    have hne : p ≠ [] := by intro h; rw [h] at hlen; simp at hlen
    have hs : p.getLastD 0 < g.n := h3 _ (getLastD_mem hne)
    refine ⟨p.getLastD 0, hs, ?_, hdir⟩
    exact mem_pathsFrom.2 ⟨builtFrom_induced_iff.2 ⟨⟨getLast?_of_ne_nil hne, h2, h3, h4⟩, hch⟩, hlen⟩

theorem nodup_canonInducedPaths (l : Nat) : (canonInducedPaths g l).Nodup := by
  unfold canonInducedPaths
  rw [List.nodup_flatMap]
  refine ⟨fun s _ => (nodup_pathsFrom _).filter _, ?_⟩
  refine List.Pairwise.imp ?_ List.nodup_range
  intro s t hst
  simp only [Function.onFun]
  rw [List.disjoint_left]
  intro p hp hq
  have h1 := (builtFrom_induced_iff.1 (mem_pathsFrom.1 (List.mem_filter.1 hp).1).1).1.1
  have h2 := (builtFrom_induced_iff.1 (mem_pathsFrom.1 (List.mem_filter.1 hq).1).1).1.1
  rw [h1] at h2
  exact hst (Option.some.inj h2)

end GDist
