import Mamba.Lemmas.CanonFTotal
/-!
# Storage reuse: a partition value that has been `Reset` has the initial facts of a new one

`reset op n m vc` on ANY partition value of sufficient capacity (arbitrary stale contents and lengths) yields a partition
with the invariants of `newOrderedPartition n m vc`, the same initial IR state, and the capacities of `op`.
-/
namespace CanonF
open GraphSpec

/-- after `Reset` (for `n > 0`) the work list has as many entries as there are bins -/
theorem reset_btc_len {n m : Nat} {vc : Classes} {op opR : OP} (hn : 0 < n) (h : reset op n m vc = .ok opR) :
    opR.binsToCheck.len = opR.binDividers.len := by
  have hn' : n > 0 := hn
  unfold reset at h
  simp only [if_pos hn'] at h
  osplit h
  simp only [Outcome.ok.injEq] at h
  subst h
  rename_i hb
  split at hb
  · simp only [Outcome.ok.injEq] at hb
    subst hb
    rename_i hq
    obtain ⟨_, rfl⟩ := Sl.reslice_eq_ok.1 hq
    rfl
  · rename_i hne
    exact (hne _ hb).elim

/-- a reset partition has the initial facts of a new one, the same initial IR state, and keeps its capacities -/
theorem reset_init_facts {n m : Nat} {vc : Classes} (nb : Nbrs) (op : OP) (hn : 0 < n) (hc : ClassesOK n vc)
    (c1 : n ≤ op.order.data.size) (c2 : n ≤ op.inCell.data.size) (c3 : n ≤ op.binDividers.data.size)
    (c4 : n ≤ op.binAges.data.size) (c5 : n ≤ op.binsToCheck.data.size) (c6 : m ≤ op.value.data.size) :
    ∃ opN opR, newOrderedPartition n m vc = .ok (some opN) ∧ reset op n m vc = .ok opR ∧
      PartInv n opR ∧ AgeInv opR ∧ opR.age = 0 ∧ opR.spl = 0 ∧ opR.value.len = 0 ∧ opR.value.WF ∧
      Match n opR (IR.initSt (irG n nb) opR.binDividers.len (cellOf opR)) ∧ BtcInv opR ∧ BinsSorted opR ∧
      opR.binDividers.len = opN.binDividers.len ∧ (∀ v, cellOf opR v = cellOf opN v) ∧
      n ≤ opR.binDividers.data.size ∧ n ≤ opR.binAges.data.size ∧ n ≤ opR.binsToCheck.data.size := by
  obtain ⟨opN, opR, hN, hR, _, ebd, _, _, _, _, _, eic, _, _, z3, z4, z5, _⟩ :=
    reset_eq_new (m := m) op hn hc c1 c2 c3 c4 c5 c6
  obtain ⟨opR', hR', hp, ha, hage, hspl, hval, hbtc⟩ := reset_inv (m := m) op hn hc c1 c2 c3 c4 c5 c6
  rw [hR] at hR'
  obtain rfl : opR = opR' := Outcome.ok.inj hR'
  obtain ⟨opN', hN', hpN, _⟩ := newOrderedPartition_inv (m := m) hn hc
  rw [hN] at hN'
  obtain rfl : opN = opN' := Option.some.inj (Outcome.ok.inj hN')
  have hbl := reset_btc_len hn hR
  have hwf : opR.binsToCheck.WF := by
    show opR.binsToCheck.len ≤ opR.binsToCheck.data.size
    have := hp.bdLen_le
    omega
  refine ⟨opN, opR, hN, hR, hp, ha, hage, hspl, hval, ?_, ⟨rfl, rfl, List.nodup_range, ?_⟩, ⟨hwf, ?_, ?_⟩,
    reset_binsSorted op hn hc hR c1 c2 c3 c4 c5 c6, ?_, ?_, by omega, by omega, by omega⟩
  · show opR.value.len ≤ opR.value.data.size
    omega
  · intro x
    show x ∈ List.range _ ↔ _
    rw [hbtc]
    simp
  · rw [hbtc, List.pairwise_map]
    exact List.pairwise_lt_range.imp (fun h => by exact Int.ofNat_lt.2 h)
  · intro x hx
    rw [hbtc] at hx
    obtain ⟨k, hk, rfl⟩ := List.mem_map.1 hx
    have := List.mem_range.1 hk
    exact ⟨Int.natCast_nonneg k, by exact Int.ofNat_lt.2 this⟩
  · rw [← Sl.length_toList _ hp.wfBd, ← Sl.length_toList _ hpN.wfBd, ebd]
  · intro v
    unfold cellOf
    rw [eic]

end CanonF
