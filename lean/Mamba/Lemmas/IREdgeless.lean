import Mamba.Lemmas.IRPass
import Mamba.Lemmas.CanonFTreePath
/-!
# Graphs without edges: every bijective colouring is a leaf of the unpruned tree

With no edges every count `cnt g c i v` is `0`, so a refinement pass on a tight colouring changes neither the colouring
nor the number of cells (`pass_edgeless`, from `pass_char`), hence neither does `refine` (`refine_edgeless`, any fuel).
For a bijection `π` of `0..n-1` the path that individualises `π⁻¹ 0`, `π⁻¹ 1`, … passes through the colourings
`v ↦ if π v < k then π v else k` (`lvl π k`) and ends in `tab n π` (`edgeless_leaves`, `edgeless_perm_leaf`);
`edgeless_identity_leaf` is the case `π = id`.
-/
namespace IR

theorem edgeless_wf {g : G} (hE : ∀ v, g.nbrs v = []) : WF g := by
  refine ⟨fun v _ w hw => ?_, fun v _ => ?_, fun u v _ _ h => ?_, fun v _ h => ?_⟩
  · rw [hE v] at hw; cases hw
  · rw [hE v]; exact List.nodup_nil
  · rw [hE u] at h; cases h
  · rw [hE v] at h; cases h

theorem edgeless_cnt {g : G} (hE : ∀ v, g.nbrs v = []) (c : Array Nat) (i v : Nat) : cnt g c i v = 0 := by
  unfold cnt
  rw [hE v]
  rfl

/-- a pass on a tight colouring of a graph without edges changes nothing -/
theorem pass_edgeless {g : G} (hE : ∀ v, g.nbrs v = []) (s : St) (f : Nat → Nat) (hc : s.c = tab g.n f)
    (hlt : ∀ v, v < g.n → f v < s.cells) (honto : ∀ x, x < s.cells → ∃ v, v < g.n ∧ f v = x)
    (i : Nat) (rest : List Nat) (hrest : ∀ x ∈ rest, x < s.cells) :
    (pass g s i rest).c = tab g.n f ∧ (pass g s i rest).cells = s.cells ∧
      ∀ x ∈ (pass g s i rest).work, x < s.cells := by
  have hg := edgeless_wf hE
  have hcol : ∀ v, v < g.n → col s.c v = f v := fun v hv => by rw [hc, col_tab _ hv]
  have hA : InvA g s := fun v hv => by rw [hcol v hv]; exact hlt v hv
  have hne : ∀ x, x < s.cells → ∃ v, v < g.n ∧ col s.c v = x := by
    intro x hx
    obtain ⟨v, hv, e⟩ := honto x hx
    exact ⟨v, hv, by rw [hcol v hv, e]⟩
  obtain ⟨h1, h2, _, h4⟩ := pass_char hg s hA i rest hrest hne f s.cells (fun x => x ∈ rest) hlt honto
    (by
      intro u v hu hv
      rw [hcol u hu, hcol v hv, edgeless_cnt hE, edgeless_cnt hE]
      omega)
    (by
      intro v hv
      rw [hcol v hv]
      constructor
      · intro h
        exact Or.inl ⟨h, fun u _ _ => by rw [edgeless_cnt hE, edgeless_cnt hE]⟩
      · rintro (⟨h, _⟩ | ⟨u, _, _, h⟩)
        · exact h
        · rw [edgeless_cnt hE, edgeless_cnt hE] at h; exact absurd rfl h)
  exact ⟨h1, h2, fun x hx => ((h4 x).1 hx).1⟩

theorem popMax_sub {w : List Nat} {i : Nat} {rest : List Nat} (h : popMax w = some (i, rest)) :
    ∀ y ∈ rest, y ∈ w := by
  cases w with
  | nil => simp [popMax] at h
  | cons x xs =>
    simp only [popMax, Option.some.injEq, Prod.mk.injEq] at h
    obtain ⟨_, rfl⟩ := h
    intro y hy
    exact List.mem_of_mem_erase hy

/-- refinement (any fuel) of a tight colouring of a graph without edges changes nothing -/
theorem refine_edgeless {g : G} (hE : ∀ v, g.nbrs v = []) (f : Nat → Nat) (rf : Nat) : ∀ (s : St),
    s.c = tab g.n f → (∀ v, v < g.n → f v < s.cells) → (∀ x, x < s.cells → ∃ v, v < g.n ∧ f v = x) →
    (∀ x ∈ s.work, x < s.cells) →
    (refine g rf s).c = tab g.n f ∧ (refine g rf s).cells = s.cells := by
  induction rf with
  | zero => intro s hc _ _ _; exact ⟨hc, rfl⟩
  | succ r ih =>
    intro s hc hlt honto hw
    unfold refine
    cases hp : popMax s.work with
    | none => exact ⟨hc, rfl⟩
    | some p =>
      obtain ⟨i, rest⟩ := p
      have hrest : ∀ x ∈ rest, x < s.cells := fun x hx => hw x (popMax_sub hp x hx)
      obtain ⟨h1, h2, h3⟩ := pass_edgeless hE s f hc hlt honto i rest hrest
      have := ih (pass g s i rest) h1 (by rw [h2]; exact hlt) (by rw [h2]; exact honto) (by rw [h2]; exact h3)
      rw [h2] at this
      exact this

/-- a cell has more than one member iff it contains two different vertices -/
theorem cell_len_gt_one_iff {g : G} {c : Array Nat} {t : Nat} :
    (cellMembers g c t).length > 1 ↔
      ∃ u w, u < g.n ∧ w < g.n ∧ u ≠ w ∧ col c u = t ∧ col c w = t := by
  constructor
  · intro h
    obtain ⟨u, hu, _⟩ := exists_other (v := 0) h
    obtain ⟨w, hw, hwu⟩ := exists_other (v := u) h
    obtain ⟨hun, hut⟩ := mem_cellMembers.1 hu
    obtain ⟨hwn, hwt⟩ := mem_cellMembers.1 hw
    exact ⟨u, w, hun, hwn, fun e => hwu e.symm, hut, hwt⟩
  · rintro ⟨u, w, hu, hw, hne, hut, hwt⟩
    have hsub : [u, w] ⊆ cellMembers g c t := by
      intro x hx
      simp only [List.mem_cons, List.not_mem_nil, or_false] at hx
      rcases hx with rfl | rfl
      · exact mem_cellMembers.2 ⟨hu, hut⟩
      · exact mem_cellMembers.2 ⟨hw, hwt⟩
    have hnd : [u, w].Nodup := by simp [hne]
    have := (hnd.subperm hsub).length_le
    simp only [List.length_cons, List.length_nil] at this
    omega

/-- the colouring after individualising `π⁻¹ 0, …, π⁻¹ (k-1)` -/
def lvl (π : Nat → Nat) (k : Nat) (v : Nat) : Nat := if π v < k then π v else k

theorem inj_surj {n : Nat} {π : Nat → Nat} (hlt : ∀ v, v < n → π v < n)
    (hinj : ∀ u v, u < n → v < n → π u = π v → u = v) {x : Nat} (hx : x < n) : ∃ v, v < n ∧ π v = x := by
  have hsub : (Finset.range n).image π ⊆ Finset.range n := by
    intro y hy
    obtain ⟨v, hv, rfl⟩ := Finset.mem_image.1 hy
    exact Finset.mem_range.2 (hlt v (Finset.mem_range.1 hv))
  have hcard : ((Finset.range n).image π).card = n := by
    rw [Finset.card_image_of_injOn, Finset.card_range]
    intro a ha b hb hab
    exact hinj a b (Finset.mem_range.1 (Finset.mem_coe.1 ha)) (Finset.mem_range.1 (Finset.mem_coe.1 hb)) hab
  have heq := Finset.eq_of_subset_of_card_le hsub (by rw [hcard, Finset.card_range])
  have : x ∈ (Finset.range n).image π := by rw [heq]; exact Finset.mem_range.2 hx
  obtain ⟨v, hv, rfl⟩ := Finset.mem_image.1 this
  exact ⟨v, Finset.mem_range.1 hv, rfl⟩

/-- from the `k`-th node of the path the leaf `tab n π` is reached -/
theorem edgeless_leaves {g : G} (hE : ∀ v, g.nbrs v = []) (π : Nat → Nat) (hlt : ∀ v, v < g.n → π v < g.n)
    (hinj : ∀ u v, u < g.n → v < g.n → π u = π v → u = v) (rf : Nat) : ∀ (fuel k : Nat) (s : St),
    k < g.n → g.n ≤ k + 1 + fuel → s.c = tab g.n (lvl π k) → s.cells = k + 1 →
    tab g.n π ∈ leaves g rf fuel s := by
  intro fuel
  induction fuel with
  | zero =>
    intro k s hk hn hc _
    simp only [leaves, List.mem_singleton]
    rw [hc]
    apply tab_congr
    intro v hv
    have := hlt v hv
    unfold lvl
    split_ifs <;> omega
  | succ fuel ih =>
    intro k s hk hn hc hcells
    have hcol : ∀ v, v < g.n → col s.c v = lvl π k v := fun v hv => by rw [hc, col_tab _ hv]
    by_cases hlast : k + 1 = g.n
    · -- discrete
      have ht : target g s = none := by
        unfold target
        rw [List.find?_eq_none]
        intro t _ hp
        simp only [decide_eq_true_eq] at hp
        obtain ⟨u, w, hu, hw, hne, hut, hwt⟩ := cell_len_gt_one_iff.1 hp
        rw [hcol u hu] at hut
        rw [hcol w hw] at hwt
        have hne' : π u ≠ π w := fun e => hne (hinj u w hu hw e)
        have := hlt u hu
        have := hlt w hw
        unfold lvl at hut hwt
        split_ifs at hut hwt <;> omega
      simp only [leaves, ht, List.mem_singleton]
      rw [hc]
      apply tab_congr
      intro v hv
      have := hlt v hv
      unfold lvl
      split_ifs <;> omega
    · obtain ⟨a, ha, hak⟩ := inj_surj hlt hinj hk
      obtain ⟨b, hb, hbk⟩ := inj_surj hlt hinj (x := k + 1) (by omega)
      have ht : target g s = some k := by
        unfold target
        rw [List.find?_range_eq_some]
        refine ⟨?_, List.mem_range.2 (by omega), ?_⟩
        · simp only [decide_eq_true_eq]
          apply cell_len_gt_one_iff.2
          refine ⟨a, b, ha, hb, fun e => by rw [e] at hak; omega, ?_, ?_⟩
          · rw [hcol a ha]; unfold lvl; rw [if_neg (by omega)]
          · rw [hcol b hb]; unfold lvl; rw [if_neg (by omega)]
        · intro j hj
          simp only [Bool.not_eq_true', decide_eq_false_iff_not]
          intro hp
          obtain ⟨u, w, hu, hw, hne, hut, hwt⟩ := cell_len_gt_one_iff.1 hp
          rw [hcol u hu] at hut
          rw [hcol w hw] at hwt
          have hne' : π u ≠ π w := fun e => hne (hinj u w hu hw e)
          unfold lvl at hut hwt
          split_ifs at hut hwt <;> omega
      have hmem : a ∈ cellMembers g s.c k := by
        apply mem_cellMembers.2
        refine ⟨ha, ?_⟩
        rw [hcol a ha]; unfold lvl; rw [if_neg (by omega)]
      simp only [leaves, ht, List.mem_flatMap]
      refine ⟨a, hmem, ?_⟩
      have hind : (individualise g s k a).c = tab g.n (lvl π (k + 1)) := by
        show tab g.n _ = _
        apply tab_congr
        intro u hu
        rw [hcol u hu]
        by_cases hua : u = a
        · rw [if_pos hua, hua]; unfold lvl; rw [if_pos (by omega)]; omega
        · rw [if_neg hua]
          have hne' : π u ≠ k := fun e => hua (hinj u a hu ha (by rw [e, hak]))
          unfold lvl
          split_ifs <;> omega
      have hl : ∀ v, v < g.n → lvl π (k + 1) v < (individualise g s k a).cells := by
        intro v _
        show _ < s.cells + 1
        unfold lvl
        split_ifs <;> omega
      have ho : ∀ x, x < (individualise g s k a).cells → ∃ v, v < g.n ∧ lvl π (k + 1) v = x := by
        intro x hx
        have hx' : x < s.cells + 1 := hx
        obtain ⟨v, hv, hvx⟩ := inj_surj hlt hinj (x := x) (by omega)
        refine ⟨v, hv, ?_⟩
        unfold lvl
        split_ifs <;> omega
      have hw : ∀ x ∈ (individualise g s k a).work, x < (individualise g s k a).cells := by
        intro x hx
        have hx' : x ∈ [k, k + 1] := hx
        show _ < s.cells + 1
        simp only [List.mem_cons, List.not_mem_nil, or_false] at hx'
        omega
      obtain ⟨r1, r2⟩ := refine_edgeless hE (lvl π (k + 1)) rf (individualise g s k a) hind hl ho hw
      apply ih (k + 1) _ (by omega) (by omega) r1
      rw [r2]
      show s.cells + 1 = _
      omega

/-- every bijective colouring is a leaf of the unpruned tree of a graph without edges -/
theorem edgeless_perm_leaf (g : G) (hn : 0 < g.n) (hE : ∀ v, g.nbrs v = []) (π : Nat → Nat)
    (hlt : ∀ v, v < g.n → π v < g.n) (hinj : ∀ u v, u < g.n → v < g.n → π u = π v → u = v) :
    tab g.n π ∈ allLeaves g (init g) := by
  unfold allLeaves
  have hc : (init g).c = tab g.n (lvl π 0) := by
    show tab g.n _ = _
    apply tab_congr
    intro v _
    unfold lvl
    rw [if_neg (by omega)]
  obtain ⟨r1, r2⟩ := refine_edgeless hE (lvl π 0) (rfuel g) (init g) hc
    (by intro v _; show _ < 1; unfold lvl; rw [if_neg (by omega)]; omega)
    (by
      intro x hx
      have hx' : x < 1 := hx
      refine ⟨0, hn, ?_⟩
      unfold lvl; rw [if_neg (by omega)]; omega)
    (by
      intro x hx
      have hx' : x ∈ List.range 1 := hx
      show _ < 1
      exact List.mem_range.1 hx')
  exact edgeless_leaves hE π hlt hinj (rfuel g) g.n 0 _ hn (by omega) r1 (by rw [r2]; rfl)

/-- the identity colouring is a leaf of the unpruned tree of a graph without edges -/
theorem edgeless_identity_leaf (g : G) (hn : 0 < g.n) (hE : ∀ v, g.nbrs v = []) :
    tab g.n (fun v => v) ∈ allLeaves g (init g) :=
  edgeless_perm_leaf g hn hE (fun v => v) (fun _ h => h) (fun _ _ _ _ h => h)

end IR
