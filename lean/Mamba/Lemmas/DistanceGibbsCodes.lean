import Mamba.Lemmas.DistanceGibbsEven
import Mamba.Lemmas.DistanceBiconBlk3
/-!
# Gibbs' loop on the fundamental cycles of a block: `Q` = span, all sets even, `S ⊆ Q`
-/
namespace GDist
open GraphSpec Model

theorem mem_pathCodes : ∀ (p : List Nat), p.Nodup → ∀ c, c ∈ pathCodes p →
    ∃ x y, x ∈ p ∧ y ∈ p ∧ x ≠ y ∧ c = edgeCode x y
  | [], _, c, h => by simp [pathCodes] at h
  | [_], _, c, h => by simp [pathCodes] at h
  | a :: b :: t, hnd, c, h => by
    obtain ⟨hanot, hnd'⟩ := List.nodup_cons.1 hnd
    rw [pathCodes, List.mem_cons] at h
    rcases h with h | h
    · exact ⟨a, b, by simp, by simp, fun h0 => hanot (by simp [h0]), h⟩
    · obtain ⟨x, y, hx, hy, hxy, hc⟩ := mem_pathCodes (b :: t) hnd' c h
      exact ⟨x, y, List.mem_cons_of_mem _ hx, List.mem_cons_of_mem _ hy, hxy, hc⟩

theorem pathCodes_nodup : ∀ (p : List Nat), p.Nodup → (pathCodes p).Nodup
  | [], _ => by simp [pathCodes]
  | [_], _ => by simp [pathCodes]
  | a :: b :: t, hnd => by
    obtain ⟨hanot, hnd'⟩ := List.nodup_cons.1 hnd
    rw [pathCodes, List.nodup_cons]
    refine ⟨?_, pathCodes_nodup (b :: t) hnd'⟩
    intro hm
    obtain ⟨x, y, hx, hy, hxy, hc⟩ := mem_pathCodes (b :: t) hnd' _ hm
    have hab : a ≠ b := fun h0 => hanot (by simp [h0])
    rcases normE_eq (edgeCode_inj (e := (a, b)) (e' := (x, y)) hab hxy hc) with h | h
    · exact hanot (h.1 ▸ hx)
    · exact hanot (h.1 ▸ hy)

theorem cycCodes_nodup {a : G} {c : List Nat} (hc : IsCycleSeq a c) : (cycCodes c).Nodup := by
  obtain ⟨hlen, hnd, _, _, _⟩ := hc
  match c, hlen, hnd with
  | x :: b :: t, hlen, hnd =>
    have ht : t ≠ [] := by
      intro h; subst h; simp at hlen
    obtain ⟨hxnot, hnd'⟩ := List.nodup_cons.1 hnd
    obtain ⟨hbnot, _⟩ := List.nodup_cons.1 hnd'
    unfold cycCodes
    have hlt : (x :: b :: t).getLastD 0 ∈ t := by
      obtain ⟨t0, t', rfl⟩ := List.exists_cons_of_ne_nil ht
      rw [List.getLastD_eq_getLast?, List.getLast?_cons_cons, List.getLast?_cons_cons,
        List.getLast?_eq_some_getLast (by simp)]
      exact List.getLast_mem _
    generalize (x :: b :: t).getLastD 0 = l at hlt
    have hxl : x ≠ l := fun h => hxnot (h ▸ List.mem_cons_of_mem _ hlt)
    rw [List.nodup_cons]
    refine ⟨?_, pathCodes_nodup _ hnd⟩
    rw [List.headD_cons, pathCodes, List.mem_cons]
    rintro (h | h)
    · have hxb : x ≠ b := fun h0 => hxnot (by simp [h0])
      rcases normE_eq (edgeCode_inj (e := (x, l)) (e' := (x, b)) hxl hxb h) with h' | h'
      · exact hbnot (h'.2 ▸ hlt)
      · exact hxb h'.1
    · obtain ⟨y, z, hy, hz, hyz, hcz⟩ := mem_pathCodes (b :: t) hnd' _ h
      rcases normE_eq (edgeCode_inj (e := (x, l)) (e' := (y, z)) hxl hyz hcz) with h' | h'
      · exact hxnot (h'.1 ▸ hy)
      · exact hxnot (h'.1 ▸ hz)

theorem isCycCode_strict {a : G} {f : List Nat} (h : IsCycCode a f) : f.Pairwise (· < ·) := by
  obtain ⟨c, hc, rfl⟩ := h
  exact sortInts_strict (cycCodes_nodup hc)

end GDist
