import Mamba.Lemmas.IRPerm
import Mathlib.Data.Finset.Card
import Mathlib.Data.Finset.Image
import Mathlib.Tactic.Ring
import Mathlib.Tactic.NormNum
import Mathlib.Tactic.IntervalCases

namespace IR

theorem tri_succ (j : Nat) : tri (j + 1) = tri j + j := by
  unfold tri
  cases j with
  | zero => rfl
  | succ k =>
    simp only [Nat.add_sub_cancel]
    have h : (k + 1 + 1) * (k + 1) = (k + 1) * k + 2 * (k + 1) := by ring
    rw [h, Nat.add_mul_div_left _ _ (by norm_num : 0 < 2)]

theorem tri_mono {a b : Nat} (h : a ≤ b) : tri a ≤ tri b := by
  induction h with
  | refl => exact Nat.le_refl _
  | step _ ih => rw [tri_succ]; omega

theorem tri_inj {a b a' b' : Nat} (h1 : a < b) (h2 : a' < b') (e : tri b + a = tri b' + a') : b = b' ∧ a = a' := by
  rcases Nat.lt_trichotomy b b' with h | h | h
  · exfalso
    have := tri_mono (Nat.succ_le_of_lt h)
    rw [tri_succ] at this; omega
  · subst h; exact ⟨rfl, by omega⟩
  · exfalso
    have := tri_mono (Nat.succ_le_of_lt h)
    rw [tri_succ] at this; omega


/-! ### the inverse of a leaf -/


theorem inv_left {n : Nat} {l : Array Nat} (hl : IsPerm n l) {v : Nat} (hv : v < n) : invFn n l (col l v) = v := by
  unfold invFn
  cases h : (List.range n).find? (fun u => col l u == col l v) with
  | none =>
    exfalso
    rw [List.find?_eq_none] at h
    exact h v (List.mem_range.2 hv) (by simp)
  | some u =>
    have h1 := List.mem_of_find?_eq_some h
    have h2 := List.find?_some h
    simp only [beq_iff_eq] at h2
    exact hl.2 u v (List.mem_range.1 h1) hv h2

theorem perm_surj {n : Nat} {l : Array Nat} (hl : IsPerm n l) {p : Nat} (hp : p < n) : ∃ v, v < n ∧ col l v = p := by
  have hsub : (Finset.range n).image (col l) ⊆ Finset.range n := by
    intro y hy
    obtain ⟨u, hu, rfl⟩ := Finset.mem_image.1 hy
    exact Finset.mem_range.2 (hl.1 u (Finset.mem_range.1 hu))
  have hcard : ((Finset.range n).image (col l)).card = n := by
    rw [Finset.card_image_of_injOn]
    · simp
    · intro a ha b hb e
      exact hl.2 a b (by simpa using ha) (by simpa using hb) e
  have heq := Finset.eq_of_subset_of_card_le hsub (by rw [hcard]; simp)
  have : p ∈ (Finset.range n).image (col l) := by rw [heq]; exact Finset.mem_range.2 hp
  obtain ⟨v, hv, e⟩ := Finset.mem_image.1 this
  exact ⟨v, Finset.mem_range.1 hv, e⟩

theorem inv_right {n : Nat} {l : Array Nat} (hl : IsPerm n l) {p : Nat} (hp : p < n) :
    invFn n l p < n ∧ col l (invFn n l p) = p := by
  obtain ⟨v, hv, rfl⟩ := perm_surj hl hp
  rw [inv_left hl hv]
  exact ⟨hv, rfl⟩

/-! ### a certificate determines the relabelled graph -/

theorem mem_cert {g : G} {c : Array Nat} {x : Nat} : x ∈ cert g c ↔
    ∃ u, u < g.n ∧ ∃ w, w ∈ g.nbrs u ∧ col c w < col c u ∧ x = tri (col c u) + col c w := by
  unfold cert
  rw [(List.mergeSort_perm _ _).mem_iff]
  unfold codes
  simp only [List.mem_flatMap, List.mem_range, List.mem_filterMap]
  constructor
  · rintro ⟨u, hu, w, hw, h⟩
    split_ifs at h with hlt
    · exact ⟨u, hu, w, hw, hlt, by simpa using h.symm⟩
  · rintro ⟨u, hu, w, hw, hlt, rfl⟩
    exact ⟨u, hu, w, hw, by rw [if_pos hlt]⟩

theorem nbrs_ofCodes {n : Nat} (cs : List Nat) {j : Nat} (hj : j < n) : (ofCodes n cs).nbrs j =
    (List.range n).filter (fun k => (k < j && cs.contains (tri j + k)) || (j < k && cs.contains (tri k + j))) := by
  simp [G.nbrs, ofCodes, hj]

theorem leaf_relabel {g : G} (hg : WF g) {l : Array Nat} (hl : IsPerm g.n l) :
    Relabel g (ofCodes g.n (cert g l)) (col l) (invFn g.n l) where
  n_eq := rfl
  left := fun v hv => inv_left hl hv
  right := fun v hv => (inv_right hl hv).2
  σ_lt := hl.1
  τ_lt := fun v hv => (inv_right hl hv).1
  nbrs_lt := hg.lt
  nbrs := by
    intro v hv
    rw [nbrs_ofCodes _ (hl.1 v hv)]
    apply (List.perm_ext_iff_of_nodup (List.Nodup.filter _ List.nodup_range) ?_).2
    · intro k
      simp only [List.mem_filter, List.mem_range, Bool.or_eq_true, Bool.and_eq_true, decide_eq_true_eq,
        List.contains_iff_mem, List.mem_map]
      constructor
      · rintro ⟨hk, h | h⟩
        · obtain ⟨hkj, hmem⟩ := h
          obtain ⟨u, hu, w, hw, hlt, e⟩ := mem_cert.1 hmem
          obtain ⟨e1, e2⟩ := tri_inj hkj hlt e
          have : u = v := (hl.2 v u hv hu e1).symm
          subst this
          exact ⟨w, hw, e2.symm⟩
        · obtain ⟨hjk, hmem⟩ := h
          obtain ⟨u, hu, w, hw, hlt, e⟩ := mem_cert.1 hmem
          obtain ⟨e1, e2⟩ := tri_inj hjk hlt e
          have hwn := hg.lt u hu w hw
          have : w = v := (hl.2 v w hv hwn e2).symm
          subst this
          exact ⟨u, hg.symm u w hu hwn hw, e1.symm⟩
      · rintro ⟨w, hw, rfl⟩
        have hwn := hg.lt v hv w hw
        refine ⟨hl.1 w hwn, ?_⟩
        have hne : col l w ≠ col l v := by
          intro e
          have := hl.2 w v hwn hv e
          subst this
          exact hg.irrefl w hwn hw
        rcases Nat.lt_or_gt_of_ne hne with h | h
        · left
          exact ⟨h, mem_cert.2 ⟨v, hv, w, hw, h, rfl⟩⟩
        · right
          exact ⟨h, mem_cert.2 ⟨w, hwn, v, hg.symm v w hv hwn hw, h, rfl⟩⟩
    · apply List.Nodup.map_on _ (hg.nodup v hv)
      intro a ha b hb e
      exact hl.2 a b (hg.lt v hv a ha) (hg.lt v hv b hb) e


/-! ### isomorphisms compose and invert -/

theorem Relabel.nbrs_lt' {g g' : G} {σ τ : Nat → Nat} (R : Relabel g g' σ τ) :
    ∀ u, u < g'.n → ∀ w ∈ g'.nbrs u, w < g'.n := by
  intro u hu w hw
  rw [R.n_eq] at hu ⊢
  have h := (R.nbrs (τ u) (R.τ_lt u hu)).mem_iff (a := w)
  rw [R.right u hu] at h
  obtain ⟨x, hx, rfl⟩ := List.mem_map.1 (h.1 hw)
  exact R.σ_lt x (R.nbrs_lt _ (R.τ_lt u hu) x hx)

theorem Relabel.symm {g g' : G} {σ τ : Nat → Nat} (R : Relabel g g' σ τ) : Relabel g' g τ σ where
  n_eq := R.n_eq.symm
  left := fun v hv => R.right v (by rw [← R.n_eq]; exact hv)
  right := fun v hv => R.left v (by rw [← R.n_eq]; exact hv)
  σ_lt := fun v hv => by rw [R.n_eq] at hv ⊢; exact R.τ_lt v hv
  τ_lt := fun v hv => by rw [R.n_eq] at hv ⊢; exact R.σ_lt v hv
  nbrs_lt := R.nbrs_lt'
  nbrs := by
    intro u hu
    rw [R.n_eq] at hu
    have h := (R.nbrs (τ u) (R.τ_lt u hu)).map τ
    rw [R.right u hu, List.map_map] at h
    refine List.Perm.trans (List.Perm.of_eq ?_) h.symm
    conv_lhs => rw [← List.map_id (g.nbrs (τ u))]
    apply List.map_congr_left
    intro w hw
    simp [Function.comp, R.left w (R.nbrs_lt _ (R.τ_lt u hu) w hw)]

theorem Relabel.trans {g g' g'' : G} {σ τ σ' τ' : Nat → Nat} (R : Relabel g g' σ τ) (R' : Relabel g' g'' σ' τ') :
    Relabel g g'' (σ' ∘ σ) (τ ∘ τ') where
  n_eq := R'.n_eq.trans R.n_eq
  left := fun v hv => by
    simp only [Function.comp]
    rw [R'.left (σ v) (by rw [R.n_eq]; exact R.σ_lt v hv), R.left v hv]
  right := fun v hv => by
    simp only [Function.comp]
    have hv' : v < g'.n := by rw [R.n_eq]; exact hv
    rw [R.right (τ' v) (by rw [← R.n_eq]; exact R'.τ_lt v hv'), R'.right v hv']
  σ_lt := fun v hv => by
    simp only [Function.comp]
    rw [← R.n_eq]; exact R'.σ_lt _ (by rw [R.n_eq]; exact R.σ_lt v hv)
  τ_lt := fun v hv => by
    simp only [Function.comp]
    have hv' : v < g'.n := by rw [R.n_eq]; exact hv
    exact R.τ_lt _ (by rw [← R.n_eq]; exact R'.τ_lt v hv')
  nbrs_lt := R.nbrs_lt
  nbrs := by
    intro v hv
    have h1 := R'.nbrs (σ v) (by rw [R.n_eq]; exact R.σ_lt v hv)
    have h2 := (R.nbrs v hv).map σ'
    rw [List.map_map] at h2
    exact h1.trans h2

theorem Relabel.congr {g g' : G} {σ τ σ' : Nat → Nat} (R : Relabel g g' σ τ) (h : ∀ v, v < g.n → σ' v = σ v) :
    Relabel g g' σ' τ where
  n_eq := R.n_eq
  left := fun v hv => by rw [h v hv]; exact R.left v hv
  right := fun v hv => by rw [h _ (R.τ_lt v hv)]; exact R.right v hv
  σ_lt := fun v hv => by rw [h v hv]; exact R.σ_lt v hv
  τ_lt := R.τ_lt
  nbrs_lt := R.nbrs_lt
  nbrs := by
    intro v hv
    rw [h v hv]
    refine (R.nbrs v hv).trans (List.Perm.of_eq ?_)
    apply List.map_congr_left
    intro w hw
    exact (h w (R.nbrs_lt v hv w hw)).symm

/-- `g` and `h` are isomorphic -/
def Iso (g h : G) : Prop := ∃ σ τ, Relabel g h σ τ

/-! ### the maximal certificate is the certificate of a leaf -/

theorem leaves_ne_nil (g : G) (rf fuel : Nat) : ∀ s : St, leaves g rf fuel s ≠ [] := by
  induction fuel with
  | zero => intro s; simp [leaves]
  | succ f ih =>
    intro s
    unfold leaves
    cases ht : target g s with
    | none => simp
    | some t =>
      simp only
      obtain ⟨_, hlen⟩ := target_some ht
      match hm : cellMembers g s.c t, hlen with
      | v :: rest, _ =>
        simp only [List.flatMap_cons]
        intro h
        exact ih _ (List.append_eq_nil_iff.1 h).1

theorem foldl_mx_mem (l : List (List Nat)) : ∀ b : List Nat,
    l.foldl (fun b x => if b < x then x else b) b ∈ b :: l := by
  induction l with
  | nil => intro b; simp
  | cons x xs ih =>
    intro b
    simp only [List.foldl_cons]
    have := ih (if b < x then x else b)
    rcases List.mem_cons.1 this with h | h
    · rw [h]; split_ifs <;> simp
    · exact List.mem_cons_of_mem _ (List.mem_cons_of_mem _ h)

theorem maxCert_mem {l : List (List Nat)} (hl : l ≠ []) : maxCert l ∈ l := by
  unfold maxCert
  match l, hl with
  | x :: xs, _ =>
    simp only [List.foldl_cons]
    have hx : (if ([] : List Nat) < x then x else []) = x := by
      cases x with
      | nil => simp
      | cons a as => simp
    rw [hx]
    exact foldl_mx_mem xs x

theorem canonCertFrom_is_leaf (g : G) (s : St) : ∃ l, l ∈ allLeaves g s ∧ canonCertFrom g s = cert g l := by
  unfold canonCertFrom
  have hne : (allLeaves g s).map (cert g) ≠ [] := by
    intro h
    exact leaves_ne_nil g _ _ _ (List.map_eq_nil_iff.1 h)
  obtain ⟨l, hl, e⟩ := List.mem_map.1 (maxCert_mem hne)
  exact ⟨l, hl, e.symm⟩

/-- the canonical graph is isomorphic to the graph (the isomorphism is the maximal leaf) -/
theorem canonGraphFrom_iso {g : G} (hg : WF g) {s : St} (hw : s.work ≠ []) : Iso g (canonGraphFrom g s) := by
  obtain ⟨l, hl, e⟩ := canonCertFrom_is_leaf g s
  unfold canonGraphFrom
  rw [e]
  exact ⟨_, _, leaf_relabel hg (allLeaves_perm hg hw l hl)⟩

theorem initSt_work (g : G) {k : Nat} (hk : 1 ≤ k) (cls : Nat → Nat) : (initSt g k cls).work ≠ [] := by
  show List.range k ≠ []
  intro h
  have := congrArg List.length h
  simp at this
  omega

theorem init_work (g : G) : (init g).work ≠ [] := initSt_work g (Nat.le_refl 1) _

theorem canonGraph_iso {g : G} (hg : WF g) : Iso g (canonGraph g) := canonGraphFrom_iso hg (init_work g)

theorem canonGraph_complete {g h : G} (hg : WF g) (hh : WF h) : canonGraph g = canonGraph h ↔ Iso g h := by
  constructor
  · intro e
    obtain ⟨σ, τ, R⟩ := canonGraph_iso hg
    obtain ⟨σ', τ', R'⟩ := canonGraph_iso hh
    rw [← e] at R'
    exact ⟨_, _, R.trans R'.symm⟩
  · rintro ⟨σ, τ, R⟩
    exact (canonGraph_invariant R).symm

/-! ### equal-certificate leaves are automorphisms -/

theorem aut_of_leaves {g : G} (hg : WF g) {s : St} (hw : s.work ≠ []) {l0 l : Array Nat}
    (h0 : l0 ∈ allLeaves g s) (hl : l ∈ allLeaves g s) (e : cert g l = cert g l0)
    {γ : Nat → Nat} (hγ : ∀ v, v < g.n → γ v < g.n ∧ col l (γ v) = col l0 v) :
    ∃ τ, Relabel g g γ τ := by
  have p0 := allLeaves_perm hg hw l0 h0
  have p := allLeaves_perm hg hw l hl
  have R0 := leaf_relabel hg p0
  have R := leaf_relabel hg p
  rw [e] at R
  refine ⟨_, (R0.trans R.symm).congr ?_⟩
  intro v hv
  simp only [Function.comp]
  rw [← (hγ v hv).2, inv_left p (hγ v hv).1]


/-! ### the executable automorphism list `autGroupFrom` -/

theorem autOf_col {n : Nat} {l0 l : Array Nat} (h0 : IsPerm n l0) {v : Nat} (hv : v < n) :
    col (autOf n l0 l) v = invFn n l (col l0 v) := by
  unfold autOf
  simp only
  rw [col_tab _ hv, col_tab _ (h0.1 v hv)]

theorem mem_sameCertLeaves {g : G} {ls : List (Array Nat)} {l0 l : Array Nat} :
    l ∈ sameCertLeaves g ls l0 ↔ l ∈ ls ∧ cert g l = cert g l0 := by
  unfold sameCertLeaves
  simp [List.mem_filter]

/-- soundness: every element of the model's automorphism list is an automorphism of `g` -/
theorem autGroupFrom_sound {g : G} (hg : WF g) {s : St} (hw : s.work ≠ []) {a : Array Nat} (ha : a ∈ autGroupFrom g s) :
    ∃ τ, Relabel g g (col a) τ := by
  unfold autGroupFrom at ha
  cases hls : allLeaves g s with
  | nil => rw [hls] at ha; cases ha
  | cons l0 ls =>
    rw [hls] at ha
    obtain ⟨l, hl, rfl⟩ := List.mem_map.1 ha
    obtain ⟨hl1, hl2⟩ := mem_sameCertLeaves.1 hl
    have h0 : l0 ∈ allLeaves g s := by rw [hls]; exact List.mem_cons_self ..
    rw [← hls] at hl1
    have p0 := allLeaves_perm hg hw l0 h0
    have p := allLeaves_perm hg hw l hl1
    apply aut_of_leaves hg hw h0 hl1 hl2
    intro v hv
    rw [autOf_col p0 hv]
    exact inv_right p (p0.1 v hv)

/-- completeness: every automorphism of `g` compatible with the start state is in the model's automorphism list -/
theorem autGroupFrom_complete {g : G} (hg : WF g) {s : St} (hw : s.work ≠ []) {γ τ : Nat → Nat}
    (R : Relabel g g γ τ) (h : SRel g γ s s) :
    ∃ a, a ∈ autGroupFrom g s ∧ ∀ v, v < g.n → col a v = γ v := by
  unfold autGroupFrom
  cases hls : allLeaves g s with
  | nil => exact absurd hls (leaves_ne_nil g _ _ _)
  | cons l0 ls =>
    have h0 : l0 ∈ allLeaves g s := by rw [hls]; exact List.mem_cons_self ..
    obtain ⟨l, hl, hc, hγ⟩ := leaf_of_aut R h h0
    have p0 := allLeaves_perm hg hw l0 h0
    have p := allLeaves_perm hg hw l hl
    refine ⟨autOf g.n l0 l, List.mem_map.2 ⟨l, mem_sameCertLeaves.2 ⟨by rw [← hls]; exact hl, hc⟩, rfl⟩, ?_⟩
    intro v hv
    rw [autOf_col p0 hv, ← hγ v hv, inv_left p (R.σ_lt v hv)]


/-! ### the graphs the driver builds are well formed -/

theorem nbrs_ofSpec (g : GraphSpec.G) {v : Nat} (hv : v < g.n) : (ofSpec g).nbrs v = g.nbrs v := by
  simp [G.nbrs, ofSpec, hv]

theorem ofSpec_wf {g : GraphSpec.G} (hg : g.WF) : WF (ofSpec g) where
  lt := by
    intro v hv w hw
    rw [nbrs_ofSpec g hv] at hw
    exact List.mem_range.1 (List.mem_filter.1 hw).1
  nodup := by
    intro v hv
    rw [nbrs_ofSpec g hv]
    exact List.Nodup.filter _ List.nodup_range
  symm := by
    intro u v hu hv h
    rw [nbrs_ofSpec g hu] at h
    rw [nbrs_ofSpec g hv]
    simp only [GraphSpec.G.nbrs, List.mem_filter, List.mem_range] at h ⊢
    exact ⟨hu, by rw [hg.symm]; exact h.2⟩
  irrefl := by
    intro v hv h
    rw [nbrs_ofSpec g hv] at h
    simp only [GraphSpec.G.nbrs, List.mem_filter, List.mem_range] at h
    rw [hg.irrefl] at h
    exact absurd h.2 (by simp)

/-- every graph parsed from a request line is well formed -/
theorem ofSpec_ofEdges_wf (n : Nat) (es : List (Nat × Nat)) : WF (ofSpec (GraphSpec.ofEdges n es)) :=
  ofSpec_wf (GraphSpec.ofEdges_wf n es)

/-! ### a small instance for the non-vacuity examples: the path 0-1-2 and the transposition (0 1) -/

def exG : G := ofSpec (GraphSpec.ofEdges 3 [(0, 1), (1, 2)])
def exσ : Nat → Nat := fun v => if v = 0 then 1 else if v = 1 then 0 else v
def exG' : G := relabel exG exσ exσ

theorem exG_wf : WF exG := ofSpec_ofEdges_wf _ _

theorem exRelabel : Relabel exG exG' exσ exσ := by
  apply relabel_Relabel
  · intro v hv; have hv' : v < 3 := hv; interval_cases v <;> simp [exσ]
  · intro v hv; have hv' : v < 3 := hv; interval_cases v <;> simp [exσ]
  · intro v hv; have hv' : v < 3 := hv; show exσ v < 3; interval_cases v <;> simp [exσ]
  · intro v hv; have hv' : v < 3 := hv; show exσ v < 3; interval_cases v <;> simp [exσ]
  · exact exG_wf.lt

/-- the reflection 0 ↔ 2 of the path is an automorphism -/
def exγ : Nat → Nat := fun v => 2 - v

theorem exAut : Relabel exG exG exγ exγ where
  n_eq := rfl
  left := by intro v hv; have hv' : v < 3 := hv; simp only [exγ]; omega
  right := by intro v hv; have hv' : v < 3 := hv; simp only [exγ]; omega
  σ_lt := by intro v hv; show 2 - v < 3; omega
  τ_lt := by intro v hv; show 2 - v < 3; omega
  nbrs_lt := exG_wf.lt
  nbrs := by
    intro v hv
    have hv' : v < 3 := hv
    interval_cases v <;> decide

end IR
