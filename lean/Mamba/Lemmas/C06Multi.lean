import Mamba.Lemmas.C06Prufer
/-! C06: `MulticodeDecode` on the code of a graph. -/
namespace Construct
open GraphSpec


/-! ### MulticodeDecode on the code of a graph -/

/-- one byte of the loop of `MulticodeDecode` -/
def mcStep (st : MultiSt) (b : Nat) : Outcome MultiSt :=
  if b == 0 then pure { st with cur := st.cur + 1 } else do
    let idx := ((b - 1) * (b - 2)) / 2 + st.cur
    let e ← setAt st.edges idx 1
    let d ← incrAt st.deg (b - 1)
    let d ← incrAt d st.cur
    pure { edges := e, deg := d, m := st.m + 1, cur := st.cur }

def MultiSt.dense (n : Nat) (st : MultiSt) : Dense := ⟨n, st.m, st.deg, st.edges⟩

/-- a non-zero byte `w + 1` read while the current vertex is `u < w` does exactly what `AddEdge(u, w)` does when the
edge is new -/
theorem mcStep_eq_addEdge (n : Nat) (st : MultiSt) (w : Nat) (hw : st.cur < w) (hwn : w < n)
    (hwf : (st.dense n).WF) (hnew : (st.dense n).abs.adj st.cur w = false) :
    ∃ st', mcStep st (w + 1) = .ok st' ∧ st'.cur = st.cur ∧ addEdge (st.dense n) st.cur w = .ok (st'.dense n) := by
  have hs : (st.dense n).edges.size = tri (st.dense n).n := hwf.size_edges
  have hds : st.deg.size = n := hwf.size_deg
  have hidx : tri w + st.cur < st.edges.size := by
    have : st.edges.size = tri n := hs
    rw [this]; exact tri_add_lt hw hwn
  have hadjF : (st.dense n).adjF st.cur w = false := by
    have := hnew; simp only [Dense.abs, Dense.adj_eq _ hs] at this; exact this
  obtain ⟨d1, e1, s1, g1⟩ := incrAt_ok st.deg w (by omega)
  obtain ⟨d2, e2, s2, g2⟩ := incrAt_ok d1 st.cur (by omega)
  obtain ⟨d1', e1', s1', g1'⟩ := incrAt_ok st.deg st.cur (by omega)
  obtain ⟨d2', e2', s2', g2'⟩ := incrAt_ok d1' w (by omega)
  have hdd : d2 = d2' := by
    apply Array.ext_getElem?
    intro x
    rw [g2 x, g1 x, g2' x, g1' x]
    cases st.deg[x]? with
    | none => rfl
    | some y =>
      simp only [Option.map_some, Option.some.injEq]
      have hne1 : ¬ w = st.cur := by omega
      have hne2 : ¬ st.cur = w := by omega
      by_cases c1 : x = w <;> by_cases c2 : x = st.cur
      · omega
      · subst c1; simp [hne1]
      · subst c2; simp [hne2]
      · simp [c1, c2]
  refine ⟨{ edges := st.edges.set (tri w + st.cur) 1, deg := d2, m := st.m + 1, cur := st.cur }, ?_, rfl, ?_⟩
  · have hb : (w + 1 == 0) = false := by simp
    simp only [mcStep, hb, Bool.false_eq_true, ↓reduceIte, Nat.add_sub_cancel]
    have : (w * (w + 1 - 2)) / 2 + st.cur = tri w + st.cur := by
      simp [tri, show w + 1 - 2 = w - 1 by omega]
    rw [this, setAt_ok _ hidx]
    simp only [Outcome.bind_ok, e1, e2]; rfl
  · rw [addEdge_unfold]
    have hne : (st.cur == w) = false := by simp; omega
    simp only [hne, Bool.false_eq_true, ↓reduceIte, Dense.isEdge_eq _ hs, hadjF, Outcome.bind_ok]
    have e1'' : incrAt (st.dense n).deg st.cur = .ok d1' := e1'
    rw [e1'']; simp only [Outcome.bind_ok]; rw [e2']; simp only [Outcome.bind_ok, hw, ↓reduceIte, tri_def]
    have hset : setAt (st.dense n).edges (tri w + st.cur) 1 = .ok (st.edges.set (tri w + st.cur) 1) := setAt_ok _ hidx
    rw [hset]; simp only [Outcome.bind_ok, MultiSt.dense, hdd]


end Construct
