import Mamba.Model.Codec
import Mamba.Spec.Formats
import Mathlib.Tactic.Ring
/-!
Shared helper lemmas for the codec proofs (C07/C08): byte arithmetic, checked array updates, loop invariants for
`List.foldlM` in `Outcome`, triangular numbers.
-/
namespace Codec

/-! ### byte arithmetic -/

theorem bsub_of_le {a b : Nat} (h : b ≤ a) (ha : a < 256) : bsub a b = a - b := by
  unfold bsub; omega

theorem badd_of_lt {a b : Nat} (h : a + b < 256) : badd a b = a + b := by
  unfold badd; omega

theorem bsub_lt (a b : Nat) : bsub a b < 256 := by unfold bsub; omega
theorem badd_lt (a b : Nat) : badd a b < 256 := by unfold badd; omega

/-! ### triangular numbers -/

def tri (n : Nat) : Nat := n * (n - 1) / 2

theorem tri_succ (n : Nat) : tri (n + 1) = tri n + n := by
  unfold tri
  cases n with
  | zero => rfl
  | succ k =>
    have h : (k + 1 + 1) * (k + 1 + 1 - 1) = (k + 1) * (k + 1 - 1) + 2 * (k + 1) := by
      simp only [Nat.add_sub_cancel]
      ring
    rw [h, Nat.add_mul_div_left _ _ (by decide : 0 < 2)]

theorem tri_mono {a b : Nat} (h : a ≤ b) : tri a ≤ tri b := by
  induction h with
  | refl => exact Nat.le_refl _
  | step _ ih => rw [tri_succ]; omega

/-- the index of the pair `i < j` is below `tri n` when `j < n` -/
theorem tri_idx_lt {i j n : Nat} (hij : i < j) (hj : j < n) : tri j + i < tri n := by
  have := tri_mono (show j + 1 ≤ n from hj)
  rw [tri_succ] at this
  omega

/-! ### `Outcome` -/

theorem Outcome.ok_ne_panic {α : Type} (a : α) : (Outcome.ok a) ≠ .panic := by intro h; cases h
theorem Outcome.ok_ne_outOfFuel {α : Type} (a : α) : (Outcome.ok a) ≠ .outOfFuel := by intro h; cases h

/-- Loop rule for `foldlM` in `Outcome`: an invariant indexed by the number of elements processed. -/
theorem foldlM_inv {α β : Type} (f : β → α → Outcome β) (P : Nat → β → Prop) :
    ∀ (l : List α) (k : Nat) (b : β), P k b →
      (∀ (i : Nat) (hi : i < l.length) (b : β), P (k + i) b → ∃ b', f b l[i] = .ok b' ∧ P (k + i + 1) b') →
      ∃ b', l.foldlM f b = .ok b' ∧ P (k + l.length) b' := by
  intro l
  induction l with
  | nil => intro k b hb _; exact ⟨b, rfl, by simpa using hb⟩
  | cons x xs ih =>
    intro k b hb hstep
    obtain ⟨b1, h1, hb1⟩ := hstep 0 (by simp) b (by simpa using hb)
    simp only [List.getElem_cons_zero] at h1
    have := ih (k + 1) b1 (by simpa using hb1) (by
      intro i hi b2 hb2
      have e1 : k + 1 + i = k + (i + 1) := by omega
      have e2 : k + 1 + i + 1 = k + (i + 1) + 1 := by omega
      have := hstep (i + 1) (by simpa using hi) b2 (e1 ▸ hb2)
      simpa [e2] using this)
    obtain ⟨b', h2, hb'⟩ := this
    refine ⟨b', ?_, ?_⟩
    · simp only [List.foldlM_cons]
      show (f b x >>= fun b => List.foldlM f b xs) = _
      rw [h1]; exact h2
    · have e3 : k + 1 + xs.length = k + (x :: xs).length := by simp; omega
      exact e3 ▸ hb'

/-- Loop rule for `foldlM`, membership form. -/
theorem foldlM_inv_mem {α β : Type} (f : β → α → Outcome β) (P : β → Prop) (l : List α) (b : β) (hb : P b)
    (hstep : ∀ a ∈ l, ∀ b, P b → ∃ b', f b a = .ok b' ∧ P b') :
    ∃ b', l.foldlM f b = .ok b' ∧ P b' := by
  obtain ⟨b', h, hp⟩ := foldlM_inv f (fun _ => P) l 0 b hb (by
    intro i hi b hb; exact hstep _ (List.getElem_mem hi) b hb)
  exact ⟨b', h, hp⟩

/-- `foldlM` of a step that never fails is a `foldl`. -/
theorem foldlM_pure {α β : Type} (f : β → α → β) (l : List α) (b : β) :
    l.foldlM (fun b a => (Outcome.ok (f b a))) b = .ok (l.foldl f b) := by
  induction l generalizing b with
  | nil => rfl
  | cons x xs ih => simp only [List.foldlM_cons, List.foldl_cons]; exact ih _

/-! ### checked array updates -/

theorem incr_ok {a : Array Nat} {i : Nat} (h : i < a.size) :
    incr a i = .ok (a.setIfInBounds i (a[i] + 1)) := by
  unfold incr; simp [h]

theorem decr_ok {a : Array Nat} {i : Nat} (h : i < a.size) :
    decr a i = .ok (a.setIfInBounds i (a[i] - 1)) := by
  unfold decr; simp [h]

theorem setAt_ok {a : Array Nat} {i x : Nat} (h : i < a.size) :
    setAt a i x = .ok (a.setIfInBounds i x) := by
  unfold setAt; simp [h]

theorem incr_eq_ok {a b : Array Nat} {i : Nat} (h : incr a i = .ok b) :
    i < a.size ∧ b = a.setIfInBounds i (a.getD i 0 + 1) := by
  unfold incr at h
  cases hi : a[i]? with
  | none => simp [hi] at h
  | some x =>
    simp only [hi, Outcome.ok.injEq] at h
    have hlt : i < a.size := by
      rcases Nat.lt_or_ge i a.size with h' | h'
      · exact h'
      · rw [Array.getElem?_eq_none h'] at hi; cases hi
    refine ⟨hlt, ?_⟩
    rw [← h]
    have : a.getD i 0 = x := by
      rw [Array.getElem?_eq_getElem hlt] at hi
      simp only [Array.getD, hlt, dite_true]
      exact Option.some.inj hi
    rw [this]

/-! ### canonical representations of an abstract graph -/
open GraphSpec

/-- the `Edges` array of the `DenseGraph` of `g`: bytes 0/1 in the order 01, 02, 12, 03, ... -/
def upperBits (g : G) : List Nat :=
  (List.range g.n).flatMap fun j => (List.range j).map fun i => if g.adj i j then 1 else 0

/-- the `DenseGraph` value of `g` (as `NewDense` builds it) -/
def denseOf (g : G) : Dense :=
  { n := g.n, m := g.m, deg := ((List.range g.n).map g.deg).toArray, edges := (upperBits g).toArray }

/-- the `SparseGraph` value of `g` -/
def sparseOf (g : G) : Sparse :=
  { n := g.n, m := g.m, nbrs := ((List.range g.n).map g.nbrs).toArray, deg := ((List.range g.n).map g.deg).toArray }

/-- `AddEdge(v, x)` for every pair `(x, v)` of a list, in order -/
def addEdges (g : Sparse) (es : List (Nat × Nat)) : Outcome Sparse :=
  es.foldlM (fun g p => g.addEdge p.2 p.1) g

end Codec
