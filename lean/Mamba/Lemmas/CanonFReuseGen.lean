import Mamba.Lemmas.CanonFGenMain
/-!
# Storage reuse, semantic form: everything we know about a returning run of `canonicalIsomorphAllocated` on ANY storage and
ANY initial partition that has the invariants of a fresh / reset one (general search)
-/
namespace CanonF
open GraphSpec Relation

theorem allocated_semantic_gen (fuel : Nat) (g : G) (hg : g.WF) (hn : g.n ≠ 0) {op0 : OP} {st : Storage} {r : Res}
    {opR : Option OP} {stR : Storage}
    (hp : PartInv g.n op0) (ha : AgeInv op0) (hage : op0.age = 0) (hspl : op0.spl = 0) (hval : op0.value.len = 0)
    (hm0 : Match g.n op0 (IR.initSt (irG g.n (nbrsOf g)) op0.binDividers.len (cellOf op0))) (hb0 : BtcInv op0)
    (hbs : BinsSorted op0)
    (hgen : ¬ (((nbrsOf g).toList.map List.length).sum / 2 = 0 ∧ op0.binDividers.len = 1))
    (hal : canonicalIsomorphAllocated fuel g.n (((nbrsOf g).toList.map List.length).sum / 2) (nbrsOf g) (some op0) st {}
      = .ok (r, opR, stR)) :
    ∃ p ds gs, r.perm = some p ∧ r.orbits = some ds ∧ r.gens = some gs ∧ p.Perm (List.range g.n) ∧ ds.length = g.n ∧
      certPos (nbrsOf g) p g.n = IR.canonCertFrom (IR.ofSpec g) (irInit g op0) ∧
      (∀ γ ∈ gs, IsAutL (nbrsOf g) g.n γ) ∧
      (∀ a b, a < g.n → b < g.n → Disjoint.rep ds.toArray a = Disjoint.rep ds.toArray b →
        EqvGen (fun x y => ∃ γ ∈ gs, γ[x]? = some y) a b) ∧
      (∀ γ, IsAutL (nbrsOf g) g.n γ → (∀ v, v < g.n → cellOf op0 (γ.getD v 0) = cellOf op0 v) →
        (∀ u, u < g.n → Disjoint.rep ds.toArray u = Disjoint.rep ds.toArray (γ.getD u 0)) ∧
        GenBy (fun x => x ∈ gs) g.n γ) := by
  obtain ⟨hnbok, hsz⟩ := nbOK_nbrsOf g hg
  have hn0 : 0 < g.n := Nat.pos_of_ne_zero hn
  have hw : (IR.initSt (irG g.n (nbrsOf g)) op0.binDividers.len (cellOf op0)).work ≠ [] := by
    show List.range op0.binDividers.len ≠ []
    have := hp.bdLen_pos
    intro e
    have := congrArg List.length e
    simp at this
    omega
  have hinv := IR.refine_inv' (g := irG g.n (nbrsOf g)) (fuel := g.n * g.n + 10) (by omega) hw
  have hlenm : ∀ o : List Nat, o.Perm (List.range g.n) →
      (certPos (nbrsOf g) o g.n).length = ((nbrsOf g).toList.map List.length).sum / 2 :=
    fun o ho => certPos_length hnbok hsz ho
  -- the certificate-level call: the returned leaf is a leaf of the tree, generators are automorphisms, orbits are generated
  have hO := treeOrdQ stablePerm refineMatch (n := g.n) (nb := nbrsOf g) (rf := g.n * g.n + 10)
    (s0 := IR.initSt (irG g.n (nbrsOf g)) op0.binDividers.len (cellOf op0)) hnbok (rfuel_ge g.n) hinv.1 hinv.2
  obtain ⟨gs, ds, hgs, hds, haut, hdl, _, ⟨p, hp1, hp2⟩, hgenby⟩ := allocated_cert stablePerm expandValue_cert hO hn
    (fun hm h1 => hgen ⟨hm, h1⟩) rfl hp ha hage hspl hval ⟨hb0, Or.inl ⟨hage, hm0⟩⟩ hnbok hlenm hal
  -- the three coverage layers
  obtain ⟨r0, hr0⟩ : ∃ r0, r0 = IR.refine (irG g.n (nbrsOf g)) (g.n * g.n + 10)
      (IR.initSt (irG g.n (nbrsOf g)) op0.binDividers.len (cellOf op0)) := ⟨_, rfl⟩
  rw [← hr0] at hinv
  have hJ := (certMainJ expandValue_cert hnbok hlenm).extend
    (genMainJX (rf := g.n * g.n + 10) (r := r0) hnbok hsz rfl (rfuel_ge g.n) hinv.1 hinv.2 hlenm)
  obtain ⟨s, ⟨hcA, gh, ⟨hwA, hG, _, _, hfin⟩, ⟨hGA, _, _, hfinA⟩, ⟨_, hfinG⟩⟩, hperm', horb, hgens⟩ :=
    allocated_mainJ stablePerm expandValue_cert hJ hn
      (fun hm h1 => hgen ⟨hm, h1⟩) rfl hp ha hage hspl hval
      (fun s0 hi => by rw [hr0]; exact gen_init hnbok (rfuel_ge g.n) hp ha hm0 hb0 hbs hage hi) hal
  rw [hp1] at hperm'
  rw [hds] at horb
  rw [hgs] at hgens
  have ep : p = s.bestPerm.toList := Option.some.inj hperm'
  have ed : ds = s.flOrbits.toList := Option.some.inj horb
  have eg : gs = (s.gens.toList.take s.ngens).map Sl.toList := Option.some.inj hgens
  have hpe : s.path = [] := by
    have := hwA.2.2.2.2.1
    cases hpth : s.path with
    | nil => rfl
    | cons a t => rw [hpth] at this; cases hcc : s.choices <;> simp [FramesOK, hcc] at this
  obtain ⟨hpos, hcomp⟩ := hfin hpe
  have hB := hG.best hpos
  have hF := hG.first hpos
  have hperm : p.Perm (List.range g.n) := by rw [ep]; exact hB.perm
  refine ⟨p, ds, gs, hp1, hds, hgs, hperm, hdl, ?_, fun γ hγ => (haut γ hγ).1, hgenby, ?_⟩
  · -- the returned certificate is the canonical one
    have hbest := hB.cert
    rw [hr0, hbest, ← ep] at hcomp
    exact canon_eq_of_complete hg hw hperm hp2 hcomp
  · intro γ hγ hcls
    have hcolr : ∀ v, v < g.n → IR.col r0.c (γ.getD v 0) = IR.col r0.c v := by
      obtain ⟨τ, Rl⟩ := relabel_of_isAutL hnbok hγ
      have h0 : IR.SRel (irG g.n (nbrsOf g)) (fun v => γ.getD v 0)
          (IR.initSt (irG g.n (nbrsOf g)) op0.binDividers.len (cellOf op0))
          (IR.initSt (irG g.n (nbrsOf g)) op0.binDividers.len (cellOf op0)) :=
        IR.initSt_rel Rl _ (fun v hv => hcls v hv)
      have h1 := IR.refine_rel Rl (g.n * g.n + 10) h0
      rw [← hr0] at h1
      exact fun v hv => h1.1 v hv
    constructor
    · intro u hu
      have hc' : ACov g.n (nbrsOf g) (g.n * g.n + 10) (IR.tab g.n (fun v => gh.oF.idxOf v)) (certPos (nbrsOf g) gh.oF g.n)
          (ORel s) r0 := by
        have := hfinA hpe
        rw [hF.cert] at this
        exact this
      have := acov_root_aut hnbok hF.path hF.leaf hF.col hF.perm hc' hγ hcolr u hu
      rw [ed]
      show Disjoint.rep s.flOrbits.toList.toArray u = Disjoint.rep s.flOrbits.toList.toArray (γ.getD u 0)
      have e : s.flOrbits.toList.toArray = s.flOrbits := by simp
      rw [e]
      exact this
    · have := hfinG hpe γ hγ hcolr (fun j v hj _ => absurd hj (Nat.not_lt_zero _))
      apply GenBy.mono _ this
      rintro δ ⟨k, gg, hk, hgk, rfl⟩
      rw [eg]
      apply List.mem_map.2
      refine ⟨gg, ?_, rfl⟩
      apply List.mem_of_getElem? (i := k)
      rw [List.getElem?_take, if_pos hk, Array.getElem?_toList]; exact hgk

end CanonF
