import Mamba.Lemmas.CanonFTree
import Mamba.Lemmas.IRPass
/-!
# The refinement of the faithful model is `IR.refine` on the colouring (`RefineMatch`)

One iteration (`refineIter`, characterised at the level of colourings by `RefineIterCol`) is one `IR.pass`
(characterised by `IR.PassChar`); the loops agree because the splitter is the largest entry of the work list on both
sides and the IR fuel `rf ≥ 3 n + 3` is at least the fuel of the faithful refinement.
-/
namespace CanonF

theorem foldl_max_spec : ∀ (xs : List Nat) (x : Nat),
    xs.foldl max x ∈ x :: xs ∧ ∀ y ∈ x :: xs, y ≤ xs.foldl max x := by
  intro xs
  induction xs with
  | nil => intro x; simp
  | cons a t ih =>
    intro x
    simp only [List.foldl_cons]
    obtain ⟨h1, h2⟩ := ih (max x a)
    constructor
    · rcases List.mem_cons.1 h1 with h | h
      · rw [h]
        rcases Nat.le_total x a with hxa | hax
        · rw [Nat.max_eq_right hxa]; simp
        · rw [Nat.max_eq_left hax]; simp
      · exact List.mem_cons_of_mem _ (List.mem_cons_of_mem _ h)
    · intro y hy
      rcases List.mem_cons.1 hy with rfl | hy
      · exact Nat.le_trans (Nat.le_max_left _ _) (h2 _ (List.mem_cons_self ..))
      · rcases List.mem_cons.1 hy with rfl | hy
        · exact Nat.le_trans (Nat.le_max_right _ _) (h2 _ (List.mem_cons_self ..))
        · exact h2 _ (List.mem_cons_of_mem _ hy)

/-- `popMax` pops the largest entry -/
theorem popMax_spec {w : List Nat} (hnd : w.Nodup) {i : Nat} (hi : i ∈ w) (hmax : ∀ x ∈ w, x ≤ i) :
    IR.popMax w = some (i, w.erase i) ∧ ∀ x, x ∈ w.erase i ↔ (x ∈ w ∧ x ≠ i) := by
  refine ⟨?_, fun x => by rw [hnd.mem_erase_iff]; exact And.comm⟩
  cases w with
  | nil => cases hi
  | cons a t =>
    obtain ⟨h1, h2⟩ := foldl_max_spec t a
    have e : t.foldl max a = i := Nat.le_antisymm (hmax _ h1) (h2 _ hi)
    simp only [IR.popMax, e]

theorem cnt_colOf {n : Nat} {nb : Nbrs} (hnb : NbOK nb n) (op : OP) (i v : Nat) :
    IR.cnt (irG n nb) (colOf n op) i v = cntIn nb op i v := by
  unfold IR.cnt cntIn
  show ((irG n nb).adj.getD v []).countP _ = _
  apply List.countP_congr
  intro w hw
  have hwn : w < n := (hnb.lt v w hw).2
  rw [col_colOf hwn]

theorem cellOf_lt {n : Nat} {op : OP} (hp : PartInv n op) {v : Nat} (hv : v < n) : cellOf op v < op.binDividers.len := by
  have hmem : v ∈ op.order.toList := hp.perm.mem_iff.2 (List.mem_range.2 hv)
  rw [cellOf_order hp (getElem?_idxOf_of_mem hmem)]
  have hi := List.idxOf_lt_length_of_mem hmem
  have holen : op.order.toList.length = n := by rw [Sl.length_toList _ hp.wfOrder, hp.lenOrder]
  have := binIdx_lt op.binDividers.toList n _ hp.last (by omega : op.order.toList.idxOf v < n)
  rwa [Sl.length_toList _ hp.wfBd] at this

/-- every bin has a member -/
theorem cell_nonempty {n : Nat} {op : OP} (hp : PartInv n op) {x : Nat} (hx : x < op.binDividers.len) :
    ∃ v, v < n ∧ cellOf op v = x := by
  have hbl : op.binDividers.toList.length = op.binDividers.len := Sl.length_toList _ hp.wfBd
  have hs : op.binDividers.toList.Pairwise (· < ·) := (List.pairwise_cons.1 hp.sorted).2
  obtain ⟨bs, hbs⟩ : ∃ bs, (0 :: op.binDividers.toList)[x]? = some bs :=
    ⟨_, List.getElem?_eq_getElem (by simp only [List.length_cons]; omega)⟩
  obtain ⟨d, hd⟩ : ∃ d, op.binDividers.toList[x]? = some d := ⟨_, List.getElem?_eq_getElem (by omega)⟩
  have hlt := rf_sorted_start_lt hp.sorted hbs hd
  have hdn : d ≤ n := rf_bd_le_last hs hp.last d (List.mem_of_getElem? hd)
  have holen : op.order.toList.length = n := by rw [Sl.length_toList _ hp.wfOrder, hp.lenOrder]
  obtain ⟨v, hv⟩ : ∃ v, op.order.toList[bs]? = some v := ⟨_, List.getElem?_eq_getElem (by omega)⟩
  refine ⟨v, perm_range_lt hp.perm hv, ?_⟩
  rw [cellOf_order hp hv]
  exact (binIdx_eq_iff _ hs hbs hd bs).2 ⟨Nat.le_refl _, hlt⟩

set_option maxHeartbeats 1000000 in
/-- one iteration of the refinement is one `IR.pass` with the largest entry of the work list -/
theorem refineIter_match (hic : RefineIterCol) (hpc : IR.PassChar) {n : Nat} {nb : Nbrs} {cb fl : Sl Nat}
    {opts : Options} {op op' : OP} {sc sc' : Scratch} {s : IR.St}
    (hp : PartInv n op) (ha : AgeInv op) (hs : ScrInv n sc) (htw : sc.timesSeen.WF) (htl : sc.timesSeen.len = n)
    (hb : BtcInv op) (hne : 0 < op.binsToCheck.len) (hnb : NbOK nb n) (hm : Match n op s) (hp' : PartInv n op')
    (h : refineIter nb n cb fl opts op sc = .ok (false, op', sc')) :
    ∃ i rest, IR.popMax s.work = some (i, rest) ∧ Match n op' (IR.pass (irG n nb) s i rest) ∧ BtcInv op' ∧
      sc'.timesSeen.WF ∧ sc'.timesSeen.len = n ∧ ScrInv n sc' := by
  obtain ⟨i, hil, himem, hmax, hord, hwk, hb', t1, t2, t3⟩ := hic hp ha hs htw htl hb hne hnb h
  have hiw : i ∈ s.work := (hm.work i).2 himem
  have hmaxw : ∀ x ∈ s.work, x ≤ i := by
    intro x hx
    have := hmax _ ((hm.work x).1 hx)
    exact Int.ofNat_le.1 this
  obtain ⟨hpop, hrest⟩ := popMax_spec hm.nodup hiw hmaxw
  refine ⟨i, s.work.erase i, hpop, ?_, hb', t1, t2, t3⟩
  have hcol : ∀ v, v < n → IR.col s.c v = cellOf op v := by
    intro v hv; rw [hm.col]; exact col_colOf hv
  have hcnt : ∀ v, IR.cnt (irG n nb) s.c i v = cntIn nb op i v := by
    intro v; rw [hm.col]; exact cnt_colOf hnb op i v
  have hInvA : IR.InvA (irG n nb) s := by
    intro v hv
    rw [hcol v hv, hm.cells]
    exact cellOf_lt hp hv
  obtain ⟨c1, c2, c3, c4⟩ := hpc (irG_wf hnb) s hInvA i (s.work.erase i)
    (by
      intro x hx
      have hxw := ((hrest x).1 hx).1
      have := (hb.range _ ((hm.work x).1 hxw)).2
      rw [hm.cells]
      exact Int.ofNat_lt.1 this)
    (by
      intro x hx
      rw [hm.cells] at hx
      obtain ⟨v, hv, e⟩ := cell_nonempty hp hx
      exact ⟨v, hv, by rw [hcol v hv]; exact e⟩)
    (cellOf op') op'.binDividers.len (fun x => ((x : Nat) : Int) ∈ op'.binsToCheck.toList)
    (fun v hv => cellOf_lt hp' hv)
    (fun x hx => cell_nonempty hp' hx)
    (by
      intro u v hu hv
      show cellOf op' u < cellOf op' v ↔ _
      rw [hord u v hu hv, hcol u hu, hcol v hv, hcnt u, hcnt v])
    (by
      intro v hv
      show ((cellOf op' v : Nat) : Int) ∈ op'.binsToCheck.toList ↔ _
      rw [hwk v hv]
      have e1 : IR.col s.c v ∈ s.work.erase i ↔
          (((cellOf op v : Nat) : Int) ∈ op.binsToCheck.toList ∧ cellOf op v ≠ i) := by
        rw [hrest, hcol v hv, hm.work]
      constructor
      · rintro (⟨a1, a2, a3⟩ | ⟨u, hu, a1, a2⟩)
        · left
          refine ⟨e1.2 ⟨a1, a2⟩, fun u hu hcu => ?_⟩
          rw [hcnt, hcnt]
          exact a3 u hu (by rw [← hcol u hu, ← hcol v hv]; exact hcu)
        · right
          exact ⟨u, hu, by rw [hcol u hu, hcol v hv]; exact a1, by rw [hcnt, hcnt]; exact a2⟩
      · rintro (⟨a1, a3⟩ | ⟨u, hu, a1, a2⟩)
        · left
          obtain ⟨b1, b2⟩ := e1.1 a1
          refine ⟨b1, b2, fun u hu hcu => ?_⟩
          have := a3 u hu (by rw [hcol u hu, hcol v hv]; exact hcu)
          rwa [hcnt, hcnt] at this
        · right
          refine ⟨u, hu, by rw [← hcol u hu, ← hcol v hv]; exact a1, ?_⟩
          rwa [hcnt, hcnt] at a2)
  refine ⟨c1, c2, c3, fun x => ?_⟩
  rw [c4]
  constructor
  · exact fun h => h.2
  · intro hx
    exact ⟨Int.ofNat_lt.1 (hb'.range _ hx).2, hx⟩

/-- the refinement loop against `IR.refine` with any fuel `rf ≥ f` -/
theorem refineLoop_match (hst : StablePerm) (hic : RefineIterCol) (hpc : IR.PassChar) {n : Nat} {nb : Nbrs}
    {cb fl : Sl Nat} {opts : Options} (hnb : NbOK nb n) :
    ∀ (f rf : Nat) (op op' : OP) (sc sc' : Scratch) (s : IR.St), f ≤ rf →
      PartInv n op → AgeInv op → ScrInv n sc → sc.timesSeen.WF → sc.timesSeen.len = n → BtcInv op → Match n op s →
      refineLoop nb n cb fl opts f op sc = .ok (false, op', sc') →
      Match n op' (IR.refine (irG n nb) rf s) ∧ op'.binsToCheck.len = 0 := by
  intro f
  induction f with
  | zero => intro rf op op' sc sc' s _ _ _ _ _ _ _ _ h; simp [refineLoop] at h
  | succ f ih =>
    intro rf op op' sc sc' s hrf hp ha hs htw htl hb hm h
    rw [refineLoop] at h
    by_cases hbl : op.binsToCheck.len > 0
    · rw [if_pos hbl] at h
      cases hit : refineIter nb n cb fl opts op sc with
      | ok R =>
        obtain ⟨r, op1, sc1⟩ := R
        rw [hit] at h
        cases r with
        | true =>
          simp only [Outcome.ok.injEq, Prod.mk.injEq] at h
          exact absurd h.1 (by simp)
        | false =>
          simp only at h
          obtain ⟨g1, _, _, _⟩ := refineIter_inv2 hst (carried_true nb n cb fl opts).to2 hp ha trivial hs hit
          obtain ⟨i, rest, hpop, hm1, hb1, t1, t2, t3⟩ :=
            refineIter_match hic hpc hp ha hs htw htl hb hbl hnb hm g1.1 hit
          obtain ⟨rf', rfl⟩ : ∃ rf', rf = rf' + 1 := ⟨rf - 1, by omega⟩
          have e : IR.refine (irG n nb) (rf' + 1) s = IR.refine (irG n nb) rf' (IR.pass (irG n nb) s i rest) := by
            rw [IR.refine, hpop]
          rw [e]
          exact ih rf' op1 op' sc1 sc' _ (by omega) g1.1 g1.2.1 t3 t1 t2 hb1 hm1 h
      | panic => rw [hit] at h; simp at h
      | outOfFuel => rw [hit] at h; simp at h
    · rw [if_neg hbl] at h
      simp only [Outcome.ok.injEq, Prod.mk.injEq, true_and] at h
      obtain ⟨rfl, rfl⟩ := h
      have hlen : op.binsToCheck.len = 0 := by omega
      have hnil : op.binsToCheck.toList = [] := by simp [Sl.toList, hlen]
      have hw : s.work = [] := by
        apply List.eq_nil_iff_forall_not_mem.2
        intro x hx
        have := (hm.work x).1 hx
        rw [hnil] at this
        cases this
      have e : IR.refine (irG n nb) rf s = s := by
        cases rf with
        | zero => rfl
        | succ r => rw [IR.refine, hw]; rfl
      rw [e]
      exact ⟨hm, hlen⟩

/-- `RefineMatch`: the refinement, when it does not report "worse", is `IR.refine` on the colouring -/
theorem refine_match (hst : StablePerm) (hic : RefineIterCol) (hpc : IR.PassChar) : RefineMatch := by
  intro n nb cb fl opts op op' sc sc' s hp ha hsc htl hb hnb hm hr rf hrf
  unfold refine at hr
  rw [hp.lenOrder] at hr
  exact refineLoop_match hst hic hpc hnb _ rf op op' sc sc' s (by unfold refineFuel; omega) hp ha hsc.scrInv hsc.wfT htl
    hb hm hr

end CanonF
