import Mathlib.Data.List.Chain
import Mathlib.Data.List.Lex
import Mamba.Model.IterComb
import Mamba.Lemmas.IterBase
import Mamba.Lemmas.IterChain
import Mamba.Lemmas.IterGeneric
/-!
# C15: `Combinations` (lexicographic) and `CombinationsColex` of `itertools/combinations.go`

Spec (`Iter.Spec`): `combList n k` / `combSucc n`, `colexList n k` / `colexSucc n`, `ColexLt`.
Main results: `mem_combList`, `combList_sorted`, `combList_chain`, `comb_scan_full`, `Comb.enumerates_lemma`;
`mem_colexList`, `colexList_sorted`, `colexList_chain`, `Colex.next_spec`, `Colex.enumerates_lemma`.
-/

namespace Iter.Spec

/-- `[a, a+1, …, a+m-1]` -/
def consec : Int → Nat → List Int
  | _, 0 => []
  | a, m+1 => a :: consec (a+1) m

/-- the `k`-element subsets of `{lo, …, n-1}` as increasing lists, in lexicographic order -/
def combFrom (n : Int) : Nat → Int → List (List Int)
  | 0, _ => [[]]
  | k+1, lo => (List.range (n - k - lo).toNat).flatMap
      (fun (a : Nat) => (combFrom n k (lo + a + 1)).map (fun x => (lo + a) :: x))

/-- `Combinations(n, k)`: the `k`-element subsets of `{0, …, n-1}` in lexicographic order -/
def combList (n k : Int) : List (List Int) := combFrom n k.toNat 0

/-- lexicographic successor among the combinations from `{.., n-1}` (`none` at the last one) -/
def combSucc (n : Int) : List Int → Option (List Int)
  | [] => none
  | a :: x =>
    match combSucc n x with
    | some y => some (a :: y)
    | none => if a + 1 + x.length < n then some (consec (a + 1) (x.length + 1)) else none

/-- strictly increasing, first element `≥ lo`, all elements `< n` -/
def InComb (n : Int) : Int → List Int → Prop
  | _, [] => True
  | lo, a :: x => lo ≤ a ∧ a < n ∧ InComb n (a + 1) x

/-- the `k`-element subsets of `{0, …, n-1}` as increasing lists, in colexicographic order -/
def colexFrom : Nat → Nat → List (List Int)
  | _, 0 => [[]]
  | 0, _ + 1 => []
  | n + 1, k + 1 => colexFrom n (k + 1) ++ (colexFrom n k).map (· ++ [(n : Int)])

/-- `CombinationsColex(n, k)` -/
def colexList (n k : Int) : List (List Int) := colexFrom n.toNat k.toNat

/-- colexicographic successor; `i` is the index of the head position (the positions below the incremented one
are reset to their index) -/
def colexSuccAux (n : Int) : Int → List Int → Option (List Int)
  | _, [] => none
  | _, [a] => if a + 1 < n then some [a + 1] else none
  | i, a :: b :: x =>
    if a + 1 < b then some ((a + 1) :: b :: x) else (colexSuccAux n (i + 1) (b :: x)).map (i :: ·)

def colexSucc (n : Int) (x : List Int) : Option (List Int) := colexSuccAux n 0 x

/-- colexicographic order: compare from the last element -/
def ColexLt (x y : List Int) : Prop := x.reverse < y.reverse

end Iter.Spec

namespace Iter
open Spec

/-! ## `consec` -/

@[simp] theorem consec_length : ∀ (m : Nat) (a : Int), (consec a m).length = m := by
  intro m
  induction m with
  | zero => intro a; rfl
  | succ m ih => intro a; simp [consec, ih]

theorem consec_succ' : ∀ (m : Nat) (a : Int), consec a (m + 1) = consec a m ++ [a + m] := by
  intro m
  induction m with
  | zero => intro a; simp [consec]
  | succ m ih =>
    intro a
    rw [consec, ih (a + 1)]
    simp only [consec, List.cons_append, Int.natCast_add, Int.natCast_one]
    congr 2
    simp; omega

theorem consec_append : ∀ (m t : Nat) (a : Int), consec a (m + t) = consec a m ++ consec (a + m) t := by
  intro m
  induction m with
  | zero => intro t a; simp [consec]
  | succ m ih =>
    intro t a
    rw [show m + 1 + t = (m + t) + 1 by omega, consec, ih t (a + 1), consec]
    simp only [List.cons_append, Int.natCast_add, Int.natCast_one]
    congr 3
    omega

theorem range_map_eq_consec : ∀ m : Nat, (List.range m).map Int.ofNat = consec 0 m := by
  intro m
  induction m with
  | zero => rfl
  | succ m ih => rw [List.range_succ, List.map_append, ih, consec_succ']; simp

/-! ## membership -/

theorem InComb_length_le : ∀ (x : List Int) (n a : Int), InComb n (a + 1) x → a < n → a + 1 + x.length ≤ n := by
  intro x
  induction x with
  | nil => intro n a _ h; simp; omega
  | cons b x ih =>
    intro n a h _
    obtain ⟨h1, h2, h3⟩ := h
    have := ih n b h3 h2
    simp only [List.length_cons, Int.natCast_add, Int.natCast_one]
    omega

theorem mem_combFrom (n : Int) : ∀ (k : Nat) (lo : Int) (x : List Int),
    x ∈ combFrom n k lo ↔ x.length = k ∧ InComb n lo x := by
  intro k
  induction k with
  | zero =>
    intro lo x
    cases x <;> simp [combFrom, InComb]
  | succ k ih =>
    intro lo x
    cases x with
    | nil => simp [combFrom]
    | cons a x =>
      simp only [combFrom, List.mem_flatMap, List.mem_range, List.mem_map, InComb, List.length_cons,
        Nat.add_right_cancel_iff]
      constructor
      · rintro ⟨i, hi, y, hy, h⟩
        injection h with h1 h2
        subst h1 h2
        obtain ⟨hl, hc⟩ := (ih _ _).mp hy
        exact ⟨hl, by omega, by omega, hc⟩
      · rintro ⟨hl, h0, h1, h2⟩
        have := InComb_length_le x n a h2 h1
        refine ⟨(a - lo).toNat, by omega, x, (ih _ _).mpr ⟨hl, ?_⟩, ?_⟩
        · rw [show lo + ((a - lo).toNat : Int) + 1 = a + 1 by omega]; exact h2
        · rw [show lo + ((a - lo).toNat : Int) = a by omega]

/-- `InComb` in closed form: strictly increasing with all entries in `lo..n-1` -/
theorem InComb_iff (n : Int) : ∀ (x : List Int) (lo : Int),
    InComb n lo x ↔ x.Pairwise (· < ·) ∧ ∀ a ∈ x, lo ≤ a ∧ a < n := by
  intro x
  induction x with
  | nil => intro lo; simp [InComb]
  | cons a x ih =>
    intro lo
    simp only [InComb, ih, List.pairwise_cons, List.mem_cons, forall_eq_or_imp]
    constructor
    · rintro ⟨h1, h2, h3, h4⟩
      exact ⟨⟨fun b hb => by have := (h4 b hb).1; omega, h3⟩, ⟨h1, h2⟩,
        fun b hb => ⟨by have := (h4 b hb).1; omega, (h4 b hb).2⟩⟩
    · rintro ⟨⟨h1, h2⟩, ⟨h3, h4⟩, h5⟩
      exact ⟨h3, h4, h2, fun b hb => ⟨by have := h1 b hb; omega, (h5 b hb).2⟩⟩

theorem mem_combList (n k : Int) (hk : 0 ≤ k) (x : List Int) :
    x ∈ combList n k ↔ (x.length : Int) = k ∧ x.Pairwise (· < ·) ∧ ∀ a ∈ x, 0 ≤ a ∧ a < n := by
  unfold combList
  rw [mem_combFrom, InComb_iff]
  constructor
  · rintro ⟨h1, h2⟩; exact ⟨by omega, h2⟩
  · rintro ⟨h1, h2⟩; exact ⟨by omega, h2⟩

theorem combFrom_ne_nil (n : Int) : ∀ (k : Nat) (lo : Int), (k = 0 ∨ lo + k ≤ n) → combFrom n k lo ≠ [] := by
  intro k
  induction k with
  | zero => intro lo _; simp [combFrom]
  | succ k ih =>
    intro lo h
    have h : lo + (k + 1 : Nat) ≤ n := by omega
    simp only [combFrom, ne_eq, List.flatMap_eq_nil_iff, List.mem_range, List.map_eq_nil_iff, not_forall]
    refine ⟨0, by push_cast at h; omega, ?_⟩
    apply ih
    right
    push_cast at h ⊢; omega

theorem combFrom_eq_nil (n : Int) (k : Nat) (lo : Int) (h : n < lo + (k + 1 : Nat)) : combFrom n (k + 1) lo = [] := by
  have : (n - k - lo).toNat = 0 := by push_cast at h; omega
  simp [combFrom, this]

/-! ## successor -/

theorem combSucc_length (n : Int) : ∀ (x y : List Int), combSucc n x = some y → y.length = x.length := by
  intro x
  induction x with
  | nil => intro y h; simp [combSucc] at h
  | cons a x ih =>
    intro y h
    simp only [combSucc] at h
    cases hp : combSucc n x with
    | some z =>
      rw [hp] at h
      simp only [Option.some.injEq] at h
      subst h
      simp [ih z hp]
    | none =>
      rw [hp] at h
      simp only at h
      split at h
      · simp only [Option.some.injEq] at h
        subst h
        simp
      · simp at h

theorem combSucc_lt (n : Int) : ∀ (x y : List Int), combSucc n x = some y → x < y := by
  intro x
  induction x with
  | nil => intro y h; simp [combSucc] at h
  | cons a x ih =>
    intro y h
    simp only [combSucc] at h
    cases hp : combSucc n x with
    | some z =>
      rw [hp] at h
      simp only [Option.some.injEq] at h
      subst h
      exact List.cons_lt_cons_iff.mpr (Or.inr ⟨rfl, ih z hp⟩)
    | none =>
      rw [hp] at h
      simp only at h
      split at h
      · simp only [Option.some.injEq] at h
        subst h
        rw [consec]
        exact List.cons_lt_cons_iff.mpr (Or.inl (by omega))
      · simp at h

theorem combSucc_consec_last (n : Int) : ∀ (k : Nat), combSucc n (consec (n - k) k) = none := by
  intro k
  induction k with
  | zero => simp [consec, combSucc]
  | succ k ih =>
    rw [consec, show n - ((k + 1 : Nat) : Int) + 1 = n - k by push_cast; omega, combSucc, ih]
    simp only [consec_length]
    have : ¬ (n - ((k + 1 : Nat) : Int) + 1 + (k : Int) < n) := by push_cast; omega
    simp only [this, if_false]

/-- the successor chain of the combinations, with its first and last elements -/
theorem combFrom_chain (n : Int) : ∀ (k : Nat) (lo : Int),
    (combFrom n k lo).IsChain (fun x y => combSucc n x = some y) ∧
    (combFrom n k lo ≠ [] → (combFrom n k lo).head? = some (consec lo k) ∧
      (combFrom n k lo).getLast? = some (consec (n - k) k)) := by
  intro k
  induction k with
  | zero => intro lo; simp [combFrom, consec]
  | succ k ih =>
    intro lo
    have hne : ∀ a : Nat, a < (n - k - lo).toNat → combFrom n k (lo + a + 1) ≠ [] := by
      intro a ha
      apply combFrom_ne_nil
      right; omega
    have key := isChain_flatMap_range (fun x y => combSucc n x = some y)
      (fun (a : Nat) => (combFrom n k (lo + a + 1)).map (fun x => (lo + a) :: x)) (n - k - lo).toNat
      (by
        intro a _
        rw [List.isChain_map]
        exact (ih _).1.imp (fun x y h => by simp [combSucc, h]))
      (by intro a ha; simpa using hne a ha)
      (by
        intro a ha x hx y hy
        obtain ⟨_, hlast⟩ := (ih (lo + a + 1)).2 (hne a (by omega))
        obtain ⟨hhead, _⟩ := (ih (lo + (a + 1 : Nat) + 1)).2 (hne (a + 1) ha)
        simp only [List.getLast?_map, hlast, Option.map_some, Option.mem_def, Option.some.injEq] at hx
        simp only [List.head?_map, hhead, Option.map_some, Option.mem_def, Option.some.injEq] at hy
        subst hx hy
        have : lo + (a : Int) + 1 + (k : Int) < n := by omega
        simp only [combSucc, combSucc_consec_last, consec_length, this, if_true, consec]
        rw [show lo + ((a + 1 : Nat) : Int) = lo + (a : Int) + 1 by push_cast; omega])
    refine ⟨key.1, fun hnn => ?_⟩
    have hpos : 0 < (n - k - lo).toNat := by
      rcases Nat.eq_zero_or_pos (n - k - lo).toNat with h | h
      · simp [combFrom, h] at hnn
      · exact h
    obtain ⟨k1, k2⟩ := key.2 hpos
    refine ⟨?_, ?_⟩
    · show ((List.range _).flatMap _).head? = _
      rw [k2]
      obtain ⟨hhead, _⟩ := (ih (lo + ((0 : Nat) : Int) + 1)).2 (hne 0 hpos)
      simp only [List.head?_map, hhead, Option.map_some, consec]
      simp
    · show ((List.range _).flatMap _).getLast? = _
      rw [k1]
      obtain ⟨_, hlast⟩ := (ih (lo + ((n - k - lo).toNat - 1 : Nat) + 1)).2 (hne _ (by omega))
      simp only [List.getLast?_map, hlast, Option.map_some, consec, Option.some.injEq, List.cons.injEq]
      constructor
      · omega
      · congr 1; omega

theorem combList_chain (n k : Int) : (combList n k).IsChain (fun x y => combSucc n x = some y) :=
  (combFrom_chain n k.toNat 0).1

theorem combList_sorted (n k : Int) : (combList n k).Pairwise (· < ·) :=
  List.isChain_iff_pairwise.mp ((combList_chain n k).imp (fun _ _ h => combSucc_lt n _ _ h))

/-- the first combination is `[0, …, k-1]`, the last one is `[n-k, …, n-1]` and has no successor -/
theorem combList_head_last (n k : Int) (h : combList n k ≠ []) :
    (combList n k).head? = some (consec 0 k.toNat) ∧
    (combList n k).getLast? = some (consec (n - k.toNat) k.toNat) ∧
    combSucc n (consec (n - k.toNat) k.toNat) = none :=
  ⟨((combFrom_chain n k.toNat 0).2 h).1, ((combFrom_chain n k.toNat 0).2 h).2, combSucc_consec_last n _⟩

example : combList 4 2 = [[0, 1], [0, 2], [0, 3], [1, 2], [1, 3], [2, 3]] := by decide
example : combList 3 0 = [[]] ∧ combList (-2) 0 = [[]] ∧ combList 2 3 = [] := by decide

/-! ## refinement: `Comb.scan` computes `combSucc` -/

/-- `combSucc` on a prefix that is followed by `t` further positions (already found to be at their maximum) -/
def combSuccT (n : Int) (t : Nat) : List Int → Option (List Int)
  | [] => none
  | a :: x =>
    match combSuccT n t x with
    | some y => some (a :: y)
    | none => if a + 1 + x.length + t < n then some (consec (a + 1) (x.length + 1 + t)) else none

theorem combSuccT_zero (n : Int) : ∀ x : List Int, combSuccT n 0 x = combSucc n x := by
  intro x
  induction x with
  | nil => rfl
  | cons a x ih => simp [combSuccT, combSucc, ih]

theorem combSuccT_snoc (n : Int) (t : Nat) : ∀ (pre : List Int) (a : Int),
    combSuccT n t (pre ++ [a]) =
      if a + 1 + t < n then some (pre ++ consec (a + 1) (t + 1)) else combSuccT n (t + 1) pre := by
  intro pre
  induction pre with
  | nil =>
    intro a
    simp [combSuccT, Nat.add_comm]
  | cons b p ih =>
    intro a
    simp only [List.cons_append, combSuccT, ih a]
    by_cases hc : a + 1 + t < n
    · simp [hc]
    · simp only [hc, if_false, List.length_append, List.length_cons, List.length_nil]
      cases combSuccT n (t + 1) p with
      | some y => rfl
      | none =>
        simp only [Nat.zero_add, Int.natCast_add, Int.natCast_one]
        rw [show b + 1 + ((p.length : Int) + 1) + (t : Int) = b + 1 + (p.length : Int) + ((t : Int) + 1) by omega,
          show p.length + 1 + 1 + t = p.length + 1 + (t + 1) by omega]

theorem comb_fill : ∀ (suf pre : List Int) (v : Int),
    Comb.fill suf.length ((pre.length : Int) + 1) (pre ++ v :: suf) = .ok (pre ++ v :: consec (v + 1) suf.length) := by
  intro suf
  induction suf with
  | nil => intro pre v; simp [Comb.fill, consec]
  | cons b r ih =>
    intro pre v
    simp only [List.length_cons, Comb.fill]
    have g1 : get (pre ++ v :: b :: r) ((pre.length : Int) + 1 - 1) = .ok v := by
      rw [show (pre.length : Int) + 1 - 1 = pre.length by omega]; simp
    have s1 : set (pre ++ v :: b :: r) ((pre.length : Int) + 1) (v + 1) = .ok (pre ++ v :: (v + 1) :: r) := by
      have := set_append_length (pre ++ [v]) r b (v + 1)
      simpa using this
    simp only [g1, s1, Outcome.bind_ok]
    have := ih (pre ++ [v]) (v + 1)
    simp only [List.length_append, List.length_cons, List.length_nil, Nat.zero_add, Int.natCast_add,
      Int.natCast_one, List.append_assoc, List.cons_append, List.nil_append] at this
    rw [this]
    simp [consec]

theorem comb_scan (n k : Int) : ∀ (j : Nat) (pre suf : List Int), pre.length = j → (j : Int) + suf.length = k →
    Comb.scan n k j (pre ++ suf) = .ok (match combSuccT n suf.length pre with
      | some y => (y, true)
      | none => (pre ++ suf, false)) := by
  intro j
  induction j with
  | zero =>
    intro pre suf hp _
    have : pre = [] := List.length_eq_zero_iff.mp hp
    subst this
    simp [Comb.scan, combSuccT]
  | succ j ih =>
    intro pre suf hp hk
    obtain ⟨pre', a, rfl⟩ : ∃ p a, pre = p ++ [a] :=
      ⟨pre.dropLast, pre.getLast (by intro h; simp [h] at hp), by simp [List.dropLast_append_getLast]⟩
    simp only [List.length_append, List.length_cons, List.length_nil, Nat.zero_add,
      Nat.add_right_cancel_iff] at hp
    have e1 : pre' ++ [a] ++ suf = pre' ++ a :: suf := by simp
    rw [combSuccT_snoc, e1]
    unfold Comb.scan
    have g1 : get (pre' ++ a :: suf) (j : Int) = .ok a := by rw [← hp]; simp
    simp only [g1, Outcome.bind_ok]
    by_cases hn : a < n + (j : Int) - k
    · have hn' : a + 1 + (suf.length : Int) < n := by push_cast at hk; omega
      have s1 : set (pre' ++ a :: suf) (j : Int) (a + 1) = .ok (pre' ++ (a + 1) :: suf) := by
        rw [← hp]; simp
      have hl : (k - ((j : Int) + 1)).toNat = suf.length := by push_cast at hk; omega
      have f1 := comb_fill suf pre' (a + 1)
      rw [hp] at f1
      simp only [hn, hn', if_true, s1, Outcome.bind_ok, hl, f1, Outcome.pure_eq, consec]
    · have hn' : ¬ a + 1 + (suf.length : Int) < n := by push_cast at hk; omega
      simp only [hn, hn', if_false]
      have := ih pre' (a :: suf) hp (by simp only [List.length_cons]; push_cast at hk ⊢; omega)
      rw [this]
      simp

/-- the loop of `Next` computes the lexicographic successor -/
theorem comb_scan_full (n k : Int) (d : List Int) (h : (d.length : Int) = k) :
    Comb.scan n k k.toNat d = .ok (match combSucc n d with
      | some y => (y, true)
      | none => (d, false)) := by
  have := comb_scan n k d.length d [] rfl (by simpa using h)
  simp only [List.append_nil, List.length_nil, combSuccT_zero] at this
  rw [show k.toNat = d.length by omega, this]

/-! ## the iterator -/

/-- the slice built by the constructors: `[0, …, k-2, k-2]` -/
def combInit (k : Int) : List Int := if k = 0 then [] else consec 0 (k.toNat - 1) ++ [k - 2]

theorem combInit_length (k : Int) (hk : 0 ≤ k) : ((combInit k).length : Int) = k := by
  unfold combInit
  split
  · simp; omega
  · simp; omega

theorem combData_eq (k : Int) (hk : 0 ≤ k) : combData k = .ok (combInit k) := by
  unfold combData iota combInit
  have h0 : ¬ k < 0 := by omega
  simp only [h0, if_false, Outcome.bind_ok, range_map_eq_consec]
  by_cases hz : k = 0
  · subst hz; simp [consec]
  · have hpos : k > 0 := by omega
    obtain ⟨m, hm⟩ : ∃ m : Nat, k.toNat = m + 1 := ⟨k.toNat - 1, by omega⟩
    have e : k - 1 = ((consec 0 m).length : Int) := by simp; omega
    simp only [hpos, hz, if_true, if_false, hm, consec_succ', Nat.add_sub_cancel, e, get_append_length,
      set_append_length, Outcome.bind_ok]
    congr 3
    omega

theorem Comb.init_eq (n k : Int) (hk : 0 ≤ k) : Comb.init n k = .ok ⟨n, k, combInit k⟩ := by
  simp [Comb.init, combData_eq k hk]

/-- state invariant: `s` shows the combination `x` (after the first call the model has `k = -1` when `k = 0`) -/
def Comb.Rep (n k : Int) (s : Comb) (x : List Int) : Prop :=
  s.n = n ∧ s.data = x ∧ (x.length : Int) = k ∧ s.k = (if k = 0 then -1 else k)

/-- exhausted states -/
def Comb.Dead (n k : Int) (s : Comb) : Prop :=
  s.n = n ∧ (s.data.length : Int) = k ∧ s.k = (if k = 0 then -1 else k) ∧ combSucc n s.data = none

theorem Comb.next_dead (n k : Int) (s : Comb) (h : Comb.Dead n k s) :
    ∃ s', Comb.next s = .ok (s', false) ∧ Comb.Dead n k s' := by
  obtain ⟨hn, hl, hk, hd⟩ := h
  refine ⟨s, ?_, hn, hl, hk, hd⟩
  obtain ⟨sn, sk, sd⟩ := s
  simp only at hn hl hk hd
  subst hn
  unfold Comb.next
  by_cases hz : k = 0
  · subst hz
    have : sd = [] := List.length_eq_zero_iff.mp (by omega)
    simp only [if_true] at hk
    simp [hk, this, Comb.scan]
  · simp only [hz, if_false] at hk
    subst hk
    have hz' : (sk == 0) = false := by simp [hz]
    simp only [hz', comb_scan_full sn sk sd hl, hd]
    simp

theorem Comb.next_step (n k : Int) (x y : List Int) (hxy : combSucc n x = some y) (s : Comb)
    (h : Comb.Rep n k s x) : ∃ s', Comb.next s = .ok (s', true) ∧ Comb.Rep n k s' y := by
  obtain ⟨hn, hs, hl, hk⟩ := h
  have hz : k ≠ 0 := by
    rintro rfl
    have : x = [] := List.length_eq_zero_iff.mp (by omega)
    subst this
    simp [combSucc] at hxy
  simp only [hz, if_false] at hk
  have hz' : (s.k == 0) = false := by simp [hk, hz]
  refine ⟨{ s with data := y }, ?_, hn, rfl, by rw [combSucc_length n x y hxy]; exact hl, by simp [hz, hk]⟩
  unfold Comb.next
  rw [hn, hs, hk, comb_scan_full n k x hl, hxy]
  simp [← hk, hz']

theorem combSuccT_consec_none (n : Int) (t : Nat) : ∀ (m : Nat) (lo : Int), n ≤ lo + m + t →
    combSuccT n t (consec lo m) = none := by
  intro m
  induction m with
  | zero => intro lo _; rfl
  | succ m ih =>
    intro lo h
    have : ¬ (lo + 1 + (m : Int) + (t : Int) < n) := by push_cast at h; omega
    simp only [consec, combSuccT, ih (lo + 1) (by push_cast at h; omega), consec_length, this, if_false]

theorem combSucc_combInit (n k : Int) (hk : 0 < k) :
    combSucc n (combInit k) = if k ≤ n then some (consec 0 k.toNat) else none := by
  have hz : k ≠ 0 := by omega
  obtain ⟨m, hm⟩ : ∃ m : Nat, k.toNat = m + 1 := ⟨k.toNat - 1, by omega⟩
  rw [← combSuccT_zero]
  simp only [combInit, hz, if_false, combSuccT_snoc, hm, Nat.add_sub_cancel]
  by_cases hc : k ≤ n
  · have : k - 2 + 1 + ((0 : Nat) : Int) < n := by simp; omega
    rw [consec_succ' m]
    simp only [this, hc, if_true, consec, Option.some.injEq]
    congr 2
    omega
  · have : ¬ (k - 2 + 1 + ((0 : Nat) : Int) < n) := by simp; omega
    simp only [this, hc, if_false]
    apply combSuccT_consec_none
    simp; omega

theorem combList_eq_nil_iff (n k : Int) : combList n k = [] ↔ (0 < k ∧ n < k) := by
  unfold combList
  constructor
  · intro h
    by_contra hc
    exact combFrom_ne_nil n k.toNat 0 (by omega) h
  · rintro ⟨h0, h⟩
    obtain ⟨m, hm⟩ : ∃ m : Nat, k.toNat = m + 1 := ⟨k.toNat - 1, by omega⟩
    rw [hm]
    apply combFrom_eq_nil
    omega

theorem Comb.enumerates_lemma (n k : Int) (hk : 0 ≤ k) :
    ∃ s0, Comb.init n k = .ok s0 ∧ ∀ bound, (combList n k).length < bound →
      ∃ s', outputs Comb.it bound s0 = (combList n k, s', .exhausted) ∧
        ∀ k', extras Comb.it k' s' = .ok (List.replicate k' none) := by
  refine ⟨_, Comb.init_eq n k hk, fun bound hb => ?_⟩
  obtain ⟨hchain, hends⟩ := combFrom_chain n k.toNat 0
  have hdead0 : 0 < k ∧ n < k → Comb.Dead n k ⟨n, k, combInit k⟩ := by
    rintro ⟨h0, h⟩
    have hz : k ≠ 0 := by omega
    refine ⟨rfl, combInit_length k hk, by simp [hz], ?_⟩
    rw [combSucc_combInit n k h0]
    have : ¬ k ≤ n := by omega
    simp [this]
  obtain ⟨s', h1, _, h3⟩ := enumerates_aux Comb.it (Comb.Rep n k) (Comb.Dead n k)
    (fun x y => combSucc n x = some y) (⟨n, k, combInit k⟩ : Comb) (combList n k) hchain
    (by
      rintro s x ⟨hn, hs, hl, hk'⟩
      exact ⟨s, by simp [Comb.it, hs], hn, hs, hl, hk'⟩)
    (by
      intro hnil
      exact Comb.next_dead n k _ (hdead0 ((combList_eq_nil_iff n k).mp hnil)))
    (by
      intro x hx
      have hne : combList n k ≠ [] := by intro h; simp [h] at hx
      have hkn : k = 0 ∨ k ≤ n := by
        by_contra hc
        exact hne ((combList_eq_nil_iff n k).mpr (by omega))
      obtain ⟨hhead, _⟩ := hends hne
      unfold combList at hx
      rw [hhead] at hx
      simp only [Option.mem_def, Option.some.injEq] at hx
      subst hx
      by_cases hz : k = 0
      · subst hz
        exact ⟨⟨n, -1, []⟩, by simp [Comb.it, Comb.next, combInit], rfl, by simp [consec], by simp, by simp⟩
      · refine ⟨⟨n, k, consec 0 k.toNat⟩, ?_, rfl, rfl, by simp; omega, by simp [hz]⟩
        have hz' : (k == 0) = false := by simp [hz]
        have hkn : k ≤ n := by omega
        simp only [Comb.it, Comb.next, hz', comb_scan_full n k (combInit k) (combInit_length k hk),
          combSucc_combInit n k (by omega), hkn, if_true]
        simp)
    (fun x y hxy s hs => Comb.next_step n k x y hxy s hs)
    (by
      intro x hx s hs
      have hne : combList n k ≠ [] := by intro h; simp [h] at hx
      obtain ⟨_, hlast⟩ := hends hne
      unfold combList at hx
      rw [hlast] at hx
      simp only [Option.mem_def, Option.some.injEq] at hx
      subst hx
      obtain ⟨hn, hst, hlen, hk'⟩ := hs
      apply Comb.next_dead
      exact ⟨hn, by rw [hst]; exact hlen, hk', by rw [hst]; exact combSucc_consec_last n _⟩)
    (fun s hs => Comb.next_dead n k s hs) bound hb
  exact ⟨s', h1, h3⟩

/-! # CombinationsColex -/

/-! ## the successor function -/

theorem colexSuccAux_length (n : Int) : ∀ (x y : List Int) (i : Int), colexSuccAux n i x = some y → y.length = x.length := by
  intro x
  induction x with
  | nil => intro y i h; simp [colexSuccAux] at h
  | cons a x ih =>
    intro y i h
    cases x with
    | nil =>
      simp only [colexSuccAux] at h
      split at h
      · simp only [Option.some.injEq] at h; subst h; rfl
      · simp at h
    | cons b r =>
      simp only [colexSuccAux] at h
      split at h
      · simp only [Option.some.injEq] at h; subst h; rfl
      · simp only [Option.map_eq_some_iff] at h
        obtain ⟨z, hz, rfl⟩ := h
        simp [ih z (i + 1) hz]

theorem colexSuccAux_mono (n m : Int) (hnm : n ≤ m) : ∀ (x y : List Int) (i : Int),
    colexSuccAux n i x = some y → colexSuccAux m i x = some y := by
  intro x
  induction x with
  | nil => intro y i h; simp [colexSuccAux] at h
  | cons a x ih =>
    intro y i h
    cases x with
    | nil =>
      simp only [colexSuccAux] at h ⊢
      split at h
      · rw [if_pos (by omega)]; exact h
      · simp at h
    | cons b r =>
      simp only [colexSuccAux] at h ⊢
      by_cases hab : a + 1 < b
      · simp only [hab, if_true] at h ⊢; exact h
      · simp only [hab, if_false, Option.map_eq_some_iff] at h ⊢
        obtain ⟨z, hz, rfl⟩ := h
        exact ⟨z, ih z (i + 1) hz, rfl⟩

theorem colexSuccAux_snoc (n m : Int) : ∀ (x y : List Int) (i : Int),
    colexSuccAux n i x = some y → colexSuccAux m i (x ++ [n]) = some (y ++ [n]) := by
  intro x
  induction x with
  | nil => intro y i h; simp [colexSuccAux] at h
  | cons a x ih =>
    intro y i h
    cases x with
    | nil =>
      simp only [colexSuccAux] at h
      split at h
      · next hlt =>
        simp only [Option.some.injEq] at h; subst h
        simp [colexSuccAux, hlt]
      · simp at h
    | cons b r =>
      simp only [colexSuccAux, List.cons_append] at h ⊢
      by_cases hab : a + 1 < b
      · simp only [hab, if_true, Option.some.injEq] at h ⊢
        subst h; rfl
      · simp only [hab, if_false, Option.map_eq_some_iff] at h ⊢
        obtain ⟨z, hz, rfl⟩ := h
        exact ⟨z ++ [n], ih z (i + 1) hz, rfl⟩

/-- on a run of consecutive values only the last position can move -/
theorem colexSuccAux_consec (m : Int) : ∀ (t : Nat) (i a : Int),
    colexSuccAux m i (consec a (t + 1)) = if a + t + 1 < m then some (consec i t ++ [a + t + 1]) else none := by
  intro t
  induction t with
  | zero => intro i a; simp [consec, colexSuccAux]
  | succ t ih =>
    intro i a
    rw [consec, consec]
    have : ¬ (a + 1 < a + 1) := by omega
    simp only [colexSuccAux, this, if_false]
    have := ih (i + 1) (a + 1)
    rw [consec] at this
    rw [this]
    push_cast
    rw [show a + 1 + (t : Int) + 1 = a + ((t : Int) + 1) + 1 by omega]
    split
    · simp [consec]
    · rfl

/-- a run `i, i+1, …` followed by a gap: the last position of the run moves -/
theorem colexSuccAux_jump (n : Int) : ∀ (m : Nat) (i b : Int) (r : List Int), i + m + 1 < b →
    colexSuccAux n i (consec i (m + 1) ++ b :: r) = some (consec i m ++ (i + m + 1) :: b :: r) := by
  intro m
  induction m with
  | zero => intro i b r h; simp at h; simp [consec, colexSuccAux, h]
  | succ m ih =>
    intro i b r h
    rw [consec, consec]
    have : ¬ (i + 1 < i + 1) := by omega
    simp only [List.cons_append, colexSuccAux, this, if_false]
    have := ih (i + 1) b r (by push_cast at h; omega)
    rw [consec] at this
    simp only [List.cons_append] at this
    rw [this]
    simp only [Option.map_some, consec, List.cons_append, Option.some.injEq]
    push_cast
    rw [show i + 1 + (m : Int) + 1 = i + ((m : Int) + 1) + 1 by omega]

theorem colexSuccAux_InComb (n : Int) : ∀ (x y : List Int) (i : Int),
    colexSuccAux n i x = some y → InComb n i x → InComb n i y := by
  intro x
  induction x with
  | nil => intro y i h; simp [colexSuccAux] at h
  | cons a x ih =>
    intro y i h hv
    cases x with
    | nil =>
      simp only [colexSuccAux] at h
      by_cases han : a + 1 < n
      · simp only [han, if_true, Option.some.injEq] at h; subst h
        obtain ⟨h1, h2, _⟩ := hv
        exact ⟨by omega, han, trivial⟩
      · simp [han] at h
    | cons b r =>
      simp only [colexSuccAux] at h
      obtain ⟨h1, h2, h3, h4, h5⟩ := hv
      split at h
      · simp only [Option.some.injEq] at h; subst h
        exact ⟨by omega, by omega, by omega, h4, h5⟩
      · simp only [Option.map_eq_some_iff] at h
        obtain ⟨z, hz, rfl⟩ := h
        exact ⟨by omega, by omega, ih z (i + 1) hz ⟨by omega, h4, h5⟩⟩

/-! ## the family -/

theorem colexFrom_chain : ∀ (n k : Nat),
    (colexFrom n k).IsChain (fun x y => colexSucc n x = some y) ∧
    (k ≤ n → (colexFrom n k).head? = some (consec 0 k) ∧
      (colexFrom n k).getLast? = some (consec ((n : Int) - k) k)) ∧
    (n < k → colexFrom n k = []) := by
  intro n
  induction n with
  | zero =>
    intro k
    cases k with
    | zero => simp [colexFrom, consec]
    | succ k => simp [colexFrom]
  | succ n ih =>
    intro k
    cases k with
    | zero => simp [colexFrom, consec]
    | succ k =>
      obtain ⟨cA, eA, nA⟩ := ih (k + 1)
      obtain ⟨cB, eB, nB⟩ := ih k
      rw [colexFrom]
      refine ⟨?_, ?_, ?_⟩
      · apply List.IsChain.append
        · exact cA.imp (fun x y h => colexSuccAux_mono n (n + 1 : Nat) (by push_cast; omega) x y 0 h)
        · rw [List.isChain_map]
          exact cB.imp (fun x y h => colexSuccAux_snoc n (n + 1 : Nat) x y 0 h)
        · intro x hx y hy
          by_cases hk : k + 1 ≤ n
          · obtain ⟨_, hl⟩ := eA hk
            obtain ⟨hh, _⟩ := eB (by omega)
            rw [hl] at hx
            simp only [List.head?_map, hh, Option.map_some, Option.mem_def, Option.some.injEq] at hx hy
            subst hx hy
            show colexSuccAux _ 0 _ = _
            rw [colexSuccAux_consec]
            push_cast
            rw [if_pos (by omega)]
            congr 3
            omega
          · rw [nA (by omega)] at hx
            simp at hx
      · intro hk
        obtain ⟨hh, hl⟩ := eB (by omega)
        have hBne : (colexFrom n k).map (· ++ [(n : Int)]) ≠ [] := by
          intro h
          rw [List.map_eq_nil_iff] at h
          simp [h] at hh
        constructor
        · by_cases hk' : k + 1 ≤ n
          · obtain ⟨hhA, _⟩ := eA hk'
            have : colexFrom n (k + 1) ≠ [] := by intro h; simp [h] at hhA
            rw [List.head?_append_of_ne_nil _ this, hhA]
          · rw [nA (by omega)]
            have : k = n := by omega
            subst this
            simp only [List.nil_append, List.head?_map, hh, Option.map_some, consec_succ']
            simp
        · rw [List.getLast?_append_of_ne_nil _ hBne]
          simp only [List.getLast?_map, hl, Option.map_some, consec_succ' k, Option.some.injEq]
          push_cast
          rw [show (n : Int) + 1 - ((k : Int) + 1) = n - k by omega, show (n : Int) - k + k = n by omega]
      · intro hk
        rw [nA (by omega), nB (by omega)]
        rfl

theorem colexSucc_consec_last (n : Int) (k : Nat) : colexSucc n (consec (n - k) k) = none := by
  unfold colexSucc
  cases k with
  | zero => simp [consec, colexSuccAux]
  | succ t =>
    rw [colexSuccAux_consec]
    have : ¬ (n - ((t + 1 : Nat) : Int) + t + 1 < n) := by push_cast; omega
    simp only [this, if_false]

theorem mem_colexFrom : ∀ (n k : Nat) (x : List Int),
    x ∈ colexFrom n k ↔ x.length = k ∧ x.Pairwise (· < ·) ∧ ∀ a ∈ x, 0 ≤ a ∧ a < (n : Int) := by
  intro n
  induction n with
  | zero =>
    intro k x
    cases k with
    | zero =>
      simp only [colexFrom, List.mem_singleton, List.length_eq_zero_iff]
      constructor
      · rintro rfl; simp
      · intro h; exact h.1
    | succ k =>
      simp only [colexFrom, List.not_mem_nil, false_iff, not_and]
      intro hl _ h
      cases x with
      | nil => simp at hl
      | cons a x => have := h a (by simp); omega
  | succ n ih =>
    intro k x
    cases k with
    | zero =>
      simp only [colexFrom, List.mem_singleton, List.length_eq_zero_iff]
      constructor
      · rintro rfl; simp
      · intro h; exact h.1
    | succ k =>
      simp only [colexFrom, List.mem_append, List.mem_map, ih]
      constructor
      · rintro (⟨h1, h2, h3⟩ | ⟨y, ⟨h1, h2, h3⟩, rfl⟩)
        · exact ⟨h1, h2, fun a ha => ⟨(h3 a ha).1, by have := (h3 a ha).2; push_cast; omega⟩⟩
        · refine ⟨by simp [h1], ?_, ?_⟩
          · rw [List.pairwise_append]
            refine ⟨h2, by simp, ?_⟩
            intro a ha b hb
            simp only [List.mem_singleton] at hb
            subst hb
            exact (h3 a ha).2
          · intro a ha
            simp only [List.mem_append, List.mem_singleton] at ha
            rcases ha with ha | rfl
            · exact ⟨(h3 a ha).1, by have := (h3 a ha).2; push_cast; omega⟩
            · push_cast; omega
      · rintro ⟨h1, h2, h3⟩
        obtain ⟨y, l, rfl⟩ : ∃ y l, x = y ++ [l] :=
          ⟨x.dropLast, x.getLast (by intro h; simp [h] at h1), by simp [List.dropLast_append_getLast]⟩
        rw [List.pairwise_append] at h2
        obtain ⟨p1, _, p2⟩ := h2
        have hl := h3 l (by simp)
        by_cases hln : l = n
        · right
          refine ⟨y, ⟨by simpa using h1, p1, ?_⟩, by rw [hln]⟩
          intro a ha
          have := p2 a ha l (by simp)
          exact ⟨(h3 a (by simp [ha])).1, by omega⟩
        · left
          refine ⟨h1, by rw [List.pairwise_append]; exact ⟨p1, by simp, p2⟩, ?_⟩
          intro a ha
          simp only [List.mem_append, List.mem_singleton] at ha
          rcases ha with ha | rfl
          · have := p2 a ha l (by simp)
            exact ⟨(h3 a (by simp [ha])).1, by push_cast at hl; omega⟩
          · push_cast at hl; omega

theorem mem_colexList (n k : Int) (hk : 0 ≤ k) (x : List Int) :
    x ∈ colexList n k ↔ (x.length : Int) = k ∧ x.Pairwise (· < ·) ∧ ∀ a ∈ x, 0 ≤ a ∧ a < n := by
  unfold colexList
  rw [mem_colexFrom]
  constructor
  · rintro ⟨h1, h2, h3⟩
    exact ⟨by omega, h2, fun a ha => by obtain ⟨q1, q2⟩ := h3 a ha; exact ⟨q1, by omega⟩⟩
  · rintro ⟨h1, h2, h3⟩
    exact ⟨by omega, h2, fun a ha => by obtain ⟨q1, q2⟩ := h3 a ha; exact ⟨q1, by omega⟩⟩

theorem colexList_chain (n k : Int) : (colexList n k).IsChain (fun x y => colexSucc n x = some y) := by
  have h := (colexFrom_chain n.toNat k.toNat).1
  unfold colexList
  by_cases hn : 0 ≤ n
  · rw [Int.toNat_of_nonneg hn] at h; exact h
  · have : n.toNat = 0 := by omega
    rw [this]
    cases k.toNat with
    | zero => simp [colexFrom]
    | succ k => simp [colexFrom]

/-! ## colexicographic order -/

theorem lt_append_of_lt_of_length_eq : ∀ (u v p q : List Int), u < v → u.length = v.length → u ++ p < v ++ q := by
  intro u
  induction u with
  | nil =>
    intro v p q h hl
    have : v = [] := List.length_eq_zero_iff.mp hl.symm
    subst this
    exact absurd h (List.lt_irrefl _)
  | cons a u ih =>
    intro v p q h hl
    cases v with
    | nil => simp at hl
    | cons b v =>
      simp only [List.cons_append]
      rw [List.cons_lt_cons_iff] at h ⊢
      rcases h with h | ⟨rfl, h⟩
      · exact Or.inl h
      · exact Or.inr ⟨rfl, ih v p q h (by simpa using hl)⟩

theorem append_lt_append_left' : ∀ (w p q : List Int), p < q → w ++ p < w ++ q := by
  intro w
  induction w with
  | nil => intro p q h; exact h
  | cons a w ih =>
    intro p q h
    simp only [List.cons_append]
    exact List.cons_lt_cons_iff.mpr (Or.inr ⟨rfl, ih p q h⟩)

theorem colexSuccAux_lt (n : Int) : ∀ (x y : List Int) (i : Int), colexSuccAux n i x = some y → ColexLt x y := by
  intro x
  induction x with
  | nil => intro y i h; simp [colexSuccAux] at h
  | cons a x ih =>
    intro y i h
    unfold ColexLt
    cases x with
    | nil =>
      simp only [colexSuccAux] at h
      by_cases han : a + 1 < n
      · simp only [han, if_true, Option.some.injEq] at h; subst h
        simp only [List.reverse_cons, List.reverse_nil, List.nil_append]
        exact List.cons_lt_cons_iff.mpr (Or.inl (by omega))
      · simp [han] at h
    | cons b r =>
      simp only [colexSuccAux] at h
      by_cases hab : a + 1 < b
      · simp only [hab, if_true, Option.some.injEq] at h; subst h
        rw [List.reverse_cons, List.reverse_cons (a := a + 1)]
        apply append_lt_append_left'
        exact List.cons_lt_cons_iff.mpr (Or.inl (by omega))
      · simp only [hab, if_false, Option.map_eq_some_iff] at h
        obtain ⟨z, hz, rfl⟩ := h
        rw [List.reverse_cons, List.reverse_cons (a := i)]
        apply lt_append_of_lt_of_length_eq
        · exact ih z (i + 1) hz
        · simp [colexSuccAux_length n _ _ _ hz]

/-- `colexList` is strictly increasing in colexicographic order (hence duplicate-free) -/
theorem colexList_sorted (n k : Int) : (colexList n k).Pairwise ColexLt := by
  have h1 : ((colexList n k).map List.reverse).IsChain (· < ·) := by
    rw [List.isChain_map]
    exact (colexList_chain n k).imp (fun x y h => colexSuccAux_lt n x y 0 h)
  have h2 := List.isChain_iff_pairwise.mp h1
  rw [List.pairwise_map] at h2
  exact h2

/-! ## refinement: `Colex.scan` -/

/-- the loop of `Colex.next` as a pure function on the part of the slice from position `i` on -/
def colexScan : Int → List Int → List Int × Option Int
  | _, [] => ([], none)
  | _, [a] => ([a], none)
  | i, a :: b :: x =>
    if a + 1 < b then ((a + 1) :: b :: x, some i)
    else (i :: (colexScan (i + 1) (b :: x)).1, (colexScan (i + 1) (b :: x)).2)

theorem colex_scan : ∀ (c : Nat) (pre suf : List Int), suf.length = c + 1 →
    Colex.scan c (pre.length : Int) (pre ++ suf) =
      .ok (pre ++ (colexScan pre.length suf).1, (colexScan pre.length suf).2) := by
  intro c
  induction c with
  | zero =>
    intro pre suf hl
    obtain ⟨a, rfl⟩ := List.length_eq_one_iff.mp hl
    simp [Colex.scan, colexScan]
  | succ c ih =>
    intro pre suf hl
    obtain ⟨a, suf', rfl⟩ : ∃ a t, suf = a :: t := by
      cases suf with
      | nil => simp at hl
      | cons a t => exact ⟨a, t, rfl⟩
    obtain ⟨b, r, rfl⟩ : ∃ a t, suf' = a :: t := by
      cases suf' with
      | nil => simp at hl
      | cons a t => exact ⟨a, t, rfl⟩
    unfold Colex.scan
    have g2 : get (pre ++ a :: b :: r) ((pre.length : Int) + 1) = .ok b := by
      have := get_append_length (pre ++ [a]) r b
      simpa using this
    simp only [get_append_length, g2, Outcome.bind_ok, set_append_length, colexScan]
    by_cases hab : a < b - 1
    · have hab' : a + 1 < b := by omega
      simp [hab, hab']
    · have hab' : ¬ a + 1 < b := by omega
      simp only [hab, hab', if_false]
      have := ih (pre ++ [(pre.length : Int)]) (b :: r) (by simpa using hl)
      simp only [List.length_append, List.length_cons, List.length_nil, Nat.zero_add, Int.natCast_add,
        Int.natCast_one, List.append_assoc, List.cons_append, List.nil_append] at this
      rw [this]

theorem InComb_last (n : Int) : ∀ (x : List Int) (i l : Int), InComb n i x → x.getLast? = some l →
    l < n ∧ i + x.length - 1 ≤ l := by
  intro x
  induction x with
  | nil => intro i l _ h; simp at h
  | cons a x ih =>
    intro i l hv h
    obtain ⟨h1, h2, h3⟩ := hv
    cases x with
    | nil =>
      simp only [List.getLast?_singleton, Option.some.injEq] at h
      subst h
      simp; omega
    | cons b r =>
      rw [List.getLast?_cons_cons] at h
      have := ih (a + 1) l h3 h
      simp only [List.length_cons, Int.natCast_add, Int.natCast_one] at this ⊢
      omega

theorem colexScan_some (n : Int) : ∀ (x y : List Int) (i p : Int), colexScan i x = (y, some p) → InComb n i x →
    colexSuccAux n i x = some y ∧ i ≤ p ∧
      ∃ rest, y = consec i (p - i).toNat ++ rest ∧ ∀ b ∈ rest.head?, p < b := by
  intro x
  induction x with
  | nil => intro y i p h; simp [colexScan] at h
  | cons a x ih =>
    intro y i p h hv
    cases x with
    | nil => simp [colexScan] at h
    | cons b r =>
      simp only [colexScan] at h
      obtain ⟨h1, h2, h3, h4, h5⟩ := hv
      by_cases hab : a + 1 < b
      · simp only [hab, if_true, Prod.mk.injEq, Option.some.injEq] at h
        obtain ⟨rfl, rfl⟩ := h
        refine ⟨by simp [colexSuccAux, hab], by omega, (a + 1) :: b :: r, by simp [consec], ?_⟩
        simp; omega
      · simp only [hab, if_false, Prod.mk.injEq] at h
        obtain ⟨rfl, hp⟩ := h
        obtain ⟨q1, q2, rest, q3, q4⟩ := ih (colexScan (i + 1) (b :: r)).1 (i + 1) p (by rw [← hp]) ⟨by omega, h4, h5⟩
        refine ⟨by simp [colexSuccAux, hab, q1], by omega, rest, ?_, q4⟩
        rw [q3]
        obtain ⟨m, hm⟩ : ∃ m : Nat, (p - i).toNat = m + 1 := ⟨(p - i).toNat - 1, by omega⟩
        rw [hm, consec, show (p - (i + 1)).toNat = m by omega]
        rfl

theorem colexScan_none (n : Int) : ∀ (x y : List Int) (i : Int), colexScan i x = (y, none) → x ≠ [] →
    ∃ l, x.getLast? = some l ∧ y = consec i (x.length - 1) ++ [l] ∧
      colexSuccAux n i x = if l + 1 < n then some (consec i (x.length - 1) ++ [l + 1]) else none := by
  intro x
  induction x with
  | nil => intro y i _ h; exact absurd rfl h
  | cons a x ih =>
    intro y i h _
    cases x with
    | nil =>
      simp only [colexScan, Prod.mk.injEq, and_true] at h
      subst h
      exact ⟨a, by simp [consec, colexSuccAux]⟩
    | cons b r =>
      simp only [colexScan] at h
      by_cases hab : a + 1 < b
      · simp [hab] at h
      · simp only [hab, if_false, Prod.mk.injEq] at h
        obtain ⟨rfl, hp⟩ := h
        obtain ⟨l, q1, q2, q3⟩ := ih (colexScan (i + 1) (b :: r)).1 (i + 1) (by rw [← hp]) (by simp)
        refine ⟨l, by rw [List.getLast?_cons_cons]; exact q1, ?_, ?_⟩
        · rw [q2]; simp [consec]
        · simp only [colexSuccAux, hab, if_false, q3]
          split <;> simp [consec]

/-! ## refinement: the branches of `Colex.next` -/

/-- branch `j ≥ k-1`: only the last element is looked at -/
theorem Colex.next_A (n k j : Int) (pre : List Int) (a : Int) (hk : 0 < k) (hkn : k ≤ n) (hj : k - 1 ≤ j)
    (hl : (pre.length : Int) = k - 1) :
    Colex.next ⟨n, k, j, pre ++ [a]⟩ =
      if a = n - 1 then .ok (⟨n, k, j, pre ++ [a]⟩, false) else .ok (⟨n, k, j - 1, pre ++ [a + 1]⟩, true) := by
  unfold Colex.next
  have c1 : ¬ k ≤ 0 := by omega
  have c2 : ¬ k > n := by omega
  have c3 : j ≥ k - 1 := hj
  have g1 : get (pre ++ [a]) (k - 1) = .ok a := by rw [← hl]; simp
  have s1 : set (pre ++ [a]) (k - 1) (a + 1) = .ok (pre ++ [a + 1]) := by rw [← hl]; simp
  simp only [c1, c2, c3, if_true, if_false, g1, s1, Outcome.bind_ok]
  by_cases ha : a = n - 1
  · simp [ha]
  · simp [ha]

/-- branch `0 ≤ j < k-1`: position `j` is incremented -/
theorem Colex.next_B (n k j : Int) (pre suf : List Int) (a : Int) (hk : 0 < k) (hkn : k ≤ n) (hj0 : 0 ≤ j)
    (hj : j < k - 1) (hl : (pre.length : Int) = j) :
    Colex.next ⟨n, k, j, pre ++ a :: suf⟩ = .ok (⟨n, k, j - 1, pre ++ (a + 1) :: suf⟩, true) := by
  unfold Colex.next
  have c1 : ¬ k ≤ 0 := by omega
  have c2 : ¬ k > n := by omega
  have c3 : ¬ j ≥ k - 1 := by omega
  have c4 : j ≠ -1 := by omega
  have g1 : get (pre ++ a :: suf) j = .ok a := by rw [← hl]; simp
  have s1 : set (pre ++ a :: suf) j (a + 1) = .ok (pre ++ (a + 1) :: suf) := by rw [← hl]; simp
  simp only [c1, c2, c3, if_false]
  simp only [c4, ne_eq, not_false_eq_true, if_true, g1, s1, Outcome.bind_ok, Outcome.pure_eq]

/-- branch `j = -1`, the loop finds a position -/
theorem Colex.next_C1 (n k : Int) (d y : List Int) (p : Int) (hk : 0 < k) (hkn : k ≤ n)
    (hl : (d.length : Int) = k) (hs : colexScan 0 d = (y, some p)) :
    Colex.next ⟨n, k, -1, d⟩ = .ok (⟨n, k, p - 1, y⟩, true) := by
  unfold Colex.next
  have c1 : ¬ k ≤ 0 := by omega
  have c2 : ¬ k > n := by omega
  have c3 : ¬ (-1 : Int) ≥ k - 1 := by omega
  have := colex_scan (k - 1).toNat [] d (by omega)
  simp only [List.length_nil, List.nil_append, Int.natCast_zero] at this
  simp only [c1, c2, c3, if_false]
  simp only [ne_eq, not_true_eq_false, if_false, this, hs, Outcome.bind_ok, Outcome.pure_eq]

/-- branch `j = -1`, the loop finds nothing: the last element is looked at -/
theorem Colex.next_C2 (n k : Int) (d pre : List Int) (l : Int) (hk : 0 < k) (hkn : k ≤ n)
    (hl : (d.length : Int) = k) (hp : (pre.length : Int) = k - 1) (hs : colexScan 0 d = (pre ++ [l], none)) :
    Colex.next ⟨n, k, -1, d⟩ =
      if l = n - 1 then .ok (⟨n, k, k, pre ++ [l]⟩, false) else .ok (⟨n, k, k - 2, pre ++ [l + 1]⟩, true) := by
  unfold Colex.next
  have c1 : ¬ k ≤ 0 := by omega
  have c2 : ¬ k > n := by omega
  have c3 : ¬ (-1 : Int) ≥ k - 1 := by omega
  have := colex_scan (k - 1).toNat [] d (by omega)
  simp only [List.length_nil, List.nil_append, Int.natCast_zero] at this
  have g1 : get (pre ++ [l]) (k - 1) = .ok l := by rw [← hp]; simp
  have s1 : set (pre ++ [l]) (k - 1) (l + 1) = .ok (pre ++ [l + 1]) := by rw [← hp]; simp
  simp only [c1, c2, c3, if_false]
  simp only [ne_eq, not_true_eq_false, if_false, this, hs, Outcome.bind_ok, g1, s1]
  by_cases ha : l = n - 1
  · simp [ha]
  · simp [ha]

/-! ## the iterator -/

/-- state invariant: `s` shows the combination `x`; `j` is the position that moves next: the positions `≤ j` hold
their own index and position `j+1` (if any) does not (`j = -1`: nothing is known, the loop runs) -/
def Colex.Rep (n k : Int) (s : Colex) (x : List Int) : Prop :=
  s.n = n ∧ s.data = x ∧ (x.length : Int) = k ∧
    ((k = 0 ∧ s.k = -1) ∨
     (0 < k ∧ k ≤ n ∧ s.k = k ∧ InComb n 0 x ∧ -1 ≤ s.j ∧
        ∃ rest, x = consec 0 (s.j + 1).toNat ++ rest ∧ ∀ b ∈ rest.head?, s.j + 1 < b))

/-- exhausted states -/
def Colex.Dead (n k : Int) (s : Colex) : Prop :=
  s.n = n ∧ ((k = 0 ∧ s.k ≤ -1) ∨ (0 < k ∧ n < k ∧ s.k = k) ∨
    (0 < k ∧ k ≤ n ∧ s.k = k ∧ k - 1 ≤ s.j ∧ ∃ pre, s.data = pre ++ [n - 1] ∧ (pre.length : Int) = k - 1))

theorem Colex.next_dead (n k : Int) (s : Colex) (h : Colex.Dead n k s) :
    ∃ s', Colex.next s = .ok (s', false) ∧ Colex.Dead n k s' := by
  obtain ⟨sn, sk, sj, sd⟩ := s
  obtain ⟨hn, hc⟩ := h
  simp only at hn hc
  subst hn
  rcases hc with ⟨rfl, hk⟩ | ⟨hk0, hkn, rfl⟩ | ⟨hk0, hkn, rfl, hj, pre, rfl, hp⟩
  · have c : sk ≤ 0 := by omega
    have e : (sk - 1 == -1) = false := by simp; omega
    refine ⟨⟨sn, sk - 1, sj, sd⟩, ?_, rfl, Or.inl ⟨rfl, by simp only; omega⟩⟩
    simp only [Colex.next, c, if_true, e]
  · have c1 : ¬ sk ≤ 0 := by omega
    have c2 : sk > sn := by omega
    refine ⟨⟨sn, sk, sj, sd⟩, ?_, rfl, Or.inr (Or.inl ⟨hk0, hkn, rfl⟩)⟩
    simp only [Colex.next, c1, c2, if_true, if_false]
  · refine ⟨⟨sn, sk, sj, pre ++ [sn - 1]⟩, ?_, rfl, Or.inr (Or.inr ⟨hk0, hkn, rfl, hj, pre, rfl, hp⟩)⟩
    rw [Colex.next_A sn sk sj pre (sn - 1) hk0 hkn hj hp]
    simp

/-- one `Next` from a state showing `x`: it moves to `colexSucc n x`, or reports exhaustion when there is none -/
theorem Colex.next_spec (n k : Int) (s : Colex) (x : List Int) (h : Colex.Rep n k s x) :
    ∃ s' b, Colex.next s = .ok (s', b) ∧
      match colexSucc n x with
      | some y => b = true ∧ Colex.Rep n k s' y
      | none => b = false ∧ Colex.Dead n k s' := by
  obtain ⟨sn, sk, sj, sd⟩ := s
  obtain ⟨hn, hd, hl, hc⟩ := h
  simp only at hn hd hc
  subst hn hd
  rcases hc with ⟨rfl, hk⟩ | ⟨hk0, hkn, rfl, hv, hj, rest, hx, hh⟩
  · -- k = 0
    subst hk
    have : sd = [] := List.length_eq_zero_iff.mp (by omega)
    subst this
    refine ⟨⟨sn, -2, sj, []⟩, false, by simp [Colex.next], ?_⟩
    have hs : colexSucc sn [] = none := rfl
    rw [hs]
    exact ⟨rfl, rfl, Or.inl ⟨rfl, by simp⟩⟩
  · have hlen : ((sj + 1).toNat : Int) + rest.length = sk := by
      rw [hx] at hl; simpa using hl
    by_cases hA : sk - 1 ≤ sj
    · -- the last position moves (`x = [0, …, k-1]`)
      have : rest = [] := List.length_eq_zero_iff.mp (by omega)
      subst this
      obtain ⟨m, hm⟩ : ∃ m : Nat, (sj + 1).toNat = m + 1 := ⟨(sj + 1).toNat - 1, by omega⟩
      rw [hm, List.append_nil] at hx
      have hsucc : colexSucc sn sd = if (0 : Int) + m + 1 < sn then some (consec 0 m ++ [(0 : Int) + m + 1]) else none := by
        rw [hx]; exact colexSuccAux_consec sn m 0 0
      have hnext := Colex.next_A sn sk sj (consec 0 m) (0 + m) hk0 hkn hA (by simp; omega)
      rw [← consec_succ', ← hx] at hnext
      by_cases hmn : (0 : Int) + m = sn - 1
      · have : ¬ ((0 : Int) + m + 1 < sn) := by omega
        rw [if_pos hmn] at hnext
        rw [if_neg this] at hsucc
        refine ⟨_, _, hnext, ?_⟩
        rw [hsucc]
        refine ⟨rfl, rfl, Or.inr (Or.inr ⟨hk0, hkn, rfl, hA, consec 0 m, ?_, by simp; omega⟩)⟩
        simp only [hx, consec_succ', hmn]
      · have : (0 : Int) + m + 1 < sn := by omega
        rw [if_neg hmn] at hnext
        rw [if_pos this] at hsucc
        refine ⟨_, _, hnext, ?_⟩
        rw [hsucc]
        refine ⟨rfl, rfl, rfl, by simp; omega, Or.inr ⟨hk0, hkn, rfl, ?_, by simp only; omega, [(0 : Int) + m + 1], ?_, ?_⟩⟩
        · exact colexSuccAux_InComb sn sd _ 0 hsucc hv
        · simp only
          rw [show (sj - 1 + 1).toNat = m by omega]
        · simp; omega
    · by_cases hB : 0 ≤ sj
      · -- position `j` moves
        obtain ⟨m, hm⟩ : ∃ m : Nat, (sj + 1).toNat = m + 1 := ⟨(sj + 1).toNat - 1, by omega⟩
        obtain ⟨b, r, rfl⟩ : ∃ b r, rest = b :: r := by
          cases rest with
          | nil => simp at hlen; omega
          | cons b r => exact ⟨b, r, rfl⟩
        have hb : sj + 1 < b := hh b (by simp)
        rw [hm] at hx
        have hsucc : colexSucc sn sd = some (consec 0 m ++ ((0 : Int) + m + 1) :: b :: r) := by
          rw [hx]; exact colexSuccAux_jump sn m 0 b r (by omega)
        have hnext := Colex.next_B sn sk sj (consec 0 m) (b :: r) (0 + m) hk0 hkn hB (by omega) (by simp; omega)
        have e : consec 0 m ++ (0 + (m : Int)) :: b :: r = sd := by
          rw [hx, consec_succ']; simp
        rw [e] at hnext
        refine ⟨_, _, hnext, ?_⟩
        rw [hsucc]
        refine ⟨rfl, rfl, rfl, ?_, Or.inr ⟨hk0, hkn, rfl, ?_, by simp only; omega, ((0 : Int) + m + 1) :: b :: r, ?_, ?_⟩⟩
        · have := colexSuccAux_length sn _ _ 0 hsucc
          rw [this]; exact hl
        · exact colexSuccAux_InComb sn sd _ 0 hsucc hv
        · simp only
          rw [show (sj - 1 + 1).toNat = m by omega]
        · simp; omega
      · -- `j = -1`: the loop
        have hj1 : sj = -1 := by omega
        subst hj1
        simp only [Int.reduceNeg, Int.add_left_neg, Int.toNat_zero, consec, List.nil_append] at hx
        have hne : sd ≠ [] := by
          intro h0; rw [h0] at hl; simp at hl; omega
        cases hs : colexScan 0 sd with
        | mk y r =>
          cases r with
          | none =>
            obtain ⟨l, q1, q2, q3⟩ := colexScan_none sn sd y 0 hs hne
            obtain ⟨q4, q5⟩ := InComb_last sn sd 0 l hv q1
            rw [q2] at hs
            have hnext := Colex.next_C2 sn sk sd (consec 0 (sd.length - 1)) l hk0 hkn hl (by simp; omega) hs
            by_cases hln : l = sn - 1
            · have : ¬ (l + 1 < sn) := by omega
              rw [if_pos hln] at hnext
              refine ⟨_, _, hnext, ?_⟩
              show match colexSuccAux sn 0 sd with
                | some y => _
                | none => _
              rw [q3, if_neg this]
              exact ⟨rfl, rfl, Or.inr (Or.inr ⟨hk0, hkn, rfl, by simp only; omega, _, by rw [hln], by simp; omega⟩)⟩
            · have : l + 1 < sn := by omega
              rw [if_neg hln] at hnext
              have hsucc : colexSucc sn sd = some (consec 0 (sd.length - 1) ++ [l + 1]) := by
                show colexSuccAux sn 0 sd = _
                rw [q3, if_pos this]
              refine ⟨_, _, hnext, ?_⟩
              rw [hsucc]
              refine ⟨rfl, rfl, rfl, by simp; omega, Or.inr ⟨hk0, hkn, rfl, ?_, by simp only; omega, [l + 1], ?_, ?_⟩⟩
              · exact colexSuccAux_InComb sn sd _ 0 hsucc hv
              · simp only
                rw [show (sk - 2 + 1).toNat = sd.length - 1 by omega]
              · simp; omega
          | some p =>
            obtain ⟨q1, q2, rest', q3, q4⟩ := colexScan_some sn sd y 0 p hs hv
            have hnext := Colex.next_C1 sn sk sd y p hk0 hkn hl hs
            refine ⟨_, _, hnext, ?_⟩
            show match colexSuccAux sn 0 sd with
              | some y => _
              | none => _
            rw [q1]
            refine ⟨rfl, rfl, rfl, ?_, Or.inr ⟨hk0, hkn, rfl, ?_, by simp only; omega, rest', ?_, ?_⟩⟩
            · rw [colexSuccAux_length sn _ _ 0 q1]; exact hl
            · exact colexSuccAux_InComb sn sd _ 0 q1 hv
            · simp only
              rw [q3, show (p - 1 + 1).toNat = (p - 0).toNat by omega]
            · intro b hb
              have := q4 b hb
              simp only; omega

theorem Colex.init_eq (n k : Int) (hk : 0 ≤ k) : Colex.init n k = .ok ⟨n, k, k, combInit k⟩ := by
  simp [Colex.init, combData_eq k hk]

theorem colexList_eq_nil_iff (n k : Int) : colexList n k = [] ↔ (0 < k ∧ n < k) := by
  unfold colexList
  obtain ⟨_, h1, h2⟩ := colexFrom_chain n.toNat k.toNat
  constructor
  · intro h
    by_contra hc
    have := (h1 (by omega)).1
    rw [h] at this
    simp at this
  · rintro ⟨h0, h⟩
    exact h2 (by omega)

/-- the first combination in colex order is `[0, …, k-1]` -/
theorem colexList_head (n k : Int) : ∀ x ∈ (colexList n k).head?, x = consec 0 k.toNat := by
  intro x hx
  have hne : colexList n k ≠ [] := by intro h; simp [h] at hx
  have : ¬ (0 < k ∧ n < k) := fun h => hne ((colexList_eq_nil_iff n k).mpr h)
  unfold colexList at hx
  rw [((colexFrom_chain n.toNat k.toNat).2.1 (by omega)).1] at hx
  simpa using hx.symm

example : colexList 4 2 = [[0, 1], [0, 2], [1, 2], [0, 3], [1, 3], [2, 3]] := by decide
example : colexList 3 0 = [[]] ∧ colexList (-2) 0 = [[]] ∧ colexList 2 3 = [] := by decide

/-- the last combination in colex order has no successor -/
theorem colexList_last (n k : Int) : ∀ x ∈ (colexList n k).getLast?, colexSucc n x = none := by
  intro x hx
  have hne : colexList n k ≠ [] := by intro h; simp [h] at hx
  have : ¬ (0 < k ∧ n < k) := fun h => hne ((colexList_eq_nil_iff n k).mpr h)
  unfold colexList at hx
  rw [((colexFrom_chain n.toNat k.toNat).2.1 (by omega)).2] at hx
  simp only [Option.mem_def, Option.some.injEq] at hx
  subst hx
  by_cases hk : k.toNat = 0
  · rw [hk]; rfl
  · rw [show (n.toNat : Int) = n by omega]
    exact colexSucc_consec_last n k.toNat

theorem Colex.enumerates_lemma (n k : Int) (hk : 0 ≤ k) :
    ∃ s0, Colex.init n k = .ok s0 ∧ ∀ bound, (colexList n k).length < bound →
      ∃ s', outputs Colex.it bound s0 = (colexList n k, s', .exhausted) ∧
        ∀ k', extras Colex.it k' s' = .ok (List.replicate k' none) := by
  refine ⟨_, Colex.init_eq n k hk, fun bound hb => ?_⟩
  obtain ⟨s', h1, _, h3⟩ := enumerates_aux Colex.it (Colex.Rep n k) (Colex.Dead n k)
    (fun x y => colexSucc n x = some y) (⟨n, k, k, combInit k⟩ : Colex) (colexList n k) (colexList_chain n k)
    (by
      rintro s x ⟨hn, hs, hr⟩
      exact ⟨s, by simp [Colex.it, hs], hn, hs, hr⟩)
    (by
      intro hnil
      obtain ⟨h0, hlt⟩ := (colexList_eq_nil_iff n k).mp hnil
      exact Colex.next_dead n k _ ⟨rfl, Or.inr (Or.inl ⟨h0, hlt, rfl⟩)⟩)
    (by
      intro x hx
      have hne : colexList n k ≠ [] := by intro h; simp [h] at hx
      have hkn : ¬ (0 < k ∧ n < k) := fun h => hne ((colexList_eq_nil_iff n k).mpr h)
      have hmem : x ∈ colexList n k := List.mem_of_mem_head? hx
      have hx' := colexList_head n k x hx
      by_cases hz : k = 0
      · subst hz
        simp only [Int.toNat_zero, consec] at hx'
        subst hx'
        exact ⟨⟨n, -1, 0, []⟩, by simp [Colex.it, Colex.next, combInit], rfl, rfl, rfl, Or.inl ⟨rfl, rfl⟩⟩
      · have hk0 : 0 < k := by omega
        have hkn' : k ≤ n := by omega
        obtain ⟨m, hm⟩ : ∃ m : Nat, k.toNat = m + 1 := ⟨k.toNat - 1, by omega⟩
        have hnext := Colex.next_A n k k (consec 0 m) (k - 2) hk0 hkn' (by omega) (by simp; omega)
        rw [if_neg (by omega)] at hnext
        have e : consec 0 m ++ [k - 2 + 1] = x := by
          rw [hx', hm, consec_succ', show k - 2 + 1 = 0 + (m : Int) by omega]
        rw [e] at hnext
        have hv : InComb n 0 x := by
          rw [InComb_iff]
          exact ((mem_colexList n k hk x).mp hmem).2
        refine ⟨⟨n, k, k - 1, x⟩, ?_, rfl, rfl, by rw [hx']; simp; omega, Or.inr ⟨hk0, hkn', rfl, hv, by simp only; omega, [], ?_, by simp⟩⟩
        · simp only [Colex.it, combInit, hz, if_false, hm, Nat.add_sub_cancel]
          exact hnext
        · simp only [List.append_nil]
          rw [show (k - 1 + 1).toNat = k.toNat by omega]
          exact hx')
    (by
      intro x y hxy s hs
      obtain ⟨s', b, hnext, hm⟩ := Colex.next_spec n k s x hs
      rw [hxy] at hm
      obtain ⟨rfl, hr⟩ := hm
      exact ⟨s', hnext, hr⟩)
    (by
      intro x hx s hs
      obtain ⟨s', b, hnext, hm⟩ := Colex.next_spec n k s x hs
      rw [colexList_last n k x hx] at hm
      obtain ⟨rfl, hr⟩ := hm
      exact ⟨s', hnext, hr⟩)
    (fun s hs => Colex.next_dead n k s hs) bound hb
  exact ⟨s', h1, h3⟩

end Iter
