import Mamba.Lemmas.CanonFCovLeaf
/-!
# The coverage invariant through the leaf branch `leafNode` (cases without a back-jump)
-/
namespace CanonF

/-- the frames below the top one -/
theorem CovFrames.tail {n : Nat} {nb : Nbrs} {rf : Nat} {r : IR.St} {s : LS} {vs : List Nat} {incl : Bool}
    {p c : Nat} {ps cs : List Nat} {x : Nat × Nat} {ls : List (Nat × Nat)}
    (h : CovFrames n nb rf r s vs incl (p :: ps) (c :: cs) (x :: ls)) : CovFrames n nb rf r s vs false ps cs ls := by
  obtain ⟨st, sz⟩ := x
  simp only [CovFrames] at h
  exact h.2

theorem CovFrames.drop {n : Nat} {nb : Nbrs} {rf : Nat} {r : IR.St} {s : LS} {vs : List Nat} :
    ∀ (j : Nat) (path choices : List Nat) (lv : List (Nat × Nat)), 0 < j →
      CovFrames n nb rf r s vs false path choices lv →
      CovFrames n nb rf r s vs false (path.drop j) (choices.drop j) (lv.drop j) := by
  intro j
  induction j with
  | zero => intro _ _ _ h; exact absurd h (Nat.lt_irrefl 0)
  | succ j ih =>
    intro path choices lv _ h
    cases path with
    | nil => cases choices <;> cases lv <;> simp_all [CovFrames]
    | cons p ps =>
      cases choices with
      | nil => simp [CovFrames] at h
      | cons c cs =>
        cases lv with
        | nil => simp [CovFrames] at h
        | cons x ls =>
          simp only [List.drop_succ_cons]
          cases j with
          | zero => simpa using h.tail
          | succ j => exact ih ps cs ls (Nat.succ_pos _) h.tail

/-- replacing `firstLeafOrbits` by a union–find in which every non-root stays a non-root -/
theorem CovFrames.mono_orbits {n : Nat} {nb : Nbrs} {rf : Nat} {r : IR.St} {s s' : LS} {vs : List Nat}
    (e1 : s'.currentBest = s.currentBest) (e2 : ∀ qs, onFirstB s' qs = onFirstB s qs)
    (e4 : ∀ (w : Nat) (y : Int), s.flOrbits[w]? = some y → y ≥ 0 → ∃ y' : Int, s'.flOrbits[w]? = some y' ∧ y' ≥ 0) :
    ∀ (incl : Bool) (path choices : List Nat) (lv : List (Nat × Nat)),
      CovFrames n nb rf r s vs incl path choices lv → CovFrames n nb rf r s' vs incl path choices lv := by
  intro incl path
  induction path generalizing incl with
  | nil => intro choices lv h; cases choices <;> cases lv <;> simp_all [CovFrames]
  | cons p ps ih =>
    intro choices lv h
    cases choices with
    | nil => simp [CovFrames] at h
    | cons c cs =>
      cases lv with
      | nil => simp [CovFrames] at h
      | cons x ls =>
        obtain ⟨st, sz⟩ := x
        simp only [CovFrames] at h ⊢
        refine ⟨fun i w hi hw => ?_, ih false cs ls h.2⟩
        rcases h.1 i w hi hw with hcomp | ⟨hon, y, hy1, hy2⟩
        · exact Or.inl (by rw [e1]; exact hcomp)
        · exact Or.inr ⟨by rw [e2]; exact hon, e4 w y hy1 hy2⟩

theorem onFirstB_count_succ {s s' : LS} (hpos : 0 < s.count) (e2 : s'.count = s.count + 1) (e3 : s'.flPath = s.flPath)
    (qs : List Nat) : onFirstB s' qs = onFirstB s qs := by
  unfold onFirstB
  rw [e2, e3]
  have h1 : decide (s.count + 1 > 0) = true := by simp
  have h2 : decide (s.count > 0) = true := by simpa using hpos
  rw [h1, h2]

set_option linter.unusedVariables false in
/-- the leaf branch, case "not better, equal to neither the best nor the first leaf" -/
theorem cov_leaf_other {n m : Nat} {nb : Nbrs} {rf : Nat} {r : IR.St} (hnb : NbOK nb n) {s s' : LS}
    {lv : List (Nat × Nat)} {vs : List Nat} (hc : Core n s) (hl : LevelsOK s.op s.path s.choices lv)
    (hw : WalkNodev n nb rf r vs lv s) (hleaf : s.op.binDividers.len = n) (hvc : VClean nb s.op) (hspl : s.op.spl = n)
    (hc1 : (compare s.op.value.toList s.currentBest.toList == 1 || s.count + 1 == 1) = false)
    (hc0 : (compare s.op.value.toList s.currentBest.toList == 0) = false)
    (hcf : (compare s.op.value.toList s.firstLeaf.toList == 0) = false)
    (h : leafNode n m s = .ok s')
    (hcov : CovFrames n nb rf r s vs false s.path s.choices lv) :
    s'.path = s.path ∧ s'.choices = s.choices ∧ s'.op = s.op ∧ CovFrames n nb rf r s' vs true s.path s.choices lv := by
  have hc1' := hc1
  simp only [Bool.or_eq_false_iff, beq_eq_false_iff_ne, ne_eq] at hc1'
  have hpos : 0 < s.count := by omega
  unfold leafNode at h
  dsimp only at h
  rw [if_neg (by rw [hc1]; exact Bool.false_ne_true), if_neg (by rw [hc0]; exact Bool.false_ne_true),
    if_neg (by rw [hcf]; exact Bool.false_ne_true)] at h
  cases h
  refine ⟨rfl, rfl, rfl, ?_⟩
  have hcov' := CovFrames.congr (s := s) (s' := { s with count := s.count + 1 }) (vs' := vs) rfl
    (onFirstB_count_succ hpos rfl rfl) rfl false s.path s.choices lv (fun _ _ => rfl) hcov
  exact cov_finish_leaf hnb hc hl hw hleaf hvc hspl (s' := { s with count := s.count + 1 }) hc1'.1 hcov'

set_option linter.unusedVariables false in
/-- the leaf branch, case "better than `currentBest`" (not the first leaf) -/
theorem cov_leaf_accept {n m : Nat} {nb : Nbrs} {rf : Nat} {r : IR.St} (hnb : NbOK nb n)
    (hlenm : ∀ o : List Nat, o.Perm (List.range n) → (certPos nb o n).length = m) {s s' : LS}
    {lv : List (Nat × Nat)} {vs : List Nat} (hc : Core n s) (hl : LevelsOK s.op s.path s.choices lv)
    (hw : WalkNodev n nb rf r vs lv s) (hleaf : s.op.binDividers.len = n) (hvc : VClean nb s.op) (hspl : s.op.spl = n)
    (hb : BestOK m s) (hg : GInv n m nb s)
    (hcmp : compare s.op.value.toList s.currentBest.toList = 1) (hcnt : 0 < s.count)
    (h : leafNode n m s = .ok s')
    (hcov : CovFrames n nb rf r s vs false s.path s.choices lv) :
    s'.path = s.path ∧ s'.choices = s.choices ∧ s'.op = s.op ∧ s'.currentBest.toList = s.op.value.toList ∧
      CovFrames n nb rf r s' vs true s.path s.choices lv := by
  have hval : s.op.value.toList = certPos nb s.op.order.toList n := by rw [← hspl]; exact hvc.val
  have hvlen : s.op.value.toList.length = m := by rw [hval]; exact hlenm _ hc.part.perm
  unfold leafNode at h
  dsimp only at h
  have hc1 : (compare s.op.value.toList s.currentBest.toList == 1 || s.count + 1 == 1) = true := by
    rw [hcmp]; rfl
  rw [if_pos hc1] at h
  cases hrs : s.currentBest.reslice m with
  | panic => rw [hrs] at h; cases h
  | outOfFuel => rw [hrs] at h; cases h
  | ok cb =>
    rw [hrs] at h
    simp only at h
    obtain ⟨cbl, cbd, cbw⟩ := Sl.reslice_len hrs
    have hcbT : (cb.copyFrom s.op.value.toList).toList = s.op.value.toList :=
      Sl.copyFrom_toList cb cbw _ (by rw [hvlen, cbl])
    split at h
    · rename_i bestPermInv' bestOrbits' hloop
      rw [if_neg (show ¬ (s.count + 1 = 1) by omega)] at h
      cases h
      refine ⟨rfl, rfl, rfl, hcbT, ?_⟩
      have hbv : compare s.currentBest.toList s.op.value.toList = -1 := (compare_eq_neg_one_iff _ _).2 hcmp
      have hcov' := CovFrames.mono_best (s := s)
        (s' := { s with count := s.count + 1, currentBest := cb.copyFrom s.op.value.toList,
                        bestPath := s.bestPath.copyFrom s.path.reverse,
                        bestPerm := s.bestPerm.copyFrom s.op.order.toList, bestPermInv := bestPermInv',
                        bestOrbits := bestOrbits' })
        (fun x hx => by
          show compare x (cb.copyFrom s.op.value.toList).toList ≠ 1
          rw [hcbT, compare_trans_le_lt x _ _ hx hbv]; decide)
        (onFirstB_count_succ hcnt rfl rfl) rfl false s.path s.choices lv hcov
      exact cov_finish_leaf hnb hc hl hw hleaf hvc hspl
        (by show compare s.op.value.toList (cb.copyFrom s.op.value.toList).toList ≠ 1
            rw [hcbT, compare_self]; decide) hcov'
    · cases h
    · cases h

end CanonF
