import Mamba.Lemmas.CanonFGens
import Mamba.Lemmas.CanonFClassQ
import Mamba.Lemmas.CanonFEdgeless
/-!
# (b), (c): generators and orbits returned by `CanonicalIsomorphFull` (faithful model `Model/CanonF.lean`)
-/
namespace CanonF
open Relation GraphSpec


/-- `γ` (as a list) is an automorphism of `g` -/
def IsAutG (g : G) (γ : List Nat) : Prop :=
  γ.Perm (List.range g.n) ∧ ∀ u v, u < g.n → v < g.n → g.adj (γ.getD u 0) (γ.getD v 0) = g.adj u v

theorem mem_nbrsOf (g : G) (hg : g.WF) (x y : Nat) : y ∈ (nbrsOf g).getD x [] ↔ g.adj x y = true := by
  rw [nbrsOf_getD]
  by_cases hx : x < g.n
  · rw [if_pos hx]
    unfold G.nbrs
    rw [List.mem_filter, List.mem_range]
    constructor
    · exact fun h => h.2
    · intro h; exact ⟨(hg.supp x y h).2, h⟩
  · rw [if_neg hx]
    constructor
    · intro h; cases h
    · intro h; exact absurd (hg.supp x y h).1 hx

theorem isAutG_of_isAutL (g : G) (hg : g.WF) (γ : List Nat) (h : IsAutL (nbrsOf g) g.n γ) : IsAutG g γ := by
  refine ⟨h.1, ?_⟩
  intro u v hu hv
  have := h.2 u v hu hv
  rw [mem_nbrsOf g hg, mem_nbrsOf g hg] at this
  cases h1 : g.adj u v <;> cases h2 : g.adj (γ.getD u 0) (γ.getD v 0) <;> simp_all


/-- unfolding `CanonicalIsomorphFull` for a non-empty graph: the fresh partition with its invariants and the call of
`CanonicalIsomorphAllocated` on fresh storage -/
theorem full_unfold (fuel : Nat) (g : G) (vc : Classes) (hvc : ClassesOK g.n vc) (hn : g.n ≠ 0)
    (r : Res) (h : canonicalIsomorphFull fuel g vc = .ok r) :
    ∃ op opR stR, newOrderedPartition g.n (((nbrsOf g).toList.map List.length).sum / 2) vc = .ok (some op) ∧
      PartInv g.n op ∧ AgeInv op ∧ op.age = 0 ∧ op.spl = 0 ∧ op.value.len = 0 ∧
      canonicalIsomorphAllocated fuel g.n (((nbrsOf g).toList.map List.length).sum / 2) (nbrsOf g)
        (some op) (newStorage g.n (((nbrsOf g).toList.map List.length).sum / 2)) {} = .ok (r, opR, stR) := by
  unfold canonicalIsomorphFull at h
  dsimp only at h
  obtain ⟨op, hnew, hp, ha, hage, hspl, hval, _⟩ :=
    newOrderedPartition_inv (m := ((nbrsOf g).toList.map List.length).sum / 2) (Nat.pos_of_ne_zero hn) hvc
  rw [hnew] at h
  simp only at h
  cases hal : canonicalIsomorphAllocated fuel g.n (((nbrsOf g).toList.map List.length).sum / 2) (nbrsOf g)
      (some op) (newStorage g.n (((nbrsOf g).toList.map List.length).sum / 2)) {} with
  | panic => rw [hal] at h; cases h
  | outOfFuel => rw [hal] at h; cases h
  | ok x =>
    obtain ⟨r', opR, stR⟩ := x
    rw [hal] at h
    simp only at h
    cases h
    exact ⟨op, opR, stR, hnew, hp, ha, hage, hspl, hval, hal⟩

/-- two vertices are connected by automorphisms of `g` -/
def SameOrbit (g : G) (a b : Nat) : Prop := EqvGen (fun x y => ∃ γ, IsAutG g γ ∧ γ[x]? = some y) a b

/-- a graph with `g.M() = 0` has no edges -/
theorem no_edges_of_m_zero (g : G) (hg : g.WF) (hm : ((nbrsOf g).toList.map List.length).sum / 2 = 0)
    (u v : Nat) : g.adj u v = false := by
  cases hadj : g.adj u v with
  | false => rfl
  | true =>
    exfalso
    obtain ⟨hnbok, hsz⟩ := nbOK_nbrsOf g hg
    obtain ⟨hu, hv⟩ := hg.supp u v hadj
    have hne : u ≠ v := by
      intro e; subst e; rw [hg.irrefl] at hadj; cases hadj
    have hlen := certPos_length hnbok hsz (List.Perm.refl (List.range g.n))
    rw [hm] at hlen
    have hnil : certPos (nbrsOf g) (List.range g.n) g.n = [] := List.eq_nil_of_length_eq_zero hlen
    have hmem : ∀ p q, q < p → p < g.n → g.adj p q = true → False := by
      intro p q hqp hp hpq
      have : tri p + q ∈ certPos (nbrsOf g) (List.range g.n) g.n := by
        rw [mem_certPos (List.Perm.refl _) (Nat.le_refl _)]
        refine ⟨p, q, hqp, hp, rfl, ?_⟩
        have e1 : (List.range g.n).getD q 0 = q := by
          rw [List.getD_eq_getElem?_getD, List.getElem?_range (by omega)]; rfl
        have e2 : (List.range g.n).getD p 0 = p := by
          rw [List.getD_eq_getElem?_getD, List.getElem?_range hp]; rfl
        rw [e1, e2, mem_nbrsOf g hg]; exact hpq
      rw [hnil] at this; cases this
    rcases Nat.lt_or_gt_of_ne hne with hlt | hgt
    · exact hmem v u hlt hv (by rw [hg.symm]; exact hadj)
    · exact hmem u v hgt hu hadj

/-- with a single bin every vertex is in cell 0 -/
theorem inCell_single {n : Nat} {op : OP} (hp : PartInv n op) (h1 : op.binDividers.len = 1) :
    ∀ v, v < n → op.inCell.toList[v]? = some 0 := by
  intro v hv
  have hmem : v ∈ op.order.toList := hp.perm.mem_iff.2 (List.mem_range.2 hv)
  obtain ⟨p, hpv⟩ := List.getElem?_of_mem hmem
  have hpl := (List.getElem?_eq_some_iff.1 hpv).1
  have holen : op.order.toList.length = n := by rw [Sl.length_toList _ hp.wfOrder, hp.lenOrder]
  have hbl : op.binDividers.toList.length = 1 := by rw [Sl.length_toList _ hp.wfBd, h1]
  rw [hp.inCell p v hpv]
  congr 1
  match hb : op.binDividers.toList, hbl with
  | [x], _ =>
    have hlast := hp.last
    rw [hb] at hlast
    simp only [List.getLast?_singleton, Option.some.injEq] at hlast
    subst hlast
    unfold binIdx
    simp only [List.countP_cons, List.countP_nil, decide_eq_true_eq]
    rw [if_neg (by omega)]

/-- (b), (c): every generator returned by `CanonicalIsomorphFull` is an automorphism of `g`; vertices with the same
representative in the returned union–find are connected by the returned generators; every generator maps each vertex
class into itself -/
theorem canonF_gens_full (hst : StablePerm) (hx : ExpandCert) (fuel : Nat) (g : G) (hg : g.WF)
    (vc : Classes) (hvc : ClassesOK g.n vc)
    (r : Res) (h : canonicalIsomorphFull fuel g vc = .ok r) :
    (∀ gs, r.gens = some gs → ∀ γ ∈ gs, IsAutG g γ) ∧
    (∀ ds, r.orbits = some ds → ds.length = g.n ∧
      ∀ a b, a < g.n → b < g.n → Disjoint.rep ds.toArray a = Disjoint.rep ds.toArray b → SameOrbit g a b) ∧
    (∀ gs ds, r.gens = some gs → r.orbits = some ds →
      ∀ a b, a < g.n → b < g.n → Disjoint.rep ds.toArray a = Disjoint.rep ds.toArray b →
        EqvGen (fun x y => ∃ γ ∈ gs, γ[x]? = some y) a b) ∧
    (∀ gs cls, r.gens = some gs → vc = some cls → ∀ γ ∈ gs, ∀ c ∈ cls, ∀ v ∈ c, ∀ w, γ[v]? = some w → w ∈ c) := by
  by_cases hn : g.n = 0
  · -- the empty graph: nil, nil
    unfold canonicalIsomorphFull at h
    dsimp only at h
    have hnew : newOrderedPartition g.n (((nbrsOf g).toList.map List.length).sum / 2) vc = .ok none := by
      simp [newOrderedPartition, hn]
    rw [hnew] at h
    simp only [canonicalIsomorphAllocated, hn, if_true] at h
    cases h
    exact ⟨fun gs hgs => (by cases hgs), fun ds hds => (by cases hds), fun gs ds hgs => (by cases hgs),
      fun gs cls hgs => (by cases hgs)⟩
  · obtain ⟨op, opR, stR, hnew, hp, ha, hage, hspl, hval, hal⟩ := full_unfold fuel g vc hvc hn r h
    have hn0 : 0 < g.n := Nat.pos_of_ne_zero hn
    by_cases hsc : ((nbrsOf g).toList.map List.length).sum / 2 = 0 ∧ op.binDividers.len = 1
    · -- the m == 0 shortcut (a single class)
      obtain ⟨st2, he⟩ := allocated_shortcut hn hsc.1 hsc.2 hal
      obtain ⟨gs, ds, e1, e2, e3, e4, e5⟩ := edgeless_cert hn he
      have haut : ∀ γ ∈ gs, IsAutG g γ := by
        intro γ hγ
        refine ⟨e4 γ hγ, ?_⟩
        intro u v _ _
        rw [no_edges_of_m_zero g hg hsc.1, no_edges_of_m_zero g hg hsc.1]
      refine ⟨fun gs' hgs => ?_, fun ds' hds => ?_, fun gs' ds' hgs hds => ?_, fun gs' cls hgs hcls => ?_⟩
      · rw [e1] at hgs; cases hgs; exact haut
      · rw [e2] at hds; cases hds
        refine ⟨e3, ?_⟩
        intro a b ha hb _
        apply eqvGen_of_imp _ (e5 a b ha hb)
        rintro x y ⟨γ, hγ, hxy⟩
        exact EqvGen.rel _ _ ⟨γ, haut γ hγ, hxy⟩
      · rw [e1] at hgs; cases hgs
        intro a b ha hb _
        exact e5 a b ha hb
      · rw [e1] at hgs; cases hgs
        subst hcls
        intro γ hγ
        have hperm := e4 γ hγ
        obtain ⟨hlen, _, hmem⟩ := aut_perm_facts hperm
        have h0 := inCell_single hp hsc.2
        apply cls_of_inCell hn0 hvc hnew hperm
        intro v w hvw
        have hv : v < g.n := by rw [← hlen]; exact (List.getElem?_eq_some_iff.1 hvw).1
        have hw : w < g.n := (hmem w).1 (List.mem_of_getElem? hvw)
        simp only [h0 v hv, h0 w hw]
    · obtain ⟨hnbok, hsz⟩ := nbOK_nbrsOf g hg
      obtain ⟨gs, ds, e1, e2, e3', e4, _, _, e6⟩ := allocated_cert hst hx
        (clsOrdQ hst g.n (nbrsOf g) (fun v => (op.inCell.toList[v]?).getD 0) op.binDividers.toList)
        hn (fun hm h1 => hsc ⟨hm, h1⟩) rfl hp ha hage
        hspl hval (ClsInv.init hp ha hage) hnbok (fun o ho => certPos_length hnbok hsz ho) hal
      have e3 : ∀ γ ∈ gs, IsAutG g γ := fun γ hγ => isAutG_of_isAutL g hg γ (e3' γ hγ).1
      refine ⟨fun gs' hgs => ?_, fun ds' hds => ?_, fun gs' ds' hgs hds => ?_, fun gs' cls hgs hcls => ?_⟩
      · rw [e1] at hgs; cases hgs; exact e3
      · rw [e2] at hds; cases hds
        refine ⟨e4, ?_⟩
        intro a b ha hb hrep
        apply eqvGen_of_imp _ (e6 a b ha hb hrep)
        rintro x y ⟨γ, hγ, hxy⟩
        exact EqvGen.rel _ _ ⟨γ, e3 γ hγ, hxy⟩
      · rw [e1] at hgs; cases hgs
        rw [e2] at hds; cases hds
        exact e6
      · rw [e1] at hgs; cases hgs
        subst hcls
        intro γ hγ
        exact cls_of_inCell hn0 hvc hnew (e3' γ hγ).1.1 (e3' γ hγ).2

end CanonF
