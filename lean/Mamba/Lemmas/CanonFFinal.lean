import Mamba.Lemmas.CanonFGens
import Mamba.Lemmas.CanonFEdgeless
/-!
# (b), (c): generators and orbits returned by `CanonicalIsomorphFull` (faithful model `Model/CanonF.lean`)
-/
namespace CanonF
open Relation GraphSpec


/-- `γ` (as a list) is an automorphism of `g` -/
def IsAutG (g : G) (γ : List Nat) : Prop :=
  γ.Perm (List.range g.n) ∧ ∀ u v, u < g.n → v < g.n → g.adj (γ.getD u 0) (γ.getD v 0) = g.adj u v

theorem mem_nbrsOf (g : G) (hg : g.WF) (x y : Nat) : y ∈ (nbrsOf g).getD x [] ↔ g.adj x y = true := by
  rw [nbrsOf_getD]
  by_cases hx : x < g.n
  · rw [if_pos hx]
    unfold G.nbrs
    rw [List.mem_filter, List.mem_range]
    constructor
    · exact fun h => h.2
    · intro h; exact ⟨(hg.supp x y h).2, h⟩
  · rw [if_neg hx]
    constructor
    · intro h; cases h
    · intro h; exact absurd (hg.supp x y h).1 hx

theorem isAutG_of_isAutL (g : G) (hg : g.WF) (γ : List Nat) (h : IsAutL (nbrsOf g) g.n γ) : IsAutG g γ := by
  refine ⟨h.1, ?_⟩
  intro u v hu hv
  have := h.2 u v hu hv
  rw [mem_nbrsOf g hg, mem_nbrsOf g hg] at this
  cases h1 : g.adj u v <;> cases h2 : g.adj (γ.getD u 0) (γ.getD v 0) <;> simp_all


/-- (b), (c) for `CanonicalIsomorphFull`, case `n > 0`, `m > 0` -/
theorem canonF_cert_full (hst : StablePerm) (hx : ExpandCert) (hy : ExpandStale) (fuel : Nat) (g : G) (hg : g.WF)
    (vc : Classes) (hvc : ClassesOK g.n vc)
    (hfirst : ∀ cls c, vc = some cls → cls.head? = some c → c.length ≠ 1)
    (hn : g.n ≠ 0) (hm : ((nbrsOf g).toList.map List.length).sum / 2 ≠ 0)
    (r : Res) (h : canonicalIsomorphFull fuel g vc = .ok r) :
    ∃ gs ds, r.gens = some gs ∧ r.orbits = some ds ∧ (∀ γ ∈ gs, IsAutG g γ) ∧ ds.length = g.n ∧
      Disjoint.Inv ds.toArray ∧
      ∀ a b, a < g.n → b < g.n → Disjoint.rep ds.toArray a = Disjoint.rep ds.toArray b →
        EqvGen (fun x y => ∃ γ ∈ gs, γ[x]? = some y) a b := by
  unfold canonicalIsomorphFull at h
  dsimp only at h
  obtain ⟨op, hnew, hp, ha, hage, hspl, hval, _, _, _, _, _, _, _, _, hbd⟩ :=
    newOrderedPartition_inv (m := ((nbrsOf g).toList.map List.length).sum / 2) (Nat.pos_of_ne_zero hn) hvc
  rw [hnew] at h
  simp only at h
  cases hal : canonicalIsomorphAllocated fuel g.n (((nbrsOf g).toList.map List.length).sum / 2) (nbrsOf g)
      (some op) (newStorage g.n (((nbrsOf g).toList.map List.length).sum / 2)) {} with
  | panic => rw [hal] at h; cases h
  | outOfFuel => rw [hal] at h; cases h
  | ok x =>
    obtain ⟨r', opR, stR⟩ := x
    rw [hal] at h
    simp only at h
    cases h
    have hedge := hasEdge_of_wf g hg hm
    have hn2 : g.n ≠ 1 := by
      obtain ⟨u, v, hu, hv, hne, _⟩ := hedge
      omega
    have hcl : CleanPrefix op := by
      refine ⟨⟨by rw [hspl]; exact Nat.zero_le _, by intro j hj; rw [hspl] at hj; omega⟩, ?_⟩
      rw [hspl]
      cases vc with
      | none =>
        simp only at hbd
        rw [hbd]; simp; exact hn2
      | some cls =>
        simp only at hbd
        rw [hbd]
        cases hcls : cls with
        | nil =>
          exfalso
          have := hvc.1
          rw [hcls] at this
          simp at this
          exact hn this
        | cons c cs =>
          rw [scanl_tail_head _ c.length (cs.map List.length) (by simp)]
          have := hfirst cls c rfl (by rw [hcls]; rfl)
          intro hc; exact this (Option.some.inj hc)
    obtain ⟨hnbok, hsz⟩ := nbOK_nbrsOf g hg
    obtain ⟨gs, ds, e1, e2, e3, e4, e5, e6⟩ := allocated_cert hst hx hy hn hm rfl hp ha hage hcl hspl hval hnbok
      (fun o ho => certPos_length hnbok hsz ho) hedge hal
    exact ⟨gs, ds, e1, e2, fun γ hγ => isAutG_of_isAutL g hg γ (e3 γ hγ), e4, e5, e6⟩


/-- two vertices are connected by automorphisms of `g` -/
def SameOrbit (g : G) (a b : Nat) : Prop := EqvGen (fun x y => ∃ γ, IsAutG g γ ∧ γ[x]? = some y) a b

/-- a graph with `g.M() = 0` has no edges -/
theorem no_edges_of_m_zero (g : G) (hg : g.WF) (hm : ((nbrsOf g).toList.map List.length).sum / 2 = 0)
    (u v : Nat) : g.adj u v = false := by
  cases hadj : g.adj u v with
  | false => rfl
  | true =>
    exfalso
    obtain ⟨hnbok, hsz⟩ := nbOK_nbrsOf g hg
    obtain ⟨hu, hv⟩ := hg.supp u v hadj
    have hne : u ≠ v := by
      intro e; subst e; rw [hg.irrefl] at hadj; cases hadj
    have hlen := certPos_length hnbok hsz (List.Perm.refl (List.range g.n))
    rw [hm] at hlen
    have hnil : certPos (nbrsOf g) (List.range g.n) g.n = [] := List.eq_nil_of_length_eq_zero hlen
    have hmem : ∀ p q, q < p → p < g.n → g.adj p q = true → False := by
      intro p q hqp hp hpq
      have : tri p + q ∈ certPos (nbrsOf g) (List.range g.n) g.n := by
        rw [mem_certPos (List.Perm.refl _) (Nat.le_refl _)]
        refine ⟨p, q, hqp, hp, rfl, ?_⟩
        have e1 : (List.range g.n).getD q 0 = q := by
          rw [List.getD_eq_getElem?_getD, List.getElem?_range (by omega)]; rfl
        have e2 : (List.range g.n).getD p 0 = p := by
          rw [List.getD_eq_getElem?_getD, List.getElem?_range hp]; rfl
        rw [e1, e2, mem_nbrsOf g hg]; exact hpq
      rw [hnil] at this; cases this
    rcases Nat.lt_or_gt_of_ne hne with hlt | hgt
    · exact hmem v u hlt hv (by rw [hg.symm]; exact hadj)
    · exact hmem u v hgt hu hadj

/-- (b) every generator returned by `CanonicalIsomorphFull` is an automorphism of `g` -/
theorem canonF_gens_full (hst : StablePerm) (hx : ExpandCert) (hy : ExpandStale) (fuel : Nat) (g : G) (hg : g.WF)
    (vc : Classes) (hvc : ClassesOK g.n vc)
    (hfirst : ∀ cls c, vc = some cls → cls.head? = some c → c.length ≠ 1)
    (r : Res) (h : canonicalIsomorphFull fuel g vc = .ok r) :
    (∀ gs, r.gens = some gs → ∀ γ ∈ gs, IsAutG g γ) ∧
    (∀ ds, r.orbits = some ds → ds.length = g.n ∧
      ∀ a b, a < g.n → b < g.n → Disjoint.rep ds.toArray a = Disjoint.rep ds.toArray b → SameOrbit g a b) ∧
    (∀ gs ds, r.gens = some gs → r.orbits = some ds →
      ∀ a b, a < g.n → b < g.n → Disjoint.rep ds.toArray a = Disjoint.rep ds.toArray b →
        EqvGen (fun x y => ∃ γ ∈ gs, γ[x]? = some y) a b) := by
  by_cases hn : g.n = 0
  · -- the empty graph: nil, nil
    unfold canonicalIsomorphFull at h
    dsimp only at h
    have hnew : newOrderedPartition g.n (((nbrsOf g).toList.map List.length).sum / 2) vc = .ok none := by
      simp [newOrderedPartition, hn]
    rw [hnew] at h
    simp only [canonicalIsomorphAllocated, hn, if_true] at h
    cases h
    exact ⟨fun gs hgs => (by cases hgs), fun ds hds => (by cases hds), fun gs ds hgs => (by cases hgs)⟩
  · by_cases hm : ((nbrsOf g).toList.map List.length).sum / 2 = 0
    · -- the m == 0 shortcut
      have h' := h
      unfold canonicalIsomorphFull at h
      dsimp only at h
      obtain ⟨op, hnew, _⟩ :=
        newOrderedPartition_inv (m := ((nbrsOf g).toList.map List.length).sum / 2) (Nat.pos_of_ne_zero hn) hvc
      rw [hnew] at h
      simp only at h
      cases hal : canonicalIsomorphAllocated fuel g.n (((nbrsOf g).toList.map List.length).sum / 2) (nbrsOf g)
          (some op) (newStorage g.n (((nbrsOf g).toList.map List.length).sum / 2)) {} with
      | panic => rw [hal] at h; cases h
      | outOfFuel => rw [hal] at h; cases h
      | ok x =>
        obtain ⟨r', opR, stR⟩ := x
        rw [hal] at h
        simp only at h
        cases h
        unfold canonicalIsomorphAllocated at hal
        rw [if_neg hn, if_pos hm] at hal
        cases he : edgeless g.n (newStorage g.n (((nbrsOf g).toList.map List.length).sum / 2)) with
        | panic => rw [he] at hal; cases hal
        | outOfFuel => rw [he] at hal; cases hal
        | ok y =>
          obtain ⟨r2, st2⟩ := y
          rw [he] at hal
          simp only [Outcome.ok.injEq, Prod.mk.injEq] at hal
          rw [← hal.1]
          obtain ⟨gs, ds, e1, e2, e3, e4, e5⟩ := edgeless_cert hn he
          have haut : ∀ γ ∈ gs, IsAutG g γ := by
            intro γ hγ
            refine ⟨e4 γ hγ, ?_⟩
            intro u v _ _
            rw [no_edges_of_m_zero g hg hm, no_edges_of_m_zero g hg hm]
          refine ⟨fun gs' hgs => ?_, fun ds' hds => ?_, fun gs' ds' hgs hds => ?_⟩
          · rw [e1] at hgs; cases hgs; exact haut
          · rw [e2] at hds; cases hds
            refine ⟨e3, ?_⟩
            intro a b ha hb _
            apply eqvGen_of_imp _ (e5 a b ha hb)
            rintro x y ⟨γ, hγ, hxy⟩
            exact EqvGen.rel _ _ ⟨γ, haut γ hγ, hxy⟩
          · rw [e1] at hgs; cases hgs
            intro a b ha hb _
            exact e5 a b ha hb
    · obtain ⟨gs, ds, e1, e2, e3, e4, _, e6⟩ := canonF_cert_full hst hx hy fuel g hg vc hvc hfirst hn hm r h
      refine ⟨fun gs' hgs => ?_, fun ds' hds => ?_, fun gs' ds' hgs hds => ?_⟩
      · rw [e1] at hgs; cases hgs; exact e3
      · rw [e2] at hds; cases hds
        refine ⟨e4, ?_⟩
        intro a b ha hb hrep
        apply eqvGen_of_imp _ (e6 a b ha hb hrep)
        rintro x y ⟨γ, hγ, hxy⟩
        exact EqvGen.rel _ _ ⟨γ, e3 γ hγ, hxy⟩
      · rw [e1] at hgs; cases hgs
        rw [e2] at hds; cases hds
        exact e6

end CanonF
