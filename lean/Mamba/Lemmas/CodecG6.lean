import Mamba.Lemmas.CodecG6Enc
import Mamba.Lemmas.CodecG6Dec
import Mamba.Lemmas.CodecDense
/-! graph6: round trip, totality of the decoder, stability of decode ∘ encode ∘ decode. -/
namespace Codec
open Formats GraphSpec

theorem n_le_of_tri {n : Nat} (h : n * (n - 1) / 2 < 2 ^ 63) : n ≤ 4294967296 := by
  by_contra hc
  have h1 : tri 4294967297 ≤ tri n := tri_mono (by omega)
  have h2 : tri 4294967297 = 9223372039002259456 := by decide
  have : tri n = n * (n - 1) / 2 := rfl
  omega

theorem dropBytes_append (p : List Nat) (a : Bytes) : dropBytes (p.toArray ++ a) p.length = a := by
  unfold dropBytes
  apply Array.toList_inj.1
  simp

theorem hasPrefix_append (p : List Nat) (a : Bytes) : hasPrefix (p.toArray ++ a) p = true := by
  unfold hasPrefix
  simp

/-- the part of `Graph6Decode` after the optional header has been stripped -/
def g6DecodeCore (s : Bytes) : Outcome (Option Dense) :=
  if !inRange s then .ok none
  else if s.size = 0 then .ok (some (newDenseNil 0))
  else
    match decHeader s with
    | .ok none => .ok none
    | .ok (some (n, i)) =>
      if i = 8 && n > 4294967296 then .ok none
      else if i + (n * (n - 1) / 2 + 5) / 6 > s.size then .ok none
      else
        match (List.range (n * (n - 1) / 2)).mapM (g6Bit s i) with
        | .ok edges =>
          match newDense n edges.toArray with
          | .ok d => .ok (some d)
          | .panic => .panic
          | .outOfFuel => .outOfFuel
        | .panic => .panic
        | .outOfFuel => .outOfFuel
    | .panic => .panic
    | .outOfFuel => .outOfFuel

theorem g6Decode_eq_core (s0 : Bytes) :
    g6Decode s0 = g6DecodeCore (if hasPrefix s0 g6Magic then dropBytes s0 10 else s0) := rfl

/-- what a successful run of the core establishes -/
theorem g6DecodeCore_total (s : Bytes) :
    g6DecodeCore s ≠ .panic ∧ g6DecodeCore s ≠ .outOfFuel ∧
    ∀ d, g6DecodeCore s = .ok (some d) →
      d.WF ∧ (∀ e ∈ d.edges.toList, e = 0 ∨ e = 1) ∧ d.n ≤ 4294967296 ∧
      ((s.size = 0 ∧ d.n = 0) ∨ ∃ rest, readN s.toList = some (d.n, rest)) := by
  unfold g6DecodeCore
  by_cases hr : inRange s = true
  swap
  · simp [hr]
  simp only [hr, Bool.not_true, Bool.false_eq_true, if_false]
  by_cases h0 : s.size = 0
  · simp only [h0, if_true]
    refine ⟨by simp, by simp, ?_⟩
    intro d hd
    simp only [Outcome.ok.injEq, Option.some.injEq] at hd
    subst hd
    exact ⟨newDenseNil_wf 0, by simp [newDenseNil], by simp [newDenseNil], Or.inl ⟨trivial, rfl⟩⟩
  simp only [h0, if_false]
  rcases decHeader_spec s (by omega) hr with ⟨h1, _⟩ | ⟨n, i, h1, h2, h3, h4, h5, h6, h7⟩
  · simp [h1]
  · simp only [h1]
    by_cases c1 : (i = 8 && n > 4294967296) = true
    · simp [c1]
    simp only [c1, if_false, Bool.false_eq_true]
    by_cases c2 : i + (n * (n - 1) / 2 + 5) / 6 > s.size
    · simp [c2]
    simp only [c2, if_false]
    have hm : (List.range (n * (n - 1) / 2)).mapM (g6Bit s i)
        = .ok ((List.range (n * (n - 1) / 2)).map (g6BitVal s i)) := by
      apply mapM_ok
      intro j hj
      have hj := List.mem_range.1 hj
      apply g6Bit_ok
      omega
    rw [hm]
    obtain ⟨d, hd, hwf, hdn, hde⟩ := newDense_ok n ((List.range (n * (n - 1) / 2)).map (g6BitVal s i)).toArray (by simp)
    simp only [hd]
    refine ⟨by simp, by simp, ?_⟩
    intro d' hd'
    simp only [Outcome.ok.injEq, Option.some.injEq] at hd'
    subst hd'
    refine ⟨hwf, ?_, ?_, Or.inr ⟨_, hdn ▸ h2⟩⟩
    · intro e he
      rw [hde] at he
      simp only [List.mem_map, List.mem_range] at he
      obtain ⟨j, _, rfl⟩ := he
      exact g6BitVal_le_one s i j
    · rw [hdn]
      rcases h4 with rfl | rfl | rfl
      · have := h6 rfl; omega
      · have := h7 rfl; omega
      · simp at c1; omega

/-- `Graph6Decode` of the format's string of a well-formed graph returns the `DenseGraph` of that graph -/
theorem g6Decode_g6Spec (g : G) (h : g.WF) (hn : g.n ≤ 4294967296) :
    g6Decode (g6Spec g).toArray = .ok (some (denseOf g)) := by
  rw [g6Decode_spec_string g hn, newDense_denseOf g h]

/-- the same with the optional header -/
theorem g6Decode_magic_g6Spec (g : G) (h : g.WF) (hn : g.n ≤ 4294967296) :
    g6Decode (g6Magic.toArray ++ (g6Spec g).toArray) = .ok (some (denseOf g)) := by
  have h0 := g6Decode_g6Spec g h hn
  have hp : hasPrefix (g6Spec g).toArray g6Magic = false := by
    obtain ⟨c, t, hNn, hc⟩ := Nn_head g.n
    unfold g6Spec; rw [hNn]
    exact hasPrefix_false_of_head c _ 62 _ (by omega)
  rw [g6Decode_eq_core] at h0 ⊢
  rw [hasPrefix_append, if_pos rfl]
  rw [hp] at h0
  simp only [Bool.false_eq_true, if_false] at h0
  have : dropBytes (g6Magic.toArray ++ (g6Spec g).toArray) 10 = (g6Spec g).toArray :=
    dropBytes_append g6Magic _
  rw [this]; exact h0

/-- round trip through the model's encoder -/
theorem g6_roundtrip_denseOf (g : GI) (hwf : g.toG.WF) (hn : g.n * (g.n - 1) / 2 < 2 ^ 63) :
    ∃ a, g6Encode g = .ok a ∧ g6Decode a = .ok (some (denseOf g.toG)) ∧
      g6Decode (g6Magic.toArray ++ a) = .ok (some (denseOf g.toG)) := by
  have hn' := n_le_of_tri hn
  obtain ⟨a, ha, hs, _⟩ := g6Encode_eq_spec g hwf.symm (by omega)
  have : a = (g6Spec g.toG).toArray := by rw [← hs]
  refine ⟨a, ha, ?_, ?_⟩
  · rw [this]; exact g6Decode_g6Spec g.toG hwf hn'
  · rw [this]; exact g6Decode_magic_g6Spec g.toG hwf hn'

theorem g6Decode_total' (s : Bytes) :
    g6Decode s ≠ .panic ∧ g6Decode s ≠ .outOfFuel ∧
    ∀ d, g6Decode s = .ok (some d) →
      d.WF ∧ (∀ e ∈ d.edges.toList, e = 0 ∨ e = 1) ∧ d.n ≤ 4294967296 := by
  rw [g6Decode_eq_core]
  obtain ⟨h1, h2, h3⟩ := g6DecodeCore_total (if hasPrefix s g6Magic then dropBytes s 10 else s)
  exact ⟨h1, h2, fun d hd => ⟨(h3 d hd).1, (h3 d hd).2.1, (h3 d hd).2.2.1⟩⟩

/-- re-encoding a decoded graph and decoding again gives the same `DenseGraph` value -/
theorem g6_stable (s : Bytes) (d : Dense) (h : g6Decode s = .ok (some d)) :
    ∃ a, g6Encode (GI.ofDense d) = .ok a ∧ g6Decode a = .ok (some d) := by
  obtain ⟨hwf, h01, hn⟩ := (g6Decode_total' s).2.2 d h
  have htri : (GI.ofDense d).n * ((GI.ofDense d).n - 1) / 2 < 2 ^ 63 := by
    have : tri d.n ≤ tri 4294967296 := tri_mono hn
    have h2 : tri 4294967296 = 9223372034707292160 := by decide
    show tri d.n < _
    omega
  obtain ⟨a, ha, hdec, _⟩ := g6_roundtrip_denseOf (GI.ofDense d) (Dense.toG_wf d) htri
  refine ⟨a, ha, ?_⟩
  rw [hdec]
  have : (GI.ofDense d).toG = d.toG := rfl
  rw [this, denseOf_toG d hwf h01]

/-- totality with the declared vertex count -/
theorem g6Decode_total_declared (s : Bytes) :
    g6Decode s ≠ .panic ∧ g6Decode s ≠ .outOfFuel ∧
    ∀ d, g6Decode s = .ok (some d) → d.WF ∧
      ((if hasPrefix s g6Magic then dropBytes s 10 else s).size = 0 ∧ d.n = 0 ∨
        ∃ rest, readN (if hasPrefix s g6Magic then dropBytes s 10 else s).toList = some (d.n, rest)) := by
  rw [g6Decode_eq_core]
  obtain ⟨h1, h2, h3⟩ := g6DecodeCore_total (if hasPrefix s g6Magic then dropBytes s 10 else s)
  exact ⟨h1, h2, fun d hd => ⟨(h3 d hd).1, (h3 d hd).2.2.2⟩⟩

/-- `GI.ofG g` is a sound interface value for a well-formed `g` -/
theorem ofG_sound (g : G) (h : g.WF) : (GI.ofG g).Sound :=
  ⟨h, fun _ _ => rfl, fun _ _ => rfl, rfl⟩

end Codec
