import Mamba.Lemmas.C06Partite
/-! C06: `CompletePartiteGraph` — main theorem. -/
namespace Construct
open GraphSpec


theorem foldl_add_eq_sum (l : List Nat) (a : Nat) : l.foldl (· + ·) a = a + l.sum := by
  induction l generalizing a with
  | nil => simp
  | cons x t ih => simp [ih]; omega

theorem countP_partOf (nums : List Nat) (c : Nat) :
    (List.range nums.sum).countP (fun u => Families.partOf nums u == c) = nums.getD c 0 := by
  induction nums generalizing c with
  | nil => simp
  | cons p rest ih =>
    rw [List.sum_cons, List.range_add, List.countP_append, List.countP_map]
    have e1 : (List.range p).countP (fun u => Families.partOf (p :: rest) u == c) = if c = 0 then p else 0 := by
      have : (List.range p).countP (fun u => Families.partOf (p :: rest) u == c) = (List.range p).countP (fun _ => decide (c = 0)) := by
        apply List.countP_congr
        intro u hu
        have := List.mem_range.mp hu
        simp only [Families.partOf, this, ↓reduceIte, beq_iff_eq, decide_eq_true_eq]
        exact eq_comm
      rw [this]
      by_cases hc : c = 0 <;> simp [hc]
    have e2 : (List.range rest.sum).countP ((fun u => Families.partOf (p :: rest) u == c) ∘ fun x => p + x) =
        if c = 0 then 0 else rest.getD (c - 1) 0 := by
      by_cases hc : c = 0
      · subst hc
        simp only [↓reduceIte, List.countP_eq_zero]
        intro u _
        simp [Families.partOf]
      · rw [← ih (c - 1)]
        simp only [hc, ↓reduceIte]
        apply List.countP_congr
        intro u _
        simp only [Function.comp, Families.partOf, Nat.add_sub_cancel_left, beq_iff_eq]
        have : ¬ p + u < p := by omega
        simp only [this, ↓reduceIte]; omega
    rw [e1, e2]
    cases c with
    | zero => simp
    | succ k => simp

theorem completePartite_deg (nums : List Nat) (v : Nat) (hv : v < nums.sum) :
    (Families.completePartite nums).deg v + partSize nums v = nums.sum := by
  rw [Families.completePartite, deg_symm _ _ v hv]
  have h := List.length_eq_countP_add_countP (fun u => Families.partOf nums u == Families.partOf nums v) (l := List.range nums.sum)
  rw [countP_partOf] at h
  have : (List.range nums.sum).countP (fun u => u != v && (Families.partOf nums v != Families.partOf nums u || Families.partOf nums u != Families.partOf nums v)) =
      (List.range nums.sum).countP (fun u => ¬ (Families.partOf nums u == Families.partOf nums v) = true) := by
    apply List.countP_congr
    intro u _
    by_cases huv : u = v
    · subst huv; simp
    · have : (u != v) = true := by simp [huv]
      simp only [this, Bool.true_and]
      by_cases hp : Families.partOf nums u = Families.partOf nums v
      · simp [hp]
      · have hp' : ¬ Families.partOf nums v = Families.partOf nums u := fun e => hp e.symm
        simp [hp, hp']
  rw [this]
  simp only [List.length_range, partSize] at h ⊢
  omega

theorem partSize_le (nums : List Nat) (v : Nat) (hv : v < nums.sum) : partSize nums v ≤ nums.sum := by
  have := completePartite_deg nums v hv; omega

theorem completePartiteGraph_ok (nums : List Nat) :
    ∃ d, completePartiteGraph nums = .ok d ∧ d.WF ∧ d.abs = Families.completePartite nums := by
  have hn : nums.foldl (· + ·) 0 = nums.sum := by rw [foldl_add_eq_sum]; simp
  obtain ⟨st', f1, f2, f3, f4, f5, f6⟩ := cpFold nums.sum nums 0
    { edges := zeros (tri nums.sum), deg := Array.replicate nums.sum 0, m := 0, start := 0, stop := 0 }
    rfl rfl (by simp) (by simp [zeros]) (by simp)
  let d : Dense := ⟨nums.sum, st'.m, st'.deg, st'.edges⟩
  have hs : d.edges.size = tri d.n := f3
  have hbit : ∀ k, bitAt d.edges k = decide (k ∈ cpIdxs nums.sum 0 nums) := by
    intro k; rw [show d.edges = st'.edges from rfl, f5 k, bitAt_zeros]; simp
  have habs : d.abs = Families.completePartite nums := by
    apply abs_eq_symm d hs
    intro u v huv hv
    have hv' : v < nums.sum := hv
    rw [hbit, Bool.eq_iff_iff, decide_eq_true_eq,
      mem_cpIdxs_iff nums 0 nums.sum u v (by simp) (by omega) huv hv']
    simp only [Nat.sub_zero, ne_eq, Bool.or_eq_true, bne_iff_ne]
    constructor
    · intro h; exact Or.inl h
    · rintro (h | h)
      · exact h
      · exact fun e => h e.symm
  refine ⟨d, ?_, ⟨hs, f4, ?_, ?_⟩, habs⟩
  · unfold completePartiteGraph
    simp only [hn, tri_def]
    have : (fun (st : PartSt) (v : Nat) => (do
        let stop := st.stop + v
        let degree : Int := (nums.sum : Int) - (v : Int)
        let deg ← writeAll st.deg (List.range' st.start (stop - st.start)) degree
        let idxs := (List.range' stop (nums.sum - stop)).flatMap fun k =>
          (List.range' st.start (stop - st.start)).map fun j => (k * (k - 1)) / 2 + j
        let edges ← writeOnes st.edges idxs
        pure { edges := edges, deg := deg, m := st.m + (idxs.length : Int), start := stop, stop := stop } : Outcome PartSt)) =
        cpStep nums.sum := rfl
    simp only [tri_def] at this
    rw [this, f1]; rfl
  · show st'.m = ((d.abs).m : Int)
    rw [m_of_idxs d hs _ (nodup_cpIdxs nums.sum nums 0) (cpIdxs_lt nums 0) hbit, f2]; simp
  · intro v hv
    have hv' : v < nums.sum := hv
    show st'.deg[v]? = some ((d.abs.deg v : Nat) : Int)
    rw [f6 v, habs]
    have := completePartite_deg nums v hv'
    simp only [Nat.zero_le, Nat.zero_add, hv', and_self, ↓reduceIte, Nat.sub_zero, Option.some.injEq]
    omega


end Construct
