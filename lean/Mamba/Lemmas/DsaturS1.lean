import Mamba.Lemmas.DsaturInv
import Mamba.Lemmas.CliqueColourCol
import Mathlib.Data.List.Induction
/-! DSATUR model: the state invariant (definitions, counting helpers, the initial state). -/
namespace CliqueColour
open GraphSpec

def colOf (s : Dsat) (v : Nat) : Int := s.colouring.getD v 0

/-- number of neighbours of `u` among `ws` with colour `c` -/
def cntCol (g : G) (col : Nat → Int) (ws : List Nat) (u c : Nat) : Int :=
  ((ws.filter fun w => g.adj u w && (col w == (c : Int))).length : Int)

/-- largest colour on `ws` (`-1` when empty) -/
def maxCol (col : Nat → Int) (ws : List Nat) : Int := ws.foldl (fun m w => if col w > m then col w else m) (-1)

theorem foldl_max (col : Nat → Int) : ∀ (ws : List Nat) (a : Int), -1 ≤ a →
    ws.foldl (fun m w => if col w > m then col w else m) a = max a (maxCol col ws) := by
  intro ws
  induction ws with
  | nil => intro a ha; simp [maxCol]; omega
  | cons w t ih =>
    intro a ha
    simp only [List.foldl_cons, maxCol]
    rw [ih _ (by split <;> omega), ih _ (by split <;> omega)]
    split <;> split <;> omega

theorem maxCol_nil (col : Nat → Int) : maxCol col [] = -1 := rfl

theorem maxCol_snoc (col : Nat → Int) (ws : List Nat) (w : Nat) :
    maxCol col (ws ++ [w]) = max (maxCol col ws) (col w) := by
  simp only [maxCol, List.foldl_append, List.foldl_cons, List.foldl_nil]
  split <;> omega

theorem maxCol_ge (col : Nat → Int) (ws : List Nat) : -1 ≤ maxCol col ws := by
  induction ws using List.reverseRecOn with
  | nil => simp [maxCol]
  | append_singleton t w ih => rw [maxCol_snoc]; omega

theorem le_maxCol (col : Nat → Int) {ws : List Nat} {w : Nat} (h : w ∈ ws) : col w ≤ maxCol col ws := by
  induction ws using List.reverseRecOn with
  | nil => cases h
  | append_singleton t x ih =>
    rw [maxCol_snoc]
    rcases List.mem_append.1 h with h1 | h1
    · have := ih h1; omega
    · have : w = x := by simpa using h1
      subst this; omega

theorem maxCol_attained (col : Nat → Int) (ws : List Nat) : maxCol col ws = -1 ∨ ∃ w ∈ ws, col w = maxCol col ws := by
  induction ws using List.reverseRecOn with
  | nil => left; rfl
  | append_singleton t x ih =>
    rw [maxCol_snoc]
    by_cases hx : maxCol col t ≤ col x
    · right; exact ⟨x, by simp, by omega⟩
    · rcases ih with h | ⟨w, hw, he⟩
      · have := maxCol_ge col t
        left; omega
      · right; exact ⟨w, List.mem_append_left _ hw, by omega⟩

theorem maxCol_congr {col col' : Nat → Int} {ws : List Nat} (h : ∀ w ∈ ws, col w = col' w) :
    maxCol col ws = maxCol col' ws := by
  induction ws using List.reverseRecOn with
  | nil => rfl
  | append_singleton t x ih =>
    rw [maxCol_snoc, maxCol_snoc, ih (fun w hw => h w (List.mem_append_left _ hw)), h x (by simp)]

theorem cntCol_congr {g : G} {col col' : Nat → Int} {ws : List Nat} (h : ∀ w ∈ ws, col w = col' w) (u c : Nat) :
    cntCol g col ws u c = cntCol g col' ws u c := by
  unfold cntCol
  congr 2
  apply List.filter_congr
  intro w hw
  rw [h w hw]

theorem cntCol_nil (g : G) (col : Nat → Int) (u c : Nat) : cntCol g col [] u c = 0 := rfl

theorem cntCol_snoc (g : G) (col : Nat → Int) (ws : List Nat) (w u c : Nat) :
    cntCol g col (ws ++ [w]) u c = cntCol g col ws u c + (if g.adj u w = true ∧ col w = (c : Int) then 1 else 0) := by
  unfold cntCol
  rw [List.filter_append, List.length_append]
  by_cases h : g.adj u w = true ∧ col w = (c : Int)
  · rw [if_pos h]; simp [h.1, h.2]
  · rw [if_neg h]
    have : (g.adj u w && (col w == (c : Int))) = false := by
      rw [Bool.and_eq_false_iff]
      by_cases h1 : g.adj u w = true
      · right; simpa using fun e => h ⟨h1, e⟩
      · left; simpa using h1
    simp [this]

theorem cntCol_nonneg (g : G) (col : Nat → Int) (ws : List Nat) (u c : Nat) : 0 ≤ cntCol g col ws u c := by
  unfold cntCol; omega

theorem cntCol_eq_zero {g : G} {col : Nat → Int} {ws : List Nat} {u c : Nat} :
    cntCol g col ws u c = 0 ↔ ∀ w ∈ ws, g.adj u w = true → col w ≠ (c : Int) := by
  unfold cntCol
  rw [Int.natCast_eq_zero, List.length_eq_zero_iff, List.filter_eq_nil_iff]
  constructor
  · intro h w hw ha he
    exact h w hw (by simp [ha, he])
  · intro h w hw hb
    simp only [Bool.and_eq_true, beq_iff_eq] at hb
    exact h w hw hb.1 hb.2

end CliqueColour
