import Mamba.Model.GraphRep
import Mathlib.Data.List.Nodup
/-!
# The `sortints` functions used by `SparseGraph`, on strictly increasing lists (property C05)
-/
namespace GraphRep

abbrev SInc (l : List Int) : Prop := l.Pairwise (· < ·)

/-- strictly increasing lists with the same elements are equal -/
theorem sinc_ext {l₁ l₂ : List Int} (h₁ : SInc l₁) (h₂ : SInc l₂) (h : ∀ x, x ∈ l₁ ↔ x ∈ l₂) : l₁ = l₂ := by
  have n₁ : l₁.Nodup := h₁.imp (fun h => Int.ne_of_lt h)
  have n₂ : l₂.Nodup := h₂.imp (fun h => Int.ne_of_lt h)
  have hp := (List.perm_ext_iff_of_nodup n₁ n₂).2 h
  exact List.Perm.eq_of_pairwise (le := (· < ·)) (fun a b _ _ hab hba => by omega) h₁ h₂ hp

theorem sinc_cons {y : Int} {ys : List Int} (h : SInc (y :: ys)) : (∀ z ∈ ys, y < z) ∧ SInc ys :=
  List.pairwise_cons.mp h

/-! ### recursion equations (no sortedness needed) -/

theorem searchInts_cons (y : Int) (ys : List Int) (x : Int) :
    searchInts (y :: ys) x = if y < x then searchInts ys x + 1 else 0 := rfl

theorem containsSingle_cons (y : Int) (ys : List Int) (x : Int) :
    containsSingle (y :: ys) x = if y < x then containsSingle ys x else y == x := by
  unfold containsSingle
  rw [searchInts_cons]
  by_cases hlt : y < x
  · rw [if_pos hlt, if_pos hlt, List.getElem?_cons_succ]
  · rw [if_neg hlt, if_neg hlt, List.getElem?_cons_zero]

theorem removeS_cons (y : Int) (ys : List Int) (x : Int) :
    removeS (y :: ys) x = if y < x then y :: removeS ys x else if y = x then ys else y :: ys := by
  by_cases hlt : y < x
  · have hs : searchInts (y :: ys) x = searchInts ys x + 1 := by rw [searchInts_cons, if_pos hlt]
    rw [if_pos hlt]
    unfold removeS
    simp only [hs, List.getElem?_cons_succ, List.eraseIdx_cons_succ]
    cases ys[searchInts ys x]? with
    | none => rfl
    | some z => simp only; split <;> rfl
  · have hs : searchInts (y :: ys) x = 0 := by rw [searchInts_cons, if_neg hlt]
    rw [if_neg hlt]
    unfold removeS
    simp only [hs, List.getElem?_cons_zero, List.eraseIdx_cons_zero]

theorem addSingle_cons (y : Int) (ys : List Int) (x : Int) :
    addSingle (y :: ys) x =
      if y < x then y :: addSingle ys x else if y = x then y :: ys else x :: y :: ys := by
  by_cases hlt : y < x
  · have hs : searchInts (y :: ys) x = searchInts ys x + 1 := by rw [searchInts_cons, if_pos hlt]
    rw [if_pos hlt]
    unfold addSingle
    simp only [hs, List.getElem?_cons_succ, List.take_succ_cons, List.drop_succ_cons]
    cases ys[searchInts ys x]? with
    | none => rfl
    | some z => simp only; split <;> rfl
  · have hs : searchInts (y :: ys) x = 0 := by rw [searchInts_cons, if_neg hlt]
    rw [if_neg hlt]
    unfold addSingle
    simp only [hs, List.getElem?_cons_zero, List.take_zero, List.drop_zero, List.nil_append]

@[simp] theorem containsSingle_nil (x : Int) : containsSingle [] x = false := rfl
@[simp] theorem removeS_nil (x : Int) : removeS [] x = [] := rfl
@[simp] theorem addSingle_nil (x : Int) : addSingle [] x = [x] := rfl

/-! ### on strictly increasing lists -/

theorem containsSingle_eq {l : List Int} (h : SInc l) (x : Int) : containsSingle l x = decide (x ∈ l) := by
  induction l with
  | nil => simp
  | cons y ys ih =>
    obtain ⟨hy, hys⟩ := sinc_cons h
    rw [containsSingle_cons]
    by_cases hlt : y < x
    · rw [if_pos hlt, ih hys]
      have : x ≠ y := by omega
      simp [this]
    · rw [if_neg hlt]
      by_cases he : y = x
      · subst he; simp
      · have hnot : x ∉ ys := fun hm => by have := hy x hm; omega
        have he' : ¬ x = y := fun e => he e.symm
        simp [he, he', hnot]

theorem removeS_spec {l : List Int} (h : SInc l) (x : Int) :
    SInc (removeS l x) ∧ (∀ z, z ∈ removeS l x ↔ z ∈ l ∧ z ≠ x) ∧
      (removeS l x).length = l.length - (if x ∈ l then 1 else 0) := by
  induction l with
  | nil => simp
  | cons y ys ih =>
    obtain ⟨hy, hys⟩ := sinc_cons h
    obtain ⟨i1, i2, i3⟩ := ih hys
    rw [removeS_cons]
    by_cases hlt : y < x
    · rw [if_pos hlt]
      refine ⟨?_, ?_, ?_⟩
      · exact List.pairwise_cons.mpr ⟨fun z hz => hy z ((i2 z).mp hz).1, i1⟩
      · intro z
        simp only [List.mem_cons, i2]
        constructor
        · rintro (rfl | ⟨h1, h2⟩)
          · exact ⟨Or.inl rfl, by omega⟩
          · exact ⟨Or.inr h1, h2⟩
        · rintro ⟨rfl | h1, h2⟩
          · exact Or.inl rfl
          · exact Or.inr ⟨h1, h2⟩
      · have hxy : x ≠ y := by omega
        simp only [List.length_cons, i3, List.mem_cons, hxy, false_or]
        split
        · rename_i hm
          have : 0 < ys.length := List.length_pos_of_mem hm
          omega
        · omega
    · rw [if_neg hlt]
      by_cases he : y = x
      · subst he
        rw [if_pos rfl]
        refine ⟨hys, ?_, by simp⟩
        intro z
        simp only [List.mem_cons]
        constructor
        · intro hz; have := hy z hz; exact ⟨Or.inr hz, by omega⟩
        · rintro ⟨rfl | h1, h2⟩
          · exact absurd rfl h2
          · exact h1
      · rw [if_neg he]
        have hnot : x ∉ y :: ys := by
          simp only [List.mem_cons, not_or]
          exact ⟨fun e => he e.symm, fun hm => by have := hy x hm; omega⟩
        refine ⟨h, ?_, by simp [hnot]⟩
        intro z
        constructor
        · intro hz; exact ⟨hz, fun e => hnot (e ▸ hz)⟩
        · exact fun hz => hz.1

theorem addSingle_spec {l : List Int} (h : SInc l) (x : Int) :
    SInc (addSingle l x) ∧ (∀ z, z ∈ addSingle l x ↔ z = x ∨ z ∈ l) ∧
      (addSingle l x).length = l.length + (if x ∈ l then 0 else 1) := by
  induction l with
  | nil => simp
  | cons y ys ih =>
    obtain ⟨hy, hys⟩ := sinc_cons h
    obtain ⟨i1, i2, i3⟩ := ih hys
    rw [addSingle_cons]
    by_cases hlt : y < x
    · rw [if_pos hlt]
      refine ⟨?_, ?_, ?_⟩
      · refine List.pairwise_cons.mpr ⟨fun z hz => ?_, i1⟩
        rcases (i2 z).mp hz with rfl | hz
        · exact hlt
        · exact hy z hz
      · intro z
        simp only [List.mem_cons, i2]
        constructor
        · rintro (rfl | rfl | h1)
          · exact Or.inr (Or.inl rfl)
          · exact Or.inl rfl
          · exact Or.inr (Or.inr h1)
        · rintro (rfl | rfl | h1)
          · exact Or.inr (Or.inl rfl)
          · exact Or.inl rfl
          · exact Or.inr (Or.inr h1)
      · have hxy : x ≠ y := by omega
        simp only [List.length_cons, i3, List.mem_cons, hxy, false_or]
        omega
    · rw [if_neg hlt]
      by_cases he : y = x
      · subst he
        rw [if_pos rfl]
        refine ⟨h, ?_, by simp⟩
        intro z
        simp only [List.mem_cons]
        constructor
        · intro hz; exact Or.inr hz
        · rintro (rfl | hz)
          · exact Or.inl rfl
          · exact hz
      · rw [if_neg he]
        have hxy : x < y := by omega
        have hnot : x ∉ y :: ys := by
          simp only [List.mem_cons, not_or]
          exact ⟨fun e => he e.symm, fun hm => by have := hy x hm; omega⟩
        refine ⟨?_, ?_, by simp [hnot]⟩
        · refine List.pairwise_cons.mpr ⟨fun z hz => ?_, h⟩
          rcases List.mem_cons.mp hz with rfl | hz
          · exact hxy
          · have := hy z hz; omega
        · intro z; simp only [List.mem_cons]

end GraphRep
