import Mamba.Model.Subgraph
import Mathlib.Data.List.Basic
/-!
# `sortints.XOR` on strictly increasing lists is the symmetric difference
-/
namespace GDist
open Model

theorem sXor_nil_left (b : List Nat) : sXor [] b = b := by
  unfold sXor; rfl

theorem sXor_nil_right (a : List Nat) : sXor a [] = a := by
  cases a with
  | nil => exact sXor_nil_left []
  | cons x a => unfold sXor; rfl

theorem sXor_cons (x y : Nat) (a b : List Nat) :
    sXor (x :: a) (y :: b) =
      if x < y then x :: sXor a (y :: b) else if y < x then y :: sXor (x :: a) b else sXor a b := by
  rw [sXor]

/-- every element of the result comes from one of the arguments -/
theorem sXor_subset : ∀ (a b : List Nat) (z : Nat), z ∈ sXor a b → z ∈ a ∨ z ∈ b
  | [], b, z, h => by rw [sXor_nil_left] at h; exact .inr h
  | x :: a, [], z, h => by rw [sXor_nil_right] at h; exact .inl h
  | x :: a, y :: b, z, h => by
    rw [sXor_cons] at h
    by_cases h1 : x < y
    · simp only [h1, if_true, List.mem_cons] at h
      rcases h with h | h
      · exact .inl (by simp [h])
      · rcases sXor_subset a (y :: b) z h with h | h
        · exact .inl (List.mem_cons_of_mem _ h)
        · exact .inr h
    · by_cases h2 : y < x
      · simp only [h1, h2, if_true, if_false, List.mem_cons] at h
        rcases h with h | h
        · exact .inr (by simp [h])
        · rcases sXor_subset (x :: a) b z h with h | h
          · exact .inl h
          · exact .inr (List.mem_cons_of_mem _ h)
      · simp only [h1, h2, if_false] at h
        rcases sXor_subset a b z h with h | h
        · exact .inl (List.mem_cons_of_mem _ h)
        · exact .inr (List.mem_cons_of_mem _ h)
termination_by a b => a.length + b.length

/-- on strictly increasing lists: the result is strictly increasing and is the symmetric difference -/
theorem sXor_spec : ∀ (a b : List Nat), a.Pairwise (· < ·) → b.Pairwise (· < ·) →
    (sXor a b).Pairwise (· < ·) ∧ ∀ z, z ∈ sXor a b ↔ ((z ∈ a ∧ z ∉ b) ∨ (z ∉ a ∧ z ∈ b))
  | [], b, _, hb => by
    rw [sXor_nil_left]; exact ⟨hb, fun z => by simp⟩
  | x :: a, [], ha, _ => by
    rw [sXor_nil_right]; exact ⟨ha, fun z => by simp⟩
  | x :: a, y :: b, ha, hb => by
    obtain ⟨hxa, ha'⟩ := List.pairwise_cons.1 ha
    obtain ⟨hyb, hb'⟩ := List.pairwise_cons.1 hb
    rw [sXor_cons]
    by_cases h1 : x < y
    · simp only [h1, if_true]
      obtain ⟨ih1, ih2⟩ := sXor_spec a (y :: b) ha' hb
      have hxb : x ∉ y :: b := by
        intro hm
        rcases List.mem_cons.1 hm with h | h
        · omega
        · have := hyb x h; omega
      refine ⟨List.pairwise_cons.2 ⟨fun z hz => ?_, ih1⟩, fun z => ?_⟩
      · rcases sXor_subset a (y :: b) z hz with h | h
        · exact hxa z h
        · rcases List.mem_cons.1 h with h | h
          · omega
          · have := hyb z h; omega
      · rw [List.mem_cons, ih2 z]
        by_cases hzx : z = x
        · subst hzx
          have hza : z ∉ a := fun hm => by have := hxa z hm; omega
          simp [hza, hxb]
        · simp [hzx]
    · by_cases h2 : y < x
      · simp only [h1, h2, if_true, if_false]
        obtain ⟨ih1, ih2⟩ := sXor_spec (x :: a) b ha hb'
        have hya : y ∉ x :: a := by
          intro hm
          rcases List.mem_cons.1 hm with h | h
          · omega
          · have := hxa y h; omega
        refine ⟨List.pairwise_cons.2 ⟨fun z hz => ?_, ih1⟩, fun z => ?_⟩
        · rcases sXor_subset (x :: a) b z hz with h | h
          · rcases List.mem_cons.1 h with h | h
            · omega
            · have := hxa z h; omega
          · exact hyb z h
        · rw [List.mem_cons, ih2 z]
          by_cases hzy : z = y
          · subst hzy
            have hzb : z ∉ b := fun hm => by have := hyb z hm; omega
            simp [hzb, hya]
          · simp [hzy]
      · simp only [h1, h2, if_false]
        have hxy : x = y := by omega
        subst hxy
        obtain ⟨ih1, ih2⟩ := sXor_spec a b ha' hb'
        refine ⟨ih1, fun z => ?_⟩
        rw [ih2 z]
        by_cases hzx : z = x
        · subst hzx
          have hza : z ∉ a := fun hm => by have := hxa z hm; omega
          have hzb : z ∉ b := fun hm => by have := hyb z hm; omega
          simp [hza, hzb]
        · simp [hzx]
termination_by a b => a.length + b.length

/-- parity of any count is additive under `sXor` (no hypothesis on the lists) -/
theorem sXor_countP (p : Nat → Bool) : ∀ (a b : List Nat),
    ∃ k, (sXor a b).countP p + 2 * k = a.countP p + b.countP p
  | [], b => ⟨0, by rw [sXor_nil_left]; simp⟩
  | x :: a, [] => ⟨0, by rw [sXor_nil_right]; simp⟩
  | x :: a, y :: b => by
    rw [sXor_cons]
    by_cases h1 : x < y
    · simp only [h1, if_true]
      obtain ⟨k, hk⟩ := sXor_countP p a (y :: b)
      refine ⟨k, ?_⟩
      simp only [List.countP_cons] at hk ⊢
      omega
    · by_cases h2 : y < x
      · simp only [h1, h2, if_true, if_false]
        obtain ⟨k, hk⟩ := sXor_countP p (x :: a) b
        refine ⟨k, ?_⟩
        simp only [List.countP_cons] at hk ⊢
        omega
      · simp only [h1, h2, if_false]
        have hxy : x = y := by omega
        subst hxy
        obtain ⟨k, hk⟩ := sXor_countP p a b
        refine ⟨k + (if p x = true then 1 else 0), ?_⟩
        simp only [List.countP_cons]
        split <;> omega
termination_by a b => a.length + b.length

end GDist
