import Mamba.Lemmas.CanonFCovBackjump
/-!
# Recorded generators preserve the colouring of common ancestors; index paths determine nodes
-/
namespace CanonF

/-- the colouring of a node reached along a path refines the colouring of every ancestor monotonically -/
theorem cg_mono_take {n : Nat} {nb : Nbrs} {rf : Nat} {r : IR.St} (hnb : NbOK nb n) {vs : List Nat} (L : Nat)
    (hp : IR.IsPath (irG n nb) rf r vs) :
    IR.Mono n (nodeL n nb rf r vs L).c (IR.nodeAt (irG n nb) rf r vs).c := by
  have hp' : IR.IsPath (irG n nb) rf r (vs.take L ++ vs.drop L) := by rw [List.take_append_drop]; exact hp
  obtain ⟨hpre, hsuf⟩ := (bj_isPath_append _ r _).1 hp'
  have hnode := bj_nodeAt_append (vs.take L) r (vs.drop L) hpre
  rw [List.take_append_drop] at hnode
  have := path_mono hnb rf (vs.drop L) _ hsuf
  rw [← hnode] at this
  exact this

set_option linter.unusedVariables false in
/-- the generator `transport n o1 o2` read off two leaves preserves the colouring of every common ancestor -/
theorem recorded_gen_preserves {n : Nat} {nb : Nbrs} {rf : Nat} {r : IR.St} (hnb : NbOK nb n)
    (hA : IR.InvA (irG n nb) r) (hD : IR.InvD (irG n nb) r) {vs vsR : List Nat} {o1 o2 : List Nat} {L : Nat}
    (hp1 : IR.IsPath (irG n nb) rf r vsR) (hc1 : (IR.nodeAt (irG n nb) rf r vsR).c = IR.tab n (fun v => o1.idxOf v))
    (ho1 : o1.Perm (List.range n))
    (hp2 : IR.IsPath (irG n nb) rf r vs) (hc2 : (IR.nodeAt (irG n nb) rf r vs).c = IR.tab n (fun v => o2.idxOf v))
    (ho2 : o2.Perm (List.range n))
    (hcommon : vsR.take L = vs.take L) :
    ∀ u, u < n → IR.col (nodeL n nb rf r vs L).c ((transport n o1 o2).getD u 0) = IR.col (nodeL n nb rf r vs L).c u := by
  have hm1 := cg_mono_take hnb L hp1
  rw [nodeL_congr hcommon, hc1] at hm1
  have hm2 := cg_mono_take hnb L hp2
  rw [hc2] at hm2
  exact transport_preserves ho1 ho2 hm1 hm2

/-- `P` lists, for the levels `< L`, the index of the path vertex in the target cell of its node -/
def IdxPath (n : Nat) (nb : Nbrs) (rf : Nat) (r : IR.St) (vs : List Nat) (P : List Nat) (L : Nat) : Prop :=
  ∀ i, i < L → ∃ t j v, IR.target (irG n nb) (nodeL n nb rf r vs i) = some t ∧ vs[i]? = some v ∧
    (cellL n nb rf r vs i t)[j]? = some v ∧ P[i]? = some j

/-- two vertex paths with the same index path agree -/
theorem same_prefix_of_idx {n : Nat} {nb : Nbrs} {rf : Nat} {r : IR.St} {vs vsR P : List Nat} {L : Nat}
    (h1 : IdxPath n nb rf r vs P L) (h2 : IdxPath n nb rf r vsR P L) : vs.take L = vsR.take L := by
  induction L with
  | zero => simp
  | succ L ih =>
    have e := ih (fun i hi => h1 i (by omega)) (fun i hi => h2 i (by omega))
    obtain ⟨t, j, v, a1, a2, a3, a4⟩ := h1 L (by omega)
    obtain ⟨t', j', v', b1, b2, b3, b4⟩ := h2 L (by omega)
    have en : nodeL n nb rf r vs L = nodeL n nb rf r vsR L := nodeL_congr e
    unfold cellL at a3 b3
    rw [en] at a1 a3
    rw [a1] at b1
    cases b1
    rw [a4] at b4
    cases b4
    rw [a3] at b3
    cases b3
    rw [List.take_add_one, List.take_add_one, e, a2, b2]

end CanonF
