import Mamba.Lemmas.CanonFInv
/-!
# The hand-written stable sort of `[]keyValue` (`stable` and its helpers in `Model/CanonF.lean`)

* Part 1: every function permutes the visible part of the slice (`*_perm` / `*_same`, unconditional, from `= .ok`);
  `stable_perm`.
* Part 2: with in-range arguments nothing panics and every fuel of the model suffices (`*_total`, `stable_no_panic`);
  the `*_total` lemmas also give the index-level effect of the simple loops (`swapRange`, `rotate`, the two
  one-element insertions of `symMerge`), `bsearch_total/bsearch_spec` characterise the binary searches.
* Part 3: the sort sorts and is stable (`stable_sorted`, `stable_stable`), via `insertionSortKV_sorted`,
  `symMerge_sorted` (a stable merge of two adjacent sorted runs), `stableMergeRow_sorted`, `stableMerge_sorted`,
  `stable_spec`. `kvSeg d a b` is `data[a:b]`, `Srt` sortedness by value, `StEq` equality of all per-value sub-lists,
  `Stb a b d d'` "a stable rearrangement inside `[a, b)`, nothing else touched".
-/
namespace CanonF

/-! ## Part 1: permutation -/

/-- same length, same capacity, visible part permuted -/
def KVSame (d d' : Sl KV) : Prop := d'.len = d.len ∧ d'.data.size = d.data.size ∧ d'.toList.Perm d.toList

theorem KVSame.refl (d : Sl KV) : KVSame d d := ⟨rfl, rfl, List.Perm.refl _⟩

theorem KVSame.trans {d1 d2 d3 : Sl KV} (h1 : KVSame d1 d2) (h2 : KVSame d2 d3) : KVSame d1 d3 :=
  ⟨h2.1.trans h1.1, h2.2.1.trans h1.2.1, h2.2.2.trans h1.2.2⟩

theorem KVSame.of_swap {d d' : Sl KV} {i j : Nat} (h : d.swap i j = .ok d') : KVSame d d' := by
  obtain ⟨_, _, _, _, hl, hz, _⟩ := Sl.swap_spec h
  exact ⟨hl, hz, Sl.swap_perm h⟩

theorem insInner_same : ∀ (c j : Nat) (d d' : Sl KV), insInner c j d = .ok d' → KVSame d d' := by
  intro c
  induction c with
  | zero => intro j d d' h; simp [insInner] at h; subst h; exact KVSame.refl _
  | succ c ih =>
    intro j d d' h
    rw [insInner] at h
    osplit h
    · next d1 hs => exact (KVSame.of_swap hs).trans (ih _ _ _ h)
    · next hne => exact (hne _ h).elim
    · simp at h; subst h; exact KVSame.refl _

theorem forRange_same (f : Nat → Sl KV → Outcome (Sl KV)) (hf : ∀ i d d', f i d = .ok d' → KVSame d d')
    (k lo : Nat) (d d' : Sl KV) (h : forRange f k lo d = .ok d') : KVSame d d' :=
  forRange_inv f (fun _ s => KVSame d s) k lo d d' (KVSame.refl _) (fun i s s' _ _ hp hs => hp.trans (hf i s s' hs)) h

theorem forDown_same (f : Nat → Sl KV → Outcome (Sl KV)) (hf : ∀ i d d', f i d = .ok d' → KVSame d d')
    (k : Nat) (d d' : Sl KV) (h : forDown f k d = .ok d') : KVSame d d' :=
  forDown_inv f (fun _ s => KVSame d s) k d d' (KVSame.refl _) (fun i s s' _ hp hs => hp.trans (hf i s s' hs)) h

theorem insertionSortKV_same {d d' : Sl KV} {a b : Nat} (h : insertionSortKV d a b = .ok d') : KVSame d d' :=
  forRange_same _ (fun _ _ _ h => insInner_same _ _ _ _ h) _ _ _ _ h

theorem swapRange_same {d d' : Sl KV} {a b n : Nat} (h : swapRange d a b n = .ok d') : KVSame d d' :=
  forRange_same _ (fun _ _ _ h => KVSame.of_swap h) _ _ _ _ h

theorem rotateLoop_same (m : Nat) : ∀ (f i j : Nat) (d d' : Sl KV) (g : Nat),
    rotateLoop m f i j d = .ok (d', g) → KVSame d d' := by
  intro f
  induction f with
  | zero => intro i j d d' g h; simp [rotateLoop] at h
  | succ f ih =>
    intro i j d d' g h
    rw [rotateLoop] at h
    osplit h
    · next d1 hs => exact (swapRange_same hs).trans (ih _ _ _ _ _ h)
    · next d1 hs => exact (swapRange_same hs).trans (ih _ _ _ _ _ h)
    · simp at h; rw [h.1]; exact KVSame.refl _

theorem rotate_same {d d' : Sl KV} {a m b : Nat} (h : rotate d a m b = .ok d') : KVSame d d' := by
  unfold rotate at h
  osplit h
  next d1 i hl => exact (rotateLoop_same _ _ _ _ _ _ _ hl).trans (swapRange_same h)

theorem symMerge_same : ∀ (f : Nat) (d d' : Sl KV) (a m b : Nat), symMerge f d a m b = .ok d' → KVSame d d' := by
  intro f
  induction f with
  | zero => intro d d' a m b h; simp [symMerge] at h
  | succ f ih =>
    intro d d' a m b h
    rw [symMerge] at h
    split at h
    · osplit h
      exact forRange_same _ (fun _ _ _ h => KVSame.of_swap h) _ _ _ _ h
    · split at h
      · osplit h
        exact forDown_same _ (fun _ _ _ h => KVSame.of_swap h) _ _ _ h
      · dsimp only at h
        split at h
        · next start hb =>
          split at h
          · next d1 h1 =>
            have s1 : KVSame d d1 := by
              split at h1
              · exact rotate_same h1
              · simp at h1; subst h1; exact KVSame.refl _
            split at h
            · next d2 h2 =>
              have s2 : KVSame d1 d2 := by
                split at h2
                · exact ih _ _ _ _ _ h2
                · simp at h2; subst h2; exact KVSame.refl _
              have s3 : KVSame d2 d' := by
                split at h
                · exact ih _ _ _ _ _ h
                · simp at h; subst h; exact KVSame.refl _
              exact (s1.trans s2).trans s3
            · next hne => exact (hne _ h).elim
          · next hne => exact (hne _ h).elim
        · cases h
        · cases h

theorem stableBlocks_same (bs n : Nat) : ∀ (f a b : Nat) (d d' : Sl KV) (a' : Nat),
    stableBlocks bs n f a b d = .ok (d', a') → KVSame d d' := by
  intro f
  induction f with
  | zero => intro a b d d' a' h; simp [stableBlocks] at h
  | succ f ih =>
    intro a b d d' a' h
    rw [stableBlocks] at h
    osplit h
    · next d1 hs => exact (insertionSortKV_same hs).trans (ih _ _ _ _ _ h)
    · simp at h; rw [h.1]; exact KVSame.refl _

theorem stableMergeRow_same (bs n : Nat) : ∀ (f a b : Nat) (d d' : Sl KV) (a' : Nat),
    stableMergeRow bs n f a b d = .ok (d', a') → KVSame d d' := by
  intro f
  induction f with
  | zero => intro a b d d' a' h; simp [stableMergeRow] at h
  | succ f ih =>
    intro a b d d' a' h
    rw [stableMergeRow] at h
    osplit h
    · next d1 hs => exact (symMerge_same _ _ _ _ _ _ hs).trans (ih _ _ _ _ _ h)
    · simp at h; rw [h.1]; exact KVSame.refl _

theorem stableMerge_same (n : Nat) : ∀ (f bs : Nat) (d d' : Sl KV), stableMerge n f bs d = .ok d' → KVSame d d' := by
  intro f
  induction f with
  | zero => intro bs d d' h; simp [stableMerge] at h
  | succ f ih =>
    intro bs d d' h
    rw [stableMerge] at h
    split at h
    · split at h
      · next d1 a hr =>
        dsimp only at h
        split at h
        · next d2 h2 =>
          have s2 : KVSame d1 d2 := by
            split at h2
            · exact symMerge_same _ _ _ _ _ _ h2
            · simp at h2; subst h2; exact KVSame.refl _
          exact ((stableMergeRow_same _ _ _ _ _ _ _ _ hr).trans s2).trans (ih _ _ _ h)
        · next hne => exact (hne _ h).elim
      · cases h
      · cases h
    · simp at h; subst h; exact KVSame.refl _

theorem stable_same {d d' : Sl KV} {n : Nat} (h : stable d n = .ok d') : KVSame d d' := by
  unfold stable at h
  dsimp only at h
  split at h
  · next d1 a hb =>
    split at h
    · next d2 hi =>
      exact ((stableBlocks_same _ _ _ _ _ _ _ _ hb).trans (insertionSortKV_same hi)).trans (stableMerge_same _ _ _ _ _ h)
    · next hne => exact (hne _ h).elim
  · cases h
  · cases h

/-- `insertionSortKeyValue` permutes the slice -/
theorem insertionSortKV_perm {d d' : Sl KV} {a b : Nat} (h : insertionSortKV d a b = .ok d') :
    d'.len = d.len ∧ d'.data.size = d.data.size ∧ d'.toList.Perm d.toList := insertionSortKV_same h

theorem swapRange_perm {d d' : Sl KV} {a b n : Nat} (h : swapRange d a b n = .ok d') :
    d'.len = d.len ∧ d'.data.size = d.data.size ∧ d'.toList.Perm d.toList := swapRange_same h

theorem rotate_perm {d d' : Sl KV} {a m b : Nat} (h : rotate d a m b = .ok d') :
    d'.len = d.len ∧ d'.data.size = d.data.size ∧ d'.toList.Perm d.toList := rotate_same h

theorem symMerge_perm {f : Nat} {d d' : Sl KV} {a m b : Nat} (h : symMerge f d a m b = .ok d') :
    d'.len = d.len ∧ d'.data.size = d.data.size ∧ d'.toList.Perm d.toList := symMerge_same _ _ _ _ _ _ h

/-- `stable` permutes the visible part of the slice (any `n`, no well-formedness needed) -/
theorem stable_perm {d d' : Sl KV} {n : Nat} (h : stable d n = .ok d') :
    d'.len = d.len ∧ d'.data.size = d.data.size ∧ d'.toList.Perm d.toList := stable_same h

/-! ## Part 2: no panic, fuel suffices; index-level effect of the simple loops -/

theorem kv_ok_inj {α : Type} {x : Outcome α} {a b : α} (h1 : x = .ok a) (h2 : x = .ok b) : a = b := by
  rw [h1] at h2; exact Outcome.ok.inj h2

/-- closes goals `if … then d.data[e₁]? else … = if … then d.data[e₂]? else …` by case analysis and `omega` -/
macro "kv_idx" : tactic =>
  `(tactic| ((repeat' split) <;> first | rfl | (congr 1 <;> omega) | (exfalso; omega) |
      (exfalso; simp only [not_true_eq_false] at *; done)))

theorem swap_total {d : Sl KV} (hw : d.WF) {i j : Nat} (hi : i < d.len) (hj : j < d.len) :
    ∃ d', d.swap i j = .ok d' ∧ d'.len = d.len ∧ d'.data.size = d.data.size ∧
      ∀ k, d'.data[k]? = if k = j then d.data[i]? else if k = i then d.data[j]? else d.data[k]? := by
  obtain ⟨x, hx, hx'⟩ := Sl.get_ok_of_lt hw hi
  obtain ⟨y, hy, hy'⟩ := Sl.get_ok_of_lt hw hj
  have h1 := Sl.set_ok_of_lt hw hi y
  have hw1 : (⟨d.data.setIfInBounds i y, d.len⟩ : Sl KV).WF := Sl.set_wf hw h1
  have h2 := Sl.set_ok_of_lt hw1 (show j < _ from hj) x
  have hs : d.swap i j = .ok ⟨(d.data.setIfInBounds i y).setIfInBounds j x, d.len⟩ := by
    simp only [Sl.swap, hx, hy, h1, h2]
  obtain ⟨_, _, _, _, hl, hz, x', y', e1, e2, hd⟩ := Sl.swap_spec hs
  refine ⟨_, hs, hl, hz, ?_⟩
  intro k; rw [hd, e1, e2]

theorem swapRange_total {d : Sl KV} (hw : d.WF) {a b n : Nat} (h1 : a + n ≤ b) (h2 : b + n ≤ d.len) :
    ∃ d', swapRange d a b n = .ok d' ∧ d'.len = d.len ∧ d'.data.size = d.data.size ∧
      ∀ k, d'.data[k]? = if a ≤ k ∧ k < a + n then d.data[k + (b - a)]?
                         else if b ≤ k ∧ k < b + n then d.data[k - (b - a)]? else d.data[k]? := by
  obtain ⟨r, hr, hl, hz, hd⟩ := forRange_total (fun i (d : Sl KV) => d.swap (a + i) (b + i))
    (fun t s => s.len = d.len ∧ s.data.size = d.data.size ∧
      ∀ k, s.data[k]? = if a ≤ k ∧ k < a + t then d.data[k + (b - a)]?
                         else if b ≤ k ∧ k < b + t then d.data[k - (b - a)]? else d.data[k]?)
    n 0 d ⟨rfl, rfl, by intro k; kv_idx⟩
    (by
      intro i s _ hi ⟨sl, sz, sd⟩
      have sw : s.WF := by unfold Sl.WF at *; omega
      obtain ⟨s', hs', l', z', d'⟩ := swap_total sw (show a + i < s.len by omega) (show b + i < s.len by omega)
      refine ⟨s', hs', by omega, by omega, ?_⟩
      intro k
      rw [d']
      simp only [sd]
      kv_idx)
  refine ⟨r, hr, hl, hz, ?_⟩
  intro k; rw [hd k]; simp only [Nat.zero_add]

theorem kv_wf_of_eq {d d' : Sl KV} (hw : d.WF) (hl : d'.len = d.len) (hz : d'.data.size = d.data.size) : d'.WF := by
  unfold Sl.WF at *; omega

/-- the loop of `rotate` followed by the final `swapRange` exchanges the blocks `[m-i, m)` and `[m, m+j)` -/
theorem rotateLoop_total (m : Nat) : ∀ (f i j : Nat) (d : Sl KV), d.WF → 1 ≤ i → 1 ≤ j → i ≤ m → m + j ≤ d.len →
    i + j < f →
    ∃ d1 g d', rotateLoop m f i j d = .ok (d1, g) ∧ swapRange d1 (m - g) m g = .ok d' ∧
      d'.len = d.len ∧ d'.data.size = d.data.size ∧
      ∀ k, d'.data[k]? = if m - i ≤ k ∧ k < m - i + j then d.data[k + i]?
                         else if m - i + j ≤ k ∧ k < m + j then d.data[k - j]? else d.data[k]? := by
  intro f
  induction f with
  | zero => intro i j d _ _ _ _ _ h; omega
  | succ f ih =>
    intro i j d hw hi hj him hjl hf
    by_cases hij : i = j
    · subst hij
      obtain ⟨d', hs, hl, hz, hd⟩ := swapRange_total hw (a := m - i) (b := m) (n := i) (by omega) (by omega)
      refine ⟨d, i, d', by simp [rotateLoop], hs, hl, hz, ?_⟩
      intro k; rw [hd]; kv_idx
    · by_cases hgt : i > j
      · obtain ⟨d1, hs1, hl1, hz1, hd1⟩ := swapRange_total hw (a := m - i) (b := m) (n := j) (by omega) (by omega)
        obtain ⟨d2, g, d', hloop, hs, hl, hz, hd⟩ := ih (i - j) j d1 (kv_wf_of_eq hw hl1 hz1) (by omega) hj (by omega)
          (by omega) (by omega)
        refine ⟨d2, g, d', ?_, hs, by omega, by omega, ?_⟩
        · rw [rotateLoop]; simp only [hs1]; simp [hij, hgt, hloop]
        · intro k; rw [hd]; simp only [hd1]; kv_idx
      · obtain ⟨d1, hs1, hl1, hz1, hd1⟩ := swapRange_total hw (a := m - i) (b := m + j - i) (n := i)
          (by omega) (by omega)
        obtain ⟨d2, g, d', hloop, hs, hl, hz, hd⟩ := ih i (j - i) d1 (kv_wf_of_eq hw hl1 hz1) hi (by omega) him
          (by omega) (by omega)
        refine ⟨d2, g, d', ?_, hs, by omega, by omega, ?_⟩
        · rw [rotateLoop]; simp only [hs1]; simp [hij, hgt, hloop]
        · intro k; rw [hd]; simp only [hd1]; kv_idx

/-- `rotate(data, a, m, b)` turns `x u v y` into `x v u y` -/
theorem rotate_total {d : Sl KV} (hw : d.WF) {a m b : Nat} (h1 : a < m) (h2 : m < b) (h3 : b ≤ d.len) :
    ∃ d', rotate d a m b = .ok d' ∧ d'.len = d.len ∧ d'.data.size = d.data.size ∧
      ∀ k, d'.data[k]? = if a ≤ k ∧ k < a + (b - m) then d.data[k + (m - a)]?
                         else if a + (b - m) ≤ k ∧ k < b then d.data[k - (b - m)]? else d.data[k]? := by
  obtain ⟨d1, g, d', hloop, hs, hl, hz, hd⟩ := rotateLoop_total m ((m - a) + (b - m) + 1) (m - a) (b - m) d hw
    (by omega) (by omega) (by omega) (by omega) (by omega)
  refine ⟨d', by simp only [rotate, hloop, hs], hl, hz, ?_⟩
  intro k; rw [hd]; kv_idx

/-- the binary search loops: the result `r` is in `[i, j]`, the test holds just below `r` and fails at `r` -/
theorem bsearch_total (test : Nat → Outcome Bool) : ∀ (f i j : Nat), i ≤ j → j - i < f →
    (∀ h, i ≤ h → h < j → ∃ t, test h = .ok t) →
    ∃ r, bsearch test f i j = .ok r ∧ i ≤ r ∧ r ≤ j ∧ (i < r → test (r - 1) = .ok true) ∧
      (r < j → test r = .ok false) := by
  intro f
  induction f with
  | zero => intro i j _ h; omega
  | succ f ih =>
    intro i j hij hf ht
    rw [bsearch]
    by_cases hlt : i < j
    · simp only [hlt, if_true]
      obtain ⟨t, htt⟩ := ht ((i + j) / 2) (by omega) (by omega)
      cases t with
      | true =>
        obtain ⟨r, hr, r1, r2, r3, r4⟩ := ih ((i + j) / 2 + 1) j (by omega) (by omega)
          (fun h h1 h2 => ht h (by omega) h2)
        refine ⟨r, by simp only [htt, hr], by omega, r2, ?_, r4⟩
        intro _
        by_cases hr' : (i + j) / 2 + 1 < r
        · exact r3 hr'
        · have : r - 1 = (i + j) / 2 := by omega
          rw [this]; exact htt
      | false =>
        obtain ⟨r, hr, r1, r2, r3, r4⟩ := ih i ((i + j) / 2) (by omega) (by omega)
          (fun h h1 h2 => ht h h1 (by omega))
        refine ⟨r, by simp only [htt, hr], r1, by omega, r3, ?_⟩
        intro _
        by_cases hr' : r < (i + j) / 2
        · exact r4 hr'
        · have : r = (i + j) / 2 := by omega
          rw [this]; exact htt
    · exact ⟨i, by simp [hlt], Nat.le_refl _, hij, by omega, by omega⟩

/-- `for k := a; k < a + c; k++ { swap(k, k+1) }` moves `data[a]` up to position `a + c` -/
theorem bubbleUp_total {d : Sl KV} (hw : d.WF) {a c : Nat} (h : a + c < d.len) :
    ∃ d', forRange (fun k (d : Sl KV) => d.swap k (k + 1)) c a d = .ok d' ∧ d'.len = d.len ∧
      d'.data.size = d.data.size ∧
      ∀ k, d'.data[k]? = if a ≤ k ∧ k < a + c then d.data[k + 1]? else if k = a + c then d.data[a]? else d.data[k]? := by
  obtain ⟨r, hr, hl, hz, hd⟩ := forRange_total (fun k (d : Sl KV) => d.swap k (k + 1))
    (fun t s => s.len = d.len ∧ s.data.size = d.data.size ∧
      ∀ k, s.data[k]? = if a ≤ k ∧ k < t then d.data[k + 1]? else if k = t then d.data[a]? else d.data[k]?)
    c a d ⟨rfl, rfl, by intro k; kv_idx⟩
    (by
      intro i s h1 h2 ⟨sl, sz, sd⟩
      obtain ⟨s', hs', l', z', d'⟩ := swap_total (kv_wf_of_eq hw sl sz) (show i < s.len by omega)
        (show i + 1 < s.len by omega)
      refine ⟨s', hs', by omega, by omega, ?_⟩
      intro k
      rw [d']
      simp only [sd]
      kv_idx)
  exact ⟨r, hr, hl, hz, hd⟩

/-- `for k := i + c; k > i; k-- { swap(k, k-1) }` moves `data[i+c]` down to position `i` -/
theorem bubbleDown_total {d : Sl KV} (hw : d.WF) {i c : Nat} (h : i + c < d.len) :
    ∃ d', forDown (fun t (d : Sl KV) => d.swap (i + 1 + t) (i + t)) c d = .ok d' ∧ d'.len = d.len ∧
      d'.data.size = d.data.size ∧
      ∀ k, d'.data[k]? = if k = i then d.data[i + c]? else if i < k ∧ k ≤ i + c then d.data[k - 1]? else d.data[k]? := by
  obtain ⟨r, hr, hl, hz, hd⟩ := forDown_total (fun t (d : Sl KV) => d.swap (i + 1 + t) (i + t))
    (fun t s => s.len = d.len ∧ s.data.size = d.data.size ∧
      ∀ k, s.data[k]? = if k = i + t then d.data[i + c]? else if i + t < k ∧ k ≤ i + c then d.data[k - 1]?
                        else d.data[k]?)
    c d ⟨rfl, rfl, by intro k; kv_idx⟩
    (by
      intro t s h1 ⟨sl, sz, sd⟩
      obtain ⟨s', hs', l', z', d'⟩ := swap_total (kv_wf_of_eq hw sl sz) (show i + 1 + t < s.len by omega)
        (show i + t < s.len by omega)
      refine ⟨s', hs', by omega, by omega, ?_⟩
      intro k
      rw [d']
      simp only [sd]
      kv_idx)
  refine ⟨r, hr, hl, hz, ?_⟩
  intro k; rw [hd]; kv_idx

theorem bsearch_spec {test : Nat → Outcome Bool} {f i j r : Nat} (h : bsearch test f i j = .ok r) (hij : i ≤ j)
    (hf : j - i < f) (ht : ∀ h, i ≤ h → h < j → ∃ t, test h = .ok t) :
    i ≤ r ∧ r ≤ j ∧ (i < r → test (r - 1) = .ok true) ∧ (r < j → test r = .ok false) := by
  obtain ⟨r', hr, h1⟩ := bsearch_total test f i j hij hf ht
  rw [kv_ok_inj h hr]; exact h1

theorem bsearch_ne_panic {test : Nat → Outcome Bool} {f i j : Nat} (hij : i ≤ j)
    (hf : j - i < f) (ht : ∀ h, i ≤ h → h < j → ∃ t, test h = .ok t) : bsearch test f i j ≠ .panic := by
  obtain ⟨r', hr, h1⟩ := bsearch_total test f i j hij hf ht
  rw [hr]; intro h; cases h

theorem bsearch_ne_fuel {test : Nat → Outcome Bool} {f i j : Nat} (hij : i ≤ j)
    (hf : j - i < f) (ht : ∀ h, i ≤ h → h < j → ∃ t, test h = .ok t) : bsearch test f i j ≠ .outOfFuel := by
  obtain ⟨r', hr, h1⟩ := bsearch_total test f i j hij hf ht
  rw [hr]; intro h; cases h

theorem insInner_total : ∀ (c j : Nat) (d : Sl KV), d.WF → c ≤ j → j < d.len →
    ∃ d', insInner c j d = .ok d' ∧ d'.len = d.len ∧ d'.data.size = d.data.size := by
  intro c
  induction c with
  | zero => intro j d _ _ _; exact ⟨d, rfl, rfl, rfl⟩
  | succ c ih =>
    intro j d hw hc hj
    obtain ⟨x, hx, _⟩ := Sl.get_ok_of_lt hw hj
    obtain ⟨y, hy, _⟩ := Sl.get_ok_of_lt hw (show j - 1 < d.len by omega)
    rw [insInner]
    simp only [hx, hy]
    by_cases hlt : x.1 < y.1
    · obtain ⟨d1, hs, hl, hz, _⟩ := swap_total hw hj (show j - 1 < d.len by omega)
      obtain ⟨d', hi, hl', hz'⟩ := ih (j - 1) d1 (kv_wf_of_eq hw hl hz) (by omega) (by omega)
      exact ⟨d', by simp only [hlt, if_true, hs, hi], by omega, by omega⟩
    · exact ⟨d, by simp only [hlt, if_false], rfl, rfl⟩

theorem insertionSortKV_total {d : Sl KV} (hw : d.WF) {a b : Nat} (hb : b ≤ d.len) :
    ∃ d', insertionSortKV d a b = .ok d' ∧ d'.len = d.len ∧ d'.data.size = d.data.size := by
  obtain ⟨r, hr, hl, hz⟩ := forRange_total (fun i (d : Sl KV) => insInner (i - a) i d)
    (fun _ s => s.len = d.len ∧ s.data.size = d.data.size) (b - (a + 1)) (a + 1) d ⟨rfl, rfl⟩
    (by
      intro i s h1 h2 ⟨sl, sz⟩
      obtain ⟨s', hs', l', z'⟩ := insInner_total (i - a) i s (kv_wf_of_eq hw sl sz) (by omega) (by omega)
      exact ⟨s', hs', by omega, by omega⟩)
  exact ⟨r, hr, hl, hz⟩

/-- `symMerge` with non-degenerate in-range arguments does not panic; recursion depth `b - a` suffices -/
theorem symMerge_total : ∀ (f : Nat) (d : Sl KV) (a m b : Nat), d.WF → a < m → m < b → b ≤ d.len → b - a ≤ f →
    ∃ d', symMerge f d a m b = .ok d' ∧ d'.len = d.len ∧ d'.data.size = d.data.size := by
  intro f
  induction f with
  | zero => intro d a m b _ _ _ _ h; omega
  | succ f ih =>
    intro d a m b hw ham hmb hbl hf
    have hget : ∀ k, k < b → ∃ x, d.get k = .ok x := fun k hk =>
      let ⟨x, hx, _⟩ := Sl.get_ok_of_lt hw (show k < d.len by omega); ⟨x, hx⟩
    rw [symMerge]
    by_cases h1 : m - a = 1
    · rw [if_pos h1]
      have ht : ∀ h, m ≤ h → h < b → ∃ t, (match d.get h, d.get a with
          | .ok x, .ok y => Outcome.ok (decide (x.1 < y.1))
          | _, _ => Outcome.panic) = .ok t := by
        intro h _ h2
        obtain ⟨x, hx⟩ := hget h h2
        obtain ⟨y, hy⟩ := hget a (by omega)
        simp only [hx, hy]; exact ⟨_, rfl⟩
      split
      · next i hb =>
        obtain ⟨i1, i2, _, _⟩ := bsearch_spec hb (by omega) (by omega) ht
        obtain ⟨d', hd', hl, hz, _⟩ := bubbleUp_total hw (a := a) (c := i - 1 - a) (by omega)
        exact ⟨d', hd', hl, hz⟩
      · next hb => exact absurd hb (bsearch_ne_panic (by omega) (by omega) ht)
      · next hb => exact absurd hb (bsearch_ne_fuel (by omega) (by omega) ht)
    · rw [if_neg h1]
      by_cases h2 : b - m = 1
      · rw [if_pos h2]
        have ht : ∀ h, a ≤ h → h < m → ∃ t, (match d.get m, d.get h with
            | .ok x, .ok y => Outcome.ok (decide (x.1 ≥ y.1))
            | _, _ => Outcome.panic) = .ok t := by
          intro h _ h2
          obtain ⟨x, hx⟩ := hget m (by omega)
          obtain ⟨y, hy⟩ := hget h (by omega)
          simp only [hx, hy]; exact ⟨_, rfl⟩
        split
        · next i hb =>
          obtain ⟨i1, i2, _, _⟩ := bsearch_spec hb (by omega) (by omega) ht
          obtain ⟨d', hd', hl, hz, _⟩ := bubbleDown_total hw (i := i) (c := m - i) (by omega)
          exact ⟨d', hd', hl, hz⟩
        · next hb => exact absurd hb (bsearch_ne_panic (by omega) (by omega) ht)
        · next hb => exact absurd hb (bsearch_ne_fuel (by omega) (by omega) ht)
      · rw [if_neg h2]
        dsimp only
        generalize hmid : (a + b) / 2 = mid
        generalize hsr : (if m > mid then (mid + m - b, mid) else (a, m)) = sr
        obtain ⟨s0, r0⟩ := sr
        have hsr' : (m > mid ∧ s0 = mid + m - b ∧ r0 = mid) ∨ (m ≤ mid ∧ s0 = a ∧ r0 = m) := by
          split at hsr
          · left; simp only [Prod.mk.injEq] at hsr; omega
          · right; simp only [Prod.mk.injEq] at hsr; omega
        dsimp only
        have ht : ∀ c, s0 ≤ c → c < r0 → ∃ t, (match d.get (mid + m - 1 - c), d.get c with
            | .ok x, .ok y => Outcome.ok (decide (x.1 ≥ y.1))
            | _, _ => Outcome.panic) = .ok t := by
          intro c hc1 hc2
          obtain ⟨x, hx⟩ := hget (mid + m - 1 - c) (by omega)
          obtain ⟨y, hy⟩ := hget c (by omega)
          simp only [hx, hy]; exact ⟨_, rfl⟩
        split
        · next start hb =>
          obtain ⟨i1, i2, _, _⟩ := bsearch_spec hb (by omega) (by omega) ht
          have hr1 : ∃ d1, (if start < m ∧ m < mid + m - start then rotate d start m (mid + m - start)
              else Outcome.ok d) = .ok d1 ∧ d1.len = d.len ∧ d1.data.size = d.data.size := by
            by_cases hc : start < m ∧ m < mid + m - start
            · rw [if_pos hc]
              obtain ⟨d1, hd1, hl, hz, _⟩ := rotate_total hw hc.1 hc.2 (by omega)
              exact ⟨d1, hd1, hl, hz⟩
            · rw [if_neg hc]; exact ⟨d, rfl, rfl, rfl⟩
          obtain ⟨d1, e1, l1, z1⟩ := hr1
          rw [e1]; dsimp only
          have hr2 : ∃ d2, (if a < start ∧ start < mid then symMerge f d1 a start mid
              else Outcome.ok d1) = .ok d2 ∧ d2.len = d.len ∧ d2.data.size = d.data.size := by
            by_cases hc : a < start ∧ start < mid
            · rw [if_pos hc]
              obtain ⟨d2, hd2, hl, hz⟩ := ih d1 a start mid (kv_wf_of_eq hw l1 z1) hc.1 hc.2 (by omega) (by omega)
              exact ⟨d2, hd2, by omega, by omega⟩
            · rw [if_neg hc]; exact ⟨d1, rfl, l1, z1⟩
          obtain ⟨d2, e2, l2, z2⟩ := hr2
          rw [e2]; dsimp only
          by_cases hc : mid < mid + m - start ∧ mid + m - start < b
          · rw [if_pos hc]
            obtain ⟨d3, hd3, hl, hz⟩ := ih d2 mid (mid + m - start) b (kv_wf_of_eq hw l2 z2) hc.1 hc.2 (by omega)
              (by omega)
            exact ⟨d3, hd3, by omega, by omega⟩
          · rw [if_neg hc]; exact ⟨d2, rfl, l2, z2⟩
        · next hb => exact absurd hb (bsearch_ne_panic (by omega) (by omega) ht)
        · next hb => exact absurd hb (bsearch_ne_fuel (by omega) (by omega) ht)

theorem stableBlocks_total (bs n : Nat) (hbs : 1 ≤ bs) : ∀ (f a b : Nat) (d : Sl KV), d.WF → n ≤ d.len →
    n + 1 - b < f →
    ∃ d' a', stableBlocks bs n f a b d = .ok (d', a') ∧ d'.len = d.len ∧ d'.data.size = d.data.size := by
  intro f
  induction f with
  | zero => intro a b d _ _ h; omega
  | succ f ih =>
    intro a b d hw hn hf
    rw [stableBlocks]
    by_cases hb : b ≤ n
    · rw [if_pos hb]
      obtain ⟨d1, h1, l1, z1⟩ := insertionSortKV_total hw (a := a) (b := b) (by omega)
      rw [h1]; dsimp only
      obtain ⟨d', a', h2, l2, z2⟩ := ih b (b + bs) d1 (kv_wf_of_eq hw l1 z1) (by omega) (by omega)
      exact ⟨d', a', h2, by omega, by omega⟩
    · rw [if_neg hb]; exact ⟨d, a, rfl, rfl, rfl⟩

theorem stableMergeRow_total (bs n : Nat) (hbs : 1 ≤ bs) : ∀ (f a b : Nat) (d : Sl KV), d.WF → n ≤ d.len →
    b = a + 2 * bs → n + 1 - b < f →
    ∃ d' a', stableMergeRow bs n f a b d = .ok (d', a') ∧ d'.len = d.len ∧ d'.data.size = d.data.size := by
  intro f
  induction f with
  | zero => intro a b d _ _ _ h; omega
  | succ f ih =>
    intro a b d hw hn hab hf
    rw [stableMergeRow]
    by_cases hb : b ≤ n
    · rw [if_pos hb]
      obtain ⟨d1, h1, l1, z1⟩ := symMerge_total (n + 2) d a (a + bs) b hw (by omega) (by omega) (by omega) (by omega)
      rw [h1]; dsimp only
      obtain ⟨d', a', h2, l2, z2⟩ := ih b (b + 2 * bs) d1 (kv_wf_of_eq hw l1 z1) (by omega) rfl (by omega)
      exact ⟨d', a', h2, by omega, by omega⟩
    · rw [if_neg hb]; exact ⟨d, a, rfl, rfl, rfl⟩

theorem stableMerge_total (n : Nat) : ∀ (f bs : Nat) (d : Sl KV), d.WF → n ≤ d.len → 1 ≤ bs → n - bs < f →
    ∃ d', stableMerge n f bs d = .ok d' ∧ d'.len = d.len ∧ d'.data.size = d.data.size := by
  intro f
  induction f with
  | zero => intro bs d _ _ _ h; omega
  | succ f ih =>
    intro bs d hw hn hbs hf
    rw [stableMerge]
    by_cases hb : bs < n
    · rw [if_pos hb]
      obtain ⟨d1, a1, h1, l1, z1⟩ := stableMergeRow_total bs n hbs (n + 1) 0 (2 * bs) d hw hn (by omega) (by omega)
      rw [h1]; dsimp only
      have hr2 : ∃ d2, (if a1 + bs < n then symMerge (n + 2) d1 a1 (a1 + bs) n else Outcome.ok d1) = .ok d2 ∧
          d2.len = d.len ∧ d2.data.size = d.data.size := by
        by_cases hc : a1 + bs < n
        · rw [if_pos hc]
          obtain ⟨d2, h2, l2, z2⟩ := symMerge_total (n + 2) d1 a1 (a1 + bs) n (kv_wf_of_eq hw l1 z1) (by omega) hc
            (by omega) (by omega)
          exact ⟨d2, h2, by omega, by omega⟩
        · rw [if_neg hc]; exact ⟨d1, rfl, l1, z1⟩
      obtain ⟨d2, e2, l2, z2⟩ := hr2
      rw [e2]; dsimp only
      obtain ⟨d3, h3, l3, z3⟩ := ih (bs * 2) d2 (kv_wf_of_eq hw l2 z2) (by omega) (by omega) (by omega)
      exact ⟨d3, h3, by omega, by omega⟩
    · rw [if_neg hb]; exact ⟨d, rfl, rfl, rfl⟩

/-- on a well-formed slice `stable(data, len(data))` does not panic and every fuel of the model suffices -/
theorem stable_no_panic {d : Sl KV} (hw : d.WF) : ∃ d', stable d d.len = .ok d' := by
  unfold stable
  dsimp only
  obtain ⟨d1, a1, h1, l1, z1⟩ := stableBlocks_total 20 d.len (by omega) (d.len + 1) 0 20 d hw (Nat.le_refl _) (by omega)
  rw [h1]; dsimp only
  obtain ⟨d2, h2, l2, z2⟩ := insertionSortKV_total (kv_wf_of_eq hw l1 z1) (a := a1) (b := d.len) (by omega)
  rw [h2]; dsimp only
  obtain ⟨d3, h3, _⟩ := stableMerge_total d.len (d.len + 1) 20 d2 (kv_wf_of_eq hw (l2.trans l1) (z2.trans z1)) (by omega) (by omega) (by omega)
  exact ⟨d3, h3⟩

/-! ## Part 3: the sort sorts and is stable -/

/-! ### pure list facts -/

/-- sorted by value -/
def Srt (l : List KV) : Prop := l.Pairwise (fun x y => x.1 ≤ y.1)

/-- the sub-list of the entries with value `v` -/
def kvFilter (v : Nat) (l : List KV) : List KV := l.filter (fun x => x.1 == v)

/-- entries of equal value keep their relative order -/
def StEq (l l' : List KV) : Prop := ∀ v, kvFilter v l' = kvFilter v l

theorem fv_append (v : Nat) (l1 l2 : List KV) : kvFilter v (l1 ++ l2) = kvFilter v l1 ++ kvFilter v l2 := List.filter_append ..

theorem StEq.refl (l : List KV) : StEq l l := fun _ => rfl

theorem StEq.trans {l1 l2 l3 : List KV} (h1 : StEq l1 l2) (h2 : StEq l2 l3) : StEq l1 l3 :=
  fun v => (h2 v).trans (h1 v)

theorem StEq.append {a a' b b' : List KV} (h1 : StEq a a') (h2 : StEq b b') : StEq (a ++ b) (a' ++ b') := by
  intro v; rw [fv_append, fv_append, h1 v, h2 v]

theorem StEq.mem {l l' : List KV} (h : StEq l l') {x : KV} (hx : x ∈ l') : x ∈ l := by
  have : x ∈ kvFilter x.1 l' := by simp [kvFilter, hx]
  rw [h x.1] at this
  exact (List.mem_filter.1 this).1

theorem fv_comm (v : Nat) {l1 l2 : List KV} (h : ∀ x ∈ l1, ∀ y ∈ l2, x.1 ≠ y.1) :
    kvFilter v l1 ++ kvFilter v l2 = kvFilter v l2 ++ kvFilter v l1 := by
  by_cases hx : ∃ x ∈ l1, x.1 = v
  · obtain ⟨x, hx1, hx2⟩ := hx
    have : kvFilter v l2 = [] := by
      unfold kvFilter; rw [List.filter_eq_nil_iff]
      intro y hy; have := h x hx1 y hy; simp; omega
    simp [this]
  · have : kvFilter v l1 = [] := by
      unfold kvFilter; rw [List.filter_eq_nil_iff]
      intro x hx1; simp; intro h2; exact hx ⟨x, hx1, h2⟩
    simp [this]

theorem Srt.left {l1 l2 : List KV} (h : Srt (l1 ++ l2)) : Srt l1 := (List.pairwise_append.1 h).1
theorem Srt.right {l1 l2 : List KV} (h : Srt (l1 ++ l2)) : Srt l2 := (List.pairwise_append.1 h).2.1
theorem Srt.cross {l1 l2 : List KV} (h : Srt (l1 ++ l2)) : ∀ x ∈ l1, ∀ y ∈ l2, x.1 ≤ y.1 :=
  (List.pairwise_append.1 h).2.2

theorem Srt.nil : Srt [] := List.Pairwise.nil
theorem Srt.single (x : KV) : Srt [x] := List.pairwise_singleton _ _

theorem Srt.app {l1 l2 : List KV} (h1 : Srt l1) (h2 : Srt l2) (h : ∀ x ∈ l1, ∀ y ∈ l2, x.1 ≤ y.1) : Srt (l1 ++ l2) :=
  List.pairwise_append.2 ⟨h1, h2, h⟩

/-- the combination step of `symMerge`: `L1 L2 R1 R2 ↦ merge(L1,R1) merge(L2,R2)` -/
theorem merge_split {L1 L2 R1 R2 M1 M2 : List KV} (hL : Srt (L1 ++ L2)) (hR : Srt (R1 ++ R2))
    (h1 : ∀ x ∈ R1, ∀ y ∈ L2, x.1 < y.1) (h2 : ∀ x ∈ L1, ∀ y ∈ R2, x.1 ≤ y.1)
    (s1 : Srt M1) (s2 : Srt M2) (e1 : StEq (L1 ++ R1) M1) (e2 : StEq (L2 ++ R2) M2) :
    Srt (M1 ++ M2) ∧ StEq ((L1 ++ L2) ++ (R1 ++ R2)) (M1 ++ M2) := by
  constructor
  · apply Srt.app s1 s2
    intro x hx y hy
    have hx' := e1.mem hx
    have hy' := e2.mem hy
    rw [List.mem_append] at hx' hy'
    rcases hx' with hx' | hx' <;> rcases hy' with hy' | hy'
    · exact hL.cross x hx' y hy'
    · exact h2 x hx' y hy'
    · exact Nat.le_of_lt (h1 x hx' y hy')
    · exact hR.cross x hx' y hy'
  · intro v
    rw [fv_append, e1 v, e2 v]
    simp only [fv_append, List.append_assoc]
    congr 1
    rw [← List.append_assoc, ← List.append_assoc]
    congr 1
    apply fv_comm
    intro x hx y hy
    have := h1 x hx y hy
    omega

/-! ### segments of a slice -/

/-- `data[a:b]` as a list -/
def kvSeg (d : Sl KV) (a b : Nat) : List KV := (d.data.toList.drop a).take (b - a)

theorem seg_getElem? (d : Sl KV) (a b i : Nat) : (kvSeg d a b)[i]? = if i < b - a then d.data[a + i]? else none := by
  simp only [kvSeg, List.getElem?_take, List.getElem?_drop, Array.getElem?_toList]

theorem seg_length {d : Sl KV} {a b : Nat} (hb : b ≤ d.data.size) : (kvSeg d a b).length = b - a := by
  simp only [kvSeg, List.length_take, List.length_drop, Array.length_toList]; omega

theorem seg_nil {d : Sl KV} {a b : Nat} (h : b ≤ a) : kvSeg d a b = [] := by
  simp [kvSeg, Nat.sub_eq_zero_of_le h]

theorem seg_eq_of {d d' : Sl KV} {a b a' b' : Nat} (hn : b' - a' = b - a)
    (h : ∀ i, i < b - a → d'.data[a' + i]? = d.data[a + i]?) : kvSeg d' a' b' = kvSeg d a b := by
  apply List.ext_getElem?
  intro i
  rw [seg_getElem?, seg_getElem?, hn]
  split
  · exact h i ‹_›
  · rfl

theorem seg_append {d : Sl KV} {a m b : Nat} (h1 : a ≤ m) (h2 : m ≤ b) (h3 : b ≤ d.data.size) :
    kvSeg d a b = kvSeg d a m ++ kvSeg d m b := by
  apply List.ext_getElem?
  intro i
  rw [List.getElem?_append, seg_length (by omega), seg_getElem?, seg_getElem?, seg_getElem?]
  kv_idx

theorem seg_single {d : Sl KV} {a : Nat} {x : KV} (hx : d.data[a]? = some x) : kvSeg d a (a + 1) = [x] := by
  apply List.ext_getElem?
  intro i
  rw [seg_getElem?]
  cases i with
  | zero => simp [hx]
  | succ i => simp

theorem seg_snoc {d : Sl KV} {a b : Nat} {x : KV} (hab : a ≤ b) (hb : b < d.data.size) (hx : d.data[b]? = some x) :
    kvSeg d a (b + 1) = kvSeg d a b ++ [x] := by
  rw [seg_append hab (Nat.le_succ b) hb, seg_single hx]

theorem toList_eq_seg (d : Sl KV) : d.toList = kvSeg d 0 d.len := by
  simp [Sl.toList, kvSeg]

theorem mem_seg {d : Sl KV} {a b : Nat} {x : KV} :
    x ∈ kvSeg d a b ↔ ∃ k, a ≤ k ∧ k < b ∧ d.data[k]? = some x := by
  rw [List.mem_iff_getElem?]
  constructor
  · rintro ⟨i, hi⟩
    rw [seg_getElem?] at hi
    split at hi
    · exact ⟨a + i, by omega, by omega, hi⟩
    · cases hi
  · rintro ⟨k, h1, h2, h3⟩
    refine ⟨k - a, ?_⟩
    rw [seg_getElem?, if_pos (by omega), show a + (k - a) = k by omega]; exact h3

/-- index form of sortedness of a segment -/
theorem Srt.le_of_seg {d : Sl KV} {a b : Nat} (h : Srt (kvSeg d a b)) {i j : Nat} {x y : KV}
    (hi : a ≤ i) (hij : i ≤ j) (hj : j < b) (hx : d.data[i]? = some x) (hy : d.data[j]? = some y) : x.1 ≤ y.1 := by
  by_cases he : i = j
  · subst he; rw [hx] at hy; cases hy; exact Nat.le_refl _
  · have h1 : (kvSeg d a b)[i - a]? = some x := by
      rw [seg_getElem?, if_pos (by omega), show a + (i - a) = i by omega]; exact hx
    have h2 : (kvSeg d a b)[j - a]? = some y := by
      rw [seg_getElem?, if_pos (by omega), show a + (j - a) = j by omega]; exact hy
    obtain ⟨l1, e1⟩ := List.getElem?_eq_some_iff.1 h1
    obtain ⟨l2, e2⟩ := List.getElem?_eq_some_iff.1 h2
    have := List.pairwise_iff_getElem.1 h (i - a) (j - a) l1 l2 (by omega)
    rw [e1, e2] at this; exact this

theorem Srt.of_length_le_one {l : List KV} (h : l.length ≤ 1) : Srt l := by
  match l, h with
  | [], _ => exact Srt.nil
  | [x], _ => exact Srt.single x
  | _ :: _ :: _, h => simp at h

/-! ### the effect of a stable step on the region `[a, b)` -/

structure Stb (a b : Nat) (d d' : Sl KV) : Prop where
  len : d'.len = d.len
  size : d'.data.size = d.data.size
  frame : ∀ k, k < a ∨ b ≤ k → d'.data[k]? = d.data[k]?
  steq : StEq (kvSeg d a b) (kvSeg d' a b)

theorem Stb.refl (a b : Nat) (d : Sl KV) : Stb a b d d := ⟨rfl, rfl, fun _ _ => rfl, StEq.refl _⟩

theorem Stb.trans {a b : Nat} {d1 d2 d3 : Sl KV} (h1 : Stb a b d1 d2) (h2 : Stb a b d2 d3) : Stb a b d1 d3 :=
  ⟨h2.len.trans h1.len, h2.size.trans h1.size, fun k hk => (h2.frame k hk).trans (h1.frame k hk),
    h1.steq.trans h2.steq⟩

/-- segments outside the region are untouched -/
theorem Stb.seg_out {a b : Nat} {d d' : Sl KV} (h : Stb a b d d') {x y : Nat} (hxy : y ≤ a ∨ b ≤ x) :
    kvSeg d' x y = kvSeg d x y := by
  apply seg_eq_of rfl
  intro i hi
  apply h.frame
  omega

theorem Stb.mono {a b a' b' : Nat} {d d' : Sl KV} (h : Stb a b d d') (h1 : a' ≤ a) (hab : a ≤ b) (h2 : b ≤ b')
    (h3 : b' ≤ d.data.size) : Stb a' b' d d' := by
  refine ⟨h.len, h.size, fun k hk => h.frame k (by omega), ?_⟩
  have h3' : b' ≤ d'.data.size := by rw [h.size]; exact h3
  rw [seg_append (show a' ≤ a from h1) (show a ≤ b' by omega) h3, seg_append hab h2 h3,
    seg_append (show a' ≤ a from h1) (show a ≤ b' by omega) h3', seg_append hab h2 h3',
    h.seg_out (Or.inl (Nat.le_refl _)), h.seg_out (Or.inr (Nat.le_refl _))]
  exact (StEq.refl _).append (h.steq.append (StEq.refl _))

theorem Stb.wf {a b : Nat} {d d' : Sl KV} (h : Stb a b d d') (hw : d.WF) : d'.WF := kv_wf_of_eq hw h.len h.size

/-! ### insertion sort -/

theorem insInner_sorted : ∀ (c j : Nat) (d d' : Sl KV), insInner c j d = .ok d' → d.WF → c ≤ j → j < d.len →
    Srt (kvSeg d (j - c) j) → Stb (j - c) (j + 1) d d' ∧ Srt (kvSeg d' (j - c) (j + 1)) := by
  intro c
  induction c with
  | zero =>
    intro j d d' h hw _ hj _
    simp [insInner] at h; subst h
    refine ⟨Stb.refl _ _ _, Srt.of_length_le_one ?_⟩
    rw [seg_length (by unfold Sl.WF at hw; omega)]; omega
  | succ c ih =>
    intro j d d' h hw hc hj hs
    have hz : d.len ≤ d.data.size := hw
    obtain ⟨x, hx, hx'⟩ := Sl.get_ok_of_lt hw hj
    obtain ⟨y, hy, hy'⟩ := Sl.get_ok_of_lt hw (show j - 1 < d.len by omega)
    -- the sorted prefix is `A ++ [y]`
    have hA : kvSeg d (j - (c + 1)) j = kvSeg d (j - (c + 1)) (j - 1) ++ [y] := by
      have := seg_snoc (d := d) (a := j - (c + 1)) (b := j - 1) (by omega) (by omega) hy'
      rw [show j - 1 + 1 = j by omega] at this; exact this
    have hAll : kvSeg d (j - (c + 1)) (j + 1) = kvSeg d (j - (c + 1)) (j - 1) ++ [y] ++ [x] := by
      rw [seg_snoc (by omega) (by omega) hx', hA]
    rw [hA] at hs
    rw [insInner] at h
    simp only [hx, hy] at h
    by_cases hlt : x.1 < y.1
    · obtain ⟨d1, hsw, l1, z1, sp1⟩ := swap_total hw hj (show j - 1 < d.len by omega)
      simp only [hlt, if_true, hsw] at h
      have hw1 := kv_wf_of_eq hw l1 z1
      have e2 : j - 1 - c = j - (c + 1) := by omega
      have hA1 : kvSeg d1 (j - (c + 1)) (j - 1) = kvSeg d (j - (c + 1)) (j - 1) := by
        apply seg_eq_of rfl
        intro i hi
        rw [sp1]; kv_idx
      obtain ⟨st, so⟩ := ih (j - 1) d1 d' h hw1 (by omega) (by omega) (by rw [e2, hA1]; exact hs.left)
      rw [show j - 1 + 1 = j by omega, e2] at st so
      have hA1' : kvSeg d1 (j - (c + 1)) j = kvSeg d (j - (c + 1)) (j - 1) ++ [x] := by
        have := seg_snoc (d := d1) (a := j - (c + 1)) (b := j - 1) (x := x) (by omega) (by omega)
          (by rw [sp1]; kv_idx)
        rw [show j - 1 + 1 = j by omega, hA1] at this
        exact this
      have hlast : d'.data[j]? = some y := by
        rw [st.frame j (by omega), sp1, if_neg (by omega), if_pos rfl]; exact hy'
      have hAll' : kvSeg d' (j - (c + 1)) (j + 1) = kvSeg d' (j - (c + 1)) j ++ [y] :=
        seg_snoc (by omega) (by rw [st.size, z1]; omega) hlast
      have hsteq := st.steq
      rw [hA1'] at hsteq
      refine ⟨⟨st.len.trans l1, st.size.trans z1, ?_, ?_⟩, ?_⟩
      · intro k hk
        rw [st.frame k (by omega), sp1]; kv_idx
      · rw [hAll, hAll']
        intro v
        rw [fv_append, hsteq v]
        simp only [fv_append, List.append_assoc]
        congr 1
        apply fv_comm
        intro p hp q hq
        simp only [List.mem_singleton] at hp hq
        subst hp; subst hq; omega
      · rw [hAll']
        apply Srt.app so (Srt.single _)
        intro p hp q hq
        simp only [List.mem_singleton] at hq
        subst hq
        have := hsteq.mem hp
        rw [List.mem_append] at this
        rcases this with hp' | hp'
        · exact hs.cross p hp' q (by simp)
        · simp only [List.mem_singleton] at hp'; subst hp'; omega
    · simp only [hlt, if_false] at h
      cases h
      refine ⟨Stb.refl _ _ _, ?_⟩
      rw [hAll]
      apply Srt.app hs (Srt.single _)
      intro p hp q hq
      simp only [List.mem_singleton] at hq
      subst hq
      rw [List.mem_append] at hp
      rcases hp with hp' | hp'
      · have := hs.cross p hp' y (by simp); omega
      · simp only [List.mem_singleton] at hp'; subst hp'; omega

theorem insertionSortKV_sorted {d d' : Sl KV} {a b : Nat} (h : insertionSortKV d a b = .ok d') (hw : d.WF)
    (hab : a ≤ b) (hb : b ≤ d.len) : Stb a b d d' ∧ Srt (kvSeg d' a b) := by
  have hz : d.len ≤ d.data.size := hw
  have := forRange_inv (fun i (d : Sl KV) => insInner (i - a) i d)
    (fun i s => Stb a b d s ∧ Srt (kvSeg s a (min i b))) (b - (a + 1)) (a + 1) d d'
    ⟨Stb.refl _ _ _, Srt.of_length_le_one (by rw [seg_length (by omega)]; omega)⟩
    (by
      intro i s s' h1 h2 ⟨st, so⟩ hs
      have hws := st.wf hw
      rw [show min i b = i by omega] at so
      obtain ⟨st', so'⟩ := insInner_sorted (i - a) i s s' hs hws (by omega) (by rw [st.len]; omega)
        (by rw [show i - (i - a) = a by omega]; exact so)
      rw [show i - (i - a) = a by omega] at st' so'
      refine ⟨st.trans (st'.mono (Nat.le_refl _) (by omega) (by omega) (by rw [st.size]; omega)), ?_⟩
      rw [show min (i + 1) b = i + 1 by omega]; exact so')
    h
  obtain ⟨st, so⟩ := this
  rw [show min (a + 1 + (b - (a + 1))) b = b by omega] at so
  exact ⟨st, so⟩

/-! ### `symMerge` -/

/-- the case `m - a = 1` of `symMerge`: `data[a]` is inserted into `data[m:b]` before position `i` -/
theorem symMerge_left_one {d d' : Sl KV} {a m b i : Nat} (hw : d.WF) (h1 : m = a + 1) (hmb : m < b) (hbl : b ≤ d.len)
    (i1 : m ≤ i) (i2 : i ≤ b)
    (hd : forRange (fun k (d : Sl KV) => d.swap k (k + 1)) (i - 1 - a) a d = .ok d')
    (c1 : m < i → ∀ u x, d.data[i - 1]? = some u → d.data[a]? = some x → u.1 < x.1)
    (c2 : i < b → ∀ u x, d.data[i]? = some u → d.data[a]? = some x → x.1 ≤ u.1)
    (hR : Srt (kvSeg d m b)) : Stb a b d d' ∧ Srt (kvSeg d' a b) := by
  have hz : d.len ≤ d.data.size := hw
  obtain ⟨d'', hd'', hl, hsz, sp⟩ := bubbleUp_total hw (a := a) (c := i - 1 - a) (by omega)
  cases kv_ok_inj hd hd''
  obtain ⟨x, _, hx⟩ := Sl.get_ok_of_lt hw (show a < d.len by omega)
  have eR1 : kvSeg d' a (i - 1) = kvSeg d m i := by
    apply seg_eq_of (by omega)
    intro t ht; rw [sp]; kv_idx
  have ex : d'.data[i - 1]? = some x := by
    rw [sp, if_neg (by omega), if_pos (by omega)]; exact hx
  have eR2 : kvSeg d' i b = kvSeg d i b := by
    apply seg_eq_of rfl
    intro t ht; rw [sp]; kv_idx
  have ex' : kvSeg d' (i - 1) i = [x] := by
    have := seg_single (d := d') (a := i - 1) ex
    rw [show i - 1 + 1 = i by omega] at this; exact this
  have e' : kvSeg d' a b = kvSeg d m i ++ ([x] ++ kvSeg d i b) := by
    rw [seg_append (show a ≤ i - 1 by omega) (show i - 1 ≤ b by omega) (by omega),
      seg_append (show i - 1 ≤ i by omega) i2 (by omega), eR1, ex', eR2]
  have e0 : kvSeg d a b = ([] ++ [x]) ++ (kvSeg d m i ++ kvSeg d i b) := by
    rw [seg_append (show a ≤ m by omega) (show m ≤ b by omega) (by omega), seg_append i1 i2 (by omega)]
    subst h1
    rw [seg_single hx]; rfl
  rw [seg_append i1 i2 (by omega)] at hR
  have := merge_split (L1 := []) (L2 := [x]) (R1 := kvSeg d m i) (R2 := kvSeg d i b) (M1 := kvSeg d m i)
    (M2 := [x] ++ kvSeg d i b) (Srt.single x) hR
    (by
      intro p hp q hq
      simp only [List.mem_singleton] at hq; subst hq
      obtain ⟨k, k1, k2, k3⟩ := mem_seg.1 hp
      obtain ⟨u, _, hu⟩ := Sl.get_ok_of_lt hw (show i - 1 < d.len by omega)
      have h3 := c1 (by omega) u q hu hx
      have h4 : p.1 ≤ u.1 := by
        rw [← seg_append i1 i2 (by omega)] at hR
        exact hR.le_of_seg k1 (by omega) (by omega) k3 hu
      omega)
    (by intro p hp; simp at hp)
    hR.left
    (by
      apply Srt.app (Srt.single x) hR.right
      intro p hp q hq
      simp only [List.mem_singleton] at hp; subst hp
      obtain ⟨k, k1, k2, k3⟩ := mem_seg.1 hq
      obtain ⟨u, _, hu⟩ := Sl.get_ok_of_lt hw (show i < d.len by omega)
      have h3 := c2 (by omega) u p hu hx
      have h4 : u.1 ≤ q.1 := by
        rw [← seg_append i1 i2 (by omega)] at hR
        exact hR.le_of_seg i1 k1 k2 hu k3
      omega)
    (StEq.refl _) (StEq.refl _)
  rw [← e', ← e0] at this
  refine ⟨⟨hl, hsz, ?_, this.2⟩, this.1⟩
  intro k hk
  rw [sp]; kv_idx

/-- the case `b - m = 1` of `symMerge`: `data[m]` is inserted into `data[a:m]` at position `i` -/
theorem symMerge_right_one {d d' : Sl KV} {a m b i : Nat} (hw : d.WF) (ham : a < m) (h2 : b = m + 1) (hbl : b ≤ d.len)
    (i1 : a ≤ i) (i2 : i ≤ m)
    (hd : forDown (fun t (d : Sl KV) => d.swap (i + 1 + t) (i + t)) (m - i) d = .ok d')
    (c1 : a < i → ∀ y u, d.data[m]? = some y → d.data[i - 1]? = some u → u.1 ≤ y.1)
    (c2 : i < m → ∀ y u, d.data[m]? = some y → d.data[i]? = some u → y.1 < u.1)
    (hL : Srt (kvSeg d a m)) : Stb a b d d' ∧ Srt (kvSeg d' a b) := by
  have hz : d.len ≤ d.data.size := hw
  obtain ⟨d'', hd'', hl, hsz, sp⟩ := bubbleDown_total hw (i := i) (c := m - i) (by omega)
  cases kv_ok_inj hd hd''
  obtain ⟨y, _, hy⟩ := Sl.get_ok_of_lt hw (show m < d.len by omega)
  have eL1 : kvSeg d' a i = kvSeg d a i := by
    apply seg_eq_of rfl
    intro t ht; rw [sp]; kv_idx
  have ey : d'.data[i]? = some y := by
    rw [sp, if_pos rfl, show i + (m - i) = m by omega]; exact hy
  have eL2 : kvSeg d' (i + 1) b = kvSeg d i m := by
    apply seg_eq_of (by omega)
    intro t ht; rw [sp]; kv_idx
  have e' : kvSeg d' a b = (kvSeg d a i ++ [y]) ++ kvSeg d i m := by
    rw [seg_append (show a ≤ i by omega) (show i ≤ b by omega) (by omega),
      seg_append (show i ≤ i + 1 by omega) (show i + 1 ≤ b by omega) (by omega), eL1, seg_single ey, eL2,
      List.append_assoc]
  have e0 : kvSeg d a b = (kvSeg d a i ++ kvSeg d i m) ++ ([y] ++ []) := by
    rw [seg_append (show a ≤ m by omega) (show m ≤ b by omega) (by omega), seg_append i1 i2 (by omega)]
    subst h2
    rw [seg_single hy]; rfl
  rw [seg_append i1 i2 (by omega)] at hL
  have := merge_split (L1 := kvSeg d a i) (L2 := kvSeg d i m) (R1 := [y]) (R2 := []) (M1 := kvSeg d a i ++ [y])
    (M2 := kvSeg d i m) hL (Srt.single y)
    (by
      intro p hp q hq
      simp only [List.mem_singleton] at hp; subst hp
      obtain ⟨k, k1, k2, k3⟩ := mem_seg.1 hq
      obtain ⟨u, _, hu⟩ := Sl.get_ok_of_lt hw (show i < d.len by omega)
      have h3 := c2 (by omega) p u hy hu
      have h4 : u.1 ≤ q.1 := by
        rw [← seg_append i1 i2 (by omega)] at hL
        exact hL.le_of_seg i1 k1 k2 hu k3
      omega)
    (by intro p _ q hq; simp at hq)
    (by
      apply Srt.app hL.left (Srt.single y)
      intro p hp q hq
      simp only [List.mem_singleton] at hq; subst hq
      obtain ⟨k, k1, k2, k3⟩ := mem_seg.1 hp
      obtain ⟨u, _, hu⟩ := Sl.get_ok_of_lt hw (show i - 1 < d.len by omega)
      have h3 := c1 (by omega) q u hy hu
      have h4 : p.1 ≤ u.1 := by
        rw [← seg_append i1 i2 (by omega)] at hL
        exact hL.le_of_seg k1 (by omega) (by omega) k3 hu
      omega)
    hL.right
    (StEq.refl _) (by rw [List.append_nil]; exact StEq.refl _)
  rw [← e', ← e0] at this
  refine ⟨⟨hl, hsz, ?_, this.2⟩, this.1⟩
  intro k hk
  rw [sp]; kv_idx

/-- the four segments after the rotation step of `symMerge` -/
theorem rot_segs {d d1 : Sl KV} {a start mid m e b : Nat} (h2 : start ≤ mid) (hm1 : start ≤ m)
    (hm2 : m ≤ e) (hme : e - m = mid - start)
    (sp : ∀ k, d1.data[k]? = if start ≤ k ∧ k < mid then d.data[k + (m - start)]?
                             else if mid ≤ k ∧ k < e then d.data[k - (e - m)]? else d.data[k]?) :
    kvSeg d1 a start = kvSeg d a start ∧ kvSeg d1 start mid = kvSeg d m e ∧ kvSeg d1 mid e = kvSeg d start m ∧
      kvSeg d1 e b = kvSeg d e b := by
  refine ⟨?_, ?_, ?_, ?_⟩
  · apply seg_eq_of rfl
    intro t ht; rw [sp]; kv_idx
  · apply seg_eq_of (by omega)
    intro t ht; rw [sp]; kv_idx
  · apply seg_eq_of (by omega)
    intro t ht; rw [sp]; kv_idx
  · apply seg_eq_of rfl
    intro t ht; rw [sp]; kv_idx

/-- glueing the two recursive calls of `symMerge` -/
theorem symMerge_glue {d d1 d2 d3 : Sl KV} {a start mid m e b : Nat} (hw : d.WF) (hbl : b ≤ d.len)
    (g1 : a ≤ start) (g2 : start ≤ mid) (g3 : mid ≤ e) (g4 : e ≤ b) (hm1 : start ≤ m) (hm2 : m ≤ e)
    (hme : e - m = mid - start) (l1 : d1.len = d.len) (z1 : d1.data.size = d.data.size)
    (sp : ∀ k, d1.data[k]? = if start ≤ k ∧ k < mid then d.data[k + (m - start)]?
                             else if mid ≤ k ∧ k < e then d.data[k - (e - m)]? else d.data[k]?)
    (st2 : Stb a mid d1 d2) (so2 : Srt (kvSeg d2 a mid)) (st3 : Stb mid b d2 d3) (so3 : Srt (kvSeg d3 mid b))
    (hL : Srt (kvSeg d a m)) (hR : Srt (kvSeg d m b))
    (x1 : ∀ x ∈ kvSeg d m e, ∀ y ∈ kvSeg d start m, x.1 < y.1)
    (x2 : ∀ x ∈ kvSeg d a start, ∀ y ∈ kvSeg d e b, x.1 ≤ y.1) :
    Stb a b d d3 ∧ Srt (kvSeg d3 a b) := by
  have hz : d.len ≤ d.data.size := hw
  obtain ⟨s1, s2, s3, s4⟩ := rot_segs (a := a) (b := b) g2 hm1 hm2 hme sp
  have z2 : d2.data.size = d.data.size := st2.size.trans z1
  have z3 : d3.data.size = d.data.size := st3.size.trans z2
  have eM1 : kvSeg d3 a mid = kvSeg d2 a mid := st3.seg_out (Or.inl (Nat.le_refl _))
  have e1 : StEq (kvSeg d a start ++ kvSeg d m e) (kvSeg d3 a mid) := by
    have := st2.steq
    rw [seg_append g1 g2 (by omega), s1, s2] at this
    rw [eM1]; exact this
  have e2 : StEq (kvSeg d start m ++ kvSeg d e b) (kvSeg d3 mid b) := by
    have := st3.steq
    rw [st2.seg_out (Or.inr (Nat.le_refl _)), seg_append g3 g4 (by omega), s3, s4] at this
    exact this
  rw [seg_append g1 hm1 (by omega)] at hL
  rw [seg_append hm2 g4 (by omega)] at hR
  have := merge_split hL hR x1 x2 (by rw [eM1]; exact so2) so3 e1 e2
  rw [← seg_append g1 hm1 (by omega), ← seg_append hm2 g4 (by omega),
    ← seg_append (show a ≤ m by omega) (show m ≤ b by omega) (by omega),
    ← seg_append (show a ≤ mid by omega) (show mid ≤ b by omega) (by omega)] at this
  refine ⟨⟨(st3.len.trans st2.len).trans l1, z3, ?_, this.2⟩, this.1⟩
  intro k hk
  rw [st3.frame k (by omega), st2.frame k (by omega), sp]; kv_idx

/-- `symMerge` merges two adjacent sorted runs stably -/
theorem symMerge_sorted : ∀ (f : Nat) (d d' : Sl KV) (a m b : Nat), symMerge f d a m b = .ok d' → d.WF →
    a < m → m < b → b ≤ d.len → Srt (kvSeg d a m) → Srt (kvSeg d m b) → Stb a b d d' ∧ Srt (kvSeg d' a b) := by
  intro f
  induction f with
  | zero => intro d d' a m b h; simp [symMerge] at h
  | succ f ih =>
    intro d d' a m b h hw ham hmb hbl hL hR
    have hz : d.len ≤ d.data.size := hw
    have hget : ∀ k, k < b → ∃ x, d.get k = .ok x := fun k hk =>
      let ⟨x, hx, _⟩ := Sl.get_ok_of_lt hw (show k < d.len by omega); ⟨x, hx⟩
    have hg : ∀ {k : Nat} {x : KV}, k < b → d.data[k]? = some x → d.get k = .ok x := fun hk hx =>
      Sl.get_eq_ok.2 ⟨by omega, hx⟩
    rw [symMerge] at h
    by_cases h1 : m - a = 1
    · rw [if_pos h1] at h
      have ht : ∀ h, m ≤ h → h < b → ∃ t, (match d.get h, d.get a with
          | .ok x, .ok y => Outcome.ok (decide (x.1 < y.1))
          | _, _ => Outcome.panic) = .ok t := by
        intro h _ h2
        obtain ⟨x, hx⟩ := hget h h2
        obtain ⟨y, hy⟩ := hget a (by omega)
        simp only [hx, hy]; exact ⟨_, rfl⟩
      split at h
      · next i hb =>
        obtain ⟨i1, i2, i3, i4⟩ := bsearch_spec hb (by omega) (by omega) ht
        refine symMerge_left_one hw (by omega) hmb hbl i1 i2 h ?_ ?_ hR
        · intro hi u x hu hx
          have := i3 hi
          simp [hg (by omega) hu, hg (by omega) hx] at this; exact this
        · intro hi u x hu hx
          have := i4 hi
          simp [hg (by omega) hu, hg (by omega) hx] at this; exact this
      · cases h
      · cases h
    · rw [if_neg h1] at h
      by_cases h2 : b - m = 1
      · rw [if_pos h2] at h
        have ht : ∀ h, a ≤ h → h < m → ∃ t, (match d.get m, d.get h with
            | .ok x, .ok y => Outcome.ok (decide (x.1 ≥ y.1))
            | _, _ => Outcome.panic) = .ok t := by
          intro h _ h2
          obtain ⟨x, hx⟩ := hget m (by omega)
          obtain ⟨y, hy⟩ := hget h (by omega)
          simp only [hx, hy]; exact ⟨_, rfl⟩
        split at h
        · next i hb =>
          obtain ⟨i1, i2, i3, i4⟩ := bsearch_spec hb (by omega) (by omega) ht
          refine symMerge_right_one hw ham (by omega) hbl i1 i2 h ?_ ?_ hL
          · intro hi y u hy hu
            have := i3 hi
            simp [hg (by omega) hu, hg (by omega) hy] at this; exact this
          · intro hi y u hy hu
            have := i4 hi
            simp [hg (by omega) hu, hg (by omega) hy] at this; exact this
        · cases h
        · cases h
      · rw [if_neg h2] at h
        dsimp only at h
        generalize hmid : (a + b) / 2 = mid at h
        generalize hsr : (if m > mid then (mid + m - b, mid) else (a, m)) = sr at h
        obtain ⟨s0, r0⟩ := sr
        have hsr' : (m > mid ∧ s0 = mid + m - b ∧ r0 = mid) ∨ (m ≤ mid ∧ s0 = a ∧ r0 = m) := by
          split at hsr
          · left; simp only [Prod.mk.injEq] at hsr; omega
          · right; simp only [Prod.mk.injEq] at hsr; omega
        dsimp only at h
        have ht : ∀ c, s0 ≤ c → c < r0 → ∃ t, (match d.get (mid + m - 1 - c), d.get c with
            | .ok x, .ok y => Outcome.ok (decide (x.1 ≥ y.1))
            | _, _ => Outcome.panic) = .ok t := by
          intro c hc1 hc2
          obtain ⟨x, hx⟩ := hget (mid + m - 1 - c) (by omega)
          obtain ⟨y, hy⟩ := hget c (by omega)
          simp only [hx, hy]; exact ⟨_, rfl⟩
        split at h
        · next start hb =>
          obtain ⟨i1, i2, i3, i4⟩ := bsearch_spec hb (by omega) (by omega) ht
          have hr1 : ∃ d1, (if start < m ∧ m < mid + m - start then rotate d start m (mid + m - start)
              else Outcome.ok d) = .ok d1 ∧ d1.len = d.len ∧ d1.data.size = d.data.size ∧
              ∀ k, d1.data[k]? = if start ≤ k ∧ k < mid then d.data[k + (m - start)]?
                else if mid ≤ k ∧ k < mid + m - start then d.data[k - (mid + m - start - m)]? else d.data[k]? := by
            by_cases hc : start < m ∧ m < mid + m - start
            · rw [if_pos hc]
              obtain ⟨d1, hd1, hl, hz, sp⟩ := rotate_total hw hc.1 hc.2 (by omega)
              refine ⟨d1, hd1, hl, hz, ?_⟩
              intro k; rw [sp]; kv_idx
            · rw [if_neg hc]
              refine ⟨d, rfl, rfl, rfl, ?_⟩
              intro k; kv_idx
          obtain ⟨d1, e1, l1, z1, sp⟩ := hr1
          rw [e1] at h; dsimp only at h
          have g1 : a ≤ start := by omega
          have g2 : start ≤ mid := by omega
          have g3 : mid ≤ mid + m - start := by omega
          have g4 : mid + m - start ≤ b := by omega
          have hm1 : start ≤ m := by omega
          have hm2 : m ≤ mid + m - start := by omega
          obtain ⟨s1, s2, s3, s4⟩ := rot_segs (a := a) (b := b) g2 hm1 hm2 (by omega) sp
          have hw1 := kv_wf_of_eq hw l1 z1
          have hL' := hL
          rw [seg_append g1 hm1 (by omega)] at hL'
          have hR' := hR
          rw [seg_append hm2 g4 (by omega)] at hR'
          cases e2 : (if a < start ∧ start < mid then symMerge f d1 a start mid else Outcome.ok d1) with
          | ok d2 =>
            rw [e2] at h; dsimp only at h
            have f2 : Stb a mid d1 d2 ∧ Srt (kvSeg d2 a mid) := by
              by_cases hc : a < start ∧ start < mid
              · rw [if_pos hc] at e2
                exact ih d1 d2 a start mid e2 hw1 hc.1 hc.2 (by omega) (by rw [s1]; exact hL'.left)
                  (by rw [s2]; exact hR'.left)
              · rw [if_neg hc] at e2; cases e2
                refine ⟨Stb.refl _ _ _, ?_⟩
                rw [seg_append g1 g2 (by omega), s1, s2]
                by_cases hc' : a = start
                · rw [seg_nil (d := d) (a := a) (b := start) (by omega)]; exact hR'.left
                · rw [seg_nil (d := d) (a := m) (b := mid + m - start) (by omega), List.append_nil]; exact hL'.left
            have hw2 := f2.1.wf hw1
            have f3 : Stb mid b d2 d' ∧ Srt (kvSeg d' mid b) := by
              have t3 : kvSeg d2 mid (mid + m - start) = kvSeg d start m := by
                rw [f2.1.seg_out (Or.inr (Nat.le_refl _)), s3]
              have t4 : kvSeg d2 (mid + m - start) b = kvSeg d (mid + m - start) b := by
                rw [f2.1.seg_out (Or.inr g3), s4]
              by_cases hc : mid < mid + m - start ∧ mid + m - start < b
              · rw [if_pos hc] at h
                exact ih d2 d' mid (mid + m - start) b h hw2 hc.1 hc.2 (by rw [f2.1.len, l1]; omega)
                  (by rw [t3]; exact hL'.right) (by rw [t4]; exact hR'.right)
              · rw [if_neg hc] at h; cases h
                refine ⟨Stb.refl _ _ _, ?_⟩
                rw [seg_append g3 g4 (by rw [f2.1.size, z1]; omega), t3, t4]
                by_cases hc' : start = m
                · rw [seg_nil (d := d) (a := start) (b := m) (by omega)]; exact hR'.right
                · rw [seg_nil (d := d) (a := mid + m - start) (b := b) (by omega), List.append_nil]; exact hL'.right
            refine symMerge_glue hw hbl g1 g2 g3 g4 hm1 hm2 (by omega) l1 z1 sp f2.1 f2.2 f3.1 f3.2 hL hR ?_ ?_
            · intro x hx y hy
              obtain ⟨k, k1, k2, k3⟩ := mem_seg.1 hx
              obtain ⟨l, q1, q2, q3⟩ := mem_seg.1 hy
              obtain ⟨u, _, hu⟩ := Sl.get_ok_of_lt hw (show mid + m - 1 - start < d.len by omega)
              obtain ⟨v, _, hv⟩ := Sl.get_ok_of_lt hw (show start < d.len by omega)
              have := i4 (by omega)
              simp [hg (by omega) hu, hg (by omega) hv] at this
              have h3 : x.1 ≤ u.1 := hR.le_of_seg k1 (by omega) (by omega) k3 hu
              have h4 : v.1 ≤ y.1 := hL.le_of_seg g1 q1 q2 hv q3
              omega
            · intro x hx y hy
              obtain ⟨k, k1, k2, k3⟩ := mem_seg.1 hx
              obtain ⟨l, q1, q2, q3⟩ := mem_seg.1 hy
              obtain ⟨u, _, hu⟩ := Sl.get_ok_of_lt hw (show mid + m - 1 - (start - 1) < d.len by omega)
              obtain ⟨v, _, hv⟩ := Sl.get_ok_of_lt hw (show start - 1 < d.len by omega)
              have := i3 (by omega)
              simp [hg (by omega) hu, hg (by omega) hv] at this
              have h3 : x.1 ≤ v.1 := hL.le_of_seg k1 (by omega) (by omega) k3 hv
              have h4 : u.1 ≤ y.1 := hR.le_of_seg (by omega) (by omega) q2 hu q3
              omega
          | panic => rw [e2] at h; cases h
          | outOfFuel => rw [e2] at h; cases h
        · cases h
        · cases h

/-! ### the block structure of `stable` -/

theorem kv_dvd_step {c x a : Nat} (hx : c ∣ x) (ha : c ∣ a) (h : x < a + c) : x ≤ a := by
  obtain ⟨p, rfl⟩ := hx
  obtain ⟨q, rfl⟩ := ha
  have h' : c * p < c * (q + 1) := by rw [Nat.mul_succ]; exact h
  have : p < q + 1 := Nat.lt_of_mul_lt_mul_left h'
  exact Nat.mul_le_mul_left c (by omega)

theorem kv_dvd_step' {c x a : Nat} (hx : c ∣ x) (ha : c ∣ a) (h : x < a) : x + c ≤ a := by
  by_cases h' : x + c ≤ a
  · exact h'
  · have := kv_dvd_step ha hx (by omega); omega

/-- every block `[x, x + bs) ∩ [0, n)` with `bs ∣ x` is sorted -/
def Blk (d : Sl KV) (bs n : Nat) : Prop := ∀ x, bs ∣ x → Srt (kvSeg d x (min (x + bs) n))

theorem stableBlocks_sorted (bs n : Nat) (hbs : 1 ≤ bs) : ∀ (f a b : Nat) (d d' : Sl KV) (a' : Nat),
    stableBlocks bs n f a b d = .ok (d', a') → d.WF → n ≤ d.len → b = a + bs → a ≤ n → bs ∣ a →
    (∀ x, bs ∣ x → x < a → Srt (kvSeg d x (x + bs))) →
    Stb 0 n d d' ∧ a' ≤ n ∧ n < a' + bs ∧ bs ∣ a' ∧ (∀ x, bs ∣ x → x < a' → Srt (kvSeg d' x (x + bs))) := by
  intro f
  induction f with
  | zero => intro a b d d' a' h; simp [stableBlocks] at h
  | succ f ih =>
    intro a b d d' a' h hw hn hab han hdv hpre
    have hz : d.len ≤ d.data.size := hw
    rw [stableBlocks] at h
    by_cases hb : b ≤ n
    · rw [if_pos hb] at h
      cases h1 : insertionSortKV d a b with
      | ok d1 =>
        rw [h1] at h; dsimp only at h
        obtain ⟨st1, so1⟩ := insertionSortKV_sorted h1 hw (by omega) (by omega)
        obtain ⟨st, r1, r2, r3, r4⟩ := ih b (b + bs) d1 d' a' h (st1.wf hw) (by rw [st1.len]; exact hn) rfl hb
          (by rw [hab]; exact Nat.dvd_add hdv (Nat.dvd_refl _))
          (by
            intro x hx hxb
            by_cases hxa : x < a
            · have := kv_dvd_step' hx hdv hxa
              rw [st1.seg_out (Or.inl this)]; exact hpre x hx hxa
            · have : x ≤ a := kv_dvd_step hx hdv (by omega)
              have : x = a := by omega
              subst this; rw [← hab]; exact so1)
        refine ⟨(st1.mono (Nat.zero_le _) (by omega) hb (by omega)).trans ?_, r1, r2, r3, r4⟩
        have := st.size; have := st1.size
        exact st
      | panic => rw [h1] at h; cases h
      | outOfFuel => rw [h1] at h; cases h
    · rw [if_neg hb] at h
      cases h
      exact ⟨Stb.refl _ _ _, han, by omega, hdv, hpre⟩

theorem stableMergeRow_sorted (bs n : Nat) (hbs : 1 ≤ bs) : ∀ (f a b : Nat) (d d' : Sl KV) (a' : Nat),
    stableMergeRow bs n f a b d = .ok (d', a') → d.WF → n ≤ d.len → b = a + 2 * bs → a ≤ n → (2 * bs) ∣ a →
    (∀ x, (2 * bs) ∣ x → x < a → Srt (kvSeg d x (x + 2 * bs))) →
    (∀ x, bs ∣ x → a ≤ x → Srt (kvSeg d x (min (x + bs) n))) →
    Stb 0 n d d' ∧ a' ≤ n ∧ n < a' + 2 * bs ∧ (2 * bs) ∣ a' ∧
      (∀ x, (2 * bs) ∣ x → x < a' → Srt (kvSeg d' x (x + 2 * bs))) ∧
      (∀ x, bs ∣ x → a' ≤ x → Srt (kvSeg d' x (min (x + bs) n))) := by
  intro f
  induction f with
  | zero => intro a b d d' a' h; simp [stableMergeRow] at h
  | succ f ih =>
    intro a b d d' a' h hw hn hab han hdv hpre hpost
    have hz : d.len ≤ d.data.size := hw
    have hdv1 : bs ∣ a := Nat.dvd_trans (Nat.dvd_mul_left bs 2) hdv
    rw [stableMergeRow] at h
    by_cases hb : b ≤ n
    · rw [if_pos hb] at h
      cases h1 : symMerge (n + 2) d a (a + bs) b with
      | ok d1 =>
        rw [h1] at h; dsimp only at h
        have hL : Srt (kvSeg d a (a + bs)) := by
          have := hpost a hdv1 (Nat.le_refl _)
          rw [show min (a + bs) n = a + bs by omega] at this; exact this
        have hR : Srt (kvSeg d (a + bs) b) := by
          have := hpost (a + bs) (Nat.dvd_add hdv1 (Nat.dvd_refl _)) (by omega)
          rw [show min (a + bs + bs) n = b by omega] at this; exact this
        obtain ⟨st1, so1⟩ := symMerge_sorted _ _ _ _ _ _ h1 hw (by omega) (by omega) (by omega) hL hR
        obtain ⟨st, r1, r2, r3, r4, r5⟩ := ih b (b + 2 * bs) d1 d' a' h (st1.wf hw) (by rw [st1.len]; exact hn) rfl hb
          (by rw [hab]; exact Nat.dvd_add hdv (Nat.dvd_refl _))
          (by
            intro x hx hxb
            by_cases hxa : x < a
            · have := kv_dvd_step' hx hdv hxa
              rw [st1.seg_out (Or.inl this)]; exact hpre x hx hxa
            · have : x ≤ a := kv_dvd_step hx hdv (by omega)
              have : x = a := by omega
              subst this; rw [← hab]; exact so1)
          (by
            intro x hx hxb
            rw [st1.seg_out (Or.inr hxb)]; exact hpost x hx (by omega))
        exact ⟨(st1.mono (Nat.zero_le _) (by omega) hb (by omega)).trans st, r1, r2, r3, r4, r5⟩
      | panic => rw [h1] at h; cases h
      | outOfFuel => rw [h1] at h; cases h
    · rw [if_neg hb] at h
      cases h
      exact ⟨Stb.refl _ _ _, han, by omega, hdv, hpre, hpost⟩

theorem stableMerge_sorted (n : Nat) : ∀ (f bs : Nat) (d d' : Sl KV), stableMerge n f bs d = .ok d' → d.WF →
    n ≤ d.len → 1 ≤ bs → Blk d bs n → Stb 0 n d d' ∧ Srt (kvSeg d' 0 n) := by
  intro f
  induction f with
  | zero => intro bs d d' h; simp [stableMerge] at h
  | succ f ih =>
    intro bs d d' h hw hn hbs hblk
    have hz : d.len ≤ d.data.size := hw
    rw [stableMerge] at h
    by_cases hb : bs < n
    · rw [if_pos hb] at h
      cases h1 : stableMergeRow bs n (n + 1) 0 (2 * bs) d with
      | ok r =>
        obtain ⟨d1, a1⟩ := r
        rw [h1] at h; dsimp only at h
        obtain ⟨st1, r1, r2, r3, r4, r5⟩ := stableMergeRow_sorted bs n hbs _ _ _ _ _ _ h1 hw hn (by omega)
          (Nat.zero_le _) (Nat.dvd_zero _) (by intro x _ hx; omega) (fun x hx _ => hblk x hx)
        have hw1 := st1.wf hw
        have hdv1 : bs ∣ a1 := Nat.dvd_trans (Nat.dvd_mul_left bs 2) r3
        cases e2 : (if a1 + bs < n then symMerge (n + 2) d1 a1 (a1 + bs) n else Outcome.ok d1) with
        | ok d2 =>
          rw [e2] at h; dsimp only at h
          have f2 : Stb a1 n d1 d2 ∧ Srt (kvSeg d2 a1 n) := by
            by_cases hc : a1 + bs < n
            · rw [if_pos hc] at e2
              have hL : Srt (kvSeg d1 a1 (a1 + bs)) := by
                have := r5 a1 hdv1 (Nat.le_refl _)
                rw [show min (a1 + bs) n = a1 + bs by omega] at this; exact this
              have hR : Srt (kvSeg d1 (a1 + bs) n) := by
                have := r5 (a1 + bs) (Nat.dvd_add hdv1 (Nat.dvd_refl _)) (by omega)
                rw [show min (a1 + bs + bs) n = n by omega] at this; exact this
              exact symMerge_sorted _ _ _ _ _ _ e2 hw1 (by omega) hc (by rw [st1.len]; exact hn) hL hR
            · rw [if_neg hc] at e2; cases e2
              refine ⟨Stb.refl _ _ _, ?_⟩
              have := r5 a1 hdv1 (Nat.le_refl _)
              rw [show min (a1 + bs) n = n by omega] at this; exact this
          have hw2 := f2.1.wf hw1
          have hblk2 : Blk d2 (bs * 2) n := by
            intro x hx
            rw [Nat.mul_comm bs 2] at hx ⊢
            by_cases hxa : x < a1
            · have := kv_dvd_step' hx r3 hxa
              rw [show min (x + 2 * bs) n = x + 2 * bs by omega, f2.1.seg_out (Or.inl this)]
              exact r4 x hx hxa
            · by_cases hxe : x = a1
              · subst hxe
                rw [show min (x + 2 * bs) n = n by omega]; exact f2.2
              · have : a1 + 2 * bs ≤ x := kv_dvd_step' r3 hx (by omega)
                rw [seg_nil (by omega)]; exact Srt.nil
          obtain ⟨st3, so3⟩ := ih (bs * 2) d2 d' h hw2 (by rw [f2.1.len, st1.len]; exact hn) (by omega) hblk2
          have st2 : Stb 0 n d1 d2 := f2.1.mono (Nat.zero_le _) r1 (Nat.le_refl _) (by rw [st1.size]; omega)
          exact ⟨(st1.trans st2).trans st3, so3⟩
        | panic => rw [e2] at h; cases h
        | outOfFuel => rw [e2] at h; cases h
      | panic => rw [h1] at h; cases h
      | outOfFuel => rw [h1] at h; cases h
    · rw [if_neg hb] at h
      cases h
      refine ⟨Stb.refl _ _ _, ?_⟩
      have := hblk 0 (Nat.dvd_zero _)
      rw [show min (0 + bs) n = n by omega] at this; exact this

/-- `stable` restricted to `n = len`: frame, stability and sortedness on the segment level -/
theorem stable_spec {d d' : Sl KV} (hw : d.WF) (h : stable d d.len = .ok d') :
    Stb 0 d.len d d' ∧ Srt (kvSeg d' 0 d.len) := by
  have hz : d.len ≤ d.data.size := hw
  unfold stable at h
  dsimp only at h
  cases h1 : stableBlocks 20 d.len (d.len + 1) 0 20 d with
  | ok r =>
    obtain ⟨d1, a1⟩ := r
    rw [h1] at h; dsimp only at h
    obtain ⟨st1, r1, r2, r3, r4⟩ := stableBlocks_sorted 20 d.len (by omega) _ _ _ _ _ _ h1 hw (Nat.le_refl _) rfl
      (Nat.zero_le _) (Nat.dvd_zero _) (by intro x _ hx; omega)
    have hw1 := st1.wf hw
    cases h2 : insertionSortKV d1 a1 d.len with
    | ok d2 =>
      rw [h2] at h; dsimp only at h
      obtain ⟨st2, so2⟩ := insertionSortKV_sorted h2 hw1 r1 (by rw [st1.len]; exact Nat.le_refl _)
      have hw2 := st2.wf hw1
      have hblk : Blk d2 20 d.len := by
        intro x hx
        by_cases hxa : x < a1
        · have := kv_dvd_step' hx r3 hxa
          rw [show min (x + 20) d.len = x + 20 by omega, st2.seg_out (Or.inl this)]
          exact r4 x hx hxa
        · by_cases hxe : x = a1
          · subst hxe
            rw [show min (x + 20) d.len = d.len by omega]; exact so2
          · have : a1 + 20 ≤ x := kv_dvd_step' r3 hx (by omega)
            rw [seg_nil (by omega)]; exact Srt.nil
      obtain ⟨st3, so3⟩ := stableMerge_sorted d.len _ _ _ _ h hw2 (by rw [st2.len, st1.len]; exact Nat.le_refl _)
        (by omega) hblk
      have st2' : Stb 0 d.len d1 d2 := st2.mono (Nat.zero_le _) r1 (Nat.le_refl _) (by rw [st1.size]; omega)
      exact ⟨(st1.trans st2').trans st3, so3⟩
    | panic => rw [h2] at h; cases h
    | outOfFuel => rw [h2] at h; cases h
  | panic => rw [h1] at h; cases h
  | outOfFuel => rw [h1] at h; cases h

/-- the result of `stable` is sorted by value -/
theorem stable_sorted {d d' : Sl KV} (hw : d.WF) (h : stable d d.len = .ok d') :
    d'.toList.Pairwise (fun x y => x.1 ≤ y.1) := by
  obtain ⟨st, so⟩ := stable_spec hw h
  rw [toList_eq_seg, st.len]; exact so

/-- `stable` is stable: the entries of each value keep their order -/
theorem stable_stable {d d' : Sl KV} (hw : d.WF) (h : stable d d.len = .ok d') (v : Nat) :
    d'.toList.filter (fun x => x.1 == v) = d.toList.filter (fun x => x.1 == v) := by
  obtain ⟨st, _⟩ := stable_spec hw h
  have := st.steq v
  rw [toList_eq_seg, toList_eq_seg, st.len]; exact this

end CanonF
