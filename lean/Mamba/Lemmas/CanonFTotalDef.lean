import Mamba.Lemmas.CanonFMainJ
/-!
# Totality of the main loop: definitions (progress obligations, the termination measure)

`slots n d`: an upper bound for the number of child slots (`splitBin` calls) in the subtree of a search-tree node of depth
`d` (every node has at most `n` children, the depth is at most `n`): `slots n d = n * (1 + slots n (d+1))` for `d < n`.
`pathPot n path`: the child slots still to be processed by the frames of the stack (`path[L]` = remaining children of the
frame of level `L`, each with its subtree). `mainPot`: plus the subtree of the current node if it has not been expanded yet.
Every iteration of the main loop that does not end the search decreases `mainPot` by at least one.
-/
namespace CanonF

def slotsAux (n : Nat) : Nat → Nat
  | 0 => 0
  | rem + 1 => n * (1 + slotsAux n rem)

/-- child slots in the subtree of a node of depth `d` -/
def slots (n d : Nat) : Nat := slotsAux n (n - d)

theorem slots_succ {n d : Nat} (h : d < n) : slots n d = n * (1 + slots n (d + 1)) := by
  unfold slots
  have : n - d = (n - (d + 1)) + 1 := by omega
  rw [this, slotsAux]

/-- the fuel that always suffices for the main loop -/
def fuelBound (n : Nat) : Nat := slots n 0 + 1

/-- child slots still to be processed by the stack frames (`path` is top-first) -/
def pathPot (n : Nat) : List Nat → Nat
  | [] => 0
  | p :: ps => p * (1 + slots n (ps.length + 1)) + pathPot n ps

def mainPot (n : Nat) (worse : Bool) (s : LS) : Nat :=
  (if worse then 0 else slots n s.path.length) + pathPot n s.path

/-- progress obligations of the stepping loops (no panic, no fuel exhaustion of the operations) for an invariant that is
carried (`StepJ`) -/
structure StepT (n : Nat) (nb : Nbrs) (JA JN JS : List (Nat × Nat) → LS → Prop) : Prop where
  deage : ∀ lv s k, Core n s → TopOK s.op k s.path s.choices lv → s.skipDeage = false →
    s.op.age = s.path.length → JA lv s → ∃ op', deage s.op = .ok op'
  flOrb : ∀ st sz ls s c cs p ps ce k, Core n s → TopOK s.op (k + 1) s.path s.choices ((st, sz) :: ls) →
    s.skipDeage = false → s.op.age + 1 = s.path.length → s.choices = c :: cs → s.path = p :: ps →
    s.op.order.get (c - 1) = .ok ce →
    (decide (s.count > 0) && hasPrefix s.flPath.toList ps.reverse) = true →
    JN ((st, sz) :: ls) s → ∃ x, s.flOrbits[ce]? = some x
  h2 : ∀ st sz ls s c cs p ps ce k, Core n s → TopOK s.op (k + 1) s.path s.choices ((st, sz) :: ls) →
    s.skipDeage = false → s.op.age + 1 = s.path.length → s.choices = c :: cs → s.path = p :: ps →
    s.op.order.get (c - 1) = .ok ce →
    (decide (s.count > 0) && !hasPrefix s.flPath.toList ps.reverse && hasPrefix s.bestPath.toList ps.reverse) = true →
    JN ((st, sz) :: ls) s → ∃ r, h2Best s.op s.bestOrbits (c - 1) ce = .ok r
  split : ∀ st sz ls s c cs p ps ce k, Core n s → TopOK s.op (k + 1) s.path s.choices ((st, sz) :: ls) →
    s.skipDeage = false → s.op.age + 1 = s.path.length → s.choices = c :: cs → s.path = p :: ps →
    s.op.order.get (c - 1) = .ok ce →
    NonSingleton s.op.binDividers.toList (c - 1) →
    (∀ t, t < binStartOf s.op.binDividers.toList (c - 1) → t + 1 ∈ s.op.binDividers.toList) →
    JN ((st, sz) :: ls) s → ∃ r, splitBin nb s.currentBest s.firstLeaf s.op (c - 1) = .ok r

/-- progress obligations of the main loop -/
structure MainT (n m : Nat) (nb : Nbrs) (JA JN JS : List (Nat × Nat) → LS → Prop)
    (JM : List (Nat × Nat) → Bool → LS → Prop) : Prop where
  step : StepT n nb JA JN JS
  node : ∀ lv worse s, MInv n m nb s → (s.count = 0 → worse = false) → LevelsOK s.op s.path s.choices lv →
    JM lv worse s →
    ∃ s1, (if (!worse && s.op.binDividers.len == n) = true then leafNode n m s
      else if (!worse) = true then innerNode s else Outcome.ok s) = .ok s1
  /-- the node step does not increase the measure: a new frame has at most `n` children and depth `< n` -/
  nodePot : ∀ lv worse s s1, MInv n m nb s → (s.count = 0 → worse = false) → LevelsOK s.op s.path s.choices lv →
    JM lv worse s →
    (if (!worse && s.op.binDividers.len == n) = true then leafNode n m s
      else if (!worse) = true then innerNode s else Outcome.ok s) = .ok s1 →
    pathPot n s1.path ≤ mainPot n worse s
  refine : ∀ lv s, Core n s → LevelsOK s.op s.path s.choices lv → s.op.age = s.path.length →
    s.skipDeage = false → s.sc.timesSeen.len = n → JS lv s →
    ∃ r, refine nb s.currentBest s.firstLeaf {} s.op s.sc = .ok r

end CanonF
