import Mamba.Lemmas.CanonFDfsPop
import Mamba.Lemmas.CanonFDfsSkip
/-!
# The complete DFS invariant at a leaf whose certificate equals that of the first leaf (`dfs_leaf_eqfirst`)

`firstLeafOrbits` is merged along `γ = transport n oF order`, `γ` is recorded if something was merged, and Heuristic 1
jumps back to the deepest common ancestor (level `k`) of the current path and the first-leaf path. The child of that
ancestor on the current path is complete because the child on the first-leaf path is (`backjump_child_complete`); the new
generator preserves the colouring of every ancestor on the first-leaf path (`recorded_gen_preserves`).
Ghost update: `gh' := { gh with vs := gh.vs.take k }`, `lv1 := lv.drop j` (`j` frames dropped, `k = path.length - j - 1`).
-/
namespace CanonF

/-- semantic specification of the Heuristic-1 scan: the result `r` is `path.length` (no mismatch among the indices
`i .. i+k-1`) or `t + 1` for the first mismatch `t`; before it `path` and `ref` agree -/
theorem le_h1Index_sem (path : List Nat) (ref : Sl Nat) : ∀ (k i r : Nat), h1Index path ref k i = .ok r →
    ((r = path.length ∧ ∀ t, i ≤ t → t < i + k → ref.toList[t]? = some (path.getD t 0)) ∨
     (i + 1 ≤ r ∧ r ≤ i + k ∧ (∀ t, i ≤ t → t < r - 1 → ref.toList[t]? = some (path.getD t 0)) ∧
        ∃ rv, ref.toList[r - 1]? = some rv ∧ path.getD (r - 1) 0 ≠ rv)) := by
  intro k
  induction k with
  | zero =>
    intro i r h
    simp only [h1Index] at h
    injection h with h
    exact Or.inl ⟨h.symm, fun t h1 h2 => by omega⟩
  | succ k ih =>
    intro i r h
    rw [h1Index] at h
    cases hg : ref.get i with
    | ok rv =>
      rw [hg] at h; simp only at h
      have hg' := Sl.get_eq_toList.1 hg
      by_cases hne : path.getD i 0 ≠ rv
      · rw [if_pos hne] at h
        injection h with h
        subst h
        right
        refine ⟨by omega, by omega, fun t h1 h2 => by omega, rv, by simpa using hg', by simpa using hne⟩
      · rw [if_neg hne] at h
        have heq : path.getD i 0 = rv := Classical.not_not.1 hne
        rcases ih (i + 1) r h with ⟨a1, a2⟩ | ⟨a1, a2, a3, a4⟩
        · left
          refine ⟨a1, fun t h1 h2 => ?_⟩
          by_cases hti : t = i
          · subst hti; rw [hg', heq]
          · exact a2 t (by omega) (by omega)
        · right
          refine ⟨by omega, by omega, fun t h1 h2 => ?_, a4⟩
          by_cases hti : t = i
          · subst hti; rw [hg', heq]
          · exact a3 t (by omega) h2
    | panic => rw [hg] at h; simp at h
    | outOfFuel => rw [hg] at h; simp at h

/-- `backJump_shape` with the scan result made explicit -/
theorem le_backJump_shape {s s' : LS} {ref : Sl Nat} (h : backJump s ref = .ok s') :
    ∃ r op', h1Index s.path.reverse ref (s.path.length - 1) 0 = .ok r ∧
      (r = s.path.length ∨ (1 ≤ r ∧ r ≤ s.path.length - 1)) ∧
      deageTimes (s.path.length - r) s.op = .ok op' ∧
      s' = { s with op := op', path := s.path.drop (s.path.length - r),
                    choices := s.choices.drop (s.path.length - r + s.choices.length - s.path.length) } := by
  unfold backJump at h
  dsimp only at h
  cases hi : h1Index s.path.reverse ref (s.path.reverse.length - 1) 0 with
  | panic => rw [hi] at h; cases h
  | outOfFuel => rw [hi] at h; cases h
  | ok idx1 =>
    rw [hi] at h
    simp only at h
    cases hd : deageTimes (s.path.reverse.length - idx1) s.op with
    | panic => rw [hd] at h; cases h
    | outOfFuel => rw [hd] at h; cases h
    | ok op' =>
      rw [hd] at h
      simp only at h
      cases h
      have hidx := h1Index_spec _ _ _ _ _ hi
      simp only [List.length_reverse] at hidx hd hi
      refine ⟨idx1, op', hi, by omega, hd, ?_⟩
      have e1 : (s.path.reverse.take idx1).reverse = s.path.drop (s.path.length - idx1) := by
        rw [List.take_reverse, List.reverse_reverse]
      have e2 : (s.choices.reverse.take idx1).reverse = s.choices.drop (s.choices.length - idx1) := by
        rw [List.take_reverse, List.reverse_reverse]
      rw [e1, e2]
      congr 2
      omega

/-- the "equal to the first leaf" case of `leafNode` -/
theorem le_leaf_unfold {n m : Nat} {s s1 : LS} (hs1 : leafNode n m s = .ok s1)
    (hc1 : (compare s.op.value.toList s.currentBest.toList == 1 || s.count + 1 == 1) = false)
    (hc0 : (compare s.op.value.toList s.currentBest.toList == 0) = false)
    (hcf : (compare s.op.value.toList s.firstLeaf.toList == 0) = true) :
    ∃ flOrbits' merges gens' ngens',
      forRange (orbitStep s.op.order s.flPermInv) n 0 (s.flOrbits, false) = .ok (flOrbits', merges) ∧
      (if merges = true then recordGenerator n s.op.order s.flPermInv s.gens s.ngens else Outcome.ok (s.gens, s.ngens))
        = .ok (gens', ngens') ∧
      backJump { s with count := s.count + 1, flOrbits := flOrbits', gens := gens', ngens := ngens' } s.flPath = .ok s1 := by
  unfold leafNode at hs1
  dsimp only at hs1
  rw [if_neg (by rw [hc1]; exact Bool.false_ne_true), if_neg (by rw [hc0]; exact Bool.false_ne_true), if_pos hcf] at hs1
  split at hs1
  · rename_i flOrbits' merges hloop
    split at hs1
    · rename_i gens' ngens' hrec
      exact ⟨flOrbits', merges, gens', ngens', hloop, hrec, hs1⟩
    · cases hs1
    · cases hs1
  · cases hs1
  · cases hs1


/-- elementwise agreement gives the syntactic prefix test -/
theorem le_hasPrefix_of {P q : List Nat} (h : ∀ t, t < q.length → P[t]? = q[t]?) : hasPrefix P q = true := by
  unfold hasPrefix
  have hlen : P.length ≥ q.length := by
    rcases Nat.eq_zero_or_pos q.length with h0 | hpos
    · omega
    · have := h (q.length - 1) (by omega)
      have hq : q[q.length - 1]? = some (q[q.length - 1]'(by omega)) := List.getElem?_eq_getElem (by omega)
      rw [hq] at this
      have := (List.getElem?_eq_some_iff.1 this).1
      omega
  simp only [Bool.and_eq_true, decide_eq_true_eq, beq_iff_eq]
  refine ⟨hlen, ?_⟩
  apply List.ext_getElem?
  intro t
  rw [List.getElem?_take]
  by_cases ht : t < q.length
  · rw [if_pos ht]; exact h t ht
  · rw [if_neg ht, List.getElem?_eq_none (by omega)]

/-- `FrameAux1` when the recorded generators grow by generators equal to `T`, which preserves every ancestor on the
first-leaf path; `count` stays positive -/
theorem le_frameAux1_gens {n : Nat} {nb : Nbrs} {rf : Nat} {r : IR.St} {gh : Gh} {s s' : LS} {us : List Nat}
    {incl : Bool} {ps : List Nat} {c st sz : Nat} (h : FrameAux1 n nb rf r gh s us incl ps c st sz)
    (e1 : 0 < s.count) (e1' : 0 < s'.count) (e2 : s'.currentBest = s.currentBest) (T : List Nat)
    (hgen : ∀ k γ, k < s'.ngens → s'.gens[k]? = some γ → (k < s.ngens ∧ s.gens[k]? = some γ) ∨ γ.toList = T)
    (hT : ∀ L, us.take L = gh.vsF.take L → ∀ u, u < n →
      IR.col (nodeL n nb rf r us L).c (T.getD u 0) = IR.col (nodeL n nb rf r us L).c u) :
    FrameAux1 n nb rf r gh s' us incl ps c st sz := by
  constructor
  · intro _; exact h.futF e1
  · intro _; exact h.futB e1
  · intro _; rw [e2]; exact h.bpF e1
  · intro _; rw [e2]; exact h.bpB e1
  · intro _ hpre k hk γ hγ u hu
    rcases hgen k γ hk hγ with ⟨a, b⟩ | hT'
    · exact h.e1 e1 hpre k a γ b u hu
    · rw [hT']; exact hT ps.length hpre u hu
  · intro _; exact h.e2 e1
  · intro _; exact h.fb e1
  · intro h0; omega

theorem le_frameAux_gens {n : Nat} {nb : Nbrs} {rf : Nat} {r : IR.St} {gh : Gh} {s s' : LS} {us : List Nat}
    (e1 : 0 < s.count) (e1' : 0 < s'.count) (e2 : s'.currentBest = s.currentBest) (T : List Nat)
    (hgen : ∀ k γ, k < s'.ngens → s'.gens[k]? = some γ → (k < s.ngens ∧ s.gens[k]? = some γ) ∨ γ.toList = T)
    (hT : ∀ L, us.take L = gh.vsF.take L → ∀ u, u < n →
      IR.col (nodeL n nb rf r us L).c (T.getD u 0) = IR.col (nodeL n nb rf r us L).c u) :
    ∀ (incl : Bool) (path choices : List Nat) (lv : List (Nat × Nat)),
      FrameAux n nb rf r gh s us incl path choices lv → FrameAux n nb rf r gh s' us incl path choices lv := by
  intro incl path
  induction path generalizing incl with
  | nil => intro choices lv h; cases choices <;> cases lv <;> simp_all [FrameAux]
  | cons p ps ih =>
    intro choices lv h
    cases choices with
    | nil => simp [FrameAux] at h
    | cons c cs =>
      cases lv with
      | nil => simp [FrameAux] at h
      | cons x ls =>
        obtain ⟨st, sz⟩ := x
        simp only [FrameAux] at h ⊢
        exact ⟨le_frameAux1_gens h.1 e1 e1' e2 T hgen hT, ih false cs ls h.2⟩

/-- `CovFrames.drop` / `FrameAux.drop` also for `j = 0` -/
theorem le_cov_drop {n : Nat} {nb : Nbrs} {rf : Nat} {r : IR.St} {s : LS} {vs : List Nat} (j : Nat)
    {path choices : List Nat} {lv : List (Nat × Nat)} (h : CovFrames n nb rf r s vs false path choices lv) :
    CovFrames n nb rf r s vs false (path.drop j) (choices.drop j) (lv.drop j) := by
  rcases Nat.eq_zero_or_pos j with h0 | hpos
  · subst h0; simpa using h
  · exact CovFrames.drop j _ _ _ hpos h

theorem le_aux_drop {n : Nat} {nb : Nbrs} {rf : Nat} {r : IR.St} {gh : Gh} {s : LS} {vs : List Nat} (j : Nat)
    {path choices : List Nat} {lv : List (Nat × Nat)} (h : FrameAux n nb rf r gh s vs false path choices lv) :
    FrameAux n nb rf r gh s vs false (path.drop j) (choices.drop j) (lv.drop j) := by
  rcases Nat.eq_zero_or_pos j with h0 | hpos
  · subst h0; simpa using h
  · exact FrameAux.drop j _ _ _ hpos h

/-- what the leaf branch records: every new generator is `transport n o1 order` -/
theorem le_recorded {n : Nat} {order pinv : Sl Nat} {o1 : List Nat} {gens gens' : Array (Sl Nat)} {ngens ngens' : Nat}
    {merges : Bool} (ho1 : o1.Perm (List.range n)) (hlen : order.len = n) (hinvof : InvOf o1 pinv)
    (hrec : (if merges = true then recordGenerator n order pinv gens ngens else Outcome.ok (gens, ngens)) = .ok (gens', ngens')) :
    ∀ k γ, k < ngens' → gens'[k]? = some γ → (k < ngens ∧ gens[k]? = some γ) ∨ γ.toList = transport n o1 order.toList := by
  intro k γ hk hγ
  by_cases hm : merges = true
  · rw [if_pos hm] at hrec
    obtain ⟨r1, r2, r3, r4, tmp, t1, t2, t3, t4, t5⟩ := recordGenerator_spec hlen hrec
    subst r1
    by_cases hkn : k = ngens
    · right
      subst hkn
      rw [t1] at hγ
      injection hγ with hγ
      subst hγ
      rw [← transport_eq (o2 := order.toList) (pinv := pinv.toList) ho1 hinvof]
      apply List.ext_getElem?
      intro i
      by_cases hi : i < n
      · obtain ⟨p, v, hp, hv, hv'⟩ := t5 i hi
        rw [hv', List.getElem?_map, List.getElem?_range hi]
        simp only [Option.map_some]
        have hp' := Sl.get_eq_toList.1 hp
        have hvv := Sl.get_eq_toList.1 hv
        simp only [List.getD_eq_getElem?_getD, hp', Option.getD_some, hvv]
      · rw [List.getElem?_eq_none (by omega), List.getElem?_eq_none (by simp; omega)]
    · left
      exact ⟨by omega, by rw [← r4 k hkn]; exact hγ⟩
  · rw [if_neg hm] at hrec
    injection hrec with hrec
    injection hrec with hg hn
    subst hg; subst hn
    exact Or.inl ⟨hk, hγ⟩


section
variable {n m : Nat} {nb : Nbrs} {rf : Nat} {r : IR.St}
  (hnb : NbOK nb n) (hA : IR.InvA (irG n nb) r) (hD : IR.InvD (irG n nb) r)

include hnb hA hD in
/-- Heuristic 1 against the first leaf at the frame of the common ancestor: either the current child is the child on the
first-leaf path, or it is complete because the child on the first-leaf path (already processed) is -/
theorem le_child_complete {gh : Gh} {s : LS} {vs o2 : List Nat} {p c st sz : Nat} {ps cs : List Nat}
    {ls : List (Nat × Nat)} (hcnt : 0 < s.count) (hG : GlobalInv n nb rf r gh s)
    (hp : IR.IsPath (irG n nb) rf r vs) (ht2 : IR.target (irG n nb) (IR.nodeAt (irG n nb) rf r vs) = none)
    (hc2 : (IR.nodeAt (irG n nb) rf r vs).c = IR.tab n (fun v => o2.idxOf v)) (ho2 : o2.Perm (List.range n))
    (hcert : s.firstLeaf.toList = certPos nb o2 n)
    (hfr : FramesOK n nb rf r vs (p :: ps) (c :: cs) ((st, sz) :: ls)) (hcp : c = st + p)
    (hfa : FrameAux1 n nb rf r gh s vs false ps c st sz) (hk : ps.length < vs.length)
    (hpref : hasPrefix s.flPath.toList ps.reverse = true) :
    (s.flPath.toList[ps.length]? = some p ∧ vs.take (ps.length + 1) = gh.vsF.take (ps.length + 1)) ∨
    ∀ w, (cellL n nb rf r vs ps.length st)[c - st]? = some w →
      Complete n nb rf s.currentBest.toList (IR.childSt (irG n nb) rf (nodeL n nb rf r vs ps.length) st w) := by
  simp only [FramesOK] at hfr
  obtain ⟨g1, g2, g3, gt⟩ := hfr
  have hI := frames_idxPath ps cs ls gt (by omega)
  have L := hG.first hcnt
  obtain ⟨hpre, hkle⟩ := prefix_of_hasPrefix hI hp (by omega) L.path L.leaf L.idx hpref
  have hnode : nodeL n nb rf r vs ps.length = nodeL n nb rf r gh.vsF ps.length := nodeL_congr hpre
  have hklt : ps.length < gh.vsF.length := by
    rcases Nat.lt_or_ge ps.length gh.vsF.length with h | h
    · exact h
    · have e : ps.length = gh.vsF.length := by omega
      have : nodeL n nb rf r gh.vsF ps.length = IR.nodeAt (irG n nb) rf r gh.vsF := by
        unfold nodeL; rw [e, List.take_length]
      rw [hnode, this, L.leaf] at g1
      cases g1
  obtain ⟨t, jj, v, a1, a2, a3, a4⟩ := L.idx ps.length hklt
  rw [← hnode, g1] at a1
  injection a1 with a1
  subst a1
  have hcell : cellL n nb rf r vs ps.length st = cellL n nb rf r gh.vsF ps.length st := cellL_congr hpre
  rw [← hcell] at a3
  obtain ⟨g3a, g3b⟩ := g3 hk
  have hcst : c - st = p := by omega
  rcases Nat.lt_trichotomy jj p with hlt | heq | hgt
  · exact absurd ⟨hpre, a2⟩ (hfa.futF hcnt jj v (by omega) a3)
  · left
    subst heq
    refine ⟨a4, ?_⟩
    rw [List.take_add_one, List.take_add_one, hpre, g3a, a3, a2]
  · right
    intro w hw
    rw [hcst, ← g3a] at hw
    have hb := hfa.bpF hcnt hpre jj v (by simp only [Bool.false_eq_true, if_false]; omega) a3 a2
    exact backjump_child_complete hnb hA hD L.path L.leaf L.col L.perm hp ht2 hc2 ho2
      (by rw [← L.cert, hcert]) hpre.symm a2 hw g1 hb
end


theorem le_levelsOK_path_ne {op : OP} {p : Nat} {ps choices : List Nat} {lv : List (Nat × Nat)}
    (h : LevelsOK op (p :: ps) choices lv) : ∃ c cs st sz ls, choices = c :: cs ∧ lv = (st, sz) :: ls ∧ c = st + p := by
  match choices, lv, h with
  | c :: cs, (st, sz) :: ls, h =>
    simp only [LevelsOK] at h
    exact ⟨c, cs, st, sz, ls, rfl, rfl, h.2.2.1⟩

/-- `GlobalInv` when `count` stays positive and only `flOrbits`, `gens`, the partition and the stacks change -/
theorem le_globalInv_pos {n : Nat} {nb : Nbrs} {rf : Nat} {r : IR.St} {gh gh' : Gh} {s s' : LS}
    (h : GlobalInv n nb rf r gh s) (hpos : 0 < s.count) (hpos' : 0 < s'.count)
    (e2 : s'.firstLeaf = s.firstLeaf) (e3 : s'.flPermInv = s.flPermInv)
    (e4 : s'.flPath = s.flPath) (e5 : s'.bestPerm = s.bestPerm) (e6 : s'.currentBest = s.currentBest)
    (e7 : s'.bestPermInv = s.bestPermInv) (e8 : s'.bestPath = s.bestPath) (e9 : s'.bestOrbits = s.bestOrbits)
    (g1 : gh'.oF = gh.oF) (g2 : gh'.vsF = gh.vsF) (g3 : gh'.vsB = gh.vsB) (g4 : gh'.bgs = gh.bgs) :
    GlobalInv n nb rf r gh' s' := by
  constructor
  · intro _; rw [e2, e3, e4, g1, g2]; exact h.first hpos
  · intro _; rw [e5, e6, e7, e8, g3]; exact h.best hpos
  · rw [g4]; exact h.bgsAut
  · intro h0; omega
  · intro _; rw [e9, g4]; exact h.bestOrb hpos
  · rw [e8]; exact h.bpLen
  · rw [e4]; exact h.fpLen

section
variable {n m : Nat} {nb : Nbrs} {rf : Nat} {r : IR.St}
  (hnb : NbOK nb n) (hA : IR.InvA (irG n nb) r) (hD : IR.InvD (irG n nb) r)

set_option linter.unusedVariables false in
include hnb hA hD in
/-- a leaf with the certificate of the first leaf (not of the best): back-jump against `flPath`; the ghost update and the
new orbit / generator data explicit -/
theorem dfs_leaf_eqfirst_v (lv : List (Nat × Nat)) (s s1 : LS) (gh : Gh) (hI : MInv n m nb s)
    (hlv : LevelsOK s.op s.path s.choices lv) (hleaf : s.op.binDividers.len = n)
    (hJ : CertM n m nb lv false s) (h : DNodev n nb rf r gh lv s) (hs1 : leafNode n m s = .ok s1)
    (hJ1 : CertA n m nb lv s1)
    (hc1 : (compare s.op.value.toList s.currentBest.toList == 1 || s.count + 1 == 1) = false)
    (hc0 : (compare s.op.value.toList s.currentBest.toList == 0) = false)
    (hcf : (compare s.op.value.toList s.firstLeaf.toList == 0) = true) :
    ∃ lv1 k, LevelsOK s1.op s1.path s1.choices lv1 ∧ DAv n nb rf r { gh with vs := gh.vs.take k } lv1 s1 ∧
      ∃ flOrbits' merges gens' ngens',
        forRange (orbitStep s.op.order s.flPermInv) n 0 (s.flOrbits, false) = .ok (flOrbits', merges) ∧
        (if merges = true then recordGenerator n s.op.order s.flPermInv s.gens s.ngens else Outcome.ok (s.gens, s.ngens))
          = .ok (gens', ngens') ∧
        s1.flOrbits = flOrbits' ∧ s1.gens = gens' ∧ s1.ngens = ngens' ∧ s1.count = s.count + 1 ∧
        s1.currentBest = s.currentBest ∧ s1.firstLeaf = s.firstLeaf ∧ s1.bestPerm = s.bestPerm ∧
        s1.bestOrbits = s.bestOrbits ∧ s1.flPermInv = s.flPermInv ∧ s1.bestPermInv = s.bestPermInv ∧
        s1.flPath = s.flPath ∧ s1.bestPath = s.bestPath := by
  obtain ⟨hw, hG, hcov, haux, hoff⟩ := h
  have hw' := hw
  obtain ⟨h1, h2, h3, h4, h5, h6, h7⟩ := hw'
  have hc1' := hc1
  simp only [Bool.or_eq_false_iff, beq_eq_false_iff_ne, ne_eq] at hc1'
  have hpos : 0 < s.count := by omega
  -- the current leaf
  obtain ⟨hvc, hspl⟩ := leaf_clean hI.core.part hleaf (hJ.2.2.1 rfl)
  have hval : s.op.value.toList = certPos nb s.op.order.toList n := by rw [← hspl]; exact hvc.val
  have heq : s.op.value.toList = s.firstLeaf.toList := (compare_eq_zero _ _).1 (by simpa using hcf)
  have hm : Match n s.op (nodeL n nb rf r gh.vs gh.vs.length) :=
    (h4 _ (Nat.le_refl _)).toMatch hI.core.part hI.core.age (by omega) h7
  have hnode : nodeL n nb rf r gh.vs gh.vs.length = IR.nodeAt (irG n nb) rf r gh.vs := by
    unfold nodeL; rw [List.take_length]
  rw [hnode] at hm
  have ht2 := target_none (nb := nb) hI.core.part hm hleaf
  have hc2 : (IR.nodeAt (irG n nb) rf r gh.vs).c = IR.tab n (fun v => s.op.order.toList.idxOf v) := by
    rw [hm.col, leaf_colOf hI.core.part hleaf]
  have LF := hG.first hpos
  have hcertF : s.firstLeaf.toList = certPos nb s.op.order.toList n := by rw [← heq, hval]
  -- the path is not empty
  have hd0 : 0 < s.path.length := by
    rcases Nat.eq_zero_or_pos s.path.length with h0 | h0
    · exfalso
      have hvs : gh.vs = [] := List.eq_nil_of_length_eq_zero (by omega)
      apply (hoff hpos).1
      rw [hvs]; rfl
    · exact h0
  -- the leaf branch
  obtain ⟨flO, merges, gens', ngens', hloop, hrec, hbj⟩ := le_leaf_unfold hs1 hc1 hc0 hcf
  obtain ⟨rr, op', hidx, hrr, hd, hs'⟩ := le_backJump_shape hbj
  dsimp only at hidx hrr hd hs'
  obtain ⟨l1, l2⟩ := LevelsOK_length _ _ _ hlv
  obtain ⟨j, hj⟩ : ∃ j, j = s.path.length - rr := ⟨_, rfl⟩
  rw [← hj] at hd hs'
  rw [show j + s.choices.length - s.path.length = j by omega] at hs'
  have eop : s1.op = op' := by rw [hs']
  have epath : s1.path = s.path.drop j := by rw [hs']
  have ech : s1.choices = s.choices.drop j := by rw [hs']
  have ecount : s1.count = s.count + 1 := by rw [hs']
  have ecb : s1.currentBest = s.currentBest := by rw [hs']
  have eflp : s1.flPath = s.flPath := by rw [hs']
  have eflo : s1.flOrbits = flO := by rw [hs']
  have egens : s1.gens = gens' := by rw [hs']
  have engens : s1.ngens = ngens' := by rw [hs']
  have hjd : j < s.path.length := by omega
  obtain ⟨q1, q2, q3, q4, _⟩ := deageTimes_spec (StepQ.trivial n nb s.currentBest s.firstLeaf) j s.op op'
    hI.core.part hI.core.age (by rw [hI.age]; omega) trivial hd
  have hlvd := LevelsOK_drop j _ _ _ hlv
  -- the frame of the common ancestor
  obtain ⟨p, ps, hpd⟩ : ∃ p ps, s.path.drop j = p :: ps := by
    cases hx : s.path.drop j with
    | nil => have := congrArg List.length hx; simp at this; omega
    | cons p ps => exact ⟨p, ps, rfl⟩
  have hpsl : ps.length + 1 = s.path.length - j := by
    have := congrArg List.length hpd; simp at this; omega
  rw [hpd] at hlvd
  obtain ⟨c, cs, st, sz, ls, hcd, hld, hcp⟩ := le_levelsOK_path_ne hlvd
  have hfr : FramesOK n nb rf r gh.vs (p :: ps) (c :: cs) ((st, sz) :: ls) := by
    have := h5.drop j; rwa [hpd, hcd, hld] at this
  have hfa : FrameAux n nb rf r gh s gh.vs false (p :: ps) (c :: cs) ((st, sz) :: ls) := by
    have := le_aux_drop j haux; rwa [hpd, hcd, hld] at this
  have hcovd : CovFrames n nb rf r s gh.vs false (p :: ps) (c :: cs) ((st, sz) :: ls) := by
    have := le_cov_drop j hcov; rwa [hpd, hcd, hld] at this
  -- the index path
  have hrev : s.path.reverse = ps.reverse ++ p :: (s.path.take j).reverse := by
    conv_lhs => rw [← List.take_append_drop j s.path, hpd]
    simp
  have hsem := le_h1Index_sem _ _ _ _ _ hidx
  simp only [List.length_reverse, Nat.zero_add, Nat.zero_le, true_implies] at hsem
  have hagree : ∀ t, t < ps.length → s.flPath.toList[t]? = ps.reverse[t]? := by
    intro t ht
    have e : s.path.reverse.getD t 0 = ps.reverse[t]?.getD 0 := by
      rw [List.getD_eq_getElem?_getD, hrev, List.getElem?_append_left (by simpa using ht)]
    have e' : ps.reverse[t]? = some (ps.reverse[t]?.getD 0) := by
      rw [List.getElem?_eq_getElem (by simpa using ht)]; rfl
    rw [e', ← e]
    rcases hsem with ⟨a1, a2⟩ | ⟨a1, a2, a3, a4⟩
    · exact a2 t (by omega)
    · exact a3 t (by omega)
  have hpref : hasPrefix s.flPath.toList ps.reverse = true :=
    le_hasPrefix_of (fun t ht => hagree t (by simpa using ht))
  have hpk : s.path.reverse.getD ps.length 0 = p := by
    rw [List.getD_eq_getElem?_getD, hrev, List.getElem?_append_right (by simp)]
    simp
  -- the current child of that frame is complete
  have hcomp : ∀ w, (cellL n nb rf r gh.vs ps.length st)[c - st]? = some w →
      Complete n nb rf s.currentBest.toList (IR.childSt (irG n nb) rf (nodeL n nb rf r gh.vs ps.length) st w) := by
    rcases le_child_complete hnb hA hD hpos hG h1 ht2 hc2 hI.core.part.perm hcertF hfr hcp hfa.head (by omega) hpref
      with ⟨hfl, htk⟩ | hcomp
    · exfalso
      rcases hsem with ⟨a1, a2⟩ | ⟨a1, a2, a3, rv, a4, a5⟩
      · apply (hoff hpos).1
        have : ps.length + 1 = gh.vs.length := by omega
        rw [this] at htk
        rw [← htk, List.take_length]
      · rw [show rr - 1 = ps.length by omega] at a4 a5
        rw [a4] at hfl
        injection hfl with hfl
        exact a5 (by rw [hpk, hfl])
    · exact hcomp
  -- assemble
  have hv : ∀ L, L < (p :: ps).length → (gh.vs.take (s.path.length - j - 1)).take L = gh.vs.take L := by
    intro L hL
    simp only [List.length_cons] at hL
    exact take_take_le gh.vs (by omega)
  have hpos1 : 0 < s1.count := by omega
  refine ⟨lv.drop j, s.path.length - j - 1, ?_, ⟨?_, ?_, ?_, ?_, ?_⟩,
    flO, merges, gens', ngens', hloop, hrec, eflo, egens, engens, ecount, ecb, by rw [hs'], by rw [hs'], by rw [hs'],
    by rw [hs'], by rw [hs'], eflp, by rw [hs']⟩
  · rw [eop, epath, ech]
    apply LevelsOK_frame q4 _ _ _ _ (LevelsOK_drop j _ _ _ hlv)
    simp only [List.length_drop]; rw [hI.age]; omega
  · exact walk_truncate j hI.core.part hI.core.age (by omega) (fun _ => hjd) (by rw [eop]; exact hd) epath ech hw
  · exact le_globalInv_pos hG hpos hpos1 (by rw [hs']) (by rw [hs']) eflp (by rw [hs']) ecb (by rw [hs']) (by rw [hs'])
      (by rw [hs']) rfl rfl rfl rfl
  · rw [epath, ech, hpd, hcd, hld]
    have c1 := hcovd.finish_child (fun w hw' => Or.inl (hcomp w hw'))
    have c2 := CovFrames.mono_orbits (s := s) (s' := s1) ecb (onFirstB_count_succ hpos ecount eflp)
      (fun w y hwy hy => by rw [eflo]; exact nonroot_orbitLoop (hJ.1.orb hpos).1 hloop hwy hy) true _ _ _ c1
    exact CovFrames.congr (s := s1) (s' := s1) (vs := gh.vs) rfl (fun _ => rfl) rfl true _ _ _ hv c2
  · rw [epath, ech, hpd, hcd, hld]
    have a2 := FrameAux.mk (p := p) (cs := cs) (ls := ls)
      (hfa.head.finish_child' hpos (fun w hw' _ _ => hcomp w hw') (fun w hw' _ _ => hcomp w hw')) hfa.tail
    have a3 := le_frameAux_gens (s := s) (s' := s1) hpos hpos1 ecb (transport n gh.oF s.op.order.toList)
      (by rw [egens, engens]; exact le_recorded LF.perm hI.core.part.lenOrder LF.inv hrec)
      (fun L hL => recorded_gen_preserves hnb hA hD LF.path LF.col LF.perm h1 hc2 hI.core.part.perm hL.symm)
      true _ _ _ a2
    have a4 := FrameAux.congr (s := s1) (s' := s1) (us := gh.vs) rfl rfl rfl rfl true _ _ _ hv a3
    exact FrameAux.congr_gh (gh := gh) (gh' := { gh with vs := gh.vs.take (s.path.length - j - 1) }) rfl rfl rfl
      true _ _ _ a4
  · intro hp0
    rw [epath, hpd] at hp0
    cases hp0

set_option linter.unusedVariables false in
include hnb hA hD in
/-- a leaf with the certificate of the first leaf (not of the best): back-jump against `flPath` -/
theorem dfs_leaf_eqfirst (lv : List (Nat × Nat)) (s s1 : LS) (gh : Gh) (hI : MInv n m nb s)
    (hlv : LevelsOK s.op s.path s.choices lv) (hleaf : s.op.binDividers.len = n)
    (hJ : CertM n m nb lv false s) (h : DNodev n nb rf r gh lv s) (hs1 : leafNode n m s = .ok s1)
    (hJ1 : CertA n m nb lv s1)
    (hc1 : (compare s.op.value.toList s.currentBest.toList == 1 || s.count + 1 == 1) = false)
    (hc0 : (compare s.op.value.toList s.currentBest.toList == 0) = false)
    (hcf : (compare s.op.value.toList s.firstLeaf.toList == 0) = true) :
    ∃ lv1, LevelsOK s1.op s1.path s1.choices lv1 ∧ DA n nb rf r lv1 s1 := by
  obtain ⟨lv1, k, a, b, _⟩ := dfs_leaf_eqfirst_v hnb hA hD lv s s1 gh hI hlv hleaf hJ h hs1 hJ1 hc1 hc0 hcf
  exact ⟨lv1, a, _, b⟩
end

end CanonF
