import Mamba.Lemmas.CanonFCertDeage
/-!
# `deage` keeps every vertex between the same surviving dividers

* `DeageRearr op o` — third invariant of the main loop of `deage` (a property of the current `order` slice `o`): every
  vertex of `o` at position `p` sits in `op.order` at a position `q` that no divider of age `≠ op.age` separates from `p`;
* `deage_rearr` — the same for the result of `deage`.
-/
namespace CanonF

/-- `sortRange a b` moves entries only inside `[a, b)` -/
theorem Sl.deage_sortRange_rearr {s s' : Sl Nat} {a b : Nat} (hw : s.WF) (hb : b ≤ s.len)
    (h : s.sortRange a b = .ok s') :
    ∀ p v, s'.toList[p]? = some v →
      ∃ p', s.toList[p']? = some v ∧ ((a ≤ p ∧ p < b ∧ a ≤ p' ∧ p' < b) ∨ p' = p) := by
  obtain ⟨s1, s2, _, s4, s5, _⟩ := Sl.deage_sortRange_spec hw hb h
  have hl : s.toList.length = s.len := Sl.length_toList s hw
  intro p v hv
  by_cases hin : a ≤ p ∧ p < b
  · have htk : (List.take a s.toList).length = a := by rw [List.length_take, hl]; omega
    have hM : ((s.toList.drop a).take (b - a)).length = b - a := by
      rw [List.length_take, List.length_drop, hl]; omega
    rw [s5, List.append_assoc, List.getElem?_append_right (by omega), htk,
      List.getElem?_append_left (by rw [deage_length_sortNat, hM]; omega)] at hv
    have hmem := (deage_sortNat_perm _).mem_iff.1 (List.mem_of_getElem? hv)
    obtain ⟨idx, hidx⟩ := List.mem_iff_getElem?.1 hmem
    rw [List.getElem?_take] at hidx
    split at hidx
    next hlt =>
      rw [List.getElem?_drop] at hidx
      exact ⟨a + idx, hidx, Or.inl ⟨hin.1, hin.2, by omega, by omega⟩⟩
    next => cases hidx
  · refine ⟨p, ?_, Or.inr rfl⟩
    rw [Sl.getElem?_toList, s2, s4 p hin] at hv
    rw [Sl.getElem?_toList]; exact hv

/-- every vertex of `o` at position `p` sits in `op.order` at a position that no surviving divider separates from `p` -/
def DeageRearr (op : OP) (o : Sl Nat) : Prop :=
  ∀ p v, o.toList[p]? = some v →
    ∃ q, op.order.toList[q]? = some v ∧ ∀ d a, (d, a) ∈ divs op → a ≠ op.age → (d ≤ q ↔ d ≤ p)

theorem DeageRearr.init (op : OP) : DeageRearr op op.order :=
  fun p _ hv => ⟨p, hv, fun _ _ _ _ => Iff.rfl⟩

/-- a surviving divider does not lie strictly inside the range that is sorted at iteration `i` -/
theorem DeageInv.surviving_outside {n : Nat} {op : OP} {st : DeageSt} {i di : Nat} {a0 : Int} (h : PartInv n op)
    (hinv : DeageInv op i st) (hD : (divs op)[i]? = some (di, a0)) {d : Nat} {a : Int}
    (hmem : (d, a) ∈ divs op) (ha : a ≠ op.age) : d ≤ st.prevDiv ∨ di ≤ d := by
  obtain ⟨k, hk⟩ := List.mem_iff_getElem?.1 hmem
  obtain ⟨kb, ka⟩ := deage_divs_getElem?.1 hk
  obtain ⟨hb, _⟩ := deage_divs_getElem?.1 hD
  have hpd := hinv.prevDiv
  by_cases h1 : k < st.prev1
  · left
    by_cases h2 : k + 1 = st.prev1
    · rw [← h2, List.getElem?_cons_succ, kb] at hpd
      have := Option.some.inj hpd; omega
    · obtain ⟨m, hm⟩ : ∃ m, st.prev1 = m + 1 := ⟨st.prev1 - 1, by omega⟩
      rw [hm, List.getElem?_cons_succ] at hpd
      have hkb' : (0 :: op.binDividers.toList)[k + 1]? = some d := by simpa using kb
      have := h.deage_start_lt hkb' hpd (by omega)
      omega
  · by_cases h2 : k < i
    · exfalso
      obtain ⟨d', hd'⟩ := hinv.prevRemoved k (by omega) h2
      rw [hk] at hd'
      cases hd'
      exact ha rfl
    · right
      by_cases h3 : k = i
      · subst h3
        rw [kb] at hb
        have := Option.some.inj hb; omega
      · have hb' : (0 :: op.binDividers.toList)[i + 1]? = some di := by simpa using hb
        have := h.deage_start_lt hb' kb (by omega)
        omega

theorem DeageRearr.keep {n : Nat} {op : OP} {st : DeageSt} {i di : Nat} {a : Int} {bd : Sl Nat} {ages : Sl Int} {opm : OP}
    (h : PartInv n op) (hinv : DeageInv op i st) (h3 : DeageRearr op st.op.order)
    (hD : (divs op)[i]? = some (di, a))
    (hm : (if i > st.prev1 then deageMergeBin { st.op with binDividers := bd, binAges := ages } st.j st.prevDiv di
           else .ok { st.op with binDividers := bd, binAges := ages }) = .ok opm) :
    DeageRearr op opm.order := by
  by_cases hc : i > st.prev1
  · rw [if_pos hc] at hm
    obtain ⟨_, _, _, _, _, m6, _, _⟩ := deageMergeBin_spec hm
    simp only at m6
    have hw : st.op.order.WF := by
      have := h.wfOrder; unfold Sl.WF at this ⊢; rw [hinv.ordLen, hinv.ordSize]; exact this
    have hdi : di ≤ st.op.order.len := by
      rw [hinv.ordLen, h.lenOrder]
      exact h.deage_bd_le di (List.mem_of_getElem? (deage_divs_getElem?.1 hD).1)
    intro p v hv
    obtain ⟨p', hp', hcase⟩ := Sl.deage_sortRange_rearr hw hdi m6 p v hv
    obtain ⟨q, hq, hdiv⟩ := h3 p' v hp'
    refine ⟨q, hq, ?_⟩
    intro d a' hmem ha'
    rw [hdiv d a' hmem ha']
    rcases hcase with ⟨c1, c2, c3, c4⟩ | c
    · rcases hinv.surviving_outside h hD hmem ha' with ho | ho
      · constructor <;> intro _ <;> omega
      · constructor <;> intro _ <;> omega
    · rw [c]
  · rw [if_neg hc] at hm
    simp only [Outcome.ok.injEq] at hm
    subst hm
    exact h3

theorem deageStep_rearr {n : Nat} {op : OP} {st st' : DeageSt} {i : Nat} (h : PartInv n op) (hinv : DeageInv op i st)
    (h3 : DeageRearr op st.op.order) (hi : i < op.binAges.len) (hs : deageStep op.age i st = .ok st') :
    DeageRearr op st'.op.order := by
  obtain ⟨di, a, g1, g3, hD⟩ := hinv.entry h hi
  rw [deageStep_eq, g3] at hs
  simp only at hs
  by_cases ha : a = op.age
  · subst ha
    rw [if_neg (fun h => h rfl)] at hs
    simp only [Outcome.ok.injEq] at hs
    subst hs
    exact h3
  · rw [if_pos ha, g1] at hs
    simp only at hs
    cases hs1 : st.op.binDividers.set st.j di with
    | ok bd =>
      cases hs2 : st.op.binAges.set st.j a with
      | ok ages =>
        rw [hs1, hs2] at hs
        simp only at hs
        generalize hm : (if i > st.prev1 then deageMergeBin { st.op with binDividers := bd, binAges := ages } st.j st.prevDiv di
           else .ok { st.op with binDividers := bd, binAges := ages }) = m at hs
        cases m with
        | ok opm =>
          simp only [Outcome.ok.injEq] at hs
          subst hs
          exact DeageRearr.keep h hinv h3 hD hm
        | panic => cases hs
        | outOfFuel => cases hs
      | panic => rw [hs1, hs2] at hs; cases hs
      | outOfFuel => rw [hs1, hs2] at hs; cases hs
    | panic => rw [hs1] at hs; cases hs
    | outOfFuel => rw [hs1] at hs; cases hs

theorem deage_loop_rearr {n : Nat} {op : OP} {st : DeageSt} (h : PartInv n op)
    (hloop : forRange (deageStep op.age) op.binAges.len 0 { op := op, j := 0, prev1 := 0, prevDiv := 0 } = .ok st) :
    DeageInv op op.binAges.len st ∧ DeageRearr op st.op.order := by
  have := forRange_inv (deageStep op.age) (fun i st => DeageInv op i st ∧ DeageRearr op st.op.order) op.binAges.len 0 _ st
    ⟨DeageInv.init op, DeageRearr.init op⟩
    (fun i s s' _ hi hP hs => ⟨deageStep_inv h hP.1 (by omega) hs, deageStep_rearr h hP.1 hP.2 (by omega) hs⟩) hloop
  simpa using this

/-- `deage` only re-sorts `order` inside the merged bins: every vertex stays between the same surviving dividers -/
theorem deage_rearr {n : Nat} {op op' : OP} (h : PartInv n op) (ha : AgeInv op) (hage : 0 < op.age)
    (hd : deage op = .ok op') :
    ∀ p v, op'.order.toList[p]? = some v →
      ∃ q, op.order.toList[q]? = some v ∧ ∀ d a, (d, a) ∈ divs op → a ≠ op.age → (d ≤ q ↔ d ≤ p) := by
  obtain ⟨st, hloop⟩ := deage_loop_of_ok hd
  obtain ⟨hinv, h3⟩ := deage_loop_rearr h hloop
  obtain ⟨op'', hd', _, e1, _, _⟩ := deage_of_loop h ha hage hloop hinv
  rw [hd] at hd'
  cases hd'
  rw [e1]
  exact h3

end CanonF
