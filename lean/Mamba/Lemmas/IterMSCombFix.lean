import Mamba.Lemmas.IterMSCombFull
/-!
# MultisetCombinations after the repair of finding F1

Algorithm Q runs on the types with a positive multiplicity (`posTypes m`) and the counts are scattered back to their
positions in `m` (`scatterL`). The results of `IterMSCombInv` / `IterMSCombFull` apply to the inner run (all
multiplicities are `≥ 1` there), this file adds the scattering and assembles the theorem for ALL `m ≥ 0`, `k ≥ 0`.
-/
set_option linter.unusedSimpArgs false

namespace Iter.Spec

/-- the multiplicities that are `> 0`, in order -/
def posTypes (m : List Int) : List Int := m.filter (fun v => v > 0)

/-- put the counts `c` of the positive types back at their positions in `m`; the other entries are 0 -/
def scatterL : List Int → List Int → List Int
  | [], _ => []
  | v :: ms, c => if v > 0 then c.headD 0 :: scatterL ms c.tail else 0 :: scatterL ms c

end Iter.Spec

namespace Iter
open Spec

theorem scatterL_length : ∀ (m c : List Int), (scatterL m c).length = m.length := by
  intro m
  induction m with
  | nil => intro c; rfl
  | cons v ms ih => intro c; simp only [scatterL]; split <;> simp [ih]

/-- entries of a `freq` buffer at the types without copies are 0 -/
def ZeroAt (m f : List Int) : Prop := List.Forall₂ (fun v x => v > 0 ∨ x = 0) m f

theorem zeroAt_scatterL : ∀ (m c : List Int), ZeroAt m (scatterL m c) := by
  intro m
  induction m with
  | nil => intro c; exact List.Forall₂.nil
  | cons v ms ih =>
    intro c
    simp only [scatterL]
    split
    · next h => exact List.Forall₂.cons (Or.inl h) (ih _)
    · exact List.Forall₂.cons (Or.inr rfl) (ih _)

theorem zeroAt_replicate (m : List Int) : ZeroAt m (List.replicate m.length 0) := by
  induction m with
  | nil => exact List.Forall₂.nil
  | cons v ms ih => exact List.Forall₂.cons (Or.inr rfl) ih

theorem posTypes_cons_pos (v : Int) (ms : List Int) (h : v > 0) : posTypes (v :: ms) = v :: posTypes ms := by
  simp [posTypes, h]

theorem posTypes_cons_nonpos (v : Int) (ms : List Int) (h : ¬ v > 0) : posTypes (v :: ms) = posTypes ms := by
  simp [posTypes, h]

/-- the scatter loop of `Next()` -/
theorem scatter_spec (st : Sl) : ∀ (rest : List Int) (i : Nat) (fpre fsuf : Sl),
    (st.drop i).length = (posTypes rest).length → ZeroAt rest fsuf →
    MSComb.scatter st rest (i : Int) (fpre.length : Int) (fpre ++ fsuf) = .ok (fpre ++ scatterL rest (st.drop i)) := by
  intro rest
  induction rest with
  | nil =>
    intro i fpre fsuf _ hz
    cases hz
    simp [MSComb.scatter, scatterL]
  | cons v rest ih =>
    intro i fpre fsuf hl hz
    cases hz with
    | @cons _ f _ fs hvf hz' =>
      unfold MSComb.scatter
      by_cases hv : v > 0
      · simp only [hv, if_true]
        rw [posTypes_cons_pos v rest hv] at hl
        have hi : i < st.length := by
          simp only [List.length_drop, List.length_cons] at hl; omega
        have hg : get st (i : Int) = .ok st[i] := by rw [get_natCast]; simp [hi]
        rw [hg]
        simp only [Outcome.bind_ok]
        rw [set_append_length]
        simp only [Outcome.bind_ok]
        have hc1 : ((i : Int) + 1) = ((i + 1 : Nat) : Int) := by push_cast; rfl
        have hc2 : ((fpre.length : Int) + 1) = (((fpre ++ [st[i]]).length : Nat) : Int) := by simp
        have e : fpre ++ st[i] :: fs = (fpre ++ [st[i]]) ++ fs := by simp
        rw [hc1, hc2, e, ih (i + 1) (fpre ++ [st[i]]) fs (by
          simp only [List.length_drop, List.length_cons] at hl ⊢; omega) hz']
        have hd : st.drop i = st[i] :: st.drop (i + 1) := (List.drop_eq_getElem_cons hi)
        rw [hd]
        simp [scatterL, hv, List.getElem?_eq_getElem hi]
      · simp only [hv, if_false]
        rw [posTypes_cons_nonpos v rest hv] at hl
        have hf : f = 0 := by
          rcases hvf with h | h
          · exact absurd h hv
          · exact h
        subst hf
        have hc2 : ((fpre.length : Int) + 1) = (((fpre ++ [0]).length : Nat) : Int) := by simp
        have e : fpre ++ (0 : Int) :: fs = (fpre ++ [0]) ++ fs := by simp
        rw [hc2, e, ih i (fpre ++ [0]) fs hl hz']
        simp [scatterL, hv]

theorem InFam_cons_iff (a x : Int) (ms cs : List Int) (k : Int) :
    InFam (a :: ms) k (x :: cs) ↔ 0 ≤ x ∧ x ≤ a ∧ InFam ms (k - x) cs := by
  constructor
  · rintro ⟨hl, hb, hs⟩
    have h0 := hb 0 (by simp)
    rw [G_cons_zero, G_cons_zero] at h0
    refine ⟨h0.1, h0.2, by simpa using hl, ?_, by simp only [List.sum_cons] at hs; omega⟩
    intro i hi
    have := hb (i + 1) (by simpa using hi)
    rwa [G_cons_succ, G_cons_succ] at this
  · rintro ⟨h1, h2, hl, hb, hs⟩
    refine ⟨by simp [hl], ?_, by simp only [List.sum_cons]; omega⟩
    intro i hi
    cases i with
    | zero => rw [G_cons_zero, G_cons_zero]; exact ⟨h1, h2⟩
    | succ i => rw [G_cons_succ, G_cons_succ]; exact hb i (by simpa using hi)

theorem InFam_nil_iff (k : Int) (c : List Int) : InFam [] k c ↔ c = [] ∧ k = 0 := by
  constructor
  · rintro ⟨hl, _, hs⟩
    have : c = [] := List.length_eq_zero_iff.mp (by simpa using hl)
    subst this
    exact ⟨rfl, by simpa using hs.symm⟩
  · rintro ⟨rfl, rfl⟩
    exact ⟨rfl, by intro i hi; simp at hi, rfl⟩

/-- scattering maps the family of the positive types into the family of `m` -/
theorem InFam_scatterL : ∀ (m : List Int) (k : Int) (c : List Int), (∀ v ∈ m, 0 ≤ v) →
    InFam (posTypes m) k c → InFam m k (scatterL m c) := by
  intro m
  induction m with
  | nil =>
    intro k c _ h
    obtain ⟨rfl, rfl⟩ := (InFam_nil_iff k c).mp (by simpa [posTypes] using h)
    exact (InFam_nil_iff _ _).mpr ⟨rfl, rfl⟩
  | cons v ms ih =>
    intro k c hm h
    have hms : ∀ w ∈ ms, 0 ≤ w := fun w hw => hm w (by simp [hw])
    by_cases hv : v > 0
    · rw [posTypes_cons_pos v ms hv] at h
      cases c with
      | nil => have := h.1; simp at this
      | cons x cs =>
        obtain ⟨h1, h2, h3⟩ := (InFam_cons_iff v x (posTypes ms) cs k).mp h
        simp only [scatterL, hv, if_true, List.headD_cons, List.tail_cons]
        exact (InFam_cons_iff v x ms _ k).mpr ⟨h1, h2, ih (k - x) cs hms h3⟩
    · rw [posTypes_cons_nonpos v ms hv] at h
      have hv0 : v = 0 := by have := hm v (by simp); omega
      simp only [scatterL, hv, if_false]
      exact (InFam_cons_iff v 0 ms _ k).mpr ⟨Int.le_refl _, by omega, by simpa using ih k c hms h⟩

/-- every member of the family of `m` is the scattering of a member of the family of the positive types -/
theorem exists_scatterL : ∀ (m : List Int) (k : Int) (c : List Int), (∀ v ∈ m, 0 ≤ v) → InFam m k c →
    ∃ c', InFam (posTypes m) k c' ∧ scatterL m c' = c := by
  intro m
  induction m with
  | nil =>
    intro k c _ h
    obtain ⟨rfl, rfl⟩ := (InFam_nil_iff k c).mp h
    exact ⟨[], by simpa [posTypes] using h, rfl⟩
  | cons v ms ih =>
    intro k c hm h
    have hms : ∀ w ∈ ms, 0 ≤ w := fun w hw => hm w (by simp [hw])
    cases c with
    | nil => have := h.1; simp at this
    | cons x cs =>
      obtain ⟨h1, h2, h3⟩ := (InFam_cons_iff v x ms cs k).mp h
      obtain ⟨cs', g1, g2⟩ := ih (k - x) cs hms h3
      by_cases hv : v > 0
      · refine ⟨x :: cs', ?_, by simp [scatterL, hv, g2]⟩
        rw [posTypes_cons_pos v ms hv]
        exact (InFam_cons_iff v x _ cs' k).mpr ⟨h1, h2, g1⟩
      · have hx : x = 0 := by omega
        subst hx
        refine ⟨cs', ?_, by simp [scatterL, hv, g2]⟩
        rw [posTypes_cons_nonpos v ms hv]
        simpa using g1

theorem scatterL_injective : ∀ (m a b : List Int), a.length = (posTypes m).length → b.length = (posTypes m).length →
    scatterL m a = scatterL m b → a = b := by
  intro m
  induction m with
  | nil =>
    intro a b ha hb _
    have h1 : a = [] := List.length_eq_zero_iff.mp (by simpa [posTypes] using ha)
    have h2 : b = [] := List.length_eq_zero_iff.mp (by simpa [posTypes] using hb)
    rw [h1, h2]
  | cons v ms ih =>
    intro a b ha hb h
    by_cases hv : v > 0
    · rw [posTypes_cons_pos v ms hv] at ha hb
      cases a with
      | nil => simp at ha
      | cons x as =>
        cases b with
        | nil => simp at hb
        | cons y bs =>
          simp only [scatterL, hv, if_true, List.headD_cons, List.tail_cons, List.cons.injEq] at h
          rw [h.1, ih as bs (by simpa using ha) (by simpa using hb) h.2]
    · rw [posTypes_cons_nonpos v ms hv] at ha hb
      simp only [scatterL, hv, if_false, List.cons.injEq, true_and] at h
      exact ih a b ha hb h

theorem posTypes_pos (m : List Int) : ∀ v ∈ posTypes m, 0 < v := by
  intro v hv
  simp only [posTypes, List.mem_filter, decide_eq_true_eq] at hv
  exact hv.2

end Iter

namespace Iter
open Spec

theorem msKnownBad_of_pos (l : List Int) (h : ∀ v ∈ l, 0 < v) : msKnownBad l = false := by
  unfold msKnownBad
  split
  · have := h 0 (by simp); omega
  · have := h 0 (by simp); omega
  · rfl

theorem posTypes_nonneg (m : List Int) : ∀ v ∈ posTypes m, 0 ≤ v := fun v hv => by
  have := posTypes_pos m v hv; omega

/-- the wrapper `Next()` around a successful `next()`: the counts are scattered back -/
theorem MSComb.next_wrap_true (all : List Int) (s s1 : MSComb) (c' : List Int) (hd : s.done = false)
    (h0 : MSComb.next0 s = .ok (s1, true)) (hall : s1.all = all) (hst : s1.state = some c')
    (hlen : c'.length = (posTypes all).length)
    (hfr : s1.freq = none ∨ ∃ f, s1.freq = some f ∧ ZeroAt all f) :
    MSComb.next s = .ok ({ s1 with freq := some (scatterL all c') }, true) := by
  have hsc : ∀ f, ZeroAt all f → MSComb.scatter c' all 0 0 f = .ok (scatterL all c') := by
    intro f hz
    have := scatter_spec c' all 0 [] f (by simpa using hlen) hz
    simpa using this
  unfold MSComb.next
  simp only [hd, Bool.false_eq_true, if_false, h0, Outcome.bind_ok, if_true, hst, Option.getD_some, hall]
  rcases hfr with hn | ⟨f, hf, hz⟩
  · have : MSComb.freqBuf s1 = .ok (List.replicate all.length 0) := by
      simp [MSComb.freqBuf, hn, hall, make]
    simp only [this, Outcome.bind_ok, hsc _ (zeroAt_replicate all), Outcome.pure_eq]
  · have : MSComb.freqBuf s1 = .ok f := by simp [MSComb.freqBuf, hf]
    simp only [this, Outcome.bind_ok, hsc f hz, Outcome.pure_eq]

theorem MSComb.next_wrap_false (s s1 : MSComb) (hd : s.done = false) (h0 : MSComb.next0 s = .ok (s1, false)) :
    MSComb.next s = .ok ({ s1 with done := true }, false) := by
  simp [MSComb.next, hd, h0]

/-- `Value()`/`FreqValue()` on a state whose `freq` holds the vector `c` -/
theorem MSComb.valueOp_ok2 (m : List Int) (k : Int) (s : MSComb) (c : List Int) (hs : s.freq = some c)
    (hfam : InFam m k c) (hval : s.value.length = k.toNat) (hk : 0 ≤ k) :
    ∃ val, MSComb.valueOp s = .ok ({ s with value := val }, (c, expandList 0 c)) ∧ val.length = k.toNat := by
  have hnn := hfam.mem_nonneg
  obtain ⟨val, he⟩ := expand_total c 0 0 s.value hnn (by rw [hfam.2.2, hval]; simp; omega)
  have he' : MSComb.expand c 0 0 s.value = .ok val := by simpa using he
  obtain ⟨x1, x2⟩ := expand_spec c 0 [] s.value val (by simpa using he')
  simp only [List.nil_append] at x1 x2
  have hlen := expandList_length_of_nonneg c 0 hnn
  rw [hfam.2.2] at hlen
  have hdrop : s.value.drop (expandList 0 c).length = [] := by
    apply List.drop_eq_nil_of_le
    rw [hval]; omega
  rw [hdrop, List.append_nil] at x1
  refine ⟨val, ?_, by rw [← x2]; exact hval⟩
  simp only [MSComb.valueOp, hs, Option.getD_some, he', Outcome.bind_ok, Outcome.pure_eq, x1]


/-- the state shows the value `p` = (count vector indexed like `all`, its expansion): the inner state holds the counts
`c` of the positive types, satisfies the invariant of Algorithm Q, `freq` is the scattered vector -/
def MSComb.Rep2 (all : List Int) (k : Int) (s : MSComb) (p : Sl × Sl) : Prop :=
  ∃ c, p.1 = scatterL all c ∧ p.2 = expandList 0 p.1 ∧ s.done = false ∧ s.all = all ∧ s.m = posTypes all ∧
    s.k = k ∧ s.state = some c ∧ s.freq = some p.1 ∧ InFam (posTypes all) k c ∧ s.value.length = k.toNat ∧
    (k = 0 ∨ (MGood (posTypes all) ∧ ∃ j : Nat, s.j = (j : Int) ∧
      (ISat (posTypes all) c j ∨ IZero (posTypes all) c j)))

/-- successor relation on values -/
def MSComb.R2 (all : List Int) (p q : Sl × Sl) : Prop :=
  ∃ c c', p.1 = scatterL all c ∧ q.1 = scatterL all c' ∧
    MsNextN (posTypes all) (posTypes all).length c c' ∧ q.2 = expandList 0 q.1

theorem InFam.PS_le {m : List Int} {k : Int} {c : List Int} (hfam : InFam m k c) (j : Nat) (hj : j ≤ m.length) :
    PS c j ≤ k := by
  have := PS_mono' c m.length (fun i hi => (hfam.2.1 i hi).1) j m.length hj (le_refl _)
  rw [PS_ge c m.length (by rw [hfam.1]), hfam.2.2] at this
  exact this

theorem MSComb.next_step2 (all : List Int) (k : Int) (hk : 0 ≤ k) (s : MSComb) (x y : Sl × Sl)
    (hR : MSComb.R2 all x y) (hrep : MSComb.Rep2 all k s x) :
    ∃ s', MSComb.next s = .ok (s', true) ∧ MSComb.Rep2 all k s' y := by
  obtain ⟨c1, hx1, hx2, hd, hall, hsm, hsk, hs, hfr, hfam, hval, hcase⟩ := hrep
  obtain ⟨c, c', hxc, hyc, hnext, hy2⟩ := hR
  have hlc : c.length = (posTypes all).length := by
    obtain ⟨j, _, _, _, _, _, hl, _⟩ := id hnext; exact hl
  have hc : c = c1 := scatterL_injective all c c1 hlc hfam.1 (by rw [← hxc, ← hx1])
  subst hc
  have hkpos : 0 < k := by
    obtain ⟨j, _, a2, _, a4, _⟩ := id hnext
    have := InFam.PS_le hfam j (by omega)
    omega
  rcases hcase with hk0 | ⟨hgood, j, hsj, hinv⟩
  · omega
  · obtain ⟨s', b, h0, ht, hf⟩ := MSComb.next0_step (posTypes all) k hgood hkpos s c j hs hsm hsk hsj hfam hinv
    cases b with
    | false => exact absurd (hf rfl) hnext.not_noNext
    | true =>
      obtain ⟨c'', hs'', hn''⟩ := ht rfl
      have hyc' : c'' = c' := hn''.unique hnext
      subst hyc'
      obtain ⟨c2, j', e1, e2, e3, e4, e5, e6, f1, f2, e7, e8⟩ :=
        MSComb.next0_some (posTypes all) k hgood hkpos s s' c j hs hsm hsk hsj hfam hinv h0
      have : c2 = c'' := by rw [e1] at hs''; simpa using hs''
      subst this
      have hw := MSComb.next_wrap_true all s s' c2 hd h0 (by rw [e7]; exact hall) e1 f1.1
        (Or.inr ⟨x.1, by rw [e8]; exact hfr, by rw [hx1]; exact zeroAt_scatterL all c⟩)
      refine ⟨_, hw, c2, hyc, hy2, by simp [e5, hd], by simp [e7, hall], by simp [e2], by simp [e3], by simp [e1],
        by simp [hyc], f1, by simp [e6, hval], Or.inr ⟨hgood, j', by simp [e4], f2⟩⟩

theorem MSComb.next_last2 (all : List Int) (k : Int) (hk : 0 ≤ k) (s : MSComb) (x : Sl × Sl) (c0 : List Int)
    (hx : x.1 = scatterL all c0) (hl0 : c0.length = (posTypes all).length)
    (hno : NoNextN (posTypes all) (posTypes all).length c0) (hrep : MSComb.Rep2 all k s x) :
    ∃ s', MSComb.next s = .ok (s', false) ∧ s'.done = true := by
  obtain ⟨c1, hx1, hx2, hd, hall, hsm, hsk, hs, hfr, hfam, hval, hcase⟩ := hrep
  have hc : c0 = c1 := scatterL_injective all c0 c1 hl0 hfam.1 (by rw [← hx, ← hx1])
  subst hc
  have hzero : k = 0 → MSComb.next0 s = .ok (s, false) := by
    intro hk0
    unfold MSComb.next0
    simp [hs, hsk, hk0]
  rcases hcase with hk0 | ⟨hgood, j, hsj, hinv⟩
  · exact ⟨_, MSComb.next_wrap_false s s hd (hzero hk0), rfl⟩
  · by_cases hk0 : k = 0
    · exact ⟨_, MSComb.next_wrap_false s s hd (hzero hk0), rfl⟩
    · obtain ⟨s', b, h0, ht, hf⟩ :=
        MSComb.next0_step (posTypes all) k hgood (by omega) s c0 j hs hsm hsk hsj hfam hinv
      cases b with
      | true =>
        obtain ⟨c'', _, hn''⟩ := ht rfl
        exact absurd hno hn''.not_noNext
      | false => exact ⟨_, MSComb.next_wrap_false s s' hd h0, rfl⟩

/-- the first call of `Next()` -/
theorem MSComb.next_init2 (all : List Int) (k : Int) (hk : 0 ≤ k) :
    (k ≤ PS (posTypes all) (posTypes all).length → ∃ s' c, MSComb.next (MSComb.init all k) = .ok (s', true) ∧
        IsGreedyN (posTypes all) (posTypes all).length k c ∧
        MSComb.Rep2 all k s' (scatterL all c, expandList 0 (scatterL all c))) ∧
    (PS (posTypes all) (posTypes all).length < k →
      ∃ s', MSComb.next (MSComb.init all k) = .ok (s', false) ∧ s'.done = true) := by
  have hm' := posTypes_nonneg all
  have hb := msKnownBad_of_pos (posTypes all) (posTypes_pos all)
  obtain ⟨s', b, h0, hd, ht, hf⟩ := MSComb.next0_first (posTypes all) k hm' hk (MSComb.init all k) rfl rfl rfl
  constructor
  · intro hle
    obtain ⟨hbt, c, hsc, hgr⟩ := ht hle
    subst hbt
    obtain ⟨c', e1, e2, e3, e4, f1, f2, e7, e8⟩ :=
      MSComb.next0_none (posTypes all) k hm' hk hb (MSComb.init all k) s' rfl rfl rfl h0
    have : c' = c := by rw [e1] at hsc; simpa using hsc
    subst this
    have hw := MSComb.next_wrap_true all (MSComb.init all k) s' c' rfl h0 (by rw [e7]; rfl) e1 f1.1
      (Or.inl (by rw [e8]; rfl))
    refine ⟨_, c', hw, hgr, c', rfl, rfl, by simp [hd]; rfl, by simp [e7]; rfl, by simp [e2], by simp [e3],
      by simp [e1], rfl, f1, by simp [e4], ?_⟩
    rcases f2 with f2 | ⟨g1, j, g2, g3⟩
    · exact Or.inl f2
    · exact Or.inr ⟨g1, j, by simp [g2], Or.inl g3⟩
  · intro hlt
    have hbf := hf hlt
    subst hbf
    exact ⟨_, MSComb.next_wrap_false _ s' rfl h0, rfl⟩


end Iter

namespace Iter.Spec

/-- the family of `MultisetCombinations(m, k)` (count vectors indexed like `m`) in the order of generation: the
vectors of the positive types in colexicographic order, scattered back -/
def msList (m : List Int) (k : Int) : List (List Int) := (msColexList (posTypes m) k).map (scatterL m)

end Iter.Spec

namespace Iter
open Spec

/-- `MultisetCombinations(m, k)` after the repair: for ALL `m ≥ 0` and `k ≥ 0` the values are the pairs (count
vector, expansion) for the vectors of `msList m k`, in that order; no panic; then `Next()` is false for ever. -/
theorem MSComb.enumerates2_lemma (m : List Int) (k : Int) (hm : ∀ v ∈ m, 0 ≤ v) (hk : 0 ≤ k) :
    ∀ bound, (msList m k).length < bound →
      ∃ s', outputs MSComb.it bound (MSComb.init m k) =
          ((msList m k).map (fun c => (c, expandList 0 c)), s', .exhausted) ∧
        ∀ n, extras MSComb.it n s' = .ok (List.replicate n none) := by
  intro bound hbound
  have hnn := G_nonneg_all (posTypes m) (posTypes_nonneg m)
  obtain ⟨hinit1, hinit2⟩ := MSComb.next_init2 m k hk
  have hL : (msList m k).map (fun c => (c, expandList 0 c)) =
      (msColexList (posTypes m) k).map (fun c => (scatterL m c, expandList 0 (scatterL m c))) := by
    simp [msList, List.map_map, Function.comp_def]
  rw [hL]
  have key := enumerates_aux MSComb.it (MSComb.Rep2 m k) (fun s => s.done = true) (MSComb.R2 m) (MSComb.init m k)
    ((msColexList (posTypes m) k).map (fun c => (scatterL m c, expandList 0 (scatterL m c))))
    (by
      rw [List.isChain_map]
      exact (msColexN_isChain (posTypes m) hnn (posTypes m).length k).imp
        (fun a b hab => ⟨a, b, rfl, rfl, hab, rfl⟩))
    (by
      rintro s ⟨p1, p2⟩ hrep
      obtain ⟨c, hx1, hx2, hd, hall, hsm, hsk, hs, hfr, hfam, hval, hcase⟩ := id hrep
      simp only at hx1 hx2 hfr
      have hfam' : InFam m k p1 := by rw [hx1]; exact InFam_scatterL m k c hm hfam
      obtain ⟨val, e1, e2⟩ := MSComb.valueOp_ok2 m k s p1 hfr hfam' hval hk
      refine ⟨{ s with value := val }, by rw [hx2]; exact e1, c, hx1, hx2, hd, hall, hsm, hsk, hs, hfr, hfam, e2, hcase⟩)
    (by
      intro hnil
      have hnil' : msColexList (posTypes m) k = [] := by simpa using hnil
      have : PS (posTypes m) (posTypes m).length < k := by
        by_contra hc
        exact (msColexN_chain (posTypes m) hnn (posTypes m).length k hk (by omega)).1 hnil'
      exact hinit2 this)
    (by
      intro x hx
      simp only [List.head?_map, Option.mem_def, Option.map_eq_some_iff] at hx
      obtain ⟨c0, hc0, rfl⟩ := hx
      have hmem := List.mem_of_mem_head? hc0
      have hsb := InFamN.sum_bounds ((mem_msColexList (posTypes m) k c0).mp hmem)
      obtain ⟨_, _, h3, _⟩ := msColexN_chain (posTypes m) hnn (posTypes m).length k hsb.1 hsb.2
      obtain ⟨s', c, e1, e2, e3⟩ := hinit1 hsb.2
      have : c = c0 := e2.unique (h3 c0 hc0)
      subst this
      exact ⟨s', e1, e3⟩)
    (fun x y hR s hrep => MSComb.next_step2 m k hk s x y hR hrep)
    (by
      intro x hx s hrep
      simp only [List.getLast?_map, Option.mem_def, Option.map_eq_some_iff] at hx
      obtain ⟨c0, hc0, rfl⟩ := hx
      have hmem := List.mem_of_mem_getLast? hc0
      have hfam0 := (mem_msColexList (posTypes m) k c0).mp hmem
      have hsb := InFamN.sum_bounds hfam0
      obtain ⟨_, _, _, h4⟩ := msColexN_chain (posTypes m) hnn (posTypes m).length k hsb.1 hsb.2
      exact MSComb.next_last2 m k hk s _ c0 rfl hfam0.1 (h4 c0 hc0) hrep)
    (by
      intro s hs
      exact ⟨s, by simp [MSComb.it, MSComb.next, hs], hs⟩)
    bound (by simpa [msList] using hbound)
  obtain ⟨s', h1, _, h3⟩ := key
  exact ⟨s', h1, h3⟩

/-- membership: exactly the count vectors within the multiplicities and with total `k` -/
theorem mem_msList (m : List Int) (k : Int) (hm : ∀ v ∈ m, 0 ≤ v) (c : List Int) :
    c ∈ msList m k ↔ c.length = m.length ∧ (∀ i, i < m.length → 0 ≤ G c i ∧ G c i ≤ G m i) ∧ c.sum = k := by
  show c ∈ msList m k ↔ InFam m k c
  simp only [msList, List.mem_map]
  constructor
  · rintro ⟨c', hc', rfl⟩
    exact InFam_scatterL m k c' hm ((mem_msColexList (posTypes m) k c').mp hc')
  · intro h
    obtain ⟨c', h1, h2⟩ := exists_scatterL m k c hm h
    exact ⟨c', (mem_msColexList (posTypes m) k c').mpr h1, h2⟩

theorem msList_nodup (m : List Int) (k : Int) : (msList m k).Nodup := by
  apply List.Nodup.map_on _ (msColexList_nodup (posTypes m) k (posTypes_nonneg m))
  intro a ha b hb hab
  exact scatterL_injective m a b ((mem_msColexList (posTypes m) k a).mp ha).1
    ((mem_msColexList (posTypes m) k b).mp hb).1 hab

theorem msList_perm_msFamily (m : List Int) (k : Int) (hm : ∀ v ∈ m, 0 ≤ v) : (msList m k).Perm (msFamily m k) :=
  (List.perm_ext_iff_of_nodup (msList_nodup m k) (msFamily_nodup m k)).mpr (fun c => by
    rw [mem_msList m k hm c]
    exact ⟨fun h => mem_msFamily_of_InFam m k c h, fun h => InFam_of_mem_msFamily m k c hm h⟩)

end Iter

namespace Iter
open Spec

theorem MsColexLt_cons_iff (x y : Int) (a b : List Int) :
    MsColexLt (x :: a) (y :: b) ↔ MsColexLt a b ∨ (x < y ∧ ∀ i, G a i = G b i) := by
  constructor
  · rintro ⟨j, h1, h2⟩
    cases j with
    | zero =>
      right
      rw [G_cons_zero, G_cons_zero] at h1
      refine ⟨h1, fun i => ?_⟩
      have := h2 (i + 1) (by omega)
      rwa [G_cons_succ, G_cons_succ] at this
    | succ j =>
      left
      rw [G_cons_succ, G_cons_succ] at h1
      refine ⟨j, h1, fun i hi => ?_⟩
      have := h2 (i + 1) (by omega)
      rwa [G_cons_succ, G_cons_succ] at this
  · rintro (⟨j, h1, h2⟩ | ⟨h1, h2⟩)
    · refine ⟨j + 1, by rw [G_cons_succ, G_cons_succ]; exact h1, fun i hi => ?_⟩
      obtain ⟨t, rfl⟩ : ∃ t, i = t + 1 := ⟨i - 1, by omega⟩
      rw [G_cons_succ, G_cons_succ]; exact h2 t (by omega)
    · refine ⟨0, by rw [G_cons_zero, G_cons_zero]; exact h1, fun i hi => ?_⟩
      obtain ⟨t, rfl⟩ : ∃ t, i = t + 1 := ⟨i - 1, by omega⟩
      rw [G_cons_succ, G_cons_succ]; exact h2 t

/-- scattering preserves the colexicographic order -/
theorem scatterL_mono : ∀ (m a b : List Int), a.length = (posTypes m).length → b.length = (posTypes m).length →
    MsColexLt a b → MsColexLt (scatterL m a) (scatterL m b) := by
  intro m
  induction m with
  | nil =>
    intro a b ha hb h
    have h1 : a = [] := List.length_eq_zero_iff.mp (by simpa [posTypes] using ha)
    have h2 : b = [] := List.length_eq_zero_iff.mp (by simpa [posTypes] using hb)
    subst h1 h2
    exact absurd rfl h.ne
  | cons v ms ih =>
    intro a b ha hb h
    by_cases hv : v > 0
    · rw [posTypes_cons_pos v ms hv] at ha hb
      cases a with
      | nil => simp at ha
      | cons x as =>
        cases b with
        | nil => simp at hb
        | cons y bs =>
          simp only [scatterL, hv, if_true, List.headD_cons, List.tail_cons]
          rcases (MsColexLt_cons_iff x y as bs).mp h with h1 | ⟨h1, h2⟩
          · exact (MsColexLt_cons_iff _ _ _ _).mpr (Or.inl (ih as bs (by simpa using ha) (by simpa using hb) h1))
          · have : as = bs := G_ext as bs (by simp at ha hb; omega) (fun i _ => h2 i)
            subst this
            exact (MsColexLt_cons_iff _ _ _ _).mpr (Or.inr ⟨h1, fun _ => rfl⟩)
    · rw [posTypes_cons_nonpos v ms hv] at ha hb
      simp only [scatterL, hv, if_false]
      exact (MsColexLt_cons_iff _ _ _ _).mpr (Or.inl (ih a b ha hb h))

theorem msList_sorted (m : List Int) (k : Int) : (msList m k).Pairwise MsColexLt := by
  simp only [msList]
  rw [List.pairwise_map]
  have hs := msColexList_sorted (posTypes m) k (posTypes_nonneg m)
  have hmem : ∀ a ∈ msColexList (posTypes m) k, a.length = (posTypes m).length :=
    fun a ha => ((mem_msColexList (posTypes m) k a).mp ha).1
  exact hs.imp_of_mem (fun {a b} ha hb h => scatterL_mono m a b (hmem a ha) (hmem b hb) h)

/-- the generation order is the colexicographic order of the count vectors indexed like `m` -/
theorem msList_eq_msColexList (m : List Int) (k : Int) (hm : ∀ v ∈ m, 0 ≤ v) : msList m k = msColexList m k := by
  apply List.Perm.eq_of_pairwise (le := MsColexLt) _ (msList_sorted m k) (msColexList_sorted m k hm)
    ((msList_perm_msFamily m k hm).trans (msColexList_perm_msFamily m k hm).symm)
  intro a b _ _ h1 h2
  exact absurd rfl (h1.trans h2).ne

/-- `MultisetCombinations(m, k)` after the repair, all `m ≥ 0`, all `k ≥ 0` -/
theorem MSComb.enumerates_lemma (m : List Int) (k : Int) (hm : ∀ v ∈ m, 0 ≤ v) (hk : 0 ≤ k) :
    ∀ bound, (msColexList m k).length < bound →
      ∃ s', outputs MSComb.it bound (MSComb.init m k) =
          ((msColexList m k).map (fun c => (c, expandList 0 c)), s', .exhausted) ∧
        ∀ n, extras MSComb.it n s' = .ok (List.replicate n none) := by
  rw [← msList_eq_msColexList m k hm]
  exact MSComb.enumerates2_lemma m k hm hk

end Iter
