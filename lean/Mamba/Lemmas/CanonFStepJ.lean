import Mamba.Lemmas.CanonFStep
/-!
# The stepping loops with invariants of the whole loop state (faithful model `Model/CanonF.lean`)

`StepQ` (CanonFStep.lean) carries predicates on the ordered partition through `jLoop` / `stepLoop`. The set of children of
a search-tree node that have been processed is recorded in `choices`, not in the partition, so the bookkeeping of the
depth-first search needs predicates on the loop state `LS` (and the ghost stack of target cells `lv`). `StepJ` lists the
transitions of the two loops; `jLoopJ_spec` / `stepLoopJ_spec` are `jLoop_spec` / `stepLoop_spec` for such predicates.
`JA` holds at all times, `JN` after a `deage` / a skipped `deage` (the partition is the node of the top frame), `JS` after a
`splitBin` that has not reported "worse".
-/
namespace CanonF

structure StepJ (n : Nat) (nb : Nbrs) (JA JN JS : List (Nat × Nat) → LS → Prop) : Prop where
  na : ∀ lv s, JN lv s → JA lv s
  /-- `maybeDeage` with `skipDeage = false` -/
  deage : ∀ lv s op' k, Core n s → TopOK s.op k s.path s.choices lv → s.skipDeage = false →
    s.op.age = s.path.length → JA lv s → deage s.op = .ok op' → JN lv { s with op := op' }
  /-- `maybeDeage` with `skipDeage = true` -/
  noskip : ∀ lv s, s.skipDeage = true → JN lv s → JN lv { s with skipDeage := false }
  /-- Heuristic 2 on the first-leaf path skips the child at position `c - 1` -/
  skipA : ∀ st sz ls s c cs p ps ce x k, Core n s → TopOK s.op (k + 1) s.path s.choices ((st, sz) :: ls) →
    s.skipDeage = false → s.op.age + 1 = s.path.length → s.choices = c :: cs → s.path = p :: ps →
    s.op.order.get (c - 1) = .ok ce →
    (decide (s.count > 0) && hasPrefix s.flPath.toList ps.reverse) = true → s.flOrbits[ce]? = some x → x ≥ 0 →
    JN ((st, sz) :: ls) s → JN ((st, sz) :: ls) { s with choices := (c - 1) :: cs, skipDeage := true }
  /-- Heuristic 2 on the best-leaf path skips the child at position `c - 1` -/
  skipB : ∀ st sz ls s c cs p ps ce bo k, Core n s → TopOK s.op (k + 1) s.path s.choices ((st, sz) :: ls) →
    s.skipDeage = false → s.op.age + 1 = s.path.length → s.choices = c :: cs → s.path = p :: ps →
    s.op.order.get (c - 1) = .ok ce →
    (decide (s.count > 0) && !hasPrefix s.flPath.toList ps.reverse && hasPrefix s.bestPath.toList ps.reverse) = true →
    h2Best s.op s.bestOrbits (c - 1) ce = .ok (true, bo) →
    JN ((st, sz) :: ls) s →
    JN ((st, sz) :: ls) { s with choices := (c - 1) :: cs, bestOrbits := bo, skipDeage := true }
  /-- `splitBin` at position `c - 1` of the top cell (the first non-singleton bin of the partition) -/
  split : ∀ st sz ls s c cs p ps ce bo w op' k, Core n s → TopOK s.op (k + 1) s.path s.choices ((st, sz) :: ls) →
    s.skipDeage = false → s.op.age + 1 = s.path.length → s.choices = c :: cs → s.path = p :: ps →
    s.op.order.get (c - 1) = .ok ce →
    (if (decide (s.count > 0) && !hasPrefix s.flPath.toList ps.reverse && hasPrefix s.bestPath.toList ps.reverse) = true
      then h2Best s.op s.bestOrbits (c - 1) ce else Outcome.ok (false, s.bestOrbits)) = .ok (false, bo) →
    NonSingleton s.op.binDividers.toList (c - 1) →
    (∀ t, t < binStartOf s.op.binDividers.toList (c - 1) → t + 1 ∈ s.op.binDividers.toList) →
    splitBin nb s.currentBest s.firstLeaf s.op (c - 1) = .ok (w, op') →
    JN ((st, sz) :: ls) s →
    (w = false → JS ((st, sz) :: ls) { s with choices := (c - 1) :: cs, bestOrbits := bo, op := op', path := k :: ps }) ∧
    (w = true → JA ((st, sz) :: ls) { s with choices := (c - 1) :: cs, bestOrbits := bo, op := op', path := k :: ps })
  /-- all children of the top frame have been processed: the frame is popped -/
  pop : ∀ st sz ls s, Core n s → TopOK s.op 0 s.path s.choices ((st, sz) :: ls) → s.skipDeage = false →
    s.op.age + 1 = s.path.length → JN ((st, sz) :: ls) s →
    JA ls { s with path := s.path.drop 1, choices := s.choices.drop 1 }

/-- predicates on the partition are a special case -/
theorem StepQ.toJ {n : Nat} {nb : Nbrs} {cb fl : Sl Nat} {QA QN QS : OP → Prop} (hq : StepQ n nb cb fl QA QN QS) :
    StepJ n nb (fun _ s => s.currentBest = cb ∧ s.firstLeaf = fl ∧ QA s.op)
      (fun _ s => s.currentBest = cb ∧ s.firstLeaf = fl ∧ QN s.op)
      (fun _ s => s.currentBest = cb ∧ s.firstLeaf = fl ∧ QS s.op) where
  na := fun _ _ h => ⟨h.1, h.2.1, hq.na _ h.2.2⟩
  deage := fun _ s op' _ hc _ _ hage h hd =>
    ⟨h.1, h.2.1, hq.deage _ _ hc.part hc.age (by
      have := hc.part.bdLen_pos
      cases hpth : s.path with
      | nil => rename_i ht _; rw [hpth] at ht; cases hcc : s.choices <;> simp [TopOK] at ht
      | cons a t => rw [hpth] at hage; simp at hage; omega) h.2.2 hd⟩
  noskip := fun _ _ _ h => h
  skipA := fun _ _ _ _ _ _ _ _ _ _ _ _ _ _ _ _ _ _ _ _ _ h => h
  skipB := fun _ _ _ _ _ _ _ _ _ _ _ _ _ _ _ _ _ _ _ _ h => h
  split := fun _ _ _ s c _ _ _ _ _ w op' _ hc ht _ _ _ _ _ _ hns hfb hs h => by
    have hin : c - 1 < n := by
      have := hc.part.lenOrder
      rename_i hget _
      have := (Sl.get_eq_ok.1 hget).1
      omega
    obtain ⟨q1, q2⟩ := hq.split _ _ _ _ hc.part hc.age hin hns hfb h.2.2 (by rw [← h.1, ← h.2.1]; exact hs)
    exact ⟨fun hw => ⟨h.1, h.2.1, q1 hw⟩, fun hw => ⟨h.1, h.2.1, q2 hw⟩⟩
  pop := fun _ _ _ _ _ _ _ _ h => ⟨h.1, h.2.1, hq.na _ h.2.2⟩

theorem maybeDeageJ_spec {n : Nat} {nb : Nbrs} {JA JN JS : List (Nat × Nat) → LS → Prop} (hj : StepJ n nb JA JN JS)
    {s s' : LS} {lv : List (Nat × Nat)} {k : Nat} (hc : Core n s)
    (ht : TopOK s.op k s.path s.choices lv)
    (hage : s.op.age + (if s.skipDeage then 1 else 0) = s.path.length)
    (hA : JA lv s) (hN : s.skipDeage = true → JN lv s) (h : maybeDeage s = .ok s') : JN lv s' := by
  unfold maybeDeage at h
  by_cases hsk : s.skipDeage = true
  · simp only [hsk, Bool.not_true, Bool.false_eq_true, if_false] at h
    cases h
    exact hj.noskip lv s hsk (hN hsk)
  · have hsk' : s.skipDeage = false := by simpa using hsk
    simp only [hsk', Bool.not_false, if_true] at h
    simp only [hsk', Bool.false_eq_true, if_false, Int.add_zero] at hage
    cases hd : deage s.op with
    | ok op' =>
      rw [hd] at h
      simp only at h
      cases h
      have h' := hj.deage lv s op' k hc ht hsk' hage hA hd
      rw [hsk'] at h'
      exact h'
    | panic => rw [hd] at h; cases h
    | outOfFuel => rw [hd] at h; cases h

set_option maxHeartbeats 1000000 in
theorem jLoopJ_spec {n : Nat} {nb : Nbrs} {JA JN JS : List (Nat × Nat) → LS → Prop} (hj : StepJ n nb JA JN JS) :
    ∀ (k : Nat) (s : LS) (lv : List (Nat × Nat)) (b : Bool) (s' : LS),
    Core n s → TopOK s.op k s.path s.choices lv →
    s.op.age + (if s.skipDeage then 1 else 0) = s.path.length →
    JA lv s → (s.skipDeage = true → JN lv s) →
    jLoop nb k s = .ok (b, s') →
    (b = true → JS lv s') ∧ (b = false → JA lv s' ∧ (s'.skipDeage = true → JN lv s')) := by
  intro k
  induction k with
  | zero =>
    intro s lv b s' hc ht hage hA hN h
    simp [jLoop] at h
    obtain ⟨rfl, rfl⟩ := h
    exact ⟨by simp, fun _ => ⟨hA, hN⟩⟩
  | succ j ih =>
    intro s lv b s' hc ht hage hA hN h
    rw [jLoop] at h
    cases hm : maybeDeage s with
    | panic => rw [hm] at h; cases h
    | outOfFuel => rw [hm] at h; cases h
    | ok s1 =>
      rw [hm] at h
      simp only at h
      obtain ⟨c1, t1, a1, k1, p1, ch1, f1, _, bo1⟩ :=
        maybeDeage_spec (StepQ.trivial n nb s.currentBest s.firstLeaf) hc ht hage trivial (fun _ => trivial) hm
      have n1 : JN lv s1 := maybeDeageJ_spec hj hc ht hage hA hN hm
      cases hpath : s1.path with
      | nil => rw [hpath] at t1; cases hcc : s1.choices <;> simp [TopOK] at t1
      | cons p ps =>
        cases hch : s1.choices with
        | nil => rw [hpath, hch] at t1; simp [TopOK] at t1
        | cons c cs =>
          cases hlv : lv with
          | nil => rw [hpath, hch, hlv] at t1; simp [TopOK] at t1
          | cons x ls =>
            obtain ⟨st, sz⟩ := x
            subst hlv
            have t1' := t1
            rw [hpath, hch] at t1
            simp only [TopOK] at t1
            obtain ⟨tb, tsz, tc, tk, tl⟩ := t1
            rw [hch, hpath] at h
            simp only at h
            have hc0 : ¬ (c = 0) := by omega
            rw [if_neg hc0] at h
            have hlen : (s1.path.length : Int) = ps.length + 1 := by rw [hpath]; simp
            have hage1 : s1.op.age = ps.length := by omega
            have hbin := top_isBin c1.part c1.age (a := (ps.length : Int) + 1) (by omega) tb
            obtain ⟨hns, hin⟩ := nonSingleton_of_isBin c1.part hbin tsz (c - 1) (by omega) (by omega)
            cases hget : s1.op.order.get (c - 1) with
            | panic => rw [hget] at h; cases h
            | outOfFuel => rw [hget] at h; cases h
            | ok ce =>
              rw [hget] at h
              simp only at h
              -- common continuation for the two Heuristic-2 skips
              have hskip : ∀ (bo : Disjoint.DS) (b : Bool) (s' : LS),
                  JN ((st, sz) :: ls) { s1 with path := p :: ps, choices := (c - 1) :: cs, skipDeage := true, bestOrbits := bo } →
                  jLoop nb j { s1 with path := p :: ps, choices := (c - 1) :: cs, skipDeage := true, bestOrbits := bo } = .ok (b, s') →
                  (b = true → JS ((st, sz) :: ls) s') ∧
                    (b = false → JA ((st, sz) :: ls) s' ∧ (s'.skipDeage = true → JN ((st, sz) :: ls) s')) := by
                intro bo b s' hjn hjl
                have hfr : StepFrame s { s1 with path := p :: ps, choices := (c - 1) :: cs, skipDeage := true, bestOrbits := bo } := by
                  unfold StepFrame at f1 ⊢; rw [f1]
                exact ih { s1 with path := p :: ps, choices := (c - 1) :: cs, skipDeage := true, bestOrbits := bo } ((st, sz) :: ls) b s'
                  (Core.of_frame hc hfr c1.part c1.age)
                  (by
                    simp only [TopOK]
                    exact ⟨tb, tsz, by omega, by omega, tl⟩)
                  (by simp only [if_true, List.length_cons]; omega) (hj.na _ _ hjn) (fun _ => hjn) hjl
              have hs1 : s1 = { s1 with path := p :: ps } := by rw [← hpath]
              split at h
              · -- first Heuristic 2 test: skip
                rename_i hh
                split at hh
                · rename_i hon
                  split at hh
                  · rename_i x hx
                    simp only [Outcome.ok.injEq, decide_eq_true_eq] at hh
                    have := hj.skipA st sz ls s1 c cs p ps ce x j c1 t1' k1 a1 hch hpath hget hon hx hh n1
                    have e : ({ s1 with path := p :: ps, choices := (c - 1) :: cs, skipDeage := true, bestOrbits := s1.bestOrbits } : LS)
                        = { s1 with choices := (c - 1) :: cs, skipDeage := true } := by
                      rw [← hpath]
                    exact hskip s1.bestOrbits b s' (by rw [e]; exact this) h
                  · cases hh
                · cases hh
              · split at h
                · rename_i hh2a bo hh
                  split at hh
                  · rename_i hon
                    have := hj.skipB st sz ls s1 c cs p ps ce bo j c1 t1' k1 a1 hch hpath hget hon hh n1
                    have e : ({ s1 with path := p :: ps, choices := (c - 1) :: cs, skipDeage := true, bestOrbits := bo } : LS)
                        = { s1 with choices := (c - 1) :: cs, bestOrbits := bo, skipDeage := true } := by
                      rw [← hpath]
                    exact hskip bo b s' (by rw [e]; exact this) h
                  · cases hh
                · -- splitBin
                  rename_i hh2a bo hh
                  cases hsp : splitBin nb s1.currentBest s1.firstLeaf s1.op (c - 1) with
                  | panic => rw [hsp] at h; simp at h
                  | outOfFuel => rw [hsp] at h; simp at h
                  | ok r =>
                    obtain ⟨worse, op'⟩ := r
                    rw [hsp] at h
                    simp only at h
                    obtain ⟨q1, q2, q3, q4, _⟩ := splitBin_inv c1.part c1.age hin hns hsp
                    have hfirst : ∀ t, t < binStartOf s1.op.binDividers.toList (c - 1) → t + 1 ∈ s1.op.binDividers.toList := by
                      intro t ht
                      have hle := binStartOf_le_start c1.part hbin.2.2 hin (show c - 1 < st + sz by omega)
                      exact top_firstBin c1.part c1.age (a := (ps.length : Int) + 1) (by omega) tb t (by omega)
                    obtain ⟨qn, qa⟩ := hj.split st sz ls s1 c cs p ps ce bo worse op' j c1 t1' k1 a1 hch hpath hget hh hns hfirst hsp n1
                    have hfr3 : StepFrame s { s1 with choices := (c - 1) :: cs, op := op', path := j :: ps, bestOrbits := bo } := by
                      unfold StepFrame at f1 ⊢; rw [f1]
                    have hfrm : ∀ a : Int, a ≤ s1.op.age + 1 → oldDivs a op' = oldDivs a s1.op :=
                      fun a ha => oldDivs_of_ne q4 a ha
                    have hlev : LevelsOK op' ps cs ls := LevelsOK_frame hfrm ps cs ls (by omega) tl
                    have hbin' : IsBinAt ((ps.length : Int) + 1) op' st sz :=
                      (IsBinAt_frame (hfrm _ (by omega)) st sz).2 tb
                    have e3 : ({ s1 with choices := (c - 1) :: cs, op := op', path := j :: ps, bestOrbits := bo } : LS)
                        = { s1 with choices := (c - 1) :: cs, bestOrbits := bo, op := op', path := j :: ps } := rfl
                    by_cases hw : worse = true
                    · rw [if_pos hw] at h
                      exact ih _ ((st, sz) :: ls) b s' (Core.of_frame hc hfr3 q1 q2)
                        (by
                          simp only [TopOK]
                          exact ⟨hbin', tsz, by omega, by omega, hlev⟩)
                        (by simp only [k1, Bool.false_eq_true, if_false, List.length_cons]; omega) (qa hw)
                        (by simp only [k1]; intro hc; cases hc) h
                    · rw [if_neg hw] at h
                      simp at h
                      obtain ⟨rfl, rfl⟩ := h
                      exact ⟨fun _ => qn (by simpa using hw), by simp⟩
                · cases h
                · cases h
              · cases h
              · cases h

set_option maxHeartbeats 1000000 in
theorem stepLoopJ_spec {n : Nat} {nb : Nbrs} {JA JN JS : List (Nat × Nat) → LS → Prop} (hj : StepJ n nb JA JN JS) :
    ∀ (k : Nat) (s : LS) (lv : List (Nat × Nat)) (b : Bool) (s' : LS),
    Core n s → LevelsOK s.op s.path s.choices lv →
    s.op.age + (if s.skipDeage then 1 else 0) = s.path.length →
    JA lv s → (s.skipDeage = true → JN lv s) →
    stepLoop nb k s = .ok (b, s') →
    ∃ lv', LevelsOK s'.op s'.path s'.choices lv' ∧ (b = true → JS lv' s') ∧ (b = false → JA lv' s' ∧ lv' = []) := by
  intro k
  induction k with
  | zero =>
    intro s lv b s' hc hl hage hA hN h
    rw [stepLoop] at h
    split at h
    · rename_i hp
      cases h
      refine ⟨lv, hl, by simp, fun _ => ⟨hA, ?_⟩⟩
      rw [hp] at hl
      cases hcc : s.choices <;> cases lv <;> simp_all [LevelsOK]
    · cases h
  | succ k ih =>
    intro s lv b s' hc hl hage hA hN h
    rw [stepLoop] at h
    split at h
    · rename_i hp
      cases h
      refine ⟨lv, hl, by simp, fun _ => ⟨hA, ?_⟩⟩
      rw [hp] at hl
      cases hcc : s.choices <;> cases lv <;> simp_all [LevelsOK]
    · rename_i p ps hp
      have hl0 := hl
      rw [hp] at hl
      have ht := LevelsOK_top hl
      rw [← hp] at ht
      cases hjl : jLoop nb p s with
      | panic => rw [hjl] at h; simp at h
      | outOfFuel => rw [hjl] at h; simp at h
      | ok r =>
        obtain ⟨b1, s1⟩ := r
        rw [hjl] at h
        obtain ⟨c1, f1, l1, t1, e1, _, _, z1⟩ := jLoop_spec (StepQ.trivial n nb s.currentBest s.firstLeaf) p s lv b1 s1 hc ht hage
          rfl rfl trivial (fun _ => trivial) hjl
        obtain ⟨j1, j2⟩ := jLoopJ_spec hj p s lv b1 s1 hc ht hage hA hN hjl
        cases b1 with
        | true =>
          simp only at h
          cases h
          obtain ⟨a1, a2, a3⟩ := t1 rfl
          exact ⟨lv, a1, fun _ => j1 rfl, by simp⟩
        | false =>
          simp only at h
          obtain ⟨t0, g0⟩ := e1 rfl
          obtain ⟨ja, jn⟩ := j2 rfl
          cases hm : maybeDeage s1 with
          | panic => rw [hm] at h; cases h
          | outOfFuel => rw [hm] at h; cases h
          | ok s2 =>
            rw [hm] at h
            simp only at h
            obtain ⟨c2, t2, a2, k2, p2, ch2, f2, _, bo2⟩ :=
              maybeDeage_spec (StepQ.trivial n nb s.currentBest s.firstLeaf) c1 t0 g0 trivial (fun _ => trivial) hm
            have n2 : JN lv s2 := maybeDeageJ_spec hj c1 t0 g0 ja jn hm
            cases hpath : s2.path with
            | nil => rw [hpath] at t2; cases hcc : s2.choices <;> simp [TopOK] at t2
            | cons p' ps' =>
              cases hch : s2.choices with
              | nil => rw [hpath, hch] at t2; simp [TopOK] at t2
              | cons c' cs' =>
                cases hlv : lv with
                | nil => rw [hpath, hch, hlv] at t2; simp [TopOK] at t2
                | cons x ls =>
                  obtain ⟨st, sz⟩ := x
                  have t2' := t2
                  rw [hpath, hch, hlv] at t2
                  simp only [TopOK] at t2
                  have hfr : StepFrame s { s2 with path := s2.path.drop 1, choices := s2.choices.drop 1 } := by
                    have := f1.trans f2
                    unfold StepFrame at this ⊢; rw [this]
                  rw [hlv] at t2' n2
                  have hpop := hj.pop st sz ls s2 c2 t2' k2 a2 n2
                  exact ih _ ls b s' (Core.of_frame hc hfr c2.part c2.age)
                    (by simp only [hpath, hch, List.drop_succ_cons, List.drop_zero]; exact t2.2.2.2.2)
                    (by simp only [k2, hpath, List.drop_succ_cons, List.drop_zero, Bool.false_eq_true, if_false]
                        rw [hpath] at a2; simp only [List.length_cons] at a2; omega)
                    hpop (by simp only [k2]; intro hc; cases hc) h

end CanonF
