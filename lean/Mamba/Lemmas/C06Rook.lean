import Mamba.Lemmas.C06Snark2
/-! C06: `RookGraph` — the line graph of `K_{n,m}` is the rook graph. -/
namespace Construct
open GraphSpec


/-! ### RookGraph: the line graph of `K_{n,m}` is the rook graph -/

theorem kpart_adj (n m u v : Nat) (huv : u < v) (hv : v < n + m) :
    (Families.completePartite [n, m]).adj u v = (decide (u < n) && decide (n ≤ v)) := by
  have hu : u < n + m := by omega
  have hne : (u != v) = true := by simp; omega
  simp only [Families.completePartite, Families.symm, List.sum_cons, List.sum_nil, Nat.add_zero, hne, hu, hv, decide_true,
    Bool.true_and, Bool.and_self, Families.partOf]
  by_cases h1 : u < n <;> by_cases h2 : v < n
  · simp [h1, h2]
  · simp [h1, h2]; omega
  · omega
  · have h3 : u - n < m := by omega
    have h4 : v - n < m := by omega
    simp [h1, h2, h3, h4]

theorem range_mul (n m : Nat) :
    List.range (n * m) = (List.range m).flatMap fun c => (List.range n).map fun r => c * n + r := by
  induction m with
  | zero => simp
  | succ k ih =>
    rw [Nat.mul_succ, List.range_add, ih, List.range_succ, List.flatMap_append]
    simp [Nat.mul_comm]

theorem filter_range_lt (n j : Nat) (h : n ≤ j) : (List.range j).filter (fun i => decide (i < n)) = List.range n := by
  obtain ⟨k, rfl⟩ := Nat.exists_eq_add_of_le h
  rw [List.range_add, List.filter_append]
  have h1 : (List.range n).filter (fun i => decide (i < n)) = List.range n := by
    rw [List.filter_eq_self]; intro a ha; simpa using List.mem_range.mp ha
  have h2 : ((List.range k).map (n + ·)).filter (fun i => decide (i < n)) = [] := by
    rw [List.filter_eq_nil_iff]; intro a ha
    simp only [List.mem_map, List.mem_range] at ha
    obtain ⟨b, _, rfl⟩ := ha; simp
  rw [h1, h2, List.append_nil]

theorem kpart_edges (n m : Nat) :
    (Families.completePartite [n, m]).edges = (List.range (n * m)).map fun x => (x % n, n + x / n) := by
  have hN : (Families.completePartite [n, m]).n = n + m := by simp [Families.completePartite, Families.symm]
  rw [G.edges, hN, List.range_add, List.flatMap_append]
  -- columns below n contribute nothing
  have h1 : ((List.range n).flatMap fun v => ((List.range v).filter fun u => (Families.completePartite [n, m]).adj u v).map fun u => (u, v)) = [] := by
    rw [List.flatMap_eq_nil_iff]
    intro v hv
    have hv' := List.mem_range.mp hv
    rw [List.map_eq_nil_iff, List.filter_eq_nil_iff]
    intro u hu
    have hu' := List.mem_range.mp hu
    rw [kpart_adj n m u v hu' (by omega)]
    simp; omega
  rw [h1, List.nil_append, List.flatMap_map, range_mul, List.map_flatMap]
  apply List.flatMap_congr
  intro c hc
  have hc' := List.mem_range.mp hc
  have : ((List.range (n + c)).filter fun u => (Families.completePartite [n, m]).adj u (n + c)) = List.range n := by
    rw [← filter_range_lt n (n + c) (by omega)]
    apply List.filter_congr
    intro u hu
    have hu' := List.mem_range.mp hu
    rw [kpart_adj n m u (n + c) hu' (by omega)]
    simp
  rw [this, List.map_map]
  apply List.map_congr_left
  intro r hr
  have hr' := List.mem_range.mp hr
  have hn0 : 0 < n := by omega
  simp only [Function.comp, Prod.mk.injEq]
  constructor
  · rw [Nat.mul_comm, Nat.mul_add_mod, Nat.mod_eq_of_lt hr']
  · rw [Nat.mul_comm, Nat.mul_add_div hn0, Nat.div_eq_of_lt hr', Nat.add_zero]

theorem lineGraph_kpart (n m : Nat) : Families.lineGraph (Families.completePartite [n, m]) = Families.rook n m := by
  rw [lineGraph_eq, kpart_edges, Families.rook]
  simp only [List.length_map, List.length_range]
  refine G_ext (show _ = _ from rfl) ?_
  intro a b
  simp only [Families.symm]
  by_cases ha : a < n * m
  · by_cases hb : b < n * m
    · have hn0 : 0 < n := by
        rcases Nat.eq_zero_or_pos n with h | h
        · subst h; simp at ha
        · exact h
      have ham := Nat.mod_lt a hn0
      have hbm := Nat.mod_lt b hn0
      simp only [List.getD, List.getElem?_map, List.getElem?_range ha, List.getElem?_range hb, Option.map_some,
        Option.getD_some, share]
      congr 1
      rw [Bool.eq_iff_iff]
      simp only [Bool.or_eq_true, beq_iff_eq]
      generalize a % n = p at *
      generalize b % n = q at *
      generalize a / n = p' at *
      generalize b / n = q' at *
      omega
    · simp [hb]
  · simp [ha]


end Construct
