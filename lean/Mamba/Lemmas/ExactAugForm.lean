import Mamba.Lemmas.ExactAutData
namespace Search
open Disjoint GSearch

variable {O : Oracle} {n : Nat}

/-- the neighbour masks of size 1: the roots of the orbit structure -/
def rootMasks (orb : DS) : List Nat :=
  (orb.toList.zipIdx.filter fun vi => decide (vi.1 < 0)).map fun vi => 1 <<< vi.2

/-- **what `addAugmentations` pushes**: the empty set, the orbit roots, and one block per size `2 … mindeg+1` -/
theorem aug_form (hO : OracleSpec O n) {g : DG} (hb : Built g) (hlt : g.nv < n) {c c' : Option Ans}
    {new : Array Nat} {num : Nat}
    (hc : c = none ∨ ∃ P x, Built P ∧ InRange P x ∧ AccK O n P x g c)
    (haug : addAugmentations O n g #[] c = .ok (new, c', num)) :
    ∃ (orb : DS) (gens : List (Array Nat)) (md : Int) (blocks : List (List Nat)),
      minInts g.degs = .ok md ∧ AutData g orb gens ∧
      new.toList = [0] ++ rootMasks orb ++ blocks.flatten ∧
      List.Forall₂ (fun k b => BlockOK g k b) (List.range' 2 ((md + 1).toNat - 1)) blocks := by
  unfold addAugmentations at haug
  split at haug
  · cases haug
  · cases haug
  · rename_i md hmd
    simp only at haug
    split at haug
    · cases haug
    · cases haug
    · rename_i c1 hc1
      -- the automorphism data in use
      have hdata : ∃ a1 : Ans, c1 = some a1 ∧ AutData g a1.orbits a1.gens := by
        cases c with
        | none =>
          simp only at hc1
          obtain ⟨a, ha⟩ := hO.total hb (Nat.le_of_lt hlt)
          rw [ha] at hc1
          simp only [Outcome.ok.injEq] at hc1
          exact ⟨a, hc1.symm, autData_of_answer hO hb ha⟩
        | some c0 =>
          simp only [Outcome.ok.injEq] at hc1
          rcases hc with hc | ⟨P, x, _, _, hacc⟩
          · cases hc
          · exact ⟨c0, hc1.symm, autData_of_cache hO hb hacc.2⟩
      obtain ⟨a1, rfl, hd⟩ := hdata
      simp only at haug
      rw [orbitRoots_form] at haug
      simp only at haug
      split at haug
      · rename_i ch2 num2 hs
        cases haug
        obtain ⟨blocks, hb1, hb2⟩ := sizeLoop_spec hd.gensAut hd.gensGen n _ _ _ _ _ hs
        refine ⟨a1.orbits, a1.gens, md, blocks, hmd, hd, ?_, hb2⟩
        rw [hb1]
        simp [rootMasks]
      · cases haug
      · cases haug

end Search
