import Mathlib.Data.List.Perm.Basic
import Mathlib.Data.List.Nodup
import Mathlib.Data.List.Range
import Mamba.Spec.Iso
/-! Lemmas for `Spec/Iso.lean`: codes, permutations, isomorphism is an equivalence, `bfCanon` is complete. -/
namespace GSearch
open GraphSpec

/-! ### `num` -/

theorem num_inj : ∀ (l₁ l₂ : List Bool), l₁.length = l₂.length → num l₁ = num l₂ → l₁ = l₂
  | [], [], _, _ => rfl
  | [], _ :: _, h, _ => by simp at h
  | _ :: _, [], h, _ => by simp at h
  | a :: as, b :: bs, hl, hn => by
    simp only [num] at hn
    have hl' : as.length = bs.length := by simpa using hl
    have h2 : a = b ∧ num as = num bs := by
      cases a <;> cases b <;> simp at hn ⊢ <;> omega
    rw [h2.1, num_inj as bs hl' h2.2]

/-! ### `pairs` -/

theorem mem_pairs {n u v : Nat} : (u, v) ∈ pairs n ↔ u < v ∧ v < n := by
  simp only [pairs, List.mem_flatMap, List.mem_range, List.mem_map, Prod.mk.injEq]
  constructor
  · rintro ⟨w, hw, x, hx, rfl, rfl⟩; exact ⟨hx, hw⟩
  · rintro ⟨h1, h2⟩; exact ⟨v, h2, u, h1, rfl, rfl⟩

/-! ### permutations -/

theorem mem_insertAll {α : Type} {x : α} : ∀ {l l' : List α}, l' ∈ insertAll x l ↔ ∃ a b, l = a ++ b ∧ l' = a ++ x :: b
  | [], l' => by
    simp only [insertAll, List.mem_singleton]
    constructor
    · rintro rfl; exact ⟨[], [], rfl, rfl⟩
    · rintro ⟨a, b, h, rfl⟩
      have : a = [] ∧ b = [] := by simpa using h.symm
      simp [this.1, this.2]
  | y :: ys, l' => by
    simp only [insertAll, List.mem_cons, List.mem_map]
    constructor
    · rintro (rfl | ⟨t, ht, rfl⟩)
      · exact ⟨[], y :: ys, rfl, rfl⟩
      · obtain ⟨a, b, rfl, rfl⟩ := mem_insertAll.1 ht
        exact ⟨y :: a, b, rfl, rfl⟩
    · rintro ⟨a, b, h, rfl⟩
      cases a with
      | nil => left; simp at h; simp [h]
      | cons a0 a' =>
        right
        simp only [List.cons_append, List.cons.injEq] at h
        obtain ⟨rfl, rfl⟩ := h
        exact ⟨a' ++ x :: b, mem_insertAll.2 ⟨a', b, rfl, rfl⟩, rfl⟩

theorem mem_permsOf {α : Type} : ∀ {l l' : List α}, l' ∈ permsOf l ↔ l'.Perm l
  | [], l' => by simp [permsOf]
  | x :: xs, l' => by
    simp only [permsOf, List.mem_flatMap]
    constructor
    · rintro ⟨t, ht, hl'⟩
      obtain ⟨a, b, rfl, rfl⟩ := mem_insertAll.1 hl'
      have := mem_permsOf.1 ht
      exact List.perm_middle.trans (this.cons x)
    · intro hp
      have hx : x ∈ l' := hp.symm.subset (List.mem_cons_self)
      obtain ⟨a, b, rfl⟩ := List.append_of_mem hx
      have h1 : (a ++ b).Perm xs := (List.perm_cons x).1 (List.perm_middle.symm.trans hp)
      exact ⟨a ++ b, mem_permsOf.2 h1, mem_insertAll.2 ⟨a, b, rfl, rfl⟩⟩

theorem mem_perms {n : Nat} {p : List Nat} : p ∈ perms n ↔ p.Perm (List.range n) := mem_permsOf

/-! ### `foldl min` -/

theorem foldl_min_le_init : ∀ (l : List Nat) (a : Nat), l.foldl min a ≤ a
  | [], a => Nat.le_refl a
  | x :: xs, a => by
    simp only [List.foldl_cons]
    exact Nat.le_trans (foldl_min_le_init xs (min a x)) (Nat.min_le_left a x)

theorem foldl_min_le_mem : ∀ (l : List Nat) (a : Nat) (x : Nat), x ∈ l → l.foldl min a ≤ x
  | y :: ys, a, x, hx => by
    simp only [List.foldl_cons]
    rcases List.mem_cons.1 hx with rfl | h
    · exact Nat.le_trans (foldl_min_le_init ys (min a x)) (Nat.min_le_right a x)
    · exact foldl_min_le_mem ys _ x h

theorem foldl_min_mem : ∀ (l : List Nat) (a : Nat), l.foldl min a = a ∨ l.foldl min a ∈ l
  | [], a => Or.inl rfl
  | x :: xs, a => by
    simp only [List.foldl_cons, List.mem_cons]
    rcases foldl_min_mem xs (min a x) with h | h
    · rw [h]
      rcases Nat.le_total a x with hax | hax
      · left; exact Nat.min_eq_left hax
      · right; left; exact Nat.min_eq_right hax
    · right; right; exact h

end GSearch
