import Mamba.Model.Disjoint
import Mamba.Lemmas.DisjointFn

/-!
# From the executable `Array Int` model to the parent-function theory (C18)

`abs ds` reads the array as a parent function. `Inv ds` is the invariant of DESIGN §4 (C18),
`rep ds x` the representative obtained by following parents. The main results are
`find_spec` (the executable `find` with the model's fuel returns `rep ds x`, never panics / runs out
of fuel, keeps `Inv`, size and every representative) and `union_spec`.
-/
namespace Disjoint
open Fn

/-- the array read as a parent function -/
def abs (ds : DS) : S := ⟨ds.size, fun i => ds.getD i 0⟩

/-- Invariant: parents in range, a rank potential strictly increases along parent links and equals
the stored rank at roots. -/
def Inv (ds : DS) : Prop := ∃ rk : Nat → Nat, Fn.Inv (abs ds) rk

/-- representative of `x`: follow parent links (`ds.size` steps always suffice under `Inv`) -/
def rep (ds : DS) (x : Nat) : Nat := Fn.rep (abs ds) x

@[simp] theorem abs_n (ds : DS) : (abs ds).n = ds.size := rfl

theorem abs_p (ds : DS) (x : Nat) : (abs ds).p x = ds.getD x 0 := rfl

theorem getElem?_abs (ds : DS) (x : Nat) (hx : x < ds.size) : ds[x]? = some ((abs ds).p x) := by
  simp [abs, Array.getD, hx]

theorem getElem?_none (ds : DS) (x : Nat) (hx : ¬ x < ds.size) : ds[x]? = none := by
  simp; omega

theorem abs_set (ds : DS) (y : Nat) (v : Int) (hy : y < ds.size) :
    abs (ds.setIfInBounds y v) = setP (abs ds) y v := by
  unfold abs setP
  simp only [Array.size_setIfInBounds]
  congr 1
  funext i
  simp only [Array.getD_eq_getD_getElem?, Array.getElem?_setIfInBounds]
  by_cases hi : i = y
  · subst hi; simp [hy]
  · rw [Function.update_of_ne hi]
    simp [Ne.symm hi]

theorem abs_compress (r : Nat) : ∀ (l : List Nat) (ds : DS), (∀ y ∈ l, y < ds.size) →
    abs (compress ds r l) = compressL (abs ds) r l := by
  intro l
  induction l with
  | nil => intro ds _; rfl
  | cons y l ih =>
    intro ds hl
    have hy := hl y (List.mem_cons_self ..)
    have : compress ds r (y :: l) = compress (ds.setIfInBounds y (r : Int)) r l := rfl
    rw [this, ih _ (by intro w hw; simpa using hl w (List.mem_cons_of_mem _ hw)), abs_set _ _ _ hy]
    rfl

/-- The loop of `Find` computes the root and the reversed list of nodes seen. -/
theorem walk_eq (ds : DS) (hpar : ∀ x, x < ds.size → 0 ≤ (abs ds).p x → ((abs ds).p x).toNat < ds.size) :
    ∀ (f cur : Nat) (seen : List Nat), cur < ds.size → (abs ds).p (root (abs ds) f cur) < 0 →
      walk ds (f + 1) cur (cur :: seen) =
        .ok (root (abs ds) f cur :: ((below (abs ds) f cur).reverse ++ seen)) := by
  intro f
  induction f with
  | zero =>
    intro cur seen hc hr
    simp only [root] at hr
    simp [walk, getElem?_abs ds cur hc, hr, root, below]
  | succ f ih =>
    intro cur seen hc hr
    by_cases h0 : (abs ds).p cur < 0
    · have e1 : root (abs ds) (f + 1) cur = cur := by rw [root]; simp [h0]
      have e2 : below (abs ds) (f + 1) cur = [] := by rw [below]; simp [h0]
      rw [e1, e2, walk]
      simp [getElem?_abs ds cur hc, h0]
    · have e1 : root (abs ds) (f + 1) cur = root (abs ds) f ((abs ds).p cur).toNat := by
        rw [root]; simp [h0]
      have e2 : below (abs ds) (f + 1) cur = cur :: below (abs ds) f ((abs ds).p cur).toNat := by
        rw [below]; simp [h0]
      rw [e1] at hr
      rw [e1, e2, walk]
      simp only [getElem?_abs ds cur hc, h0, if_false]
      rw [ih _ _ (hpar cur hc (by omega)) hr]
      simp

/-- What `find` does, in terms of the parent function. -/
theorem find_eq {ds : DS} (h : Inv ds) (x : Nat) (hx : x < ds.size) :
    find ds x = .ok (if (abs ds).p x < 0 then ds
      else compress ds (rep ds x) (below (abs ds) ds.size x).dropLast, rep ds x) := by
  obtain ⟨rk, hi⟩ := h
  unfold find findF
  rw [getElem?_abs ds x hx]
  by_cases h0 : (abs ds).p x < 0
  · simp only [h0, if_true]
    rw [rep, rep_root _ h0]
  · simp only [h0, if_false]
    have hr := (rep_spec hi x hx).2
    rw [walk_eq ds hi.par_lt ds.size x [] hx hr]
    simp only [List.append_nil]
    have : (List.drop 1 (below (abs ds) ds.size x).reverse).reverse =
        (below (abs ds) ds.size x).dropLast := by
      rw [List.drop_one, List.tail_reverse, List.reverse_reverse]
    rw [this]
    rfl

/-- `find` under the invariant: succeeds with the model's fuel, returns `rep ds x` (a root in
range), keeps the invariant, the size and every representative. -/
theorem find_spec {ds : DS} (h : Inv ds) (x : Nat) (hx : x < ds.size) :
    ∃ d', find ds x = .ok (d', rep ds x) ∧ Inv d' ∧ d'.size = ds.size ∧
      (∀ z, z < ds.size → rep d' z = rep ds z) := by
  refine ⟨_, find_eq h x hx, ?_⟩
  by_cases h0 : (abs ds).p x < 0
  · rw [if_pos h0]
    exact ⟨h, rfl, fun _ _ => rfl⟩
  · rw [if_neg h0]
    obtain ⟨rk, hi⟩ := h
    have hb : ∀ y ∈ (below (abs ds) ds.size x).dropLast,
        y < (abs ds).n ∧ 0 ≤ (abs ds).p y ∧ Fn.rep (abs ds) y = rep ds x :=
      fun y hy => below_facts hi ds.size x hx y (List.dropLast_subset _ hy)
    obtain ⟨c1, c2, c3⟩ := compress_spec (rep ds x) _ (abs ds) hi hb
    rw [← abs_compress _ _ _ (fun y hy => (hb y hy).1)] at c1 c2 c3
    exact ⟨⟨rk, c1⟩, c2, c3⟩

theorem rep_lt {ds : DS} (h : Inv ds) (x : Nat) (hx : x < ds.size) : rep ds x < ds.size := by
  obtain ⟨rk, hi⟩ := h; exact (rep_spec hi x hx).1

theorem rep_isRoot {ds : DS} (h : Inv ds) (x : Nat) (hx : x < ds.size) :
    ds.getD (rep ds x) 0 < 0 := by
  obtain ⟨rk, hi⟩ := h; exact (rep_spec hi x hx).2

theorem rep_of_root (ds : DS) (x : Nat) (hx : ds.getD x 0 < 0) : rep ds x = x :=
  rep_root (s := abs ds) x hx

theorem rep_rep {ds : DS} (h : Inv ds) (x : Nat) (hx : x < ds.size) :
    rep ds (rep ds x) = rep ds x := by
  obtain ⟨rk, hi⟩ := h; exact rep_idem hi x hx

/-! ### `link` and `union` -/

theorem setP_same (s : S) (a : Nat) : setP s a (s.p a) = s := by
  simp [setP, Function.update_eq_self]

/-- root `a` goes under root `b`, whose stored value becomes `c` and potential `k` -/
theorem link_under {ds d' : DS} {rk : Nat → Nat} (hi : Fn.Inv (abs ds) rk) (a b : Nat)
    (ha : a < ds.size) (hb : b < ds.size)
    (hra : ds.getD a 0 < 0) (hrb : ds.getD b 0 < 0) (hab : a ≠ b)
    (c : Int) (k : Nat) (hc : c < 0) (hk : (k : Int) = -c - 1) (h1 : rk b ≤ k) (h2 : rk a < k)
    (e : abs d' = setP (setP (abs ds) a (b : Nat)) b c) :
    Inv d' ∧ d'.size = ds.size ∧
    ∀ z w, z < ds.size → w < ds.size →
      (rep d' z = rep d' w ↔ rep ds z = rep ds w ∨
        ((rep ds z = a ∨ rep ds z = b) ∧ (rep ds w = a ∨ rep ds w = b))) := by
  obtain ⟨i1, i2⟩ := Fn.link_spec hi a b ha hb hra hrb hab c k hc hk h1 h2
  refine ⟨⟨_, by rw [e]; exact i1⟩, ?_, ?_⟩
  · have := congrArg S.n e; simpa using this
  intro z w hz hw
  unfold rep
  rw [e, i2 z hz, i2 w hw]
  generalize Fn.rep (abs ds) z = u
  generalize Fn.rep (abs ds) w = v
  split <;> split <;> omega

/-- the end of `Union` on two roots -/
theorem link_spec' {ds : DS} (h : Inv ds) (a b : Nat) (ha : a < ds.size) (hb : b < ds.size)
    (hra : ds.getD a 0 < 0) (hrb : ds.getD b 0 < 0) :
    ∃ d', link ds a b = .ok d' ∧ Inv d' ∧ d'.size = ds.size ∧
      ∀ z w, z < ds.size → w < ds.size →
        (rep d' z = rep d' w ↔ rep ds z = rep ds w ∨
          ((rep ds z = a ∨ rep ds z = b) ∧ (rep ds w = a ∨ rep ds w = b))) := by
  unfold link
  by_cases hab : a = b
  · subst hab
    simp only [if_true]
    refine ⟨ds, rfl, h, rfl, ?_⟩
    intro z w _ _
    constructor
    · exact Or.inl
    · rintro (e | ⟨e1 | e1, e2 | e2⟩) <;> simp_all
  · simp only [hab, if_false]
    rw [getElem?_abs ds a ha, getElem?_abs ds b hb]
    simp only
    obtain ⟨rk, hi⟩ := h
    have hka := hi.rk_root a ha hra
    have hkb := hi.rk_root b hb hrb
    have hra' : (abs ds).p a < 0 := hra
    have hrb' : (abs ds).p b < 0 := hrb
    by_cases c1 : (abs ds).p a < (abs ds).p b
    · simp only [c1, if_true]
      refine ⟨_, rfl, ?_⟩
      have := link_under (d' := ds.setIfInBounds b (a : Int)) hi b a hb ha hrb hra (Ne.symm hab)
        ((abs ds).p a) (rk a) hra' (by omega) (by omega) (by omega)
        (by rw [abs_set _ _ _ hb, ← setP_p_ne (abs ds) b (a : Nat) a hab, setP_same])
      obtain ⟨t1, t2, t3⟩ := this
      refine ⟨t1, t2, ?_⟩
      intro z w hz hw
      rw [t3 z w hz hw]
      generalize rep ds z = u
      generalize rep ds w = v
      omega
    · simp only [c1, if_false]
      by_cases c2 : (abs ds).p b < (abs ds).p a
      · simp only [c2, if_true]
        refine ⟨_, rfl, ?_⟩
        exact link_under hi a b ha hb hra hrb hab
          ((abs ds).p b) (rk b) hrb' (by omega) (by omega) (by omega)
          (by rw [abs_set _ _ _ ha, ← setP_p_ne (abs ds) a (b : Nat) b (Ne.symm hab), setP_same])
      · simp only [c2, if_false]
        refine ⟨_, rfl, ?_⟩
        exact link_under hi a b ha hb hra hrb hab ((abs ds).p b - 1) (rk b + 1) (by omega)
          (by push_cast; omega)
          (by omega) (by omega)
          (by rw [abs_set _ _ _ (by simpa using hb), abs_set _ _ _ ha])

end Disjoint
