import Mamba.Lemmas.CanonFInv
/-!
# The vertex classes through the search (faithful model `Model/CanonF.lean`): definitions

`ClsInv cl bd0 op`: the vertex at position `p` of `order` lies in the initial cell `binIdx bd0 p` (`cl` = cell index of a
vertex in the initial partition, `bd0` = the initial dividers), and the initial dividers are still dividers of age `≤ 0`
(so `deage`, which only removes dividers of the current age `> 0`, never removes them). Every operation on the partition
only rearranges `order` inside the current bins (`ClsInv.of_rearr`).
-/
namespace CanonF

structure ClsInv (cl : Nat → Nat) (bd0 : List Nat) (op : OP) : Prop where
  pos : ∀ p v, op.order.toList[p]? = some v → cl v = binIdx bd0 p
  keep : ∀ d ∈ bd0, ∃ a, (d, a) ∈ divs op ∧ a ≤ 0

theorem binIdx_congr (l : List Nat) (p q : Nat) (h : ∀ d ∈ l, d ≤ p ↔ d ≤ q) : binIdx l p = binIdx l q := by
  unfold binIdx
  apply List.countP_congr
  intro d hd
  simp only [decide_eq_true_eq]
  exact h d hd

/-- an operation that only moves vertices between positions not separated by an old divider of age `≤ 0`, and keeps
these dividers, keeps the class invariant -/
theorem ClsInv.of_rearr {cl : Nat → Nat} {bd0 : List Nat} {op op' : OP} (h : ClsInv cl bd0 op)
    (hord : ∀ p v, op'.order.toList[p]? = some v →
      ∃ q, op.order.toList[q]? = some v ∧ ∀ d a, (d, a) ∈ divs op → a ≤ 0 → (d ≤ q ↔ d ≤ p))
    (hkeep : ∀ d a, (d, a) ∈ divs op → a ≤ 0 → (d, a) ∈ divs op') : ClsInv cl bd0 op' := by
  constructor
  · intro p v hv
    obtain ⟨q, hq, hsep⟩ := hord p v hv
    rw [h.pos q v hq]
    apply binIdx_congr
    intro d hd
    obtain ⟨a, ha, ha0⟩ := h.keep d hd
    exact hsep d a ha ha0
  · intro d hd
    obtain ⟨a, ha, ha0⟩ := h.keep d hd
    exact ⟨a, hkeep d a ha ha0, ha0⟩

theorem ClsInv.of_frame {cl : Nat → Nat} {bd0 : List Nat} {op op' : OP} (h : ClsInv cl bd0 op)
    (e1 : op'.order = op.order) (e2 : op'.binDividers = op.binDividers) (e3 : op'.binAges = op.binAges) :
    ClsInv cl bd0 op' := by
  constructor
  · rw [e1]; exact h.pos
  · unfold divs; rw [e2, e3]; exact h.keep

/-- the initial partition satisfies the class invariant for its own cells -/
theorem ClsInv.init {n : Nat} {op : OP} (hp : PartInv n op) (ha : AgeInv op) (hage : op.age = 0) :
    ClsInv (fun v => (op.inCell.toList[v]?).getD 0) op.binDividers.toList op := by
  constructor
  · intro p v hv
    simp only [hp.inCell p v hv, Option.getD_some]
  · intro d hd
    obtain ⟨k, hk⟩ := List.getElem?_of_mem hd
    have hkl := (List.getElem?_eq_some_iff.1 hk).1
    have hlen : op.binAges.toList.length = op.binDividers.toList.length := by
      rw [Sl.length_toList _ hp.wfAges, Sl.length_toList _ hp.wfBd, hp.lenAges]
    have hka : k < op.binAges.toList.length := by omega
    refine ⟨op.binAges.toList[k], ?_, ?_⟩
    · apply List.mem_of_getElem? (i := k)
      unfold divs
      rw [List.getElem?_zip_eq_some]
      exact ⟨hk, List.getElem?_eq_getElem hka⟩
    · have := ha.le _ (List.getElem_mem hka)
      omega

end CanonF
