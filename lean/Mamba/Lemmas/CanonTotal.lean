import Mamba.Lemmas.CanonBuilt
namespace Search
open Disjoint GSearch GraphSpec

variable {O : Oracle} {n : Nat}

/-- `u` is a strictly better candidate than `v` -/
def Better (g : DG) (u v : Nat) : Prop :=
  dgi g u < dgi g v ∨ (dgi g u = dgi g v ∧ keyGt (nkey g u) (nkey g v).1 (nkey g v).2)

theorem better_irrefl (g : DG) (v : Nat) : ¬ Better g v v := by
  rintro (h | ⟨-, h⟩)
  · omega
  · exact keyGt_irrefl _ h

theorem better_trans {g : DG} {a b c : Nat} (h1 : Better g a b) (h2 : Better g b c) : Better g a c := by
  unfold Better keyGt at *
  rcases h1 with h1 | ⟨e1, k1⟩ <;> rcases h2 with h2 | ⟨e2, k2⟩
  · left; omega
  · left; omega
  · left; omega
  · right
    refine ⟨by omega, ?_⟩
    rcases k1 with k1 | ⟨k1a, k1b⟩ <;> rcases k2 with k2 | ⟨k2a, k2b⟩
    · left; omega
    · left; omega
    · left; omega
    · right; exact ⟨by omega, by omega⟩

theorem best_iff_not_better {g : DG} {v : Nat} (hv : v < g.nv) : Best g v ↔ ∀ u, u < g.nv → ¬ Better g u v := by
  unfold Best Better
  constructor
  · rintro ⟨-, h⟩ u hu hb
    have := h u hu
    rcases hb with hb | ⟨e, k⟩
    · omega
    · exact this.2 e k
  · intro h
    refine ⟨hv, fun u hu => ⟨?_, fun e k => h u hu (Or.inr ⟨e, k⟩)⟩⟩
    by_contra hlt
    exact h u hu (Or.inl (by omega))

/-- a best vertex exists -/
theorem exists_best (g : DG) : ∀ k, 1 ≤ k → k ≤ g.nv → ∃ v, v < k ∧ ∀ u, u < k → ¬ Better g u v
  | 0, h, _ => by omega
  | 1, _, _ => ⟨0, by omega, fun u hu => by
      have : u = 0 := by omega
      subst this; exact better_irrefl g 0⟩
  | k + 2, _, hle => by
    obtain ⟨v, hv, hmax⟩ := exists_best g (k + 1) (by omega) (by omega)
    by_cases hb : Better g (k + 1) v
    · refine ⟨k + 1, by omega, fun u hu hbu => ?_⟩
      by_cases huk : u = k + 1
      · subst huk; exact better_irrefl g _ hbu
      · exact hmax u (by omega) (better_trans hbu hb)
    · refine ⟨v, by omega, fun u hu => ?_⟩
      by_cases huk : u = k + 1
      · subst huk; exact hb
      · exact hmax u (by omega)

theorem degreeScan_total (degs : Array Int) (degree : Int) :
    ∀ (l : List Nat) (vb : Nat), (∀ i ∈ l, i < degs.size) → ∃ r, degreeScan degs degree l vb = .ok r
  | [], vb, _ => ⟨some vb, rfl⟩
  | i :: is, vb, h => by
    have hi := h i List.mem_cons_self
    simp only [degreeScan, Array.getElem?_eq_getElem hi]
    split
    · exact ⟨none, rfl⟩
    · split
      · exact degreeScan_total degs degree is _ (fun j hj => h j (List.mem_cons_of_mem _ hj))
      · exact degreeScan_total degs degree is _ (fun j hj => h j (List.mem_cons_of_mem _ hj))

theorem sumScan_total {g : DG} (hb : Built g) (sum square : Int) :
    ∀ (l : List Nat) (vb : Nat), (∀ v ∈ l, v < g.nv) → ∃ r, sumScan g sum square l vb = .ok r
  | [], vb, _ => ⟨some vb, rfl⟩
  | v :: vs, vb, h => by
    have hv := h v List.mem_cons_self
    have ih := fun vb' => sumScan_total hb sum square vs vb' (fun w hw => h w (List.mem_cons_of_mem _ hw))
    simp only [sumScan, sumSqNbrs_range hb hv]
    split
    · exact ⟨none, rfl⟩
    · split
      · exact ih _
      · split
        · exact ⟨none, rfl⟩
        · split
          · exact ih _
          · exact ih _

/-- `isCanonical` does not panic on the graphs the search builds -/
theorem isCanonical_total (hO : OracleSpec O n) {g : DG} (hb : Built g) (hn : g.nv ≤ n) {aug : List Nat}
    (haug : ∀ v ∈ aug, v < g.nv) : ∃ c b, isCanonical O n g aug none = .ok (c, b) := by
  have hpos := hb.pos
  have hL : g.nv - 1 < g.nv := by omega
  have hdL := hb.degOK (g.nv - 1) hL
  unfold isCanonical
  have hnv : ¬ g.nv = 0 := by omega
  simp only [hnv, if_false, hdL]
  obtain ⟨r0, hr0⟩ := degreeScan_total g.degs (dgi g (g.nv - 1)) (List.range (g.nv - 1)) 0 (by
    intro i hi
    rw [hb.sized.degs]
    have := List.mem_range.1 hi; omega)
  have hr0' : degreeScan g.degs ((g.toG.deg (g.nv - 1) : Nat) : Int) (List.range (g.nv - 1)) 0 = .ok r0 := hr0
  rw [hr0']
  cases r0 with
  | none => exact ⟨none, false, rfl⟩
  | some vb0 =>
    simp only
    by_cases hz : vb0 = 0
    · simp only [hz, if_true]; exact ⟨none, true, rfl⟩
    · simp only [hz, if_false]
      rw [sumSq_spec hb aug (0, 0) haug]
      simp only
      obtain ⟨-, hbits⟩ := (degreeScan_spec _ _ _ _ _ hr0).2 vb0 rfl
      have hl0 : ∀ v ∈ bitsOf vb0, v < g.nv := by
        intro v hv
        have := mem_bitsOf.1 hv
        rw [hbits v] at this
        simp only [Nat.zero_testBit, Bool.false_or, decide_eq_true_eq, List.mem_range] at this
        omega
      obtain ⟨r1, hr1⟩ := sumScan_total hb (0 + (wsum g aug).1) (0 + (wsum g aug).2) (bitsOf vb0) vb0 hl0
      rw [hr1]
      cases r1 with
      | none => exact ⟨none, false, rfl⟩
      | some vb =>
        simp only
        by_cases hz2 : vb = 0
        · simp only [hz2, if_true]; exact ⟨none, true, rfl⟩
        · simp only [hz2, if_false]
          obtain ⟨a, hga⟩ := hO.total hb hn
          have hd := autData_of_answer hO hb hga
          rcases hO.early vb hb with he | he
          · rw [he]; exact ⟨none, false, rfl⟩
          · rw [he, hga]
            simp only
            obtain ⟨d1, f1, i1, s1, -⟩ := find_spec hd.inv (g.nv - 1) (by rw [hd.size]; exact hL)
            rw [f1]
            simp only
            have hperm := hO.perm hb hga
            obtain ⟨ds2, b, hp⟩ := permScan_total g.nv vb (rep a.orbits (g.nv - 1)) a.perm.toList d1 i1 (by
              intro u hu
              have := hperm.mem_iff.1 hu
              rw [s1, hd.size]; simpa using this)
            rw [hp]
            exact ⟨_, _, rfl⟩

end Search
