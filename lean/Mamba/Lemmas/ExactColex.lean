import Mamba.Lemmas.ExactDeg
namespace Search

/-- strictly increasing `k`-lists over `0..n-1` -/
def IsSub (n k : Nat) (c : List Nat) : Prop := c.length = k ∧ c.Pairwise (· < ·) ∧ ∀ v ∈ c, v < n

theorem mem_colex : ∀ (n k : Nat) (c : List Nat), c ∈ colex n k ↔ IsSub n k c
  | _, 0, c => by
    simp only [colex, List.mem_singleton, IsSub]
    constructor
    · rintro rfl; simp
    · intro h; exact List.length_eq_zero_iff.1 h.1
  | 0, k + 1, c => by
    simp only [colex, List.not_mem_nil, IsSub, false_iff]
    rintro ⟨hl, -, hlt⟩
    cases c with
    | nil => simp at hl
    | cons a as => exact absurd (hlt a List.mem_cons_self) (Nat.not_lt_zero a)
  | n + 1, k + 1, c => by
    simp only [colex, List.mem_append, List.mem_map]
    rw [mem_colex n (k + 1) c]
    constructor
    · rintro (h | ⟨c', hc', rfl⟩)
      · exact ⟨h.1, h.2.1, fun v hv => Nat.lt_succ_of_lt (h.2.2 v hv)⟩
      · have h := (mem_colex n k c').1 hc'
        refine ⟨by simp [h.1], ?_, ?_⟩
        · rw [List.pairwise_append]
          refine ⟨h.2.1, List.pairwise_singleton _ _, ?_⟩
          intro a ha b hb
          rw [List.mem_singleton] at hb; subst hb
          exact h.2.2 a ha
        · intro v hv
          rcases List.mem_append.1 hv with hv | hv
          · exact Nat.lt_succ_of_lt (h.2.2 v hv)
          · rw [List.mem_singleton] at hv; subst hv; exact Nat.lt_succ_self _
    · rintro ⟨hl, hp, hlt⟩
      rcases List.eq_nil_or_concat' c with rfl | ⟨c', z, rfl⟩
      · simp at hl
      · rw [List.pairwise_append] at hp
        have hz : z < n + 1 := hlt z (by simp)
        have hl' : c'.length = k := by simpa using hl
        by_cases hzn : z = n
        · right
          subst hzn
          refine ⟨c', (mem_colex z k c').2 ⟨hl', hp.1, fun a ha => hp.2.2 a ha z (by simp)⟩, rfl⟩
        · left
          refine ⟨hl, List.pairwise_append.2 hp, ?_⟩
          intro v hv
          rcases List.mem_append.1 hv with hv | hv
          · have := hp.2.2 v hv z (by simp); omega
          · rw [List.mem_singleton] at hv; subst hv; omega

theorem rank_eq_sum (c : List Nat) : rank c = (c.zipIdx.map fun (p : Nat × Nat) => choose p.1 (p.2 + 1)).sum := by
  unfold rank
  rw [List.sum_eq_foldl]

theorem rank_concat (c : List Nat) (z : Nat) : rank (c ++ [z]) = rank c + choose z (c.length + 1) := by
  rw [rank_eq_sum, rank_eq_sum, List.zipIdx_append]
  simp

theorem colex_length : ∀ (n k : Nat), (colex n k).length = choose n k
  | _, 0 => by simp [colex, choose]
  | 0, k + 1 => by simp [colex, choose]
  | n + 1, k + 1 => by
    simp only [colex, List.length_append, List.length_map, choose]
    rw [colex_length n (k + 1), colex_length n k, Nat.add_comm]

/-- the `i`-th subset in colexicographic order has rank `i` -/
theorem colex_rank : ∀ (n k i : Nat) (h : i < (colex n k).length), rank ((colex n k)[i]) = i
  | _, 0, i, h => by
    simp only [colex, List.length_singleton] at h
    have : i = 0 := by omega
    subst this
    simp [colex, rank]
  | 0, k + 1, i, h => by simp [colex] at h
  | n + 1, k + 1, i, h => by
    simp only [colex]
    by_cases hi : i < (colex n (k + 1)).length
    · rw [List.getElem_append_left hi]
      exact colex_rank n (k + 1) i hi
    · have hge : (colex n (k + 1)).length ≤ i := Nat.le_of_not_lt hi
      rw [List.getElem_append_right hge]
      simp only [List.getElem_map]
      have hj : i - (colex n (k + 1)).length < (colex n k).length := by
        simp only [colex, List.length_append, List.length_map] at h
        omega
      have hmem := (mem_colex n k _).1 (List.getElem_mem hj)
      rw [rank_concat, colex_rank n k _ hj, hmem.1, colex_length n (k + 1)]
      rw [colex_length n (k + 1)] at hge
      omega

theorem colex_nodup (n k : Nat) : (colex n k).Nodup := by
  rw [List.nodup_iff_injective_getElem]
  intro ⟨i, hi⟩ ⟨j, hj⟩ h
  simp only at h
  have h1 := colex_rank n k i hi
  have h2 := colex_rank n k j hj
  rw [h] at h1
  exact Fin.ext (h1.symm.trans h2)

/-- a strictly increasing `k`-list is the subset number `rank c` -/
theorem colex_of_sub {n k : Nat} {c : List Nat} (h : IsSub n k c) :
    ∃ hi : rank c < (colex n k).length, (colex n k)[rank c] = c := by
  obtain ⟨i, hi, he⟩ := List.getElem_of_mem ((mem_colex n k c).2 h)
  have := colex_rank n k i hi
  rw [he] at this
  subst this
  exact ⟨hi, he⟩

end Search
