import Mamba.Lemmas.DsaturHeap2
/-! DSATUR model: the saturation counters and the forward update loop (`dsatur_visits_all`). -/
namespace CliqueColour
open GraphSpec

/-- `seenColours[c]` of vertex `u` -/
def seenAt (s : Dsat) (u c : Nat) : Int := (s.seen.getD u []).getD c 0

theorem incAt_getD (l : List Int) (i : Nat) (d : Int) (k : Nat) :
    (incAt l i d).getD k 0 = if k = i ∧ i < l.length then l.getD k 0 + d else l.getD k 0 := by
  unfold incAt
  rw [getD_set]
  by_cases h : i = k ∧ i < l.length
  · rw [if_pos h, if_pos ⟨h.1.symm, h.2⟩, h.1]
  · rw [if_neg h, if_neg (fun h' => h ⟨h'.1.symm, h'.2⟩)]

theorem incAt_length (l : List Int) (i : Nat) (d : Int) : (incAt l i d).length = l.length := by simp [incAt]

/-- effect of `seeInc` / `seeDec` on the counters -/
theorem seeInc_seenAt (s : Dsat) (u c : Nat) (hu : u < s.seen.length) (hc : c < (s.seen.getD u []).length)
    (u' c' : Nat) :
    seenAt (seeInc s u c) u' c' = seenAt s u' c' + (if u' = u ∧ c' = c then 1 else 0) := by
  unfold seenAt seeInc
  simp only
  rw [getD_set]
  by_cases hu' : u' = u
  · subst hu'
    rw [if_pos ⟨rfl, hu⟩, incAt_getD]
    by_cases hc' : c' = c
    · subst hc'; rw [if_pos ⟨rfl, hc⟩, if_pos ⟨rfl, rfl⟩]
    · rw [if_neg (fun h => hc' h.1), if_neg (fun h => hc' h.2)]; omega
  · rw [if_neg (fun h => hu' h.1.symm), if_neg (fun h => hu' h.1)]; omega

theorem seeDec_seenAt (s : Dsat) (u c : Nat) (hu : u < s.seen.length) (hc : c < (s.seen.getD u []).length)
    (u' c' : Nat) :
    seenAt (seeDec s u c) u' c' = seenAt s u' c' - (if u' = u ∧ c' = c then 1 else 0) := by
  unfold seenAt seeDec
  simp only
  rw [getD_set]
  by_cases hu' : u' = u
  · subst hu'
    rw [if_pos ⟨rfl, hu⟩, incAt_getD]
    by_cases hc' : c' = c
    · subst hc'; rw [if_pos ⟨rfl, hc⟩, if_pos ⟨rfl, rfl⟩]; omega
    · rw [if_neg (fun h => hc' h.1), if_neg (fun h => hc' h.2)]; omega
  · rw [if_neg (fun h => hu' h.1.symm), if_neg (fun h => hu' h.1)]; omega

/-- the parts of the state that the counter updates never touch -/
structure SameFrame (s t : Dsat) : Prop where
  deg : t.deg = s.deg
  colouring : t.colouring = s.colouring
  best : t.best = s.best
  chosen : t.chosen = s.chosen
  cur : t.cur = s.cur
  choices : t.choices = s.choices
  maxUsed : t.maxUsed = s.maxUsed
  upper : t.upper = s.upper
  numLen : t.num.length = s.num.length
  seenLen : t.seen.length = s.seen.length
  rowLen : ∀ u, (t.seen.getD u []).length = (s.seen.getD u []).length

theorem SameFrame.refl (s : Dsat) : SameFrame s s :=
  ⟨rfl, rfl, rfl, rfl, rfl, rfl, rfl, rfl, rfl, rfl, fun _ => rfl⟩

theorem SameFrame.trans {s t r : Dsat} (h1 : SameFrame s t) (h2 : SameFrame t r) : SameFrame s r :=
  ⟨h2.deg.trans h1.deg, h2.colouring.trans h1.colouring, h2.best.trans h1.best, h2.chosen.trans h1.chosen,
    h2.cur.trans h1.cur, h2.choices.trans h1.choices, h2.maxUsed.trans h1.maxUsed, h2.upper.trans h1.upper,
    h2.numLen.trans h1.numLen, h2.seenLen.trans h1.seenLen, fun u => (h2.rowLen u).trans (h1.rowLen u)⟩

theorem row_set_length (seen : List (List Int)) (u : Nat) (row : List Int)
    (hrow : row.length = (seen.getD u []).length) (u' : Nat) :
    ((seen.set u row).getD u' []).length = (seen.getD u' []).length := by
  rw [getD_set]
  by_cases h : u = u' ∧ u < seen.length
  · rw [if_pos h, hrow, h.1]
  · rw [if_neg h]

theorem seeInc_frame (s : Dsat) (u c : Nat) : SameFrame s (seeInc s u c) ∧ (seeInc s u c).heap = s.heap := by
  refine ⟨⟨rfl, rfl, rfl, rfl, rfl, rfl, rfl, rfl, ?_, by simp [seeInc], fun u' => ?_⟩, rfl⟩
  · simp only [seeInc]; split <;> simp [incAt_length]
  · simp only [seeInc]; exact row_set_length _ _ _ (incAt_length _ _ _) u'

theorem seeDec_frame (s : Dsat) (u c : Nat) : SameFrame s (seeDec s u c) ∧ (seeDec s u c).heap = s.heap := by
  refine ⟨⟨rfl, rfl, rfl, rfl, rfl, rfl, rfl, rfl, ?_, by simp [seeDec], fun u' => ?_⟩, rfl⟩
  · simp only [seeDec]; split <;> simp [incAt_length]
  · simp only [seeDec]; exact row_set_length _ _ _ (incAt_length _ _ _) u'

/-- `seeInc` can only raise the priority of `u` and changes no other key -/
theorem seeInc_num (s : Dsat) (u c : Nat) (w : Nat) :
    (w ≠ u → (seeInc s u c).num.getD w 0 = s.num.getD w 0) ∧ s.num.getD w 0 ≤ (seeInc s u c).num.getD w 0 := by
  simp only [seeInc]
  split
  · rw [incAt_getD]
    constructor
    · intro hw; rw [if_neg (fun h => hw h.1)]
    · split <;> omega
  · exact ⟨fun _ => rfl, Int.le_refl _⟩

theorem leV_improve {num num' : List Int} {deg : List Nat} {a b : Nat} (h : leV num deg a b)
    (ha : num.getD a 0 ≤ num'.getD a 0) (hb : num'.getD b 0 = num.getD b 0) : leV num' deg a b := by
  unfold leV lessV at *; omega

theorem ind_add {A B C : Prop} [Decidable A] [Decidable B] [Decidable C] (hx : ¬ (A ∧ B)) (hc : C ↔ (A ∨ B)) :
    ((if A then 1 else 0 : Int) + (if B then 1 else 0)) = (if C then 1 else 0) := by
  by_cases hA : A <;> by_cases hB : B <;> by_cases hC : C <;> simp_all

theorem getD_inj_of_nodup {l : List Nat} (hn : l.Nodup) {i j : Nat} (hi : i < l.length) (hj : j < l.length)
    (h : l.getD i 0 = l.getD j 0) : i = j := by
  rw [getD_eq_getElem hi, getD_eq_getElem hj] at h
  exact (List.Nodup.getElem_inj_iff hn).1 h

theorem getD_mem' {l : List Nat} {i : Nat} (hi : i < l.length) : l.getD i 0 ∈ l := by
  rw [getD_eq_getElem hi]; exact List.getElem_mem hi

theorem mem_iff_getD {l : List Nat} {u : Nat} : u ∈ l ↔ ∃ p, p < l.length ∧ l.getD p 0 = u := by
  constructor
  · intro h
    obtain ⟨p, hp, he⟩ := List.getElem_of_mem h
    exact ⟨p, hp, by rw [getD_eq_getElem hp]; exact he⟩
  · rintro ⟨p, hp, rfl⟩; exact getD_mem' hp

/-- the loop `for k, u := range uh.intHeap { if edge(u, v) { seen[u][c]++ … }; heap.Fix(&uh, k) }`: started on a valid
heap it visits every entry exactly once (`dsatur_visits_all`) and leaves a valid heap with the same entries -/
theorem fwdLoop_inv (g : G) (v c : Nat) (s : Dsat) (hnd : s.heap.Nodup)
    (hrows : ∀ u ∈ s.heap, u < s.seen.length ∧ c < (s.seen.getD u []).length) :
    ∀ (fuel k : Nat) (t : Dsat), s.heap.length + 1 ≤ fuel + k → k ≤ s.heap.length →
      t.heap.Perm s.heap → HeapOK t.num t.deg t.heap →
      (∀ p, k ≤ p → t.heap.getD p 0 = s.heap.getD p 0) → SameFrame s t →
      (∀ u c', seenAt t u c' = seenAt s u c' +
        (if (∃ p, p < k ∧ s.heap.getD p 0 = u) ∧ g.adj u v = true ∧ c' = c then 1 else 0)) →
      (fwdLoop g v c fuel k t).heap.Perm s.heap ∧
        HeapOK (fwdLoop g v c fuel k t).num (fwdLoop g v c fuel k t).deg (fwdLoop g v c fuel k t).heap ∧
        SameFrame s (fwdLoop g v c fuel k t) ∧
        ∀ u c', seenAt (fwdLoop g v c fuel k t) u c' = seenAt s u c' +
          (if u ∈ s.heap ∧ g.adj u v = true ∧ c' = c then 1 else 0) := by
  intro fuel
  induction fuel with
  | zero => intro k t hf hk; omega
  | succ fuel ih =>
    intro k t hf hk hperm hok hun hfr hseen
    have hlen : t.heap.length = s.heap.length := hperm.length_eq
    simp only [fwdLoop]
    by_cases hkl : k < t.heap.length
    · rw [if_pos hkl]
      have hkl' : k < s.heap.length := by omega
      have htn : t.heap.Nodup := hperm.nodup_iff.2 hnd
      -- the entry visited now
      have hu_eq : t.heap.getD k 0 = s.heap.getD k 0 := hun k (Nat.le_refl _)
      generalize hudef : t.heap.getD k 0 = u at hu_eq
      have huH : u ∈ s.heap := by rw [hu_eq]; exact getD_mem' hkl'
      have hnotvisited : ¬ ∃ p, p < k ∧ s.heap.getD p 0 = u := by
        rintro ⟨p, hp, he⟩
        have := getD_inj_of_nodup hnd (by omega) hkl' (he.trans hu_eq)
        omega
      obtain ⟨hus, hcs⟩ := hrows u huH
      -- the state after the counter update
      generalize ht1 : (if g.adj u v = true then seeInc t u c else t) = t1
      have ht1heap : t1.heap = t.heap := by
        rw [← ht1]; split
        · exact (seeInc_frame t u c).2
        · rfl
      have ht1fr : SameFrame t t1 := by
        rw [← ht1]; split
        · exact (seeInc_frame t u c).1
        · exact SameFrame.refl t
      have ht1num : ∀ w, (w ≠ u → t1.num.getD w 0 = t.num.getD w 0) ∧ t.num.getD w 0 ≤ t1.num.getD w 0 := by
        intro w
        rw [← ht1]; split
        · exact seeInc_num t u c w
        · exact ⟨fun _ => rfl, Int.le_refl _⟩
      have ht1seen : ∀ u' c', seenAt t1 u' c' = seenAt t u' c' +
          (if u' = u ∧ g.adj u v = true ∧ c' = c then 1 else 0) := by
        intro u' c'
        rw [← ht1]
        by_cases hadj : g.adj u v = true
        · rw [if_pos hadj, seeInc_seenAt t u c (by rw [hfr.seenLen]; exact hus) (by rw [hfr.rowLen]; exact hcs)]
          congr 1
          by_cases h1 : u' = u ∧ c' = c
          · rw [if_pos h1, if_pos ⟨h1.1, hadj, h1.2⟩]
          · rw [if_neg h1, if_neg (fun h => h1 ⟨h.1, h.2.2⟩)]
        · rw [if_neg hadj, if_neg (fun h => hadj h.2.1)]; omega
      -- Fix at position k
      have hA : ∀ e, e < t.heap.length → e ≠ k → t.heap.getD e 0 ≠ u := by
        intro e he hek heq
        exact hek (getD_inj_of_nodup htn he hkl (heq.trans hudef.symm))
      have hdeg : t1.deg = t.deg := ht1fr.deg
      obtain ⟨hfp, hfok, hfun⟩ := heapFix_spec t1.num t1.deg t.heap hkl
        (by
          intro e he0 hel hek
          have := hok e he0 hel
          unfold EdgeOK at this ⊢
          rw [hdeg]
          exact leV_improve this (ht1num _).2 ((ht1num _).1 (hA e hel hek)))
        (by
          intro c2 hc0 hcl hpc hk0
          have e1 := hok k hk0 hkl
          have e2 := hok c2 hc0 hcl
          unfold EdgeOK at e1 e2
          rw [hpc] at e2
          rw [hdeg]
          exact leV_improve (leV_trans e1 e2) (ht1num _).2 ((ht1num _).1 (hA c2 hcl (by omega))))
      have hstate : ({ t1 with heap := heapFix t1.num t1.deg t1.heap k } : Dsat) =
          { t1 with heap := heapFix t1.num t1.deg t.heap k } := by rw [ht1heap]
      rw [hstate]
      refine ih (k + 1) _ (by omega) (by omega) (hfp.trans hperm) hfok ?_ ?_ ?_
      · intro p hp
        show (heapFix t1.num t1.deg t.heap k).getD p 0 = _
        rw [hfun p (by omega)]; exact hun p (by omega)
      · exact SameFrame.trans hfr ⟨ht1fr.deg, ht1fr.colouring, ht1fr.best, ht1fr.chosen, ht1fr.cur, ht1fr.choices,
          ht1fr.maxUsed, ht1fr.upper, ht1fr.numLen, ht1fr.seenLen, ht1fr.rowLen⟩
      · intro u' c'
        show seenAt t1 u' c' = _
        have hind : ((if (∃ p, p < k ∧ s.heap.getD p 0 = u') ∧ g.adj u' v = true ∧ c' = c then 1 else 0) : Int) +
            (if u' = u ∧ g.adj u v = true ∧ c' = c then 1 else 0) =
            (if (∃ p, p < k + 1 ∧ s.heap.getD p 0 = u') ∧ g.adj u' v = true ∧ c' = c then 1 else 0) := by
          apply ind_add
          · rintro ⟨⟨hvis, _⟩, ⟨hu', _⟩⟩
            rw [hu'] at hvis
            exact hnotvisited hvis
          · constructor
            · rintro ⟨⟨p, hp, he⟩, h4⟩
              by_cases hpk : p < k
              · exact Or.inl ⟨⟨p, hpk, he⟩, h4⟩
              · have : p = k := by omega
                subst this
                have hu' : u' = u := he.symm.trans hu_eq.symm
                exact Or.inr ⟨hu', by rw [← hu']; exact h4.1, h4.2⟩
            · rintro (⟨⟨p, hp, he⟩, h4⟩ | ⟨hu', h4⟩)
              · exact ⟨⟨p, by omega, he⟩, h4⟩
              · exact ⟨⟨k, by omega, by rw [hu']; exact hu_eq.symm⟩, by rw [hu']; exact h4.1, h4.2⟩
        rw [ht1seen u' c', hseen u' c', Int.add_assoc, hind]
    · rw [if_neg hkl]
      have hkeq : k = s.heap.length := by omega
      refine ⟨hperm, hok, hfr, fun u c' => ?_⟩
      rw [hseen u c']
      congr 1
      by_cases h : u ∈ s.heap ∧ g.adj u v = true ∧ c' = c
      · obtain ⟨p, hp, he⟩ := mem_iff_getD.1 h.1
        rw [if_pos h, if_pos ⟨⟨p, by omega, he⟩, h.2⟩]
      · rw [if_neg h, if_neg]
        rintro ⟨⟨p, hp, he⟩, h2⟩
        exact h ⟨mem_iff_getD.2 ⟨p, by omega, he⟩, h2⟩

theorem fwdLoop_spec (g : G) (v c : Nat) (s : Dsat) (hnd : s.heap.Nodup) (hok : HeapOK s.num s.deg s.heap)
    (hrows : ∀ u ∈ s.heap, u < s.seen.length ∧ c < (s.seen.getD u []).length) :
    (fwdLoop g v c (s.heap.length + 1) 0 s).heap.Perm s.heap ∧
      HeapOK (fwdLoop g v c (s.heap.length + 1) 0 s).num (fwdLoop g v c (s.heap.length + 1) 0 s).deg
        (fwdLoop g v c (s.heap.length + 1) 0 s).heap ∧
      SameFrame s (fwdLoop g v c (s.heap.length + 1) 0 s) ∧
      ∀ u c', seenAt (fwdLoop g v c (s.heap.length + 1) 0 s) u c' = seenAt s u c' +
        (if u ∈ s.heap ∧ g.adj u v = true ∧ c' = c then 1 else 0) :=
  fwdLoop_inv g v c s hnd hrows (s.heap.length + 1) 0 s (by omega) (Nat.zero_le _) (List.Perm.refl _) hok
    (fun _ _ => rfl) (SameFrame.refl s) (fun u c' => by
      rw [if_neg]; · omega
      · rintro ⟨⟨p, hp, _⟩, _⟩; omega)

end CliqueColour
