import Mamba.Lemmas.DawgIso
/-! Termination of the explicit-stack traversal on acyclic automata, with an explicit (very generous) fuel bound. -/
namespace Dawg

/-- potential of a fresh stack entry for a node of rank `< r` when no node has more than `D` links -/
def Qp (D : Nat) : Nat → Nat
  | 0 => 0
  | r + 1 => 1 + D * (1 + D * Qp D r)

/-- potential of a stack entry for a node of rank `r` with `m` links still to examine -/
def Pot (D r m : Nat) : Nat := 1 + m * (1 + D * Qp D r)

theorem Qp_mono (D : Nat) : ∀ {r r' : Nat}, r ≤ r' → Qp D r ≤ Qp D r' := by
  have step : ∀ r, Qp D r ≤ Qp D (r + 1) := by
    intro r
    induction r with
    | zero => simp [Qp]
    | succ r ih =>
      simp only [Qp]
      have h1 : D * Qp D r ≤ D * Qp D (r + 1) := Nat.mul_le_mul_left _ ih
      have h2 : D * (1 + D * Qp D r) ≤ D * (1 + D * Qp D (r + 1)) := Nat.mul_le_mul_left _ (by omega)
      simp only [Qp] at h2
      omega
  intro r r' h
  induction h with
  | refl => exact Nat.le_refl _
  | step _ ih => exact Nat.le_trans ih (step _)

theorem Pot_mono (D r : Nat) {m m' : Nat} (h : m ≤ m') : Pot D r m ≤ Pot D r m' := by
  unfold Pot
  have := Nat.mul_le_mul_right (1 + D * Qp D r) h
  omega

theorem Pot_le_Qp (D r m : Nat) (h : m ≤ D) : Pot D r m ≤ Qp D (r + 1) := by
  have := Pot_mono D r h
  simpa [Pot, Qp] using this

theorem Pot_pos (D r m : Nat) : 1 ≤ Pot D r m := by unfold Pot; omega

/-- examining one link: the entry loses `1 + D * Qp D r`, which pays for `m ≤ D` pushed children of smaller rank -/
theorem Pot_step (D r m : Nat) (hm : m + 1 ≤ D) : Pot D r m + (m + 1) * Qp D r + 1 ≤ Pot D r (m + 1) := by
  unfold Pot
  have h1 : (m + 1) * (1 + D * Qp D r) = m * (1 + D * Qp D r) + (1 + D * Qp D r) := Nat.succ_mul _ _
  have h2 : (m + 1) * Qp D r ≤ D * Qp D r := Nat.mul_le_mul_right _ hm
  omega

def deg (h : Heap) (p : Nat) : Nat :=
  match h[p]? with
  | some n => n.links.length
  | none => 0

/-- potential of a stack -/
def SP (h : Heap) (rank : Nat → Nat) (D : Nat) (s : List (Nat × Nat)) : Nat :=
  (s.map (fun e => Pot D (rank e.1) (deg h e.1 - e.2))).sum

theorem SP_cons (h : Heap) (rank : Nat → Nat) (D : Nat) (e : Nat × Nat) (s : List (Nat × Nat)) :
    SP h rank D (e :: s) = Pot D (rank e.1) (deg h e.1 - e.2) + SP h rank D s := by
  simp [SP]

theorem SP_nil (h : Heap) (rank : Nat → Nat) (D : Nat) : SP h rank D [] = 0 := rfl

theorem SP_pos (h : Heap) (rank : Nat → Nat) (D : Nat) (s : List (Nat × Nat)) (hs : s ≠ []) : 1 ≤ SP h rank D s := by
  cases s with
  | nil => exact absurd rfl hs
  | cons e s => rw [SP_cons]; have := Pot_pos D (rank e.1) (deg h e.1 - e.2); omega

theorem encLinks_ok (h : Heap) (conv : Nat → Nat) : ∀ (labs links : List Nat), labs.length = links.length →
    (∀ q ∈ links, ∃ qn, h[q]? = some qn) → ∃ r, encLinks h conv labs links = .ok r := by
  intro labs
  induction labs with
  | nil => intro links _ _; cases links <;> exact ⟨[], rfl⟩
  | cons lab labs ih =>
    intro links hlen hq
    cases links with
    | nil => simp at hlen
    | cons q qs =>
      obtain ⟨qn, hqn⟩ := hq q List.mem_cons_self
      obtain ⟨r, hr⟩ := ih qs (by simpa using hlen) (fun q' hq' => hq q' (List.mem_cons_of_mem _ hq'))
      exact ⟨lab :: encodeUint64 (conv qn.id) ++ r, by simp only [encLinks, getNode_of_some hqn, hr]⟩

theorem encRecord_ok (d : Dawg) (wf : WF d) (conv : Nat → Nat) {c : Nat} {cn : Node}
    (hc : Reach d.heap d.root c) (hcn : d.heap[c]? = some cn) : ∃ r, encRecord d.heap conv cn = .ok r := by
  obtain ⟨r, hr⟩ := encLinks_ok d.heap conv cn.labels cn.links (wf.lens c cn hc hcn)
    (fun q hq => wf.closed q (Reach.step hc hcn hq))
  simp only [encRecord, hr]
  exact ⟨_, rfl⟩

/-- the rank of every reachable node is strictly larger than the ranks of its children; at most `D` links per node -/
structure Ranked (d : Dawg) (rank : Nat → Nat) (D : Nat) : Prop where
  dec : ∀ p n q, Reach d.heap d.root p → d.heap[p]? = some n → q ∈ n.links → rank q < rank p
  deg : ∀ p n, Reach d.heap d.root p → d.heap[p]? = some n → n.links.length ≤ D

theorem dfsInner_total (d : Dawg) (wf : WF d) (rank : Nat → Nat) (D : Nat) (hr : Ranked d rank D)
    (emit : Option (Nat → Nat)) (pT : Nat) (T : Node) (hT : d.heap[pT]? = some T) (hTr : Reach d.heap d.root pT) :
    ∀ (labs : List Nat) (j : Nat) (st : DfsSt) (tp tn : Nat) (below : List (Nat × Nat)),
      labs.length = T.links.length - j → st.stack = (tp, tn) :: below → tn ≤ j + 1 →
      ∃ st' b, dfsInner emit d.heap T labs j st = .ok (st', b) ∧ st'.stack ≠ [] ∧
        SP d.heap rank D st'.stack ≤ SP d.heap rank D st.stack + labs.length * Qp D (rank pT) ∧
        (labs = [] → b = false) ∧
        (labs ≠ [] → SP d.heap rank D st'.stack + Pot D (rank tp) (deg d.heap tp - tn) ≤
          SP d.heap rank D st.stack + Pot D (rank tp) (deg d.heap tp - (j + 1)) + labs.length * Qp D (rank pT)) := by
  intro labs
  induction labs with
  | nil =>
    intro j st tp tn below _ hst _
    exact ⟨st, false, rfl, by rw [hst]; simp, by simp, fun _ => rfl, fun h => absurd rfl h⟩
  | cons lab labs ih =>
    intro j st tp tn below hlen hst htn
    have hjlt : j < T.links.length := by simp at hlen; omega
    have hlen' : labs.length = T.links.length - (j + 1) := by
      have h0 : labs.length + 1 = T.links.length - j := by simpa using hlen
      omega
    have hc : T.links[j]? = some (T.links[j]) := List.getElem?_eq_getElem hjlt
    generalize hcdef : T.links[j] = c at hc
    have hcmem : c ∈ T.links := by rw [← hcdef]; exact List.getElem_mem hjlt
    have hcr : Reach d.heap d.root c := Reach.step hTr hT hcmem
    obtain ⟨cn, hcn⟩ := wf.closed c hcr
    have hrankc : rank c < rank pT := hr.dec pT T c hTr hT hcmem
    -- potential of the stack after the push
    have h1 : Pot D (rank c) (deg d.heap c - 0) ≤ Qp D (rank pT) := by
      have hdeg : deg d.heap c ≤ D := by simp only [deg, hcn]; exact hr.deg c cn hcr hcn
      exact Nat.le_trans (Pot_le_Qp D (rank c) _ (by omega)) (Qp_mono D hrankc)
    have h2 : Pot D (rank tp) (deg d.heap tp - (j + 1)) ≤ Pot D (rank tp) (deg d.heap tp - tn) :=
      Pot_mono D _ (by omega)
    have hpush : SP d.heap rank D ((c, 0) :: (tp, j + 1) :: below) ≤
        SP d.heap rank D ((tp, tn) :: below) + Qp D (rank pT) := by
      rw [SP_cons, SP_cons, SP_cons]
      simp only at h1 h2 ⊢
      omega
    have hpush2 : SP d.heap rank D ((c, 0) :: (tp, j + 1) :: below) + Pot D (rank tp) (deg d.heap tp - tn) ≤
        SP d.heap rank D ((tp, tn) :: below) + Pot D (rank tp) (deg d.heap tp - (j + 1)) + Qp D (rank pT) := by
      rw [SP_cons, SP_cons, SP_cons]
      simp only at h1 h2 ⊢
      omega
    simp only [dfsInner, hc, hst, getNode_of_some hcn]
    by_cases hseen : st.nodes[searchGE st.nodes cn.id]? = some cn.id
    · rw [if_pos hseen]
      obtain ⟨st', b, hres, hne, hsp, _, _⟩ := ih (j + 1) { st with stack := (c, 0) :: (tp, j + 1) :: below } c 0
        ((tp, j + 1) :: below) hlen' rfl (by omega)
      simp only at hsp
      have : (lab :: labs).length * Qp D (rank pT) = labs.length * Qp D (rank pT) + Qp D (rank pT) := by
        rw [List.length_cons, Nat.succ_mul]
      refine ⟨st', b, hres, hne, by omega, (fun h => by cases h), fun _ => by omega⟩
    · rw [if_neg hseen]
      have hfin : (lab :: labs).length * Qp D (rank pT) = labs.length * Qp D (rank pT) + Qp D (rank pT) := by
        rw [List.length_cons, Nat.succ_mul]
      cases emit with
      | none =>
        exact ⟨_, true, rfl, by simp, (by first | omega | (simp only; omega)), (fun h => by cases h), fun _ => (by first | omega | (simp only; omega))⟩
      | some conv =>
        obtain ⟨r, hrr⟩ := encRecord_ok d wf conv hcr hcn
        simp only [hrr]
        exact ⟨_, true, rfl, by simp, (by first | omega | (simp only; omega)), (fun h => by cases h), fun _ => (by first | omega | (simp only; omega))⟩

theorem SP_tail_lt (h : Heap) (rank : Nat → Nat) (D : Nat) (e : Nat × Nat) (s : List (Nat × Nat)) :
    SP h rank D s + 1 ≤ SP h rank D (e :: s) := by
  rw [SP_cons]; have := Pot_pos D (rank e.1) (deg h e.1 - e.2); omega

/-- the traversal returns whenever the fuel is at least the potential of the stack -/
theorem dfsLoop_total (d : Dawg) (wf : WF d) (rank : Nat → Nat) (D : Nat) (hr : Ranked d rank D)
    (emit : Option (Nat → Nat)) :
    ∀ (n : Nat) (st : DfsSt), (∀ e ∈ st.stack, Reach d.heap d.root e.1) → st.stack ≠ [] →
      SP d.heap rank D st.stack ≤ n → ∃ r, dfsLoop emit d.heap n st = .ok r := by
  intro n
  induction n with
  | zero =>
    intro st _ hne hsp
    have := SP_pos d.heap rank D st.stack hne
    omega
  | succ n ih =>
    intro st hreach hne hsp
    cases hst : st.stack with
    | nil => exact absurd hst hne
    | cons top below0 =>
      obtain ⟨p, nxt⟩ := top
      have hpr : Reach d.heap d.root p := hreach (p, nxt) (by rw [hst]; exact List.mem_cons_self)
      obtain ⟨T, hT⟩ := wf.closed p hpr
      have hlen : (List.drop nxt T.labels).length = T.links.length - nxt := by
        rw [List.length_drop, wf.lens p T hpr hT]
      obtain ⟨st1, b, hin, hne1, hsp1, hnil, hsp2⟩ :=
        dfsInner_total d wf rank D hr emit p T hT hpr _ nxt st p nxt below0 hlen hst (by omega)
      have hreach1 := dfsInner_reach wf emit hpr hT _ nxt st st1 b hreach hin
      simp only [dfsLoop, hst, getNode_of_some hT, hin]
      cases b with
      | true =>
        simp only
        apply ih st1 hreach1 hne1
        have hlabs : List.drop nxt T.labels ≠ [] := fun h => by have := hnil h; cases this
        have h2 := hsp2 hlabs
        have hdeg : deg d.heap p = T.links.length := by simp [deg, hT]
        have hm : 1 ≤ T.links.length - nxt := by
          rw [← hlen]
          exact List.length_pos_iff.2 hlabs
        have hD : T.links.length ≤ D := hr.deg p T hpr hT
        have hstep := Pot_step D (rank p) (T.links.length - (nxt + 1)) (by omega)
        rw [hdeg] at h2
        have e1 : T.links.length - (nxt + 1) + 1 = T.links.length - nxt := by omega
        rw [e1] at hstep
        rw [hlen] at h2
        omega
      | false =>
        simp only
        cases hst1 : st1.stack with
        | nil => exact absurd hst1 hne1
        | cons t1 r1 =>
          cases r1 with
          | nil => exact ⟨_, rfl⟩
          | cons t2 r2 =>
            simp only
            apply ih { st1 with stack := t2 :: r2 }
            · intro e he
              exact hreach1 e (by rw [hst1]; exact List.mem_cons_of_mem _ he)
            · simp
            · have h3 := SP_tail_lt d.heap rank D t1 (t2 :: r2)
              rw [hst1] at hsp1
              have h4 : List.drop nxt T.labels = [] ∨ List.drop nxt T.labels ≠ [] := by
                by_cases h : List.drop nxt T.labels = [] <;> simp [h]
              rcases h4 with h4 | h4
              · rw [h4] at hsp1
                simp only [List.length_nil, Nat.zero_mul, Nat.add_zero] at hsp1
                simp only
                omega
              · have h2 := hsp2 h4
                have hdeg : deg d.heap p = T.links.length := by simp [deg, hT]
                have hm : 1 ≤ T.links.length - nxt := by
                  rw [← hlen]
                  exact List.length_pos_iff.2 h4
                have hD : T.links.length ≤ D := hr.deg p T hpr hT
                have hstep := Pot_step D (rank p) (T.links.length - (nxt + 1)) (by omega)
                rw [hdeg] at h2
                have e1 : T.links.length - (nxt + 1) + 1 = T.links.length - nxt := by omega
                rw [e1] at hstep
                rw [hlen, hst1] at h2
                simp only
                omega

theorem listNodes_total (d : Dawg) (wf : WF d) (rank : Nat → Nat) (D : Nat) (hr : Ranked d rank D) :
    ∃ L, listNodes (Qp D (rank d.root + 1)) d = .ok L := by
  obtain ⟨rn, hrn⟩ := wf.closed d.root Reach.root
  have hsp : SP d.heap rank D [(d.root, 0)] ≤ Qp D (rank d.root + 1) := by
    rw [SP_cons, SP_nil]
    have : deg d.heap d.root ≤ D := by simp only [deg, hrn]; exact hr.deg d.root rn Reach.root hrn
    have := Pot_le_Qp D (rank d.root) (deg d.heap d.root - 0) (by omega)
    simp only at this ⊢
    omega
  obtain ⟨r, hres⟩ := dfsLoop_total d wf rank D hr none (Qp D (rank d.root + 1))
    { nodes := [rn.id], stack := [(d.root, 0)], out := #[] }
    (by intro e he; simp at he; subst he; exact Reach.root) (by simp) hsp
  exact ⟨r.nodes, by simp only [listNodes, getNode_of_some hrn, hres]⟩

theorem gobEncode_total (d : Dawg) (wf : WF d) (rank : Nat → Nat) (D : Nat) (hr : Ranked d rank D) :
    ∃ bs, gobEncode (Qp D (rank d.root + 1)) d = .ok bs := by
  obtain ⟨rn, hrn⟩ := wf.closed d.root Reach.root
  obtain ⟨L, hL⟩ := listNodes_total d wf rank D hr
  obtain ⟨rr, hrr⟩ := encRecord_ok d wf (searchGE L) Reach.root hrn
  have hsp : SP d.heap rank D [(d.root, 0)] ≤ Qp D (rank d.root + 1) := by
    rw [SP_cons, SP_nil]
    have : deg d.heap d.root ≤ D := by simp only [deg, hrn]; exact hr.deg d.root rn Reach.root hrn
    have := Pot_le_Qp D (rank d.root) (deg d.heap d.root - 0) (by omega)
    simp only at this ⊢
    omega
  obtain ⟨r, hres⟩ := dfsLoop_total d wf rank D hr (some (searchGE L)) (Qp D (rank d.root + 1))
    ⟨List.replicate L.length 0, [(d.root, 0)], (encodeUint64 L.length ++ List.flatMap encodeUint64 L ++ rr).toArray⟩
    (by intro e he; simp at he; subst he; exact Reach.root) (by simp) hsp
  exact ⟨r.out.toList, by simp only [gobEncode, hL, getNode_of_some hrn, hrr, hres]⟩

end Dawg
