import Mamba.Lemmas.DistanceSpanTree
/-!
# Spanning half: every simple cycle of the block is an XOR combination of fundamental cycles (it lies in `Q`)
-/
namespace GDist
open GraphSpec Model

variable {a : G}

theorem mem_pathCodes_adj : ∀ (p : List Nat), chainAdj a p → ∀ c, c ∈ pathCodes p →
    ∃ x y, x ∈ p ∧ y ∈ p ∧ a.adj y x = true ∧ c = edgeCode x y
  | [], _, c, h => by simp [pathCodes] at h
  | [_], _, c, h => by simp [pathCodes] at h
  | x :: y :: t, hch, c, h => by
    rw [pathCodes, List.mem_cons] at h
    rcases h with h | h
    · exact ⟨x, y, by simp, by simp, hch.1, h⟩
    · obtain ⟨x', y', hx, hy, hadj, hc⟩ := mem_pathCodes_adj (y :: t) hch.2 c h
      exact ⟨x', y', List.mem_cons_of_mem _ hx, List.mem_cons_of_mem _ hy, hadj, hc⟩

section final
variable {st : PatonSt} {nt : List (Nat × Nat)} (F : PFinal a st nt) (hsym : ∀ u v, a.adj u v = a.adj v u)
  (hirr : ∀ v, a.adj v v = false)
include F hsym hirr

theorem removed_inj : ∀ e ∈ st.removed, ∀ e' ∈ st.removed, edgeCode e.1 e.2 = edgeCode e'.1 e'.2 → e = e' := by
  have hloop : ∀ e ∈ st.removed, e.1 ≠ e.2 := by
    intro e he h0
    obtain ⟨_, _, h3, _, _⟩ := F.pc.rin e he
    rw [h0, hirr] at h3; cases h3
  intro e he e' he' hc
  have hn' := edgeCode_inj (hloop e he) (hloop e' he') hc
  have hnd : (st.removed.map normE).Nodup := by
    rw [List.Nodup, List.pairwise_map]; exact F.pc.rnd
  exact List.inj_on_of_nodup_map hnd he he' hn'

theorem nt_not_tree : ∀ e ∈ nt, ¬ TreeCode a st.T (edgeCode e.1 e.2) := by
  rintro e he ⟨x, hx, ht, hx0, hc⟩
  have := removed_inj F hsym hirr e (F.pi.ntrm e he) _ (F.pi.trm x hx ht hx0) hc
  exact F.pi.ntt e he x hx ht hx0 this

/-- every edge of the graph is a tree edge or one of the non-tree edges -/
theorem edge_class {p q : Nat} (hp : p < a.n) (hq : q < a.n) (hadj : a.adj p q = true) :
    TreeCode a st.T (edgeCode p q) ∨ ∃ e ∈ nt, edgeCode p q = edgeCode e.1 e.2 := by
  have := F.o.exam q hq (F.all q hq) (by rw [F.xe]; simp) p (by rw [hsym]; exact hadj) hp
  unfold edgeRemoved at this
  simp only [Bool.or_eq_true, List.contains_iff_mem] at this
  rcases this with h | h
  · rcases F.pi.rcov _ h with h1 | ⟨x, hx, ht, hx0, hex⟩
    · exact .inr ⟨_, h1, rfl⟩
    · left
      refine ⟨x, hx, ht, hx0, ?_⟩
      have h1 : p = x := congrArg Prod.fst hex
      have h2 : q = par st.T x := congrArg Prod.snd hex
      rw [h1, h2]
  · rcases F.pi.rcov _ h with h1 | ⟨x, hx, ht, hx0, hex⟩
    · exact .inr ⟨_, h1, edgeCode_comm _ _⟩
    · left
      refine ⟨x, hx, ht, hx0, ?_⟩
      have h1 : q = x := congrArg Prod.fst hex
      have h2 : p = par st.T x := congrArg Prod.snd hex
      rw [h1, h2]; exact edgeCode_comm _ _

/-- the non-tree edge of a fundamental cycle is private -/
theorem fund_private {f : List Nat} {e : Nat × Nat} (hfe : (f, e) ∈ st.fund.zip nt) {e' : Nat × Nat}
    (he' : e' ∈ nt) : edgeCode e'.1 e'.2 ∈ f ↔ e' = e := by
  have hR : FundOf a st.T f e := (List.forall₂_iff_zip.1 F.pi.fnt).2 hfe
  have he : e ∈ nt := (List.of_mem_zip hfe).2
  constructor
  · intro hm
    rcases hR.2 _ hm with h | h
    · exact removed_inj F hsym hirr e' (F.pi.ntrm e' he') e (F.pi.ntrm e he) h
    · exact absurd h (nt_not_tree F hsym hirr e' he')
  · rintro rfl; exact hR.1

end final

end GDist
