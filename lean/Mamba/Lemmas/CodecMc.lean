import Mamba.Lemmas.CodecCount
import Mathlib.Data.List.Nodup
/-!
Multicode (C07/C08): the record of a graph (`mcSpec`), `mcEncode` writes exactly the record, `mcDecode` of the record
is the canonical dense value, and `mcDecodeMultiple` splits concatenated records.
-/
namespace Codec
open GraphSpec

def mcRow (g : G) (i : Nat) : List Nat :=
  ((List.range' (i+1) (g.n - (i+1))).filter (fun j => g.adj i j)).map (· + 1) ++ [0]
def mcSpec (g : G) : List Nat := if g.n = 0 then [0] else g.n :: (List.range (g.n - 1)).flatMap (mcRow g)

/-- neighbours `j > i` of `i`, ascending -/
def mcNb (g : G) (i : Nat) : List Nat := (List.range' (i+1) (g.n - (i+1))).filter (fun j => g.adj i j)

/-- the edges of rows `0..k-1` in record order -/
def mcEdges (g : G) (k : Nat) : List (Nat × Nat) := (List.range k).flatMap fun i => (mcNb g i).map fun j => (i, j)

theorem mcRow_eq (g : G) (i : Nat) : mcRow g i = (mcNb g i).map (· + 1) ++ [0] := rfl

theorem mcNb_mem {g : G} {i j : Nat} : j ∈ mcNb g i ↔ i < j ∧ j < g.n ∧ g.adj i j = true := by
  simp only [mcNb, List.mem_filter, List.mem_range'_1]
  constructor
  · rintro ⟨⟨h1, h2⟩, h3⟩; exact ⟨by omega, by omega, h3⟩
  · rintro ⟨h1, h2, h3⟩; exact ⟨⟨by omega, by omega⟩, h3⟩

theorem mcNb_nodup (g : G) (i : Nat) : (mcNb g i).Nodup :=
  List.Nodup.sublist List.filter_sublist (List.nodup_range' ..)

theorem mcEdges_succ (g : G) (k : Nat) : mcEdges g (k + 1) = mcEdges g k ++ (mcNb g k).map fun j => (k, j) := by
  simp [mcEdges, List.range_succ, List.flatMap_append]

theorem mcEdges_mem {g : G} {k : Nat} {p : Nat × Nat} :
    p ∈ mcEdges g k ↔ p.1 < k ∧ p.1 < p.2 ∧ p.2 < g.n ∧ g.adj p.1 p.2 = true := by
  obtain ⟨a, b⟩ := p
  simp only [mcEdges, List.mem_flatMap, List.mem_range, List.mem_map, Prod.mk.injEq, mcNb_mem]
  constructor
  · rintro ⟨i, hi, j, hj, rfl, rfl⟩; exact ⟨hi, hj⟩
  · rintro ⟨h1, h2⟩; exact ⟨a, h1, b, h2, rfl, rfl⟩

theorem mcEdges_nodup (g : G) (k : Nat) : (mcEdges g k).Nodup := by
  induction k with
  | zero => simp [mcEdges]
  | succ k ih =>
    rw [mcEdges_succ, List.nodup_append]
    refine ⟨ih, ?_, ?_⟩
    · exact List.Pairwise.map _ (fun a b h => by simpa using h) (mcNb_nodup g k)
    · intro p hp q hq hpq
      subst hpq
      rw [mcEdges_mem] at hp
      simp only [List.mem_map] at hq
      obtain ⟨j, _, rfl⟩ := hq
      simp at hp

/-- the record order of the edges is a permutation of the `DenseGraph` order -/
theorem mcEdges_perm (g : G) : (mcEdges g (g.n - 1)).Perm g.edges := by
  rw [List.perm_ext_iff_of_nodup (mcEdges_nodup g _) (edges_nodup g)]
  rintro ⟨a, b⟩
  rw [mcEdges_mem, edges_mem]
  simp only
  constructor
  · rintro ⟨_, h2, h3, h4⟩; exact ⟨h2, h3, h4⟩
  · rintro ⟨h2, h3, h4⟩; exact ⟨by omega, h2, h3, h4⟩

theorem mcRows_length (g : G) (k : Nat) :
    ((List.range k).flatMap (mcRow g)).length = k + (mcEdges g k).length := by
  induction k with
  | zero => simp [mcEdges]
  | succ k ih =>
    rw [mcEdges_succ, List.range_succ, List.flatMap_append, List.length_append, ih]
    simp [mcRow_eq]
    omega

theorem mcSpec_length (g : G) (_h : g.WF) (hn : 0 < g.n) : (mcSpec g).length = g.n + g.m := by
  unfold mcSpec
  rw [if_neg (by omega), List.length_cons, mcRows_length, (mcEdges_perm g).length_eq]
  unfold G.m
  omega

theorem mcSpec_bytes (g : G) (hn : g.n ≤ 255) : ∀ c ∈ mcSpec g, c ≤ g.n := by
  intro c hc
  unfold mcSpec at hc
  split at hc
  · simp at hc; omega
  · simp only [List.mem_cons, List.mem_flatMap, List.mem_range, mcRow_eq, List.mem_append, List.mem_map,
      List.not_mem_nil, or_false] at hc
    rcases hc with rfl | ⟨i, _, ⟨j, hj, rfl⟩ | rfl⟩
    · exact Nat.le_refl _
    · rw [mcNb_mem] at hj; omega
    · omega
/-! ### the encoder -/

/-- `foldlM` over an append once the first part is known -/
theorem foldlM_append_ok {α β : Type} (f : β → α → Outcome β) (l l' : List α) (b b' : β)
    (h : l.foldlM f b = .ok b') : (l ++ l').foldlM f b = l'.foldlM f b' := by
  induction l generalizing b with
  | nil => simp only [List.foldlM_nil] at h; cases h; rfl
  | cons x xs ih =>
    simp only [List.cons_append, List.foldlM_cons] at h ⊢
    cases hx : f b x with
    | ok b1 =>
      rw [hx] at h
      simp only [Outcome.bind_ok] at h ⊢
      exact ih _ h
    | panic => rw [hx] at h; simp only [Outcome.bind_panic] at h; cases h
    | outOfFuel => rw [hx] at h; simp only [Outcome.bind_outOfFuel] at h; cases h

theorem flatMap_range_length_mono {α : Type} (f : Nat → List α) {k k' : Nat} (h : k ≤ k') :
    ((List.range k).flatMap f).length ≤ ((List.range k').flatMap f).length := by
  induction h with
  | refl => exact Nat.le_refl _
  | step _ ih => rw [List.range_succ, List.flatMap_append, List.length_append]; omega

/-- the writer state: `pre` written, zeros behind, index at the end of `pre` -/
def WInv (T : Nat) (pre : List Nat) (st : Bytes × Nat) : Prop :=
  st.1.toList = pre ++ List.replicate (T - pre.length) 0 ∧ st.2 = pre.length

theorem winv_set {T : Nat} {pre : List Nat} {st : Bytes × Nat} (x : Nat) (h : WInv T pre st) (hl : pre.length < T) :
    ∃ s, setAt st.1 st.2 x = .ok s ∧ WInv T (pre ++ [x]) (s, st.2 + 1) := by
  obtain ⟨h1, h2⟩ := h
  have hsz : st.1.size = T := by
    rw [← Array.length_toList, h1, List.length_append, List.length_replicate]; omega
  refine ⟨_, setAt_ok (by omega), ?_, ?_⟩
  · obtain ⟨k, hk⟩ : ∃ k, T - pre.length = k + 1 := ⟨T - pre.length - 1, by omega⟩
    have hk' : T - (pre ++ [x]).length = k := by simp; omega
    rw [Array.toList_setIfInBounds, h1, h2, hk, hk', List.replicate_succ]
    simp
  · simp [h2]

theorem mcEnc_inner (g : GI) (i T : Nat) : ∀ (js : List Nat) (pre : List Nat) (st : Bytes × Nat), WInv T pre st →
    (∀ j ∈ js, j + 1 < 256) → pre.length + (js.filter (g.isEdge i)).length ≤ T →
    ∃ st', js.foldlM (mcEncStep g i) st = .ok st' ∧ WInv T (pre ++ (js.filter (g.isEdge i)).map (· + 1)) st' := by
  intro js
  induction js with
  | nil => intro pre st h _ _; exact ⟨st, rfl, by simpa using h⟩
  | cons j js ih =>
    intro pre st h hb hl
    have hj : j + 1 < 256 := hb j (by simp)
    have hb' : ∀ j ∈ js, j + 1 < 256 := fun a ha => hb a (by simp [ha])
    simp only [List.foldlM_cons]
    by_cases he : g.isEdge i j = true
    · rw [List.filter_cons_of_pos he] at hl ⊢
      simp only [List.length_cons] at hl
      obtain ⟨s, hs, hw⟩ := winv_set (j + 1) h (by omega)
      have e : mcEncStep g i st j = .ok (s, st.2 + 1) := by
        unfold mcEncStep
        rw [if_pos he, Nat.mod_eq_of_lt hj, hs]
      rw [e]
      obtain ⟨st', h1, h2⟩ := ih (pre ++ [j + 1]) (s, st.2 + 1) hw hb' (by simp; omega)
      exact ⟨st', h1, by simpa using h2⟩
    · rw [List.filter_cons_of_neg he] at hl ⊢
      have e : mcEncStep g i st j = .ok st := by
        unfold mcEncStep
        rw [if_neg he]
      rw [e]
      exact ih pre st h hb' hl

theorem mcEnc_row (g : GI) (i T : Nat) (pre : List Nat) (st : Bytes × Nat) (h : WInv T pre st) (hn : g.n ≤ 255)
    (hl : pre.length + (mcRow g.toG i).length ≤ T) :
    ∃ st', mcEncRow g st i = .ok st' ∧ WInv T (pre ++ mcRow g.toG i) st' := by
  have hr : mcRow g.toG i = ((List.range' (i+1) (g.n - (i+1))).filter (g.isEdge i)).map (· + 1) ++ [0] := rfl
  rw [hr] at hl ⊢
  simp only [List.length_append, List.length_map, List.length_singleton] at hl
  obtain ⟨st1, h1, w1⟩ := mcEnc_inner g i T (List.range' (i+1) (g.n - (i+1))) pre st h
    (by intro j hj; rw [List.mem_range'_1] at hj; omega) (by omega)
  obtain ⟨s, hs, hw⟩ := winv_set 0 w1 (by simp; omega)
  refine ⟨(s, st1.2 + 1), ?_, by simpa using hw⟩
  unfold mcEncRow
  rw [h1]
  simp only []
  rw [hs]

theorem mcEnc_rows (g : GI) (T : Nat) (hn : g.n ≤ 255)
    (hT : 1 + ((List.range (g.n - 1)).flatMap (mcRow g.toG)).length ≤ T) (st : Bytes × Nat) (h : WInv T [g.n] st) :
    ∀ k, k ≤ g.n - 1 → ∃ st', (List.range k).foldlM (mcEncRow g) st = .ok st' ∧
      WInv T (g.n :: (List.range k).flatMap (mcRow g.toG)) st' := by
  intro k
  induction k with
  | zero => intro _; exact ⟨st, rfl, by simpa using h⟩
  | succ k ih =>
    intro hk
    obtain ⟨st1, h1, w1⟩ := ih (by omega)
    have := flatMap_range_length_mono (mcRow g.toG) hk
    rw [List.range_succ, List.flatMap_append, List.length_append] at this
    simp only [List.flatMap_cons, List.flatMap_nil, List.append_nil] at this
    obtain ⟨st2, h2, w2⟩ := mcEnc_row g k T _ st1 w1 hn (by simp only [List.length_cons]; omega)
    refine ⟨st2, ?_, ?_⟩
    · rw [List.range_succ, foldlM_append_ok _ _ _ _ _ h1]
      simp only [List.foldlM_cons, List.foldlM_nil]
      rw [h2]; rfl
    · simpa [List.range_succ, List.flatMap_append] using w2

/-- the encoder writes exactly the record; in particular it never indexes out of range when M() is right -/
theorem mcEncode_eq (g : GI) (hs : g.Sound) (hn : g.n ≤ 255) : ∃ a, mcEncode g = .ok a ∧ a.toList = mcSpec g.toG := by
  unfold mcEncode
  rw [if_neg (by omega)]
  by_cases h0 : g.n = 0
  · rw [if_pos h0]
    refine ⟨_, rfl, ?_⟩
    have : g.toG.n = 0 := h0
    simp [mcSpec, this]
  · rw [if_neg h0]
    have hlen := mcSpec_length g.toG hs.wf (by show 0 < g.n; omega)
    have hsp : mcSpec g.toG = g.n :: (List.range (g.n - 1)).flatMap (mcRow g.toG) := by
      unfold mcSpec; rw [if_neg (show ¬ g.toG.n = 0 from h0)]; rfl
    rw [hsp, List.length_cons, ← hs.m_eq] at hlen
    have hgn : g.toG.n = g.n := rfl
    rw [hgn] at hlen
    have w0 : WInv (g.m + g.n) [] (Array.replicate (g.m + g.n) 0, 0) := by
      refine ⟨by simp, rfl⟩
    obtain ⟨s0, hs0, w1⟩ := winv_set (g.n % 256) w0 (by simp; omega)
    simp only [] at hs0
    rw [hs0]
    rw [Nat.mod_eq_of_lt (by omega)] at w1
    simp only []
    obtain ⟨st, h1, w2⟩ := mcEnc_rows g (g.m + g.n) hn (by omega) (s0, 1) (by simpa using w1) (g.n - 1) (Nat.le_refl _)
    rw [h1]
    refine ⟨st.1, rfl, ?_⟩
    rw [hsp, w2.1]
    have : g.m + g.n - (g.n :: (List.range (g.n - 1)).flatMap (mcRow g.toG)).length = 0 := by
      rw [List.length_cons]; omega
    rw [this]; simp

/-! ### the decoder -/

theorem tri_idx_inj {i j i' j' : Nat} (h : i < j) (h' : i' < j') (e : tri j + i = tri j' + i') : i = i' ∧ j = j' := by
  rcases Nat.lt_trichotomy j j' with hj | hj | hj
  · have := tri_mono (show j + 1 ≤ j' from hj); rw [tri_succ] at this; omega
  · subst hj; omega
  · have := tri_mono (show j' + 1 ≤ j from hj); rw [tri_succ] at this; omega

theorem tri_idx_surj (n k : Nat) (hk : k < tri n) : ∃ i j, i < j ∧ j < n ∧ k = tri j + i := by
  induction n with
  | zero => simp [tri] at hk
  | succ n ih =>
    rw [tri_succ] at hk
    rcases Nat.lt_or_ge k (tri n) with h | h
    · obtain ⟨i, j, h1, h2, h3⟩ := ih h
      exact ⟨i, j, h1, by omega, h3⟩
    · exact ⟨k - tri n, n, by omega, by omega, by omega⟩

theorem mc_incr_of_getElem? {a : Array Nat} {i x : Nat} (h : a[i]? = some x) :
    incr a i = .ok (a.setIfInBounds i (x + 1)) := by
  unfold incr; rw [h]

/-- decoder loop invariant: the edges `es` have been processed, row `cur` is the current one -/
structure DInv (n : Nat) (es : List (Nat × Nat)) (cur : Nat) (st : McSt) : Prop where
  cur_eq : st.cur = cur
  m_eq : st.m = es.length
  esz : st.edges.size = tri n
  dsz : st.deg.size = n
  edge : ∀ i j, i < j → j < n → st.edges[tri j + i]? = some (if (i, j) ∈ es then 1 else 0)
  deg : ∀ v, v < n → st.deg[v]? = some (es.countP fun p => p.1 == v || p.2 == v)

theorem mcDec_edge {n cur : Nat} {es : List (Nat × Nat)} {st : McSt} (h : DInv n es cur st) (j : Nat)
    (hcj : cur < j) (hj : j < n) (hn : n ≤ 255) :
    ∃ st', mcDecStep st (j + 1) = .ok st' ∧ DInv n (es ++ [(cur, j)]) cur st' := by
  have b1 : bsub (j + 1) 1 = j := by rw [bsub_of_le (by omega) (by omega)]; omega
  have b2 : bsub (j + 1) 2 = j - 1 := by rw [bsub_of_le (by omega) (by omega)]; omega
  have ht : j * (j - 1) / 2 = tri j := rfl
  have hidx := tri_idx_lt hcj hj
  have hd1 := h.deg j hj
  have hd2 : (st.deg.setIfInBounds j ((es.countP fun p => p.1 == j || p.2 == j) + 1))[cur]? =
      some (es.countP fun p => p.1 == cur || p.2 == cur) := by
    rw [Array.getElem?_setIfInBounds, if_neg (by omega)]
    exact h.deg cur (by omega)
  refine ⟨{ edges := st.edges.setIfInBounds (tri j + cur) 1,
             deg := (st.deg.setIfInBounds j ((es.countP fun p => p.1 == j || p.2 == j) + 1)).setIfInBounds cur
                      ((es.countP fun p => p.1 == cur || p.2 == cur) + 1),
             m := st.m + 1, cur := cur }, ?_, ?_⟩
  · unfold mcDecStep
    rw [if_neg (by omega), b1, b2, ht, h.cur_eq, setAt_ok (by rw [h.esz]; exact hidx)]
    simp only []
    rw [mc_incr_of_getElem? hd1]
    simp only []
    rw [mc_incr_of_getElem? hd2]
  · constructor
    · rfl
    · simp [h.m_eq]
    · simp [h.esz]
    · simp [h.dsz]
    · intro i' j' hij' hj'
      simp only []
      rw [Array.getElem?_setIfInBounds]
      by_cases e : tri j + cur = tri j' + i'
      · obtain ⟨rfl, rfl⟩ := tri_idx_inj hcj hij' e
        rw [if_pos rfl, if_pos (by rw [h.esz]; exact hidx)]
        simp
      · rw [if_neg e, h.edge i' j' hij' hj']
        have : ¬ (i' = cur ∧ j' = j) := by rintro ⟨rfl, rfl⟩; exact e rfl
        simp [this]
    · intro v hv
      simp only []
      rw [List.countP_append, Array.getElem?_setIfInBounds, Array.getElem?_setIfInBounds]
      simp only [Array.size_setIfInBounds, h.dsz]
      by_cases e1 : cur = v
      · subst e1
        simp [show cur < n by omega]
      · by_cases e2 : j = v
        · subst e2
          simp [e1, hj]
        · rw [if_neg e1, if_neg e2, h.deg v hv]
          simp [e1, e2]

theorem mcDec_zero {n cur : Nat} {es : List (Nat × Nat)} {st : McSt} (h : DInv n es cur st) :
    ∃ st', mcDecStep st 0 = .ok st' ∧ DInv n es (cur + 1) st' := by
  refine ⟨{ st with cur := st.cur + 1 }, by unfold mcDecStep; rw [if_pos rfl], ?_⟩
  exact ⟨by simp [h.cur_eq], h.m_eq, h.esz, h.dsz, h.edge, h.deg⟩

theorem mcDec_nbs {n cur : Nat} (hn : n ≤ 255) : ∀ (js : List Nat) (es : List (Nat × Nat)) (st : McSt),
    DInv n es cur st → (∀ j ∈ js, cur < j ∧ j < n) →
    ∃ st', (js.map (· + 1)).foldlM mcDecStep st = .ok st' ∧ DInv n (es ++ js.map fun j => (cur, j)) cur st' := by
  intro js
  induction js with
  | nil => intro es st h _; exact ⟨st, rfl, by simpa using h⟩
  | cons j js ih =>
    intro es st h hb
    obtain ⟨h1, h2⟩ := hb j (by simp)
    obtain ⟨st1, e1, w1⟩ := mcDec_edge h j h1 h2 hn
    obtain ⟨st2, e2, w2⟩ := ih _ st1 w1 (fun a ha => hb a (by simp [ha]))
    refine ⟨st2, ?_, by simpa using w2⟩
    simp only [List.map_cons, List.foldlM_cons]
    rw [e1]; exact e2

theorem mcDec_row (g : G) (hn : g.n ≤ 255) (i : Nat) (st : McSt) (h : DInv g.n (mcEdges g i) i st) :
    ∃ st', (mcRow g i).foldlM mcDecStep st = .ok st' ∧ DInv g.n (mcEdges g (i + 1)) (i + 1) st' := by
  obtain ⟨st1, e1, w1⟩ := mcDec_nbs hn (mcNb g i) _ st h (by
    intro j hj; rw [mcNb_mem] at hj; exact ⟨hj.1, hj.2.1⟩)
  obtain ⟨st2, e2, w2⟩ := mcDec_zero w1
  refine ⟨st2, ?_, by rw [mcEdges_succ]; exact w2⟩
  rw [mcRow_eq, foldlM_append_ok _ _ _ _ _ e1]
  simp only [List.foldlM_cons, List.foldlM_nil]
  rw [e2]; rfl

theorem mcDec_rows (g : G) (hn : g.n ≤ 255) (st : McSt) (h : DInv g.n [] 0 st) : ∀ k,
    ∃ st', ((List.range k).flatMap (mcRow g)).foldlM mcDecStep st = .ok st' ∧ DInv g.n (mcEdges g k) k st' := by
  intro k
  induction k with
  | zero => exact ⟨st, rfl, by simpa [mcEdges] using h⟩
  | succ k ih =>
    obtain ⟨st1, e1, w1⟩ := ih
    obtain ⟨st2, e2, w2⟩ := mcDec_row g hn k st1 w1
    refine ⟨st2, ?_, w2⟩
    rw [List.range_succ, List.flatMap_append, foldlM_append_ok _ _ _ _ _ e1]
    simpa using e2

theorem mcDec_init (n : Nat) :
    DInv n [] 0 { edges := Array.replicate (n * (n - 1) / 2) 0, deg := Array.replicate n 0, m := 0, cur := 0 } := by
  constructor
  · rfl
  · rfl
  · simp [tri]
  · simp
  · intro i j hij hj
    have := tri_idx_lt hij hj
    simp only [Array.getElem?_replicate]
    rw [if_pos (by unfold tri at this; exact this)]
    simp
  · intro v hv
    simp [hv]

/-- the final state denotes the canonical dense value -/
theorem mcDec_final (g : G) (h : g.WF) (st : McSt) (w : DInv g.n (mcEdges g (g.n - 1)) (g.n - 1) st) :
    ({ n := g.n, m := st.m, deg := st.deg, edges := st.edges } : Dense) = denseOf g := by
  have hp := mcEdges_perm g
  unfold denseOf
  congr 1
  · rw [w.m_eq, hp.length_eq]; rfl
  · apply Array.ext_getElem?
    intro v
    rcases Nat.lt_or_ge v g.n with hv | hv
    · rw [w.deg v hv, hp.countP_eq, List.countP_eq_length_filter, edges_count_deg g h v hv]
      simp [hv]
    · rw [Array.getElem?_eq_none (by rw [w.dsz]; exact hv), Array.getElem?_eq_none (by simpa using hv)]
  · apply Array.ext_getElem?
    intro k
    rcases Nat.lt_or_ge k (tri g.n) with hk | hk
    · obtain ⟨i, j, hij, hj, rfl⟩ := tri_idx_surj _ _ hk
      rw [w.edge i j hij hj, List.getElem?_toArray, upperBits_getElem? g hij hj]
      congr 1
      have : (i, j) ∈ mcEdges g (g.n - 1) ↔ g.adj i j = true := by
        rw [hp.mem_iff, edges_mem]
        exact ⟨fun h => h.2.2, fun h => ⟨hij, hj, h⟩⟩
      by_cases ha : g.adj i j = true
      · rw [if_pos (this.2 ha), if_pos ha]
      · rw [if_neg (fun h => ha (this.1 h)), if_neg ha]
    · rw [Array.getElem?_eq_none (by rw [w.esz]; exact hk),
        Array.getElem?_eq_none (by simpa [upperBits_length] using hk)]

/-- decoding the record gives the canonical dense value of the graph -/
theorem mcDecode_spec (g : G) (h : g.WF) (hn : g.n ≤ 255) : mcDecode (mcSpec g).toArray = .ok (denseOf g) := by
  unfold mcDecode
  by_cases h0 : g.n = 0
  · have hs : mcSpec g = [0] := by unfold mcSpec; rw [if_pos h0]
    rw [hs]
    simp only [List.getElem?_toArray, List.getElem?_cons_zero, List.drop_one, List.tail_cons, List.foldlM_nil]
    have w := mcDec_final g h _ (by rw [h0]; exact mcDec_init 0)
    rw [← w, h0]
    rfl
  · have hs : mcSpec g = g.n :: (List.range (g.n - 1)).flatMap (mcRow g) := by unfold mcSpec; rw [if_neg h0]
    rw [hs]
    simp only [List.getElem?_toArray, List.getElem?_cons_zero, List.drop_one, List.tail_cons]
    obtain ⟨st, e, w⟩ := mcDec_rows g hn _ (mcDec_init g.n) (g.n - 1)
    rw [e]
    simp only []
    rw [if_neg (by simp [w.cur_eq])]
    rw [mcDec_final g h st w]

theorem mc_roundtrip_single (g : GI) (hs : g.Sound) (hn : g.n ≤ 255) :
    ∃ a, mcEncode g = .ok a ∧ mcDecode a = .ok (denseOf g.toG) := by
  obtain ⟨a, h1, h2⟩ := mcEncode_eq g hs hn
  refine ⟨a, h1, ?_⟩
  have : a = (mcSpec g.toG).toArray := by rw [← h2]
  rw [this]
  exact mcDecode_spec g.toG hs.wf hn

/-! ### several records -/

/-- a list with its positions, starting at `off` -/
def idxZip (off : Nat) (l : List Nat) : List (Nat × Nat) := (List.range' off l.length).zip l

theorem idxZip_nil (off : Nat) : idxZip off [] = [] := rfl

theorem idxZip_cons (off x : Nat) (l : List Nat) : idxZip off (x :: l) = (off, x) :: idxZip (off + 1) l := by
  simp [idxZip, List.range'_succ]

theorem idxZip_append (off : Nat) (a b : List Nat) :
    idxZip off (a ++ b) = idxZip off a ++ idxZip (off + a.length) b := by
  induction a generalizing off with
  | nil => simp [idxZip_nil]
  | cons x xs ih =>
    rw [List.cons_append, idxZip_cons, idxZip_cons, ih, List.cons_append, List.length_cons]
    congr 3; omega

theorem slice_mid (p r q : List Nat) :
    sliceBytes (p ++ r ++ q).toArray p.length (p.length + r.length) = r.toArray := by
  unfold sliceBytes; simp

/-- bytes inside a record: nothing happens except counting down the zeros -/
theorem mcm_mid (s : Bytes) : ∀ (l : List Nat) (off : Nat) (st : McmSt), l.count 0 < st.left → st.left < 256 →
    (idxZip off l).foldlM (mcmStep s) st = .ok { st with left := st.left - l.count 0 } := by
  intro l
  induction l with
  | nil => intro off st _ _; rfl
  | cons x l ih =>
    intro off st h1 h2
    rw [idxZip_cons, List.foldlM_cons]
    by_cases hx : x = 0
    · subst hx
      rw [List.count_cons_self] at h1 ⊢
      have hb : bsub st.left 1 = st.left - 1 := bsub_of_le (by omega) h2
      have e : mcmStep s st (off, 0) = .ok { st with left := st.left - 1 } := by
        unfold mcmStep
        simp only []
        rw [if_neg (by omega), if_pos trivial, hb, if_neg (by omega)]
      rw [e]
      simp only [Outcome.bind_ok]
      rw [ih (off + 1) _ (by simp only []; omega) (by simp only []; omega)]
      simp only [Nat.sub_sub, Nat.add_comm]
    · rw [List.count_cons_of_ne hx] at h1 ⊢
      have e : mcmStep s st (off, x) = .ok st := by
        unfold mcmStep
        simp only []
        rw [if_neg (by omega), if_neg hx]
      rw [e]
      simp only [Outcome.bind_ok]
      exact ih (off + 1) st h1 h2

/-- a record with at least two vertices -/
theorem mcm_record_big (p q mid : List Nat) (c : Nat) (d : Dense) (hc : 2 ≤ c) (hc' : c ≤ 255)
    (hz : mid.count 0 = c - 2) (hd : mcDecode (c :: (mid ++ [0])).toArray = .ok d) (st : McmSt) (hl : st.left = 0) :
    (idxZip p.length (c :: (mid ++ [0]))).foldlM (mcmStep (p ++ c :: (mid ++ [0]) ++ q).toArray) st
      = .ok { graphs := st.graphs.push d, start := p.length, left := 0 } := by
  rw [idxZip_cons, idxZip_append, idxZip_cons, idxZip_nil, List.foldlM_cons]
  have hb : bsub c 1 = c - 1 := bsub_of_le (by omega) (by omega)
  have e1 : mcmStep (p ++ c :: (mid ++ [0]) ++ q).toArray st (p.length, c)
      = .ok { graphs := st.graphs, start := p.length, left := c - 1 } := by
    unfold mcmStep
    simp only []
    rw [if_pos hl, if_neg (by omega), if_neg (by omega), hb]
  rw [e1]
  simp only [Outcome.bind_ok]
  rw [foldlM_append_ok _ _ _ _ _ (mcm_mid _ mid (p.length + 1) _ (by simp only []; omega) (by simp only []; omega))]
  simp only [List.foldlM_cons, List.foldlM_nil, hz]
  have e2 : mcmStep (p ++ c :: (mid ++ [0]) ++ q).toArray
      { graphs := st.graphs, start := p.length, left := c - 1 - (c - 2) } (p.length + 1 + mid.length, 0)
      = .ok { graphs := st.graphs.push d, start := p.length, left := 0 } := by
    have hs := slice_mid p (c :: (mid ++ [0])) q
    have hlen : p.length + (c :: (mid ++ [0])).length = p.length + 1 + mid.length + 1 := by simp; omega
    rw [hlen] at hs
    have h1 : c - 1 - (c - 2) = 1 := by omega
    unfold mcmStep
    simp only []
    rw [h1, if_neg (by omega), if_pos trivial, show bsub 1 1 = 0 from rfl, if_pos rfl, hs, hd]
  rw [e2]
  rfl

/-- a record with at most one vertex is a single byte -/
theorem mcm_record_small (p q : List Nat) (c : Nat) (d : Dense) (hc : c ≤ 1)
    (hd : mcDecode [c].toArray = .ok d) (st : McmSt) (hl : st.left = 0) :
    (idxZip p.length [c]).foldlM (mcmStep (p ++ [c] ++ q).toArray) st
      = .ok { graphs := st.graphs.push d, start := st.start, left := 0 } := by
  rw [idxZip_cons, idxZip_nil]
  simp only [List.foldlM_cons, List.foldlM_nil]
  have hs := slice_mid p [c] q
  simp only [List.length_singleton] at hs
  have e : mcmStep (p ++ [c] ++ q).toArray st (p.length, c)
      = .ok { graphs := st.graphs.push d, start := st.start, left := 0 } := by
    unfold mcmStep
    simp only []
    rw [if_pos hl, if_pos hc, hs, hd, ← hl]
  rw [e]
  rfl

theorem mcRows_count0 (g : G) (k : Nat) : ((List.range k).flatMap (mcRow g)).count 0 = k := by
  induction k with
  | zero => rfl
  | succ k ih =>
    rw [List.range_succ, List.flatMap_append, List.count_append, ih]
    simp [mcRow_eq, List.count_eq_zero]

theorem mcSpec_big (g : G) (hn : 2 ≤ g.n) :
    ∃ mid, mcSpec g = g.n :: (mid ++ [0]) ∧ mid.count 0 = g.n - 2 := by
  refine ⟨(List.range (g.n - 2)).flatMap (mcRow g) ++ (mcNb g (g.n - 2)).map (· + 1), ?_, ?_⟩
  · unfold mcSpec
    rw [if_neg (by omega), show g.n - 1 = g.n - 2 + 1 by omega, List.range_succ, List.flatMap_append]
    simp [mcRow_eq]
  · rw [List.count_append, mcRows_count0]
    simp [List.count_eq_zero]

/-- the loop run over one record, appended to anything decoded so far -/
theorem mcm_record (g : G) (h : g.WF) (hn : g.n ≤ 255) (p q : List Nat) (st : McmSt) (hl : st.left = 0) :
    ∃ st', (idxZip p.length (mcSpec g)).foldlM (mcmStep (p ++ mcSpec g ++ q).toArray) st = .ok st' ∧
      st'.left = 0 ∧ st'.graphs = st.graphs.push (denseOf g) := by
  have hd := mcDecode_spec g h hn
  rcases Nat.lt_or_ge g.n 2 with h2 | h2
  · have hs : mcSpec g = [g.n] := by
      unfold mcSpec
      by_cases h0 : g.n = 0
      · rw [if_pos h0, h0]
      · have : g.n = 1 := by omega
        rw [if_neg h0, this]; rfl
    rw [hs] at hd ⊢
    exact ⟨_, mcm_record_small p q g.n _ (by omega) hd st hl, rfl, rfl⟩
  · obtain ⟨mid, hs, hz⟩ := mcSpec_big g h2
    rw [hs] at hd ⊢
    exact ⟨_, mcm_record_big p q mid g.n _ h2 hn hz hd st hl, rfl, rfl⟩

theorem mcm_records : ∀ (gs : List G), (∀ g ∈ gs, g.WF ∧ g.n ≤ 255) → ∀ (p q : List Nat) (st : McmSt), st.left = 0 →
    ∃ st', (idxZip p.length (gs.flatMap mcSpec)).foldlM (mcmStep (p ++ gs.flatMap mcSpec ++ q).toArray) st = .ok st' ∧
      st'.left = 0 ∧ st'.graphs = st.graphs ++ (gs.map denseOf).toArray := by
  intro gs
  induction gs with
  | nil => intro _ p q st hl; exact ⟨st, rfl, hl, by simp⟩
  | cons g gs ih =>
    intro hg p q st hl
    obtain ⟨hwf, hn⟩ := hg g (by simp)
    rw [List.flatMap_cons, idxZip_append]
    obtain ⟨st1, e1, l1, g1⟩ := mcm_record g hwf hn p (gs.flatMap mcSpec ++ q) st hl
    obtain ⟨st2, e2, l2, g2⟩ := ih (fun a ha => hg a (by simp [ha])) (p ++ mcSpec g) q st1 l1
    have a1 : p ++ (mcSpec g ++ gs.flatMap mcSpec) ++ q = p ++ mcSpec g ++ (gs.flatMap mcSpec ++ q) := by
      simp only [List.append_assoc]
    have a2 : p ++ mcSpec g ++ gs.flatMap mcSpec ++ q = p ++ mcSpec g ++ (gs.flatMap mcSpec ++ q) := by
      simp only [List.append_assoc]
    rw [a1]
    rw [a2, List.length_append] at e2
    refine ⟨st2, ?_, l2, ?_⟩
    · rw [foldlM_append_ok _ _ _ _ _ e1]; exact e2
    · rw [g2, g1]; simp

/-- concatenated records are split and decoded one by one -/
theorem mcDecodeMultiple_spec (gs : List G) (h : ∀ g ∈ gs, g.WF ∧ g.n ≤ 255) :
    mcDecodeMultiple (gs.flatMap mcSpec).toArray = .ok (gs.map denseOf).toArray := by
  obtain ⟨st, e, _, hg⟩ := mcm_records gs h [] [] { graphs := #[], start := 0, left := 0 } rfl
  unfold mcDecodeMultiple
  have : (List.range (gs.flatMap mcSpec).toArray.size).zip (gs.flatMap mcSpec).toArray.toList
      = idxZip 0 (gs.flatMap mcSpec) := by
    simp [idxZip, List.range_eq_range']
  rw [this]
  simp only [List.nil_append, List.append_nil, List.length_nil] at e
  rw [e]
  simp only []
  rw [hg]; simp

theorem mc_roundtrip_multiple (gs : List GI) (h : ∀ g ∈ gs, g.Sound ∧ g.n ≤ 255) :
    ∃ as : List Bytes, as.length = gs.length ∧ (∀ i (hi : i < gs.length), ∃ a, as[i]? = some a ∧ mcEncode gs[i] = .ok a) ∧
      mcDecodeMultiple (as.flatMap Array.toList).toArray = .ok (gs.map fun g => denseOf g.toG).toArray := by
  refine ⟨gs.map fun g => (mcSpec g.toG).toArray, by simp, ?_, ?_⟩
  · intro i hi
    obtain ⟨hs, hn⟩ := h gs[i] (List.getElem_mem hi)
    obtain ⟨a, h1, h2⟩ := mcEncode_eq gs[i] hs hn
    refine ⟨a, ?_, h1⟩
    have : a = (mcSpec gs[i].toG).toArray := by rw [← h2]
    rw [this]
    simp [hi]
  · have e1 : (gs.map fun g => (mcSpec g.toG).toArray).flatMap Array.toList = (gs.map GI.toG).flatMap mcSpec := by
      simp [List.flatMap_map]
    have e2 : (gs.map fun g => denseOf g.toG) = (gs.map GI.toG).map denseOf := by simp
    rw [e1, e2]
    apply mcDecodeMultiple_spec
    intro g hg
    rw [List.mem_map] at hg
    obtain ⟨g', hg', rfl⟩ := hg
    exact ⟨(h g' hg').1.wf, (h g' hg').2⟩

end Codec
