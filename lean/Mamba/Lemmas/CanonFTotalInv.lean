import Mamba.Lemmas.CanonFTotalDef
import Mamba.Lemmas.CanonFDfsMain
/-!
# Totality: the capacity invariant and the concrete invariant used for the progress lemmas

`CapInv`: the capacities that the Go code relies on (`NewStorage(n, m)` / `NewOrderedPartition(n, m, …)`), and the bound
`ngens + #classes(firstLeafOrbits) ≤ n` that keeps `generators = generators[:len+1]` within its capacity `n - 1` (a
generator is recorded only when it merges two classes). `TA/TN/TS/TM`: certificate invariants ⊕ DFS invariant ⊕ `CapInv`.
-/
namespace CanonF

/-- number of classes of a union–find (entries `< 0` are roots) -/
def numRoots (ds : Disjoint.DS) : Nat := (ds.toList.filter (fun x => decide (x < 0))).length

structure CapInv (n m : Nat) (s : LS) : Prop where
  bd : n ≤ s.op.binDividers.data.size
  ages : n ≤ s.op.binAges.data.size
  btc : n ≤ s.op.binsToCheck.data.size
  dws : n ≤ s.sc.dws.data.size
  nbs : n ≤ s.sc.nbs.data.size
  space : n ≤ s.sc.space.data.size
  cb : m ≤ s.currentBest.data.size
  gens : n ≤ s.gens.size + 1
  genCnt : 0 < s.count → s.ngens + numRoots s.flOrbits ≤ n

section
variable (n m : Nat) (nb : Nbrs) (rf : Nat) (r : IR.St)

def TA (lv : List (Nat × Nat)) (s : LS) : Prop := (CertA n m nb lv s ∧ DA n nb rf r lv s) ∧ CapInv n m s
def TN (lv : List (Nat × Nat)) (s : LS) : Prop := (CertN n m nb lv s ∧ DN n nb rf r lv s) ∧ CapInv n m s
def TS (lv : List (Nat × Nat)) (s : LS) : Prop := (CertN n m nb lv s ∧ DS n nb rf r lv s) ∧ CapInv n m s
def TM (lv : List (Nat × Nat)) (worse : Bool) (s : LS) : Prop :=
  (CertM n m nb lv worse s ∧ DM n nb rf r lv worse s) ∧ CapInv n m s

end
end CanonF
