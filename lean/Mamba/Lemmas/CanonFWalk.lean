import Mamba.Lemmas.CanonFMainJ
import Mamba.Lemmas.CanonFSorted
import Mamba.Lemmas.CanonFTreeFinal
import Mamba.Lemmas.CanonFFrame
/-!
# The walk of the search through the unpruned tree, with explicit stack frames (state-level invariant)

`vs` = the vertices individualised along the current path, `nodeL vs L` = the tree node of level `L`. `FramesOK`: the
stack frame of level `L` is the target cell of `nodeL vs L`, and the child being explored is the `path[L]`-th member of
that cell (`IR.cellMembers`, ascending). `WalkA/N/S/M` are the four shapes of the invariant (`MainJ`).
-/
namespace CanonF

section
variable (n : Nat) (nb : Nbrs) (rf : Nat) (r : IR.St)

/-- the tree node of level `L` on the path `vs` -/
def nodeL (vs : List Nat) (L : Nat) : IR.St := IR.nodeAt (irG n nb) rf r (vs.take L)

/-- the members of the target cell `st` of level `L` -/
def cellL (vs : List Nat) (L st : Nat) : List Nat := IR.cellMembers (irG n nb) (nodeL n nb rf r vs L).c st

def FramesOK (vs : List Nat) : List Nat → List Nat → List (Nat × Nat) → Prop
  | [], [], [] => True
  | p :: ps, _ :: cs, (st, sz) :: ls =>
      IR.target (irG n nb) (nodeL n nb rf r vs ps.length) = some st ∧
      (cellL n nb rf r vs ps.length st).length = sz ∧
      (ps.length < vs.length → vs[ps.length]? = (cellL n nb rf r vs ps.length st)[p]? ∧ p < sz) ∧
      FramesOK vs ps cs ls
  | _, _, _ => False

/-- levels `0..k` of the partition are the nodes of the path `vs` -/
def LevelsTree (vs : List Nat) (op : OP) (k : Nat) : Prop :=
  ∀ L, L ≤ k → LvOK n op (L : Int) (nodeL n nb rf r vs L)

end

theorem nodeL_congr {n : Nat} {nb : Nbrs} {rf : Nat} {r : IR.St} {vs vs' : List Nat} {L : Nat}
    (h : vs'.take L = vs.take L) : nodeL n nb rf r vs' L = nodeL n nb rf r vs L := by
  unfold nodeL; rw [h]

theorem take_dropLast {α : Type} (l : List α) {L : Nat} (h : L ≤ l.length - 1) : l.dropLast.take L = l.take L := by
  rw [List.dropLast_eq_take, List.take_take, Nat.min_eq_left h]

theorem take_take_le {α : Type} (l : List α) {L k : Nat} (h : L ≤ k) : (l.take k).take L = l.take L := by
  rw [List.take_take, Nat.min_eq_left h]

theorem take_append_le {α : Type} (l : List α) (x : α) {L : Nat} (h : L ≤ l.length) : (l ++ [x]).take L = l.take L :=
  List.take_append_of_le_length h

/-- `FramesOK` only looks at the first `path.length` entries of `vs` (nodes) and, for the links, at the entries that
exist -/
theorem FramesOK.congr {n : Nat} {nb : Nbrs} {rf : Nat} {r : IR.St} {vs vs' : List Nat} :
    ∀ (path choices : List Nat) (lv : List (Nat × Nat)),
      (∀ L, L < path.length → vs'.take L = vs.take L) →
      (∀ L, L < path.length → L < vs'.length → L < vs.length ∧ vs'[L]? = vs[L]?) →
      FramesOK n nb rf r vs path choices lv → FramesOK n nb rf r vs' path choices lv := by
  intro path
  induction path with
  | nil => intro choices lv _ _ h; cases choices <;> cases lv <;> simp_all [FramesOK]
  | cons p ps ih =>
    intro choices lv h1 h2 h
    cases choices with
    | nil => simp [FramesOK] at h
    | cons c cs =>
      cases lv with
      | nil => simp [FramesOK] at h
      | cons x ls =>
        obtain ⟨st, sz⟩ := x
        simp only [FramesOK] at h ⊢
        obtain ⟨a1, a2, a3, a4⟩ := h
        have e : nodeL n nb rf r vs' ps.length = nodeL n nb rf r vs ps.length :=
          nodeL_congr (h1 ps.length (by simp))
        have ec : cellL n nb rf r vs' ps.length st = cellL n nb rf r vs ps.length st := by unfold cellL; rw [e]
        refine ⟨by rw [e]; exact a1, by rw [ec]; exact a2, ?_, ?_⟩
        · intro hl
          obtain ⟨b1, b2⟩ := h2 ps.length (by simp) hl
          rw [ec, b2]
          exact a3 b1
        · exact ih cs ls (fun L hL => h1 L (by simp only [List.length_cons]; omega))
            (fun L hL => h2 L (by simp only [List.length_cons]; omega)) a4

theorem FramesOK.length {n : Nat} {nb : Nbrs} {rf : Nat} {r : IR.St} {vs : List Nat} :
    ∀ (path choices : List Nat) (lv : List (Nat × Nat)), FramesOK n nb rf r vs path choices lv →
      choices.length = path.length ∧ lv.length = path.length := by
  intro path
  induction path with
  | nil => intro choices lv h; cases choices <;> cases lv <;> simp_all [FramesOK]
  | cons p ps ih =>
    intro choices lv h
    cases choices with
    | nil => simp [FramesOK] at h
    | cons c cs =>
      cases lv with
      | nil => simp [FramesOK] at h
      | cons x ls =>
        obtain ⟨st, sz⟩ := x
        simp only [FramesOK] at h
        have := ih cs ls h.2.2.2
        simp; omega

/-! ## the four shapes of the walk invariant -/

section
variable (n : Nat) (nb : Nbrs) (rf : Nat) (r : IR.St)

/-- after a `deage` / at a fresh frame: the partition is the node of the top frame, `vs` has one entry per frame below -/
def WalkNv (vs : List Nat) (lv : List (Nat × Nat)) (s : LS) : Prop :=
  IR.IsPath (irG n nb) rf r vs ∧ (vs.length : Int) = s.op.age ∧ vs.length + 1 = s.path.length ∧
    LevelsTree n nb rf r vs s.op vs.length ∧ FramesOK n nb rf r vs s.path s.choices lv ∧ BinsSorted s.op ∧
    s.op.binsToCheck.len = 0

def WalkN (lv : List (Nat × Nat)) (s : LS) : Prop := ∃ vs : List Nat, WalkNv n nb rf r vs lv s

/-- at all times: the levels of the frames below the top frame are tree nodes -/
def WalkAv (vs : List Nat) (lv : List (Nat × Nat)) (s : LS) : Prop :=
  IR.IsPath (irG n nb) rf r vs ∧ (s.path = [] ∨ vs.length + 1 = s.path.length) ∧
    (vs.length : Int) ≤ s.op.age ∧
    LevelsTree n nb rf r vs s.op vs.length ∧ FramesOK n nb rf r vs s.path s.choices lv ∧ BinsSorted s.op

def WalkA (lv : List (Nat × Nat)) (s : LS) : Prop := ∃ vs : List Nat, WalkAv n nb rf r vs lv s

/-- after a `splitBin`: the partition is the individualised, not yet refined child `v` of the node of the top frame -/
def WalkSv (vs : List Nat) (t v : Nat) (lv : List (Nat × Nat)) (s : LS) : Prop :=
  IR.IsPath (irG n nb) rf r vs ∧ vs.length + 1 = s.path.length ∧
    (vs.length : Int) + 1 = s.op.age ∧ LevelsTree n nb rf r vs s.op vs.length ∧
    IR.target (irG n nb) (nodeL n nb rf r vs vs.length) = some t ∧
    v ∈ IR.cellMembers (irG n nb) (nodeL n nb rf r vs vs.length).c t ∧
    Match n s.op (IR.individualise (irG n nb) (nodeL n nb rf r vs vs.length) t v) ∧ BtcInv s.op ∧
    FramesOK n nb rf r (vs ++ [v]) s.path s.choices lv ∧ BinsSorted s.op

def WalkS (lv : List (Nat × Nat)) (s : LS) : Prop :=
  ∃ (vs : List Nat) (t v : Nat), WalkSv n nb rf r vs t v lv s

/-- at a node (start of an iteration of the main loop, the last refinement was not "worse") -/
def WalkNodev (vs : List Nat) (lv : List (Nat × Nat)) (s : LS) : Prop :=
  IR.IsPath (irG n nb) rf r vs ∧ (vs.length : Int) = s.op.age ∧ vs.length = s.path.length ∧
    LevelsTree n nb rf r vs s.op vs.length ∧ FramesOK n nb rf r vs s.path s.choices lv ∧ BinsSorted s.op ∧
    s.op.binsToCheck.len = 0

def WalkNode (lv : List (Nat × Nat)) (s : LS) : Prop := ∃ vs : List Nat, WalkNodev n nb rf r vs lv s

def WalkM (lv : List (Nat × Nat)) (worse : Bool) (s : LS) : Prop :=
  if worse then WalkA n nb rf r lv s else WalkNode n nb rf r lv s

end

theorem LevelsTree.mono {n : Nat} {nb : Nbrs} {rf : Nat} {r : IR.St} {vs : List Nat} {op : OP} {k j : Nat}
    (h : LevelsTree n nb rf r vs op k) (hj : j ≤ k) : LevelsTree n nb rf r vs op j :=
  fun L hL => h L (by omega)

theorem LevelsTree.congr {n : Nat} {nb : Nbrs} {rf : Nat} {r : IR.St} {vs vs' : List Nat} {op : OP} {k : Nat}
    (h : LevelsTree n nb rf r vs op k) (e : ∀ L, L ≤ k → vs'.take L = vs.take L) :
    LevelsTree n nb rf r vs' op k :=
  fun L hL => by rw [nodeL_congr (e L hL)]; exact h L hL

theorem LevelsTree.transfer {n : Nat} {nb : Nbrs} {rf : Nat} {r : IR.St} {vs : List Nat} {op op' : OP} {k : Nat}
    (h : LevelsTree n nb rf r vs op k) (ht : ∀ L, L ≤ k → ∀ s, LvOK n op (L : Int) s → LvOK n op' (L : Int) s) :
    LevelsTree n nb rf r vs op' k :=
  fun L hL => ht L hL _ (h L hL)

theorem WalkNv.toA {n : Nat} {nb : Nbrs} {rf : Nat} {r : IR.St} {vs : List Nat} {lv : List (Nat × Nat)} {s : LS}
    (h : WalkNv n nb rf r vs lv s) : WalkAv n nb rf r vs lv s := by
  obtain ⟨h1, h2, h3, h4, h5, h6, _⟩ := h
  exact ⟨h1, Or.inr h3, by omega, h4, h5, h6⟩

theorem WalkN.toA {n : Nat} {nb : Nbrs} {rf : Nat} {r : IR.St} {lv : List (Nat × Nat)} {s : LS}
    (h : WalkN n nb rf r lv s) : WalkA n nb rf r lv s := by
  obtain ⟨vs, h⟩ := h
  exact ⟨vs, h.toA⟩

theorem WalkSv.toA {n : Nat} {nb : Nbrs} {rf : Nat} {r : IR.St} {vs : List Nat} {t v : Nat}
    {lv : List (Nat × Nat)} {s : LS}
    (h : WalkSv n nb rf r vs t v lv s) : WalkAv n nb rf r vs lv s := by
  obtain ⟨h1, h2, h3, h4, _, _, _, _, h5, h6⟩ := h
  refine ⟨h1, Or.inr h2, by omega, h4, ?_, h6⟩
  apply FramesOK.congr s.path s.choices lv _ _ h5
  · intro L hL
    rw [take_append_le vs v (by omega)]
  · intro L hL hLv
    refine ⟨by simp; omega, ?_⟩
    rw [List.getElem?_append_left hLv]

theorem WalkS.toA {n : Nat} {nb : Nbrs} {rf : Nat} {r : IR.St} {lv : List (Nat × Nat)} {s : LS}
    (h : WalkS n nb rf r lv s) : WalkA n nb rf r lv s := by
  obtain ⟨vs, t, v, h⟩ := h
  exact ⟨vs, h.toA⟩

theorem FramesOK.choice_head {n : Nat} {nb : Nbrs} {rf : Nat} {r : IR.St} {vs : List Nat} {path cs : List Nat}
    {c c' : Nat} {lv : List (Nat × Nat)} (h : FramesOK n nb rf r vs path (c :: cs) lv) :
    FramesOK n nb rf r vs path (c' :: cs) lv := by
  cases path with
  | nil => simp [FramesOK] at h
  | cons p ps =>
    cases lv with
    | nil => simp [FramesOK] at h
    | cons x ls => obtain ⟨st, sz⟩ := x; simpa [FramesOK] using h

theorem FramesOK.tail {n : Nat} {nb : Nbrs} {rf : Nat} {r : IR.St} {vs : List Nat} {p c : Nat} {ps cs : List Nat}
    {x : Nat × Nat} {ls : List (Nat × Nat)} (h : FramesOK n nb rf r vs (p :: ps) (c :: cs) (x :: ls)) :
    FramesOK n nb rf r vs ps cs ls := by
  obtain ⟨st, sz⟩ := x
  simp only [FramesOK] at h
  exact h.2.2.2

theorem topOK_path_ne {op : OP} {k : Nat} {path choices : List Nat} {lv : List (Nat × Nat)}
    (h : TopOK op k path choices lv) : ∃ p ps c cs st sz ls, path = p :: ps ∧ choices = c :: cs ∧ lv = (st, sz) :: ls := by
  match path, choices, lv, h with
  | p :: ps, c :: cs, (st, sz) :: ls, _ => exact ⟨p, ps, c, cs, st, sz, ls, rfl, rfl, rfl⟩

/-- `deage` in the stepping loops -/
theorem walk_deage {n : Nat} {nb : Nbrs} {rf : Nat} {r : IR.St} (lv : List (Nat × Nat)) (s : LS) (op' : OP) (k : Nat)
    (hc : Core n s) (ht : TopOK s.op k s.path s.choices lv) (hage : s.op.age = s.path.length)
    {vs : List Nat} (h : WalkAv n nb rf r vs lv s) (hd : deage s.op = .ok op') :
    WalkNv n nb rf r vs lv { s with op := op' } := by
  obtain ⟨h1, h2, h3, h4, h5, h6⟩ := h
  obtain ⟨p, ps, c, cs, st, sz, ls, e1, e2, e3⟩ := topOK_path_ne ht
  have hlen : vs.length + 1 = s.path.length := by
    rcases h2 with h | h
    · rw [e1] at h; cases h
    · exact h
  have hpos : 0 < s.op.age := by rw [hage, e1]; simp
  obtain ⟨_, _, d3, _, d5, _⟩ := deage_inv hc.part hc.age hpos hd
  refine ⟨h1, ?_, hlen, ?_, h5, deage_binsSorted hc.part hc.age hpos h6 hd, d5⟩
  · show (vs.length : Int) = op'.age
    rw [d3, hage]; omega
  · exact h4.transfer (fun L hL s' hs' => lv_deage hc.part hc.age hpos hd (by rw [hage]; omega) hs')

/-- a Heuristic-2 skip only changes the top of `choices` (and `bestOrbits`, `skipDeage`) -/
theorem walk_skip {n : Nat} {nb : Nbrs} {rf : Nat} {r : IR.St} {lv : List (Nat × Nat)} {s : LS} {c c' : Nat}
    {cs : List Nat} {vs : List Nat} (bo : Disjoint.DS) (b : Bool) (hch : s.choices = c :: cs)
    (h : WalkNv n nb rf r vs lv s) :
    WalkNv n nb rf r vs lv { s with choices := c' :: cs, bestOrbits := bo, skipDeage := b } := by
  obtain ⟨h1, h2, h3, h4, h5, h6, h7⟩ := h
  rw [hch] at h5
  exact ⟨h1, h2, h3, h4, h5.choice_head, h6, h7⟩

/-- the top frame is popped -/
theorem walk_pop {n : Nat} {nb : Nbrs} {rf : Nat} {r : IR.St} (st sz : Nat) (ls : List (Nat × Nat)) (s : LS)
    {vs : List Nat} (ht : TopOK s.op 0 s.path s.choices ((st, sz) :: ls)) (h : WalkNv n nb rf r vs ((st, sz) :: ls) s) :
    WalkAv n nb rf r vs.dropLast ls { s with path := s.path.drop 1, choices := s.choices.drop 1 } := by
  obtain ⟨h1, h2, h3, h4, h5, h6, _⟩ := h
  obtain ⟨p, ps, c, cs, st', sz', ls', e1, e2, e3⟩ := topOK_path_ne ht
  cases e3
  rw [e1, e2] at h5
  have h5' := h5.tail
  rw [e1] at h3
  simp only [List.length_cons] at h3
  have hp' : IR.IsPath (irG n nb) rf r vs.dropLast := by
    rw [List.dropLast_eq_take]; exact IR.isPath_take vs r _ h1
  refine ⟨hp', ?_, ?_, ?_, ?_, h6⟩
  · show ({ s with path := s.path.drop 1, choices := s.choices.drop 1 } : LS).path = [] ∨ _
    simp only [e1, List.drop_succ_cons, List.drop_zero]
    cases ps with
    | nil => exact Or.inl rfl
    | cons a t => right; simp only [List.length_dropLast, List.length_cons] at h3 ⊢; omega
  · simp only [List.length_dropLast]; omega
  · simp only [List.length_dropLast]
    exact (h4.mono (by omega)).congr (fun L hL => take_dropLast vs (by omega))
  · simp only [e1, e2, List.drop_succ_cons, List.drop_zero]
    apply FramesOK.congr ps cs ls _ _ h5'
    · intro L hL; exact take_dropLast vs (by omega)
    · intro L hL hLv
      simp only [List.length_dropLast] at hLv
      refine ⟨by omega, ?_⟩
      rw [List.dropLast_eq_take, List.getElem?_take, if_pos (by omega)]

set_option maxHeartbeats 1000000 in
/-- `splitBin` on the next child of the top frame -/
theorem walk_split {n : Nat} {nb : Nbrs} {rf : Nat} {r : IR.St} (st sz : Nat) (ls : List (Nat × Nat)) (s : LS)
    (c : Nat) (cs : List Nat) (p : Nat) (ps : List Nat) (ce : Nat) (bo : Disjoint.DS) (w : Bool) (op' : OP) (k : Nat)
    (hc : Core n s) (ht : TopOK s.op (k + 1) s.path s.choices ((st, sz) :: ls))
    (hage : s.op.age + 1 = s.path.length) (hch : s.choices = c :: cs) (hpth : s.path = p :: ps)
    (_hget : s.op.order.get (c - 1) = .ok ce)
    (hs : splitBin nb s.currentBest s.firstLeaf s.op (c - 1) = .ok (w, op'))
    {vs : List Nat} (h : WalkNv n nb rf r vs ((st, sz) :: ls) s) :
    ∃ v, s.op.order.toList[c - 1]? = some v ∧ (cellL n nb rf r vs vs.length st)[k]? = some v ∧ vs.length = ps.length ∧
    (w = false → WalkSv n nb rf r vs st v ((st, sz) :: ls)
      { s with choices := (c - 1) :: cs, bestOrbits := bo, op := op', path := k :: ps }) ∧
    (w = true → WalkAv n nb rf r vs ((st, sz) :: ls)
      { s with choices := (c - 1) :: cs, bestOrbits := bo, op := op', path := k :: ps }) := by
  obtain ⟨h1, h2, h3, h4, h5, h6, h7⟩ := h
  rw [hpth, hch] at ht h5
  simp only [TopOK] at ht
  obtain ⟨tb, tsz, tc, tk, _⟩ := ht
  rw [hpth] at h3 hage
  simp only [List.length_cons] at h3 hage
  have hvl : vs.length = ps.length := by omega
  have hm : Match n s.op (nodeL n nb rf r vs vs.length) := (h4 vs.length (Nat.le_refl _)).toMatch hc.part hc.age (by omega) h7
  have hb : IsBinAt (s.op.age + 1) s.op st sz := by
    have : s.op.age + 1 = (ps.length : Int) + 1 := by omega
    rw [this]; exact tb
  obtain ⟨hi, hns, hfb, f4, _, _, _, f8, f9, f10⟩ := frame_facts (nb := nb) hc.part hc.age hm hb tsz
    (show st ≤ c - 1 by omega) (show c - 1 < st + sz by omega)
  obtain ⟨v, hv, hvm, hm'⟩ := splitBin_match hc.part hc.age hi hns hm h7 hs
  rw [f4] at hvm hm'
  have hck : c - 1 = st + k := by omega
  have hCk : (IR.cellMembers (irG n nb) (nodeL n nb rf r vs vs.length).c st)[k]? = some v := by
    rw [← f10 h6 k (by omega), ← hck]; exact hv
  obtain ⟨q1, _, q3, _⟩ := splitBin_inv hc.part hc.age hi hns hs
  have hlev : LevelsTree n nb rf r vs op' vs.length :=
    h4.transfer (fun L hL s' hs' => lv_split hc.part hc.age hi hns hs (by omega) hs')
  simp only [FramesOK] at h5
  obtain ⟨g1, g2, _, g4⟩ := h5
  rw [← hvl] at g1 g2
  refine ⟨v, hv, hCk, hvl, ?_, ?_⟩
  · intro _
    refine ⟨h1, by simp only [List.length_cons]; omega, by show (vs.length : Int) + 1 = op'.age; omega,
      hlev, f8, hvm, hm', splitBin_btcInv hc.part hc.age hi hns h7 hs, ?_, splitBin_binsSorted hc.part hc.age hi hns h6 hs⟩
    show FramesOK n nb rf r (vs ++ [v]) (k :: ps) ((c - 1) :: cs) ((st, sz) :: ls)
    have en : nodeL n nb rf r (vs ++ [v]) ps.length = nodeL n nb rf r vs vs.length := by
      unfold nodeL
      rw [← hvl, take_append_le vs v (Nat.le_refl _)]
    simp only [FramesOK]
    refine ⟨by rw [en]; exact f8, by unfold cellL; rw [en]; exact f9, ?_, ?_⟩
    · intro _
      unfold cellL
      rw [en, hCk, ← hvl]
      refine ⟨by simp, by omega⟩
    · apply FramesOK.congr ps cs ls _ _ g4
      · intro L hL; exact take_append_le vs v (by omega)
      · intro L hL hLv
        refine ⟨by omega, ?_⟩
        rw [List.getElem?_append_left (by omega)]
  · intro _
    refine ⟨h1, Or.inr (by simp only [List.length_cons]; omega), by show (vs.length : Int) ≤ op'.age; omega, hlev, ?_,
      splitBin_binsSorted hc.part hc.age hi hns h6 hs⟩
    show FramesOK n nb rf r vs (k :: ps) ((c - 1) :: cs) ((st, sz) :: ls)
    simp only [FramesOK]
    refine ⟨by rw [← hvl]; exact g1, by rw [← hvl]; exact g2, fun hl => absurd hl (by omega), g4⟩

/-! ## shape of `backJump` and of the leaf branch -/

theorem backJump_shape {s s' : LS} {ref : Sl Nat} (h : backJump s ref = .ok s') :
    ∃ j op', j ≤ s.path.length ∧ (s.path ≠ [] → j < s.path.length) ∧ deageTimes j s.op = .ok op' ∧
      s' = { s with op := op', path := s.path.drop j, choices := s.choices.drop (j + s.choices.length - s.path.length) } := by
  unfold backJump at h
  dsimp only at h
  cases hi : h1Index s.path.reverse ref (s.path.reverse.length - 1) 0 with
  | panic => rw [hi] at h; cases h
  | outOfFuel => rw [hi] at h; cases h
  | ok idx1 =>
    rw [hi] at h
    simp only at h
    cases hd : deageTimes (s.path.reverse.length - idx1) s.op with
    | panic => rw [hd] at h; cases h
    | outOfFuel => rw [hd] at h; cases h
    | ok op' =>
      rw [hd] at h
      simp only at h
      cases h
      have hidx := h1Index_spec _ _ _ _ _ hi
      simp only [List.length_reverse] at hidx hd
      refine ⟨s.path.length - idx1, op', by omega, ?_, hd, ?_⟩
      · intro hne
        have : 0 < s.path.length := List.length_pos_iff.2 hne
        omega
      · have e1 : (s.path.reverse.take idx1).reverse = s.path.drop (s.path.length - idx1) := by
          rw [List.take_reverse, List.reverse_reverse]
        have e2 : (s.choices.reverse.take idx1).reverse = s.choices.drop (s.choices.length - idx1) := by
          rw [List.take_reverse, List.reverse_reverse]
        rw [e1, e2]
        congr 2
        omega

/-- the leaf branch either keeps partition and stack, or back-jumps from a state with the same partition and stack -/
theorem leafNode_shape {n m : Nat} {s s' : LS} (h : leafNode n m s = .ok s') :
    (s'.op = s.op ∧ s'.path = s.path ∧ s'.choices = s.choices) ∨
    ∃ (s0 : LS) (ref : Sl Nat), s0.op = s.op ∧ s0.path = s.path ∧ s0.choices = s.choices ∧ backJump s0 ref = .ok s' := by
  unfold leafNode at h
  dsimp only at h
  split at h
  · left
    osplit h <;> (cases h; exact ⟨rfl, rfl, rfl⟩)
  · split at h
    · right
      osplit h
      refine ⟨_, _, ?_, ?_, ?_, h⟩ <;> rfl
    · split at h
      · right
        osplit h
        refine ⟨_, _, ?_, ?_, ?_, h⟩ <;> rfl
      · left
        cases h
        exact ⟨rfl, rfl, rfl⟩

theorem lv_deageTimes {n : Nat} : ∀ (j : Nat) (op op' : OP), PartInv n op → AgeInv op → (j : Int) ≤ op.age →
    BinsSorted op → deageTimes j op = .ok op' →
    PartInv n op' ∧ AgeInv op' ∧ op'.age = op.age - j ∧ BinsSorted op' ∧
      ∀ (L : Nat) (s : IR.St), (L : Int) + j ≤ op.age → LvOK n op (L : Int) s → LvOK n op' (L : Int) s := by
  intro j
  induction j with
  | zero =>
    intro op op' hp ha _ hb h
    simp [deageTimes] at h; subst h
    exact ⟨hp, ha, by simp, hb, fun _ _ _ h => h⟩
  | succ j ih =>
    intro op op' hp ha hj hb h
    rw [deageTimes] at h
    cases hd : deage op with
    | panic => rw [hd] at h; cases h
    | outOfFuel => rw [hd] at h; cases h
    | ok op1 =>
      rw [hd] at h
      simp only at h
      have hpos : 0 < op.age := by omega
      obtain ⟨d1, d2, d3, _⟩ := deage_inv hp ha hpos hd
      obtain ⟨r1, r2, r3, r4, r5⟩ := ih op1 op' d1 d2 (by rw [d3]; omega) (deage_binsSorted hp ha hpos hb hd) h
      refine ⟨r1, r2, by rw [r3, d3]; push_cast; omega, r4, ?_⟩
      intro L s hL hs
      exact r5 L s (by rw [d3]; push_cast at hL ⊢; omega) (lv_deage hp ha hpos hd (by push_cast at hL; omega) hs)

theorem FramesOK.drop {n : Nat} {nb : Nbrs} {rf : Nat} {r : IR.St} {vs : List Nat} :
    ∀ (j : Nat) (path choices : List Nat) (lv : List (Nat × Nat)), FramesOK n nb rf r vs path choices lv →
      FramesOK n nb rf r vs (path.drop j) (choices.drop j) (lv.drop j) := by
  intro j
  induction j with
  | zero => intro path choices lv h; simpa using h
  | succ j ih =>
    intro path choices lv h
    cases path with
    | nil => cases choices <;> cases lv <;> simp_all [FramesOK]
    | cons p ps =>
      cases choices with
      | nil => simp [FramesOK] at h
      | cons c cs =>
        cases lv with
        | nil => simp [FramesOK] at h
        | cons x ls =>
          simp only [List.drop_succ_cons]
          exact ih ps cs ls h.tail

set_option maxHeartbeats 1000000 in
/-- leaving a node: the partition is `deage`d `j` times and `j` frames are dropped (`j = 0`: a leaf that does not
back-jump, or the start of the stepping after a node) -/
theorem walk_truncate {n : Nat} {nb : Nbrs} {rf : Nat} {r : IR.St} {lv : List (Nat × Nat)} {s s' : LS} (j : Nat)
    (hp : PartInv n s.op) (ha : AgeInv s.op) (hj : j ≤ s.path.length) (hj' : s.path ≠ [] → j < s.path.length)
    (hop : deageTimes j s.op = .ok s'.op) (hpath : s'.path = s.path.drop j) (hch : s'.choices = s.choices.drop j)
    {vs : List Nat} (h : WalkNodev n nb rf r vs lv s) :
    WalkAv n nb rf r (vs.take (s.path.length - j - 1)) (lv.drop j) s' := by
  obtain ⟨h1, h2, h3, h4, h5, h6, _⟩ := h
  obtain ⟨r1, r2, r3, r4, r5⟩ := lv_deageTimes j s.op s'.op hp ha (by omega) h6 hop
  have hp' : IR.IsPath (irG n nb) rf r (vs.take (s.path.length - j - 1)) := IR.isPath_take vs r _ h1
  refine ⟨hp', ?_, ?_, ?_, ?_, r4⟩
  · rw [hpath]
    by_cases hne : s.path = []
    · left; rw [hne]; simp
    · right
      have := hj' hne
      simp only [List.length_take, List.length_drop]
      omega
  · simp only [List.length_take]; rw [r3]; omega
  · intro L hL
    simp only [List.length_take] at hL
    rw [nodeL_congr (take_take_le vs (by omega))]
    exact r5 L _ (by omega) (h4 L (by omega))
  · rw [hpath, hch]
    apply FramesOK.congr _ _ _ _ _ (h5.drop j)
    · intro L hL
      simp only [List.length_drop] at hL
      exact take_take_le vs (by omega)
    · intro L hL hLv
      simp only [List.length_take] at hLv
      refine ⟨by omega, ?_⟩
      rw [List.getElem?_take, if_pos (by omega)]

set_option maxHeartbeats 1000000 in
/-- the node step (leaf branch / inner node / nothing after a "worse" refinement) -/
theorem walk_node {n m : Nat} {nb : Nbrs} {rf : Nat} {r : IR.St} (lv : List (Nat × Nat)) (worse : Bool) (s s1 : LS)
    (hI : MInv n m nb s) (hlv : LevelsOK s.op s.path s.choices lv) (hM : WalkM n nb rf r lv worse s)
    (hs1 : (if (!worse && s.op.binDividers.len == n) = true then leafNode n m s
      else if (!worse) = true then innerNode s else Outcome.ok s) = .ok s1) :
    ∃ lv1, LevelsOK s1.op s1.path s1.choices lv1 ∧ WalkA n nb rf r lv1 s1 ∧
      (s1.skipDeage = true → WalkN n nb rf r lv1 s1) := by
  obtain ⟨l1, l2⟩ := LevelsOK_length _ _ _ hlv
  by_cases hleaf : (!worse && s.op.binDividers.len == n) = true
  · rw [if_pos hleaf] at hs1
    simp only [Bool.and_eq_true, Bool.not_eq_true', beq_iff_eq] at hleaf
    have hN : WalkNode n nb rf r lv s := by
      unfold WalkM at hM; rw [hleaf.1] at hM; simpa using hM
    obtain ⟨_, _, _, _, hsk, _⟩ := leafNode_spec hI.core hlv hI.age hs1
    rcases leafNode_shape hs1 with ⟨e1, e2, e3⟩ | ⟨s0, ref, e1, e2, e3, hb⟩
    · refine ⟨lv, by rw [e1, e2, e3]; exact hlv, ?_, fun hc => by rw [hsk, hI.skip] at hc; cases hc⟩
      obtain ⟨vs, hN⟩ := hN
      have := walk_truncate (s' := s1) 0 hI.core.part hI.core.age (Nat.zero_le _)
        (fun hne => List.length_pos_iff.2 hne) (by rw [e1]; rfl) (by rw [e2]; rfl) (by rw [e3]; rfl) hN
      exact ⟨_, by simpa using this⟩
    · obtain ⟨j, op', j1, j2, hd, hs'⟩ := backJump_shape hb
      have eop : s1.op = op' := by rw [hs']
      have epath : s1.path = s.path.drop j := by rw [hs', e2]
      have ech : s1.choices = s.choices.drop j := by
        rw [hs', e2, e3]
        show List.drop (j + s.choices.length - s.path.length) s.choices = _
        rw [show j + s.choices.length - s.path.length = j by omega]
      rw [e1] at hd
      rw [e2] at j1 j2
      obtain ⟨q1, q2, q3, q4, _⟩ := deageTimes_spec (StepQ.trivial n nb s.currentBest s.firstLeaf) j s.op op'
        hI.core.part hI.core.age (by rw [hI.age]; omega) trivial hd
      refine ⟨lv.drop j, ?_, ?_, fun hc => by rw [hsk, hI.skip] at hc; cases hc⟩
      · rw [eop, epath, ech]
        apply LevelsOK_frame q4 _ _ _ _ (LevelsOK_drop j _ _ _ hlv)
        simp only [List.length_drop]; rw [hI.age]; omega
      · obtain ⟨vs, hN⟩ := hN
        exact ⟨_, walk_truncate j hI.core.part hI.core.age j1 j2 (by rw [eop]; exact hd) epath ech hN⟩
  · rw [if_neg hleaf] at hs1
    by_cases hnw : (!worse) = true
    · rw [if_pos hnw] at hs1
      have hwf : worse = false := by simpa using hnw
      have hN : WalkNode n nb rf r lv s := by
        unfold WalkM at hM; rw [hwf] at hM; simpa using hM
      have hnl : s.op.binDividers.len ≠ n := by
        intro e; apply hleaf; simp [hwf, e]
      obtain ⟨st, sz, e, hl', _, hsz, _⟩ := innerNode_spec hI.core hlv hI.age hnl hs1
      obtain ⟨vs, h1, h2, h3, h4, h5, h6, h7⟩ := hN
      have hm : Match n s.op (nodeL n nb rf r vs vs.length) :=
        (h4 vs.length (Nat.le_refl _)).toMatch hI.core.part hI.core.age (by omega) h7
      have hb : IsBinAt (s.op.age + 1) s.op st sz := by
        simp only [LevelsOK] at hl'
        have := hl'.1
        rw [hI.age]; exact this
      obtain ⟨_, _, _, _, _, _, _, f8, f9, _⟩ := frame_facts (nb := nb) hI.core.part hI.core.age hm hb hsz
        (Nat.le_refl st) (show st < st + sz by omega)
      have hW : WalkNv n nb rf r vs ((st, sz) :: lv) s1 := by
        rw [e]
        refine ⟨h1, h2, by simp only [List.length_cons]; omega, h4, ?_, h6, h7⟩
        show FramesOK n nb rf r vs (sz :: s.path) ((st + sz) :: s.choices) ((st, sz) :: lv)
        simp only [FramesOK]
        rw [← h3]
        exact ⟨f8, f9, fun hc => absurd hc (Nat.lt_irrefl _), h5⟩
      exact ⟨(st, sz) :: lv, by rw [e]; exact hl', ⟨vs, hW.toA⟩, fun _ => ⟨vs, hW⟩⟩
    · rw [if_neg hnw] at hs1
      cases hs1
      have hwt : worse = true := by simpa using hnw
      have hA : WalkA n nb rf r lv s := by
        unfold WalkM at hM; rw [hwt] at hM; simpa using hM
      exact ⟨lv, hlv, hA, fun hc => by rw [hI.skip] at hc; cases hc⟩

set_option maxHeartbeats 1000000 in
/-- the refinement after a `splitBin` -/
theorem walk_refine {n : Nat} {nb : Nbrs} {rf : Nat} {r : IR.St} (hnb : NbOK nb n) (hrf : 3 * n + 3 ≤ rf)
    (lv : List (Nat × Nat)) (s : LS) (w : Bool) (op' : OP) (sc' : Scratch) (hc : Core n s)
    (htl : s.sc.timesSeen.len = n) {vs : List Nat} {t v : Nat} (h : WalkSv n nb rf r vs t v lv s)
    (hr : refine nb s.currentBest s.firstLeaf {} s.op s.sc = .ok (w, op', sc')) (sc2 : Scratch) :
    (w = true → WalkAv n nb rf r vs lv { s with op := op', sc := sc2 }) ∧
    (w = false → WalkNodev n nb rf r (vs ++ [v]) lv { s with op := op', sc := sc2 }) := by
  obtain ⟨h1, h2, h3, h4, h5, h6, h7, h8, h9, h10⟩ := h
  obtain ⟨r1, r2, r3, _⟩ := refine_inv stablePerm hc.part hc.age hc.scr hr
  have hlev : LevelsTree n nb rf r vs op' vs.length :=
    h4.transfer (fun L hL s' hs' => lv_refine stablePerm hc.part hc.age hc.scr hr (by omega) hs')
  have hsorted := refine_binsSorted stablePerm hc.part hc.age hc.scr h10 hr
  constructor
  · intro _
    refine ⟨h1, Or.inr h2, by show (vs.length : Int) ≤ op'.age; omega, hlev, ?_, hsorted⟩
    apply FramesOK.congr s.path s.choices lv _ _ h9
    · intro L hL; rw [take_append_le vs v (by omega)]
    · intro L hL hLv
      refine ⟨by simp; omega, ?_⟩
      rw [List.getElem?_append_left hLv]
  · intro hw
    subst hw
    obtain ⟨hm', hbt'⟩ := refineMatch hc.part hc.age hc.scr htl h8 hnb h7 hr rf hrf
    have hvt : vs.take vs.length = vs := List.take_of_length_le (Nat.le_refl _)
    have hnode : nodeL n nb rf r vs vs.length = IR.nodeAt (irG n nb) rf r vs := by unfold nodeL; rw [hvt]
    rw [hnode] at h5 h6 hm'
    refine ⟨(IR.isPath_snoc vs r v).2 ⟨h1, t, h5, h6⟩, by simp; omega, by simp; omega, ?_, h9, hsorted, hbt'⟩
    intro L hL
    simp only [List.length_append, List.length_cons, List.length_nil] at hL
    rcases Nat.lt_or_ge L (vs.length + 1) with hlt | hge
    · rw [nodeL_congr (take_append_le vs v (by omega))]
      exact hlev L (by omega)
    · have : L = vs.length + 1 := by omega
      subst this
      have e : nodeL n nb rf r (vs ++ [v]) (vs.length + 1) = IR.childSt (irG n nb) rf (IR.nodeAt (irG n nb) rf r vs) t v := by
        unfold nodeL
        rw [List.take_of_length_le (by simp), IR.nodeAt_snoc vs r v t h1 h5]
      rw [e]
      exact LvOK.ofMatch hm' r1 r2 (by push_cast; omega) hbt'

/-- the walk invariant is an invariant of the main loop -/
theorem walkMainJ {n m : Nat} {nb : Nbrs} {rf : Nat} {r : IR.St} (hnb : NbOK nb n) (hrf : 3 * n + 3 ≤ rf) :
    MainJ n m nb (WalkA n nb rf r) (WalkN n nb rf r) (WalkS n nb rf r) (WalkM n nb rf r) where
  step :=
    { na := fun _ _ h => h.toA
      deage := fun lv s op' k hc ht _ hage h hd => by
        obtain ⟨vs, h⟩ := h
        exact ⟨vs, walk_deage lv s op' k hc ht hage h hd⟩
      noskip := fun _ _ _ h => h
      skipA := fun _ _ _ s c cs _ _ _ _ _ _ _ _ _ hch _ _ _ _ _ h => by
        obtain ⟨vs, h⟩ := h
        exact ⟨vs, walk_skip (c' := c - 1) s.bestOrbits true hch h⟩
      skipB := fun _ _ _ s c cs _ _ _ bo _ _ _ _ _ hch _ _ _ _ h => by
        obtain ⟨vs, h⟩ := h
        exact ⟨vs, walk_skip (c' := c - 1) bo true hch h⟩
      split := fun st sz ls s c cs p ps ce bo w op' k hc ht _ hage hch hpth hget _ _ _ hs h => by
        obtain ⟨vs, h⟩ := h
        obtain ⟨v, _, _, _, q1, q2⟩ := walk_split st sz ls s c cs p ps ce bo w op' k hc ht hage hch hpth hget hs h
        exact ⟨fun hw => ⟨vs, st, v, q1 hw⟩, fun hw => ⟨vs, q2 hw⟩⟩
      pop := fun st sz ls s _ ht _ _ h => by
        obtain ⟨vs, h⟩ := h
        exact ⟨_, walk_pop st sz ls s ht h⟩ }
  node := fun lv worse s s1 hI _ hlv hM hs1 => walk_node lv worse s s1 hI hlv hM hs1
  refine := fun lv s w op' sc' hc _ _ _ htl h hr => by
    obtain ⟨vs, t, v, h⟩ := h
    obtain ⟨q1, q2⟩ := walk_refine hnb hrf lv s w op' sc' hc htl h hr _
    cases w with
    | true => exact ⟨vs, q1 rfl⟩
    | false => exact ⟨_, q2 rfl⟩

end CanonF
