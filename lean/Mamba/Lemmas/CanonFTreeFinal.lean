import Mamba.Lemmas.CanonFTree
import Mamba.Lemmas.CanonFFinal
import Mamba.Lemmas.CanonFTreeCert
import Mamba.Lemmas.CanonFTreeLoop
import Mamba.Lemmas.CanonFTreeRefine
import Mamba.Lemmas.CanonFTreeCount
import Mamba.Lemmas.IRCanon
import Mamba.Lemmas.IREdgeless
import Mamba.Lemmas.CanonFPrune
/-!
# `canonF_leaf_of_tree`: the permutation returned by the faithful model is a leaf of the unpruned tree of `Model/IR.lean`
-/
namespace CanonF
open GraphSpec

theorem rfuel_ge (n : Nat) : 3 * n + 3 ≤ n * n + 10 := by
  rcases Nat.lt_or_ge n 3 with h | h
  · have : n = 0 ∨ n = 1 ∨ n = 2 := by omega
    rcases this with rfl | rfl | rfl <;> decide
  · have : 3 * n ≤ n * n := Nat.mul_le_mul_right n h
    omega

/-- the initial IR state of the class colouring of the initial partition -/
def irInit (g : G) (op0 : OP) : IR.St := IR.initSt (IR.ofSpec g) op0.binDividers.len (cellOf op0)

theorem init_match {n m : Nat} {vc : Classes} {op0 : OP} (hn : 0 < n) (hc : ClassesOK n vc)
    (h : newOrderedPartition n m vc = .ok (some op0)) (nb : Nbrs) :
    Match n op0 (IR.initSt (irG n nb) op0.binDividers.len (cellOf op0)) ∧ BtcInv op0 := by
  obtain ⟨op, hnew, hp, _, _, _, _, _, hbtc, _⟩ := newOrderedPartition_inv (m := m) hn hc
  rw [hnew] at h
  cases h
  obtain ⟨hwf, hlen⟩ := new_btc_wf hn hc hnew
  refine ⟨⟨rfl, rfl, List.nodup_range, ?_⟩, ⟨hwf, ?_, ?_⟩⟩
  · intro x
    show x ∈ List.range _ ↔ _
    rw [hbtc]
    simp
  · rw [hbtc]
    rw [List.pairwise_map]
    exact List.pairwise_lt_range.imp (fun h => by exact Int.ofNat_lt.2 h)
  · intro x hx
    rw [hbtc] at hx
    obtain ⟨k, hk, rfl⟩ := List.mem_map.1 hx
    have := List.mem_range.1 hk
    exact ⟨Int.natCast_nonneg k, by exact Int.ofNat_lt.2 this⟩

/-- the returned permutation is (the inverse of) a leaf of the unpruned tree — general path of
`CanonicalIsomorphAllocated` (the graph has an edge, or there are at least two classes) -/
theorem canonF_leaf_full (hst : StablePerm) (hx : ExpandCert) (hrm : RefineMatch) (fuel : Nat) (g : G) (hg : g.WF)
    (vc : Classes) (hvc : ClassesOK g.n vc) (hn : g.n ≠ 0)
    (r : Res) (h : canonicalIsomorphFull fuel g vc = .ok r) :
    ∃ op0, newOrderedPartition g.n (((nbrsOf g).toList.map List.length).sum / 2) vc = .ok (some op0) ∧
      (¬ (((nbrsOf g).toList.map List.length).sum / 2 = 0 ∧ op0.binDividers.len = 1) →
        ∃ p, r.perm = some p ∧ p.Perm (List.range g.n) ∧
          IR.tab g.n (fun v => p.idxOf v) ∈ IR.allLeaves (IR.ofSpec g) (irInit g op0)) := by
  obtain ⟨op, opR, stR, hnew, hp, ha, hage, hspl, hval, hal⟩ := full_unfold fuel g vc hvc hn r h
  refine ⟨op, hnew, fun hsc => ?_⟩
  have hn0 : 0 < g.n := Nat.pos_of_ne_zero hn
  obtain ⟨hnbok, hsz⟩ := nbOK_nbrsOf g hg
  obtain ⟨hm0, hb0⟩ := init_match hn0 hvc hnew (nbrsOf g)
  have hw : (IR.initSt (irG g.n (nbrsOf g)) op.binDividers.len (cellOf op)).work ≠ [] := by
    show List.range op.binDividers.len ≠ []
    have := hp.bdLen_pos
    intro e
    have := congrArg List.length e
    simp at this
    omega
  have hinv := IR.refine_inv' (g := irG g.n (nbrsOf g)) (fuel := g.n * g.n + 10) (by omega) hw
  have hO := treeOrdQ hst hrm (n := g.n) (nb := nbrsOf g) (rf := g.n * g.n + 10)
    (s0 := IR.initSt (irG g.n (nbrsOf g)) op.binDividers.len (cellOf op)) hnbok (rfuel_ge g.n) hinv.1 hinv.2
  obtain ⟨gs, ds, _, _, _, _, _, ⟨p, hp1, hp2⟩, _⟩ := allocated_cert hst hx hO hn (fun hm h1 => hsc ⟨hm, h1⟩) rfl hp ha hage
    hspl hval ⟨hb0, Or.inl ⟨hage, hm0⟩⟩ hnbok (fun o ho => certPos_length hnbok hsz ho) hal
  obtain ⟨p', hp', hperm⟩ := canonF_perm_full hst fuel g vc hvc r h
  rw [hp1] at hp'
  cases hp'
  exact ⟨p, hp1, hperm, hp2⟩

/-- without vertex classes the initial IR state is `IR.init` -/
theorem irInit_none {g : G} {m : Nat} {op0 : OP} (hn : 0 < g.n)
    (h : newOrderedPartition g.n m none = .ok (some op0)) : irInit g op0 = IR.init (IR.ofSpec g) := by
  obtain ⟨op, hnew, hp, _, _, _, _, _, _, _, _, _, _, _, _, hbd⟩ :=
    newOrderedPartition_inv (n := g.n) (m := m) (vc := none) hn trivial
  rw [hnew] at h
  cases h
  simp only at hbd
  have hlen : op0.binDividers.len = 1 := by
    rw [← Sl.length_toList _ hp.wfBd, hbd]; rfl
  have h0 := inCell_single hp hlen
  unfold irInit IR.init IR.initSt
  rw [hlen]
  congr 1
  apply tab_congr
  intro v hv
  show cellOf op0 v = 0
  unfold cellOf
  rw [h0 v hv]; rfl

theorem refineIterCol : RefineIterCol :=
  fun hp ha hs htw htl hb hpos hnb h => refineIter_col stablePerm countLoop_sem hp ha hs htw htl hb hpos hnb h

/-- `RefineMatch` without hypotheses -/
theorem refineMatch : RefineMatch := refine_match stablePerm refineIterCol IR.pass_char

theorem le_foldl_max (l : List (List Nat)) : ∀ b : List Nat, b ≤ l.foldl max b ∧ ∀ x ∈ l, x ≤ l.foldl max b := by
  induction l with
  | nil => intro b; simp
  | cons a t ih =>
    intro b
    simp only [List.foldl_cons]
    obtain ⟨h1, h2⟩ := ih (max b a)
    refine ⟨le_trans (le_max_left b a) h1, ?_⟩
    intro x hx
    rcases List.mem_cons.1 hx with rfl | hx
    · exact le_trans (le_max_right b x) h1
    · exact h2 x hx

theorem le_maxCert {l : List (List Nat)} {x : List Nat} (h : x ∈ l) : x ≤ IR.maxCert l := by
  unfold IR.maxCert
  have : (fun (b x : List Nat) => if b < x then x else b) = (fun b x => max b x) := by
    funext b x; exact IR.mx_eq_max b x
  rw [this]
  exact (le_foldl_max l []).2 x h

/-- `canonF_leaf_of_tree` (general path): the returned permutation is (the inverse of) a leaf of the unpruned tree of
`Model/IR.lean` for the same graph and the class colouring of the initial partition -/
theorem canonF_leaf_of_tree_full (fuel : Nat) (g : G) (hg : g.WF) (vc : Classes) (hvc : ClassesOK g.n vc) (hn : g.n ≠ 0)
    (r : Res) (h : canonicalIsomorphFull fuel g vc = .ok r) :
    ∃ op0, newOrderedPartition g.n (((nbrsOf g).toList.map List.length).sum / 2) vc = .ok (some op0) ∧
      (¬ (((nbrsOf g).toList.map List.length).sum / 2 = 0 ∧ op0.binDividers.len = 1) →
        ∃ p, r.perm = some p ∧ p.Perm (List.range g.n) ∧
          IR.tab g.n (fun v => p.idxOf v) ∈ IR.allLeaves (IR.ofSpec g) (irInit g op0)) :=
  canonF_leaf_full stablePerm expandValue_cert refineMatch fuel g hg vc hvc hn r h

/-- the certificate of the returned leaf is at most the maximum over all leaves of the unpruned tree -/
theorem canonF_cert_le_full (fuel : Nat) (g : G) (hg : g.WF) (vc : Classes) (hvc : ClassesOK g.n vc) (hn : g.n ≠ 0)
    (r : Res) (h : canonicalIsomorphFull fuel g vc = .ok r) :
    ∃ op0 p, newOrderedPartition g.n (((nbrsOf g).toList.map List.length).sum / 2) vc = .ok (some op0) ∧
      r.perm = some p ∧ certPos (nbrsOf g) p g.n ≤ IR.canonCertFrom (IR.ofSpec g) (irInit g op0) := by
  obtain ⟨op0, hnew, hgen⟩ := canonF_leaf_of_tree_full fuel g hg vc hvc hn r h
  obtain ⟨hnbok, hsz⟩ := nbOK_nbrsOf g hg
  by_cases hsc : ((nbrsOf g).toList.map List.length).sum / 2 = 0 ∧ op0.binDividers.len = 1
  · obtain ⟨p, hp, hperm⟩ := canonF_perm_full stablePerm fuel g vc hvc r h
    refine ⟨op0, p, hnew, hp, ?_⟩
    have hlen := certPos_length hnbok hsz hperm
    rw [hsc.1] at hlen
    rw [List.length_eq_zero_iff.1 hlen]
    exact not_lt.1 (List.not_lt_nil _)
  · obtain ⟨p, hp, hperm, hleaf⟩ := hgen hsc
    refine ⟨op0, p, hnew, hp, ?_⟩
    have hc : IR.cert (IR.ofSpec g) (IR.tab g.n (fun v => p.idxOf v)) = certPos (nbrsOf g) p g.n :=
      cert_link hnbok hperm
    rw [← hc]
    unfold IR.canonCertFrom
    exact le_maxCert (List.mem_map.2 ⟨_, hleaf, rfl⟩)

/-- under the certificate invariant the certificate never outgrows `m` (the capacity bound that independence of stale
storage needs: `worseTest` re-slices `currentBest` / `firstLeaf` to `len(value)`) -/
theorem value_len_le {n : Nat} {nb : Nbrs} {cb fl : Sl Nat} {op : OP} (hnb : NbOK nb n) (hsz : nb.size = n)
    (hp : PartInv n op) (hv : VAny nb cb fl op) : op.value.len ≤ ((nb.toList.map List.length).sum) / 2 := by
  have key : ∀ (hw : op.value.WF) (hval : op.value.toList = certPos nb op.order.toList op.spl)
      (hle : op.spl ≤ op.binDividers.len), op.value.len ≤ ((nb.toList.map List.length).sum) / 2 := by
    intro hw hval hle
    have hbn : op.binDividers.len ≤ n := hp.bdLen_le
    obtain ⟨tail, ht⟩ := certPos_append nb op.order.toList op.spl n (by omega)
    have hlen := certPos_length hnb hsz hp.perm
    rw [ht, List.length_append, ← hval, Sl.length_toList _ hw] at hlen
    omega
  rcases hv with hc | ⟨hs, _⟩
  · exact key hc.wf hc.val hc.pre.le
  · exact key hs.wf hs.val hs.pre.le

/-- with a single class the initial IR state is `IR.init` -/
theorem irInit_single {g : G} {op0 : OP} (hp : PartInv g.n op0) (hlen : op0.binDividers.len = 1) :
    irInit g op0 = IR.init (IR.ofSpec g) := by
  have h0 := inCell_single hp hlen
  unfold irInit IR.init IR.initSt
  rw [hlen]
  congr 1
  apply tab_congr
  intro v hv
  show cellOf op0 v = 0
  unfold cellOf
  rw [h0 v hv]; rfl

/-- `canonF_leaf_of_tree`: the returned permutation is (the inverse of) a leaf of the unpruned tree of `Model/IR.lean`,
for every input (general search and `m == 0` shortcut) -/
theorem canonF_leaf_of_tree_all (fuel : Nat) (g : G) (hg : g.WF) (vc : Classes) (hvc : ClassesOK g.n vc) (hn : g.n ≠ 0)
    (r : Res) (h : canonicalIsomorphFull fuel g vc = .ok r) :
    ∃ op0 p, newOrderedPartition g.n (((nbrsOf g).toList.map List.length).sum / 2) vc = .ok (some op0) ∧
      r.perm = some p ∧ p.Perm (List.range g.n) ∧
      IR.tab g.n (fun v => p.idxOf v) ∈ IR.allLeaves (IR.ofSpec g) (irInit g op0) := by
  obtain ⟨op0, hnew, hgen⟩ := canonF_leaf_of_tree_full fuel g hg vc hvc hn r h
  by_cases hsc : ((nbrsOf g).toList.map List.length).sum / 2 = 0 ∧ op0.binDividers.len = 1
  · obtain ⟨op, opR, stR, hnew', hp, _, _, _, _, hal⟩ := full_unfold fuel g vc hvc hn r h
    rw [hnew] at hnew'
    cases hnew'
    obtain ⟨st2, he⟩ := allocated_shortcut hn hsc.1 hsc.2 hal
    have hperm := edgeless_perm he
    refine ⟨op0, List.range g.n, hnew, hperm, List.Perm.refl _, ?_⟩
    rw [irInit_single hp hsc.2]
    have hE : ∀ v, (IR.ofSpec g).nbrs v = [] := by
      intro v
      show (nbrsOf g).getD v [] = []
      rw [cnt_getD_nbrsOf]
      split
      · unfold G.nbrs
        apply List.filter_eq_nil_iff.2
        intro u _
        rw [no_edges_of_m_zero g hg hsc.1]
        simp
      · rfl
    have hid := IR.edgeless_identity_leaf (IR.ofSpec g) (Nat.pos_of_ne_zero hn) hE
    have e : IR.tab g.n (fun v => (List.range g.n).idxOf v) = IR.tab (IR.ofSpec g).n (fun v => v) := by
      show IR.tab g.n _ = IR.tab g.n _
      apply tab_congr
      intro v hv
      exact idxOf_of_getElem? List.nodup_range (List.getElem?_range hv)
    rw [e]
    exact hid
  · obtain ⟨p, hp, hperm, hleaf⟩ := hgen hsc
    exact ⟨op0, p, hnew, hp, hperm, hleaf⟩

end CanonF
