import Mamba.Lemmas.C06Hand3
/-! C06: `Star`, `Cycle`. -/
namespace Construct
open GraphSpec


/-! ### Star -/

def starIdxs (n : Nat) : List Nat := (List.range' 1 (n - 1)).map fun i => (i * (i - 1)) / 2

theorem starIdxs_lt (n : Nat) : ∀ k ∈ starIdxs n, k < tri n := by
  intro k hk
  simp only [starIdxs, List.mem_map, List.mem_range'_1] at hk
  obtain ⟨i, hi, rfl⟩ := hk
  have := tri_add_lt (show 0 < i by omega) (show i < n by omega)
  simpa [tri] using this

theorem mem_starIdxs (n u v : Nat) (huv : u < v) (hv : v < n) : tri v + u ∈ starIdxs n ↔ u = 0 := by
  simp only [starIdxs, List.mem_map, List.mem_range'_1, tri_def]
  constructor
  · rintro ⟨i, hi, h⟩
    have := tri_inj (show 0 < i by omega) huv (by simpa using h)
    omega
  · intro h; subst h
    exact ⟨v, by omega, by simp⟩

theorem nodup_starIdxs (n : Nat) : (starIdxs n).Nodup := by
  unfold starIdxs
  rw [List.Nodup, List.pairwise_map]
  refine List.Pairwise.imp_of_mem ?_ (List.nodup_range' (s := 1) (n := n - 1))
  intro a b ha hb hab h
  rw [List.mem_range'_1] at ha hb
  simp only [tri_def] at h
  have := tri_inj (show 0 < a by omega) (show 0 < b by omega) (by simpa using h)
  omega

theorem star_deg (n v : Nat) (hv : v < n) :
    (Families.star n).deg v = if v = 0 then n - 1 else 1 := by
  rw [Families.star, deg_symm n _ v hv]
  by_cases h0 : v = 0
  · subst h0
    have : (List.range n).countP (fun u => u != 0 && (0 == 0 || u == 0)) = (List.range n).countP (fun u => u != 0) := by
      apply List.countP_congr; intro u _; simp
    rw [this, countP_range_bne]; simp [hv]
  · have : (List.range n).countP (fun u => u != v && (v == 0 || u == 0)) = (List.range n).countP (fun u => u == 0) := by
      apply List.countP_congr; intro u _; simp [h0]; omega
    rw [this, countP_range_beq]; simp [h0]; omega

theorem star_ok (n : Nat) : ∃ d, star n = .ok d ∧ d.WF ∧ d.abs = Families.star n := by
  obtain ⟨e, e1, e2, e3⟩ := writeOnes_zeros (tri n) (starIdxs n) (starIdxs_lt n)
  have hdeg : ∃ dg : Array Int, (if n > 0 then (do
      let d ← setAt (Array.replicate n (0 : Int)) 0 ((n : Int) - 1)
      writeAll d (List.range' 1 (n - 1)) 1) else pure (Array.replicate n (0 : Int))) = Outcome.ok dg ∧ dg.size = n ∧
      ∀ v, v < n → dg[v]? = some (((if v = 0 then n - 1 else 1 : Nat)) : Int) := by
    by_cases hn : n > 0
    · have h0 : 0 < (Array.replicate n (0 : Int)).size := by simp; omega
      obtain ⟨dg, g1, g2, g3⟩ := foldlM_setAt (1 : Int) (List.range' 1 (n - 1))
        ((Array.replicate n (0 : Int)).set 0 ((n : Int) - 1)) (by
          intro k hk; rw [List.mem_range'_1] at hk; simp; omega)
      refine ⟨dg, ?_, by simpa using g2, ?_⟩
      · simp only [hn, ↓reduceIte, setAt_ok _ h0, Outcome.bind_ok, writeAll]; exact g1
      · intro v hv
        rw [g3 v]
        simp only [List.mem_range'_1, Array.size_set, Array.size_replicate]
        by_cases c1 : v = 0
        · subst c1; simp [hn]
        · have : 1 ≤ v ∧ v < 1 + (n - 1) := by omega
          simp [this, hv, c1]
    · exact ⟨Array.replicate n 0, by simp [hn], by simp, by intro v hv; omega⟩
  obtain ⟨dg, g1, g2, g3⟩ := hdeg
  refine ⟨⟨n, if n == 0 then 0 else (n : Int) - 1, dg, e⟩, ?_, ?_⟩
  · have e1' : writeOnes (zeros (n * (n - 1) / 2)) ((List.range' 1 (n - 1)).map fun i => (i * (i - 1)) / 2) = .ok e := e1
    simp only [star]
    rw [e1']
    simp only [Outcome.bind_ok]
    rw [g1]; rfl
  · let d : Dense := ⟨n, if n == 0 then 0 else (n : Int) - 1, dg, e⟩
    have hs : d.edges.size = tri d.n := e2
    have habs : d.abs = Families.star n := by
      apply abs_eq_symm d hs
      intro u v huv hv
      have hv' : v < n := hv
      have h2 : (v == 0) = false := by simp; omega
      simp only [d, e3, h2, Bool.or_false]
      rw [Bool.eq_iff_iff]; simp [mem_starIdxs n u v huv hv']
    refine ⟨⟨e2, g2, ?_, ?_⟩, habs⟩
    · show (if n == 0 then 0 else (n : Int) - 1) = (d.abs.m : Int)
      rw [m_of_idxs d hs (starIdxs n) (nodup_starIdxs n) (starIdxs_lt n) e3]
      simp only [starIdxs, List.length_map, List.length_range']
      by_cases hn : n = 0
      · subst hn; simp
      · simp [hn]; omega
    · intro v hv
      show dg[v]? = some ((d.abs.deg v : Nat) : Int)
      rw [habs, star_deg n v hv, g3 v hv]



/-! ### Cycle -/

theorem succ_mod (x n : Nat) (hx : x < n) : (x + 1) % n = if x + 1 = n then 0 else x + 1 := by
  by_cases h : x + 1 = n
  · simp [h]
  · simp [h, Nat.mod_eq_of_lt (show x + 1 < n by omega)]

theorem writeOnes_snoc (a : Array Nat) (l : List Nat) (c : Nat) :
    writeOnes a (l ++ [c]) = writeOnes a l >>= fun a' => setAt a' c 1 := by
  induction l generalizing a with
  | nil =>
    simp only [writeOnes, List.nil_append, List.foldlM_cons, List.foldlM_nil, Outcome.pure_eq, Outcome.bind_ok]
    cases h : setAt a c 1 <;> rfl
  | cons x t ih =>
    simp only [writeOnes, List.cons_append, List.foldlM_cons] at ih ⊢
    cases h : setAt a x 1 with
    | ok a1 => simp only [Outcome.bind_ok]; exact ih a1
    | panic => rfl
    | outOfFuel => rfl

def cycleIdxs (n : Nat) : List Nat := pathIdxs n ++ [((n - 1) * (n - 2)) / 2]

theorem cycle_last (n : Nat) : ((n - 1) * (n - 2)) / 2 = tri (n - 1) + 0 := by
  simp [tri, Nat.sub_sub]

theorem cycleIdxs_lt (n : Nat) (hn : 3 ≤ n) : ∀ k ∈ cycleIdxs n, k < tri n := by
  intro k hk
  simp only [cycleIdxs, List.mem_append, List.mem_singleton] at hk
  rcases hk with hk | hk
  · exact pathIdxs_lt n k hk
  · rw [hk, cycle_last]; exact tri_add_lt (by omega) (by omega)

theorem mem_cycleIdxs (n u v : Nat) (hn : 3 ≤ n) (huv : u < v) (hv : v < n) :
    tri v + u ∈ cycleIdxs n ↔ (u + 1 = v ∨ (u = 0 ∧ v = n - 1)) := by
  simp only [cycleIdxs, List.mem_append, List.mem_singleton, mem_pathIdxs n u v huv hv, cycle_last]
  constructor
  · rintro (h | h)
    · exact Or.inl h
    · have := tri_inj huv (show 0 < n - 1 by omega) h
      exact Or.inr ⟨this.1, this.2⟩
  · rintro (h | ⟨h1, h2⟩)
    · exact Or.inl h
    · subst h1 h2; exact Or.inr rfl

theorem nodup_cycleIdxs (n : Nat) (hn : 3 ≤ n) : (cycleIdxs n).Nodup := by
  unfold cycleIdxs
  rw [List.nodup_append]
  refine ⟨nodup_pathIdxs n, by simp, ?_⟩
  intro a ha b hb hab
  simp only [List.mem_singleton] at hb
  subst hb hab
  rw [cycle_last, mem_pathIdxs n 0 (n - 1) (by omega) (by omega)] at ha
  omega

theorem cycle_deg (n v : Nat) (hn : 3 ≤ n) (hv : v < n) : (Families.cycle n).deg v = 2 := by
  rw [Families.cycle, deg_symm n _ v hv]
  have : (List.range n).countP (fun u => u != v && ((v + 1) % n == u || (u + 1) % n == v)) =
      (List.range n).countP (fun u => (u == if v + 1 = n then 0 else v + 1) || (u == if v = 0 then n - 1 else v - 1)) := by
    apply List.countP_congr
    intro u hu
    have hu' : u < n := List.mem_range.mp hu
    rw [succ_mod v n hv, succ_mod u n hu']
    simp only [bne_iff_ne, ne_eq, Bool.and_eq_true, decide_eq_true_eq, Bool.or_eq_true, beq_iff_eq]
    split_ifs <;> omega
  rw [this, countP_or_disjoint _ _ _ (by intro u _; simp; split_ifs <;> omega), countP_range_beq, countP_range_beq]
  split_ifs <;> omega

theorem cycle_ok (n : Nat) (hn : 3 ≤ n) : ∃ d, cycle n = .ok d ∧ d.WF ∧ d.abs = Families.cycle n := by
  obtain ⟨e, e1, e2, e3⟩ := writeOnes_zeros (tri n) (cycleIdxs n) (cycleIdxs_lt n hn)
  obtain ⟨dg, g1, g2, g3⟩ := foldlM_setAt (2 : Int) (List.range n) (Array.replicate n (0 : Int)) (by simp)
  refine ⟨⟨n, n, dg, e⟩, ?_, ?_⟩
  · have e1' : (writeOnes (zeros (n * (n - 1) / 2)) ((List.range (n - 1)).map fun i => ((i + 1) * i) / 2 + i) >>=
        fun a => setAt a (((n - 1) * (n - 2)) / 2) 1) = .ok e := by
      rw [← e1]; exact (writeOnes_snoc _ _ _).symm
    have hn' : ¬ n < 3 := by omega
    simp only [cycle, hn', ↓reduceIte, Array.size_replicate, writeAll]
    cases h : writeOnes (zeros (n * (n - 1) / 2)) ((List.range (n - 1)).map fun i => ((i + 1) * i) / 2 + i) with
    | ok a1 =>
      rw [h] at e1'
      simp only [Outcome.bind_ok] at e1' ⊢
      rw [e1']; simp only [Outcome.bind_ok]; rw [g1]; rfl
    | panic => rw [h] at e1'; cases e1'
    | outOfFuel => rw [h] at e1'; cases e1'
  · let d : Dense := ⟨n, n, dg, e⟩
    have hs : d.edges.size = tri d.n := e2
    have habs : d.abs = Families.cycle n := by
      apply abs_eq_symm d hs
      intro u v huv hv
      have hv' : v < n := hv
      have hu' : u < n := by omega
      simp only [d, e3]
      rw [Bool.eq_iff_iff, succ_mod u n hu', succ_mod v n hv']
      simp only [decide_eq_true_eq, mem_cycleIdxs n u v hn huv hv', Bool.or_eq_true, beq_iff_eq]
      split_ifs <;> omega
    refine ⟨⟨e2, by simpa using g2, ?_, ?_⟩, habs⟩
    · show (n : Int) = (d.abs.m : Int)
      rw [m_of_idxs d hs (cycleIdxs n) (nodup_cycleIdxs n hn) (cycleIdxs_lt n hn) e3]
      simp only [cycleIdxs, pathIdxs, List.length_append, List.length_map, List.length_range, List.length_singleton]
      omega
    · intro v hv
      have hv' : v < n := hv
      show dg[v]? = some ((d.abs.deg v : Nat) : Int)
      rw [habs, cycle_deg n v hn hv', g3 v]
      simp [hv']


end Construct
