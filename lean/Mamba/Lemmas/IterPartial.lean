import Mathlib.Data.List.Perm.Basic
import Mamba.Lemmas.IterGeneric
import Mamba.Model.IterComb
import Mamba.Model.IterPerm
/-!
Partial results for the iterators whose full enumeration theorem is not proved: exhaustion is absorbing
(`MultisetCombinations`, `TopologicalSorts`, `RestrictedPrefixPermutations`, `PermutationsByPattern`, `Permutations`),
and every value yielded by Heap's `Permutations(n)` is a rearrangement of `0..n-1`.
-/
namespace Iter

/-! ### Exhaustion is absorbing for the iterators guarded by a `done` flag -/

theorem MSComb.next_false_done (s s' : MSComb) (h : MSComb.next s = .ok (s', false)) : s'.done = true := by
  unfold MSComb.next at h
  by_cases hd : s.done = true
  · simp [hd] at h; rw [← h]; exact hd
  · simp only [hd] at h
    cases h0 : MSComb.next0 s with
    | ok r =>
      obtain ⟨s1, b⟩ := r
      simp only [h0, Outcome.bind_ok] at h
      cases b with
      | false =>
        simp at h
        rw [← h]
      | true =>
        simp only [if_true] at h
        cases hf : MSComb.freqBuf s1 with
        | ok fr =>
          simp only [hf, Outcome.bind_ok] at h
          cases hsc : MSComb.scatter (s1.state.getD []) s1.all 0 0 fr with
          | ok fr2 => simp [hsc] at h
          | panic => simp [hsc] at h
          | outOfFuel => simp [hsc] at h
        | panic => simp [hf] at h
        | outOfFuel => simp [hf] at h
    | panic => simp [h0] at h
    | outOfFuel => simp [h0] at h

theorem MSComb.absorbing (s s' : MSComb) (h : MSComb.next s = .ok (s', false)) :
    ∀ k, extras MSComb.it k s' = .ok (List.replicate k none) := by
  intro k
  apply extras_dead MSComb.it (fun s => s.done = true)
  · intro s hs; exact ⟨s, by simp [MSComb.it, MSComb.next, hs], hs⟩
  · exact MSComb.next_false_done s s' h

end Iter
namespace Iter

theorem Topo.next_false_dead (less : Int → Int → Bool) (s s' : Topo) (h : Topo.next less s = .ok (s', false)) :
    s'.first = false ∧ s'.done = true := by
  unfold Topo.next at h
  by_cases hf : s.first = true
  · simp [hf] at h
  · simp only [hf] at h
    by_cases hd : s.done = true
    · simp [hd] at h; rw [← h]; exact ⟨by simp [hf], hd⟩
    · simp only [hd] at h
      cases h0 : Topo.scan less s.n.toNat s.state s.inv with
      | ok r =>
        obtain ⟨st, inv, b⟩ := r
        simp only [h0, Outcome.bind_ok] at h
        cases b <;> simp at h
        rw [← h]; exact ⟨by simp, rfl⟩
      | panic => simp [h0] at h
      | outOfFuel => simp [h0] at h

theorem Topo.absorbing (less : Int → Int → Bool) (s s' : Topo) (h : Topo.next less s = .ok (s', false)) :
    ∀ k, extras (Topo.it less) k s' = .ok (List.replicate k none) := by
  intro k
  apply extras_dead (Topo.it less) (fun s => s.first = false ∧ s.done = true)
  · intro s hs; exact ⟨s, by simp [Topo.it, Topo.next, hs.1, hs.2], hs⟩
  · exact Topo.next_false_dead less s s' h

theorem RPP.next_false_dead (f : List Int → Bool) (s s' : RPP) (h : RPP.next f s = .ok (s', false)) :
    s'.a ≠ none ∧ s'.done = true := by
  unfold RPP.next at h
  cases ha : s.a with
  | none =>
    simp only [ha] at h
    cases hm : make s.n with
    | ok a =>
      simp only [hm, Outcome.bind_ok] at h
      by_cases hn : s.n = 0
      · simp [hn] at h
      · simp only [beq_iff_eq, hn, if_false] at h
        cases hr : RPP.run f s.n (RPP.fuel s.n) .x2 0 0 0 a s.l s.u with
        | ok r =>
          obtain ⟨a', l, u, b⟩ := r
          simp only [hr, Outcome.bind_ok, Outcome.pure_eq, Outcome.ok.injEq, Prod.mk.injEq] at h
          obtain ⟨h1, h2⟩ := h
          subst h2; rw [← h1]; simp
        | panic => simp [hr] at h
        | outOfFuel => simp [hr] at h
    | panic => simp [hm] at h
    | outOfFuel => simp [hm] at h
  | some a =>
    simp only [ha] at h
    by_cases hd : s.done = true
    · simp [hd] at h; rw [← h]; exact ⟨by simp [ha], hd⟩
    · simp only [hd] at h
      cases hr : RPP.run f s.n (RPP.fuel s.n) .x6 (s.n - 1) 0 0 a s.l s.u with
      | ok r =>
        obtain ⟨a', l, u, b⟩ := r
        simp only [hr, Outcome.bind_ok, Outcome.pure_eq, Outcome.ok.injEq, Prod.mk.injEq, Bool.false_eq_true,
          if_false] at h
        obtain ⟨h1, h2⟩ := h
        subst h2; rw [← h1]; simp
      | panic => simp [hr] at h
      | outOfFuel => simp [hr] at h

theorem RPP.absorbing (f : List Int → Bool) (s s' : RPP) (h : RPP.next f s = .ok (s', false)) :
    ∀ k, extras (RPP.it f) k s' = .ok (List.replicate k none) := by
  intro k
  apply extras_dead (RPP.it f) (fun s => s.a ≠ none ∧ s.done = true)
  · intro s hs
    refine ⟨s, ?_, hs⟩
    obtain ⟨h1, h2⟩ := hs
    cases ha : s.a with
    | none => exact absurd ha h1
    | some a => simp [RPP.it, RPP.next, ha, h2]
  · exact RPP.next_false_dead f s s' h

end Iter
namespace Iter

theorem Pat.run_false (f : List Int → Bool) (n : Int) : ∀ (fuel : Nat) (lbl : Pat.Lbl) (a a' : Sl),
    Pat.run f n fuel lbl a = .ok (a', false) → a' = [] := by
  intro fuel
  induction fuel with
  | zero => intro lbl a a' h; simp [Pat.run] at h
  | succ fuel ih =>
    intro lbl a a' h
    cases lbl with
    | x1 => simp only [Pat.run] at h; exact ih _ _ _ h
    | x2 =>
      simp only [Pat.run] at h
      split at h
      · split at h
        · simp at h
        · exact ih _ _ _ h
      · exact ih _ _ _ h
    | x3 =>
      simp only [Pat.run] at h
      split at h
      · next hl =>
        simp only [Outcome.ok.injEq, Prod.mk.injEq, and_true] at h
        subst h
        simpa using hl
      · cases hg : get a ((a.length : Int) - 1) with
        | ok x =>
          simp only [hg, Outcome.bind_ok] at h
          split at h
          · exact ih _ _ _ h
          · cases hg2 : get (Pat.bump x a) (((Pat.bump x a).length : Int) - 1) with
            | ok y =>
              simp only [hg2, Outcome.bind_ok] at h
              cases hs : set (Pat.bump x a) (((Pat.bump x a).length : Int) - 1) (y - 1) with
              | ok a2 => simp only [hs, Outcome.bind_ok] at h; exact ih _ _ _ h
              | panic => simp [hs] at h
              | outOfFuel => simp [hs] at h
            | panic => simp [hg2] at h
            | outOfFuel => simp [hg2] at h
        | panic => simp [hg] at h
        | outOfFuel => simp [hg] at h

theorem Pat.next_false_first (f : List Int → Bool) (s s' : Pat)
    (h : (if s.n < 0 then Outcome.panic
      else if s.n == 0 then Outcome.ok (({ s with a := some [], first := false } : Pat), true)
      else do
        let (a, b) ← Pat.run f s.n (Pat.fuel s.n) .x1 []
        pure (({ s with a := some a, first := false } : Pat), b)) = .ok (s', false)) :
    s'.a = some [] ∧ s'.first = false := by
  split at h
  · simp at h
  · split at h
    · simp at h
    · cases hr : Pat.run f s.n (Pat.fuel s.n) .x1 [] with
      | ok r =>
        obtain ⟨a, b⟩ := r
        simp only [hr, Outcome.bind_ok, Outcome.pure_eq, Outcome.ok.injEq, Prod.mk.injEq] at h
        obtain ⟨h1, h2⟩ := h
        subst h2
        rw [← h1, Pat.run_false f s.n _ _ _ _ hr]
        exact ⟨rfl, rfl⟩
      | panic => simp [hr] at h
      | outOfFuel => simp [hr] at h

theorem Pat.next_false_dead (f : List Int → Bool) (s s' : Pat) (h : Pat.next f s = .ok (s', false)) :
    s'.a = some [] ∧ s'.first = false := by
  unfold Pat.next at h
  cases ha : s.a with
  | none =>
    simp only [ha, if_true] at h
    exact Pat.next_false_first f s s' h
  | some x =>
    simp only [ha] at h
    by_cases hf : s.first = true
    · simp only [hf, if_true] at h
      exact Pat.next_false_first f s s' h
    · simp only [hf, Bool.false_eq_true, if_false] at h
      cases hr : Pat.run f s.n (Pat.fuel s.n) .x3 x with
      | ok r =>
        obtain ⟨a, b⟩ := r
        simp only [Option.getD_some, hr, Outcome.bind_ok, Outcome.pure_eq, Outcome.ok.injEq, Prod.mk.injEq] at h
        obtain ⟨h1, h2⟩ := h
        subst h2
        rw [← h1, Pat.run_false f s.n _ _ _ _ hr]
        exact ⟨rfl, by simp⟩
      | panic => simp [hr] at h
      | outOfFuel => simp [hr] at h

theorem Pat.absorbing (f : List Int → Bool) (s s' : Pat) (h : Pat.next f s = .ok (s', false)) :
    ∀ k, extras (Pat.it f) k s' = .ok (List.replicate k none) := by
  intro k
  apply extras_dead (Pat.it f) (fun s => s.a = some [] ∧ s.first = false)
  · rintro s ⟨h1, h2⟩
    refine ⟨s, ?_, h1, h2⟩
    obtain ⟨m, hm⟩ : ∃ m, Pat.fuel s.n = m + 1 := ⟨_, rfl⟩
    cases s with
    | mk n a first =>
      simp only at h1 h2 hm
      subst h1 h2
      simp [Pat.it, Pat.next, hm, Pat.run]
  · exact Pat.next_false_dead f s s' h

end Iter
namespace Iter

/-- an invariant of the state carries over to all collected values -/
theorem collect_inv {σ α : Type} (it : It σ α) (Inv : σ → Prop) (P : α → Prop)
    (hnext : ∀ s s' b, Inv s → it.next s = .ok (s', b) → Inv s')
    (hval : ∀ s s' v, Inv s → it.value s = .ok (s', v) → Inv s' ∧ P v) :
    ∀ (fuel : Nat) (s : σ) (acc : List α), Inv s → (∀ x ∈ acc, P x) →
      (∀ x ∈ (collect it fuel s acc).1, P x) ∧
      ((collect it fuel s acc).2.2 = .exhausted →
        ∃ sp, Inv sp ∧ it.next sp = .ok ((collect it fuel s acc).2.1, false)) := by
  intro fuel
  induction fuel with
  | zero => intro s acc _ hacc; exact ⟨by simpa [collect] using hacc, by simp [collect]⟩
  | succ fuel ih =>
    intro s acc hs hacc
    cases hn : it.next s with
    | ok r =>
      obtain ⟨s1, b⟩ := r
      cases b with
      | true =>
        have h1 := hnext s s1 true hs hn
        cases hv : it.value s1 with
        | ok r2 =>
          obtain ⟨s2, v⟩ := r2
          obtain ⟨h2, hp⟩ := hval s1 s2 v h1 hv
          have e : collect it (fuel + 1) s acc = collect it fuel s2 (v :: acc) := by simp [collect, hn, hv]
          rw [e]
          exact ih s2 (v :: acc) h2 (by intro x hx; rcases List.mem_cons.mp hx with rfl | h; exact hp; exact hacc x h)
        | panic =>
          have e : collect it (fuel + 1) s acc = (acc, s1, .panic) := by simp [collect, hn, hv]
          rw [e]; exact ⟨hacc, by simp⟩
        | outOfFuel =>
          have e : collect it (fuel + 1) s acc = (acc, s1, .outOfFuel) := by simp [collect, hn, hv]
          rw [e]; exact ⟨hacc, by simp⟩
      | false =>
        have e : collect it (fuel + 1) s acc = (acc, s1, .exhausted) := by simp [collect, hn]
        rw [e]; exact ⟨hacc, fun _ => ⟨s, hs, hn⟩⟩
    | panic =>
      have e : collect it (fuel + 1) s acc = (acc, s, .panic) := by simp [collect, hn]
      rw [e]; exact ⟨hacc, by simp⟩
    | outOfFuel =>
      have e : collect it (fuel + 1) s acc = (acc, s, .outOfFuel) := by simp [collect, hn]
      rw [e]; exact ⟨hacc, by simp⟩

theorem partial_swap_perm_aux (a : List Int) (i j : Nat) (hi : i < a.length) (hj : j < a.length) :
    ((a.set i a[j]).set j a[i]).Perm a := by
  rw [List.perm_iff_count]
  intro b
  rw [List.count_set (by simpa using hj), List.count_set hi, List.getElem_set]
  have h1 : a[i] = b → 0 < List.count b a := fun h => List.count_pos_iff.mpr (h ▸ List.getElem_mem hi)
  have h2 : a[j] = b → 0 < List.count b a := fun h => List.count_pos_iff.mpr (h ▸ List.getElem_mem hj)
  by_cases e1 : a[i] = b <;> by_cases e2 : a[j] = b <;> by_cases e3 : i = j <;>
    simp [e1, e2, e3] <;> (try subst e3) <;> (try simp_all)

theorem partial_get_ok {a : Sl} {i v : Int} (h : get a i = .ok v) :
    0 ≤ i ∧ ∃ hl : i.toNat < a.length, a[i.toNat] = v := by
  unfold get at h
  split at h
  · simp at h
  · next hi =>
    split at h
    · next v' hv =>
      obtain ⟨hl, e⟩ := List.getElem?_eq_some_iff.mp hv
      simp only [Outcome.ok.injEq] at h
      exact ⟨by omega, hl, by rw [e, h]⟩
    · simp at h

theorem partial_set_ok {a a' : Sl} {i v : Int} (h : set a i v = .ok a') :
    0 ≤ i ∧ i.toNat < a.length ∧ a' = a.set i.toNat v := by
  unfold set at h
  split at h
  · simp at h
  · split at h
    · next hl => simp only [Outcome.ok.injEq] at h; exact ⟨by omega, hl, h.symm⟩
    · simp at h

theorem partial_swap_perm {a a' : Sl} {x y : Int} (h : swap a x y = .ok a') : a'.Perm a := by
  unfold swap at h
  cases hx : get a x with
  | ok vx =>
    cases hy : get a y with
    | ok vy =>
      simp only [hx, hy, Outcome.bind_ok] at h
      cases h1 : set a x vy with
      | ok a1 =>
        simp only [h1, Outcome.bind_ok] at h
        obtain ⟨_, hxl, ex⟩ := partial_get_ok hx
        obtain ⟨_, hyl, ey⟩ := partial_get_ok hy
        obtain ⟨_, _, e1⟩ := partial_set_ok h1
        obtain ⟨_, _, e2⟩ := partial_set_ok h
        subst e1 e2 ex ey
        exact partial_swap_perm_aux a x.toNat y.toNat hxl hyl
      | panic => simp [h1] at h
      | outOfFuel => simp [h1] at h
    | panic => simp [hx, hy] at h
    | outOfFuel => simp [hx, hy] at h
  | panic => simp [hx] at h
  | outOfFuel => simp [hx] at h

end Iter

namespace Iter

/-- what one run of the `for p.i < p.n` loop of Heap's algorithm preserves / establishes -/
theorem Heap.loop_spec : ∀ (fuel : Nat) (s s' : Heap) (b : Bool), Heap.loop fuel s = .ok (s', b) →
    s'.p.Perm s.p ∧ s'.n = s.n ∧ (b = true → s'.i = 0) ∧ (b = false → s.i ≤ s'.i ∧ ¬ s'.i < s'.n) := by
  intro fuel
  induction fuel with
  | zero => intro s s' b h; simp [Heap.loop] at h
  | succ fuel ih =>
    intro s s' b h
    unfold Heap.loop at h
    split at h
    · cases hc : get s.c s.i with
      | ok ci =>
        simp only [hc, Outcome.bind_ok] at h
        split at h
        · -- a swap, then return true
          have key : ∀ x y, (do
                let p ← swap s.p x y
                let c ← set s.c s.i (ci + 1)
                pure (({ s with p := p, c := c, i := 0 } : Heap), true)) = Outcome.ok (s', b) →
              s'.p.Perm s.p ∧ s'.n = s.n ∧ (b = true → s'.i = 0) ∧ (b = false → s.i ≤ s'.i ∧ ¬ s'.i < s'.n) := by
            intro x y h
            cases hp : swap s.p x y with
            | ok p' =>
              simp only [hp, Outcome.bind_ok] at h
              cases hs : set s.c s.i (ci + 1) with
              | ok c' =>
                simp only [hs, Outcome.bind_ok, Outcome.pure_eq, Outcome.ok.injEq, Prod.mk.injEq] at h
                obtain ⟨h1, h2⟩ := h
                subst h1 h2
                exact ⟨partial_swap_perm hp, rfl, fun _ => rfl, fun hb => by simp at hb⟩
              | panic => simp [hs] at h
              | outOfFuel => simp [hs] at h
            | panic => simp [hp] at h
            | outOfFuel => simp [hp] at h
          split at h
          · exact key _ _ h
          · exact key _ _ h
        · cases hs : set s.c s.i 0 with
          | ok c' =>
            simp only [hs, Outcome.bind_ok] at h
            obtain ⟨h1, h2, h3, h4⟩ := ih _ s' b h
            refine ⟨h1, h2, h3, fun hb => ?_⟩
            obtain ⟨h5, h6⟩ := h4 hb
            simp only at h5
            exact ⟨by omega, h6⟩
          | panic => simp [hs] at h
          | outOfFuel => simp [hs] at h
      | panic => simp [hc] at h
      | outOfFuel => simp [hc] at h
    · next hlt =>
      simp only [Outcome.ok.injEq, Prod.mk.injEq] at h
      obtain ⟨h1, h2⟩ := h
      subst h1 h2
      exact ⟨List.Perm.refl _, rfl, fun hb => by simp at hb, fun _ => ⟨Int.le_refl _, hlt⟩⟩

/-- invariant of Heap's iterator for `Permutations(n)`: the array is a rearrangement of `0..n-1` -/
def Heap.Inv (base : List Int) (s : Heap) : Prop := s.p.Perm base ∧ -1 ≤ s.i ∧ 0 ≤ s.n

/-- exhausted states -/
def Heap.Dead (s : Heap) : Prop := 0 ≤ s.i ∧ ¬ s.i < s.n

theorem Heap.next_inv (base : List Int) (s s' : Heap) (b : Bool) (hi : Heap.Inv base s)
    (h : Heap.next s = .ok (s', b)) : Heap.Inv base s' ∧ (b = false → Heap.Dead s') := by
  obtain ⟨hp, h1, h2⟩ := hi
  unfold Heap.next at h
  split at h
  · next he =>
    simp only [Outcome.ok.injEq, Prod.mk.injEq] at h
    obtain ⟨e1, e2⟩ := h
    subst e1 e2
    have : s.i = s.n := by simpa using he
    exact ⟨⟨hp, h1, h2⟩, fun _ => ⟨by omega, by omega⟩⟩
  · split at h
    · simp only [Outcome.ok.injEq, Prod.mk.injEq] at h
      obtain ⟨e1, e2⟩ := h
      subst e1 e2
      exact ⟨⟨hp, by simp; omega, h2⟩, fun hb => by simp at hb⟩
    · next hne1 hne2 =>
      have hi0 : s.i ≠ -1 := by simpa using hne2
      obtain ⟨g1, g2, g3, g4⟩ := Heap.loop_spec _ s s' b h
      refine ⟨⟨g1.trans hp, ?_, by omega⟩, fun hb => ?_⟩
      · cases b with
        | true => have := g3 rfl; omega
        | false => have := (g4 rfl).1; omega
      · obtain ⟨g5, g6⟩ := g4 hb
        exact ⟨by omega, g6⟩

theorem Heap.next_dead (s : Heap) (h : Heap.Dead s) : Heap.next s = .ok (s, false) := by
  obtain ⟨h0, h1⟩ := h
  unfold Heap.next
  by_cases he : s.i = s.n
  · simp [he]
  · have hne : s.i ≠ -1 := by omega
    simp only [beq_iff_eq, he, hne, if_false]
    simp [Heap.loop, h1]

theorem Heap.init_inv (n : Int) (s0 : Heap) (h : Heap.init n = .ok s0) :
    Heap.Inv ((List.range n.toNat).map Int.ofNat) s0 := by
  unfold Heap.init iota make at h
  by_cases hn : n < 0
  · simp [hn] at h
  · simp only [hn, if_false, Outcome.bind_ok, Outcome.pure_eq, Outcome.ok.injEq] at h
    subst h
    exact ⟨List.Perm.refl _, by simp, by simp; omega⟩

/-- Heap's `Permutations(n)`, what is proved: every value yielded is a rearrangement of `0, …, n-1`, and once
`Next` has returned false it returns false forever. -/
theorem Heap.outputs_lemma (n : Int) (s0 : Heap) (h : Heap.init n = .ok s0) (bound : Nat) :
    (∀ x ∈ (outputs Heap.it bound s0).1, x.Perm ((List.range n.toNat).map Int.ofNat)) ∧
    ((outputs Heap.it bound s0).2.2 = .exhausted →
      ∀ k, extras Heap.it k (outputs Heap.it bound s0).2.1 = .ok (List.replicate k none)) := by
  have hinv := Heap.init_inv n s0 h
  obtain ⟨c1, c2⟩ := collect_inv Heap.it (Heap.Inv ((List.range n.toNat).map Int.ofNat))
    (fun x => x.Perm ((List.range n.toNat).map Int.ofNat))
    (fun s s' b hi hn => (Heap.next_inv _ s s' b hi hn).1)
    (by
      intro s s' v hi hv
      simp only [Heap.it, Outcome.ok.injEq, Prod.mk.injEq] at hv
      obtain ⟨e1, e2⟩ := hv
      subst e1 e2
      exact ⟨hi, hi.1⟩)
    bound s0 [] hinv (by simp)
  refine ⟨?_, ?_⟩
  · intro x hx
    simp only [outputs, List.mem_reverse] at hx
    exact c1 x hx
  · intro hst k
    obtain ⟨sp, hsp, hnx⟩ := c2 hst
    have hd := (Heap.next_inv _ sp _ false hsp hnx).2 rfl
    exact extras_dead Heap.it Heap.Dead (fun s hs => ⟨s, Heap.next_dead s hs, hs⟩) k _ hd

end Iter
