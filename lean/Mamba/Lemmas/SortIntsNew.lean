import Mamba.Lemmas.SortIntsBasic
/-! Lemmas for C17: `NewSortedInts` (the in-place de-duplication loop). -/
set_option linter.unusedTactic false
set_option linter.unreachableTactic false
set_option linter.unnecessarySeqFocus false
namespace SortInts

theorem sortInts_perm (l : List Int) : (sortInts l).Perm l := List.mergeSort_perm l _

theorem sortInts_sorted (l : List Int) : (sortInts l).Pairwise (· ≤ ·) := by
  have := List.pairwise_mergeSort (le := fun a b : Int => decide (a ≤ b))
    (by intro a b c; simp; omega) (by intro a b; simp; omega) l
  unfold sortInts
  simpa using this

theorem mem_sortInts (l : List Int) (x : Int) : x ∈ sortInts l ↔ x ∈ l := (sortInts_perm l).mem_iff

theorem length_sortInts (l : List Int) : (sortInts l).length = l.length := (sortInts_perm l).length_eq

theorem getI_append_right (P Q : List Int) (i : Nat) (h : P.length ≤ i) : getI (P ++ Q) (i : Int) = Q[i - P.length]? := by
  rw [getI_natCast, List.getElem?_append_right h]

theorem dedupLoop_spec (t0 : List Int) (h0 : t0.Pairwise (· ≤ ·)) :
    ∀ (k i nr : Nat) (P : List Int), 1 ≤ i → nr < i → i + k = t0.length → P.length = i - nr → SS P →
      (∀ y, y ∈ P ↔ y ∈ t0.take i) → P.getLast? = t0[i-1]? →
      ∃ P' nr', dedupLoop k (P ++ t0.drop (i - nr)) i nr = .ok (P' ++ t0.drop (t0.length - nr'), (nr' : Int)) ∧
        nr' < t0.length ∧ P'.length = t0.length - nr' ∧ SS P' ∧ ∀ y, y ∈ P' ↔ y ∈ t0 := by
  intro k
  induction k with
  | zero =>
    intro i nr P hi hnr hk hlen hss hmem _
    have : i = t0.length := by omega
    subst this
    refine ⟨P, nr, by simp [dedupLoop], by omega, hlen, hss, ?_⟩
    simpa using hmem
  | succ k ih =>
    intro i nr P hi hnr hk hlen hss hmem hlast
    have hilt : i < t0.length := by omega
    -- the two reads
    have hc : getI (P ++ t0.drop (i - nr)) (i : Int) = some t0[i] := by
      rw [getI_append_right _ _ _ (by omega), hlen, List.getElem?_drop]
      have : i - nr + (i - (i - nr)) = i := by omega
      rw [this]; simp [hilt] <;> omega
    have hp : getI (P ++ t0.drop (i - nr)) ((i : Int) - 1) = some t0[i-1] := by
      have e : ((i : Int) - 1) = ((i - 1 : Nat) : Int) := by omega
      rw [e]
      by_cases hz : nr = 0
      · subst hz
        rw [getI_natCast, List.getElem?_append_left (by omega)]
        have : P[i - 1]? = P.getLast? := by
          rw [List.getLast?_eq_getElem?, hlen]; simp
        rw [this, hlast, List.getElem?_eq_getElem]
      · rw [getI_append_right _ _ _ (by omega), hlen, List.getElem?_drop]
        have : i - nr + (i - 1 - (i - nr)) = i - 1 := by omega
        rw [this]; simp <;> omega
    have hle : t0[i-1] ≤ t0[i] := List.pairwise_iff_getElem.mp h0 (i-1) i (by omega) hilt (by omega)
    have hmem_last : t0[i-1] ∈ t0.take i := by
      rw [List.mem_take_iff_getElem]; exact ⟨i-1, by omega, rfl⟩
    have htake : ∀ y, y ∈ t0.take (i+1) ↔ y ∈ t0.take i ∨ y = t0[i] := by
      intro y; rw [List.take_succ_eq_append_getElem hilt]; simp only [List.mem_append, List.mem_singleton]
    unfold dedupLoop
    simp only [hp, hc]
    by_cases heq : t0[i-1] = t0[i]
    · simp only [heq, if_true]
      have e1 : ((i : Int) + 1) = ((i + 1 : Nat) : Int) := by omega
      have e2 : ((nr : Int) + 1) = ((nr + 1 : Nat) : Int) := by omega
      have e3 : i - nr = (i + 1) - (nr + 1) := by omega
      rw [e1, e2, e3]
      apply ih (i+1) (nr+1) P (by omega) (by omega) (by omega) (by omega) hss
      · intro y; rw [htake, hmem]
        constructor
        · intro h; exact Or.inl h
        · rintro (h | h)
          · exact h
          · rw [h, ← heq]; exact hmem_last
      · rw [hlast]; simp only [Nat.add_sub_cancel]
        rw [List.getElem?_eq_getElem (by omega), List.getElem?_eq_getElem hilt, heq]
    · simp only [heq, if_false]
      have hset : setI (P ++ t0.drop (i - nr)) ((i : Int) - (nr : Int)) t0[i]
          = some ((P ++ [t0[i]]) ++ t0.drop (i + 1 - nr)) := by
        have e : ((i : Int) - (nr : Int)) = ((i - nr : Nat) : Int) := by omega
        rw [e]
        simp only [setI]
        have : (0 : Int) ≤ ((i - nr : Nat) : Int) ∧ ((i - nr : Nat) : Int) < ((P ++ t0.drop (i - nr)).length : Int) := by
          simp; omega
        simp only [this, and_self, if_true, Int.toNat_natCast]
        rw [List.set_append_right _ _ (by omega), hlen]
        simp only [Nat.sub_self]
        have hd : t0.drop (i - nr) = t0[i - nr]'(by omega) :: t0.drop (i - nr + 1) := by
          rw [List.drop_eq_getElem_cons]
        rw [hd, List.set_cons_zero]
        have e5 : i - nr + 1 = i + 1 - nr := by omega
        rw [e5]
        simp
      rw [hset]
      simp only
      have e1 : ((i : Int) + 1) = ((i + 1 : Nat) : Int) := by omega
      rw [e1]
      have hPlast : ∀ y ∈ P, y ≤ t0[i-1] := by
        intro y hy
        have hy' := (hmem y).mp hy
        rw [List.mem_take_iff_getElem] at hy'
        obtain ⟨j, hj, rfl⟩ := hy'
        rcases Nat.eq_or_lt_of_le (show j ≤ i - 1 by omega) with h | h
        · subst h; exact Int.le_refl _
        · exact List.pairwise_iff_getElem.mp h0 j (i-1) (by omega) (by omega) h
      apply ih (i+1) nr (P ++ [t0[i]]) (by omega) (by omega) (by omega) (by simp; omega)
      · rw [SS, List.pairwise_append]
        refine ⟨hss, by simp, ?_⟩
        intro a ha b hb
        simp at hb; subst hb
        have := hPlast a ha; omega
      · intro y; rw [htake]; simp [hmem]
      · simp [hilt]

theorem newSortedInts_result (x : List Int) :
    ∃ r, newSortedInts x = .ok r ∧ SS r ∧ ∀ y, y ∈ r ↔ y ∈ x := by
  unfold newSortedInts
  generalize ht : sortInts x = t0
  have h0 : t0.Pairwise (· ≤ ·) := ht ▸ sortInts_sorted x
  have hm : ∀ y, y ∈ t0 ↔ y ∈ x := fun y => ht ▸ mem_sortInts x y
  cases t0 with
  | nil =>
    refine ⟨[], by simp [dedupLoop, sliceI], by simp [SS], ?_⟩
    intro y; rw [← hm]
  | cons a t =>
    obtain ⟨P', nr', hrun, hlt, hlen, hss, hmem⟩ :=
      dedupLoop_spec (a :: t) h0 t.length 1 0 [a] (by omega) (by omega) (by simp; omega) (by simp) (by simp [SS])
        (by simp) (by simp)
    have hrun' : dedupLoop ((a :: t).length - 1) (a :: t) 1 0 =
        .ok (P' ++ List.drop ((a :: t).length - nr') (a :: t), (nr' : Int)) := by
      simpa using hrun
    simp only [hrun']
    have hl2 : (P' ++ List.drop ((a :: t).length - nr') (a :: t)).length = (a :: t).length := by
      rw [List.length_append, List.length_drop, hlen]; omega
    have e : (((P' ++ List.drop ((a :: t).length - nr') (a :: t)).length : Int) - (nr' : Int))
        = (((a :: t).length - nr' : Nat) : Int) := by
      rw [hl2]; omega
    rw [e, sliceI_zero_nat _ _ (by rw [hl2]; omega)]
    refine ⟨_, rfl, ?_, ?_⟩
    · rw [← hlen, List.take_left]; exact hss
    · intro y; rw [← hlen, List.take_left, hmem, hm]

end SortInts
