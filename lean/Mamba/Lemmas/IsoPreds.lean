import Mamba.Lemmas.IsoLevels
/-! The predicates used by the harness are hereditary (trivial, order, max degree, triangle-free, K4-free). -/
namespace GSearch
open GraphSpec

theorem hereditary_true : Hereditary (fun _ => true) := ⟨fun _ _ _ _ _ _ => rfl, fun _ _ _ _ => rfl⟩

theorem hereditary_orderLE (k : Nat) : Hereditary (orderLE k) where
  iso g h _ _ i hp := by
    simp only [orderLE, decide_eq_true_eq] at hp ⊢
    rw [← i.1]; exact hp
  del g _ _ hp := by
    simp only [orderLE, decide_eq_true_eq] at hp ⊢
    show g.n - 1 ≤ k
    omega

/-- degrees are preserved by an isomorphism -/
theorem deg_iso {g h : G} {σ : Nat → Nat} (hn : g.n = h.n) (hσ : IsBij g.n σ)
    (hadj : ∀ u v, u < g.n → v < g.n → g.adj u v = h.adj (σ u) (σ v)) {v : Nat} (hv : v < g.n) :
    h.deg (σ v) = g.deg v := by
  unfold G.deg G.nbrs
  rw [← hn]
  have hp : ((List.range g.n).filter fun u => h.adj (σ v) u).Perm
      (((List.range g.n).map σ).filter fun u => h.adj (σ v) u) := (perm_of_isBij hσ).symm.filter _
  rw [hp.length_eq, List.filter_map, List.length_map]
  congr 1
  apply List.filter_congr
  intro u hu
  simp only [Function.comp]
  exact (hadj v u hv (List.mem_range.1 hu)).symm

theorem hereditary_maxDegLE (d : Nat) : Hereditary (maxDegLE d) where
  iso g h _ _ i hp := by
    obtain ⟨hn, σ, hσ, hadj⟩ := i
    simp only [maxDegLE, List.all_eq_true, List.mem_range, decide_eq_true_eq] at hp ⊢
    intro w hw
    obtain ⟨v, hv, rfl⟩ := hσ.surj w (hn ▸ hw)
    rw [deg_iso hn hσ hadj hv]
    exact hp v hv
  del g _ hpos hp := by
    simp only [maxDegLE, List.all_eq_true, List.mem_range, decide_eq_true_eq] at hp ⊢
    intro v hv
    have hv' : v < g.n - 1 := hv
    refine Nat.le_trans ?_ (hp v (by omega))
    unfold G.deg G.nbrs
    have hr : List.range g.n = List.range (g.n - 1) ++ [g.n - 1] := by
      have : g.n = (g.n - 1) + 1 := by omega
      conv_lhs => rw [this, List.range_succ]
    rw [hr, List.filter_append, List.length_append]
    refine Nat.le_trans (Nat.le_of_eq ?_) (Nat.le_add_right _ _)
    congr 1
    apply List.filter_congr
    intro u hu
    have hu' : u < g.n - 1 := List.mem_range.1 hu
    simp [delLast, hv', hu']

theorem hereditary_triangleFree : Hereditary triangleFree where
  iso g h _ _ i hp := by
    obtain ⟨hn, σ, hσ, hadj⟩ := i
    simp only [triangleFree, List.all_eq_true, List.mem_range] at hp ⊢
    intro a ha b hb c hc
    obtain ⟨u, hu, rfl⟩ := hσ.surj a (hn ▸ ha)
    obtain ⟨v, hv, rfl⟩ := hσ.surj b (hn ▸ hb)
    obtain ⟨w, hw, rfl⟩ := hσ.surj c (hn ▸ hc)
    rw [← hadj u v hu hv, ← hadj u w hu hw, ← hadj v w hv hw]
    exact hp u hu v hv w hw
  del g _ _ hp := by
    simp only [triangleFree, List.all_eq_true, List.mem_range] at hp ⊢
    intro a ha b hb c hc
    have ha' : a < g.n - 1 := ha
    have hb' : b < g.n - 1 := hb
    have hc' : c < g.n - 1 := hc
    have := hp a (by omega) b (by omega) c (by omega)
    simpa [delLast, ha', hb', hc'] using this

theorem hereditary_k4Free : Hereditary k4Free where
  iso g h _ _ i hp := by
    obtain ⟨hn, σ, hσ, hadj⟩ := i
    simp only [k4Free, List.all_eq_true, List.mem_range] at hp ⊢
    intro a ha b hb c hc e he
    obtain ⟨u, hu, rfl⟩ := hσ.surj a (hn ▸ ha)
    obtain ⟨v, hv, rfl⟩ := hσ.surj b (hn ▸ hb)
    obtain ⟨w, hw, rfl⟩ := hσ.surj c (hn ▸ hc)
    obtain ⟨x, hx, rfl⟩ := hσ.surj e (hn ▸ he)
    rw [← hadj u v hu hv, ← hadj u w hu hw, ← hadj v w hv hw, ← hadj u x hu hx, ← hadj v x hv hx, ← hadj w x hw hx]
    exact hp u hu v hv w hw x hx
  del g _ _ hp := by
    simp only [k4Free, List.all_eq_true, List.mem_range] at hp ⊢
    intro a ha b hb c hc e he
    have ha' : a < g.n - 1 := ha
    have hb' : b < g.n - 1 := hb
    have hc' : c < g.n - 1 := hc
    have he' : e < g.n - 1 := he
    have := hp a (by omega) b (by omega) c (by omega) e (by omega)
    simpa [delLast, ha', hb', hc', he'] using this

end GSearch
