import Mamba.Lemmas.C06Trans
/-! C06: the `InducedSubgraph` view (N, IsEdge) and `FlowerSnark`. -/
namespace Construct
open GraphSpec


theorem inducedView_n_isEdge (g : GraphI) (gs : G) (hs : g.Sound gs) (V : List Nat) (hV : ∀ x ∈ V, x < gs.n) :
    (inducedView g V).n = (gs.induced V).n ∧
    ∀ i j, i < V.length → j < V.length → (inducedView g V).isEdge i j = .ok ((gs.induced V).adj i j) := by
  refine ⟨rfl, ?_⟩
  intro i j hi hj
  have h1 : i < V.toArray.size := by simpa using hi
  have h2 : j < V.toArray.size := by simpa using hj
  simp only [inducedView, getAt_ok h1, getAt_ok h2, Outcome.bind_ok, G.induced, hi, hj, decide_true, Bool.true_and]
  rw [hs.isEdge _ _ (hV _ (by simp)) (hV _ (by simp))]
  simp [List.getD, hi, hj]



/-! ### FlowerSnark -/

/-- the pairs written in round `i` -/
def snarkPairs (n i : Nat) : List (Nat × Nat) :=
  [(4 * i, 4 * i + 1), (4 * i, 4 * i + 2), (4 * i, 4 * i + 3)] ++
  (if i + 1 < n then [(4 * i + 1, 4 * i + 1 + 4), (4 * i + 2, 4 * i + 2 + 4), (4 * i + 3, 4 * i + 3 + 4)]
   else [(1, 4 * i + 1), (3, 4 * i + 2), (2, 4 * i + 3)])

theorem snarkIdxs_eq (n i : Nat) : snarkIdxs n i = (snarkPairs n i).map pos := by
  unfold snarkIdxs snarkPairs
  by_cases h : i + 1 < n <;> simp [h, pos, tri]

theorem mem_snarkPairs (n i u v : Nat) : (u, v) ∈ snarkPairs n i ↔
    (u = 4 * i ∧ (v = 4 * i + 1 ∨ v = 4 * i + 2 ∨ v = 4 * i + 3)) ∨
    (i + 1 < n ∧ v = u + 4 ∧ (u = 4 * i + 1 ∨ u = 4 * i + 2 ∨ u = 4 * i + 3)) ∨
    (¬ i + 1 < n ∧ ((u = 1 ∧ v = 4 * i + 1) ∨ (u = 3 ∧ v = 4 * i + 2) ∨ (u = 2 ∧ v = 4 * i + 3))) := by
  unfold snarkPairs
  by_cases h : i + 1 < n <;> simp [h] <;> omega

theorem snarkPairs_lt (n i : Nat) (hn : 3 ≤ n) (hi : i < n) : ∀ p ∈ snarkPairs n i, p.1 < p.2 ∧ p.2 < 4 * n := by
  intro p hp
  obtain ⟨u, v⟩ := p
  rw [mem_snarkPairs] at hp
  simp only
  omega

/-- the six clauses of the definition, as a proposition -/
def snarkRel (n u v : Nat) : Prop :=
  (u % 4 = 0 ∧ v / 4 = u / 4) ∨ (u % 4 = 1 ∧ v % 4 = 1 ∧ v / 4 = (u / 4 + 1) % n) ∨
  (u % 4 = 2 ∧ u / 4 + 1 < n ∧ v = u + 4) ∨ (u % 4 = 3 ∧ u / 4 + 1 < n ∧ v = u + 4) ∨
  (u % 4 = 2 ∧ u / 4 + 1 = n ∧ v = 3) ∨ (u % 4 = 3 ∧ u / 4 + 1 = n ∧ v = 2)

theorem snark_adj_iff (n u v : Nat) : (Families.flowerSnark n).adj u v = true ↔
    u ≠ v ∧ u < 4 * n ∧ v < 4 * n ∧ (snarkRel n u v ∨ snarkRel n v u) := by
  simp only [Families.flowerSnark, Families.symm, snarkRel, Bool.or_eq_true, Bool.and_eq_true, beq_iff_eq,
    decide_eq_true_eq, bne_iff_ne, ne_eq]
  constructor
  · rintro ⟨⟨⟨a, b⟩, c⟩, d⟩
    refine ⟨a, b, c, ?_⟩
    rcases d with d | d
    · left
      rcases d with ((((d | d) | d) | d) | d) | d
      · exact Or.inl ⟨d.1, d.2⟩
      · exact Or.inr (Or.inl ⟨d.1.1, d.1.2, d.2⟩)
      · exact Or.inr (Or.inr (Or.inl ⟨d.1.1, d.1.2, d.2⟩))
      · exact Or.inr (Or.inr (Or.inr (Or.inl ⟨d.1.1, d.1.2, d.2⟩)))
      · exact Or.inr (Or.inr (Or.inr (Or.inr (Or.inl ⟨d.1.1, d.1.2, d.2⟩))))
      · exact Or.inr (Or.inr (Or.inr (Or.inr (Or.inr ⟨d.1.1, d.1.2, d.2⟩))))
    · right
      rcases d with ((((d | d) | d) | d) | d) | d
      · exact Or.inl ⟨d.1, d.2⟩
      · exact Or.inr (Or.inl ⟨d.1.1, d.1.2, d.2⟩)
      · exact Or.inr (Or.inr (Or.inl ⟨d.1.1, d.1.2, d.2⟩))
      · exact Or.inr (Or.inr (Or.inr (Or.inl ⟨d.1.1, d.1.2, d.2⟩)))
      · exact Or.inr (Or.inr (Or.inr (Or.inr (Or.inl ⟨d.1.1, d.1.2, d.2⟩))))
      · exact Or.inr (Or.inr (Or.inr (Or.inr (Or.inr ⟨d.1.1, d.1.2, d.2⟩))))
  · rintro ⟨a, b, c, d⟩
    refine ⟨⟨⟨a, b⟩, c⟩, ?_⟩
    rcases d with d | d
    · left
      rcases d with d | d | d | d | d | d
      · exact Or.inl (Or.inl (Or.inl (Or.inl (Or.inl ⟨d.1, d.2⟩))))
      · exact Or.inl (Or.inl (Or.inl (Or.inl (Or.inr ⟨⟨d.1, d.2.1⟩, d.2.2⟩))))
      · exact Or.inl (Or.inl (Or.inl (Or.inr ⟨⟨d.1, d.2.1⟩, d.2.2⟩)))
      · exact Or.inl (Or.inl (Or.inr ⟨⟨d.1, d.2.1⟩, d.2.2⟩))
      · exact Or.inl (Or.inr ⟨⟨d.1, d.2.1⟩, d.2.2⟩)
      · exact Or.inr ⟨⟨d.1, d.2.1⟩, d.2.2⟩
    · right
      rcases d with d | d | d | d | d | d
      · exact Or.inl (Or.inl (Or.inl (Or.inl (Or.inl ⟨d.1, d.2⟩))))
      · exact Or.inl (Or.inl (Or.inl (Or.inl (Or.inr ⟨⟨d.1, d.2.1⟩, d.2.2⟩))))
      · exact Or.inl (Or.inl (Or.inl (Or.inr ⟨⟨d.1, d.2.1⟩, d.2.2⟩)))
      · exact Or.inl (Or.inl (Or.inr ⟨⟨d.1, d.2.1⟩, d.2.2⟩))
      · exact Or.inl (Or.inr ⟨⟨d.1, d.2.1⟩, d.2.2⟩)
      · exact Or.inr ⟨⟨d.1, d.2.1⟩, d.2.2⟩

theorem snark_rel (n u v : Nat) (hn : 3 ≤ n) (huv : u < v) (hv : v < 4 * n) :
    (∃ i, i < n ∧ (u, v) ∈ snarkPairs n i) ↔ (snarkRel n u v ∨ snarkRel n v u) := by
  have hu4 : u / 4 < n := by omega
  have hv4 : v / 4 < n := by omega
  have hsu : (u / 4 + 1 = n ∧ (u / 4 + 1) % n = 0) ∨ (u / 4 + 1 < n ∧ (u / 4 + 1) % n = u / 4 + 1) := by
    rw [succ_mod _ n hu4]; split_ifs <;> omega
  have hsv : (v / 4 + 1 = n ∧ (v / 4 + 1) % n = 0) ∨ (v / 4 + 1 < n ∧ (v / 4 + 1) % n = v / 4 + 1) := by
    rw [succ_mod _ n hv4]; split_ifs <;> omega
  unfold snarkRel
  generalize (u / 4 + 1) % n = su at *
  generalize (v / 4 + 1) % n = sv at *
  constructor
  · rintro ⟨i, hi, hp⟩
    rw [mem_snarkPairs] at hp
    rcases hp with ⟨h1, h2⟩ | ⟨h1, h2, h3⟩ | ⟨h1, h2⟩
    · exact Or.inl (Or.inl (by omega))
    · rcases h3 with h3 | h3 | h3
      · exact Or.inl (Or.inr (Or.inl (by omega)))
      · exact Or.inl (Or.inr (Or.inr (Or.inl (by omega))))
      · exact Or.inl (Or.inr (Or.inr (Or.inr (Or.inl (by omega)))))
    · rcases h2 with h2 | h2 | h2
      · exact Or.inr (Or.inr (Or.inl (by omega)))
      · exact Or.inr (Or.inr (Or.inr (Or.inr (Or.inr (Or.inl (by omega))))))
      · exact Or.inr (Or.inr (Or.inr (Or.inr (Or.inr (Or.inr (by omega))))))
  · rintro (h | h)
    · rcases h with h | h | h | h | h | h
      · exact ⟨u / 4, hu4, (mem_snarkPairs ..).mpr (Or.inl (by omega))⟩
      · exact ⟨u / 4, hu4, (mem_snarkPairs ..).mpr (Or.inr (Or.inl (by omega)))⟩
      · exact ⟨u / 4, hu4, (mem_snarkPairs ..).mpr (Or.inr (Or.inl (by omega)))⟩
      · exact ⟨u / 4, hu4, (mem_snarkPairs ..).mpr (Or.inr (Or.inl (by omega)))⟩
      · omega
      · omega
    · rcases h with h | h | h | h | h | h
      · omega
      · exact ⟨v / 4, hv4, (mem_snarkPairs ..).mpr (Or.inr (Or.inr (by omega)))⟩
      · omega
      · omega
      · exact ⟨v / 4, hv4, (mem_snarkPairs ..).mpr (Or.inr (Or.inr (by omega)))⟩
      · exact ⟨v / 4, hv4, (mem_snarkPairs ..).mpr (Or.inr (Or.inr (by omega)))⟩


end Construct
