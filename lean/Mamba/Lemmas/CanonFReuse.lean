import Mamba.Lemmas.CanonFReuseGen
import Mamba.Lemmas.CanonFReuseShort
import Mamba.Lemmas.CanonFReuseReset
/-!
# Storage reuse (semantic form)

`CanonicalIsomorphAllocated` on a `Reset` partition and ANY storage of sufficient capacity: it returns, and the result has the
same canonical certificate / canonically relabelled graph as the fresh call, the exact orbit partition and generators of the
whole automorphism group. (Not proved: that the returned slices are IDENTICAL to those of the fresh call.)
-/
namespace CanonF
open GraphSpec Relation

/-- STORAGE REUSE (semantic form): `CanonicalIsomorphAllocated` on a partition that has been `Reset` (arbitrary previous
contents) and on ANY storage of sufficient capacity (arbitrary previous contents) returns, and its result describes the same
canonical graph, has the exact orbit partition and generators generating the automorphisms — as the fresh call does -/
theorem reuse_semantic_full (g : G) (hg : g.WF) (vc : Classes) (hvc : ClassesOK g.n vc) (hn : g.n ≠ 0) (op : OP)
    (c1 : g.n ≤ op.order.data.size) (c2 : g.n ≤ op.inCell.data.size) (c3 : g.n ≤ op.binDividers.data.size)
    (c4 : g.n ≤ op.binAges.data.size) (c5 : g.n ≤ op.binsToCheck.data.size)
    (c6 : ((nbrsOf g).toList.map List.length).sum / 2 ≤ op.value.data.size) (st : Storage)
    (hS : StorageOK g.n (((nbrsOf g).toList.map List.length).sum / 2) st) :
    ∃ opN opR r opR' stR r0 p p0 ds gs,
      newOrderedPartition g.n (((nbrsOf g).toList.map List.length).sum / 2) vc = .ok (some opN) ∧
      reset op g.n (((nbrsOf g).toList.map List.length).sum / 2) vc = .ok opR ∧
      canonicalIsomorphAllocated (fuelBound g.n) g.n (((nbrsOf g).toList.map List.length).sum / 2) (nbrsOf g) (some opR) st {}
        = .ok (r, opR', stR) ∧
      canonicalIsomorphFull (fuelBound g.n) g vc = .ok r0 ∧ r0.perm = some p0 ∧
      r.perm = some p ∧ r.orbits = some ds ∧ r.gens = some gs ∧ p.Perm (List.range g.n) ∧ ds.length = g.n ∧
      certPos (nbrsOf g) p g.n = certPos (nbrsOf g) p0 g.n ∧ g.induced p = g.induced p0 ∧
      (∀ γ ∈ gs, IsAutL (nbrsOf g) g.n γ) ∧
      (∀ a b, a < g.n → b < g.n → Disjoint.rep ds.toArray a = Disjoint.rep ds.toArray b →
        EqvGen (fun x y => ∃ γ ∈ gs, γ[x]? = some y) a b) ∧
      (∀ γ, IsAutL (nbrsOf g) g.n γ → (∀ v, v < g.n → cellOf opN (γ.getD v 0) = cellOf opN v) →
        (∀ u, u < g.n → Disjoint.rep ds.toArray u = Disjoint.rep ds.toArray (γ.getD u 0)) ∧
        GenBy (fun x => x ∈ gs) g.n γ) := by
  have hn0 : 0 < g.n := Nat.pos_of_ne_zero hn
  obtain ⟨hnbok, hsz⟩ := nbOK_nbrsOf g hg
  obtain ⟨opN, opR, hnew, hres, hp, ha, hage, hspl, hval, hvw, hm0, hb0, hbs, hbl, hcell, k3, k4, k5⟩ :=
    reset_init_facts (nbrsOf g) op hn0 hvc c1 c2 c3 c4 c5 c6
  -- the reused run returns
  have key : ∃ x, canonicalIsomorphAllocated (fuelBound g.n) g.n (((nbrsOf g).toList.map List.length).sum / 2)
      (nbrsOf g) (some opR) st {} = .ok x := by
    by_cases hsc : ((nbrsOf g).toList.map List.length).sum / 2 = 0 ∧ opR.binDividers.len = 1
    · obtain ⟨x, hx⟩ := edgeless_total (st := st) hn hS.bperm hS.forb hS.gens
      unfold canonicalIsomorphAllocated
      rw [if_neg hn]
      simp only [hsc.1, if_true, hsc.2, beq_self_eq_true]
      rw [hx]
      exact ⟨_, rfl⟩
    · have hw : (IR.initSt (irG g.n (nbrsOf g)) opR.binDividers.len (cellOf opR)).work ≠ [] := by
        show List.range opR.binDividers.len ≠ []
        have := hp.bdLen_pos
        intro e
        have := congrArg List.length e
        simp at this
        omega
      have hinv := IR.refine_inv' (g := irG g.n (nbrsOf g)) (fuel := g.n * g.n + 10) (by omega) hw
      have hlenm : ∀ o : List Nat, o.Perm (List.range g.n) →
          (certPos (nbrsOf g) o g.n).length = ((nbrsOf g).toList.map List.length).sum / 2 :=
        fun o ho => certPos_length hnbok hsz ho
      have hJ := totMainJ (rf := g.n * g.n + 10) hnbok hsz rfl (rfuel_ge g.n) hinv.1 hinv.2 hlenm
      have hT := totMainT (rf := g.n * g.n + 10) hnbok hsz rfl hinv.1 hinv.2
      refine allocated_total stablePerm expandValue_cert hJ hT hn (fun hm h1 => hsc ⟨hm, h1⟩) hp ha hage hspl hval hvw hb0
        k3 k4 k5 hsz ?_ hS ?_ (by unfold fuelBound; omega)
      · intro u l hu v hv
        have : (nbrsOf g).getD u [] = l := by
          rw [Array.getD_eq_getD_getElem?, hu]; rfl
        rw [← this] at hv
        exact (hnbok.lt u v hv).2
      · intro s0 hi hcap
        obtain ⟨h1, h2⟩ := dfs_init hnbok (rfuel_ge g.n) hp ha hm0 hb0 hbs hage hi
        exact ⟨⟨h1, h2⟩, hcap, fun _ => hi.ngens⟩
  obtain ⟨⟨r, opR', stR⟩, hal⟩ := key
  -- what it returns
  have hsem : ∃ p ds gs, r.perm = some p ∧ r.orbits = some ds ∧ r.gens = some gs ∧ p.Perm (List.range g.n) ∧
      ds.length = g.n ∧ certPos (nbrsOf g) p g.n = IR.canonCertFrom (IR.ofSpec g) (irInit g opR) ∧
      (∀ γ ∈ gs, IsAutL (nbrsOf g) g.n γ) ∧
      (∀ a b, a < g.n → b < g.n → Disjoint.rep ds.toArray a = Disjoint.rep ds.toArray b →
        EqvGen (fun x y => ∃ γ ∈ gs, γ[x]? = some y) a b) ∧
      (∀ γ, IsAutL (nbrsOf g) g.n γ → (∀ v, v < g.n → cellOf opR (γ.getD v 0) = cellOf opR v) →
        (∀ u, u < g.n → Disjoint.rep ds.toArray u = Disjoint.rep ds.toArray (γ.getD u 0)) ∧
        GenBy (fun x => x ∈ gs) g.n γ) := by
    by_cases hsc : ((nbrsOf g).toList.map List.length).sum / 2 = 0 ∧ opR.binDividers.len = 1
    · exact allocated_semantic_short (fuelBound g.n) g hg hn hp hsc hal
    · exact allocated_semantic_gen (fuelBound g.n) g hg hn hp ha hage hspl hval hm0 hb0 hbs hsc hal
  obtain ⟨p, ds, gs, e1, e2, e3, hperm, hdl, hcert, hsound, heqv, hcompl⟩ := hsem
  -- the fresh run
  obtain ⟨r0, h0⟩ := canonF_total_full g hg vc hvc
  obtain ⟨opN', p0, hnew', hp0, hperm0, hcert0⟩ := canonF_complete_full (fuelBound g.n) g hg vc hvc hn r0 h0
  rw [hnew] at hnew'
  cases hnew'
  have hir : irInit g opR = irInit g opN := by
    unfold irInit
    rw [hbl]
    congr 1
    funext v
    exact hcell v
  have hce : certPos (nbrsOf g) p g.n = certPos (nbrsOf g) p0 g.n := by rw [hcert, hcert0, hir]
  refine ⟨opN, opR, r, opR', stR, r0, p, p0, ds, gs, hnew, hres, hal, h0, hp0, e1, e2, e3, hperm, hdl, hce, ?_, hsound, heqv,
    fun γ hγ hc => hcompl γ hγ (fun v hv => by rw [hcell, hcell]; exact hc v hv)⟩
  apply ofSpec_inj (induced_supp g p) (induced_supp g p0)
  rw [ofSpec_induced_eq_ofCodes g hg p hperm, ofSpec_induced_eq_ofCodes g hg p0 hperm0, hce]
end CanonF
