import Mamba.Lemmas.C06Prufer
import Mamba.Lemmas.CodecPrufer
/-! C06: this slice's model of `PruferDecode` computes the same byte array as the C07 model (`Codec.pruferDecode`),
hence (by `Codec.prufer_decode_tree`) its result is a labelled tree. -/
namespace Construct
open GraphSpec

/-! ### this slice's model of `PruferDecode` computes the same byte array as the C07 model (`Codec.pruferDecode`) -/

/-- the `Int` degree array of this model against the `Nat` degree array of the C07 model -/
def DegRel (a : Array Int) (b : Array Nat) : Prop :=
  a.size = b.size ∧ ∀ x : Nat, a[x]? = (b[x]?).map Int.ofNat

theorem sim_incr (a : Array Int) (b : Array Nat) (h : DegRel a b) (v : Nat) (hv : v < a.size) :
    ∃ a' b', incrAt a v = .ok a' ∧ Codec.incr b v = .ok b' ∧ DegRel a' b' := by
  obtain ⟨a', e1, s1, g1⟩ := incrAt_ok a v hv
  have hvb : v < b.size := by rw [← h.1]; exact hv
  refine ⟨a', b.setIfInBounds v (b[v] + 1), e1, by simp [Codec.incr, hvb], ?_, ?_⟩
  · simp [s1, h.1]
  · intro x
    rw [g1 x, h.2 x, Array.getElem?_setIfInBounds]
    by_cases hx : v = x
    · subst hx; simp [hvb]
    · have : ¬ x = v := fun e => hx e.symm
      simp [hx, this]; rfl

theorem sim_fold1 (p : List Nat) (a : Array Int) (b : Array Nat) (h : DegRel a b) (hp : ∀ v ∈ p, v < a.size) :
    ∃ a' b', p.foldlM (fun d v => incrAt d v) a = .ok a' ∧ p.foldlM Codec.incr b = .ok b' ∧ DegRel a' b' := by
  induction p generalizing a b with
  | nil => exact ⟨a, b, rfl, rfl, h⟩
  | cons v t ih =>
    obtain ⟨a1, b1, e1, e2, h1⟩ := sim_incr a b h v (hp v (by simp))
    have hs : a1.size = a.size := by
      obtain ⟨a', e', s', _⟩ := incrAt_ok a v (hp v (by simp)); rw [e1] at e'; cases e'; exact s'
    obtain ⟨a2, b2, f1, f2, h2⟩ := ih a1 b1 h1 (fun w hw => by rw [hs]; exact hp w (by simp [hw]))
    exact ⟨a2, b2, by simp only [List.foldlM_cons, e1, Outcome.bind_ok]; exact f1,
      by simp only [List.foldlM_cons, e2, Outcome.bind_ok]; exact f2, h2⟩

theorem sim_firstDegOne (a : Array Int) (b : Array Nat) (h : DegRel a b) (js : List Nat) (hjs : ∀ j ∈ js, j < a.size) :
    Codec.firstDegOne b js = .ok (js.find? fun j => a[j]? == some 1) := by
  induction js with
  | nil => rfl
  | cons j t ih =>
    have hj : j < b.size := by rw [← h.1]; exact hjs j (by simp)
    have hja : a[j]? = some (Int.ofNat b[j]) := by rw [h.2 j]; simp [hj]
    simp only [Codec.firstDegOne, Array.getElem?_eq_getElem hj, List.find?_cons, hja]
    by_cases h1 : b[j] = 1
    · simp [h1]
    · have : ¬ (Int.ofNat b[j] = 1) := by intro e; apply h1; exact Int.ofNat_inj.mp e
      simp only [h1, ↓reduceIte]
      rw [ih (fun x hx => hjs x (by simp [hx]))]
      have : (some (Int.ofNat b[j]) == some (1 : Int)) = false := by simp; omega
      rw [this]


theorem tri_eq_codec (n : Nat) : Codec.tri n = tri n := rfl

theorem sim_step (n : Nat) (st : Array Int × Array Nat) (st2 : Array Nat × Array Nat)
    (hd : st.1.size = n) (he : st.2.size = tri n) (hR : DegRel st.1 st2.1) (hE : st2.2 = st.2)
    (v : Nat) (hv : v < n) (j : Nat) (hfl : firstLeaf st.1 n = some j) (hjv : j ≠ v)
    (yv : Int) (hyv : st.1[v]? = some yv) (hyv2 : 2 ≤ yv) :
    ∃ st' st2', pruferStep n st v = .ok st' ∧ Codec.pruferDecStep n st2 v = .ok st2' ∧
      st'.1.size = n ∧ st'.2.size = tri n ∧ DegRel st'.1 st2'.1 ∧ st2'.2 = st'.2 ∧
      ∀ x : Nat, st'.1[x]? = if x = v then some (yv - 1) else if x = j then some 0 else st.1[x]? := by
  obtain ⟨hj, hdj⟩ := firstLeaf_spec st.1 n j hfl
  have hj' : j < st.1.size := by omega
  have hv' : v < (st.1.set j (st.1[j] - 1)).size := by simp; omega
  have hjb : j < st2.1.size := by rw [← hR.1]; exact hj'
  have hvb : v < st2.1.size := by rw [← hR.1]; omega
  have hbj : st2.1[j] = 1 := by
    have := hR.2 j; rw [hdj, Array.getElem?_eq_getElem hjb] at this
    simp only [Option.map_some, Option.some.injEq] at this
    exact (Int.ofNat_inj.mp this.symm)
  have haj : st.1[j] = 1 := by
    rw [Array.getElem?_eq_getElem hj'] at hdj; exact Option.some.inj hdj
  have hav : st.1[v] = yv := by
    rw [Array.getElem?_eq_getElem (by omega)] at hyv; exact Option.some.inj hyv
  have hbv : (Int.ofNat st2.1[v]) = yv := by
    have := hR.2 v; rw [hyv, Array.getElem?_eq_getElem hvb] at this
    simp only [Option.map_some, Option.some.injEq] at this; exact this.symm
  -- the byte written
  let idx := if j > v then tri j + v else tri v + j
  have hidx : idx < st.2.size := by
    simp only [idx]; rw [he]
    by_cases hgt : j > v
    · simp only [hgt, ↓reduceIte]; exact tri_add_lt hgt hj
    · simp only [hgt, ↓reduceIte]; exact tri_add_lt (by omega) hv
  have hset : (if j > v then setAt st.2 ((j * (j - 1)) / 2 + v) 1 else setAt st.2 ((v * (v - 1)) / 2 + j) 1 : Outcome (Array Nat))
      = .ok (st.2.set idx 1) := by
    by_cases hgt : j > v
    · have : idx = tri j + v := by simp [idx, hgt]
      simp only [hgt, ↓reduceIte, tri_def]; rw [setAt_ok _ (this ▸ hidx)]; simp [this]
    · have : idx = tri v + j := by simp [idx, hgt]
      simp only [hgt, ↓reduceIte, tri_def]; rw [setAt_ok _ (this ▸ hidx)]; simp [this]
  have hidx2 : Codec.edgeIdx j v = idx := by
    simp only [Codec.edgeIdx, idx, tri]
  refine ⟨((st.1.set j (st.1[j] - 1)).set v ((st.1.set j (st.1[j] - 1))[v] - 1), st.2.set idx 1),
    ((st2.1.setIfInBounds j (st2.1[j] - 1)).setIfInBounds v ((st2.1.setIfInBounds j (st2.1[j] - 1))[v]'(by simp; exact hvb) - 1),
      st2.2.setIfInBounds idx 1), ?_, ?_, by simp; omega, by simp [he], ⟨by simp [hR.1], ?_⟩, ?_, ?_⟩
  · simp only [pruferStep, hfl, hset, Outcome.bind_ok, getAt_ok hj', setAt_ok _ hj', getAt_ok hv', setAt_ok _ hv',
      Outcome.pure_eq]
  · have hfd := sim_firstDegOne st.1 st2.1 hR (List.range n) (by intro x hx; rw [hd]; exact List.mem_range.mp hx)
    have hfl' : (List.range n).find? (fun j => st.1[j]? == some 1) = some j := hfl
    have hidxb : idx < st2.2.size := by rw [hE]; exact hidx
    have hvb' : v < (st2.1.setIfInBounds j (st2.1[j] - 1)).size := by simp; exact hvb
    simp only [Codec.pruferDecStep, hfd, hfl', Codec.setAt, hidx2, hidxb, ↓reduceIte, Codec.decr,
      Array.getElem?_eq_getElem hjb, Array.getElem?_eq_getElem hvb']
  · intro x
    have hvj : ¬ v = j := fun e => hjv e.symm
    by_cases hxv : x = v
    · subst hxv
      have h1 : x < ((st.1.set j (st.1[j] - 1)).set x ((st.1.set j (st.1[j] - 1))[x] - 1)).size := by simp; omega
      rw [Array.getElem?_eq_getElem h1]
      simp only [Array.getElem_set_self, Array.getElem_set, hjv, ↓reduceIte, Array.getElem?_setIfInBounds,
        Array.size_setIfInBounds, hvb, Array.getElem_setIfInBounds, Option.map_some, Option.some.injEq]
      rw [hav, ← hbv]
      have : 2 ≤ Int.ofNat st2.1[x] := by rw [hbv]; exact hyv2
      simp only [Int.ofNat_eq_coe] at this ⊢
      omega
    · have hxv' : ¬ v = x := fun e => hxv e.symm
      by_cases hxj : x = j
      · subst hxj
        simp only [Array.getElem?_set, hxv', ↓reduceIte, Array.size_set, hj', Array.getElem?_setIfInBounds, hjb,
          Option.map_some, haj, hbj]
        rfl
      · have hxj' : ¬ j = x := fun e => hxj e.symm
        simp only [Array.getElem?_set, hxv', hxj', ↓reduceIte, Array.getElem?_setIfInBounds]
        exact hR.2 x
  · simp only [hE]
    rw [Array.setIfInBounds_def]; simp [hidx]
  · intro x
    have hvj : ¬ v = j := fun e => hjv e.symm
    by_cases hxv : x = v
    · subst hxv
      simp only [↓reduceIte, Array.getElem?_set, Array.size_set]
      have : x < st.1.size := by omega
      simp [this, Array.getElem_set, hjv, hav]
    · have hxv' : ¬ v = x := fun e => hxv e.symm
      by_cases hxj : x = j
      · subst hxj
        simp [Array.getElem?_set, hxv', hxv, hj', haj]
      · have hxj' : ¬ j = x := fun e => hxj e.symm
        simp [Array.getElem?_set, hxv', hxv, hxj, hxj']


theorem prufer_sim2 (n : Nat) (rem : List Nat) (st : Array Int × Array Nat) (st2 : Array Nat × Array Nat)
    (hd : st.1.size = n) (he : st.2.size = tri n) (hp : ∀ v ∈ rem, v < n)
    (hK : ∀ x, x < n → 1 ≤ rem.count x → ∃ y, st.1[x]? = some y ∧ 1 + (rem.count x : Int) ≤ y)
    (hR : DegRel st.1 st2.1) (hE : st2.2 = st.2) :
    ∃ st' st2', rem.foldlM (pruferStep n) st = .ok st' ∧ rem.foldlM (Codec.pruferDecStep n) st2 = .ok st2' ∧
      st'.1.size = n ∧ st'.2.size = tri n ∧ DegRel st'.1 st2'.1 ∧ st2'.2 = st'.2 := by
  induction rem generalizing st st2 with
  | nil => exact ⟨st, st2, rfl, rfl, hd, he, hR, hE⟩
  | cons v t ih =>
    have hv : v < n := hp v (by simp)
    cases hfl : firstLeaf st.1 n with
    | none =>
      have hfd := sim_firstDegOne st.1 st2.1 hR (List.range n) (by intro x hx; rw [hd]; exact List.mem_range.mp hx)
      have hfl' : (List.range n).find? (fun j => st.1[j]? == some 1) = none := hfl
      obtain ⟨st', st2', f1, f2, r⟩ := ih st st2 hd he (fun w hw => hp w (by simp [hw])) (by
        intro x hx hc
        obtain ⟨y, h1, h2⟩ := hK x hx (by have := List.count_le_count_cons (a := x) (b := v) (l := t); omega)
        have := List.count_le_count_cons (a := x) (b := v) (l := t)
        exact ⟨y, h1, by omega⟩) hR hE
      refine ⟨st', st2', ?_, ?_, r⟩
      · simp only [List.foldlM_cons, pruferStep, hfl, Outcome.pure_eq, Outcome.bind_ok]; exact f1
      · simp only [List.foldlM_cons, Codec.pruferDecStep, hfd, hfl', Outcome.bind_ok]; exact f2
    | some j =>
      obtain ⟨hj, hdj⟩ := firstLeaf_spec st.1 n j hfl
      obtain ⟨yv, hyv, hyv2⟩ := hK v hv (by simp)
      have hc1 : 1 ≤ (v :: t).count v := by simp
      have hjv : j ≠ v := by
        intro e; subst e
        rw [hdj] at hyv; cases hyv
        omega
      obtain ⟨st1, st21, e1, e2, s1, s2, r1, r2, g⟩ := sim_step n st st2 hd he hR hE v hv j hfl hjv yv hyv (by omega)
      obtain ⟨st', st2', f1, f2, r⟩ := ih st1 st21 s1 s2 (fun w hw => hp w (by simp [hw])) (by
        intro x hx hc
        have hcc := List.count_le_count_cons (a := x) (b := v) (l := t)
        obtain ⟨y, h1, h2⟩ := hK x hx (by omega)
        have hxj : x ≠ j := by
          intro e'; subst e'
          rw [hdj] at h1; cases h1
          omega
        rw [g x]
        by_cases hxv : x = v
        · subst hxv
          rw [hyv] at h1
          have hy : yv = y := Option.some.inj h1
          refine ⟨yv - 1, by simp, ?_⟩
          rw [List.count_cons_self] at h2; push_cast at h2; omega
        · refine ⟨y, by simp [hxv, hxj, h1], ?_⟩
          rw [List.count_cons_of_ne (fun e => hxv e.symm)] at h2; exact h2) r1 r2
      refine ⟨st', st2', ?_, ?_, r⟩
      · simp only [List.foldlM_cons, e1, Outcome.bind_ok]; exact f1
      · simp only [List.foldlM_cons, e2, Outcome.bind_ok]; exact f2


theorem sim_last (n : Nat) (a : Array Int) (b : Array Nat) (e : Array Nat) (hR : DegRel a b) (ha : a.size = n)
    (he : e.size = tri n) :
    ∃ e', (match firstLeaf a n with
      | none => pure e
      | some i =>
        match (List.range' (i + 1) (n - (i + 1))).find? fun j => a[j]? == some 1 with
        | none => pure e
        | some j => setAt e ((j * (j - 1)) / 2 + i) 1 : Outcome (Array Nat)) = .ok e' ∧ e'.size = tri n ∧
      (match Codec.firstDegOne b (List.range n) with
        | .ok none => Codec.newDense n e
        | .ok (some i) =>
          match Codec.firstDegOne b (List.range' (i + 1) (n - (i + 1))) with
          | .ok none => Codec.newDense n e
          | .ok (some j) =>
            match Codec.setAt e (j * (j - 1) / 2 + i) 1 with
            | .ok e2 => Codec.newDense n e2
            | .panic => .panic
            | .outOfFuel => .outOfFuel
          | .panic => .panic
          | .outOfFuel => .outOfFuel
        | .panic => .panic
        | .outOfFuel => .outOfFuel) = Codec.newDense n e' := by
  have h1 := sim_firstDegOne a b hR (List.range n) (by intro x hx; rw [ha]; exact List.mem_range.mp hx)
  rw [h1]
  have hfl : firstLeaf a n = (List.range n).find? (fun j => a[j]? == some 1) := rfl
  rw [hfl]
  cases hc : (List.range n).find? (fun j => a[j]? == some 1) with
  | none => exact ⟨e, rfl, he, rfl⟩
  | some i =>
    have h2 := sim_firstDegOne a b hR (List.range' (i + 1) (n - (i + 1))) (by
      intro x hx; rw [ha]; rw [List.mem_range'_1] at hx; omega)
    simp only [h2]
    cases hc2 : (List.range' (i + 1) (n - (i + 1))).find? (fun j => a[j]? == some 1) with
    | none => exact ⟨e, rfl, he, rfl⟩
    | some j =>
      have hm := List.mem_of_find?_eq_some hc2
      rw [List.mem_range'_1] at hm
      have hidx : tri j + i < e.size := by rw [he]; exact tri_add_lt (by omega) (by omega)
      refine ⟨e.set (tri j + i) 1, by simp only [tri_def]; exact setAt_ok _ hidx, by simp [he], ?_⟩
      have : Codec.setAt e (j * (j - 1) / 2 + i) 1 = .ok (e.set (tri j + i) 1) := by
        have hidx' : j * (j - 1) / 2 + i < e.size := hidx
        simp only [Codec.setAt, hidx', ↓reduceIte, Array.setIfInBounds_def, dite_true, tri]
      simp only [this]

theorem pruferDecode_sim (p : List Nat) (hp : ∀ v ∈ p, v < p.length + 2) :
    ∃ d d', pruferDecode p = .ok d ∧ Codec.pruferDecode p = .ok d' ∧ d.WF ∧ d.n = p.length + 2 ∧
      d'.n = p.length + 2 ∧ d'.edges = d.edges ∧ d'.WF := by
  have hR0 : DegRel (Array.replicate (p.length + 2) (1 : Int)) (Array.replicate (p.length + 2) 1) := by
    refine ⟨by simp, ?_⟩
    intro x
    simp only [Array.getElem?_replicate]
    split <;> rfl
  obtain ⟨d1, e1, s1, g1⟩ := prufer_fold1 (p.length + 2) p (Array.replicate (p.length + 2) 1) (by simp) hp
  obtain ⟨a1, b1, f1, f2, r1⟩ := sim_fold1 p _ _ hR0 (by simpa using hp)
  rw [e1] at f1; cases f1
  obtain ⟨st, st2, h1, h2, s2, s3, r2, r3⟩ := prufer_sim2 (p.length + 2) p (d1, zeros (tri (p.length + 2)))
    (b1, Array.replicate ((p.length + 2) * (p.length + 2 - 1) / 2) 0) s1 (by simp [zeros]) hp (by
      intro x hx _
      refine ⟨1 + (p.count x : Int), ?_, Int.le_refl _⟩
      rw [g1 x]; simp [hx]) r1 rfl
  obtain ⟨e', l1, l2, l3⟩ := sim_last (p.length + 2) st.1 st2.1 st.2 r2 s2 s3
  obtain ⟨d, m1, m2, m3, m4⟩ := newDense_some (p.length + 2) e' l2
  obtain ⟨d', n1, n2, n3, n4⟩ := Codec.newDense_ok (p.length + 2) e' l2
  refine ⟨d, d', ?_, ?_, m4, m2, n3, by rw [n4, m3], n2⟩
  · rw [pruferDecode_unfold, e1]
    simp only [Outcome.bind_ok]
    have h1' : p.foldlM (pruferStep (p.length + 2)) (d1, zeros (((p.length + 2) * (p.length + 2 - 1)) / 2)) = .ok st := h1
    rw [h1']; simp only [Outcome.bind_ok]
    refine (congrArg (fun x => x >>= fun edges => newDense (p.length + 2) (some edges)) (show _ = Outcome.ok e' from l1)).trans ?_
    exact m1
  · obtain ⟨b2, ed2⟩ := st2
    simp only at r3 l3 r2
    subst r3
    unfold Codec.pruferDecode
    simp only [f2, h2]
    exact l3.trans n1


theorem toG_eq_abs (d : Dense) (d' : Codec.Dense) (hn : d'.n = d.n) (he : d'.edges = d.edges)
    (hs : d.edges.size = tri d.n) : d'.toG = d.abs := by
  have hs' : d'.edges.size = Codec.tri d'.n := by rw [he, hn]; exact hs
  have hw' := Codec.Dense.toG_wf d'
  have hw := Dense.abs_wf d hs
  have key : ∀ a b, a < b → d'.toG.adj a b = d.abs.adj a b := by
    intro a b hab
    by_cases hb : b < d.n
    · rw [Codec.Dense.toG_adj_lt hs' hab (by rw [hn]; exact hb), he]
      have ha : a < d.n := by omega
      simp [Dense.abs, Dense.adj_eq d hs, Dense.adjF, hab, ha, hb, bitAt, tri_eq_codec]
    · have h1 : d'.toG.adj a b = false := by
        rw [Bool.eq_false_iff]; intro h; have := (hw'.supp a b h).2
        have : b < d.n := by rw [← hn]; exact this
        exact hb this
      have h2 : d.abs.adj a b = false := by
        rw [Bool.eq_false_iff]; intro h; exact hb (hw.supp a b h).2
      rw [h1, h2]
  refine G_ext hn ?_
  intro a b
  rcases Nat.lt_trichotomy a b with h | h | h
  · exact key a b h
  · subst h; rw [hw'.irrefl, hw.irrefl]
  · rw [hw'.symm, hw.symm a b]; exact key b a h

/-- `PruferDecode` on an in-range code: no panic, well formed, and the result is a labelled tree -/
theorem pruferDecode_tree (p : List Nat) (hp : ∀ v ∈ p, v < p.length + 2) :
    ∃ d, pruferDecode p = .ok d ∧ d.WF ∧ d.n = p.length + 2 ∧ Codec.IsTree d.abs := by
  obtain ⟨d, d', h1, h2, w, hn, hn', he, _⟩ := pruferDecode_sim p hp
  obtain ⟨d'', g1, _, _, ht⟩ := Codec.prufer_decode_tree p hp
  rw [h2] at g1; cases g1
  refine ⟨d, h1, w, hn, ?_⟩
  rw [← toG_eq_abs d d' (by rw [hn', hn]) he w.size_edges]
  exact ht

theorem randomTree_tree (n : Nat) (hn : 2 ≤ n) (draw : Nat → Nat) (hdraw : ∀ i, draw i < n) :
    ∃ d, randomTree n draw = .ok d ∧ d.WF ∧ d.n = n ∧ Codec.IsTree d.abs := by
  have hlen : ((List.range (n - 2)).map draw).length + 2 = n := by simp; omega
  obtain ⟨d, e, w, h, t⟩ := pruferDecode_tree ((List.range (n - 2)).map draw) (by
    intro v hv
    simp only [List.mem_map] at hv
    obtain ⟨i, _, rfl⟩ := hv
    rw [hlen]; exact hdraw i)
  refine ⟨d, ?_, w, by omega, t⟩
  have : ¬ n < 2 := by omega
  simp only [randomTree, this, ↓reduceIte]
  exact e


end Construct
