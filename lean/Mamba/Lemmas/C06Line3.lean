import Mamba.Lemmas.C06Line2
/-! C06: `LineGraphDense` — the loop and the main theorem. -/
namespace Construct
open GraphSpec


theorem lgFold (g : GraphI) (gs : G) (m : Nat) (Q P : List (Nat × Nat)) (st : LineSt)
    (hPQ : P ++ Q = pairs gs.n)
    (hedge : ∀ p ∈ pairs gs.n, g.isEdge p.1 p.2 = .ok (gs.adj p.1 p.2))
    (hm : m = ((pairs gs.n).filter fun p => gs.adj p.1 p.2).length)
    (hinv : LgInv m (P.filter fun p => gs.adj p.1 p.2) st) :
    ∃ st', Q.foldlM (lgStep g) st = .ok st' ∧ LgInv m ((pairs gs.n).filter fun p => gs.adj p.1 p.2) st' := by
  induction Q generalizing P st with
  | nil => refine ⟨st, rfl, ?_⟩; rw [← hPQ]; simpa using hinv
  | cons q Q' ih =>
    have hq : q ∈ pairs gs.n := by rw [← hPQ]; simp
    have hPQ' : (P ++ [q]) ++ Q' = pairs gs.n := by rw [← hPQ]; simp
    by_cases ha : gs.adj q.1 q.2 = true
    · have hpw := pairwise_pairs gs.n
      rw [← hPQ, List.pairwise_append] at hpw
      obtain ⟨hpP, _, hpPQ⟩ := hpw
      obtain ⟨st1, e1, inv1⟩ := lgStep_edge g m (P.filter fun p => gs.adj p.1 p.2) st q.1 q.2 hinv
        (by
          rw [hm, ← hPQ, List.filter_append, List.length_append, List.filter_cons]
          simp [ha])
        (hpP.sublist List.filter_sublist)
        (by
          intro p hp
          have hpP' : p ∈ P := (List.mem_filter.mp hp).1
          have : p ∈ pairs gs.n := by rw [← hPQ]; simp [hpP']
          exact ⟨(mem_pairs.mp this).1, hpPQ p hpP' q (by simp)⟩)
        (mem_pairs.mp hq).1
        (by rw [hedge q hq, ha])
      obtain ⟨st', e2, inv2⟩ := ih (P ++ [q]) st1 hPQ' (by
        rw [List.filter_append, List.filter_cons]; simpa [ha] using inv1)
      exact ⟨st', by simp only [List.foldlM_cons]; rw [e1]; exact e2, inv2⟩
    · have ha0 : gs.adj q.1 q.2 = false := by simpa using ha
      obtain ⟨st', e2, inv2⟩ := ih (P ++ [q]) st hPQ' (by
        rw [List.filter_append, List.filter_cons]; simpa [ha0] using hinv)
      refine ⟨st', ?_, inv2⟩
      simp only [List.foldlM_cons, lgStep, hedge q hq, ha0, Outcome.bind_ok, Bool.false_eq_true, ↓reduceIte, Outcome.pure_eq]
      exact e2

theorem lineGraphDense_unfold (g : GraphI) : lineGraphDense g =
    g.m >>= fun gm => if gm < 0 then .panic else
      (pairs g.n).foldlM (lgStep g) { edges := zeros ((gm.toNat * (gm.toNat - 1)) / 2), lower := #[], upper := #[], mIndex := 0 }
        >>= fun st => newDense gm.toNat (some st.edges) := by
  unfold lineGraphDense; rfl

theorem lineGraph_eq (gs : G) : Families.lineGraph gs =
    Families.symm gs.edges.length fun a b => share (gs.edges.getD a (0, 0)) (gs.edges.getD b (0, 0)) := by
  refine G_ext (show _ = _ from rfl) ?_
  intro u v
  simp only [Families.lineGraph, Families.symm]
  by_cases hu : u < gs.edges.length
  · by_cases hv : v < gs.edges.length
    · simp [hu, hv, List.getD, share]
    · simp [hv]
  · simp [hu]

theorem lineGraphDense_ok (g : GraphI) (gs : G) (hs : g.Sound gs) :
    ∃ d, lineGraphDense g = .ok d ∧ d.WF ∧ d.abs = Families.lineGraph gs := by
  have hes : gs.edges = (pairs gs.n).filter fun p => gs.adj p.1 p.2 := edges_eq_filter gs
  have hm : gs.m = ((pairs gs.n).filter fun p => gs.adj p.1 p.2).length := by rw [G.m, hes]
  obtain ⟨st', f1, inv⟩ := lgFold g gs gs.m (pairs gs.n) []
    { edges := zeros (tri gs.m), lower := #[], upper := #[], mIndex := 0 } (by simp)
    (by intro p hp; obtain ⟨h1, h2⟩ := mem_pairs.mp hp; exact hs.isEdge _ _ (by omega) h2) hm
    ⟨rfl, rfl, rfl, by simp [zeros], by intro x; simp [bitAt_zeros, lgBit, pairs]⟩
  obtain ⟨d, e, hn, hedges, hwf⟩ := newDense_some gs.m st'.edges inv.size
  have hsz : d.edges.size = tri d.n := hwf.size_edges
  refine ⟨d, ?_, hwf, ?_⟩
  · rw [lineGraphDense_unfold]
    have h0 : ¬ ((gs.m : Int) < 0) := by omega
    simp only [hs.m, Outcome.bind_ok, h0, ↓reduceIte, Int.toNat_natCast, hs.n, tri_def]
    rw [f1]; exact e
  · have hlen : gs.edges.length = d.n := by rw [hn]; rfl
    rw [lineGraph_eq, hlen]
    apply abs_eq_symm d hsz
    intro a b hab hb
    rw [hedges, inv.bits, ← hes, share_comm (gs.edges.getD b (0, 0)), Bool.or_self]
    have hb' : b < gs.edges.length := by omega
    unfold lgBit
    rw [Bool.eq_iff_iff, List.any_eq_true]
    constructor
    · rintro ⟨ab, hmem, h⟩
      obtain ⟨h1, h2⟩ := mem_pairs.mp hmem
      simp only [Bool.and_eq_true, beq_iff_eq] at h
      have := tri_inj hab h1 h.1
      rw [this.1, this.2]; exact h.2
    · intro h
      exact ⟨(a, b), mem_pairs.mpr ⟨hab, hb'⟩, by simp only [beq_self_eq_true, Bool.true_and]; exact h⟩


end Construct
