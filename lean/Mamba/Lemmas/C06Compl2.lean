import Mamba.Lemmas.C06Compl
/-! C06: `ComplementDense` (main theorem). -/
namespace Construct
open GraphSpec


theorem cd_list (n : Nat) :
    ((List.range' 1 (n - 1)).flatMap fun i => (List.range i).map fun j => (i, j)) = (pairs n).map Prod.swap := by
  cases n with
  | zero => simp [pairs]
  | succ k =>
    have : List.range (k + 1) = 0 :: List.range' 1 k := by
      rw [List.range_eq_range', List.range'_succ]
    simp only [pairs, this, List.flatMap_cons, List.range_zero, List.map_nil, List.nil_append, Nat.add_sub_cancel,
      List.map_flatMap, List.map_map]
    rfl

theorem degFold (old : Array Int) (c : Int) (l : List Nat) (d : Array Int)
    (h : ∀ i ∈ l, i < old.size ∧ i < d.size) :
    ∃ d', l.foldlM (fun d i => do
        let o ← getAt old i
        setAt d i (c - o)) d = .ok d' ∧ d'.size = d.size ∧
      ∀ k, d'[k]? = if k ∈ l then some (c - old.getD k 0) else d[k]? := by
  induction l generalizing d with
  | nil => exact ⟨d, rfl, rfl, by simp⟩
  | cons i t ih =>
    obtain ⟨h1, h2⟩ := h i (by simp)
    obtain ⟨d', f1, f2, f3⟩ := ih (d.set i (c - old[i])) (by
      intro j hj; have := h j (by simp [hj]); simpa using this)
    refine ⟨d', ?_, by simpa using f2, ?_⟩
    · simp only [List.foldlM_cons, getAt_ok h1, Outcome.bind_ok, setAt_ok _ h2]; exact f1
    · intro k
      rw [f3 k]
      by_cases hk : k ∈ t
      · simp [hk]
      · by_cases hki : k = i
        · subst hki; simp [hk, Array.getD, h1, h2]
        · have : ¬ i = k := fun e => hki e.symm
          simp [hk, hki, Array.getElem?_set, this]

theorem complementDense_ok (g : GraphI) (gs : G) (hs : g.Sound gs) (hw : gs.WF) :
    ∃ d, complementDense g = .ok d ∧ d.WF ∧ d.abs = gs.complement := by
  have hn : g.n = gs.n := hs.n
  -- degrees
  have hold : ((gs.degrees.map Int.ofNat).toArray).size = gs.n := by simp [G.degrees]
  obtain ⟨dg, g1, g2, g3⟩ := degFold (gs.degrees.map Int.ofNat).toArray ((gs.n : Int) - 1) (List.range gs.n)
    (Array.replicate gs.n 0) (by intro i hi; have := List.mem_range.mp hi; simp [G.degrees]; exact this)
  -- edges
  let L := (pairs gs.n).map Prod.swap
  let posf : Nat × Nat → Nat := fun p => tri p.1 + p.2
  obtain ⟨e, e1, e2, e3⟩ := cdFold g gs.adj posf L (zeros (tri gs.n), 0)
    (by
      intro k hk
      have hk' : k < (pairs gs.n).length := by simpa [L] using hk
      have := pos_getElem_pairs gs.n k hk'
      simp only [L, List.getElem_map, posf, Prod.swap, Nat.zero_add]
      exact this)
    (by simp [L, length_pairs, zeros])
    (by
      intro p hp
      simp only [L, List.mem_map] at hp
      obtain ⟨q, hq, rfl⟩ := hp
      obtain ⟨h1, h2⟩ := mem_pairs.mp hq
      exact hs.isEdge _ _ h2 (by show q.1 < gs.n; omega))
  let d : Dense := ⟨gs.n, ((tri gs.n : Nat) : Int) - gs.m, dg, e⟩
  have hsz : d.edges.size = tri d.n := by simpa [zeros] using e2
  have habs : d.abs = gs.complement := by
    refine G_ext (show _ = _ from rfl) ?_
    intro u v
    simp only [Dense.abs, Dense.adj_eq d hsz, Dense.adjF, G.complement]
    have key : ∀ a b, a < b → b < gs.n → bitAt e (tri b + a) = !gs.adj b a := by
      intro a b hab hb
      rw [e3, bitAt_zeros, Bool.false_or, Bool.eq_iff_iff, List.any_eq_true]
      constructor
      · rintro ⟨p, hp, hpp⟩
        simp only [L, List.mem_map] at hp
        obtain ⟨q, hq, rfl⟩ := hp
        obtain ⟨h1, h2⟩ := mem_pairs.mp hq
        simp only [posf, Prod.swap, Bool.and_eq_true, beq_iff_eq] at hpp
        have := tri_inj h1 hab hpp.1
        rw [← this.1, ← this.2]; exact hpp.2
      · intro h
        refine ⟨(b, a), ?_, by simp [posf, h]⟩
        simp only [L, List.mem_map]
        exact ⟨(a, b), mem_pairs.mpr ⟨hab, hb⟩, rfl⟩
    rcases Nat.lt_trichotomy u v with huv | huv | huv
    · have h1 : ¬ v < u := by omega
      have h2 : u ≠ v := by omega
      by_cases hv : v < gs.n
      · have hu : u < gs.n := by omega
        simp [d, huv, hu, hv, h2, key u v huv hv, hw.symm v u]
      · simp [d, hv]
    · subst huv; simp
    · have h1 : ¬ u < v := by omega
      have h2 : u ≠ v := by omega
      by_cases hu : u < gs.n
      · have hv : v < gs.n := by omega
        simp [d, huv, h1, hu, hv, h2, key v u huv hu]
      · simp [d, hu]
  refine ⟨d, ?_, ⟨hsz, by simpa using g2, ?_, ?_⟩, habs⟩
  · unfold complementDense
    simp only [hs.m, hs.degrees, hn, Outcome.bind_ok, Array.size_replicate, tri_def, Outcome.pure_eq]
    rw [g1]
    simp only [Outcome.bind_ok, cd_list]
    have : (fun (st : Array Nat × Nat) (p : Nat × Nat) => (do
        let b ← g.isEdge p.1 p.2
        let e ← (if !b then setAt st.1 st.2 1 else pure st.1 : Outcome (Array Nat))
        pure (e, st.2 + 1) : Outcome (Array Nat × Nat))) = cdStep g := rfl
    simp only [Outcome.pure_eq] at this
    rw [this, e1]
    rfl
  · show ((tri gs.n : Nat) : Int) - gs.m = ((d.abs).m : Int)
    rw [habs]
    have := complement_m gs
    omega
  · intro v hv
    have hv' : v < gs.n := hv
    show dg[v]? = some ((d.abs.deg v : Nat) : Int)
    rw [habs, g3 v]
    have := complement_deg gs hw v hv'
    simp only [List.mem_range, hv', ↓reduceIte, Option.some.injEq]
    have hd : (gs.degrees.map Int.ofNat).toArray.getD v 0 = (gs.deg v : Int) := by
      simp [Array.getD, G.degrees, hv']
    rw [hd]; omega




theorem complementView_sound (c : GraphI) (g : G) (hs : c.Sound g) (hw : g.WF) :
    (complementView c).Sound g.complement where
  n := hs.n
  m := by
    simp only [complementView, hs.m, hs.n, Outcome.bind_ok, Outcome.pure_eq, tri_def]
    have := complement_m g
    congr 1; omega
  isEdge := by
    intro u v hu hv
    have hu' : u < g.n := hu
    have hv' : v < g.n := hv
    simp only [complementView]
    by_cases huv : u = v
    · subst huv; simp [G.complement]
    · simp [huv, hs.isEdge u v hu' hv', G.complement, hu', hv']
  neighbours := by
    intro v hv
    have hv' : v < g.n := hv
    simp only [complementView, hs.neighbours v hv', Outcome.bind_ok, Outcome.pure_eq, hs.n]
    congr 1
    simp only [sortedComplement, G.nbrs, G.complement, List.filter_filter]
    apply List.filter_congr
    intro u hu
    have hu' := List.mem_range.mp hu
    have : ((List.range g.n).filter fun u => g.adj v u).contains u = g.adj v u := by
      rw [Bool.eq_iff_iff]; simp [hu']
    rw [this]
    by_cases huv : u = v
    · subst huv; simp
    · have h1 : (u != v) = true := by simp [huv]
      have h2 : (v != u) = true := by simp; exact fun e => huv e.symm
      simp [h1, h2, hv', hu']
  degrees := by
    simp only [complementView, hs.degrees, Outcome.bind_ok, Outcome.pure_eq, hs.n]
    congr 1
    simp only [G.degrees, List.map_map]
    show List.map _ (List.range g.n) = List.map _ (List.range g.n)
    apply List.map_congr_left
    intro v hv
    have hv' := List.mem_range.mp hv
    have := complement_deg g hw v hv'
    simp only [Function.comp]
    show (g.n : Int) - 1 - (g.deg v : Int) = (g.complement.deg v : Int)
    omega


end Construct
