import Mamba.Lemmas.CanonFPruneLink
import Mamba.Lemmas.CanonFGens
/-!
# Soundness of the orbit pruning (Heuristic 2) and of the backjump (Heuristic 1) at the level of the IR tree

Vertices connected by colour-preserving automorphisms have children with the same leaf certificates.
-/
namespace CanonF
open Relation

/-- one colour-preserving automorphism maps the subtree of the child `v` onto the subtree of the child `γ v` -/
theorem osound_step {n : Nat} {nb : Nbrs} (hnb : NbOK nb n) (rf : Nat) {ν : IR.St} {γ : List Nat}
    (haut : IsAutL nb n γ) (hcol : ∀ v, v < n → IR.col ν.c (γ.getD v 0) = IR.col ν.c v)
    {v : Nat} (hv : v < n) (t : Nat) (x : List Nat) :
    IR.CertBelow (irG n nb) rf (IR.childSt (irG n nb) rf ν t (γ.getD v 0)) x ↔
      IR.CertBelow (irG n nb) rf (IR.childSt (irG n nb) rf ν t v) x := by
  obtain ⟨τ, R⟩ := relabel_of_isAutL hnb haut
  have hS : IR.SRel (irG n nb) (fun v => γ.getD v 0) ν ν := ⟨fun u hu => hcol u hu, rfl, rfl⟩
  exact IR.certBelow_child_aut_iff R rf hS (t := t) (v := v) hv

theorem osound_eqvGen_aux {n : Nat} {nb : Nbrs} (hnb : NbOK nb n) (rf : Nat) {ν : IR.St} {S : List Nat → Prop}
    (hS : ∀ γ, S γ → IsAutL nb n γ ∧ ∀ v, v < n → IR.col ν.c (γ.getD v 0) = IR.col ν.c v)
    {a b : Nat} (h : EqvGen (fun x y => ∃ γ, S γ ∧ γ[x]? = some y) a b) :
    (a < n ↔ b < n) ∧ (a < n → IR.col ν.c b = IR.col ν.c a ∧
      ∀ t x, IR.CertBelow (irG n nb) rf (IR.childSt (irG n nb) rf ν t b) x ↔
        IR.CertBelow (irG n nb) rf (IR.childSt (irG n nb) rf ν t a) x) := by
  induction h with
  | rel a b hab =>
    obtain ⟨γ, hγ, e⟩ := hab
    obtain ⟨haut, hcol⟩ := hS γ hγ
    obtain ⟨hl, hnd, hmem⟩ := aut_perm_facts haut.1
    obtain ⟨hlt, e'⟩ := List.getElem?_eq_some_iff.1 e
    have ha : a < n := by omega
    have hb : b < n := (hmem b).1 (by rw [← e']; exact List.getElem_mem _)
    have eb : γ.getD a 0 = b := by rw [List.getD_eq_getElem?_getD, e, Option.getD_some]
    refine ⟨⟨fun _ => hb, fun _ => ha⟩, fun _ => ⟨?_, ?_⟩⟩
    · rw [← eb]; exact hcol a ha
    · intro t x
      rw [← eb]; exact osound_step hnb rf haut hcol ha t x
  | refl a => exact ⟨Iff.rfl, fun _ => ⟨rfl, fun _ _ => Iff.rfl⟩⟩
  | symm a b _ ih =>
    obtain ⟨i1, i2⟩ := ih
    refine ⟨i1.symm, fun hb => ?_⟩
    obtain ⟨c, f⟩ := i2 (i1.2 hb)
    exact ⟨c.symm, fun t x => (f t x).symm⟩
  | trans a b c _ _ ih1 ih2 =>
    obtain ⟨i1, i2⟩ := ih1
    obtain ⟨j1, j2⟩ := ih2
    refine ⟨i1.trans j1, fun ha => ?_⟩
    obtain ⟨c1, f1⟩ := i2 ha
    obtain ⟨c2, f2⟩ := j2 (i1.1 ha)
    exact ⟨c2.trans c1, fun t x => (f2 t x).trans (f1 t x)⟩

/-- vertices connected by colour-preserving automorphisms have children with the same leaf certificates -/
theorem eqvGen_subtree {n : Nat} {nb : Nbrs} (hnb : NbOK nb n) (rf : Nat) {ν : IR.St} {S : List Nat → Prop}
    (hS : ∀ γ, S γ → IsAutL nb n γ ∧ ∀ v, v < n → IR.col ν.c (γ.getD v 0) = IR.col ν.c v)
    {a b : Nat} (ha : a < n) (h : EqvGen (fun x y => ∃ γ, S γ ∧ γ[x]? = some y) a b) :
    b < n ∧ IR.col ν.c b = IR.col ν.c a ∧
      ∀ t x, IR.CertBelow (irG n nb) rf (IR.childSt (irG n nb) rf ν t b) x ↔
        IR.CertBelow (irG n nb) rf (IR.childSt (irG n nb) rf ν t a) x := by
  obtain ⟨i1, i2⟩ := osound_eqvGen_aux hnb rf hS h
  exact ⟨i1.1 ha, i2 ha⟩

/-- Heuristic 2: a vertex in the orbit of `w` (under the recorded generators, all of which preserve the colouring of the
node `ν`) has a child with the same leaf certificates as the child `w` -/
theorem deferred_root_sound {n : Nat} {nb : Nbrs} (hnb : NbOK nb n) (rf : Nat) {ν : IR.St} {gens : Array (Sl Nat)}
    {ngens : Nat} {ds : Disjoint.DS}
    (hgens : ∀ k, k < ngens → ∃ γ, gens[k]? = some γ ∧ IsAutL nb n γ.toList ∧
      ∀ v, v < n → IR.col ν.c (γ.toList.getD v 0) = IR.col ν.c v)
    (horb : ∀ a b, a < n → b < n → Disjoint.rep ds a = Disjoint.rep ds b → EqvGen (GenRelA gens ngens) a b)
    {w ρ : Nat} (hw : w < n) (hρ : ρ < n) (hrep : Disjoint.rep ds ρ = Disjoint.rep ds w) :
    IR.col ν.c ρ = IR.col ν.c w ∧
      ∀ t x, IR.CertBelow (irG n nb) rf (IR.childSt (irG n nb) rf ν t ρ) x ↔
        IR.CertBelow (irG n nb) rf (IR.childSt (irG n nb) rf ν t w) x := by
  have hS : ∀ γ, (∃ k g, k < ngens ∧ gens[k]? = some g ∧ g.toList = γ) →
      IsAutL nb n γ ∧ ∀ v, v < n → IR.col ν.c (γ.getD v 0) = IR.col ν.c v := by
    rintro γ ⟨k, g, hk, hg, rfl⟩
    obtain ⟨g', hg', h1, h2⟩ := hgens k hk
    rw [hg] at hg'
    cases hg'
    exact ⟨h1, h2⟩
  have h := horb w ρ hw hρ hrep.symm
  have h' : EqvGen (fun x y => ∃ γ, (∃ k g, k < ngens ∧ gens[k]? = some g ∧ g.toList = γ) ∧ γ[x]? = some y) w ρ := by
    apply eqvGen_of_imp _ h
    rintro x y ⟨k, g, hk, hg, e⟩
    exact EqvGen.rel _ _ ⟨g.toList, ⟨k, g, hk, hg, rfl⟩, e⟩
  exact (eqvGen_subtree hnb rf hS hw h').2

/-- Heuristic 1: two leaves below the node `ν` with the same certificate; the vertex `c` at the position of `b` in the
other leaf has a child with the same leaf certificates as the child `b` -/
theorem backjump_sound {n : Nat} {nb : Nbrs} (hnb : NbOK nb n) (rf : Nat) {ν : IR.St} {o1 o2 : List Nat}
    (h1 : o1.Perm (List.range n)) (h2 : o2.Perm (List.range n))
    (hm1 : IR.Mono n ν.c (IR.tab n (fun v => o1.idxOf v))) (hm2 : IR.Mono n ν.c (IR.tab n (fun v => o2.idxOf v)))
    (hc : certPos nb o1 n = certPos nb o2 n) {t b c : Nat} (hb : b < n) (hpos : o2[o1.idxOf b]? = some c)
    (x : List Nat) :
    IR.CertBelow (irG n nb) rf (IR.childSt (irG n nb) rf ν t c) x ↔
      IR.CertBelow (irG n nb) rf (IR.childSt (irG n nb) rf ν t b) x := by
  have e : (transport n o1 o2).getD b 0 = c := by
    rw [aut_transport_getD hb, List.getD_eq_getElem?_getD, hpos, Option.getD_some]
  rw [← e]
  exact equal_leaves_subtrees hnb rf h1 h2 hm1 hm2 hc hb x

end CanonF
