import Mamba.Lemmas.CanonSpecs1
namespace Search
open Disjoint GSearch GraphSpec

theorem addVertex_fold_ok (old : Nat) :
    ∀ (l : List Nat) (p : Array Nat × Array Int), (∀ v ∈ l, old + v < p.1.size ∧ v < p.2.size) →
      ∃ q, l.foldlM (m := Outcome) (fun (p : Array Nat × Array Int) v =>
        if old + v < p.1.size ∧ v < p.2.size then
          Outcome.ok (p.1.setIfInBounds (old + v) 1, p.2.modify v (· + 1))
        else Outcome.panic) p = .ok q
  | [], p, _ => ⟨p, rfl⟩
  | v :: vs, p, h => by
    have hv := h v List.mem_cons_self
    simp only [List.foldlM_cons, hv, and_self, if_true]
    exact addVertex_fold_ok old vs _ (fun w hw => by
      have := h w (List.mem_cons_of_mem _ hw)
      simpa using this)

/-- `AddVertex` with in-range neighbours does not panic -/
theorem addVertex_ok {g : DG} (hs : g.Sized) {l : List Nat} (hl : ∀ v ∈ l, v < g.nv) :
    ∃ g', g.addVertex l = .ok g' := by
  unfold DG.addVertex
  simp only [hs.edges, ne_eq, not_true_eq_false, if_false]
  obtain ⟨q, hq⟩ := addVertex_fold_ok (tri g.nv) l (g.edges ++ Array.replicate g.nv 0, g.degs) (by
    intro v hv
    have := hl v hv
    simp only [Array.size_append, Array.size_replicate, hs.edges, hs.degs]
    omega)
  rw [hq]
  exact ⟨_, rfl⟩

/-- extending a built copy of the first `k+1` vertices of `Y` by the next vertex -/
theorem built_step (Y : G) (hY : Y.WF) {P : DG} (hP : Built P) {k : Nat} (hPn : P.nv = k + 1)
    (hPadj : ∀ u v, u < k + 1 → v < k + 1 → P.toG.adj u v = Y.adj u v) :
    ∃ (g2 : DG) (x : Nat), InRange P x ∧ P.addVertex (bitsOf x) = .ok g2 ∧
      ∀ u v, u < k + 2 → v < k + 2 → g2.toG.adj u v = Y.adj u v := by
  let l : List Nat := (List.range (k + 1)).filter fun u => Y.adj u (k + 1)
  let x : Nat := maskOf l
  have hxr : InRange P x := by
    intro v hv
    have := mem_bitsOf_maskOf.1 hv
    rw [hPn]; exact List.mem_range.1 (List.mem_filter.1 this).1
  obtain ⟨g2, hg2⟩ := addVertex_ok hP.sized hxr
  refine ⟨g2, x, hxr, hg2, ?_⟩
  have htoG := addVertex_toG hP.sized (bitsOf_nodup x) hxr hg2
  have hmem : ∀ u, u < k + 1 → ((bitsOf x).contains u = Y.adj u (k + 1)) := by
    intro u hu
    cases hc : Y.adj u (k + 1)
    · have : ¬ u ∈ bitsOf x := by
        intro hm
        have := (List.mem_filter.1 (mem_bitsOf_maskOf.1 hm)).2
        rw [hc] at this; cases this
      simpa [List.contains_iff_mem] using this
    · exact List.contains_iff_mem.2 (mem_bitsOf_maskOf.2 (List.mem_filter.2 ⟨List.mem_range.2 hu, hc⟩))
  have hPn' : P.toG.n = k + 1 := hPn
  intro u v hu hv
  rw [htoG]
  by_cases h1 : u < k + 1 <;> by_cases h2 : v < k + 1
  · rw [ext_adj_old (g := P.toG) _ (show u < P.toG.n by omega) (show v < P.toG.n by omega)]
    exact hPadj u v h1 h2
  · have : v = k + 1 := by omega
    subst this
    have e := ext_adj_new (g := P.toG) (bitsOf x) (show u < P.toG.n by omega)
    rw [show P.toG.n = P.nv from rfl, hPn] at e
    rw [e]; exact hmem u h1
  · have : u = k + 1 := by omega
    subst this
    have e := ext_adj_new (g := P.toG) (bitsOf x) (show v < P.toG.n by omega)
    rw [show P.toG.n = P.nv from rfl, hPn] at e
    rw [(ext_wf (toG_wf P) _).symm, e, hY.symm]; exact hmem v h2
  · have hu' : u = k + 1 := by omega
    have hv' : v = k + 1 := by omega
    subst hu'; subst hv'
    have : P.toG.n = k + 1 := hPn
    rw [← this, (ext_wf (toG_wf P) _).irrefl, this, hY.irrefl]

/-- every well-formed graph restricted to its first `k ≥ 1` vertices has a built copy -/
theorem exists_built (Y : G) (hY : Y.WF) :
    ∀ k, 1 ≤ k → ∃ g, Built g ∧ g.nv = k ∧ ∀ u v, u < k → v < k → g.toG.adj u v = Y.adj u v
  | 0, h => by omega
  | 1, _ => by
    refine ⟨K1, Built.one, rfl, ?_⟩
    intro u v hu hv
    have hu0 : u = 0 := by omega
    have hv0 : v = 0 := by omega
    subst hu0; subst hv0
    rw [(toG_wf K1).irrefl, hY.irrefl]
  | k + 2, _ => by
    obtain ⟨P, hP, hPn, hPadj⟩ := exists_built Y hY (k + 1) (by omega)
    obtain ⟨g2, x, hxr, hg2, hadj⟩ := built_step Y hY hP hPn hPadj
    exact ⟨g2, hP.child hxr hg2, by rw [addVertex_nv hg2, hPn], hadj⟩

/-- every well-formed graph on at least two vertices is (equal on its vertices to) a child of a built graph -/
theorem exists_built_child (Y : G) (hY : Y.WF) (h2 : 2 ≤ Y.n) :
    ∃ (P g2 : DG) (x : Nat), Built P ∧ P.nv + 1 = Y.n ∧ InRange P x ∧ P.addVertex (bitsOf x) = .ok g2 ∧
      ∀ u v, u < Y.n → v < Y.n → g2.toG.adj u v = Y.adj u v := by
  obtain ⟨k, hk⟩ : ∃ k, Y.n = k + 2 := ⟨Y.n - 2, by omega⟩
  obtain ⟨P, hP, hPn, hPadj⟩ := exists_built Y hY (k + 1) (by omega)
  obtain ⟨g2, x, hxr, hg2, hadj⟩ := built_step Y hY hP hPn hPadj
  exact ⟨P, g2, x, hP, by omega, hxr, hg2, by rw [hk]; exact hadj⟩

end Search
