import Mamba.Lemmas.DistanceBiconLow
/-!
# Lowpoint / articulation bookkeeping: emission and pop
-/
namespace GDist
open GraphSpec Model

variable {h : G} {st : BicSt} {tp : Nat → Nat}

theorem la_emit (com : List Nat) (dt : DT h st tp) (la : LA h st tp) {v u : Nat} {cur : List Nat}
    (hvn : v < h.n) (hu : u < h.n) (huv : bvis st u) (hu0 : u ≠ 0) (hunot : u ∉ st.toCheck)
    (hpu : pa st u = (v : Int)) (hv0 : v ≠ 0) (hlu : lo st u ≥ dI st v) :
    LA h (emitSt com st v u cur) tp := by
  have huP : u < st.parents.size := by rw [dt.ok.psz]; exact hu
  have hvA : v < st.isArt.size := by rw [dt.ok.asz]; exact hvn
  have hp : ∀ x, pa (emitSt com st v u cur) x = if x = u then -1 else pa st x := pa_emitSt com huP
  have hia : ∀ x, isA (emitSt com st v u cur) x = if x = v then true else isA st x := isA_emitSt com hvA
  have htu : tp u = v := by
    rcases la.ar1 u hu huv hu0 with h0 | h0
    · rw [hpu] at h0; omega
    · rw [hpu] at h0; omega
  refine { lole := la.lole, lob := la.lob, loatt := la.loatt, ar1 := ?_, ar2 := ?_, ar3 := ?_, ar4 := ?_,
           ar5 := la.ar5 }
  · intro c hc hcv hc0
    rw [hp]
    by_cases hcu : c = u
    · simp [hcu]
    · simp only [hcu, if_false]; exact la.ar1 c hc hcv hc0
  · intro c hc hcv hc0 hpc
    rw [hp] at hpc
    by_cases hcu : c = u
    · subst hcu
      refine ⟨hunot, by rw [htu]; exact hv0, by rw [htu]; exact hlu, ?_⟩
      rw [htu, hia]; simp
    · simp only [hcu, if_false] at hpc
      obtain ⟨h1, h2, h3, h4⟩ := la.ar2 c hc hcv hc0 hpc
      refine ⟨h1, h2, h3, ?_⟩
      rw [hia]; split
      · rfl
      · exact h4
  · intro c hc hcv hcs hc0 hpc htc hlc
    rw [hp] at hpc
    have hcu : c ≠ u := by
      rintro rfl
      simp at hpc
    simp only [hcu, if_false] at hpc
    exact la.ar3 c hc hcv hcs hc0 hpc htc hlc
  · intro x hx hxa
    rw [hia] at hxa
    by_cases hxv : x = v
    · subst hxv
      exact ⟨hv0, u, hu, huv, hunot, hu0, htu, hlu⟩
    · simp only [hxv, if_false] at hxa
      exact la.ar4 x hx hxa

/-- facts about the value `t` assigned to `lowpoints[v]` when the scan of `v` is complete -/
structure LowT (h : G) (st : BicSt) (v : Nat) (t : Int) : Prop where
  le : t ≤ dI st v
  lb : ∀ u, h.adj v u = true → u < h.n → (u : Int) ≠ pa st v → t ≤ lo st u
  att : t = dI st v ∨ ∃ u, h.adj v u = true ∧ u < h.n ∧ (u : Int) ≠ pa st v ∧ t = lo st u

theorem la_pop (hirr : ∀ v, h.adj v v = false) (dt : DT h st tp) (la : LA h st tp) {v : Nat} {rest : List Nat}
    {t : Int} {bs : List (List Nat)} {c2 : List Nat} (hstk : st.toCheck = v :: rest)
    (hnb : ∀ w, h.adj v w = true → w < h.n → bvis st w) (lt : LowT h st v t)
    (hnopend : ∀ c, c < h.n → bvis st c → c ∉ st.toCheck → c ≠ 0 → pa st c = (v : Int) → v ≠ 0 →
      lo st c ≥ dI st v → False) :
    LA h (popSt st v rest t bs c2) tp := by
  have hvs : v ∈ st.toCheck := by rw [hstk]; exact List.mem_cons_self
  obtain ⟨hvn, hvv⟩ := dt.svis v hvs
  have hvL : v < st.low.size := by rw [dt.ok.lsz]; exact hvn
  have hl : ∀ x, lo (popSt st v rest t bs c2) x = if x = v then t else lo st x := lo_popSt rest t bs c2 hvL
  have hsd := dt.sdec
  rw [hstk] at hsd
  have hvnot : v ∉ rest := by
    intro hm
    have := (List.pairwise_cons.1 hsd).1 v hm
    omega
  -- the exclusion `u ≠ pa v` is the exclusion of the tree parent
  have hpav : ∀ a : Nat, h.adj v a = true → a ≠ tp v → ((a : Nat) : Int) ≠ pa st v := by
    intro a hadj hne
    by_cases hv0 : v = 0
    · subst hv0
      rw [dt.pa0]
      intro h0
      have : a = 0 := by omega
      subst this; rw [hirr] at hadj; cases hadj
    · rw [dt.pastk v hvs hv0]; omega
  have hpav' : ∀ a : Nat, ((a : Nat) : Int) ≠ pa st v → a ≠ tp v ∨ v = 0 := by
    intro a hne
    by_cases hv0 : v = 0
    · exact .inr hv0
    · left; rw [dt.pastk v hvs hv0] at hne; omega
  -- finished in the new state: `v` or finished before
  have hfin : ∀ x, x ∉ rest → x = v ∨ x ∉ st.toCheck := by
    intro x hx
    by_cases hxv : x = v
    · exact .inl hxv
    · right; rw [hstk]; intro hm
      rcases List.mem_cons.1 hm with h0 | h0
      · exact hxv h0
      · exact hx h0
  have hsubne : ∀ x, x ∉ st.toCheck → ∀ z, Anc tp x z → z ≠ v := by
    intro x hxs z ha hzv
    exact dt.sub_finished hxs ha (hzv ▸ hvs)
  refine { lole := ?_, lob := ?_, loatt := ?_, ar1 := la.ar1, ar2 := ?_, ar3 := ?_, ar4 := ?_, ar5 := la.ar5 }
  · intro x hx hxv
    rw [hl]
    by_cases hxeq : x = v
    · simp only [hxeq, if_true]; exact lt.le
    · simp only [hxeq, if_false]; exact la.lole x hx hxv
  · intro x hx hxv hxs z a hz ha hzv hza han hatp
    rw [hl]
    rcases hfin x hxs with rfl | hxs'
    · simp only [if_true]
      by_cases hzx : z = x
      · subst hzx
        have := lt.lb a hza han (hpav a hza hatp)
        show t ≤ dI st a
        exact Int.le_trans this (la.lole a han (hnb a hza han))
      · obtain ⟨c, hc1, hc2, hc3⟩ := anc_child ha hzx
        -- the child `c` of `v` above `z`
        have hcn : c < h.n ∧ bvis st c := by
          obtain ⟨k, hk⟩ := hc3
          have := dt.iter_vis hz hzv k
          rw [hk] at this; exact this
        have hc0 : c ≠ 0 := by
          intro h0; rw [h0, dt.tp0] at hc1; exact hc2 (h0.trans hc1)
        obtain ⟨_, _, hcadj, hcd⟩ := dt.tree c hcn.1 hcn.2 hc0
        rw [hc1] at hcadj hcd
        have hcs : c ∉ st.toCheck := by
          rw [hstk]; intro hm
          rcases List.mem_cons.1 hm with h0 | h0
          · exact hc2 h0
          · have := (List.pairwise_cons.1 hsd).1 c h0; omega
        have hctp : c ≠ tp x := by
          intro h0
          by_cases hx0 : x = 0
          · rw [hx0, dt.tp0] at h0; exact hc0 h0
          · obtain ⟨_, _, _, hxd⟩ := dt.tree x hx hvv hx0
            rw [← h0] at hxd; omega
        have h1 := lt.lb c hcadj hcn.1 (hpav c hcadj hctp)
        have h2 := la.lob c hcn.1 hcn.2 hcs z a hz hc3 hzv hza han hatp
        show t ≤ dI st a
        omega
    · have hxv' : x ≠ v := fun h0 => hxs' (h0 ▸ hvs)
      simp only [hxv', if_false]
      exact la.lob x hx hxv hxs' z a hz ha hzv hza han hatp
  · intro x hx hxv hxs
    rw [hl]
    rcases hfin x hxs with rfl | hxs'
    · simp only [if_true]
      rcases lt.att with h0 | ⟨u, hadj, hun, hupa, htu⟩
      · exact .inl h0
      · right
        have huvis := hnb u hadj hun
        have hutp : u ≠ tp x := by
          rcases hpav' u hupa with h0 | h0
          · exact h0
          · subst h0; rw [dt.tp0]; intro h1; subst h1; rw [hirr] at hadj; cases hadj
        by_cases hus : u ∈ st.toCheck
        · exact ⟨x, u, hx, Anc.refl _ _, hxv, hadj, hun, hutp, by rw [htu, dt.lostk u hus]; rfl⟩
        · rcases la.loatt u hun huvis hus with h1 | ⟨z, a, hz, ha, hzv, hza, han, hatp, hlo⟩
          · exact ⟨x, u, hx, Anc.refl _ _, hxv, hadj, hun, hutp, by rw [htu, h1]; rfl⟩
          · -- `u` is a finished neighbour of the top, hence a descendant
            have hanc : Anc tp x u := by
              rcases dt.nocross x u hx hun hxv huvis hadj with h1 | h1
              · exact h1
              · exact absurd (dt.anc_of_top_on_stack hstk h1) hus
            exact ⟨z, a, hz, hanc.trans ha, hzv, hza, han, hatp, by rw [htu, hlo]; rfl⟩
    · have hxv' : x ≠ v := fun h0 => hxs' (h0 ▸ hvs)
      simp only [hxv', if_false]
      exact la.loatt x hx hxv hxs'
  · intro c hc hcv hc0 hpc
    obtain ⟨h1, h2, h3, h4⟩ := la.ar2 c hc hcv hc0 hpc
    have hcv' : c ≠ v := fun h0 => h1 (h0 ▸ hvs)
    refine ⟨fun hm => h1 (by rw [hstk]; exact List.mem_cons_of_mem _ hm), h2, ?_, h4⟩
    rw [hl]; simp only [hcv', if_false]; exact h3
  · intro c hc hcv hcs hc0 hpc htc hlc
    rcases hfin c hcs with rfl | hcs'
    · -- the vertex just popped may be pending for its parent, which is the new top
      have hp := dt.path
      rw [hstk] at hp
      cases rest with
      | nil =>
        have : c = 0 := hp
        exact absurd this hc0
      | cons y rest' =>
        obtain ⟨hty, _, _⟩ := hp
        exact ⟨rest', by show y :: rest' = tp c :: rest'; rw [hty], dt.first c hvs hc0⟩
    · exfalso
      have hcv' : c ≠ v := fun h0 => hcs' (h0 ▸ hvs)
      rw [hl] at hlc
      simp only [hcv', if_false] at hlc
      obtain ⟨rest', hr, _⟩ := la.ar3 c hc hcv hcs' hc0 hpc htc hlc
      rw [hstk] at hr
      have htcv : tp c = v := (List.cons.inj hr).1.symm
      rw [htcv] at hpc htc hlc
      exact hnopend c hc hcv hcs' hc0 hpc htc hlc
  · intro x hx hxa
    obtain ⟨hx0, c, hc, hcv, hcs, hc0, htc, hlc⟩ := la.ar4 x hx hxa
    have hcv' : c ≠ v := fun h0 => hcs (h0 ▸ hvs)
    refine ⟨hx0, c, hc, hcv, fun hm => hcs (by rw [hstk]; exact List.mem_cons_of_mem _ hm), hc0, htc, ?_⟩
    rw [hl]; simp only [hcv', if_false]; exact hlc

theorem minI_le_left (a t : Int) : minI a t ≤ a := by unfold minI; split <;> omega
theorem minI_le_right (a t : Int) : minI a t ≤ t := by unfold minI; split <;> omega
theorem minI_eq (a t : Int) : minI a t = a ∨ minI a t = t := by unfold minI; split <;> simp

/-- scan invariant for the lowpoint pass -/
structure ScanP2 (h : G) (tp : Nat → Nat) (v : Nat) (rest : List Nat) (us : List Nat) (st1 : BicSt) (t : Int) :
    Prop where
  dt : DT h st1 tp
  la : LA h st1 tp
  stk : st1.toCheck = v :: rest
  usn : ∀ u ∈ us, u < h.n ∧ h.adj v u = true
  sorted : us.Pairwise (· < ·)
  prog : ∀ w, h.adj v w = true → w < h.n → w ∈ us ∨ bvis st1 w
  t1 : t ≤ dI st1 v
  t2 : ∀ u, h.adj v u = true → u < h.n → u ∉ us → (u : Int) ≠ pa st1 v → t ≤ lo st1 u
  t3 : t = dI st1 v ∨ ∃ u, h.adj v u = true ∧ u < h.n ∧ (u : Int) ≠ pa st1 v ∧ t = lo st1 u
  pend : ∀ c, c < h.n → bvis st1 c → c ∉ st1.toCheck → c ≠ 0 → pa st1 c = (v : Int) → v ≠ 0 →
    lo st1 c ≥ dI st1 v → c ∈ us

variable {v : Nat} {rest : List Nat}

theorem scanP2_tail_keep {u : Nat} {us : List Nat} {st1 : BicSt} {t : Int} (hirr : ∀ v, h.adj v v = false)
    (hP : ScanP2 h tp v rest (u :: us) st1 t) (huv : bvis st1 u)
    (hnp : ¬ ((u : Int) ≠ pa st1 v ∧ v ≠ 0 ∧ pa st1 u = (v : Int) ∧ lo st1 u ≥ dI st1 v))
    (t' : Int) (ht' : (u : Int) ≠ pa st1 v → t' = minI (lo st1 u) t) (ht'' : (u : Int) = pa st1 v → t' = t) :
    ScanP2 h tp v rest us st1 t' := by
  have hvs : v ∈ st1.toCheck := by rw [hP.stk]; exact List.mem_cons_self
  obtain ⟨hvn, hvv⟩ := hP.dt.svis v hvs
  have ht'le : t' ≤ t := by
    by_cases hpar : (u : Int) = pa st1 v
    · rw [ht'' hpar]; exact Int.le_refl _
    · rw [ht' hpar]; exact minI_le_right _ _
  refine { dt := hP.dt, la := hP.la, stk := hP.stk, usn := fun x hx => hP.usn x (List.mem_cons_of_mem _ hx),
           sorted := (List.pairwise_cons.1 hP.sorted).2, prog := ?_, t1 := Int.le_trans ht'le hP.t1,
           t2 := ?_, t3 := ?_, pend := ?_ }
  · intro w hw hwn
    rcases hP.prog w hw hwn with h0 | h0
    · rcases List.mem_cons.1 h0 with h1 | h1
      · exact .inr (h1 ▸ huv)
      · exact .inl h1
    · exact .inr h0
  · intro x hx hxn hxus hxpa
    by_cases hxu : x = u
    · subst hxu
      rw [ht' hxpa]; exact minI_le_left _ _
    · exact Int.le_trans ht'le (hP.t2 x hx hxn (by
        intro hm
        rcases List.mem_cons.1 hm with h0 | h0
        · exact hxu h0
        · exact hxus h0) hxpa)
  · by_cases hpar : (u : Int) = pa st1 v
    · rw [ht'' hpar]; exact hP.t3
    · rw [ht' hpar]
      rcases minI_eq (lo st1 u) t with h0 | h0
      · exact .inr ⟨u, (hP.usn u List.mem_cons_self).2, (hP.usn u List.mem_cons_self).1, hpar, h0⟩
      · rw [h0]; exact hP.t3
  · intro c hc hcv hcs hc0 hpc hv0 hlc
    have := hP.pend c hc hcv hcs hc0 hpc hv0 hlc
    rcases List.mem_cons.1 this with h0 | h0
    · exfalso
      subst h0
      apply hnp
      refine ⟨?_, hv0, hpc, hlc⟩
      -- a child of `v` is not the parent of `v`
      intro hpar
      rw [hP.dt.pastk v hvs hv0] at hpar
      have htc : tp c = v := by
        rcases hP.la.ar1 c hc hcv hc0 with h1 | h1
        · rw [hpc] at h1; omega
        · rw [hpc] at h1; omega
      obtain ⟨_, _, _, h4⟩ := hP.dt.tree c hc hcv hc0
      obtain ⟨_, _, _, h5⟩ := hP.dt.tree v hvn hvv hv0
      have : c = tp v := by omega
      rw [htc] at h4; rw [← this] at h5; omega
    · exact h0

/-- **one iteration preserves the DFS-tree, lowpoint and articulation invariants** -/
theorem dtla_step (com : List Nat) (hsym : ∀ u v, h.adj u v = h.adj v u) (hirr : ∀ v, h.adj v v = false)
    {s : BicSt} (dt : DT h st tp) (la : LA h st tp) (hs : bicStep h com st = .ok (some s)) :
    ∃ tp', DT h s tp' ∧ LA h s tp' := by
  unfold bicStep at hs
  cases hT : st.toCheck with
  | nil => rw [hT] at hs; simp at hs
  | cons v rest =>
    rw [hT] at hs
    simp only at hs
    have hvs : v ∈ st.toCheck := by rw [hT]; exact List.mem_cons_self
    obtain ⟨hvn, hvv⟩ := dt.svis v hvs
    have hvL : v < st.low.size := by rw [dt.ok.lsz]; exact hvn
    have hlv : st.low[v] = lo st v := by simp [lo, Array.getD, hvL]
    simp only [hvL, dif_pos] at hs
    cases hscan : bicScan com h.n v (h.nbrs v) st st.low[v] with
    | panic => rw [hscan] at hs; simp at hs
    | outOfFuel => rw [hscan] at hs; simp at hs
    | ok res =>
      rw [hscan] at hs
      have hP0 : ScanP2 h tp v rest (h.nbrs v) st st.low[v] :=
        { dt := dt, la := la, stk := hT, usn := fun u hu => mem_nbrs.1 hu,
          sorted := List.pairwise_lt_range.sublist List.filter_sublist,
          prog := fun w hw hwn => .inl (mem_nbrs.2 ⟨hwn, hw⟩),
          t1 := by rw [hlv, dt.lostk v hvs]; exact Int.le_refl _,
          t2 := fun u hu hun hus => absurd (mem_nbrs.2 ⟨hun, hu⟩) hus,
          t3 := .inl (by rw [hlv, dt.lostk v hvs]),
          pend := fun c hc hcv hcs hc0 hpc hv0 _ => by
            have htc : tp c = v := by
              rcases la.ar1 c hc hcv hc0 with h1 | h1
              · rw [hpc] at h1; omega
              · rw [hpc] at h1; omega
            obtain ⟨_, _, hadj, _⟩ := dt.tree c hc hcv hc0
            rw [htc] at hadj
            exact mem_nbrs.2 ⟨hc, hadj⟩ }
      obtain ⟨hdesc, hdone⟩ := bicScan_cases com hvn (ScanP2 h tp v rest)
        (fun us st1 t hP => ⟨hP.dt.ok, fun u hu => (hP.usn u hu).1⟩)
        (fun u us st1 t hP huv hpar =>
          scanP2_tail_keep hirr hP huv (fun hc => hc.1 hpar) t (fun hne => absurd hpar hne) (fun _ => rfl))
        (fun u us st1 t cur hP huv hpar hcur hv0 hpu hlu => by
          obtain ⟨hun, hadj⟩ := hP.usn u List.mem_cons_self
          have hunot := emit_not_on_stack hirr hP.dt hP.stk hv0 hadj hpu
          have hu0 : u ≠ 0 := by
            intro h0; subst h0
            have := hP.dt.pa0; rw [hpu] at this; omega
          have huP : u < st1.parents.size := by rw [hP.dt.ok.psz]; exact hun
          have hvu : v ≠ u := fun h0 => hunot (by rw [hP.stk, ← h0]; exact List.mem_cons_self)
          have hpa' : ∀ x, pa (emitSt com st1 v u cur) x = if x = u then -1 else pa st1 x := pa_emitSt com huP
          have hpav : pa (emitSt com st1 v u cur) v = pa st1 v := by rw [hpa']; simp [hvu]
          refine { dt := dt_emit com hP.dt hun hu0 hunot,
                   la := la_emit com hP.dt hP.la hvn hun huv hu0 hunot hpu hv0 hlu,
                   stk := hP.stk, usn := fun x hx => hP.usn x (List.mem_cons_of_mem _ hx),
                   sorted := (List.pairwise_cons.1 hP.sorted).2, prog := ?_,
                   t1 := Int.le_trans (minI_le_right _ _) hP.t1, t2 := ?_, t3 := ?_, pend := ?_ }
          · intro w hw hwn
            rcases hP.prog w hw hwn with h0 | h0
            · rcases List.mem_cons.1 h0 with h1 | h1
              · exact .inr (h1 ▸ huv)
              · exact .inl h1
            · exact .inr h0
          · intro x hx hxn hxus hxpa
            rw [hpav] at hxpa
            show minI (lo st1 u) t ≤ lo st1 x
            by_cases hxu : x = u
            · subst hxu; exact minI_le_left _ _
            · exact Int.le_trans (minI_le_right _ _) (hP.t2 x hx hxn (by
                intro hm
                rcases List.mem_cons.1 hm with h0 | h0
                · exact hxu h0
                · exact hxus h0) hxpa)
          · rw [hpav]
            show minI (lo st1 u) t = dI st1 v ∨ ∃ x, h.adj v x = true ∧ x < h.n ∧ (x : Int) ≠ pa st1 v ∧
              minI (lo st1 u) t = lo st1 x
            rcases minI_eq (lo st1 u) t with h0 | h0
            · exact .inr ⟨u, hadj, hun, hpar, h0⟩
            · rw [h0]; exact hP.t3
          · intro c hc hcv hcs hc0 hpc hv0' hlc
            rw [hpa'] at hpc
            have hcu : c ≠ u := by
              rintro rfl
              simp at hpc
            simp only [hcu, if_false] at hpc
            have := hP.pend c hc hcv hcs hc0 hpc hv0' hlc
            rcases List.mem_cons.1 this with h0 | h0
            · exact absurd h0 hcu
            · exact h0)
        (fun u us st1 t hP huv hpar hne =>
          scanP2_tail_keep hirr hP huv (fun hc => hne hc.2) _ (fun _ => rfl) (fun h0 => absurd h0 hpar))
        (h.nbrs v) st st.low[v] hP0 res hscan
      cases res with
      | descend s1 =>
        simp only [Outcome.ok.injEq, Option.some.injEq] at hs
        subst hs
        obtain ⟨u, us2, st1, t1, cur, hP, hunv, hcur, rfl⟩ := hdesc _ rfl
        obtain ⟨hun, hadj⟩ := hP.usn u List.mem_cons_self
        have hfirst : ∀ w, h.adj v w = true → w < u → bvis st1 w := by
          intro w hw hwu
          rcases hP.prog w hw (by omega) with h0 | h0
          · exfalso
            rcases List.mem_cons.1 h0 with h1 | h1
            · omega
            · have := (List.pairwise_cons.1 hP.sorted).1 w h1; omega
          · exact h0
        have hnopend : ∀ c, c < h.n → bvis st1 c → c ∉ st1.toCheck → c ≠ 0 → pa st1 c = (v : Int) → v ≠ 0 →
            lo st1 c ≥ dI st1 v → False := by
          intro c hc hcv hcs hc0 hpc hv0 hlc
          have hmem := hP.pend c hc hcv hcs hc0 hpc hv0 hlc
          have htc : tp c = v := by
            rcases hP.la.ar1 c hc hcv hc0 with h1 | h1
            · rw [hpc] at h1; omega
            · rw [hpc] at h1; omega
          rcases List.mem_cons.1 hmem with h0 | h0
          · exact hunv (h0 ▸ hcv)
          · have hlt := (List.pairwise_cons.1 hP.sorted).1 c h0
            obtain ⟨_, _, hf⟩ := hP.la.ar3 c hc hcv hcs hc0 (by rw [hpc, htc]) (by rw [htc]; exact hv0)
              (by rw [htc]; exact hlc)
            rw [htc] at hf
            exact hunv (hf u hadj hlt)
        exact ⟨_, dt_descend hsym hirr hP.dt hP.stk hun hunv hadj hfirst hcur,
          la_descend hP.dt hP.la hP.stk hun hunv hnopend⟩
      | done s1 t1 =>
        simp only at hs
        have hP := hdone s1 t1 rfl
        cases hpop : bicPop v rest s1 t1 with
        | panic => rw [hpop] at hs; simp at hs
        | outOfFuel => rw [hpop] at hs; simp at hs
        | ok s2 =>
          rw [hpop] at hs
          simp only [Outcome.ok.injEq, Option.some.injEq] at hs
          subst hs
          obtain ⟨bs, c2, rfl, hc2, hb0, hb1⟩ := bicPop_cases hP.dt.ok hvn hpop
          obtain ⟨hbs2, hbs3⟩ := pop_bs_facts hP.dt.ok hb0 hb1
          have hnb : ∀ w, h.adj v w = true → w < h.n → bvis s1 w := by
            intro w hw hwn
            rcases hP.prog w hw hwn with h0 | h0
            · cases h0
            · exact h0
          refine ⟨tp, dt_pop hP.dt hP.stk hc2 hbs2 hbs3 hnb, la_pop hirr hP.dt hP.la hP.stk hnb
            ⟨hP.t1, fun u hu hun hpa => hP.t2 u hu hun (by simp) hpa, hP.t3⟩ ?_⟩
          intro c hc hcv hcs hc0 hpc hv0 hlc
          have := hP.pend c hc hcv hcs hc0 hpc hv0 hlc
          cases this

theorem la_init (hn : 0 < h.n) (out0 : List (List Nat)) : LA h (bicInit h.n out0) (fun _ => 0) := by
  have hd := dI_bicInit hn out0
  have hvis : ∀ x, bvis (bicInit h.n out0) x ↔ x = 0 := by
    intro x; unfold bvis; rw [hd]
    by_cases hx : x = 0 <;> simp [hx]
  have hlo : ∀ x, lo (bicInit h.n out0) x = 0 := by
    intro x; unfold lo bicInit; simp only
    by_cases hxn : x < h.n <;> simp [Array.getD, hxn]
  have hia : ∀ x, isA (bicInit h.n out0) x = false := by
    intro x; unfold isA bicInit; simp only
    by_cases hxn : x < h.n <;> simp [Array.getD, hxn]
  have hstack : (bicInit h.n out0).toCheck = [0] := rfl
  refine { lole := ?_, lob := ?_, loatt := ?_, ar1 := ?_, ar2 := ?_, ar3 := ?_, ar4 := ?_, ar5 := ?_ }
  · intro x _ hxv; rw [(hvis x).1 hxv, hlo, hd]; simp
  · intro x _ hxv hxs; rw [(hvis x).1 hxv, hstack] at hxs; simp at hxs
  · intro x _ hxv hxs; rw [(hvis x).1 hxv, hstack] at hxs; simp at hxs
  · intro c _ hcv hc0; exact absurd ((hvis c).1 hcv) hc0
  · intro c _ hcv hc0; exact absurd ((hvis c).1 hcv) hc0
  · intro c _ hcv _ hc0; exact absurd ((hvis c).1 hcv) hc0
  · intro v _ hva; rw [hia] at hva; cases hva
  · refine ⟨[], List.nodup_nil, rfl, ?_⟩
    intro c
    simp only [List.not_mem_nil, false_iff]
    rintro ⟨_, hcv, hc0, _⟩
    exact hc0 ((hvis c).1 hcv)

theorem dtla_reach (com : List Nat) (hsym : ∀ u v, h.adj u v = h.adj v u) (hirr : ∀ v, h.adj v v = false)
    (hn : 0 < h.n) (out0 : List (List Nat))
    (hout : ∀ b ∈ out0, b.Pairwise (fun a b => decide (a ≤ b) = true)) {st : BicSt}
    (hr : BicReach h com out0 st) : ∃ tp, DT h st tp ∧ LA h st tp := by
  induction hr with
  | init => exact ⟨_, dt_init hn out0 hout, la_init hn out0⟩
  | step _ hs ih =>
    obtain ⟨tp, dt, la⟩ := ih
    exact dtla_step com hsym hirr dt la hs

end GDist
