import Mamba.Lemmas.SparseRemove
/-!
# SparseGraph.InducedSubgraph refines `G.induced` (property C05)
-/
namespace GraphRep
open GraphSpec

/-- pairs strictly increasing in their first component -/
abbrev SIncFst (b : List (Int × Int)) : Prop := b.Pairwise (fun p q => p.1 < q.1)

/-- the merge loop of `intersectionByIndex` -/
theorem interLoop_spec : ∀ (a : List Int) (b : List (Int × Int)) (r : List Int),
    SInc a → SIncFst b → SInc r →
    SInc (interLoop a b r) ∧ ∀ z, z ∈ interLoop a b r ↔ z ∈ r ∨ ∃ p ∈ b, p.1 ∈ a ∧ p.2 = z := by
  intro a b r
  induction a, b, r using interLoop.induct with
  | case1 xs y k ys r ih =>
    intro ha hb hr
    obtain ⟨hx, hxs⟩ := sinc_cons ha
    obtain ⟨hy, hys⟩ := List.pairwise_cons.mp hb
    obtain ⟨s1, m1, _⟩ := addSingle_spec hr k
    obtain ⟨i1, i2⟩ := ih hxs hys s1
    rw [interLoop, if_pos rfl]
    refine ⟨i1, ?_⟩
    intro z
    rw [i2 z, m1 z]
    constructor
    · rintro ((rfl | hz) | ⟨p, hp, hp1, hp2⟩)
      · exact Or.inr ⟨(y, z), by simp, by simp, rfl⟩
      · exact Or.inl hz
      · exact Or.inr ⟨p, by simp [hp], by simp [hp1], hp2⟩
    · rintro (hz | ⟨p, hp, hp1, hp2⟩)
      · exact Or.inl (Or.inr hz)
      · rcases List.mem_cons.mp hp with rfl | hp
        · exact Or.inl (Or.inl hp2.symm)
        · have hlt : y < p.1 := hy p hp
          rcases List.mem_cons.mp hp1 with e | hp1
          · omega
          · exact Or.inr ⟨p, hp, hp1, hp2⟩
  | case2 x xs y k ys r hne hgt ih =>
    intro ha hb hr
    obtain ⟨hx, hxs⟩ := sinc_cons ha
    obtain ⟨hy, hys⟩ := List.pairwise_cons.mp hb
    obtain ⟨i1, i2⟩ := ih ha hys hr
    rw [interLoop, if_neg hne, if_pos hgt]
    refine ⟨i1, ?_⟩
    intro z
    rw [i2 z]
    constructor
    · rintro (hz | ⟨p, hp, hp1, hp2⟩)
      · exact Or.inl hz
      · exact Or.inr ⟨p, by simp [hp], hp1, hp2⟩
    · rintro (hz | ⟨p, hp, hp1, hp2⟩)
      · exact Or.inl hz
      · rcases List.mem_cons.mp hp with rfl | hp
        · exfalso
          rcases List.mem_cons.mp hp1 with e | hp1
          · simp only at e; omega
          · have := hx _ hp1; simp only at this; omega
        · exact Or.inr ⟨p, hp, hp1, hp2⟩
  | case3 x xs y k ys r hne hgt ih =>
    intro ha hb hr
    obtain ⟨hx, hxs⟩ := sinc_cons ha
    obtain ⟨hy, hys⟩ := List.pairwise_cons.mp hb
    obtain ⟨i1, i2⟩ := ih hxs hb hr
    rw [interLoop, if_neg hne, if_neg hgt]
    refine ⟨i1, ?_⟩
    intro z
    rw [i2 z]
    have hxy : x < y := by omega
    constructor
    · rintro (hz | ⟨p, hp, hp1, hp2⟩)
      · exact Or.inl hz
      · exact Or.inr ⟨p, hp, by simp [hp1], hp2⟩
    · rintro (hz | ⟨p, hp, hp1, hp2⟩)
      · exact Or.inl hz
      · refine Or.inr ⟨p, hp, ?_, hp2⟩
        rcases List.mem_cons.mp hp1 with e | hp1
        · exfalso
          rcases List.mem_cons.mp hp with rfl | hp
          · simp only at e; omega
          · have := hy p hp; simp only at this; omega
        · exact hp1
  | case4 b r =>
    intro _ _ hr
    rw [interLoop]
    exact ⟨hr, fun z => by simp⟩
  | case5 x xs r =>
    intro _ _ hr
    rw [interLoop]
    exact ⟨hr, fun z => by simp⟩

/-- `intsSort` of a duplicate-free list: strictly sorted by value, carrying the original positions -/
theorem intsSort_spec {V : List Int} (hn : V.Nodup) :
    SIncFst (intsSort V) ∧ ∀ y k, (y, k) ∈ intsSort V ↔ ∃ idx : Nat, V[idx]? = some y ∧ k = (idx : Int) := by
  unfold intsSort
  have hperm := List.mergeSort_perm ((V.zipIdx).map fun p => (p.1, (p.2 : Int)))
    (fun a b => decide (a.1 ≤ b.1))
  have hle := List.pairwise_mergeSort (le := fun (a b : Int × Int) => decide (a.1 ≤ b.1))
    (by intro a b c; simp only [decide_eq_true_eq]; omega)
    (by intro a b; simp only [Bool.or_eq_true, decide_eq_true_eq]; omega)
    ((V.zipIdx).map fun p => (p.1, (p.2 : Int)))
  generalize ((V.zipIdx).map fun p => (p.1, (p.2 : Int))).mergeSort (fun a b => decide (a.1 ≤ b.1)) = S
    at hperm hle
  have hfst : (S.map Prod.fst).Perm V := by
    have := hperm.map Prod.fst
    rw [List.map_map] at this
    have e : (Prod.fst ∘ fun p : Int × Nat => (p.1, (p.2 : Int))) = Prod.fst := rfl
    rw [e, List.zipIdx_map_fst] at this
    exact this
  have hnd : (S.map Prod.fst).Nodup := hfst.nodup_iff.mpr hn
  have hne : S.Pairwise (fun p q => p.1 ≠ q.1) := List.pairwise_map.mp hnd
  refine ⟨(hle.and hne).imp (fun ⟨h1, h2⟩ => by simp only [decide_eq_true_eq] at h1; omega), ?_⟩
  intro y k
  rw [hperm.mem_iff, List.mem_map]
  constructor
  · rintro ⟨p, hp, he⟩
    have := List.mem_zipIdx_iff_getElem?.mp hp
    simp only [Prod.mk.injEq] at he
    exact ⟨p.2, by rw [this, he.1], he.2.symm⟩
  · rintro ⟨idx, hidx, rfl⟩
    exact ⟨(y, idx), List.mem_zipIdx_iff_getElem?.mpr hidx, rfl⟩

theorem Sparse.is_loop {g : Sparse} (h : g.WF) (bi : List (Int × Int)) :
    ∀ (V : List Nat) (acc : List (List Int)) (m0 : Int), (∀ v ∈ V, v < g.n) →
      loopM (Sparse.isStep g bi) V (acc, m0) =
        .ok (acc ++ V.map (fun v => intersectionByIndex (g.row v) bi),
          m0 + (((V.map (fun v => (intersectionByIndex (g.row v) bi).length)).sum : Nat) : Int)) := by
  intro V
  induction V with
  | nil => intro acc m0 _; simp [loopM]
  | cons v V ih =>
    intro acc m0 hV
    have hv : v < g.n := hV v (by simp)
    have hstep : Sparse.isStep g bi (acc, m0) v =
        .ok (acc ++ [intersectionByIndex (g.row v) bi], m0 + ((intersectionByIndex (g.row v) bi).length : Int)) := by
      unfold Sparse.isStep Sparse.neighbours getA
      rw [Sparse.row_get h hv]
    rw [loopM, hstep]
    simp only
    rw [ih _ _ (fun w hw => hV w (by simp [hw]))]
    simp only [List.map_cons, List.sum_cons, List.append_assoc, List.singleton_append]
    congr 2
    push_cast
    omega

theorem Sparse.inducedSubgraph_spec {g : Sparse} (h : g.WF) {V : List Nat} (hn : V.Nodup)
    (hV : ∀ s ∈ V, s < g.n) :
    ∃ g', g.inducedSubgraph V = .ok g' ∧ g'.WF ∧ g'.abs = g.abs.induced V := by
  have hw := Sparse.abs_wf h
  have hwH := induced_wf hw V
  have hnd : (V.map Int.ofNat).Nodup := hn.map (fun a b hab => by simpa using hab)
  obtain ⟨hb1, hb2⟩ := intsSort_spec hnd
  generalize hbi : intsSort (V.map Int.ofNat) = bi at hb1 hb2
  -- the list computed for position `i`
  have hR : ∀ i, i < V.length →
      SInc (intersectionByIndex (g.row (V.getD i 0)) bi) ∧
      ∀ z : Int, z ∈ intersectionByIndex (g.row (V.getD i 0)) bi ↔
        ∃ k : Nat, (k : Int) = z ∧ (g.abs.induced V).adj i k = true := by
    intro i hi
    have hvi : V.getD i 0 ∈ V := by
      rw [List.getD_eq_getElem?_getD, List.getElem?_eq_getElem hi]; exact List.getElem_mem hi
    have hv : V.getD i 0 < g.n := hV _ hvi
    obtain ⟨s1, m1⟩ := interLoop_spec (g.row (V.getD i 0)) bi [] (h.sorted _ hv) hb1 List.Pairwise.nil
    refine ⟨s1, ?_⟩
    intro z
    unfold intersectionByIndex
    rw [m1 z]
    constructor
    · rintro (hz | ⟨⟨y, kk⟩, hp, hp1, hp2⟩)
      · cases hz
      · obtain ⟨idx, hidx, rfl⟩ := (hb2 y kk).mp hp
        have hidx' : idx < V.length := by
          by_contra hc
          rw [List.getElem?_eq_none (by simp; omega)] at hidx; cases hidx
        have hy : y = ((V.getD idx 0 : Nat) : Int) := by
          rw [List.getElem?_map, List.getElem?_eq_getElem hidx'] at hidx
          simp only [Option.map_some, Option.some.injEq] at hidx
          rw [← hidx, List.getD_eq_getElem?_getD, List.getElem?_eq_getElem hidx']; rfl
        refine ⟨idx, hp2, ?_⟩
        rw [induced_adj _ V hi hidx', Sparse.abs_adj_true]
        have hvk : V.getD idx 0 < g.n := hV _ (by
          rw [List.getD_eq_getElem?_getD, List.getElem?_eq_getElem hidx']; exact List.getElem_mem hidx')
        exact ⟨hv, hvk, by rw [← hy]; exact hp1⟩
    · rintro ⟨k, rfl, hk⟩
      have hk' : k < V.length := ((hwH.supp _ _ hk).2)
      rw [induced_adj _ V hi hk', Sparse.abs_adj_true] at hk
      refine Or.inr ⟨(((V.getD k 0 : Nat) : Int), (k : Int)), ?_, hk.2.2, rfl⟩
      rw [hb2]
      refine ⟨k, ?_, rfl⟩
      rw [List.getElem?_map, List.getElem?_eq_getElem hk', List.getD_eq_getElem?_getD,
        List.getElem?_eq_getElem hk']
      rfl
  -- canonical form and lengths
  have hlen : ∀ i, i < V.length →
      (intersectionByIndex (g.row (V.getD i 0)) bi).length = (g.abs.induced V).deg i := by
    intro i hi
    obtain ⟨s1, m1⟩ := hR i hi
    have : intersectionByIndex (g.row (V.getD i 0)) bi = ((g.abs.induced V).nbrs i).map Int.ofNat := by
      apply sinc_ext s1 (map_ofNat_sinc (nbrs_pairwise _ _))
      intro x
      rw [m1 x, List.mem_map]
      constructor
      · rintro ⟨k, rfl, hk⟩; exact ⟨k, (mem_nbrs hwH i k).mpr hk, rfl⟩
      · rintro ⟨k, hk, rfl⟩; exact ⟨k, rfl, (mem_nbrs hwH i k).mp hk⟩
    rw [this, List.length_map]; rfl
  have hsum : (V.map (fun v => (intersectionByIndex (g.row v) bi).length)).sum =
      2 * (g.abs.induced V).m := by
    have : V.map (fun v => (intersectionByIndex (g.row v) bi).length) =
        (List.range V.length).map (g.abs.induced V).deg := by
      apply List.ext_getElem?
      intro i
      rw [List.getElem?_map, List.getElem?_map]
      by_cases hi : i < V.length
      · rw [List.getElem?_eq_getElem hi, List.getElem?_range hi]
        simp only [Option.map_some]
        rw [← hlen i hi, List.getD_eq_getElem?_getD, List.getElem?_eq_getElem hi]; rfl
      · rw [List.getElem?_eq_none (by omega), List.getElem?_eq_none (by simp; omega)]; rfl
    rw [this]
    exact handshake hwH
  unfold Sparse.inducedSubgraph
  simp only
  rw [hbi, Sparse.is_loop h bi V [] 0 hV]
  simp only [List.nil_append, Int.zero_add]
  refine ⟨_, rfl, ?_⟩
  rw [hsum]
  have hrow : ∀ i, i < V.length →
      Sparse.row ⟨V.length, Int.tdiv ((2 * (g.abs.induced V).m : Nat) : Int) 2,
        (V.map (fun v => intersectionByIndex (g.row v) bi)).toArray,
        ((V.map (fun v => intersectionByIndex (g.row v) bi)).map (fun l => (l.length : Int))).toArray⟩ i =
      intersectionByIndex (g.row (V.getD i 0)) bi := by
    intro i hi
    unfold Sparse.row
    simp only
    rw [Array.getD_eq_getD_getElem?, List.getElem?_toArray, List.getElem?_map, List.getElem?_eq_getElem hi,
      List.getD_eq_getElem?_getD, List.getElem?_eq_getElem hi]
    rfl
  apply Sparse.wf_of hwH
  · rfl
  · simp
  · simp
  · intro i hi; rw [hrow i hi]; exact (hR i hi).1
  · intro i hi x; rw [hrow i hi]; exact (hR i hi).2 x
  · intro i hi
    have hi' : i < V.length := hi
    rw [hrow i hi]
    show (List.toArray _)[i]? = _
    rw [List.getElem?_toArray, List.getElem?_map, List.getElem?_map, List.getElem?_eq_getElem hi',
      List.getD_eq_getElem?_getD, List.getElem?_eq_getElem hi']
    rfl
  · show Int.tdiv (((2 * (g.abs.induced V).m : Nat)) : Int) 2 = ((g.abs.induced V).m : Int)
    push_cast
    rw [Int.mul_tdiv_cancel_left _ (by decide)]

end GraphRep
