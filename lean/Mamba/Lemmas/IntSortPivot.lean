import Mamba.Lemmas.IntSortQuick
/-! Lemmas for C17 (`ints.Sort`): the pieces of `doPivot` (scans, partition loop, duplicate block, protect
loop, medianOfThree) with their invariants. -/
set_option linter.unusedTactic false
set_option linter.unreachableTactic false
set_option linter.unnecessarySeqFocus false
set_option linter.unusedSimpArgs false
set_option linter.unusedVariables false
namespace IntSort

theorem scanLt_spec (d : Data) (pivot c a : Int) : 0 ≤ pivot → pivot < d.size → 0 ≤ a → c ≤ d.size →
    ∃ a', scanLt d pivot c a = .ok a' ∧ a ≤ a' ∧ (a ≤ c → a' ≤ c) ∧ (c ≤ a → a' = a) ∧
      (∀ k, a ≤ k → k < a' → vi d k < vi d pivot) ∧ (a' < c → ¬ vi d a' < vi d pivot) := by
  fun_induction scanLt d pivot c a
  all_goals intro hp0 hp1 ha0 hc
  case case1 a hac hl ih =>
    obtain ⟨a', hr, h1, h2, h3, h4, h5⟩ := ih hp0 hp1 (by omega) hc
    have hl' := (lt_ok_iff.mp hl).2.2.2.2
    have hlt : vi d a < vi d pivot := by simpa using hl'
    refine ⟨a', hr, by omega, fun _ => h2 (by omega), fun h => by omega, ?_, h5⟩
    intro k hk1 hk2
    by_cases hka : k = a
    · subst hka; exact hlt
    · exact h4 k (by omega) hk2
  case case2 a hac hl =>
    have hl' := (lt_ok_iff.mp hl).2.2.2.2
    have hlt : ¬ vi d a < vi d pivot := by simpa using hl'
    exact ⟨a, rfl, Int.le_refl _, fun h => h, fun _ => rfl, fun k h1 h2 => by omega, fun _ => hlt⟩
  case case3 a hac hl =>
    rw [lt_total (by omega) (by omega) (by omega) (by omega)] at hl; cases hl
  case case4 a hac hl =>
    rw [lt_total (by omega) (by omega) (by omega) (by omega)] at hl; cases hl
  case case5 a hac =>
    exact ⟨a, rfl, Int.le_refl _, fun h => h, fun _ => rfl, fun k h1 h2 => by omega, fun h => by omega⟩

theorem scanLe_spec (d : Data) (pivot c b : Int) : 0 ≤ pivot → pivot < d.size → 0 ≤ b → c ≤ d.size →
    ∃ b', scanLe d pivot c b = .ok b' ∧ b ≤ b' ∧ (b ≤ c → b' ≤ c) ∧ (c ≤ b → b' = b) ∧
      (∀ k, b ≤ k → k < b' → vi d k ≤ vi d pivot) ∧ (b' < c → vi d pivot < vi d b') := by
  fun_induction scanLe d pivot c b
  all_goals intro hp0 hp1 hb0 hc
  case case1 b hbc hl ih =>
    obtain ⟨b', hr, h1, h2, h3, h4, h5⟩ := ih hp0 hp1 (by omega) hc
    have hl' := (lt_ok_iff.mp hl).2.2.2.2
    have hlt : ¬ vi d pivot < vi d b := by simpa using hl'
    refine ⟨b', hr, by omega, fun _ => h2 (by omega), fun h => by omega, ?_, h5⟩
    intro k hk1 hk2
    by_cases hkb : k = b
    · subst hkb; omega
    · exact h4 k (by omega) hk2
  case case2 b hbc hl =>
    have hl' := (lt_ok_iff.mp hl).2.2.2.2
    have hlt : vi d pivot < vi d b := by simpa using hl'
    exact ⟨b, rfl, Int.le_refl _, fun h => h, fun _ => rfl, fun k h1 h2 => by omega, fun _ => hlt⟩
  case case3 b hbc hl =>
    rw [lt_total (by omega) (by omega) (by omega) (by omega)] at hl; cases hl
  case case4 b hbc hl =>
    rw [lt_total (by omega) (by omega) (by omega) (by omega)] at hl; cases hl
  case case5 b hbc =>
    exact ⟨b, rfl, Int.le_refl _, fun h => h, fun _ => rfl, fun k h1 h2 => by omega, fun h => by omega⟩

theorem scanGtDown_spec (d : Data) (pivot b c : Int) : 0 ≤ pivot → pivot < d.size → 0 ≤ b → c ≤ d.size →
    ∃ c', scanGtDown d pivot b c = .ok c' ∧ c' ≤ c ∧ (b ≤ c → b ≤ c') ∧ (c ≤ b → c' = c) ∧
      (∀ k, c' ≤ k → k < c → vi d pivot < vi d k) ∧ (b < c' → ¬ vi d pivot < vi d (c' - 1)) := by
  fun_induction scanGtDown d pivot b c
  all_goals intro hp0 hp1 hb0 hc
  case case1 c hbc hl ih =>
    obtain ⟨c', hr, h1, h2, h3, h4, h5⟩ := ih hp0 hp1 hb0 (by omega)
    have hl' := (lt_ok_iff.mp hl).2.2.2.2
    have hlt : vi d pivot < vi d (c - 1) := by simpa using hl'
    refine ⟨c', hr, by omega, fun _ => h2 (by omega), fun h => by omega, ?_, h5⟩
    intro k hk1 hk2
    by_cases hkc : k = c - 1
    · subst hkc; exact hlt
    · exact h4 k hk1 (by omega)
  case case2 c hbc hl =>
    have hl' := (lt_ok_iff.mp hl).2.2.2.2
    have hlt : ¬ vi d pivot < vi d (c - 1) := by simpa using hl'
    exact ⟨c, rfl, Int.le_refl _, fun h => h, fun _ => rfl, fun k h1 h2 => by omega, fun _ => hlt⟩
  case case3 c hbc hl =>
    rw [lt_total (by omega) (by omega) (by omega) (by omega)] at hl; cases hl
  case case4 c hbc hl =>
    rw [lt_total (by omega) (by omega) (by omega) (by omega)] at hl; cases hl
  case case5 c hbc =>
    exact ⟨c, rfl, Int.le_refl _, fun h => h, fun _ => rfl, fun k h1 h2 => by omega, fun h => by omega⟩

theorem scanGeDown_spec (d : Data) (pivot a b : Int) : 0 ≤ pivot → pivot < d.size → 0 ≤ a → b ≤ d.size →
    ∃ b', scanGeDown d pivot a b = .ok b' ∧ b' ≤ b ∧ (a ≤ b → a ≤ b') ∧ (b ≤ a → b' = b) ∧
      (∀ k, b' ≤ k → k < b → ¬ vi d k < vi d pivot) ∧ (a < b' → vi d (b' - 1) < vi d pivot) := by
  fun_induction scanGeDown d pivot a b
  all_goals intro hp0 hp1 ha0 hb
  case case1 b hab hl ih =>
    obtain ⟨b', hr, h1, h2, h3, h4, h5⟩ := ih hp0 hp1 ha0 (by omega)
    have hl' := (lt_ok_iff.mp hl).2.2.2.2
    have hlt : ¬ vi d (b - 1) < vi d pivot := by simpa using hl'
    refine ⟨b', hr, by omega, fun _ => h2 (by omega), fun h => by omega, ?_, h5⟩
    intro k hk1 hk2
    by_cases hkb : k = b - 1
    · subst hkb; exact hlt
    · exact h4 k hk1 (by omega)
  case case2 b hab hl =>
    have hl' := (lt_ok_iff.mp hl).2.2.2.2
    have hlt : vi d (b - 1) < vi d pivot := by simpa using hl'
    exact ⟨b, rfl, Int.le_refl _, fun h => h, fun _ => rfl, fun k h1 h2 => by omega, fun _ => hlt⟩
  case case3 b hab hl =>
    rw [lt_total (by omega) (by omega) (by omega) (by omega)] at hl; cases hl
  case case4 b hab hl =>
    rw [lt_total (by omega) (by omega) (by omega) (by omega)] at hl; cases hl
  case case5 b hab =>
    exact ⟨b, rfl, Int.le_refl _, fun h => h, fun _ => rfl, fun k h1 h2 => by omega, fun h => by omega⟩


theorem swap_vi_other {d d' : Data} {i j k : Int} (h : swap d i j = .ok d') (h1 : k ≠ i) (h2 : k ≠ j) :
    vi d' k = vi d k := by
  rw [(swap_spec h).2.2.2.2.2 k]; simp [h1, h2]

theorem swap_vi_left {d d' : Data} {i j : Int} (h : swap d i j = .ok d') : vi d' i = vi d j := by
  rw [(swap_spec h).2.2.2.2.2 i]; simp

theorem swap_vi_right {d d' : Data} {i j : Int} (h : swap d i j = .ok d') : vi d' j = vi d i := by
  rw [(swap_spec h).2.2.2.2.2 j]
  by_cases hji : j = i
  · subst hji; simp
  · simp [hji]

theorem partLoop_spec (lo hi pv : Int) (hlo : 0 ≤ lo) :
    ∀ (f : Nat) (d : Data) (b c : Int), lo < b → b ≤ c → c ≤ hi - 1 → hi ≤ d.size → vi d lo = pv →
      (∀ k, lo < k → k < b → vi d k ≤ pv) → (∀ k, c ≤ k → k < hi → pv ≤ vi d k) → c - b + 1 ≤ f →
      ∃ d' b', partLoop f d lo b c = .ok (d', b', b') ∧ RP (lo + 1) (hi - 1) d d' ∧ b ≤ b' ∧ b' ≤ c ∧
        (∀ k, lo < k → k < b' → vi d' k ≤ pv) ∧ (∀ k, b' ≤ k → k < hi → pv ≤ vi d' k) ∧ vi d' lo = pv := by
  intro f
  induction f with
  | zero => intro d b c _ _ _ _ _ _ _ h; omega
  | succ f ih =>
    intro d b c hb hbc hc hsz hpv hL hR hfuel
    unfold partLoop
    obtain ⟨b1, hr1, p1, p2, _, p4, p5⟩ := scanLe_spec d lo c b hlo (by omega) (by omega) (by omega)
    rw [hr1]
    simp only
    have hb1c := p2 hbc
    obtain ⟨c1, hr2, q1, q2, _, q4, q5⟩ := scanGtDown_spec d lo b1 c hlo (by omega) (by omega) (by omega)
    rw [hr2]
    simp only
    have hb1c1 := q2 hb1c
    have hL1 : ∀ k, lo < k → k < b1 → vi d k ≤ pv := by
      intro k h1 h2
      by_cases hk : k < b
      · exact hL k h1 hk
      · rw [← hpv]; exact p4 k (by omega) h2
    have hR1 : ∀ k, c1 ≤ k → k < hi → pv ≤ vi d k := by
      intro k h1 h2
      by_cases hk : c ≤ k
      · exact hR k hk h2
      · have := q4 k h1 (by omega); rw [hpv] at this; omega
    by_cases hge : b1 ≥ c1
    · rw [if_pos hge]
      have : c1 = b1 := by omega
      subst this
      exact ⟨d, c1, rfl, RP.refl _ _ _, p1, hb1c, hL1, hR1, hpv⟩
    · rw [if_neg hge]
      have hgt : pv < vi d b1 := by have := p5 (by omega); rw [hpv] at this; exact this
      have hle : ¬ pv < vi d (c1 - 1) := by have := q5 (by omega); rw [hpv] at this; exact this
      have hne : b1 ≠ c1 - 1 := by intro h; rw [← h] at hle; exact hle hgt
      obtain ⟨d1, hsw⟩ := swap_total (d := d) (i := b1) (j := c1 - 1) (by omega) (by omega) (by omega) (by omega)
      rw [hsw]
      simp only
      have hs1 := (swap_spec hsw).1
      obtain ⟨d', b', hr', hrp', r1, r2, r3, r4, r5⟩ := ih d1 (b1 + 1) (c1 - 1) (by omega) (by omega) (by omega)
        (by rw [hs1]; exact hsz) (by rw [swap_vi_other hsw (by omega) (by omega)]; exact hpv)
        (by
          intro k h1 h2
          by_cases hk : k = b1
          · subst hk; rw [swap_vi_left hsw]; omega
          · rw [swap_vi_other hsw hk (by omega)]; exact hL1 k h1 (by omega))
        (by
          intro k h1 h2
          by_cases hk : k = c1 - 1
          · subst hk; rw [swap_vi_right hsw]; omega
          · rw [swap_vi_other hsw (by omega) hk]; exact hR1 k (by omega) h2)
        (by omega)
      exact ⟨d', b', hr', (RP.of_swap hsw ⟨by omega, by omega⟩ ⟨by omega, by omega⟩).trans hrp', by omega, by omega, r3, r4, r5⟩


theorem protectLoop_spec (lo c pv : Int) (hlo : 0 ≤ lo) :
    ∀ (f : Nat) (d : Data) (a b : Int), lo < a → lo < b → b ≤ c → c ≤ d.size → vi d lo = pv →
      (∀ k, lo < k → k < b → vi d k ≤ pv) → (∀ k, b ≤ k → k < c → vi d k = pv) → b - a + 1 ≤ f → 1 ≤ f →
      ∃ d' a' b', protectLoop f d lo a b = .ok (d', a', b') ∧ RP (lo + 1) b d d' ∧ lo < b' ∧ b' ≤ b ∧
        (∀ k, lo < k → k < b' → vi d' k ≤ pv) ∧ (∀ k, b' ≤ k → k < c → vi d' k = pv) := by
  intro f
  induction f with
  | zero => intro d a b _ _ _ _ _ _ _ _ h; omega
  | succ f ih =>
    intro d a b ha hb hbc hsz hpv hL hM hfuel _
    unfold protectLoop
    obtain ⟨b1, hr1, p1, p2, p3, p4, p5⟩ := scanGeDown_spec d lo a b hlo (by omega) (by omega) (by omega)
    rw [hr1]
    simp only
    obtain ⟨a1, hr2, q1, q2, q3, q4, q5⟩ := scanLt_spec d lo b1 a hlo (by omega) (by omega) (by omega)
    rw [hr2]
    simp only
    have hb1lo : lo < b1 := by
      by_cases h : a ≤ b
      · have := p2 h; omega
      · have := p3 (by omega); omega
    have hM1 : ∀ k, b1 ≤ k → k < c → vi d k = pv := by
      intro k h1 h2
      by_cases hk : b ≤ k
      · exact hM k hk h2
      · have h3 := p4 k h1 (by omega)
        have h4 := hL k (by omega) (by omega)
        rw [hpv] at h3; omega
    have hL1 : ∀ k, lo < k → k < b1 → vi d k ≤ pv := fun k h1 h2 => hL k h1 (by omega)
    by_cases hge : a1 ≥ b1
    · rw [if_pos hge]
      exact ⟨d, a1, b1, rfl, RP.refl _ _ _, hb1lo, p1, hL1, hM1⟩
    · rw [if_neg hge]
      have hab1 : a ≤ b1 := by
        by_cases h : a ≤ b1
        · exact h
        · have := q3 (by omega); omega
      have ha1 : vi d a1 = pv := by
        have h3 := q5 (by omega)
        have h4 := hL a1 (by omega) (by omega)
        rw [hpv] at h3; omega
      have hb1' : vi d (b1 - 1) < pv := by
        have := p5 (by omega); rw [hpv] at this; exact this
      have hne : a1 ≠ b1 - 1 := by intro h; rw [← h] at hb1'; omega
      obtain ⟨d1, hsw⟩ := swap_total (d := d) (i := a1) (j := b1 - 1) (by omega) (by omega) (by omega) (by omega)
      rw [hsw]
      simp only
      have hs1 := (swap_spec hsw).1
      obtain ⟨d', a', b', hr', hrp', r1, r2, r3, r4⟩ := ih d1 (a1 + 1) (b1 - 1) (by omega) (by omega) (by omega)
        (by rw [hs1]; exact hsz) (by rw [swap_vi_other hsw (by omega) (by omega)]; exact hpv)
        (by
          intro k h1 h2
          by_cases hk : k = a1
          · subst hk; rw [swap_vi_left hsw]; omega
          · rw [swap_vi_other hsw hk (by omega)]; exact hL1 k h1 (by omega))
        (by
          intro k h1 h2
          by_cases hk : k = b1 - 1
          · subst hk; rw [swap_vi_right hsw]; exact ha1
          · rw [swap_vi_other hsw (by omega) hk]; exact hM1 k (by omega) h2)
        (by omega) (by omega)
      refine ⟨d', a', b', hr', ?_, r1, by omega, r3, r4⟩
      exact (RP.of_swap hsw ⟨by omega, by omega⟩ ⟨by omega, by omega⟩).trans (hrp'.mono (Int.le_refl _) (by omega))


theorem swapIfLt_cases (d : Data) (i j : Int) (hi0 : 0 ≤ i) (hi : i < d.size) (hj0 : 0 ≤ j) (hj : j < d.size) :
    ∃ d', swapIfLt d i j = .ok d' ∧
      ((vi d i < vi d j ∧ swap d i j = .ok d') ∨ (¬ vi d i < vi d j ∧ d' = d)) := by
  unfold swapIfLt
  rw [lt_total hi0 hi hj0 hj]
  by_cases h : vi d i < vi d j
  · simp only [h, decide_true]
    obtain ⟨d', hs⟩ := swap_total (d := d) (i := i) (j := j) hi0 hi hj0 hj
    exact ⟨d', hs, Or.inl ⟨trivial, hs⟩⟩
  · simp only [h, decide_false]
    exact ⟨d, rfl, Or.inr ⟨fun h => h, rfl⟩⟩

/-- `medianOfThree` on three distinct positions inside `[a,b)`: only rearranges `[a,b)` and leaves
`data[m1] ≤ data[m2]` -/
theorem medianOfThree_spec (d : Data) (m1 m0 m2 a b : Int) (h1 : a ≤ m1 ∧ m1 < b) (h0' : a ≤ m0 ∧ m0 < b)
    (h2 : a ≤ m2 ∧ m2 < b) (ha : 0 ≤ a) (hb : b ≤ d.size) (n1 : m1 ≠ m0) (n2 : m1 ≠ m2) (n3 : m0 ≠ m2) :
    ∃ d', medianOfThree d m1 m0 m2 = .ok d' ∧ RP a b d d' ∧ vi d' m1 ≤ vi d' m2 := by
  unfold medianOfThree
  obtain ⟨d1, hr1, hc1⟩ := swapIfLt_cases d m1 m0 (by omega) (by omega) (by omega) (by omega)
  rw [hr1]
  simp only
  have hrp1 : RP a b d d1 := by
    rcases hc1 with ⟨_, hs⟩ | ⟨_, rfl⟩
    · exact RP.of_swap hs h1 h0'
    · exact RP.refl _ _ _
  have hs1 := hrp1.1
  have hord1 : vi d1 m0 ≤ vi d1 m1 := by
    rcases hc1 with ⟨hlt, hs⟩ | ⟨hlt, rfl⟩
    · rw [swap_vi_right hs, swap_vi_left hs]; omega
    · omega
  rw [lt_total (by omega) (by omega) (by omega) (by omega)]
  by_cases hlt2 : vi d1 m2 < vi d1 m1
  · simp only [hlt2, decide_true]
    obtain ⟨d2, hs2⟩ := swap_total (d := d1) (i := m2) (j := m1) (by omega) (by omega) (by omega) (by omega)
    rw [hs2]
    simp only
    have hsz2 := (swap_spec hs2).1
    have hrp2 : RP a b d1 d2 := RP.of_swap hs2 h2 h1
    obtain ⟨d3, hr3, hc3⟩ := swapIfLt_cases d2 m1 m0 (by omega) (by omega) (by omega) (by omega)
    rw [hr3]
    refine ⟨d3, rfl, ?_, ?_⟩
    · rcases hc3 with ⟨_, hs⟩ | ⟨_, rfl⟩
      · exact (hrp1.trans hrp2).trans (RP.of_swap hs h1 h0')
      · exact hrp1.trans hrp2
    · have e1 : vi d2 m1 = vi d1 m2 := swap_vi_right hs2
      have e2 : vi d2 m2 = vi d1 m1 := swap_vi_left hs2
      have e0 : vi d2 m0 = vi d1 m0 := swap_vi_other hs2 n3 (Ne.symm n1)
      rcases hc3 with ⟨hlt, hs⟩ | ⟨hlt, rfl⟩
      · rw [swap_vi_left hs, swap_vi_other hs (Ne.symm n2) (Ne.symm n3)]; omega
      · omega
  · simp only [hlt2, decide_false]
    exact ⟨d1, rfl, hrp1, by omega⟩

/-- `medianOfThree` on positions inside `[a,b)` (not necessarily distinct): only rearranges `[a,b)` -/
theorem medianOfThree_rp (d : Data) (m1 m0 m2 a b : Int) (h1 : a ≤ m1 ∧ m1 < b) (h0' : a ≤ m0 ∧ m0 < b)
    (h2 : a ≤ m2 ∧ m2 < b) (ha : 0 ≤ a) (hb : b ≤ d.size) :
    ∃ d', medianOfThree d m1 m0 m2 = .ok d' ∧ RP a b d d' := by
  unfold medianOfThree
  obtain ⟨d1, hr1, hc1⟩ := swapIfLt_cases d m1 m0 (by omega) (by omega) (by omega) (by omega)
  rw [hr1]
  simp only
  have hrp1 : RP a b d d1 := by
    rcases hc1 with ⟨_, hs⟩ | ⟨_, rfl⟩
    · exact RP.of_swap hs h1 h0'
    · exact RP.refl _ _ _
  have hs1 := hrp1.1
  rw [lt_total (by omega) (by omega) (by omega) (by omega)]
  by_cases hlt2 : vi d1 m2 < vi d1 m1
  · simp only [hlt2, decide_true]
    obtain ⟨d2, hs2⟩ := swap_total (d := d1) (i := m2) (j := m1) (by omega) (by omega) (by omega) (by omega)
    rw [hs2]
    simp only
    have hsz2 := (swap_spec hs2).1
    have hrp2 : RP a b d1 d2 := RP.of_swap hs2 h2 h1
    obtain ⟨d3, hr3, hc3⟩ := swapIfLt_cases d2 m1 m0 (by omega) (by omega) (by omega) (by omega)
    rw [hr3]
    refine ⟨d3, rfl, ?_⟩
    rcases hc3 with ⟨_, hs⟩ | ⟨_, rfl⟩
    · exact (hrp1.trans hrp2).trans (RP.of_swap hs h1 h0')
    · exact hrp1.trans hrp2
  · simp only [hlt2, decide_false]
    exact ⟨d1, rfl, hrp1⟩


/-- partition state around the pivot value `pv` stored at `lo`: `(lo,b) ≤ pv`, `[b,c) = pv`, `[c,hi) ≥ pv` -/
def PState (d : Data) (lo hi pv b c : Int) : Prop :=
  vi d lo = pv ∧ (∀ k, lo < k → k < b → vi d k ≤ pv) ∧ (∀ k, b ≤ k → k < c → vi d k = pv) ∧
  (∀ k, c ≤ k → k < hi → pv ≤ vi d k)

theorem dupsTail_spec (d : Data) (lo hi pv b c : Int) (hlo : 0 ≤ lo) (hsz : hi ≤ d.size) (hb : lo < b) (hbc : b ≤ c)
    (hc : c ≤ hi - 1) (hst : PState d lo hi pv b c) :
    ∃ d1 c1 n, dupsTail d lo hi c = .ok (d1, c1, n) ∧ RP (lo + 1) hi d d1 ∧ PState d1 lo hi pv b c1 ∧
      c ≤ c1 ∧ c1 ≤ c + 1 := by
  obtain ⟨hpv, hL, hM, hR⟩ := hst
  unfold dupsTail
  rw [lt_total (by omega) (by omega) (by omega) (by omega)]
  by_cases hlt : vi d lo < vi d (hi - 1)
  · simp only [hlt, decide_true]
    exact ⟨d, c, 0, rfl, RP.refl _ _ _, ⟨hpv, hL, hM, hR⟩, Int.le_refl _, by omega⟩
  · simp only [hlt, decide_false]
    obtain ⟨d1, hsw⟩ := swap_total (d := d) (i := c) (j := hi - 1) (by omega) (by omega) (by omega) (by omega)
    rw [hsw]
    have hlast : vi d (hi - 1) = pv := by
      have := hR (hi - 1) (by omega) (by omega); rw [hpv] at hlt; omega
    refine ⟨d1, c + 1, 1, rfl, RP.of_swap hsw ⟨by omega, by omega⟩ ⟨by omega, by omega⟩, ⟨?_, ?_, ?_, ?_⟩, by omega, by omega⟩
    · rw [swap_vi_other hsw (by omega) (by omega)]; exact hpv
    · intro k h1 h2; rw [swap_vi_other hsw (by omega) (by omega)]; exact hL k h1 h2
    · intro k h1 h2
      by_cases hk : k = c
      · subst hk; rw [swap_vi_left hsw]; exact hlast
      · rw [swap_vi_other hsw hk (by omega)]; exact hM k h1 (by omega)
    · intro k h1 h2
      by_cases hk : k = hi - 1
      · subst hk; rw [swap_vi_right hsw]; exact hR c (Int.le_refl _) (by omega)
      · rw [swap_vi_other hsw (by omega) hk]; exact hR k (by omega) h2

theorem dupsLeft_spec (d : Data) (lo hi pv b c : Int) (n : Nat) (hlo : 0 ≤ lo) (hsz : hi ≤ d.size) (hb : lo + 1 < b)
    (hbc : b ≤ c) (hc : c ≤ hi) (hst : PState d lo hi pv b c) :
    ∃ b2 n2, dupsLeft d lo b n = .ok (b2, n2) ∧ PState d lo hi pv b2 c ∧ b - 1 ≤ b2 ∧ b2 ≤ b := by
  obtain ⟨hpv, hL, hM, hR⟩ := hst
  unfold dupsLeft
  rw [lt_total (by omega) (by omega) (by omega) (by omega)]
  by_cases hlt : vi d (b - 1) < vi d lo
  · simp only [hlt, decide_true]
    exact ⟨b, n, rfl, ⟨hpv, hL, hM, hR⟩, by omega, Int.le_refl _⟩
  · simp only [hlt, decide_false]
    have heq : vi d (b - 1) = pv := by
      have := hL (b - 1) (by omega) (by omega); rw [hpv] at hlt; omega
    refine ⟨b - 1, n + 1, rfl, ⟨hpv, fun k h1 h2 => hL k h1 (by omega), ?_, hR⟩, Int.le_refl _, by omega⟩
    intro k h1 h2
    by_cases hk : k = b - 1
    · subst hk; exact heq
    · exact hM k (by omega) h2

theorem dupsMid_spec (d : Data) (lo hi pv m b c : Int) (n : Nat) (hlo : 0 ≤ lo) (hsz : hi ≤ d.size) (hm : lo < m)
    (hmb : m < b) (hbc : b ≤ c) (hc : c ≤ hi) (hst : PState d lo hi pv b c) :
    ∃ d3 b3 n3, dupsMid d lo m b n = .ok (d3, b3, n3) ∧ RP (lo + 1) hi d d3 ∧ PState d3 lo hi pv b3 c ∧
      b - 1 ≤ b3 ∧ b3 ≤ b := by
  obtain ⟨hpv, hL, hM, hR⟩ := hst
  unfold dupsMid
  rw [lt_total (by omega) (by omega) (by omega) (by omega)]
  by_cases hlt : vi d m < vi d lo
  · simp only [hlt, decide_true]
    exact ⟨d, b, n, rfl, RP.refl _ _ _, ⟨hpv, hL, hM, hR⟩, by omega, Int.le_refl _⟩
  · simp only [hlt, decide_false]
    obtain ⟨d3, hsw⟩ := swap_total (d := d) (i := m) (j := b - 1) (by omega) (by omega) (by omega) (by omega)
    rw [hsw]
    have hmeq : vi d m = pv := by
      have := hL m hm hmb; rw [hpv] at hlt; omega
    refine ⟨d3, b - 1, n + 1, rfl, RP.of_swap hsw ⟨by omega, by omega⟩ ⟨by omega, by omega⟩, ⟨?_, ?_, ?_, ?_⟩, Int.le_refl _, by omega⟩
    · rw [swap_vi_other hsw (by omega) (by omega)]; exact hpv
    · intro k h1 h2
      by_cases hk : k = m
      · subst hk; rw [swap_vi_left hsw]; exact hL (b - 1) (by omega) (by omega)
      · rw [swap_vi_other hsw hk (by omega)]; exact hL k h1 (by omega)
    · intro k h1 h2
      by_cases hk : k = b - 1
      · subst hk; rw [swap_vi_right hsw]; exact hmeq
      · rw [swap_vi_other hsw (by omega) hk]; exact hM k (by omega) h2
    · intro k h1 h2
      rw [swap_vi_other hsw (by omega) (by omega)]; exact hR k h1 h2

theorem dupsBlock_spec (d : Data) (lo hi pv m b c : Int) (hlo : 0 ≤ lo) (hsz : hi ≤ d.size) (hm : lo < m)
    (hmb : m + 1 < b) (hbc : b ≤ c) (hc : c ≤ hi - 1) (hst : PState d lo hi pv b c) :
    ∃ d3 b3 c3 n3, dupsBlock d lo m hi b c = .ok (d3, b3, c3, n3) ∧ RP (lo + 1) hi d d3 ∧
      PState d3 lo hi pv b3 c3 ∧ lo + 1 < b3 + 1 ∧ b3 ≤ c3 ∧ c3 ≤ hi := by
  unfold dupsBlock
  obtain ⟨d1, c1, n1, hr1, hrp1, hst1, h1a, h1b⟩ := dupsTail_spec d lo hi pv b c hlo hsz (by omega) hbc hc hst
  rw [hr1]
  simp only
  have hsz1 : hi ≤ d1.size := by rw [hrp1.1]; exact hsz
  obtain ⟨b2, n2, hr2, hst2, h2a, h2b⟩ := dupsLeft_spec d1 lo hi pv b c1 n1 hlo hsz1 (by omega) (by omega) (by omega) hst1
  rw [hr2]
  simp only
  obtain ⟨d3, b3, n3, hr3, hrp3, hst3, h3a, h3b⟩ := dupsMid_spec d1 lo hi pv m b2 c1 n2 hlo hsz1 hm (by omega) (by omega) (by omega) hst2
  rw [hr3]
  exact ⟨d3, b3, c1, n3, rfl, hrp1.trans hrp3, hst3, by omega, by omega, by omega⟩


theorem pivot_finish (d : Data) (lo hi pv b c : Int) (hlo : 0 ≤ lo) (hsz : hi ≤ d.size) (hb : lo < b) (hbc : b ≤ c)
    (hc : c ≤ hi) (hst : PState d lo hi pv b c) :
    ∃ d5, swap d lo (b - 1) = .ok d5 ∧ RP lo hi d d5 ∧
      (∀ p q, lo ≤ p → p < b - 1 → b - 1 ≤ q → q < hi → vi d5 p ≤ vi d5 q) ∧
      (∀ p q, b - 1 ≤ p → p < c → b - 1 ≤ q → q < c → vi d5 p = vi d5 q) ∧
      (∀ p q, b - 1 ≤ p → p < c → c ≤ q → q < hi → vi d5 p ≤ vi d5 q) := by
  obtain ⟨hpv, hL, hM, hR⟩ := hst
  obtain ⟨d5, hsw⟩ := swap_total (d := d) (i := lo) (j := b - 1) (by omega) (by omega) (by omega) (by omega)
  have hle : ∀ p, lo ≤ p → p < b - 1 → vi d5 p ≤ pv := by
    intro p h1 h2
    by_cases hp : p = lo
    · subst hp; rw [swap_vi_left hsw]; exact hL (b - 1) (by omega) (by omega)
    · rw [swap_vi_other hsw hp (by omega)]; exact hL p (by omega) (by omega)
  have hmid : ∀ q, b - 1 ≤ q → q < c → vi d5 q = pv := by
    intro q h1 h2
    by_cases hq : q = b - 1
    · subst hq; rw [swap_vi_right hsw]; exact hpv
    · rw [swap_vi_other hsw (by omega) hq]; exact hM q (by omega) h2
  have hge : ∀ q, c ≤ q → q < hi → pv ≤ vi d5 q := by
    intro q h1 h2
    rw [swap_vi_other hsw (by omega) (by omega)]; exact hR q h1 h2
  refine ⟨d5, hsw, RP.of_swap hsw ⟨by omega, by omega⟩ ⟨by omega, by omega⟩, ?_, ?_, ?_⟩
  · intro p q h1 h2 h3 h4
    have := hle p h1 h2
    by_cases hq : q < c
    · rw [hmid q h3 hq]; exact this
    · have := hge q (by omega) h4; omega
  · intro p q h1 h2 h3 h4
    rw [hmid p h1 h2, hmid q h3 h4]
  · intro p q h1 h2 h3 h4
    rw [hmid p h1 h2]; exact hge q h3 h4

end IntSort

namespace IntSort

theorem ninther_spec (cf : Cfg) (hD : 3 ≤ cf.nintherDiv) (hM0 : 0 ≤ cf.nintherMul ∧ 0 ≤ cf.nintherMul2)
    (hMD : cf.nintherMul < cf.nintherDiv ∧ cf.nintherMul2 < cf.nintherDiv)
    (d : Data) (lo hi : Int) (hlo : 0 ≤ lo) (hbig : hi - lo ≥ 1) (hsz : hi ≤ d.size) :
    ∃ d0, ninther cf d lo hi ((lo + hi) / 2) = .ok d0 ∧ RP lo hi d d0 := by
  unfold ninther
  by_cases h40 : hi - lo > cf.nintherMin
  · rw [if_pos h40]
    simp only
    have hs : Int.tdiv (hi - lo) cf.nintherDiv = (hi - lo) / cf.nintherDiv := Int.tdiv_eq_ediv_of_nonneg (by omega)
    rw [hs]
    -- s = n / D and P = M * s as opaque quantities with the facts needed
    have hs0 : 0 ≤ (hi - lo) / cf.nintherDiv := Int.ediv_nonneg (by omega) (by omega)
    have hDs : cf.nintherDiv * ((hi - lo) / cf.nintherDiv) ≤ hi - lo := Int.mul_ediv_self_le (by omega)
    generalize (hi - lo) / cf.nintherDiv = s at hs0 hDs ⊢
    have h3s : 3 * s ≤ cf.nintherDiv * s := Int.mul_le_mul_of_nonneg_right hD hs0
    have hP0 : 0 ≤ cf.nintherMul * s := Int.mul_nonneg hM0.1 hs0
    have hP1 : cf.nintherMul * s ≤ (cf.nintherDiv - 1) * s := Int.mul_le_mul_of_nonneg_right (by omega) hs0
    have hQ0 : 0 ≤ cf.nintherMul2 * s := Int.mul_nonneg hM0.2 hs0
    have hQ1 : cf.nintherMul2 * s ≤ (cf.nintherDiv - 1) * s := Int.mul_le_mul_of_nonneg_right (by omega) hs0
    have hP2 : (cf.nintherDiv - 1) * s = cf.nintherDiv * s - s := by rw [Int.sub_mul, Int.one_mul]
    generalize cf.nintherMul * s = P at hP0 hP1 ⊢
    generalize cf.nintherMul2 * s = P' at hQ0 hQ1 ⊢
    generalize cf.nintherDiv * s = Ds at hDs h3s hP2
    have hPn : P ≤ hi - lo - 1 ∧ P' ≤ hi - lo - 1 := by
      by_cases hz : s = 0
      · subst hz; omega
      · omega
    obtain ⟨d1, hr1, hrp1⟩ := medianOfThree_rp d lo (lo + s) (lo + P) lo hi
      ⟨by omega, by omega⟩ ⟨by omega, by omega⟩ ⟨by omega, by omega⟩ hlo hsz
    rw [hr1]
    simp only
    obtain ⟨d2, hr2, hrp2⟩ := medianOfThree_rp d1 ((lo + hi) / 2) ((lo + hi) / 2 - s) ((lo + hi) / 2 + s) lo hi
      ⟨by omega, by omega⟩ ⟨by omega, by omega⟩ ⟨by omega, by omega⟩ hlo (by rw [hrp1.1]; exact hsz)
    rw [hr2]
    simp only
    obtain ⟨d3, hr3, hrp3⟩ := medianOfThree_rp d2 (hi - 1) (hi - 1 - s) (hi - 1 - P') lo hi
      ⟨by omega, by omega⟩ ⟨by omega, by omega⟩ ⟨by omega, by omega⟩ hlo (by rw [hrp2.1, hrp1.1]; exact hsz)
    exact ⟨d3, hr3, (hrp1.trans hrp2).trans hrp3⟩
  · rw [if_neg h40]
    exact ⟨d, rfl, RP.refl _ _ _⟩

theorem dupsStage_spec (cf : Cfg) (hQ : cf.dupsDiv < 0 ∨ 3 ≤ cf.dupsDiv) (d : Data) (lo hi pv b : Int) (hlo : 0 ≤ lo)
    (hbig : hi - lo ≥ 3) (hsz : hi ≤ d.size) (hb : lo < b) (hbh : b ≤ hi - 1) (hst : PState d lo hi pv b b) :
    ∃ d3 b3 c3 protect, dupsStage cf d lo ((lo + hi) / 2) hi b b = .ok (d3, b3, c3, protect) ∧
      RP (lo + 1) hi d d3 ∧ PState d3 lo hi pv b3 c3 ∧ lo < b3 ∧ b3 ≤ c3 ∧ c3 ≤ hi := by
  unfold dupsStage
  simp only
  have hs : Int.tdiv (hi - lo) cf.dupsDiv = (hi - lo) / cf.dupsDiv := Int.tdiv_eq_ediv_of_nonneg (by omega)
  rw [hs]
  by_cases hcond : ¬ (hi - b < cf.protectMin) ∧ hi - b < (hi - lo) / cf.dupsDiv
  · have : (!decide (hi - b < cf.protectMin) && decide (hi - b < (hi - lo) / cf.dupsDiv)) = true := by
      simp [hcond.1, hcond.2]
    rw [if_pos this]
    -- the divisor is ≥ 3 here: with a negative divisor the quotient is ≤ 0 < hi - b
    have hQ3 : 3 ≤ cf.dupsDiv := by
      rcases hQ with h | h
      · have := Int.ediv_nonpos_of_nonneg_of_nonpos (a := hi - lo) (b := cf.dupsDiv) (by omega) (by omega)
        omega
      · exact h
    have hq0 : 0 ≤ (hi - lo) / cf.dupsDiv := Int.ediv_nonneg (by omega) (by omega)
    have hQq : cf.dupsDiv * ((hi - lo) / cf.dupsDiv) ≤ hi - lo := Int.mul_ediv_self_le (by omega)
    have hlt := hcond.2
    generalize (hi - lo) / cf.dupsDiv = q at hq0 hQq hlt
    have h3q : 3 * q ≤ cf.dupsDiv * q := Int.mul_le_mul_of_nonneg_right hQ3 hq0
    generalize cf.dupsDiv * q = Qq at hQq h3q
    obtain ⟨d3, b3, c3, n3, hr, hrp, hst3, h1, h2, h3⟩ := dupsBlock_spec d lo hi pv ((lo + hi) / 2) b b hlo hsz
      (by omega) (by omega) (Int.le_refl _) (by omega) hst
    rw [hr]
    exact ⟨d3, b3, c3, _, rfl, hrp, hst3, by omega, h2, h3⟩
  · have : ¬ ((!decide (hi - b < cf.protectMin) && decide (hi - b < (hi - lo) / cf.dupsDiv)) = true) := by
      intro h
      simp at h
      exact hcond ⟨by omega, h.2⟩
    rw [if_neg this]
    exact ⟨d, b, b, _, rfl, RP.refl _ _ _, hst, hb, Int.le_refl _, by omega⟩

theorem protectStage_spec (d : Data) (lo hi pv a b c : Int) (protect : Bool) (hlo : 0 ≤ lo) (hsz : hi ≤ d.size)
    (ha : lo < a) (hb : lo < b) (hbc : b ≤ c) (hc : c ≤ hi) (hst : PState d lo hi pv b c) :
    ∃ d4 b4, protectStage ((hi - lo).toNat + 1) d lo a b protect = .ok (d4, b4) ∧ RP (lo + 1) hi d d4 ∧
      PState d4 lo hi pv b4 c ∧ lo < b4 ∧ b4 ≤ c := by
  unfold protectStage
  cases protect with
  | false => exact ⟨d, b, rfl, RP.refl _ _ _, hst, hb, hbc⟩
  | true =>
    simp only [if_true]
    obtain ⟨hpv, hL, hM, hR⟩ := hst
    obtain ⟨d4, a4, b4, hr, hrp, h1, h2, h3, h4⟩ := protectLoop_spec lo c pv hlo ((hi - lo).toNat + 1) d a b ha hb hbc
      (by omega) hpv hL hM (by omega) (by omega)
    rw [hr]
    refine ⟨d4, b4, rfl, hrp.mono (Int.le_refl _) (by omega), ⟨?_, h3, h4, ?_⟩, h1, by omega⟩
    · rw [hrp.2.1 lo (Or.inl (by omega))]; exact hpv
    · intro k hk1 hk2
      rw [hrp.2.1 k (Or.inr (by omega))]; exact hR k hk1 hk2

/-- the contract of `doPivot` that `quickSort` relies on -/
theorem doPivot_spec (cf : Cfg) (hps : cf.pivotShift = 1) (hD : 3 ≤ cf.nintherDiv)
    (hM0 : 0 ≤ cf.nintherMul ∧ 0 ≤ cf.nintherMul2)
    (hMD : cf.nintherMul < cf.nintherDiv ∧ cf.nintherMul2 < cf.nintherDiv) (hQ : cf.dupsDiv < 0 ∨ 3 ≤ cf.dupsDiv)
    (d : Data) (lo hi : Int) (hlo : 0 ≤ lo) (hbig : hi - lo ≥ 3) (hsz : hi ≤ d.size) :
    PivotOK cf d lo hi := by
  unfold PivotOK doPivot
  rw [if_neg (by omega)]
  simp only [hps, Int.pow_succ, Int.pow_zero, Int.one_mul]
  obtain ⟨d0, hr0, hrp0⟩ := ninther_spec cf hD hM0 hMD d lo hi hlo (by omega) hsz
  rw [hr0]
  simp only
  have hsz0 : hi ≤ d0.size := by rw [hrp0.1]; exact hsz
  obtain ⟨d1, hr1, hrp1, hmed⟩ := medianOfThree_spec d0 lo ((lo + hi) / 2) (hi - 1) lo hi
    ⟨by omega, by omega⟩ ⟨by omega, by omega⟩ ⟨by omega, by omega⟩ hlo hsz0 (by omega) (by omega) (by omega)
  rw [hr1]
  simp only
  have hsz1 : hi ≤ d1.size := by rw [hrp1.1]; exact hsz0
  obtain ⟨a, hra, a1, a2, _, a4, _⟩ := scanLt_spec d1 lo (hi - 1) (lo + 1) hlo (by omega) (by omega) (by omega)
  rw [hra]
  simp only
  have ha2 := a2 (by omega)
  obtain ⟨d2, b, hrb, hrp2, b1, b2, bL, bR, bpv⟩ := partLoop_spec lo hi (vi d1 lo) hlo ((hi - lo).toNat + 1) d1 a (hi - 1)
    (by omega) ha2 (Int.le_refl _) hsz1 rfl
    (fun k h1 h2 => Int.le_of_lt (a4 k (by omega) h2))
    (fun k h1 h2 => by have : k = hi - 1 := by omega
                       rw [this]; exact hmed)
    (by omega)
  rw [hrb]
  simp only
  have hsz2 : hi ≤ d2.size := by rw [hrp2.1]; exact hsz1
  obtain ⟨d3, b3, c3, protect, hr3, hrp3, hst3, c1, c2, c3'⟩ := dupsStage_spec cf hQ d2 lo hi (vi d1 lo) b hlo hbig hsz2
    (by omega) b2 ⟨bpv, bL, fun k h1 h2 => by omega, bR⟩
  rw [hr3]
  simp only
  have hsz3 : hi ≤ d3.size := by rw [hrp3.1]; exact hsz2
  obtain ⟨d4, b4, hr4, hrp4, hst4, e1, e2⟩ := protectStage_spec d3 lo hi (vi d1 lo) a b3 c3 protect hlo hsz3
    (by omega) c1 c2 c3' hst3
  rw [hr4]
  simp only
  have hsz4 : hi ≤ d4.size := by rw [hrp4.1]; exact hsz3
  obtain ⟨d5, hr5, hrp5, p1, p2, p3⟩ := pivot_finish d4 lo hi (vi d1 lo) b4 c3 hlo hsz4 e1 e2 c3' hst4
  rw [hr5]
  refine ⟨d5, b4 - 1, c3, rfl, ?_, by omega, by omega, c3', p1, p2, p3⟩
  have r2 : RP lo hi d1 d2 := hrp2.mono (by omega) (by omega)
  have r3 : RP lo hi d2 d3 := hrp3.mono (by omega) (Int.le_refl _)
  have r4 : RP lo hi d3 d4 := hrp4.mono (by omega) (Int.le_refl _)
  exact ((((hrp0.trans hrp1).trans r2).trans r3).trans r4).trans hrp5

end IntSort

namespace IntSort

/-- `Sort(a)` under every admissible configuration: never panics, never runs out of the fuel given to its loops,
and leaves the slice sorted and a permutation of its old content -/
theorem sort_full (cf : Cfg) (h : cf.Admissible) (d : Data) :
    ∃ d', sort cf d = .ok d' ∧ d'.toList.Pairwise (· ≤ ·) ∧ d'.toList.Perm d.toList := by
  obtain ⟨hT, hK, hG, hps, hD, hM0, hMD, hQ, hm, ha, hsb, hbo, hS⟩ := h
  exact sort_spec cf ⟨hm, ha, hsb⟩ hbo hK hG hS
    (fun d lo hi h0 hbig hsz => doPivot_spec cf hps hD hM0 hMD hQ d lo hi h0 (by omega) hsz) d

end IntSort

namespace IntSort

theorem sortedOn_iff_slice (d : Data) (a b : Nat) (hb : b ≤ d.size) :
    SortedOn a b d ↔ ((d.toList.drop a).take (b - a)).Pairwise (· ≤ ·) := by
  rw [List.pairwise_iff_getElem]
  constructor
  · intro h i j hi hj hij
    simp only [List.length_take, List.length_drop, Array.length_toList] at hi hj
    have := h ((a + i : Nat) : Int) ((a + j : Nat) : Int) (by omega) (by omega) (by omega)
    rw [vi_eq_getElem d (a + i) (by omega), vi_eq_getElem d (a + j) (by omega)] at this
    simpa using this
  · intro h p q hp hpq hq
    have hi : p.toNat - a < ((d.toList.drop a).take (b - a)).length := by
      simp only [List.length_take, List.length_drop, Array.length_toList]; omega
    have hj : q.toNat - a < ((d.toList.drop a).take (b - a)).length := by
      simp only [List.length_take, List.length_drop, Array.length_toList]; omega
    have := h (p.toNat - a) (q.toNat - a) hi hj (by omega)
    have ep : p = ((p.toNat : Nat) : Int) := by omega
    have eq : q = ((q.toNat : Nat) : Int) := by omega
    rw [ep, eq, vi_eq_getElem d p.toNat (by omega), vi_eq_getElem d q.toNat (by omega)]
    simp only [List.getElem_take, List.getElem_drop, Array.getElem_toList] at this
    have e1 : a + (p.toNat - a) = p.toNat := by omega
    have e2 : a + (q.toNat - a) = q.toNat := by omega
    simpa [e1, e2] using this

end IntSort
