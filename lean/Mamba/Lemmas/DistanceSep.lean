import Mamba.Lemmas.DistanceComp
import Mamba.Lemmas.DistanceBlocks
import Mathlib.Data.List.Nodup
import Mathlib.Data.List.Perm.Subperm
/-!
# `isArticIn` (deleting `v` increases the number of components) as a separation property
-/
namespace GDist
open GraphSpec

variable {g : G}

/-- basic facts about the component list of `g[V]` -/
theorem componentsIn_facts (hsym : ∀ u v, g.adj u v = g.adj v u) (V : List Nat) :
    (∀ c ∈ componentsIn g V, ∃ s ∈ V, c = componentIn g V s) ∧
    (∀ s ∈ V, componentIn g V s ∈ componentsIn g V) ∧
    (componentsIn g V).Nodup := by
  have hV : ∀ r ∈ V, r ∈ V := fun _ h => h
  have hcl : ∀ x ∈ ([] : List Nat), ∀ y, ReachIn g V x y → y ∈ ([] : List Nat) := fun x hx => by cases hx
  obtain ⟨h1, h2, _, h4⟩ := componentsFrom_spec hsym V [] hV hcl
  refine ⟨fun c hc => ?_, fun s hs => ?_, ?_⟩
  · obtain ⟨s, hs, _, rfl⟩ := h1 c hc
    exact ⟨s, hs, rfl⟩
  · rcases h2 s hs with h | ⟨c, hc, hsc⟩
    · cases h
    · obtain ⟨t, _, _, rfl⟩ := h1 c hc
      have : componentIn g V s = componentIn g V t := (componentIn_congr hsym (mem_componentIn.1 hsc)).symm
      rw [this]; exact hc
  · refine List.Pairwise.imp_of_mem ?_ h4
    intro a b ha _ hdis hab
    subst hab
    obtain ⟨t, ht, _, rfl⟩ := h1 a ha
    have : t ∈ componentIn g V t := mem_componentIn.2 (ReachIn.refl ht)
    exact hdis t this this

theorem componentIn_eq_iff (hsym : ∀ u v, g.adj u v = g.adj v u) {V : List Nat} {s t : Nat} (hs : s ∈ V) :
    componentIn g V s = componentIn g V t ↔ ReachIn g V s t := by
  constructor
  · intro h
    have : s ∈ componentIn g V t := by rw [← h]; exact mem_componentIn.2 (ReachIn.refl hs)
    exact (mem_componentIn.1 this).symm hsym
  · exact componentIn_congr hsym

/-- a walk in `V` either avoids `v` or reaches `v` -/
theorem walk_avoid_or_reach {V : List Nat} {v x y k : Nat} (hx : x ∈ V.erase v) (hw : WalkIn g V x y k) :
    (∃ j, WalkIn g (V.erase v) x y j) ∨ ReachIn g V x v := by
  induction hw with
  | base _ => exact .inl ⟨0, .base hx⟩
  | @step u w k hwu hadj hwV ih =>
    rcases ih with ⟨j, hj⟩ | h
    · by_cases hwv : w = v
      · subst hwv; exact .inr ⟨k + 1, .step hwu hadj hwV⟩
      · exact .inl ⟨j + 1, .step hj hadj ((List.mem_erase_of_ne hwv).2 hwV)⟩
    · exact .inr h

theorem walkIn_mono {V W : List Nat} (hsub : ∀ x ∈ V, x ∈ W) {s x k : Nat} (hw : WalkIn g V s x k) :
    WalkIn g W s x k := by
  induction hw with
  | base h => exact .base (hsub _ h)
  | step _ hadj hx ih => exact .step ih hadj (hsub _ hx)

theorem reachIn_mono {V W : List Nat} (hsub : ∀ x ∈ V, x ∈ W) {s x : Nat} (h : ReachIn g V s x) :
    ReachIn g W s x := by
  obtain ⟨k, hk⟩ := h; exact ⟨k, walkIn_mono hsub hk⟩

/-- **deleting `v` increases the number of components iff `v` separates two other vertices** -/
theorem isArticIn_iff_sep (hsym : ∀ u v, g.adj u v = g.adj v u) (V : List Nat) (v : Nat) :
    isArticIn g V v = true ↔
      ∃ x y, x ∈ V.erase v ∧ y ∈ V.erase v ∧ ReachIn g V x y ∧ ¬ ReachIn g (V.erase v) x y := by
  obtain ⟨hP1, hP2, hP3⟩ := componentsIn_facts hsym V
  obtain ⟨hQ1, hQ2, hQ3⟩ := componentsIn_facts hsym (V.erase v)
  have hsubV : ∀ x ∈ V.erase v, x ∈ V := fun x hx => List.mem_of_mem_erase hx
  have key : isArticIn g V v = true ↔
      (componentsIn g V).length < (componentsIn g (V.erase v)).length := by
    unfold isArticIn numComponentsIn
    exact decide_eq_true_iff
  rw [key]
  constructor
  · -- contrapositive: without separation the classes of V - v inject into the classes of V
    intro hlt
    by_contra hno
    have hno' : ∀ x y, x ∈ V.erase v → y ∈ V.erase v → ReachIn g V x y → ReachIn g (V.erase v) x y := by
      intro x y hx hy hr
      by_contra h
      exact hno ⟨x, y, hx, hy, hr, h⟩
    -- representative of a class of V - v
    have hrep : ∀ c' ∈ componentsIn g (V.erase v), ∃ s, s ∈ V.erase v ∧ c' = componentIn g (V.erase v) s := hQ1
    let φ : List Nat → List Nat := fun c' => componentIn g V (c'.headD 0)
    have hhead : ∀ c' ∈ componentsIn g (V.erase v), c'.headD 0 ∈ V.erase v ∧
        c' = componentIn g (V.erase v) (c'.headD 0) := by
      intro c' hc'
      obtain ⟨s, hs, rfl⟩ := hrep c' hc'
      have hne : componentIn g (V.erase v) s ≠ [] :=
        List.ne_nil_of_mem (mem_componentIn.2 (ReachIn.refl hs))
      obtain ⟨a, t, hat⟩ := List.exists_cons_of_ne_nil hne
      have ha : a ∈ componentIn g (V.erase v) s := by rw [hat]; simp
      have hra := mem_componentIn.1 ha
      rw [hat]
      simp only [List.headD_cons]
      rw [← hat]
      exact ⟨hra.mem_V, componentIn_congr hsym hra⟩
    have hinj : ∀ a ∈ componentsIn g (V.erase v), ∀ b ∈ componentsIn g (V.erase v), φ a = φ b → a = b := by
      intro a ha b hb hab
      obtain ⟨ha1, ha2⟩ := hhead a ha
      obtain ⟨hb1, hb2⟩ := hhead b hb
      have hr : ReachIn g V (a.headD 0) (b.headD 0) := (componentIn_eq_iff hsym (hsubV _ ha1)).1 hab
      have hr' := hno' _ _ ha1 hb1 hr
      rw [ha2, hb2]
      exact componentIn_congr hsym hr'
    have hnd : ((componentsIn g (V.erase v)).map φ).Nodup := List.Nodup.map_on hinj hQ3
    have hsub : ∀ c ∈ (componentsIn g (V.erase v)).map φ, c ∈ componentsIn g V := by
      intro c hc
      obtain ⟨c', hc', rfl⟩ := List.mem_map.1 hc
      exact hP2 _ (hsubV _ (hhead c' hc').1)
    have := (List.subperm_of_subset hnd hsub).length_le
    rw [List.length_map] at this
    omega
  · rintro ⟨x, y, hx, hy, hr, hnr⟩
    -- x reaches v in V
    have hxv : ReachIn g V x v := by
      obtain ⟨k, hk⟩ := hr
      rcases walk_avoid_or_reach hx hk with ⟨j, hj⟩ | h
      · exact absurd ⟨j, hj⟩ hnr
      · exact h
    have hxV := hsubV x hx
    -- generator of a class of V, different from v unless the class is the class of x
    have hgen : ∀ c ∈ componentsIn g V, c ≠ componentIn g V x →
        ∃ s, s ∈ V.erase v ∧ c = componentIn g V s := by
      intro c hc hne
      obtain ⟨s, hs, rfl⟩ := hP1 c hc
      refine ⟨s, ?_, rfl⟩
      have hsv : s ≠ v := by
        rintro rfl
        exact hne (componentIn_congr hsym (hxv.symm hsym))
      exact (List.mem_erase_of_ne hsv).2 hs
    classical
    let ψ : List Nat → List Nat := fun c =>
      if hc : c ∈ componentsIn g V ∧ c ≠ componentIn g V x then
        componentIn g (V.erase v) (Classical.choose (hgen c hc.1 hc.2))
      else componentIn g (V.erase v) x
    have hψsub : ∀ c ∈ componentsIn g V, ∀ z ∈ ψ c, z ∈ c := by
      intro c hc z hz
      by_cases hcx : c = componentIn g V x
      · have : ψ c = componentIn g (V.erase v) x := by simp [ψ, hcx]
        rw [this] at hz
        rw [hcx]
        exact mem_componentIn.2 (reachIn_mono hsubV (mem_componentIn.1 hz))
      · have hcond : c ∈ componentsIn g V ∧ c ≠ componentIn g V x := ⟨hc, hcx⟩
        have : ψ c = componentIn g (V.erase v) (Classical.choose (hgen c hc hcx)) := by simp [ψ, hcond]
        rw [this] at hz
        obtain ⟨_, h2⟩ := Classical.choose_spec (hgen c hc hcx)
        rw [h2]
        exact mem_componentIn.2 (reachIn_mono hsubV (mem_componentIn.1 hz))
    have hψne : ∀ c ∈ componentsIn g V, ∃ z, z ∈ ψ c := by
      intro c hc
      by_cases hcx : c = componentIn g V x
      · have : ψ c = componentIn g (V.erase v) x := by simp [ψ, hcx]
        exact ⟨x, by rw [this]; exact mem_componentIn.2 (ReachIn.refl hx)⟩
      · have hcond : c ∈ componentsIn g V ∧ c ≠ componentIn g V x := ⟨hc, hcx⟩
        have : ψ c = componentIn g (V.erase v) (Classical.choose (hgen c hc hcx)) := by simp [ψ, hcond]
        obtain ⟨h1, _⟩ := Classical.choose_spec (hgen c hc hcx)
        exact ⟨_, by rw [this]; exact mem_componentIn.2 (ReachIn.refl h1)⟩
    have hψmem : ∀ c ∈ componentsIn g V, ψ c ∈ componentsIn g (V.erase v) := by
      intro c hc
      by_cases hcx : c = componentIn g V x
      · have : ψ c = componentIn g (V.erase v) x := by simp [ψ, hcx]
        rw [this]; exact hQ2 x hx
      · have hcond : c ∈ componentsIn g V ∧ c ≠ componentIn g V x := ⟨hc, hcx⟩
        have : ψ c = componentIn g (V.erase v) (Classical.choose (hgen c hc hcx)) := by simp [ψ, hcond]
        obtain ⟨h1, _⟩ := Classical.choose_spec (hgen c hc hcx)
        rw [this]; exact hQ2 _ h1
    -- classes of V are pairwise disjoint
    have hdisj : ∀ a ∈ componentsIn g V, ∀ b ∈ componentsIn g V, ∀ z, z ∈ a → z ∈ b → a = b := by
      intro a ha b hb z hza hzb
      obtain ⟨s, hs, rfl⟩ := hP1 a ha
      obtain ⟨t, ht, rfl⟩ := hP1 b hb
      exact componentIn_congr hsym ((mem_componentIn.1 hza).trans ((mem_componentIn.1 hzb).symm hsym))
    have hinj : ∀ a ∈ componentsIn g V, ∀ b ∈ componentsIn g V, ψ a = ψ b → a = b := by
      intro a ha b hb hab
      obtain ⟨z, hz⟩ := hψne a ha
      exact hdisj a ha b hb z (hψsub a ha z hz) (hψsub b hb z (hab ▸ hz))
    have hyV := hsubV y hy
    have hycls : componentIn g (V.erase v) y ∉ (componentsIn g V).map ψ := by
      intro hm
      obtain ⟨c, hc, hcy⟩ := List.mem_map.1 hm
      have hyin : y ∈ ψ c := by rw [hcy]; exact mem_componentIn.2 (ReachIn.refl hy)
      have hyc : y ∈ c := hψsub c hc y hyin
      have hcx : c = componentIn g V x :=
        hdisj c hc _ (hP2 x hxV) y hyc (mem_componentIn.2 hr)
      have : ψ c = componentIn g (V.erase v) x := by simp [ψ, hcx]
      rw [this] at hyin
      exact hnr (mem_componentIn.1 hyin)
    have hnd : (componentIn g (V.erase v) y :: (componentsIn g V).map ψ).Nodup :=
      List.nodup_cons.2 ⟨hycls, List.Nodup.map_on hinj hP3⟩
    have hsub : ∀ c ∈ componentIn g (V.erase v) y :: (componentsIn g V).map ψ, c ∈ componentsIn g (V.erase v) := by
      intro c hc
      rcases List.mem_cons.1 hc with rfl | hc
      · exact hQ2 y hy
      · obtain ⟨c0, hc0, rfl⟩ := List.mem_map.1 hc
        exact hψmem c0 hc0
    have := (List.subperm_of_subset hnd hsub).length_le
    simp only [List.length_cons, List.length_map] at this
    omega

end GDist
