import Mamba.Lemmas.C06AddEdge2
/-! C06: graphs built by `NewDense(n, nil)` + `AddEdge`; `RandomGraph`. -/
namespace Construct
open GraphSpec


/-- the graph on `n` vertices whose edges are the non-loop pairs of `ps` -/
def ofPairs (n : Nat) (ps : List (Nat × Nat)) : G :=
  { n := n, adj := fun u v => ps.any fun p => p.1 != p.2 && isPair p.1 p.2 u v }

theorem foldl_addEdge (ps : List (Nat × Nat)) (g : G) (h : ∀ p ∈ ps, p.1 < g.n ∧ p.2 < g.n) :
    ps.foldl (fun g p => Families.addEdge g p.1 p.2) g =
      { n := g.n, adj := fun u v => g.adj u v || ps.any fun p => p.1 != p.2 && isPair p.1 p.2 u v } := by
  induction ps generalizing g with
  | nil => simp
  | cons p t ih =>
    have hp := h p (by simp)
    rw [List.foldl_cons, ih (Families.addEdge g p.1 p.2) (fun q hq => h q (by simp [hq]))]
    refine G_ext (show _ = _ from rfl) ?_
    intro u v
    simp only [List.any_cons]
    by_cases hpp : p.1 = p.2
    · have : (Families.addEdge g p.1 p.2).adj u v = g.adj u v := by simp [Families.addEdge, hpp]
      rw [this]; simp [hpp]
    · rw [addEdge_adj g p.1 p.2 hpp hp.1 hp.2]
      have : (p.1 != p.2) = true := by simp [hpp]
      simp [this, Bool.or_assoc]

theorem buildFrom_ok (ps : List (Nat × Nat)) (d : Dense) (hd : d.WF) (h : ∀ p ∈ ps, p.1 < d.n ∧ p.2 < d.n) :
    ∃ d', ps.foldlM (fun g p => addEdge g p.1 p.2) d = .ok d' ∧ d'.WF ∧ d'.n = d.n ∧
      d'.abs = ps.foldl (fun g p => Families.addEdge g p.1 p.2) d.abs := by
  induction ps generalizing d with
  | nil => exact ⟨d, rfl, hd, rfl, rfl⟩
  | cons p t ih =>
    obtain ⟨d1, e1, w1, n1, a1⟩ := addEdge_ok d hd p.1 p.2 (h p (by simp)).1 (h p (by simp)).2
    obtain ⟨d2, e2, w2, n2, a2⟩ := ih d1 w1 (by intro q hq; rw [n1]; exact h q (by simp [hq]))
    refine ⟨d2, ?_, w2, by omega, ?_⟩
    · simp only [List.foldlM_cons, e1, Outcome.bind_ok]; exact e2
    · rw [a2, a1]; rfl

/-- `NewDense(n, nil)` followed by any sequence of in-range `AddEdge` calls: no panic, well formed,
and the edges are exactly the non-loop pairs added -/
theorem buildByAddEdge_ok (n : Nat) (ps : List (Nat × Nat)) (h : ∀ p ∈ ps, p.1 < n ∧ p.2 < n) :
    ∃ d, buildByAddEdge n ps = .ok d ∧ d.WF ∧ d.n = n ∧ d.abs = ofPairs n ps := by
  obtain ⟨hw, ha⟩ := newDenseNil_wf n
  obtain ⟨d, e, w, hn, a⟩ := buildFrom_ok ps (newDenseNil n) hw h
  refine ⟨d, e, w, hn, ?_⟩
  rw [a, ha, foldl_addEdge ps _ h]
  simp [ofPairs]

theorem randomGraph_ok (n : Nat) (coin : Nat → Bool) : ∃ d, randomGraph n coin = .ok d ∧ d.WF ∧ d.n = n := by
  unfold randomGraph
  obtain ⟨d, e, w, hn, _⟩ := buildByAddEdge_ok n
    ((List.zip (List.range ((List.range n).flatMap fun i => (List.range i).map fun j => (i, j)).length)
      ((List.range n).flatMap fun i => (List.range i).map fun j => (i, j))).filterMap
        fun x => if coin x.1 = true then some x.2 else none) (by
    intro p hp
    simp only [List.mem_filterMap] at hp
    obtain ⟨⟨k, q⟩, hz, hq⟩ := hp
    have hq2 := (List.of_mem_zip hz).2
    simp only [List.mem_flatMap, List.mem_range, List.mem_map] at hq2
    obtain ⟨i, hi, j, hj, rfl⟩ := hq2
    split at hq
    · cases hq; exact ⟨hi, by show j < n; omega⟩
    · cases hq)
  exact ⟨d, e, w, hn⟩


end Construct
