import Mamba.Lemmas.DawgInv
/-! `addSuffix`: appends a fresh chain below an unregistered node. -/
namespace Dawg

/-- every node's id is its heap position (pointer identity = id identity in the builder) -/
@[reducible] def HeapIds (h : Heap) : Prop := ∀ (i : Nat) (n : Node), h[i]? = some n → n.id = i

theorem RegOK.lt_size {h : Heap} {R : List Nat} (hreg : RegOK h R) {u : Nat} (hu : u ∈ R) : u < h.size := by
  obtain ⟨L, hL, _⟩ := hreg.rep u hu
  obtain ⟨n, hn, _⟩ := hL.numWords
  exact (Array.getElem?_eq_some_iff.1 hn).1

theorem addSuffix_fresh (R : List Nat) : ∀ (rest : Word) (h : Heap) (q lid : Nat) (n : Node),
    h[q]? = some n → n.numWords = 1 → n.final = false → n.labels = [] → n.links = [] → q ∉ R → RegOK h R →
    HeapIds h → lid + 1 = h.size →
    ∃ h' news, addSuffix h q rest lid = .ok (h', lid + rest.length) ∧
      Spine h' R 0 (q :: news) rest [rest] [[]] ∧ h'.size = h.size + rest.length ∧
      (∀ i, i < h.size → i ≠ q → h'[i]? = h[i]?) ∧ (∀ p ∈ news, h.size ≤ p) ∧ news.Nodup ∧ HeapIds h' := by
  intro rest
  induction rest with
  | nil =>
    intro h q lid n hn hnum hfin hlab hlinks hqR hreg hids hlid
    have hq : q < h.size := (Array.getElem?_eq_some_iff.1 hn).1
    refine ⟨h.setIfInBounds q { n with final := true }, [], ?_, ?_, ?_, ?_, ?_, ?_, ?_⟩
    · simp [addSuffix, getNode_of_some hn]
    · refine Spine.last (n := { n with final := true }) ⟨?_, hqR, by simp, by simp, by simp [hnum, dlt], by simp [hlab], by simp [hlab, hlinks], ?_, ?_⟩
      · rw [Array.getElem?_setIfInBounds_self]; simp [hq]
      · intro c; simp [hlab, sub_cons_nil, sub_nil]
      · intro j c q' hj; simp [hlab] at hj
    · simp
    · intro i _ hiq; rw [Array.getElem?_setIfInBounds_ne (Ne.symm hiq)]
    · intro p hp; cases hp
    · exact List.nodup_nil
    · intro i n' hn'
      rw [Array.getElem?_setIfInBounds] at hn'
      split at hn'
      · next heq =>
        subst heq
        first
          | (rw [if_pos hq] at hn'; cases hn'; exact hids q n hn)
          | (cases hn'; exact hids q n hn)
      · exact hids i n' hn'
  | cons b rest ih =>
    intro h q lid n hn hnum hfin hlab hlinks hqR hreg hids hlid
    have hq : q < h.size := (Array.getElem?_eq_some_iff.1 hn).1
    let n1 : Node := { n with labels := n.labels ++ [b], links := n.links ++ [h.size] }
    let fresh : Node := { id := lid + 1, numWords := 1, final := false, labels := [], links := [] }
    let h2 : Heap := (h.setIfInBounds q n1).push fresh
    have hsz2 : h2.size = h.size + 1 := by simp [h2]
    have hfreshget : h2[h.size]? = some fresh := by
      show ((h.setIfInBounds q n1).push fresh)[h.size]? = some fresh
      rw [Array.getElem?_push, Array.size_setIfInBounds, if_pos rfl]
    have hold : ∀ i, i < h.size → i ≠ q → h2[i]? = h[i]? := by
      intro i hi hiq
      simp only [h2, Array.getElem?_push, Array.size_setIfInBounds]
      rw [if_neg (by omega), Array.getElem?_setIfInBounds_ne (Ne.symm hiq)]
    have hq2 : h2[q]? = some n1 := by
      simp only [h2, Array.getElem?_push, Array.size_setIfInBounds]
      rw [if_neg (by omega), Array.getElem?_setIfInBounds_self]
      simp [hq]
    have hag : AgreeOn h h2 R := by
      intro u hu
      exact hold u (hreg.lt_size hu) (fun h1 => hqR (h1 ▸ hu))
    have hreg2 : RegOK h2 R := hreg.frame hag
    have hids2 : HeapIds h2 := by
      intro i n' hn'
      by_cases hi : i = h.size
      · subst hi; rw [hfreshget] at hn'; cases hn'; simp [fresh]; omega
      · by_cases hiq : i = q
        · subst hiq; rw [hq2] at hn'; cases hn'; exact hids i n hn
        · have hi' : i < h.size := by
            have := (Array.getElem?_eq_some_iff.1 hn').1
            omega
          rw [hold i hi' hiq] at hn'
          exact hids i n' hn'
    obtain ⟨h', news, hres, hsp, hsz, hfr, hnews, hnd, hids'⟩ :=
      ih h2 h.size (lid + 1) fresh hfreshget rfl rfl rfl rfl
        (fun hmem => absurd (hreg.lt_size hmem) (Nat.lt_irrefl _)) hreg2 hids2 (by omega)
    refine ⟨h', h.size :: news, ?_, ?_, ?_, ?_, ?_, ?_, hids'⟩
    · simp only [addSuffix, getNode_of_some hn]
      rw [show lid + (b :: rest).length = lid + 1 + rest.length by simp; omega]
      exact hres
    · have hq' : h'[q]? = some n1 := by rw [hfr q (by omega) (by omega), hq2]
      have hag' : AgreeOn h h' R := by
        intro u hu
        have := hreg.lt_size hu
        rw [hfr u (by omega) (by omega), hag u hu]
      refine Spine.node (ls := []) (qs := []) hq' hqR (by omega) (by simp) (by simp [n1, hfin]) (by simp [n1, hnum, dlt])
        (by simp [n1, hlab]) (by simp [n1, hlab]) (by simp [n1, hlinks]) rfl ?_ ?_ ?_
      · intro c'
        simp only [n1, hlab, List.nil_append, List.mem_singleton, sub_cons_cons, sub_nil]
        constructor
        · intro h1; subst h1; simp
        · intro h1
          by_cases h2 : c' = b
          · exact h2
          · exact absurd (by rw [if_neg (fun h3 => h2 h3.symm)]) h1
      · intro j c' q' hj; simp at hj
      · have : sub [b :: rest] b = [rest] := by simp [sub_cons_cons, sub_nil]
        rw [this]
        exact hsp
    · rw [hsz, hsz2]; simp; omega
    · intro i hi hiq
      rw [hfr i (by omega) (by omega), hold i hi hiq]
    · intro p hp
      rw [List.mem_cons] at hp
      rcases hp with rfl | hp
      · exact Nat.le_refl _
      · have := hnews p hp; omega
    · rw [List.nodup_cons]
      refine ⟨?_, hnd⟩
      intro hmem
      have := hnews _ hmem
      omega

/-- `addSuffix` of a non-empty suffix whose first letter is larger than every label, at an unregistered node whose
children are all registered and whose count has already been incremented -/
theorem addSuffix_at (R : List Nat) (h : Heap) (p lid b : Nat) (rest : Word) (L : List Word) (n : Node)
    (hn : NodeRep h R p L 1 n) (hreg : RegOK h R) (hids : HeapIds h) (hlid : lid + 1 = h.size)
    (hb : ∀ a ∈ n.labels, a < b) (hL : ∀ u ∈ L, u < b :: rest) :
    ∃ h' news, addSuffix h p (b :: rest) lid = .ok (h', lid + 1 + rest.length) ∧
      Spine h' R 0 (p :: news) (b :: rest) (L ++ [b :: rest]) [[]] ∧ h'.size = h.size + 1 + rest.length ∧
      (∀ i, i < h.size → i ≠ p → h'[i]? = h[i]?) ∧ (∀ q ∈ news, h.size ≤ q) ∧ news.Nodup ∧ HeapIds h' := by
  have hp : p < h.size := (Array.getElem?_eq_some_iff.1 hn.get).1
  let n1 : Node := { n with labels := n.labels ++ [b], links := n.links ++ [h.size] }
  let fresh : Node := { id := lid + 1, numWords := 1, final := false, labels := [], links := [] }
  let h2 : Heap := (h.setIfInBounds p n1).push fresh
  have hsz2 : h2.size = h.size + 1 := by simp [h2]
  have hfreshget : h2[h.size]? = some fresh := by
    show ((h.setIfInBounds p n1).push fresh)[h.size]? = some fresh
    rw [Array.getElem?_push, Array.size_setIfInBounds, if_pos rfl]
  have hold : ∀ i, i < h.size → i ≠ p → h2[i]? = h[i]? := by
    intro i hi hip
    simp only [h2, Array.getElem?_push, Array.size_setIfInBounds]
    rw [if_neg (by omega), Array.getElem?_setIfInBounds_ne (Ne.symm hip)]
  have hp2 : h2[p]? = some n1 := by
    simp only [h2, Array.getElem?_push, Array.size_setIfInBounds]
    rw [if_neg (by omega), Array.getElem?_setIfInBounds_self]
    simp [hp]
  have hag : AgreeOn h h2 R := by
    intro u hu
    exact hold u (hreg.lt_size hu) (fun h1 => hn.notReg (h1 ▸ hu))
  have hreg2 : RegOK h2 R := hreg.frame hag
  have hids2 : HeapIds h2 := by
    intro i n' hn'
    by_cases hi : i = h.size
    · subst hi; rw [hfreshget] at hn'; cases hn'; simp [fresh]; omega
    · by_cases hip : i = p
      · subst hip; rw [hp2] at hn'; cases hn'; exact hids i n hn.get
      · have hi' : i < h.size := by
          have := (Array.getElem?_eq_some_iff.1 hn').1
          omega
        rw [hold i hi' hip] at hn'
        exact hids i n' hn'
  obtain ⟨h', news, hres, hsp, hsz, hfr, hnews, hnd, hids'⟩ :=
    addSuffix_fresh R rest h2 h.size (lid + 1) fresh hfreshget rfl rfl rfl rfl
      (fun hmem => absurd (hreg.lt_size hmem) (Nat.lt_irrefl _)) hreg2 hids2 (by omega)
  have hbnot : b ∉ n.labels := fun hmem => Nat.lt_irrefl _ (hb b hmem)
  have hsubb : sub L b = [] := by
    by_cases h1 : sub L b = []
    · exact h1
    · exact absurd ((hn.mem b).2 h1) hbnot
  refine ⟨h', h.size :: news, ?_, ?_, ?_, ?_, ?_, ?_, hids'⟩
  · simp only [addSuffix, getNode_of_some hn.get]
    exact hres
  · have hp' : h'[p]? = some n1 := by rw [hfr p (by omega) (by omega), hp2]
    have hag' : AgreeOn h h' R := by
      intro u hu
      have := hreg.lt_size hu
      rw [hfr u (by omega) (by omega), hag u hu]
    refine Spine.node (ls := n.labels) (qs := n.links) hp' hn.notReg (by omega) ?_ ?_ ?_ ?_ rfl rfl hn.lens ?_ ?_ ?_
    · rw [List.pairwise_append]
      exact ⟨hn.sorted, by simp, fun u hu v hv => by simp at hv; subst hv; exact hL u hu⟩
    · show n.final = true ↔ _
      rw [hn.fin]; simp
    · show n.numWords = _
      rw [hn.num]; simp [dlt]
    · show (n.labels ++ [b]).Pairwise (· < ·)
      rw [List.pairwise_append]
      exact ⟨hn.labs, by simp, fun a ha c hc => by simp at hc; subst hc; exact hb a ha⟩
    · intro c'
      show c' ∈ n.labels ++ [b] ↔ _
      rw [sub_append, List.mem_append, List.mem_singleton, sub_cons_cons, sub_nil]
      by_cases hcb : c' = b
      · subst hcb; simp
      · rw [if_neg (fun h3 => hcb h3.symm), List.append_nil, hn.mem c']
        simp [hcb]
    · intro j c' q hj hq
      obtain ⟨h1, h2⟩ := hn.kids j c' q hj hq
      have hc' : c' ≠ b := by
        intro h3; subst h3; exact hbnot (List.mem_of_getElem? hj)
      refine ⟨h1, ?_⟩
      rw [sub_append, sub_cons_cons, sub_nil, if_neg (fun h3 => hc' h3.symm), List.append_nil]
      exact h2.frame hreg.closed hag' h1
    · have : sub (L ++ [b :: rest]) b = [rest] := by
        rw [sub_append, hsubb, sub_cons_cons, sub_nil, if_pos rfl]; rfl
      rw [this]
      exact hsp
  · rw [hsz, hsz2]
  · intro i hi hip
    rw [hfr i (by omega) (by omega), hold i hi hip]
  · intro q hq
    rw [List.mem_cons] at hq
    rcases hq with rfl | hq
    · exact Nat.le_refl _
    · have := hnews q hq; omega
  · rw [List.nodup_cons]
    refine ⟨?_, hnd⟩
    intro hmem
    have := hnews _ hmem
    omega

end Dawg
