import Mamba.Lemmas.CanonFOrbWorse
/-!
# Orbit completeness through `splitBin` (`orb_split`) and through the refinement (`orb_refine`)
-/
namespace CanonF

section
variable {n : Nat} {nb : Nbrs} {rf : Nat} {r : IR.St}

theorem osp_lFof_congr {gh gh' : Gh} (eo : gh'.oF = gh.oF) : lFof n gh' = lFof n gh := by
  unfold lFof; rw [eo]

theorem osp_orel_congr {s s' : LS} (e : s'.flOrbits = s.flOrbits) : ORel s' = ORel s := by
  funext a b; unfold ORel; rw [e]

/-- `ACovChild` reads `gh.oF`, `firstLeaf`, `flOrbits`, the Heuristic-2 test and `vs.take L` -/
theorem osp_acovChild_congr {gh gh' : Gh} {s s' : LS} {vs vs' ps : List Nat} {st w : Nat}
    (h : ACovChild n nb rf r gh s vs ps st w) (eo : gh'.oF = gh.oF) (e1 : s'.firstLeaf = s.firstLeaf)
    (e2 : ∀ qs, onFirstB s' qs = onFirstB s qs) (e4 : s'.flOrbits = s.flOrbits)
    (ev : vs'.take ps.length = vs.take ps.length) : ACovChild n nb rf r gh' s' vs' ps st w := by
  unfold ACovChild at *
  rw [osp_lFof_congr eo, e1, osp_orel_congr e4, e2, e4, nodeL_congr ev]
  exact h

theorem osp_acovFrames_congr {gh gh' : Gh} {s s' : LS} {vs vs' : List Nat} (eo : gh'.oF = gh.oF)
    (e1 : s'.firstLeaf = s.firstLeaf) (e2 : ∀ qs, onFirstB s' qs = onFirstB s qs) (e4 : s'.flOrbits = s.flOrbits) :
    ∀ (incl : Bool) (path choices : List Nat) (lv : List (Nat × Nat)),
      (∀ L, L < path.length → vs'.take L = vs.take L) →
      ACovFrames n nb rf r gh s vs incl path choices lv → ACovFrames n nb rf r gh' s' vs' incl path choices lv := by
  intro incl path
  induction path generalizing incl with
  | nil => intro choices lv _ h; cases choices <;> cases lv <;> simp_all [ACovFrames]
  | cons p ps ih =>
    intro choices lv hv h
    cases choices with
    | nil => simp [ACovFrames] at h
    | cons c cs =>
      cases lv with
      | nil => simp [ACovFrames] at h
      | cons x ls =>
        obtain ⟨st, sz⟩ := x
        simp only [ACovFrames] at h ⊢
        have ev := hv ps.length (by simp)
        refine ⟨fun i w hi hw => ?_, ih false cs ls (fun L hL => hv L (by simp only [List.length_cons]; omega)) h.2⟩
        rw [cellL_congr ev] at hw
        exact osp_acovChild_congr (h.1 i w hi hw) eo e1 e2 e4 ev

theorem osp_acovFrames_eq {gh : Gh} {s : LS} {vs : List Nat} {incl : Bool}
    {path path' choices choices' : List Nat} {lv : List (Nat × Nat)} (e : path' = path) (e' : choices' = choices)
    (h : ACovFrames n nb rf r gh s vs incl path choices lv) : ACovFrames n nb rf r gh s vs incl path' choices' lv := by
  subst e; subst e'; exact h

/-- the top of `choices` goes from `c` to `c - 1`, the new member is covered -/
theorem osp_acovFrames_step_head {gh : Gh} {s : LS} {vs : List Nat} {p c : Nat} {ps cs : List Nat} {st sz : Nat}
    {ls : List (Nat × Nat)} (h : ACovFrames n nb rf r gh s vs true (p :: ps) (c :: cs) ((st, sz) :: ls)) (hc : st < c)
    (hnew : ∀ w, (cellL n nb rf r vs ps.length st)[c - 1 - st]? = some w → ACovChild n nb rf r gh s vs ps st w)
    (p' : Nat) : ACovFrames n nb rf r gh s vs true (p' :: ps) ((c - 1) :: cs) ((st, sz) :: ls) := by
  simp only [ACovFrames] at h ⊢
  refine ⟨fun i w hi hw => ?_, h.2⟩
  simp only [if_true] at hi
  rcases Nat.lt_or_ge i (c - st) with hlt | hge
  · have : i = c - 1 - st := by omega
    subst this
    exact hnew w hw
  · exact h.1 i w (by simp only [if_true]; exact hge) hw

theorem osp_acovFrames_start_child {gh : Gh} {s : LS} {vs : List Nat} {p c : Nat} {ps cs : List Nat} {st sz : Nat}
    {ls : List (Nat × Nat)} (h : ACovFrames n nb rf r gh s vs true (p :: ps) (c :: cs) ((st, sz) :: ls)) (hc : st < c)
    (p' : Nat) : ACovFrames n nb rf r gh s vs false (p' :: ps) ((c - 1) :: cs) ((st, sz) :: ls) := by
  simp only [ACovFrames] at h ⊢
  refine ⟨fun i w hi hw => ?_, h.2⟩
  simp only [Bool.false_eq_true, if_false] at hi
  exact h.1 i w (by simp only [if_true]; omega) hw

theorem osp_acovFrames_finish_child {gh : Gh} {s : LS} {vs : List Nat} {p c : Nat} {ps cs : List Nat} {st sz : Nat}
    {ls : List (Nat × Nat)} (h : ACovFrames n nb rf r gh s vs false (p :: ps) (c :: cs) ((st, sz) :: ls))
    (hnew : ∀ w, (cellL n nb rf r vs ps.length st)[c - st]? = some w → ACovChild n nb rf r gh s vs ps st w) :
    ACovFrames n nb rf r gh s vs true (p :: ps) (c :: cs) ((st, sz) :: ls) := by
  simp only [ACovFrames] at h ⊢
  refine ⟨fun i w hi hw => ?_, h.2⟩
  simp only [if_true] at hi
  rcases Nat.lt_or_ge (c - st) i with hlt | hge
  · exact h.1 i w (by simp only [Bool.false_eq_true, if_false]; exact hlt) hw
  · have : i = c - st := by omega
    subst this
    exact hnew w hw

/-! ### `FrameAuxA` -/

theorem osp_frameAuxA1_congr {gh gh' : Gh} {s s' : LS} {us us' : List Nat} {incl : Bool} {ps : List Nat} {c st : Nat}
    (h : FrameAuxA1 n nb rf r gh s us incl ps c st) (eo : gh'.oF = gh.oF) (eF : gh'.vsF = gh.vsF)
    (eB : gh'.vsB = gh.vsB) (e0 : s'.count = s.count) (e1 : s'.firstLeaf = s.firstLeaf)
    (e4 : s'.flOrbits = s.flOrbits) (ev : us'.take ps.length = us.take ps.length) :
    FrameAuxA1 n nb rf r gh' s' us' incl ps c st := by
  have ec := cellL_congr (n := n) (nb := nb) (rf := rf) (r := r) (st := st) ev
  have en := nodeL_congr (n := n) (nb := nb) (rf := rf) (r := r) ev
  constructor
  · rw [e0, eF, osp_lFof_congr eo, e1, osp_orel_congr e4, ec, ev, en]; exact h.abF
  · rw [e0, eB, osp_lFof_congr eo, e1, osp_orel_congr e4, ec, ev, en]; exact h.abB

theorem osp_frameAuxA_congr {gh gh' : Gh} {s s' : LS} {us us' : List Nat} (eo : gh'.oF = gh.oF)
    (eF : gh'.vsF = gh.vsF) (eB : gh'.vsB = gh.vsB) (e0 : s'.count = s.count) (e1 : s'.firstLeaf = s.firstLeaf)
    (e4 : s'.flOrbits = s.flOrbits) :
    ∀ (incl : Bool) (path choices : List Nat) (lv : List (Nat × Nat)),
      (∀ L, L < path.length → us'.take L = us.take L) →
      FrameAuxA n nb rf r gh s us incl path choices lv → FrameAuxA n nb rf r gh' s' us' incl path choices lv := by
  intro incl path
  induction path generalizing incl with
  | nil => intro choices lv _ h; cases choices <;> cases lv <;> simp_all [FrameAuxA]
  | cons p ps ih =>
    intro choices lv hv h
    cases choices with
    | nil => simp [FrameAuxA] at h
    | cons c cs =>
      cases lv with
      | nil => simp [FrameAuxA] at h
      | cons x ls =>
        obtain ⟨st, sz⟩ := x
        simp only [FrameAuxA] at h ⊢
        exact ⟨osp_frameAuxA1_congr h.1 eo eF eB e0 e1 e4 (hv ps.length (by simp)),
          ih false cs ls (fun L hL => hv L (by simp only [List.length_cons]; omega)) h.2⟩

theorem osp_frameAuxA_eq {gh : Gh} {s : LS} {vs : List Nat} {incl : Bool}
    {path path' choices choices' : List Nat} {lv : List (Nat × Nat)} (e : path' = path) (e' : choices' = choices)
    (h : FrameAuxA n nb rf r gh s vs incl path choices lv) : FrameAuxA n nb rf r gh s vs incl path' choices' lv := by
  subst e; subst e'; exact h

theorem osp_frameAuxA_head {gh : Gh} {s : LS} {us : List Nat} {incl : Bool} {p c : Nat} {ps cs : List Nat}
    {st sz : Nat} {ls : List (Nat × Nat)}
    (h : FrameAuxA n nb rf r gh s us incl (p :: ps) (c :: cs) ((st, sz) :: ls)) :
    FrameAuxA1 n nb rf r gh s us incl ps c st := by
  simp only [FrameAuxA] at h; exact h.1

theorem osp_frameAuxA_tail {gh : Gh} {s : LS} {us : List Nat} {incl : Bool} {p c : Nat} {ps cs : List Nat}
    {st sz : Nat} {ls : List (Nat × Nat)}
    (h : FrameAuxA n nb rf r gh s us incl (p :: ps) (c :: cs) ((st, sz) :: ls)) :
    FrameAuxA n nb rf r gh s us false ps cs ls := by
  simp only [FrameAuxA] at h; exact h.2

theorem osp_frameAuxA_mk {gh : Gh} {s : LS} {us : List Nat} {incl : Bool} {p c : Nat} {ps cs : List Nat}
    {st sz : Nat} {ls : List (Nat × Nat)} (h1 : FrameAuxA1 n nb rf r gh s us incl ps c st)
    (h2 : FrameAuxA n nb rf r gh s us false ps cs ls) :
    FrameAuxA n nb rf r gh s us incl (p :: ps) (c :: cs) ((st, sz) :: ls) := by
  simp only [FrameAuxA]; exact ⟨h1, h2⟩

/-- the member with index `c - 1 - st` becomes processed and is covered -/
theorem osp_frameAuxA1_step_head {gh : Gh} {s : LS} {us : List Nat} {ps : List Nat} {c st : Nat}
    (h : FrameAuxA1 n nb rf r gh s us true ps c st) (hc : st < c)
    (hnew : ∀ w, (cellL n nb rf r us ps.length st)[c - 1 - st]? = some w →
      ACov n nb rf (lFof n gh) s.firstLeaf.toList (ORel s) (IR.childSt (irG n nb) rf (nodeL n nb rf r us ps.length) st w)) :
    FrameAuxA1 n nb rf r gh s us true ps (c - 1) st := by
  constructor
  · intro h0 hpre i w hi hw hx
    simp only [if_true] at hi
    rcases Nat.lt_or_ge i (c - st) with hlt | hge
    · have : i = c - 1 - st := by omega
      subst this
      exact hnew w hw
    · exact h.abF h0 hpre i w (by simp only [if_true]; exact hge) hw hx
  · intro h0 hpre i w hi hw hx
    simp only [if_true] at hi
    rcases Nat.lt_or_ge i (c - st) with hlt | hge
    · have : i = c - 1 - st := by omega
      subst this
      exact hnew w hw
    · exact h.abB h0 hpre i w (by simp only [if_true]; exact hge) hw hx

theorem osp_frameAuxA1_start_child {gh : Gh} {s : LS} {us : List Nat} {ps : List Nat} {c st : Nat}
    (h : FrameAuxA1 n nb rf r gh s us true ps c st) (hc : st < c) :
    FrameAuxA1 n nb rf r gh s us false ps (c - 1) st := by
  constructor
  · intro h0 hpre i w hi hw hx
    simp only [Bool.false_eq_true, if_false] at hi
    exact h.abF h0 hpre i w (by simp only [if_true]; omega) hw hx
  · intro h0 hpre i w hi hw hx
    simp only [Bool.false_eq_true, if_false] at hi
    exact h.abB h0 hpre i w (by simp only [if_true]; omega) hw hx

theorem osp_frameAuxA1_finish_child {gh : Gh} {s : LS} {us : List Nat} {ps : List Nat} {c st : Nat}
    (h : FrameAuxA1 n nb rf r gh s us false ps c st)
    (hnew : ∀ w, (cellL n nb rf r us ps.length st)[c - st]? = some w →
      ACov n nb rf (lFof n gh) s.firstLeaf.toList (ORel s) (IR.childSt (irG n nb) rf (nodeL n nb rf r us ps.length) st w)) :
    FrameAuxA1 n nb rf r gh s us true ps c st := by
  constructor
  · intro h0 hpre i w hi hw hx
    simp only [if_true] at hi
    rcases Nat.lt_or_ge (c - st) i with hlt | hge
    · exact h.abF h0 hpre i w (by simp only [Bool.false_eq_true, if_false]; exact hlt) hw hx
    · have : i = c - st := by omega
      subst this
      exact hnew w hw
  · intro h0 hpre i w hi hw hx
    simp only [if_true] at hi
    rcases Nat.lt_or_ge (c - st) i with hlt | hge
    · exact h.abB h0 hpre i w (by simp only [Bool.false_eq_true, if_false]; exact hlt) hw hx
    · have : i = c - st := by omega
      subst this
      exact hnew w hw

/-- the child being explored in a `WalkSv` state is the member with index `c - st` of the top frame -/
theorem osp_refine_child {vs : List Nat} {t v : Nat} {st sz : Nat} {ls : List (Nat × Nat)} {s : LS} {p c : Nat}
    {ps cs : List Nat} (hw : WalkSv n nb rf r vs t v ((st, sz) :: ls) s) (hch : s.choices = c :: cs)
    (hpth : s.path = p :: ps) (hcp : c = st + p) :
    vs.length = ps.length ∧ t = st ∧ ∀ w, (cellL n nb rf r vs ps.length st)[c - st]? = some w → w = v := by
  obtain ⟨h1, h2, _, _, h5, _, _, _, h9, _⟩ := hw
  rw [hpth] at h9 h2
  rw [hch] at h9
  simp only [FramesOK, List.length_cons] at h9 h2
  have hvl : vs.length = ps.length := by omega
  obtain ⟨g1, _, g3, _⟩ := h9
  obtain ⟨g3a, _⟩ := g3 (by simp; omega)
  refine ⟨hvl, ?_, ?_⟩
  · have en : nodeL n nb rf r (vs ++ [v]) ps.length = nodeL n nb rf r vs vs.length := by
      rw [← hvl]; exact nodeL_congr (take_append_le vs v (Nat.le_refl _))
    rw [en, h5] at g1
    exact Option.some.inj g1
  · intro w hw'
    have e1 : (vs ++ [v])[ps.length]? = some v := by
      rw [← hvl]; simp
    have ec : cellL n nb rf r (vs ++ [v]) ps.length st = cellL n nb rf r vs ps.length st := by
      unfold cellL
      rw [nodeL_congr (take_append_le vs v (by omega))]
    rw [e1, ec, show p = c - st by omega] at g3a
    rw [hw'] at g3a
    exact (Option.some.inj g3a).symm

end

section
variable {n m : Nat} {nb : Nbrs} {rf : Nat} {r : IR.St}
  (hnb : NbOK nb n) (hsz : nb.size = n) (hm : m = ((nb.toList.map List.length).sum) / 2) (hrf : 3 * n + 3 ≤ rf)
  (hA : IR.InvA (irG n nb) r) (hD : IR.InvD (irG n nb) r)
include hnb hsz hm hrf hA hD

set_option linter.unusedVariables false in
set_option maxHeartbeats 1000000 in
theorem orb_split (gh : Gh) (st sz : Nat) (ls : List (Nat × Nat)) (s : LS) (c : Nat) (cs : List Nat) (p : Nat) (ps : List Nat)
    (ce : Nat) (bo : Disjoint.DS) (w : Bool) (op' : OP) (k : Nat) (hc : Core n s)
    (ht : TopOK s.op (k + 1) s.path s.choices ((st, sz) :: ls))
    (hsk : s.skipDeage = false) (hage : s.op.age + 1 = s.path.length) (hch : s.choices = c :: cs)
    (hpth : s.path = p :: ps) (hget : s.op.order.get (c - 1) = .ok ce)
    (hh : (if (decide (s.count > 0) && !hasPrefix s.flPath.toList ps.reverse && hasPrefix s.bestPath.toList ps.reverse) = true
      then h2Best s.op s.bestOrbits (c - 1) ce else Outcome.ok (false, s.bestOrbits)) = .ok (false, bo))
    (hs : splitBin nb s.currentBest s.firstLeaf s.op (c - 1) = .ok (w, op'))
    (hJ : CertN n m nb ((st, sz) :: ls) s) (hDv : DNv n nb rf r gh ((st, sz) :: ls) s)
    (hAv : ANv n nb rf r gh ((st, sz) :: ls) s) :
    (w = false → ∀ t v, DSv n nb rf r gh t v ((st, sz) :: ls)
        { s with choices := (c - 1) :: cs, bestOrbits := bo, op := op', path := k :: ps } →
      ASv n nb rf r gh v ((st, sz) :: ls)
        { s with choices := (c - 1) :: cs, bestOrbits := bo, op := op', path := k :: ps }) ∧
    (w = true → AAv n nb rf r gh ((st, sz) :: ls)
      { s with choices := (c - 1) :: cs, bestOrbits := bo, op := op', path := k :: ps }) := by
  obtain ⟨hw, hG, hcov, haux⟩ := hDv
  obtain ⟨hGA, hacov, hauxA⟩ := hAv
  obtain ⟨m1, m2, m3, m4, m5⟩ := top_member hc ht hage hch hpth hget hw
  have hGA' : GlobalA n gh { s with choices := (c - 1) :: cs, bestOrbits := bo, op := op', path := k :: ps } :=
    ⟨hGA.bgf, hGA.bestA, hGA.bgsM, hGA.gensM⟩
  rw [hpth, hch] at hacov hauxA
  constructor
  · intro _ t v _
    refine ⟨hGA', ?_, ?_⟩
    · exact osp_acovFrames_congr (gh := gh) (gh' := gh) (s := s)
        (s' := { s with choices := (c - 1) :: cs, bestOrbits := bo, op := op', path := k :: ps })
        rfl rfl (fun _ => rfl) rfl false _ _ _
        (fun L hL => take_append_le gh.vs v (by simp only [List.length_cons] at hL; omega))
        (osp_acovFrames_start_child hacov m3 k)
    · exact osp_frameAuxA_congr (gh := gh) (gh' := gh) (s := s)
        (s' := { s with choices := (c - 1) :: cs, bestOrbits := bo, op := op', path := k :: ps })
        rfl rfl rfl rfl rfl rfl false _ _ _
        (fun L hL => take_append_le gh.vs v (by simp only [List.length_cons] at hL; omega))
        (osp_frameAuxA_mk (p := k) (osp_frameAuxA1_start_child (osp_frameAuxA_head hauxA) m3) (osp_frameAuxA_tail hauxA))
  · intro hwt
    subst hwt
    have hcomp := acov_split_worse hnb hsz hm hrf hA hD st sz ls s c cs p ps op' k hc ht hage hch hpth hs hw hJ
      (lFof n gh) (ORel s)
    have hnew : ∀ w', (cellL n nb rf r gh.vs ps.length st)[c - 1 - st]? = some w' →
        ACov n nb rf (lFof n gh) s.firstLeaf.toList (ORel s)
          (IR.childSt (irG n nb) rf (nodeL n nb rf r gh.vs ps.length) st w') := by
      intro w' hw'
      rw [m2, ← m4] at hw'
      rw [← m4]
      exact hcomp w' hw'
    refine ⟨hGA', ?_, ?_, ?_⟩
    · exact osp_acovFrames_congr (gh := gh) (gh' := gh) (s := s)
        (s' := { s with choices := (c - 1) :: cs, bestOrbits := bo, op := op', path := k :: ps })
        rfl rfl (fun _ => rfl) rfl true _ _ _ (fun _ _ => rfl)
        (osp_acovFrames_step_head hacov m3 (fun w' hw' => Or.inl (hnew w' hw')) k)
    · exact osp_frameAuxA_congr (gh := gh) (gh' := gh) (s := s)
        (s' := { s with choices := (c - 1) :: cs, bestOrbits := bo, op := op', path := k :: ps })
        rfl rfl rfl rfl rfl rfl true _ _ _ (fun _ _ => rfl)
        (osp_frameAuxA_mk (p := k) (osp_frameAuxA1_step_head (osp_frameAuxA_head hauxA) m3 hnew) (osp_frameAuxA_tail hauxA))
    · intro hp
      cases hp

set_option linter.unusedVariables false in
set_option maxHeartbeats 1000000 in
theorem orb_refine (gh : Gh) (t v : Nat) (lv : List (Nat × Nat)) (s : LS) (w : Bool) (op' : OP) (sc' sc2 : Scratch) (hc : Core n s)
    (hl : LevelsOK s.op s.path s.choices lv) (hage : s.op.age = s.path.length) (hsk : s.skipDeage = false)
    (htl : s.sc.timesSeen.len = n) (hJ : CertN n m nb lv s) (hDv : DSv n nb rf r gh t v lv s)
    (hAv : ASv n nb rf r gh v lv s)
    (hr : refine nb s.currentBest s.firstLeaf {} s.op s.sc = .ok (w, op', sc')) :
    (w = true → AAv n nb rf r gh lv { s with op := op', sc := sc2 }) ∧
    (w = false → ANodev n nb rf r { gh with vs := gh.vs ++ [v] } lv { s with op := op', sc := sc2 }) := by
  obtain ⟨hw, hG, hcov, haux, hoff⟩ := hDv
  obtain ⟨hGA, hacov, hauxA⟩ := hAv
  constructor
  · intro hwt
    subst hwt
    have hw' := hw
    obtain ⟨_, h2, _⟩ := hw'
    obtain ⟨p, ps, hpth⟩ : ∃ p ps, s.path = p :: ps := by
      cases hp : s.path with
      | nil => rw [hp] at h2; simp at h2
      | cons p ps => exact ⟨p, ps, rfl⟩
    rw [hpth] at hl
    obtain ⟨c, cs, st, sz, ls, hch, rfl, hcp⟩ := levelsOK_path_ne hl
    obtain ⟨hvl, et, hmem⟩ := osp_refine_child hw hch hpth hcp
    have hcomp := acov_refine_worse hnb hsz hm hrf hA hD ((st, sz) :: ls) s op' sc' hc htl hw hJ hr (lFof n gh) (ORel s)
    rw [hvl, et] at hcomp
    have hnew : ∀ w', (cellL n nb rf r gh.vs ps.length st)[c - st]? = some w' →
        ACov n nb rf (lFof n gh) s.firstLeaf.toList (ORel s)
          (IR.childSt (irG n nb) rf (nodeL n nb rf r gh.vs ps.length) st w') := by
      intro w' hw'
      rw [hmem w' hw']; exact hcomp
    rw [hpth, hch] at hacov hauxA
    have hpre : ∀ L, L < (p :: ps).length → gh.vs.take L = (gh.vs ++ [v]).take L :=
      fun L hL => (take_append_le gh.vs v (by simp only [List.length_cons] at hL; omega)).symm
    have ha1 : ACovFrames n nb rf r gh s gh.vs false (p :: ps) (c :: cs) ((st, sz) :: ls) :=
      osp_acovFrames_congr (gh := gh) (gh' := gh) (s := s) (s' := s) rfl rfl (fun _ => rfl) rfl false _ _ _ hpre hacov
    have hx1 : FrameAuxA n nb rf r gh s gh.vs false (p :: ps) (c :: cs) ((st, sz) :: ls) :=
      osp_frameAuxA_congr (gh := gh) (gh' := gh) (s := s) (s' := s) rfl rfl rfl rfl rfl rfl false _ _ _ hpre hauxA
    refine ⟨⟨hGA.bgf, hGA.bestA, hGA.bgsM, hGA.gensM⟩, ?_, ?_, ?_⟩
    · apply osp_acovFrames_eq hpth hch
      exact osp_acovFrames_congr (gh := gh) (gh' := gh) (s := s) (s' := { s with op := op', sc := sc2 })
        rfl rfl (fun _ => rfl) rfl true _ _ _ (fun _ _ => rfl)
        (osp_acovFrames_finish_child ha1 (fun w' hw' => Or.inl (hnew w' hw')))
    · apply osp_frameAuxA_eq hpth hch
      exact osp_frameAuxA_congr (gh := gh) (gh' := gh) (s := s) (s' := { s with op := op', sc := sc2 })
        rfl rfl rfl rfl rfl rfl true _ _ _ (fun _ _ => rfl)
        (osp_frameAuxA_mk (osp_frameAuxA1_finish_child (osp_frameAuxA_head hx1) hnew) (osp_frameAuxA_tail hx1))
    · intro hp
      have : s.path = [] := hp
      rw [hpth] at this
      cases this
  · intro _
    refine ⟨⟨hGA.bgf, hGA.bestA, hGA.bgsM, hGA.gensM⟩, ?_, ?_⟩
    · exact osp_acovFrames_congr (gh := gh) (gh' := { gh with vs := gh.vs ++ [v] }) (s := s)
        (s' := { s with op := op', sc := sc2 }) rfl rfl (fun _ => rfl) rfl false _ _ _ (fun _ _ => rfl) hacov
    · exact osp_frameAuxA_congr (gh := gh) (gh' := { gh with vs := gh.vs ++ [v] }) (s := s)
        (s' := { s with op := op', sc := sc2 }) rfl rfl rfl rfl rfl rfl false _ _ _ (fun _ _ => rfl) hauxA

end
end CanonF
